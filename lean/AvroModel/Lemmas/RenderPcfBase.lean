import AvroModel.Impl.SchemaRender
import AvroModel.Spec.Pcf
/-
C09 (global): basis for `Lemmas/RenderPcf.lean`.

This module imports only the two implementation models (`Impl/SchemaParse`, `Impl/SchemaRender`)
and the specification (`Spec/Names`, `Spec/Pcf`): neither `Lemmas/SchemaParse` nor
`Lemmas/SchemaRender` (which cannot be imported together), so that the result can be used on
both sides.  Everything is in the namespace `Avro.RenderPcf`.

* `NameWF` — the same three clauses as `Avro.Impl.Name.WF` (`Lemmas/SchemaRender.lean`), with the
  decidable form `nameWFb`;
* the specification's name rules applied to what `serialize_name` / `str_for_ref` write
  (`def_fullname`, `ref_fullname`, `ref_not_primitive`, `fq_text`);
* attributes of the member lists the renderer writes (`attr_*`);
* text of the canonical objects (`print_*`, as in `Lemmas/PcfSpecGraph.lean`);
* generation cells of the two cycle guards (`get_set`, `cell_set`).
-/
namespace Avro.RenderPcf
open Avro Avro.Impl Avro.Spec Avro.Spec.Pcf

/-! ### names -/

/-- What the crate's `Name` can hold (the image of `Name::from_fully_qualified_name`); same
    clauses as `Avro.Impl.Name.WF`. -/
structure NameWF (n : Name) : Prop where
  short_nodot : '.' ∉ n.short.toList
  ns_none : n.ns = none → n.fq = n.short
  ns_some : ∀ x, n.ns = some x → x ≠ "" ∧ n.fq = x ++ "." ++ n.short

/-- decidable form of `NameWF` -/
def nameWFb (n : Name) : Bool :=
  !n.short.toList.contains '.' &&
    match n.ns with
    | none => n.fq == n.short
    | some x => x != "" && n.fq == x ++ "." ++ n.short

theorem nameWFb_iff (n : Name) : nameWFb n = true ↔ NameWF n := by
  obtain ⟨fq, short, ns⟩ := n
  cases ns with
  | none =>
    simp only [nameWFb, Bool.and_eq_true, Bool.not_eq_true', beq_iff_eq]
    constructor
    · rintro ⟨h1, h2⟩
      exact ⟨by simpa using h1, fun _ => h2, fun x hx => by cases hx⟩
    · intro h
      exact ⟨by simpa using h.short_nodot, h.ns_none rfl⟩
  | some x =>
    simp only [nameWFb, Bool.and_eq_true, Bool.not_eq_true', beq_iff_eq, bne_iff_ne]
    constructor
    · rintro ⟨h1, h2, h3⟩
      refine ⟨by simpa using h1, fun h => (by cases h), ?_⟩
      intro y hy
      cases hy
      exact ⟨h2, h3⟩
    · intro h
      exact ⟨by simpa using h.short_nodot, h.ns_some x rfl⟩

theorem splitLastDot_nodot (cs : List Char) (h : '.' ∉ cs) : splitLastDot cs = none := by
  induction cs with
  | nil => rfl
  | cons c rest ih =>
    have h1 : c ≠ '.' := fun e => h (by simp [e])
    have h2 : '.' ∉ rest := fun e => h (List.mem_cons_of_mem _ e)
    simp only [splitLastDot, ih h2, h1, if_false]

theorem splitLastDot_join (xs ys : List Char) (h : '.' ∉ ys) :
    splitLastDot (xs ++ '.' :: ys) = some (xs, ys) := by
  induction xs with
  | nil => simp only [List.nil_append, splitLastDot, splitLastDot_nodot ys h, if_true]
  | cons c rest ih => simp only [List.cons_append, splitLastDot, ih]

theorem toList_join (x short : String) :
    (x ++ "." ++ short).toList = x.toList ++ '.' :: short.toList := by
  have : (".":String).toList = ['.'] := rfl
  simp [String.toList_append, this]

theorem toList_dot_prefix (s : String) : ("." ++ s).toList = [] ++ '.' :: s.toList := by
  have : (".":String).toList = ['.'] := rfl
  simp [String.toList_append, this]

theorem namespaceOf_ne (x : String) (h : x ≠ "") : namespaceOf x = some x := by
  simp [namespaceOf, h]

theorem namespaceOf_empty : namespaceOf "" = none := by simp [namespaceOf]

/-- the text of the fullname `(ns, short)` of a well-formed name is its `fq` -/
theorem fq_text (name : Name) (h : NameWF name) : fullnameText (name.ns, name.short) = name.fq := by
  cases hn : name.ns with
  | none => simp only [fullnameText, h.ns_none hn]
  | some x => simp only [fullnameText, (h.ns_some x hn).2]

theorem fullnameOfRef_nodot (s : String) (enc : Option String) (h : '.' ∉ s.toList) :
    fullnameOfRef s enc = (enc, s) := by
  simp only [fullnameOfRef, splitLastDot_nodot _ h]

theorem fullnameOfRef_join (x short : String) (enc : Option String) (h : '.' ∉ short.toList) :
    fullnameOfRef (x ++ "." ++ short) enc = (namespaceOf x, short) := by
  simp only [fullnameOfRef, toList_join, splitLastDot_join _ _ h, String.ofList_toList]

theorem fullnameOfRef_dot (short : String) (enc : Option String) (h : '.' ∉ short.toList) :
    fullnameOfRef ("." ++ short) enc = (none, short) := by
  simp only [fullnameOfRef, toList_dot_prefix, splitLastDot_join _ _ h, String.ofList_toList]
  rfl

theorem fullnameOfDef_nodot (s : String) (nsAttr enc : Option String) (h : '.' ∉ s.toList) :
    fullnameOfDef s nsAttr enc =
      match nsAttr with
      | some ns => (namespaceOf ns, s)
      | none => (enc, s) := by
  cases nsAttr <;> simp only [fullnameOfDef, splitLastDot_nodot _ h]

theorem fullnameOfDef_join (x short : String) (nsAttr enc : Option String)
    (h : '.' ∉ short.toList) :
    fullnameOfDef (x ++ "." ++ short) nsAttr enc = (namespaceOf x, short) := by
  simp only [fullnameOfDef, toList_join, splitLastDot_join _ _ h, String.ofList_toList]

/-- **Reference spelling, by the specification's rule**: the string written by `str_for_ref`
    denotes, in the same enclosing namespace, the fullname of the name. -/
theorem ref_fullname (name : Name) (h : NameWF name) (parentNs : Option String) :
    fullnameOfRef (refString parentNs name) parentNs = (name.ns, name.short) := by
  unfold refString
  split
  · rename_i hc
    rw [fullnameOfRef_nodot _ _ h.short_nodot, hc.1]
  · cases hn : name.ns with
    | none =>
      simp only [Option.isNone_none, if_true, h.ns_none hn]
      exact fullnameOfRef_dot _ _ h.short_nodot
    | some x =>
      obtain ⟨hx, hfq⟩ := h.ns_some x hn
      simp only [Option.isNone_some, Bool.false_eq_true, if_false, hfq]
      rw [fullnameOfRef_join _ _ _ h.short_nodot, namespaceOf_ne x hx]

theorem isPrimitive_facts (s : String) (h : isPrimitive s = true) :
    '.' ∉ s.toList ∧ (RawType.ofString s).isSome = true := by
  simp only [isPrimitive, primitiveNames, List.contains_eq_mem, List.mem_cons, List.not_mem_nil,
    or_false, decide_eq_true_eq] at h
  rcases h with rfl | rfl | rfl | rfl | rfl | rfl | rfl | rfl <;> exact ⟨by decide, by decide⟩

/-- The string written for a reference is never a primitive type name: either it is a short name
    that is none of the thirteen type names, or it contains a dot. -/
theorem ref_not_primitive (name : Name) (h : NameWF name) (parentNs : Option String) :
    isPrimitive (refString parentNs name) = false := by
  cases hp : isPrimitive (refString parentNs name) with
  | false => rfl
  | true =>
    exfalso
    obtain ⟨hd, ho⟩ := isPrimitive_facts _ hp
    unfold refString at hd ho
    split at hd
    · rename_i hc
      rw [if_pos hc] at ho
      have := hc.2
      rw [Option.isNone_iff_eq_none] at this
      rw [this] at ho
      cases ho
    · cases hn : name.ns with
      | none =>
        simp only [hn, Option.isNone_none, if_true] at hd
        apply hd
        rw [toList_dot_prefix]
        simp
      | some x =>
        simp only [hn, Option.isNone_some, Bool.false_eq_true, if_false] at hd
        apply hd
        rw [(h.ns_some x hn).2, toList_join]
        simp

/-! ### attributes of the written member lists -/

theorem attr_append (key : String) (a b : List (String × Json)) :
    attr key (a ++ b) = match attr key a with
      | some v => some v
      | none => attr key b := by
  induction a with
  | nil => simp only [List.nil_append, attr]
  | cons p rest ih =>
    obtain ⟨k, v⟩ := p
    by_cases hk : k = key <;> simp only [List.cons_append, attr, hk, if_true, if_false, ih]

theorem attr_type_typeMembers (t : String) (l : Option LogicalType) :
    attr "type" (typeMembers t l) = some (.str t) := by
  cases l with
  | none => simp [typeMembers, attr]
  | some lt => cases lt <;> simp [typeMembers, attr]

theorem attr_typeMembers_other (t : String) (l : Option LogicalType) (key : String)
    (h1 : key ≠ "logicalType") (h2 : key ≠ "type") (h3 : key ≠ "scale") (h4 : key ≠ "precision") :
    attr key (typeMembers t l) = none := by
  have h1' : ¬ "logicalType" = key := fun e => h1 e.symm
  have h2' : ¬ "type" = key := fun e => h2 e.symm
  have h3' : ¬ "scale" = key := fun e => h3 e.symm
  have h4' : ¬ "precision" = key := fun e => h4 e.symm
  cases l with
  | none => simp [typeMembers, attr, h2']
  | some lt => cases lt <;> simp [typeMembers, attr, h1', h2', h3', h4']

theorem attr_nameMembers_other (parentNs : Option String) (name : Name) (key : String)
    (h1 : key ≠ "namespace") (h2 : key ≠ "name") : attr key (nameMembers parentNs name) = none := by
  have h1' : ¬ "namespace" = key := fun e => h1 e.symm
  have h2' : ¬ "name" = key := fun e => h2 e.symm
  unfold nameMembers
  split
  · simp [attr, h2']
  · split <;> simp [attr, h1', h2']

theorem strAttr_type_typeMembers (t : String) (l : Option LogicalType)
    (rest : List (String × Json)) : strAttr "type" (typeMembers t l ++ rest) = some t := by
  simp only [strAttr, attr_append, attr_type_typeMembers]

/-- an attribute that is neither one of the type members nor one of the name members is looked
    up in the rest of a named object -/
theorem attr_object_rest (t : String) (l : Option LogicalType) (parentNs : Option String)
    (name : Name) (rest : List (String × Json)) (key : String)
    (h1 : key ≠ "logicalType") (h2 : key ≠ "type") (h3 : key ≠ "scale") (h4 : key ≠ "precision")
    (h5 : key ≠ "namespace") (h6 : key ≠ "name") :
    attr key (typeMembers t l ++ nameMembers parentNs name ++ rest) = attr key rest := by
  simp only [attr_append, attr_typeMembers_other t l key h1 h2 h3 h4,
    attr_nameMembers_other parentNs name key h5 h6]

theorem attr_unnamed_rest (t : String) (l : Option LogicalType)
    (rest : List (String × Json)) (key : String)
    (h1 : key ≠ "logicalType") (h2 : key ≠ "type") (h3 : key ≠ "scale") (h4 : key ≠ "precision") :
    attr key (typeMembers t l ++ rest) = attr key rest := by
  simp only [attr_append, attr_typeMembers_other t l key h1 h2 h3 h4]

/-- **Definition spelling, by the specification's rule**: in the object written for a named type
    (type members, name members, then `rest` without `namespace`), the `name` and
    `namespace` attributes denote, in the same enclosing namespace, the fullname of the name. -/
theorem def_fullname (t : String) (l : Option LogicalType) (name : Name) (h : NameWF name)
    (parentNs : Option String) (rest : List (String × Json))
    (hr2 : attr "namespace" rest = none) :
    ∃ nm, strAttr "name" (typeMembers t l ++ nameMembers parentNs name ++ rest) = some nm ∧
      fullnameOfDef nm
        (strAttr "namespace" (typeMembers t l ++ nameMembers parentNs name ++ rest)) parentNs =
        (name.ns, name.short) := by
  have e1 : attr "name" (typeMembers t l) = none :=
    attr_typeMembers_other t l "name" (by decide) (by decide) (by decide) (by decide)
  have e2 : attr "namespace" (typeMembers t l) = none :=
    attr_typeMembers_other t l "namespace" (by decide) (by decide) (by decide) (by decide)
  have n1 : ¬ "name" = "namespace" := by decide
  have n2 : ¬ "namespace" = "name" := by decide
  by_cases hc : parentNs = name.ns
  · have hm : nameMembers parentNs name = [("name", .str name.short)] := by
      simp only [nameMembers, hc, if_true]
    refine ⟨name.short, ?_, ?_⟩
    · simp only [strAttr, attr_append, e1, hm, attr, if_true]
    · simp only [strAttr, attr_append, e2, hm, attr, n1, if_false, hr2]
      rw [fullnameOfDef_nodot _ _ _ h.short_nodot, hc]
  · cases hn : name.ns with
    | none =>
      have hm : nameMembers parentNs name = [("namespace", .str ""), ("name", .str name.short)] := by
        rw [hn] at hc
        simp only [nameMembers, hc, if_false, hn, Option.isNone_none, if_true]
      refine ⟨name.short, ?_, ?_⟩
      · simp only [strAttr, attr_append, e1, hm, attr, n2, if_false, if_true]
      · simp only [strAttr, attr_append, e2, hm, attr, if_true]
        rw [fullnameOfDef_nodot _ _ _ h.short_nodot]
        simp only [namespaceOf_empty]
    | some x =>
      obtain ⟨hx, hfq⟩ := h.ns_some x hn
      have hm : nameMembers parentNs name = [("name", .str name.fq)] := by
        rw [hn] at hc
        simp only [nameMembers, hc, if_false, hn, Option.isNone_some, Bool.false_eq_true]
      refine ⟨name.fq, ?_, ?_⟩
      · simp only [strAttr, attr_append, e1, hm, attr, if_true]
      · rw [hfq, fullnameOfDef_join _ _ _ _ h.short_nodot, namespaceOf_ne x hx]

/-! ### attribute-directed recursions of the specification, through `attr` -/

theorem canonAttr_eq (enc : Option String) (key : String) (ms : List (String × Json)) :
    canonAttr enc key ms = (attr key ms).bind (canon enc) := by
  induction ms with
  | nil => simp [canonAttr, attr]
  | cons p rest ih =>
    obtain ⟨k, v⟩ := p
    by_cases hk : k = key <;> simp [canonAttr, attr, hk, ih]

theorem fieldsAttr_eq (enc : Option String) (ms : List (String × Json)) :
    fieldsAttr enc ms =
      match attr "fields" ms with
      | some (.arr fs) => canonFields enc fs
      | _ => none := by
  induction ms with
  | nil => simp [fieldsAttr, attr]
  | cons p rest ih =>
    obtain ⟨k, v⟩ := p
    by_cases hk : k = "fields"
    · cases v <;> simp only [fieldsAttr, attr, hk, if_true]
    · cases v <;> simp only [fieldsAttr, attr, hk, if_false, ih]

theorem scanAttr_eq (enc : Option String) (key : String) (ms : List (String × Json))
    (D : List Fullname) :
    scanAttr enc key ms D =
      match attr key ms with
      | some v => scan enc v D
      | none => some D := by
  induction ms with
  | nil => simp [scanAttr, attr]
  | cons p rest ih =>
    obtain ⟨k, v⟩ := p
    by_cases hk : k = key <;> simp [scanAttr, attr, hk, ih]

theorem scanFieldsAttr_eq (enc : Option String) (ms : List (String × Json)) (D : List Fullname) :
    scanFieldsAttr enc ms D =
      match attr "fields" ms with
      | some (.arr fs) => scanFields enc fs D
      | _ => some D := by
  induction ms with
  | nil => simp [scanFieldsAttr, attr]
  | cons p rest ih =>
    obtain ⟨k, v⟩ := p
    by_cases hk : k = "fields"
    · cases v <;> simp only [scanFieldsAttr, attr, hk, if_true]
    · cases v <;> simp only [scanFieldsAttr, attr, hk, if_false, ih]

theorem strings_map_str (l : List String) : strings (l.map Json.str) = some l := by
  induction l with
  | nil => rfl
  | cons a l ih => simp only [List.map_cons, strings, ih, Option.map_some]

/-! ### text of the canonical objects (as in `Lemmas/PcfSpecGraph.lean`) -/

theorem print_str (s : String) : print (.str s) = "\"" ++ s ++ "\"" := by simp only [print]

theorem print_array (c : Json) :
    print (.obj [("type", .str "array"), ("items", c)]) =
      "{\"type\":\"array\",\"items\":" ++ print c ++ "}" := by
  have e : ("{\"type\":\"array\",\"items\":" : String) =
      "{" ++ "\"" ++ "type" ++ "\":" ++ "\"" ++ "array" ++ "\"" ++ ",\"" ++ "items" ++ "\":" := by
    decide
  rw [e]
  simp only [print, printMembers, printMembersTail, String.append_assoc, String.append_empty]

theorem print_map (c : Json) :
    print (.obj [("type", .str "map"), ("values", c)]) =
      "{\"type\":\"map\",\"values\":" ++ print c ++ "}" := by
  have e : ("{\"type\":\"map\",\"values\":" : String) =
      "{" ++ "\"" ++ "type" ++ "\":" ++ "\"" ++ "map" ++ "\"" ++ ",\"" ++ "values" ++ "\":" := by
    decide
  rw [e]
  simp only [print, printMembers, printMembersTail, String.append_assoc, String.append_empty]

theorem print_field (n : String) (c : Json) :
    print (.obj [("name", .str n), ("type", c)]) =
      "{\"name\":\"" ++ n ++ "\",\"type\":" ++ print c ++ "}" := by
  have e1 : ("{\"name\":\"" : String) = "{" ++ "\"" ++ "name" ++ "\":" ++ "\"" := by decide
  have e2 : ("\",\"type\":" : String) = "\"" ++ ",\"" ++ "type" ++ "\":" := by decide
  rw [e1, e2]
  simp only [print, printMembers, printMembersTail, String.append_assoc, String.append_empty]

theorem print_record (fq : String) (fs : List Json) :
    print (.obj [("name", .str fq), ("type", .str "record"), ("fields", .arr fs)]) =
      "{\"name\":\"" ++ fq ++ "\",\"type\":\"record\",\"fields\":[" ++ printList fs ++ "]}" := by
  have e1 : ("{\"name\":\"" : String) = "{" ++ "\"" ++ "name" ++ "\":" ++ "\"" := by decide
  have e2 : ("\",\"type\":\"record\",\"fields\":[" : String) =
      "\"" ++ ",\"" ++ "type" ++ "\":" ++ "\"" ++ "record" ++ "\"" ++ ",\"" ++ "fields" ++ "\":" ++ "[" := by
    decide
  have e3 : ("]}" : String) = "]" ++ "}" := by decide
  rw [e1, e2, e3]
  simp only [print, printMembers, printMembersTail, String.append_assoc, String.append_empty]

theorem printTail_strs (l : List String) :
    printTail (l.map Json.str) =
      match l with
      | [] => ""
      | _ :: _ => "," ++ joinWith "," (l.map fun s => "\"" ++ s ++ "\"") := by
  induction l with
  | nil => simp only [List.map_nil, printTail]
  | cons a l ih =>
    simp only [List.map_cons, printTail, print, ih]
    cases l with
    | nil => simp only [List.map_nil, joinWith, String.append_empty]
    | cons b l => simp only [List.map_cons, joinWith, String.append_assoc]

theorem printList_strs (l : List String) :
    printList (l.map Json.str) = joinWith "," (l.map fun s => "\"" ++ s ++ "\"") := by
  cases l with
  | nil => simp only [List.map_nil, printList, joinWith]
  | cons a l =>
    simp only [List.map_cons, printList, print, printTail_strs]
    cases l with
    | nil => simp only [List.map_nil, joinWith, String.append_empty]
    | cons b l => simp only [List.map_cons, joinWith, String.append_assoc]

theorem print_enum (fq : String) (syms : List String) :
    print (.obj [("name", .str fq), ("type", .str "enum"), ("symbols", .arr (syms.map Json.str))]) =
      "{\"name\":\"" ++ fq ++ "\",\"type\":\"enum\",\"symbols\":[" ++
        joinWith "," (syms.map fun s => "\"" ++ s ++ "\"") ++ "]}" := by
  have e1 : ("{\"name\":\"" : String) = "{" ++ "\"" ++ "name" ++ "\":" ++ "\"" := by decide
  have e2 : ("\",\"type\":\"enum\",\"symbols\":[" : String) =
      "\"" ++ ",\"" ++ "type" ++ "\":" ++ "\"" ++ "enum" ++ "\"" ++ ",\"" ++ "symbols" ++ "\":" ++ "[" := by
    decide
  have e3 : ("]}" : String) = "]" ++ "}" := by decide
  rw [e1, e2, e3, ← printList_strs]
  simp only [print, printMembers, printMembersTail, String.append_assoc, String.append_empty]

theorem print_fixed (fq : String) (size : Nat) :
    print (.obj [("name", .str fq), ("type", .str "fixed"), ("size", .nat size)]) =
      "{\"name\":\"" ++ fq ++ "\",\"type\":\"fixed\",\"size\":" ++ toString size ++ "}" := by
  have e1 : ("{\"name\":\"" : String) = "{" ++ "\"" ++ "name" ++ "\":" ++ "\"" := by decide
  have e2 : ("\",\"type\":\"fixed\",\"size\":" : String) =
      "\"" ++ ",\"" ++ "type" ++ "\":" ++ "\"" ++ "fixed" ++ "\"" ++ ",\"" ++ "size" ++ "\":" := by
    decide
  rw [e1, e2]
  simp only [print, printMembers, printMembersTail, String.append_assoc, String.append_empty]

theorem print_union (cs : List Json) : print (.arr cs) = "[" ++ printList cs ++ "]" := by
  simp only [print]

/-! ### generation cells -/

theorem lookup_filter_ne (l : List (Nat × Nat)) (i j : Nat) (h : j ≠ i) :
    (l.filter (·.1 ≠ i)).lookup j = l.lookup j := by
  induction l with
  | nil => rfl
  | cons x xs ih =>
    obtain ⟨a, b⟩ := x
    by_cases ha : a = i
    · subst ha
      have : (j == a) = false := by simpa using h
      have hd : decide ((a, b).1 ≠ a) = false := by simp
      simp only [List.filter, hd, List.lookup_cons, this, ih]
    · have : decide ((a, b).1 ≠ i) = true := by simpa using ha
      simp only [List.filter, this, List.lookup_cons, ih]

theorem lookup_set (l : List (Nat × Nat)) (i v j : Nat) :
    (((i, v) :: l.filter (·.1 ≠ i)).lookup j).getD 0 =
      if j = i then v else (l.lookup j).getD 0 := by
  by_cases h : j = i
  · subst h; simp
  · have : (j == i) = false := by simpa using h
    simp only [List.lookup_cons, this, lookup_filter_ne _ _ _ h, h, if_false]

theorem get_set (st : RenderState) (i v j : Nat) :
    (st.set i v).get j = if j = i then v else st.get j := by
  simp only [RenderState.get, RenderState.set]
  exact lookup_set st.gen i v j

theorem nWritten_set (st : RenderState) (i v : Nat) : (st.set i v).nWritten = st.nWritten := rfl

/-- generation cell of the canonical-form writer's guard -/
def cell (ps : PcfState) (i : Nat) : Nat := (ps.onPath.lookup i).getD 0

end Avro.RenderPcf
