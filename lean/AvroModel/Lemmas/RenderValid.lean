import AvroModel.Lemmas.RenderValidBase
/-
C09: the document the renderer writes for a node graph is a VALID document (`Spec.ValidDoc`),
and has no unconditional record cycle if the graph has none.

The walk of the renderer (`render` / `renderList` / `renderFields`) in lock step with the
recursions of `Spec/ValidDoc.lean` on the document written (`definedNamesIn`, `wellTyped`,
`ranked`; `shape` and `noForwardRefs` are `Lemmas/RenderPcf.lean`).  Invariant `InvW S st W`: `W`
is the list, in document order, of the named nodes written in full so far:

* `written` — a named node has a non-zero generation cell iff it is in `W`;
* `nodup`   — no node occurs twice in `W`;
* `reach`   — every node of `W` is a named node reachable from the root.

The walk also records what it covers (`Covered`): at the end every node reachable from the root
is covered, so that `W` is EXACTLY the set of reachable named nodes and every reachable key is in
bounds (`render_doc_facts`).  With every node rendered in full it records `PQ Q node`: "if `Q`
then `nodeOkB node`", where the claims assume that `Q` implies `wellTyped` of the document at
hand; with `Q := wellTyped` of the whole document this gives the converse
`wellTyped j = true → NodesOk S`.

Hypotheses on the graph, all on the nodes REACHABLE from the root (`Reach S`) except the first:
* `NamesWF S` (as `Lemmas/RenderPcf.lean`; on all nodes there) — the only one the walk itself
  needs;
* `DistinctNames S`: two reachable named nodes with the same fullname are the same node —
  equivalent to `namesDistinct` of the document (`render_namesDistinct_iff`);
* `NodesOk S`: `logicalOkB` of the logical type; the size of a `fixed` fits 64 bits —
  equivalent to `wellTyped` of the document (`render_doc_facts`);
* `RankOk S rank`: a record ranks above the named types that are the type of one of its fields —
  for `ranked`; obtained from a ranking of the record NODES (`RecRanked`, `rankOk_of`).

Decidable forms at the end (`reachList`, `closedB`, `graphOkB`).
-/
namespace Avro.RenderValid
open Avro Avro.Impl Avro.Spec Avro.Spec.Pcf Avro.RenderPcf

/-- the nodes reachable from the root (node 0) through `RegularType.children` -/
inductive Reach (S : SchemaMut) : Nat → Prop
  | root : Reach S 0
  | step {i j : Nat} {node : RawNode} :
      Reach S i → S[i]? = some node → j ∈ node.type.children → Reach S j

/-- fullname of the named node `i` -/
def fnOf (S : SchemaMut) (i : Nat) : Fullname :=
  match S[i]? with
  | some node =>
    match nameOf node.type with
    | some nm => (nm.ns, nm.short)
    | none => (none, "")
  | none => (none, "")

theorem fnOf_eq {S : SchemaMut} {i : Nat} {node : RawNode} {nm : Name}
    (hk : S[i]? = some node) (hn : nameOf node.type = some nm) : fnOf S i = (nm.ns, nm.short) := by
  simp only [fnOf, hk, hn]

/-- **Distinct fullnames**: two named nodes reachable from the root that have the same fullname
    are the same node. -/
def DistinctNames (S : SchemaMut) : Prop :=
  ∀ (i j : Nat) (ni nj : RawNode) (nmi nmj : Name), Reach S i → Reach S j →
    S[i]? = some ni → S[j]? = some nj → nameOf ni.type = some nmi → nameOf nj.type = some nmj →
    (nmi.ns, nmi.short) = (nmj.ns, nmj.short) → i = j

/-- what the parser demands of the numbers and of the logical type of a node -/
def nodeOkB (node : RawNode) : Bool :=
  logicalOkB node.logical &&
    match node.type with
    | .fixed _ size => decide (size ≤ 2 ^ 64 - 1)
    | _ => true

def NodesOk (S : SchemaMut) : Prop :=
  ∀ (i : Nat) (node : RawNode), Reach S i → S[i]? = some node → nodeOkB node = true

/-- `rank` puts every reachable record above the named types that are the type of one of its
    fields -/
def RankOk (S : SchemaMut) (rank : Fullname → Nat) : Prop :=
  ∀ (i : Nat) (ni : RawNode) (nmi : Name) (fs : List (String × Nat)) (k : Nat) (nk : RawNode)
    (nmk : Name), Reach S i → S[i]? = some ni → ni.type = .record nmi fs → k ∈ fs.map (·.2) →
    S[k]? = some nk → nameOf nk.type = some nmk →
    rank (nmk.ns, nmk.short) < rank (nmi.ns, nmi.short)

structure InvW (S : SchemaMut) (st : RenderState) (W : List Nat) : Prop where
  pos : 0 < st.nWritten
  written : ∀ (i : Nat) (node : RawNode) (nm : Name),
    S[i]? = some node → nameOf node.type = some nm → (0 < st.get i ↔ i ∈ W)
  nodup : W.Nodup
  reach : ∀ i ∈ W, Reach S i ∧ ∃ node nm, S[i]? = some node ∧ nameOf node.type = some nm

theorem InvW.init (S : SchemaMut) : InvW S {} [] := by
  refine ⟨by decide, ?_, by simp, by simp⟩
  intro i node nm _ _
  simp [RenderState.get]

/-- setting the cell of an unnamed node -/
theorem InvW.set_unnamed {S : SchemaMut} {st : RenderState} {W : List Nat} (h : InvW S st W)
    (key : Nat) (node : RawNode) (hk : S[key]? = some node) (hu : nameOf node.type = none)
    (v : Nat) : InvW S (st.set key v) W := by
  refine ⟨h.pos, ?_, h.nodup, h.reach⟩
  intro i n nm hi hn
  have hne : i ≠ key := by
    intro e; subst e; rw [hk] at hi; cases hi; rw [hu] at hn; cases hn
  rw [get_set]
  simp only [hne, if_false]
  exact h.written i n nm hi hn

/-- the first visit of a named node -/
theorem InvW.define {S : SchemaMut} {st : RenderState} {W : List Nat} (h : InvW S st W)
    (key : Nat) (node : RawNode) (nm : Name)
    (hk : S[key]? = some node) (hn : nameOf node.type = some nm) (hr : Reach S key)
    (hw : ¬ 0 < st.get key) : InvW S (namedEnter st key) (W ++ [key]) := by
  have hnotin : key ∉ W := fun hm => hw ((h.written key node nm hk hn).mpr hm)
  refine ⟨?_, ?_, ?_, ?_⟩
  · show 0 < st.nWritten + 1
    omega
  · intro i n nm' hi hn'
    rw [get_namedEnter]
    by_cases hik : i = key
    · subst hik
      simp only [if_true, List.mem_append, List.mem_singleton, or_true, iff_true]
      exact h.pos
    · simp only [hik, if_false, List.mem_append, List.mem_singleton, or_false]
      exact h.written i n nm' hi hn'
  · rw [List.nodup_append]
    refine ⟨h.nodup, by simp, ?_⟩
    intro a ha b hb
    simp only [List.mem_singleton] at hb
    subst hb
    intro e
    subst e
    exact hnotin ha
  · intro i hi
    rcases List.mem_append.mp hi with hi | hi
    · exact h.reach i hi
    · simp only [List.mem_singleton] at hi
      subst hi
      exact ⟨hr, node, nm, hk, hn⟩

/-! ### what the walk covers

`Covered S W k`: the node `k` exists, and either it is a named node of `W` (written in full
somewhere) or it is an unnamed node all of whose children are covered.  Used to show that the
walk reaches EVERY node reachable from the root (`reach_covered`): the renderer succeeding
implies that the reachable keys are in bounds, and `W` is exactly the set of reachable named
nodes. -/

inductive Covered (S : SchemaMut) (P : RawNode → Prop) (W : List Nat) : Nat → Prop
  | named {k : Nat} {node : RawNode} {nm : Name} :
      S[k]? = some node → nameOf node.type = some nm → k ∈ W → Covered S P W k
  | unnamed {k : Nat} {node : RawNode} :
      S[k]? = some node → nameOf node.type = none → P node →
      (∀ c ∈ node.type.children, Covered S P W c) → Covered S P W k

theorem Covered.mono {S : SchemaMut} {P : RawNode → Prop} {W W' : List Nat}
    (h : ∀ i ∈ W, i ∈ W') {k : Nat} (hc : Covered S P W k) : Covered S P W' k := by
  induction hc with
  | named hk hn hm => exact .named hk hn (h _ hm)
  | unnamed hk hn hp _ ih => exact .unnamed hk hn hp ih

/-- the nodes of `new` satisfy `P` and their children are covered -/
def ChildrenCovered (S : SchemaMut) (P : RawNode → Prop) (W new : List Nat) : Prop :=
  ∀ i ∈ new, ∀ node, S[i]? = some node → P node ∧ ∀ c ∈ node.type.children, Covered S P W c

theorem ChildrenCovered.mono {S : SchemaMut} {P : RawNode → Prop} {W W' new : List Nat}
    (h : ∀ i ∈ W, i ∈ W') (hc : ChildrenCovered S P W new) : ChildrenCovered S P W' new :=
  fun i hi node hk => ⟨(hc i hi node hk).1, fun c hcm => ((hc i hi node hk).2 c hcm).mono h⟩

theorem ChildrenCovered.nil (S : SchemaMut) (P : RawNode → Prop) (W : List Nat) :
    ChildrenCovered S P W [] := by
  intro i hi; cases hi

theorem ChildrenCovered.append {S : SchemaMut} {P : RawNode → Prop} {W a b : List Nat}
    (ha : ChildrenCovered S P W a) (hb : ChildrenCovered S P W b) :
    ChildrenCovered S P W (a ++ b) := by
  intro i hi
  rcases List.mem_append.mp hi with h | h
  · exact ha i h
  · exact hb i h

/-- every reachable node is covered by a `W` that contains the root's cover and is closed -/
theorem reach_covered {S : SchemaMut} {P : RawNode → Prop} {W : List Nat}
    (h0 : Covered S P W 0) (hc : ChildrenCovered S P W W) {k : Nat} (hr : Reach S k) :
    Covered S P W k := by
  induction hr with
  | root => exact h0
  | step _ hk hcm ih =>
    cases ih with
    | named hk' hn hm =>
      rw [hk] at hk'; cases hk'
      exact (hc _ hm _ hk).2 _ hcm
    | unnamed hk' hn _ hall =>
      rw [hk] at hk'; cases hk'
      exact hall _ hcm

/-- ... and satisfies `P` -/
theorem covered_P {S : SchemaMut} {P : RawNode → Prop} {W : List Nat}
    (hc : ChildrenCovered S P W W) {k : Nat} {node : RawNode} (hk : S[k]? = some node)
    (h : Covered S P W k) : P node := by
  cases h with
  | named hk' _ hm => exact (hc _ hm _ hk).1
  | unnamed hk' _ hp _ => rw [hk] at hk'; cases hk'; exact hp

/-- the property recorded for every node the walk renders in full: if `Q` (the whole document is
    `wellTyped`) then the node is `nodeOkB` -/
def PQ (Q : Prop) : RawNode → Prop := fun node => Q → nodeOkB node = true

theorem nodeOkB_of (node : RawNode) (h1 : logicalOkB node.logical = true)
    (h2 : ∀ nm sz, node.type = .fixed nm sz → sz ≤ 2 ^ 64 - 1) : nodeOkB node = true := by
  unfold nodeOkB
  rw [h1, Bool.true_and]
  cases ht : node.type <;> try rfl
  rename_i nm sz
  simpa using h2 nm sz ht

theorem render_not_null {S : SchemaMut} {f k : Nat} {ns : Option String} {st st' : RenderState}
    {j : Json} (h : render S f k ns st = .ok (j, st')) : isNull j = false := by
  cases f with
  | zero => simp [render] at h
  | succ f =>
  cases hk : S[k]? with
  | none => simp [render, hk] at h
  | some node =>
    obtain ⟨ty, lg⟩ := node
    have prim : ∀ t, primText ty = some t → isNull j = false := by
      intro t hp
      obtain ⟨-, hj⟩ := render_prim_inv hk hp h
      cases lg <;> (rw [hj]; rfl)
    have named : ∀ nm, nameOf ty = some nm → 0 < st.get k → isNull j = false := by
      intro nm hn hw
      obtain ⟨rfl, -⟩ := render_named_again_inv hk hn hw h
      rfl
    cases ty with
    | null => exact prim "null" rfl
    | boolean => exact prim "boolean" rfl
    | int => exact prim "int" rfl
    | long => exact prim "long" rfl
    | float => exact prim "float" rfl
    | double => exact prim "double" rfl
    | bytes => exact prim "bytes" rfl
    | string => exact prim "string" rfl
    | array items => obtain ⟨-, j1, st1, -, rfl, -⟩ := render_array_inv hk h; rfl
    | map values => obtain ⟨-, j1, st1, -, rfl, -⟩ := render_map_inv hk h; rfl
    | union vs => obtain ⟨-, js, st1, -, rfl, -⟩ := render_union_inv hk h; rfl
    | record nm fields =>
      by_cases hw : 0 < st.get k
      · exact named nm rfl hw
      · obtain ⟨js, -, rfl⟩ := render_record_inv hk hw h; rfl
    | enum nm syms =>
      by_cases hw : 0 < st.get k
      · exact named nm rfl hw
      · obtain ⟨rfl, -⟩ := render_enum_inv hk hw h; rfl
    | fixed nm size =>
      by_cases hw : 0 < st.get k
      · exact named nm rfl hw
      · obtain ⟨rfl, -⟩ := render_fixed_inv hk hw h; rfl

/-- the renderer refuses a union that carries a logical type -/
theorem render_union_logical {S : SchemaMut} {f key : Nat} {ns : Option String}
    {st st' : RenderState} {j : Json} {lg : Option LogicalType} {vs : List Nat}
    (hk : S[key]? = some ⟨.union vs, lg⟩)
    (h : render S (f + 1) key ns st = .ok (j, st')) : lg = none := by
  simp only [render, hk] at h
  split at h
  · cases h
  · rename_i hl
    cases lg with
    | none => rfl
    | some lt => simp at hl

/-! ### `directBelow` of the type of a field -/

theorem render_directBelow {S : SchemaMut} (hwf : NamesWF S) (rank : Fullname → Nat)
    (owner : Fullname) {f k : Nat} {ns : Option String} {st st' : RenderState} {j : Json}
    (h : render S f k ns st = .ok (j, st'))
    (hb : ∀ node nm, S[k]? = some node → nameOf node.type = some nm →
      rank (nm.ns, nm.short) < rank owner) :
    directBelow rank owner ns j = true := by
  cases f with
  | zero => simp [render] at h
  | succ f =>
  cases hk : S[k]? with
  | none => simp [render, hk] at h
  | some node =>
    obtain ⟨ty, lg⟩ := node
    have prim : ∀ t, primText ty = some t → directBelow rank owner ns j = true := by
      intro t hp
      obtain ⟨-, hj⟩ := render_prim_inv hk hp h
      have hprim := primText_isPrimitive hp
      cases lg with
      | none => rw [hj]; simp only [directBelow, hprim, Bool.true_or]
      | some lt =>
        rw [hj]
        apply directBelow_obj_noname
        have := strAttr_name_unnamed t (some lt) [] rfl
        rwa [List.append_nil] at this
    have named : ∀ nm, nameOf ty = some nm → 0 < st.get k →
        directBelow rank owner ns j = true := by
      intro nm hn hw
      obtain ⟨rfl, -⟩ := render_named_again_inv hk hn hw h
      have hnm := hwf k _ nm hk hn
      simp only [directBelow, ref_fullname nm hnm ns, hb _ nm hk hn, decide_true, Bool.or_true]
    cases ty with
    | null => exact prim "null" rfl
    | boolean => exact prim "boolean" rfl
    | int => exact prim "int" rfl
    | long => exact prim "long" rfl
    | float => exact prim "float" rfl
    | double => exact prim "double" rfl
    | bytes => exact prim "bytes" rfl
    | string => exact prim "string" rfl
    | array items =>
      obtain ⟨-, j1, st1, -, rfl, -⟩ := render_array_inv hk h
      exact directBelow_obj_noname _ _ _ _ (strAttr_name_unnamed _ _ _ (by simp [attr]))
    | map values =>
      obtain ⟨-, j1, st1, -, rfl, -⟩ := render_map_inv hk h
      exact directBelow_obj_noname _ _ _ _ (strAttr_name_unnamed _ _ _ (by simp [attr]))
    | union vs =>
      obtain ⟨-, js, st1, -, rfl, -⟩ := render_union_inv hk h
      simp only [directBelow]
    | record nm fields =>
      by_cases hw : 0 < st.get k
      · exact named nm rfl hw
      · obtain ⟨js, -, rfl⟩ := render_record_inv hk hw h
        have hnm := hwf k _ nm hk rfl
        have hty : strAttr "type" (typeMembers "record" lg ++ nameMembers ns nm ++
            [("fields", .arr js)]) = some "record" := by
          rw [List.append_assoc]; exact strAttr_type_typeMembers _ _ _
        obtain ⟨nmstr, hname, hfull⟩ := def_fullname "record" lg nm hnm ns
          [("fields", .arr js)] (by simp [attr])
        rw [directBelow_obj_named _ _ _ _ _ _ hty hname, hfull]
        simp only [hb _ nm hk rfl, decide_true, Bool.or_true]
    | enum nm syms =>
      by_cases hw : 0 < st.get k
      · exact named nm rfl hw
      · obtain ⟨rfl, -⟩ := render_enum_inv hk hw h
        have hnm := hwf k _ nm hk rfl
        have hty : strAttr "type" (typeMembers "enum" lg ++ nameMembers ns nm ++
            [("symbols", .arr (syms.map .str))]) = some "enum" := by
          rw [List.append_assoc]; exact strAttr_type_typeMembers _ _ _
        obtain ⟨nmstr, hname, -⟩ := def_fullname "enum" lg nm hnm ns
          [("symbols", .arr (syms.map .str))] (by simp [attr])
        rw [directBelow_obj_named _ _ _ _ _ _ hty hname]
        rfl
    | fixed nm size =>
      by_cases hw : 0 < st.get k
      · exact named nm rfl hw
      · obtain ⟨rfl, -⟩ := render_fixed_inv hk hw h
        have hnm := hwf k _ nm hk rfl
        have hty : strAttr "type" (typeMembers "fixed" lg ++ nameMembers ns nm ++
            [("size", .nat size)]) = some "fixed" := by
          rw [List.append_assoc]; exact strAttr_type_typeMembers _ _ _
        obtain ⟨nmstr, hname, -⟩ := def_fullname "fixed" lg nm hnm ns
          [("size", .nat size)] (by simp [attr])
        rw [directBelow_obj_named _ _ _ _ _ _ hty hname]
        rfl

/-! ### the three statements

Only `NamesWF S` is a hypothesis of the walk; `NodesOk S` is needed for `wellTyped` only,
`RankOk S rank` for `ranked` only, and `DistinctNames S` only at the end (`W` has no repetition
as a list of nodes; its fullnames have none if distinct nodes have distinct fullnames). -/

def ClaimN (S : SchemaMut) (rank : Fullname → Nat) (Q : Prop) (f : Nat) : Prop :=
  ∀ key ns st j st' W, render S f key ns st = .ok (j, st') → Reach S key → InvW S st W →
    (Q → wellTyped j = true) →
    ∃ new, InvW S st' (W ++ new) ∧ definedNamesIn ns j = new.map (fnOf S) ∧
      (NodesOk S → wellTyped j = true) ∧ (RankOk S rank → ranked rank ns j = true) ∧
      Covered S (PQ Q) (W ++ new) key ∧ ChildrenCovered S (PQ Q) (W ++ new) new

def ClaimL (S : SchemaMut) (rank : Fullname → Nat) (Q : Prop) (f : Nat) : Prop :=
  ∀ vs ns st js st' W, renderList S f vs ns st = .ok (js, st') → (∀ k ∈ vs, Reach S k) →
    InvW S st W → (Q → wtList js = true) →
    ∃ new, InvW S st' (W ++ new) ∧ defsList ns js = new.map (fnOf S) ∧
      (NodesOk S → wtList js = true) ∧ (RankOk S rank → rankedList rank ns js = true) ∧
      (∀ k ∈ vs, Covered S (PQ Q) (W ++ new) k) ∧ ChildrenCovered S (PQ Q) (W ++ new) new

def ClaimF (S : SchemaMut) (rank : Fullname → Nat) (Q : Prop) (f : Nat) : Prop :=
  ∀ fields ns st js st' W owner, renderFields S f fields ns st = .ok (js, st') →
    (∀ p ∈ fields, Reach S p.2) → owner.1 = ns → InvW S st W → (Q → wtFields js = true) →
    ∃ new, InvW S st' (W ++ new) ∧ defsFields ns js = new.map (fnOf S) ∧
      (NodesOk S → wtFields js = true) ∧
      ((∀ p ∈ fields, ∀ node nm, S[p.2]? = some node → nameOf node.type = some nm →
        rank (nm.ns, nm.short) < rank owner) → RankOk S rank →
        rankedFields rank owner js = true) ∧
      (∀ p ∈ fields, Covered S (PQ Q) (W ++ new) p.2) ∧ ChildrenCovered S (PQ Q) (W ++ new) new

section
variable {S : SchemaMut} {rank : Fullname → Nat} {Q : Prop} {f : Nat}

theorem mem_append_left' {W new : List Nat} : ∀ i ∈ W, i ∈ W ++ new :=
  fun _ hi => List.mem_append_left _ hi

theorem claimL_succ (ihN : ClaimN S rank Q f) (ihL : ClaimL S rank Q f) : ClaimL S rank Q (f + 1) := by
  intro vs ns st js st' W h hr hinv hq
  cases vs with
  | nil =>
    obtain ⟨rfl, rfl⟩ := renderList_nil_inv h
    exact ⟨[], by simpa using hinv, by simp [defsList], fun _ => by simp [wtList],
      fun _ => by simp [rankedList], fun k hk => (by cases hk), ChildrenCovered.nil _ _ _⟩
  | cons k rest =>
    obtain ⟨j1, st1, js2, h1, h2, rfl⟩ := renderList_cons_inv h
    obtain ⟨new1, hi1, hd1, hw1, hr1, hc1, hcl1⟩ :=
      ihN k ns st j1 st1 W h1 (hr k List.mem_cons_self) hinv
        (fun q => by have := hq q; simp only [wtList, Bool.and_eq_true] at this; exact this.1)
    obtain ⟨new2, hi2, hd2, hw2, hr2, hc2, hcl2⟩ := ihL rest ns st1 js2 st' _ h2
      (fun k' hk' => hr k' (List.mem_cons_of_mem _ hk')) hi1
      (fun q => by have := hq q; simp only [wtList, Bool.and_eq_true] at this; exact this.2)
    refine ⟨new1 ++ new2, by rw [← List.append_assoc]; exact hi2, ?_, ?_, ?_, ?_, ?_⟩
    · simp only [defsList, hd1, hd2, List.map_append]
    · intro hok; simp only [wtList, hw1 hok, hw2 hok, Bool.and_self]
    · intro hR; simp only [rankedList, hr1 hR, hr2 hR, Bool.and_self]
    · rw [← List.append_assoc]
      intro k' hk'
      rcases List.mem_cons.mp hk' with rfl | hk'
      · exact hc1.mono mem_append_left'
      · exact hc2 k' hk'
    · rw [← List.append_assoc]
      exact (hcl1.mono mem_append_left').append hcl2

theorem claimF_succ (hwf : NamesWF S) (ihN : ClaimN S rank Q f) (ihF : ClaimF S rank Q f) :
    ClaimF S rank Q (f + 1) := by
  intro fields ns st js st' W owner h hr how hinv hq
  cases fields with
  | nil =>
    obtain ⟨rfl, rfl⟩ := renderFields_nil_inv h
    exact ⟨[], by simpa using hinv, by simp [defsFields], fun _ => by simp [wtFields],
      fun _ _ => by simp [rankedFields], fun k hk => (by cases hk), ChildrenCovered.nil _ _ _⟩
  | cons x rest =>
    obtain ⟨name, k⟩ := x
    obtain ⟨j1, st1, js2, h1, h2, rfl⟩ := renderFields_cons_inv h
    obtain ⟨new1, hi1, hd1, hw1, hr1, hc1, hcl1⟩ :=
      ihN k ns st j1 st1 W h1 (hr (name, k) List.mem_cons_self) hinv
        (fun q => by
          have := hq q; simp only [wtFields_cons, Bool.and_eq_true] at this; exact this.1)
    obtain ⟨new2, hi2, hd2, hw2, hr2, hc2, hcl2⟩ := ihF rest ns st1 js2 st' _ owner h2
      (fun p hp => hr p (List.mem_cons_of_mem _ hp)) how hi1
      (fun q => by
        have := hq q; simp only [wtFields_cons, Bool.and_eq_true] at this; exact this.2)
    refine ⟨new1 ++ new2, by rw [← List.append_assoc]; exact hi2, ?_, ?_, ?_, ?_, ?_⟩
    · simp only [defsFields_cons, hd1, hd2, List.map_append]
    · intro hok; simp only [wtFields_cons, hw1 hok, hw2 hok, Bool.and_self]
    · intro hb hR
      have hdb := render_directBelow hwf rank owner h1 (hb (name, k) List.mem_cons_self)
      rw [rankedFields_cons, how, hdb, hr1 hR,
        hr2 (fun p hp => hb p (List.mem_cons_of_mem _ hp)) hR]
      rfl
    · rw [← List.append_assoc]
      intro p hp
      rcases List.mem_cons.mp hp with rfl | hp
      · exact hc1.mono mem_append_left'
      · exact hc2 p hp
    · rw [← List.append_assoc]
      exact (hcl1.mono mem_append_left').append hcl2

/-! ### one node -/

theorem claimN_prim (node : RawNode) (t : String)
    {key : Nat} {ns : Option String} {st st' : RenderState} {j : Json} {W : List Nat}
    (hk : S[key]? = some node) (hp : primText node.type = some t)
    (h : render S (f + 1) key ns st = .ok (j, st')) (hr : Reach S key) (hinv : InvW S st W)
    (hq : Q → wellTyped j = true) :
    ∃ new, InvW S st' (W ++ new) ∧ definedNamesIn ns j = new.map (fnOf S) ∧
      (NodesOk S → wellTyped j = true) ∧ (RankOk S rank → ranked rank ns j = true) ∧
      Covered S (PQ Q) (W ++ new) key ∧ ChildrenCovered S (PQ Q) (W ++ new) new := by
  obtain ⟨rfl, hj⟩ := render_prim_inv hk hp h
  have hprim := primText_isPrimitive hp
  obtain ⟨h1, h2, h3, h4, h5⟩ := isPrimitive_not_complex t hprim
  have hun : nameOf node.type = none := by
    cases ht : node.type <;> rw [ht] at hp <;> simp [primText] at hp <;> rfl
  have hch : node.type.children = [] := by
    cases ht : node.type <;> rw [ht] at hp <;> simp [primText] at hp <;> rfl
  have hP : PQ Q node := by
    intro q
    apply nodeOkB_of
    · cases hl : node.logical with
      | none => rfl
      | some lt =>
        have := hq q
        rw [hj, hl] at this
        exact logicalOk_of_leaf t _ this
    · intro nm sz ht; rw [ht] at hp; simp [primText] at hp
  have hcov : Covered S (PQ Q) (W ++ []) key :=
    .unnamed hk hun hP (by rw [hch]; intro c hc; cases hc)
  refine ⟨[], by simpa using hinv, ?_⟩
  cases hl : node.logical with
  | none =>
    rw [hj, hl]
    exact ⟨by simp [definedNamesIn], fun _ => wellTyped_prim t hprim, fun _ => by simp [ranked],
      hcov, ChildrenCovered.nil _ _ _⟩
  | some lt =>
    rw [hj, hl]
    have hty := strAttr_type_typeMembers t (some lt) []
    have hnm := strAttr_name_unnamed t (some lt) [] rfl
    rw [List.append_nil] at hty hnm
    refine ⟨defs_obj_unnamed_leaf _ _ _ hty hnm h1 h2, ?_,
      fun _ => ranked_obj_leaf _ _ _ _ hty h1 h2 h5, hcov, ChildrenCovered.nil _ _ _⟩
    intro hok
    have hok' := hok key node hr hk
    simp only [nodeOkB, Bool.and_eq_true] at hok'
    exact wellTyped_leaf t _ (isTypeName_prim t hprim) (by rw [← hl]; exact hok'.1)

theorem claimN_array (ihN : ClaimN S rank Q f) (lg : Option LogicalType)
    (items : Nat)
    {key : Nat} {ns : Option String} {st st' : RenderState} {j : Json} {W : List Nat}
    (hk : S[key]? = some ⟨.array items, lg⟩)
    (h : render S (f + 1) key ns st = .ok (j, st')) (hr : Reach S key) (hinv : InvW S st W)
    (hq : Q → wellTyped j = true) :
    ∃ new, InvW S st' (W ++ new) ∧ definedNamesIn ns j = new.map (fnOf S) ∧
      (NodesOk S → wellTyped j = true) ∧ (RankOk S rank → ranked rank ns j = true) ∧
      Covered S (PQ Q) (W ++ new) key ∧ ChildrenCovered S (PQ Q) (W ++ new) new := by
  obtain ⟨-, j1, st1, h1, rfl, rfl⟩ := render_array_inv hk h
  have hinv1 := hinv.set_unnamed key _ hk rfl st.nWritten
  have hnn := render_not_null h1
  obtain ⟨new, hi, hd, hw, hrk, hc, hcl⟩ := ihN items ns _ j1 st1 W h1
    (.step hr hk (by simp [RegularType.children])) hinv1 (fun q => (array_inv lg j1 hnn (hq q)).2)
  have hP : PQ Q ⟨.array items, lg⟩ := fun q =>
    nodeOkB_of _ (array_inv lg j1 hnn (hq q)).1 (fun nm sz ht => by cases ht)
  have hty := strAttr_type_typeMembers "array" lg [("items", j1)]
  have hnm := strAttr_name_unnamed "array" lg [("items", j1)] (by simp [attr])
  have hat : attr "items" (typeMembers "array" lg ++ [("items", j1)]) = some j1 := by
    rw [attr_unnamed_rest _ _ _ _ (by decide) (by decide) (by decide) (by decide)]
    simp only [attr, if_true]
  refine ⟨new, hi.set_unnamed key _ hk rfl 0, ?_, ?_, ?_, ?_, hcl⟩
  · rw [defs_obj_array _ _ hty hnm, defsAttr_eq, hat]; exact hd
  · intro hok
    have hok' := hok key _ hr hk
    simp only [nodeOkB, Bool.and_eq_true] at hok'
    exact wellTyped_array lg j1 hok'.1 (hw hok)
  · intro hR; rw [ranked_obj_array _ _ _ hty, rankedAttr_eq, hat]; exact hrk hR
  · refine .unnamed hk rfl hP ?_
    intro c hcm
    simp only [RegularType.children, List.mem_singleton] at hcm
    subst hcm; exact hc

theorem claimN_map (ihN : ClaimN S rank Q f) (lg : Option LogicalType)
    (values : Nat)
    {key : Nat} {ns : Option String} {st st' : RenderState} {j : Json} {W : List Nat}
    (hk : S[key]? = some ⟨.map values, lg⟩)
    (h : render S (f + 1) key ns st = .ok (j, st')) (hr : Reach S key) (hinv : InvW S st W)
    (hq : Q → wellTyped j = true) :
    ∃ new, InvW S st' (W ++ new) ∧ definedNamesIn ns j = new.map (fnOf S) ∧
      (NodesOk S → wellTyped j = true) ∧ (RankOk S rank → ranked rank ns j = true) ∧
      Covered S (PQ Q) (W ++ new) key ∧ ChildrenCovered S (PQ Q) (W ++ new) new := by
  obtain ⟨-, j1, st1, h1, rfl, rfl⟩ := render_map_inv hk h
  have hinv1 := hinv.set_unnamed key _ hk rfl st.nWritten
  have hnn := render_not_null h1
  obtain ⟨new, hi, hd, hw, hrk, hc, hcl⟩ := ihN values ns _ j1 st1 W h1
    (.step hr hk (by simp [RegularType.children])) hinv1 (fun q => (map_inv lg j1 hnn (hq q)).2)
  have hP : PQ Q ⟨.map values, lg⟩ := fun q =>
    nodeOkB_of _ (map_inv lg j1 hnn (hq q)).1 (fun nm sz ht => by cases ht)
  have hty := strAttr_type_typeMembers "map" lg [("values", j1)]
  have hnm := strAttr_name_unnamed "map" lg [("values", j1)] (by simp [attr])
  have hat : attr "values" (typeMembers "map" lg ++ [("values", j1)]) = some j1 := by
    rw [attr_unnamed_rest _ _ _ _ (by decide) (by decide) (by decide) (by decide)]
    simp only [attr, if_true]
  refine ⟨new, hi.set_unnamed key _ hk rfl 0, ?_, ?_, ?_, ?_, hcl⟩
  · rw [defs_obj_map _ _ hty hnm, defsAttr_eq, hat]; exact hd
  · intro hok
    have hok' := hok key _ hr hk
    simp only [nodeOkB, Bool.and_eq_true] at hok'
    exact wellTyped_map lg j1 hok'.1 (hw hok)
  · intro hR; rw [ranked_obj_map _ _ _ hty, rankedAttr_eq, hat]; exact hrk hR
  · refine .unnamed hk rfl hP ?_
    intro c hcm
    simp only [RegularType.children, List.mem_singleton] at hcm
    subst hcm; exact hc

theorem claimN_union (ihL : ClaimL S rank Q f) (lg : Option LogicalType) (vs : List Nat)
    {key : Nat} {ns : Option String} {st st' : RenderState} {j : Json} {W : List Nat}
    (hk : S[key]? = some ⟨.union vs, lg⟩)
    (h : render S (f + 1) key ns st = .ok (j, st')) (hr : Reach S key) (hinv : InvW S st W)
    (hq : Q → wellTyped j = true) :
    ∃ new, InvW S st' (W ++ new) ∧ definedNamesIn ns j = new.map (fnOf S) ∧
      (NodesOk S → wellTyped j = true) ∧ (RankOk S rank → ranked rank ns j = true) ∧
      Covered S (PQ Q) (W ++ new) key ∧ ChildrenCovered S (PQ Q) (W ++ new) new := by
  have hlg := render_union_logical hk h
  subst hlg
  obtain ⟨-, js, st1, h1, rfl, rfl⟩ := render_union_inv hk h
  have hinv1 := hinv.set_unnamed key _ hk rfl st.nWritten
  obtain ⟨new, hi, hd, hw, hrk, hc, hcl⟩ := ihL vs ns _ js st1 W h1
    (fun k hkv => .step hr hk (by simpa [RegularType.children] using hkv)) hinv1
    (fun q => by have := hq q; simpa only [wellTyped] using this)
  exact ⟨new, hi.set_unnamed key _ hk rfl 0, by simp only [definedNamesIn, hd],
    fun hok => by simp only [wellTyped, hw hok], fun hR => by simp only [ranked, hrk hR],
    .unnamed hk rfl (fun _ => rfl)
      (fun c hcm => hc c (by simpa [RegularType.children] using hcm)), hcl⟩

theorem claimN_again (hwf : NamesWF S) (node : RawNode) (nm : Name)
    {key : Nat} {ns : Option String} {st st' : RenderState} {j : Json} {W : List Nat}
    (hk : S[key]? = some node) (hn : nameOf node.type = some nm) (hw : 0 < st.get key)
    (h : render S (f + 1) key ns st = .ok (j, st')) (hinv : InvW S st W) :
    ∃ new, InvW S st' (W ++ new) ∧ definedNamesIn ns j = new.map (fnOf S) ∧
      (NodesOk S → wellTyped j = true) ∧ (RankOk S rank → ranked rank ns j = true) ∧
      Covered S (PQ Q) (W ++ new) key ∧ ChildrenCovered S (PQ Q) (W ++ new) new := by
  obtain ⟨rfl, rfl⟩ := render_named_again_inv hk hn hw h
  exact ⟨[], by simpa using hinv, by simp [definedNamesIn],
    fun _ => wellTyped_ref nm (hwf key node nm hk hn) ns, fun _ => by simp [ranked],
    .named hk hn (by simpa using (hinv.written key node nm hk hn).mp hw),
    ChildrenCovered.nil _ _ _⟩

theorem childrenCovered_leaf {W : List Nat} {key : Nat} {node : RawNode}
    (hk : S[key]? = some node) (hch : node.type.children = []) (hP : PQ Q node) :
    ChildrenCovered S (PQ Q) (W ++ [key]) [key] := by
  intro i hi node' hk'
  simp only [List.mem_singleton] at hi
  subst hi
  rw [hk] at hk'; cases hk'
  refine ⟨hP, ?_⟩
  intro c hc
  rw [hch] at hc; cases hc

theorem claimN_enum (hwf : NamesWF S) (lg : Option LogicalType) (nm : Name) (syms : List String)
    {key : Nat} {ns : Option String} {st st' : RenderState} {j : Json} {W : List Nat}
    (hk : S[key]? = some ⟨.enum nm syms, lg⟩) (hw : ¬ 0 < st.get key)
    (h : render S (f + 1) key ns st = .ok (j, st')) (hr : Reach S key) (hinv : InvW S st W)
    (hq : Q → wellTyped j = true) :
    ∃ new, InvW S st' (W ++ new) ∧ definedNamesIn ns j = new.map (fnOf S) ∧
      (NodesOk S → wellTyped j = true) ∧ (RankOk S rank → ranked rank ns j = true) ∧
      Covered S (PQ Q) (W ++ new) key ∧ ChildrenCovered S (PQ Q) (W ++ new) new := by
  obtain ⟨rfl, rfl⟩ := render_enum_inv hk hw h
  have hnm := hwf key _ nm hk rfl
  have hty : strAttr "type" (typeMembers "enum" lg ++ nameMembers ns nm ++
      [("symbols", .arr (syms.map .str))]) = some "enum" := by
    rw [List.append_assoc]; exact strAttr_type_typeMembers _ _ _
  obtain ⟨nmstr, hname, hfull⟩ := def_fullname "enum" lg nm hnm ns
    [("symbols", .arr (syms.map .str))] (by simp [attr])
  refine ⟨[key], hinv.define key _ nm hk rfl hr hw, ?_, ?_,
    fun _ => ranked_obj_leaf _ _ _ _ hty (by decide) (by decide) (by decide),
    .named hk rfl (by simp), childrenCovered_leaf hk rfl
      (fun q => nodeOkB_of _ (enum_inv lg ns nm syms (hq q)) (fun nm sz ht => by cases ht))⟩
  · rw [defs_obj_named_leaf _ _ _ _ hty hname (by decide) (by decide) (by decide), hfull]
    simp only [List.map_cons, List.map_nil, fnOf_eq hk rfl]
  · intro hok
    have hok' := hok key _ hr hk
    simp only [nodeOkB, Bool.and_eq_true] at hok'
    exact wellTyped_enum lg ns nm syms hok'.1

theorem claimN_fixed (hwf : NamesWF S) (lg : Option LogicalType) (nm : Name) (size : Nat)
    {key : Nat} {ns : Option String} {st st' : RenderState} {j : Json} {W : List Nat}
    (hk : S[key]? = some ⟨.fixed nm size, lg⟩) (hw : ¬ 0 < st.get key)
    (h : render S (f + 1) key ns st = .ok (j, st')) (hr : Reach S key) (hinv : InvW S st W)
    (hq : Q → wellTyped j = true) :
    ∃ new, InvW S st' (W ++ new) ∧ definedNamesIn ns j = new.map (fnOf S) ∧
      (NodesOk S → wellTyped j = true) ∧ (RankOk S rank → ranked rank ns j = true) ∧
      Covered S (PQ Q) (W ++ new) key ∧ ChildrenCovered S (PQ Q) (W ++ new) new := by
  obtain ⟨rfl, rfl⟩ := render_fixed_inv hk hw h
  have hnm := hwf key _ nm hk rfl
  have hty : strAttr "type" (typeMembers "fixed" lg ++ nameMembers ns nm ++
      [("size", .nat size)]) = some "fixed" := by
    rw [List.append_assoc]; exact strAttr_type_typeMembers _ _ _
  obtain ⟨nmstr, hname, hfull⟩ := def_fullname "fixed" lg nm hnm ns
    [("size", .nat size)] (by simp [attr])
  refine ⟨[key], hinv.define key _ nm hk rfl hr hw, ?_, ?_,
    fun _ => ranked_obj_leaf _ _ _ _ hty (by decide) (by decide) (by decide),
    .named hk rfl (by simp), childrenCovered_leaf hk rfl
      (fun q => nodeOkB_of _ (fixed_inv lg ns nm size (hq q)).1
        (fun nm' sz ht => by cases ht; exact (fixed_inv lg ns nm size (hq q)).2))⟩
  · rw [defs_obj_named_leaf _ _ _ _ hty hname (by decide) (by decide) (by decide), hfull]
    simp only [List.map_cons, List.map_nil, fnOf_eq hk rfl]
  · intro hok
    have hok' := hok key _ hr hk
    simp only [nodeOkB, Bool.and_eq_true, decide_eq_true_eq] at hok'
    exact wellTyped_fixed lg ns nm size hok'.1 hok'.2

theorem claimN_record (hwf : NamesWF S) (ihF : ClaimF S rank Q f) (lg : Option LogicalType)
    (nm : Name) (fields : List (String × Nat))
    {key : Nat} {ns : Option String} {st st' : RenderState} {j : Json} {W : List Nat}
    (hk : S[key]? = some ⟨.record nm fields, lg⟩) (hw : ¬ 0 < st.get key)
    (h : render S (f + 1) key ns st = .ok (j, st')) (hr : Reach S key) (hinv : InvW S st W)
    (hq : Q → wellTyped j = true) :
    ∃ new, InvW S st' (W ++ new) ∧ definedNamesIn ns j = new.map (fnOf S) ∧
      (NodesOk S → wellTyped j = true) ∧ (RankOk S rank → ranked rank ns j = true) ∧
      Covered S (PQ Q) (W ++ new) key ∧ ChildrenCovered S (PQ Q) (W ++ new) new := by
  obtain ⟨js, h1, rfl⟩ := render_record_inv hk hw h
  have hnm := hwf key _ nm hk rfl
  have hty : strAttr "type" (typeMembers "record" lg ++ nameMembers ns nm ++
      [("fields", .arr js)]) = some "record" := by
    rw [List.append_assoc]; exact strAttr_type_typeMembers _ _ _
  obtain ⟨nmstr, hname, hfull⟩ := def_fullname "record" lg nm hnm ns
    [("fields", .arr js)] (by simp [attr])
  have hfa : attr "fields" (typeMembers "record" lg ++ nameMembers ns nm ++
      [("fields", .arr js)]) = some (.arr js) := by
    rw [attr_object_rest _ _ _ _ _ _ (by decide) (by decide) (by decide) (by decide) (by decide)
      (by decide)]
    simp only [attr, if_true]
  have hinv1 := hinv.define key _ nm hk rfl hr hw
  obtain ⟨new, hi, hd, hwt, hrk, hc, hcl⟩ := ihF fields nm.ns _ js st' _ (nm.ns, nm.short) h1
    (fun p hp => .step hr hk (by
      simp only [RegularType.children, List.mem_map]; exact ⟨p, hp, rfl⟩)) rfl hinv1
    (fun q => (record_inv lg ns nm js (hq q)).2)
  have eW : W ++ key :: new = W ++ [key] ++ new := by simp
  refine ⟨key :: new, by rw [eW]; exact hi, ?_, ?_, ?_, ?_, ?_⟩
  · rw [defs_obj_record _ _ _ hty hname, hfull, defsFieldsAttr_eq, hfa]
    simp only [List.map_cons, fnOf_eq hk rfl, hd]
  · intro hok
    have hok' := hok key _ hr hk
    simp only [nodeOkB, Bool.and_eq_true] at hok'
    exact wellTyped_record lg ns nm js hok'.1 (hwt hok)
  · intro hR
    rw [ranked_obj_record _ _ _ _ hty hname, hfull, rankedFieldsAttr_eq, hfa]
    exact hrk (fun p hp node' nm' hk' hn' => hR key _ nm fields p.2 node' nm' hr hk rfl
      (List.mem_map.mpr ⟨p, hp, rfl⟩) hk' hn') hR
  · exact .named hk rfl (by simp)
  · rw [eW]
    intro i hi' node' hk'
    rcases List.mem_cons.mp hi' with rfl | hi'
    · rw [hk] at hk'; cases hk'
      refine ⟨fun q => nodeOkB_of _ (record_inv lg ns nm js (hq q)).1
        (fun nm' sz ht => by cases ht), ?_⟩
      intro c hcm
      simp only [RegularType.children, List.mem_map] at hcm
      obtain ⟨p, hp, rfl⟩ := hcm
      exact hc p hp
    · exact hcl i hi' node' hk'

theorem claimN_succ (hwf : NamesWF S) (ihN : ClaimN S rank Q f) (ihL : ClaimL S rank Q f)
    (ihF : ClaimF S rank Q f) : ClaimN S rank Q (f + 1) := by
  intro key ns st j st' W h hr hinv hq
  cases hk : S[key]? with
  | none => simp [render, hk] at h
  | some node =>
    obtain ⟨ty, lg⟩ := node
    cases ty with
    | null => exact claimN_prim _ "null" hk rfl h hr hinv hq
    | boolean => exact claimN_prim _ "boolean" hk rfl h hr hinv hq
    | int => exact claimN_prim _ "int" hk rfl h hr hinv hq
    | long => exact claimN_prim _ "long" hk rfl h hr hinv hq
    | float => exact claimN_prim _ "float" hk rfl h hr hinv hq
    | double => exact claimN_prim _ "double" hk rfl h hr hinv hq
    | bytes => exact claimN_prim _ "bytes" hk rfl h hr hinv hq
    | string => exact claimN_prim _ "string" hk rfl h hr hinv hq
    | array items => exact claimN_array ihN lg items hk h hr hinv hq
    | map values => exact claimN_map ihN lg values hk h hr hinv hq
    | union vs => exact claimN_union ihL lg vs hk h hr hinv hq
    | record nm fields =>
      by_cases hw : 0 < st.get key
      · exact claimN_again hwf _ nm hk rfl hw h hinv
      · exact claimN_record hwf ihF lg nm fields hk hw h hr hinv hq
    | enum nm syms =>
      by_cases hw : 0 < st.get key
      · exact claimN_again hwf _ nm hk rfl hw h hinv
      · exact claimN_enum hwf lg nm syms hk hw h hr hinv hq
    | fixed nm size =>
      by_cases hw : 0 < st.get key
      · exact claimN_again hwf _ nm hk rfl hw h hinv
      · exact claimN_fixed hwf lg nm size hk hw h hr hinv hq

end

/-- The walk of the renderer and the recursions of `Spec.ValidDoc` in lock step. -/
theorem render_valid (S : SchemaMut) (rank : Fullname → Nat) (Q : Prop) (hwf : NamesWF S) :
    ∀ f, ClaimN S rank Q f ∧ ClaimL S rank Q f ∧ ClaimF S rank Q f := by
  intro f
  induction f with
  | zero =>
    refine ⟨?_, ?_, ?_⟩
    · intro key ns st j st' W h; simp [render] at h
    · intro vs ns st js st' W h hr hinv hq
      cases vs with
      | nil =>
        obtain ⟨rfl, rfl⟩ := renderList_nil_inv h
        exact ⟨[], by simpa using hinv, by simp [defsList], fun _ => by simp [wtList],
          fun _ => by simp [rankedList], fun k hk => (by cases hk), ChildrenCovered.nil _ _ _⟩
      | cons k rest => simp [renderList] at h
    · intro fields ns st js st' W owner h hr how hinv hq
      cases fields with
      | nil =>
        obtain ⟨rfl, rfl⟩ := renderFields_nil_inv h
        exact ⟨[], by simpa using hinv, by simp [defsFields], fun _ => by simp [wtFields],
          fun _ _ => by simp [rankedFields], fun k hk => (by cases hk), ChildrenCovered.nil _ _ _⟩
      | cons x rest => simp [renderFields] at h
  | succ f ih =>
    obtain ⟨ihN, ihL, ihF⟩ := ih
    exact ⟨claimN_succ hwf ihN ihL ihF, claimL_succ ihN ihL, claimF_succ hwf ihN ihF⟩

/-! ### the whole document -/

theorem nodupB_true_of_nodup {l : List Fullname} (h : l.Nodup) : nodupB l = true := by
  induction l with
  | nil => rfl
  | cons a l ih =>
    obtain ⟨h1, h2⟩ := List.nodup_cons.mp h
    simp only [nodupB, Bool.and_eq_true, Bool.not_eq_true', ih h2, and_true]
    simpa using h1

theorem nodup_of_nodupB {l : List Fullname} (h : nodupB l = true) : l.Nodup := by
  induction l with
  | nil => exact List.nodup_nil
  | cons a l ih =>
    simp only [nodupB, Bool.and_eq_true, Bool.not_eq_true'] at h
    refine List.nodup_cons.mpr ⟨?_, ih h.2⟩
    intro hm
    have : l.contains a = true := by simpa using hm
    rw [this] at h
    exact absurd h.1 (by simp)

/-- the hypotheses on the graph -/
structure Hyp (S : SchemaMut) : Prop where
  wf : NamesWF S
  dist : DistinctNames S
  ok : NodesOk S

/-- a named node -/
def IsNamed (S : SchemaMut) (i : Nat) : Prop :=
  ∃ node nm, S[i]? = some node ∧ nameOf node.type = some nm

/-- **What the walk gives for the document rendered from the root** (names well formed, nothing
    else assumed): the fullnames the document defines are those of the list `W` of nodes, in
    document order; `W` has no repetition and is EXACTLY the set of named nodes reachable from
    the root; every key reachable from the root is in bounds; the document is `wellTyped` if the
    reachable nodes are `NodesOk`, and ranked by every ranking of fullnames good for the graph. -/
theorem render_doc_facts (S : SchemaMut) (fuel : Nat) (j : Json) (rank : Fullname → Nat)
    (hwf : NamesWF S) (hrender : renderJson S fuel = .ok j) :
    (∃ W : List Nat, definedNames j = W.map (fnOf S) ∧ W.Nodup ∧
      (∀ i, i ∈ W ↔ Reach S i ∧ IsNamed S i)) ∧
    (∀ i, Reach S i → ∃ node, S[i]? = some node) ∧
    (NodesOk S ↔ wellTyped j = true) ∧
    (RankOk S rank → ranked rank none j = true) := by
  unfold renderJson at hrender
  cases hr : render S fuel 0 none {} with
  | error e => rw [hr] at hrender; cases hrender
  | ok p =>
    obtain ⟨j', st'⟩ := p
    rw [hr] at hrender
    simp only [Except.ok.injEq] at hrender
    subst hrender
    obtain ⟨new, hinv, hd, hw, hrk, hc, hcl⟩ :=
      (render_valid S rank (wellTyped j' = true) hwf fuel).1 0 none {} j' st' [] hr .root
        (InvW.init S) id
    rw [List.nil_append] at hinv hc hcl
    have hcov : ∀ i, Reach S i → Covered S (PQ (wellTyped j' = true)) new i :=
      fun i hi => reach_covered hc hcl hi
    refine ⟨⟨new, hd, hinv.nodup, ?_⟩, ?_,
      ⟨hw, fun q i node hri hk => covered_P hcl hk (hcov i hri) q⟩, hrk⟩
    · intro i
      constructor
      · exact hinv.reach i
      · rintro ⟨hri, node, nm, hk, hn⟩
        cases hcov i hri with
        | named _ _ hm => exact hm
        | unnamed hk' hn' _ _ => rw [hk] at hk'; cases hk'; rw [hn] at hn'; cases hn'
    · intro i hri
      cases hcov i hri with
      | named hk _ _ => exact ⟨_, hk⟩
      | unnamed hk _ _ _ => exact ⟨_, hk⟩

theorem inj_of_nodup_map {α β : Type} (f : α → β) {l : List α} (h : (l.map f).Nodup) {a b : α}
    (ha : a ∈ l) (hb : b ∈ l) (e : f a = f b) : a = b := by
  induction l with
  | nil => cases ha
  | cons c l ih =>
    simp only [List.map_cons, List.nodup_cons] at h
    rcases List.mem_cons.mp ha with ha' | ha'
    · rcases List.mem_cons.mp hb with hb' | hb'
      · rw [ha', hb']
      · subst ha'; exact absurd (List.mem_map.mpr ⟨b, hb', e.symm⟩) h.1
    · rcases List.mem_cons.mp hb with hb' | hb'
      · subst hb'; exact absurd (List.mem_map.mpr ⟨a, ha', e⟩) h.1
      · exact ih h.2 ha' hb'

theorem nodup_map_of_inj {α β : Type} (f : α → β) {l : List α} (h : l.Nodup)
    (hinj : ∀ a ∈ l, ∀ b ∈ l, f a = f b → a = b) : (l.map f).Nodup := by
  induction l with
  | nil => simp
  | cons c l ih =>
    obtain ⟨h1, h2⟩ := List.nodup_cons.mp h
    simp only [List.map_cons, List.nodup_cons]
    refine ⟨?_, ih h2 fun a ha b hb => hinj a (List.mem_cons_of_mem _ ha) b
      (List.mem_cons_of_mem _ hb)⟩
    intro hm
    obtain ⟨b, hb, e⟩ := List.mem_map.mp hm
    have := hinj b (List.mem_cons_of_mem _ hb) c List.mem_cons_self e
    subst this
    exact h1 hb

/-- **Distinct fullnames are exactly what `namesDistinct` of the rendered document needs**: for
    a graph with well-formed names that renders, the document defines no fullname twice iff two
    reachable named nodes with the same fullname are the same node. -/
theorem render_namesDistinct_iff (S : SchemaMut) (fuel : Nat) (j : Json) (hwf : NamesWF S)
    (hrender : renderJson S fuel = .ok j) : namesDistinct j = true ↔ DistinctNames S := by
  obtain ⟨⟨W, hd, hnd, hW⟩, -, -, -⟩ := render_doc_facts S fuel j (fun _ => 0) hwf hrender
  unfold namesDistinct
  rw [hd]
  constructor
  · intro h i k ni nk nmi nmk hri hrk hi hk hni hnk e
    have h' := nodup_of_nodupB h
    apply inj_of_nodup_map (fnOf S) h' ((hW i).mpr ⟨hri, ni, nmi, hi, hni⟩)
      ((hW k).mpr ⟨hrk, nk, nmk, hk, hnk⟩)
    rw [fnOf_eq hi hni, fnOf_eq hk hnk, e]
  · intro h
    apply nodupB_true_of_nodup
    apply nodup_map_of_inj (fnOf S) hnd
    intro a ha b hb e
    obtain ⟨hra, na, nma, hka, hna⟩ := (hW a).mp ha
    obtain ⟨hrb, nb, nmb, hkb, hnb⟩ := (hW b).mp hb
    rw [fnOf_eq hka hna, fnOf_eq hkb hnb] at e
    exact h a b na nb nma nmb hra hrb hka hkb hna hnb e

/-- **The rendered document is a valid document.** -/
theorem render_validDoc (S : SchemaMut) (fuel : Nat) (j : Json) (hyp : Hyp S)
    (hrender : renderJson S fuel = .ok j) : ValidDoc j = true := by
  obtain ⟨hnf, text, hpcf, -⟩ := render_has_graph_pcf S fuel j hyp.wf hrender
  obtain ⟨-, -, hwt, -⟩ := render_doc_facts S fuel j (fun _ => 0) hyp.wf hrender
  have hnd := (render_namesDistinct_iff S fuel j hyp.wf hrender).mpr hyp.dist
  have hshape : shape j = true := by
    unfold shape
    unfold parsingCanonicalForm at hpcf
    cases hc : canon none j with
    | none => rw [hc] at hpcf; cases hpcf
    | some c => rfl
  simp only [ValidDoc, hshape, hnf, hnd, hwt.mp hyp.ok, Bool.and_self]

/-! ### ranking the fullnames from a ranking of the record nodes -/

/-- `r` puts every reachable record node above the record nodes that are the type of one of its
    fields: the graph has no unconditional record cycle among the nodes reachable from the
    root. -/
def RecRanked (S : SchemaMut) (r : Nat → Nat) : Prop :=
  ∀ (i : Nat) (ni : RawNode) (nmi : Name) (fs : List (String × Nat)) (k : Nat) (nk : RawNode)
    (nmk : Name) (fk : List (String × Nat)), Reach S i → S[i]? = some ni →
    ni.type = .record nmi fs → k ∈ fs.map (·.2) → S[k]? = some nk → nk.type = .record nmk fk →
    r k < r i

/-- No reachable record unconditionally contains itself. -/
def NoRecCycle (S : SchemaMut) : Prop := ∃ r : Nat → Nat, RecRanked S r

/-- the reachable record node called `fn`, if any -/
def IsRecordNamed (S : SchemaMut) (fn : Fullname) (i : Nat) : Prop :=
  Reach S i ∧ ∃ ni nmi fs, S[i]? = some ni ∧ ni.type = .record nmi fs ∧ (nmi.ns, nmi.short) = fn

open Classical in
/-- rank of a fullname: one more than the rank of the reachable record node of that name; zero
    for every other fullname -/
noncomputable def rankOf (S : SchemaMut) (r : Nat → Nat) (fn : Fullname) : Nat :=
  if h : ∃ i, IsRecordNamed S fn i then r (Classical.choose h) + 1 else 0

theorem rankOf_record {S : SchemaMut} (hdist : DistinctNames S) (r : Nat → Nat) {i : Nat}
    {ni : RawNode} {nmi : Name} {fs : List (String × Nat)} (hr : Reach S i)
    (hi : S[i]? = some ni) (ht : ni.type = .record nmi fs) :
    rankOf S r (nmi.ns, nmi.short) = r i + 1 := by
  have h : ∃ i', IsRecordNamed S (nmi.ns, nmi.short) i' := ⟨i, hr, ni, nmi, fs, hi, ht, rfl⟩
  unfold rankOf
  rw [dif_pos h]
  obtain ⟨hr', ni', nmi', fs', hi', ht', e⟩ := Classical.choose_spec h
  have : Classical.choose h = i :=
    hdist _ i ni' ni nmi' nmi hr' hr hi' hi (by rw [ht']; rfl) (by rw [ht]; rfl) e
  rw [this]

theorem rankOf_other {S : SchemaMut} (hdist : DistinctNames S) (r : Nat → Nat) {k : Nat}
    {nk : RawNode} {nmk : Name} (hr : Reach S k) (hk : S[k]? = some nk)
    (hn : nameOf nk.type = some nmk) (hnr : ∀ nm fs, nk.type ≠ .record nm fs) :
    rankOf S r (nmk.ns, nmk.short) = 0 := by
  unfold rankOf
  rw [dif_neg]
  rintro ⟨i, hr', ni', nmi', fs', hi', ht', e⟩
  have : i = k := hdist i k ni' nk nmi' nmk hr' hr hi' hk (by rw [ht']; rfl) hn e
  subst this
  rw [hk] at hi'
  cases hi'
  exact hnr _ _ ht'

theorem rankOk_of {S : SchemaMut} (hdist : DistinctNames S) {r : Nat → Nat}
    (hr : RecRanked S r) : RankOk S (rankOf S r) := by
  intro i ni nmi fs k nk nmk hri hi hti hk hnk hnmk
  rw [rankOf_record hdist r hri hi hti]
  have hrk : Reach S k := .step hri hi (by rw [hti]; exact hk)
  by_cases hrec : ∃ nm fk, nk.type = .record nm fk
  · obtain ⟨nm, fk, htk⟩ := hrec
    have : nm = nmk := by rw [htk] at hnmk; simpa [nameOf] using hnmk
    subst this
    rw [rankOf_record hdist r hrk hnk htk]
    have := hr i ni nmi fs k nk nm fk hri hi hti hk hnk htk
    omega
  · rw [rankOf_other hdist r hrk hnk hnmk (fun nm fk e => hrec ⟨nm, fk, e⟩)]
    omega

/-- **No unconditional record cycle in the graph ⇒ none in the rendered document.** -/
theorem render_noUnconditionalCycle (S : SchemaMut) (fuel : Nat) (j : Json) (hyp : Hyp S)
    (hc : NoRecCycle S) (hrender : renderJson S fuel = .ok j) : NoUnconditionalCycle j := by
  obtain ⟨r, hr⟩ := hc
  obtain ⟨-, -, -, hrk⟩ := render_doc_facts S fuel j (rankOf S r) hyp.wf hrender
  exact ⟨rankOf S r, hrk (rankOk_of hyp.dist hr)⟩

/-! ### decidable forms of the hypotheses

`reachList S` computes the nodes reachable from the root (depth-first, with a fuel that is never
exhausted on a graph whose reachable keys are in bounds — but nothing rests on that: the test
`closedB` checks that the list computed contains the root and is closed under `children`, which
is all that is needed for `Reach S i → i ∈ reachList S`; conversely every element of `reachList S`
is reachable, `reachList_sound`). -/

def childrenAt (S : SchemaMut) (i : Nat) : List Nat :=
  match S[i]? with
  | some node => node.type.children
  | none => []

def reachGo (S : SchemaMut) : Nat → List Nat → List Nat → List Nat
  | 0, _, acc => acc
  | _ + 1, [], acc => acc
  | n + 1, i :: todo, acc =>
    if acc.contains i then reachGo S n todo acc
    else reachGo S n (childrenAt S i ++ todo) (i :: acc)

/-- the nodes reachable from the root -/
def reachList (S : SchemaMut) : List Nat :=
  reachGo S (2 + (S.toList.map fun n => n.type.children.length + 1).sum) [0] []

/-- `l` contains the root and the children of its elements -/
def closedB (S : SchemaMut) (l : List Nat) : Bool :=
  l.contains 0 && l.all fun i => (childrenAt S i).all fun c => l.contains c

theorem reach_mem_of_closed {S : SchemaMut} {l : List Nat} (h : closedB S l = true) {i : Nat}
    (hr : Reach S i) : i ∈ l := by
  simp only [closedB, Bool.and_eq_true, List.all_eq_true, List.contains_eq_mem,
    decide_eq_true_eq] at h
  induction hr with
  | root => exact h.1
  | step _ hk hc ih =>
    refine h.2 _ ih _ ?_
    simp only [childrenAt, hk]
    exact hc

theorem reachGo_sound (S : SchemaMut) : ∀ (n : Nat) (todo acc : List Nat),
    (∀ i ∈ todo, Reach S i) → (∀ i ∈ acc, Reach S i) → ∀ i ∈ reachGo S n todo acc, Reach S i := by
  intro n
  induction n with
  | zero => intro todo acc _ ha; simpa [reachGo] using ha
  | succ n ih =>
    intro todo acc ht ha
    cases todo with
    | nil => simpa [reachGo] using ha
    | cons i todo =>
      simp only [reachGo]
      split
      · exact ih todo acc (fun k hk => ht k (List.mem_cons_of_mem _ hk)) ha
      · apply ih
        · intro k hk
          rcases List.mem_append.mp hk with hk | hk
          · have hi := ht i List.mem_cons_self
            unfold childrenAt at hk
            cases hS : S[i]? with
            | none => rw [hS] at hk; cases hk
            | some node => rw [hS] at hk; exact .step hi hS hk
          · exact ht k (List.mem_cons_of_mem _ hk)
        · intro k hk
          rcases List.mem_cons.mp hk with rfl | hk
          · exact ht _ List.mem_cons_self
          · exact ha k hk

/-- every node listed is reachable -/
theorem reachList_sound (S : SchemaMut) : ∀ i ∈ reachList S, Reach S i :=
  reachGo_sound S _ [0] [] (fun i hi => by simp at hi; subst hi; exact .root)
    (fun i hi => by cases hi)

/-- fullname of the node `i`, if it is a named node -/
def nameAt (S : SchemaMut) (i : Nat) : Option Fullname :=
  match S[i]? with
  | some node =>
    match nameOf node.type with
    | some nm => some (nm.ns, nm.short)
    | none => none
  | none => none

theorem nameAt_some {S : SchemaMut} {i : Nat} {a : Fullname} (h : nameAt S i = some a) :
    ∃ ni nmi, S[i]? = some ni ∧ nameOf ni.type = some nmi ∧ a = (nmi.ns, nmi.short) := by
  unfold nameAt at h
  cases hS : S[i]? with
  | none => simp only [hS] at h; cases h
  | some ni =>
    simp only [hS] at h
    cases hn : nameOf ni.type with
    | none => simp only [hn] at h; cases h
    | some nmi =>
      simp only [hn, Option.some.injEq] at h
      exact ⟨ni, nmi, rfl, hn, h.symm⟩

/-- two named nodes of `l` with the same fullname are the same node -/
def distinctOnB (S : SchemaMut) (l : List Nat) : Bool :=
  l.all fun i => l.all fun j =>
    match nameAt S i, nameAt S j with
    | some a, some b => !(a == b) || i == j
    | _, _ => true

def nodesOkOnB (S : SchemaMut) (l : List Nat) : Bool :=
  l.all fun i =>
    match S[i]? with
    | some node => nodeOkB node
    | none => true

/-- distinct fullnames, numbers and logical types the parser accepts — among the reachable
    nodes -/
def graphOkB (S : SchemaMut) : Bool :=
  closedB S (reachList S) && distinctOnB S (reachList S) && nodesOkOnB S (reachList S)

theorem distinctNames_of_b {S : SchemaMut} {l : List Nat} (hc : closedB S l = true)
    (h : distinctOnB S l = true) : DistinctNames S := by
  intro i j ni nj nmi nmj hri hrj hi hj hni hnj e
  have := (List.all_eq_true.mp ((List.all_eq_true.mp h) i (reach_mem_of_closed hc hri))) j
    (reach_mem_of_closed hc hrj)
  simp only [nameAt, hi, hj, hni, hnj, e, beq_self_eq_true, Bool.not_true, Bool.false_or,
    beq_iff_eq] at this
  exact this

theorem distinctOnB_of {S : SchemaMut} {l : List Nat} (hl : ∀ i ∈ l, Reach S i)
    (h : DistinctNames S) : distinctOnB S l = true := by
  apply List.all_eq_true.mpr
  intro i hi
  apply List.all_eq_true.mpr
  intro j hj
  cases hni : nameAt S i with
  | none => rfl
  | some a =>
    cases hnj : nameAt S j with
    | none => rfl
    | some b =>
      simp only [Bool.or_eq_true, Bool.not_eq_true', beq_eq_false_iff_ne, ne_eq, beq_iff_eq]
      by_cases e : a = b
      · right
        obtain ⟨ni, nmi, hSi, hi', rfl⟩ := nameAt_some hni
        obtain ⟨nj, nmj, hSj, hj', rfl⟩ := nameAt_some hnj
        exact h i j ni nj nmi nmj (hl i hi) (hl j hj) hSi hSj hi' hj' e
      · left; exact e

theorem nodesOk_of_b {S : SchemaMut} {l : List Nat} (hc : closedB S l = true)
    (h : nodesOkOnB S l = true) : NodesOk S := by
  intro i node hr hi
  have := (List.all_eq_true.mp h) i (reach_mem_of_closed hc hr)
  simpa only [hi] using this

theorem nodesOkOnB_of {S : SchemaMut} {l : List Nat} (hl : ∀ i ∈ l, Reach S i)
    (h : NodesOk S) : nodesOkOnB S l = true := by
  apply List.all_eq_true.mpr
  intro i hi
  cases hS : S[i]? with
  | none => rfl
  | some node => exact h i node (hl i hi) hS

/-- The decidable test gives the hypotheses. -/
theorem hyp_of_b {S : SchemaMut} (hwf : namesWFb S = true) (h : graphOkB S = true) : Hyp S := by
  simp only [graphOkB, Bool.and_eq_true] at h
  exact ⟨namesWF_of_b S hwf, distinctNames_of_b h.1.1 h.1.2, nodesOk_of_b h.1.1 h.2⟩

/-- ... and is not stronger than them: when the list computed is closed (it is whenever the
    fuel of `reachList` was not exhausted), the test passes exactly when the hypotheses hold. -/
theorem graphOkB_iff {S : SchemaMut} (hc : closedB S (reachList S) = true) :
    graphOkB S = true ↔ DistinctNames S ∧ NodesOk S := by
  constructor
  · intro h
    simp only [graphOkB, Bool.and_eq_true] at h
    exact ⟨distinctNames_of_b h.1.1 h.1.2, nodesOk_of_b h.1.1 h.2⟩
  · rintro ⟨h1, h2⟩
    simp only [graphOkB, Bool.and_eq_true]
    exact ⟨⟨hc, distinctOnB_of (reachList_sound S) h1⟩, nodesOkOnB_of (reachList_sound S) h2⟩

end Avro.RenderValid
