import AvroModel.Lemmas.DeriveRealizes
/-
C20, more.  Part 1: the hypothesis `UnionNames` (on the built schema) from a decidable condition
on the program text.

* `NameInv`: the node a lookup type owns carries the name the derive macro computes for it
  (`expNm`); proved along the builder on the fragment `FitWfU`, piggybacking on the invariant `Inv`
  of `Lemmas/DeriveBuild.lean`.
* `branchNames`: the names under which the branch built for a variant's payload type is
  registered in the by-name table of the union (`Node.lookupNames`), from the program text.
* `namedLookup_at`: by-name selection picks branch `j` when it registers the name and no later
  branch does.
-/
namespace Avro.Theorems.DeriveFits
open Avro Avro.Impl Avro.Impl.Derive

/-! ### The name of the node a lookup type owns -/

def tyNm : RegularType → Option Name
  | .record nm _ => some nm
  | .enum nm _ => some nm
  | .fixed nm _ => some nm
  | _ => none

/-- The name the macro gives the node owned by the lookup type with token list `k`
    (non-generic declarations). -/
def expNm (P : Prog) : Key → Option Name
  | .byteArray n :: _ => some (Name.ofFq ("u8_array_" ++ toString n))
  | .self id :: _ =>
    match P[id]? with
    | none => none
    | some d =>
      match d.body with
      | .record _ => some (Name.ofFq (typeName d))
      | .unitEnum _ => some (Name.ofFq (typeName d))
      | .newtype _ => some (Name.ofFq (ownedName d .newtypeStruct ""))
      | .union _ => none
  | _ => none

/-- Every registered node that has a name has the name expected for its lookup type. -/
def NameInv (P : Prog) (s : BState) : Prop :=
  ∀ (k : Key) (i : Nat) (x : RawNode) (nm : Name), Reg s k i → s.nodes[i]? = some x →
    tyNm x.type = some nm → expNm P k = some nm

theorem NameInv.empty (P : Prog) : NameInv P {} := by
  intro k i x nm h
  simp [Reg, List.lookup] at h

section nameinv
variable {P : Prog}

/-- Registering `key` at the next index and pushing its node. -/
theorem NameInv.register_push {pend : List Key} {s : BState} (hinv : Inv P pend s) (hn : NameInv P s)
    {key : Key} (x : RawNode) (hx : ∀ nm, tyNm x.type = some nm → expNm P key = some nm) :
    NameInv P { nodes := s.nodes.push x, built := (key, s.nodes.size) :: s.built } := by
  intro k i y nm hreg hy hnm
  rcases Reg.cons_iff.mp hreg with ⟨rfl, rfl⟩ | ⟨_, hreg'⟩
  · simp only [Array.getElem?_push_size, Option.some.injEq] at hy
    subst hy
    exact hx nm hnm
  · have hlt := hinv.bnd k i hreg'
    have : (s.nodes.push x)[i]? = s.nodes[i]? := by
      simp [Array.getElem?_push, Nat.ne_of_lt hlt]
    rw [show ({ nodes := s.nodes.push x, built := (key, s.nodes.size) :: s.built } : BState).nodes[i]?
      = s.nodes[i]? from this] at hy
    exact hn k i y nm hreg' hy hnm

/-- Nodes that no lookup type owns are appended. -/
theorem NameInv.push_owned {pend : List Key} {s s' : BState} (hinv : Inv P pend s) (hn : NameInv P s)
    (hb : s'.built = s.built)
    (hold : ∀ j, j < s.nodes.size → s'.nodes[j]? = s.nodes[j]?) : NameInv P s' := by
  intro k i y nm hreg hy hnm
  have hreg' : Reg s k i := by unfold Reg at hreg ⊢; rw [← hb]; exact hreg
  rw [hold i (hinv.bnd k i hreg')] at hy
  exact hn k i y nm hreg' hy hnm

/-- Filling node `n`. -/
theorem NameInv.set {s : BState} (hn : NameInv P s) (n : Nat) (x : RawNode)
    (hx : ∀ k nm, Reg s k n → tyNm x.type = some nm → expNm P k = some nm) :
    NameInv P { s with nodes := s.nodes.set! n x } := by
  intro k i y nm hreg hy hnm
  have hreg' : Reg s k i := hreg
  by_cases hni : n = i
  · subst hni
    have hy' : (s.nodes.set! n x)[n]? = some y := hy
    simp only [Array.set!_eq_setIfInBounds] at hy'
    by_cases hlt : n < s.nodes.size
    · rw [Array.getElem?_setIfInBounds_self_of_lt hlt] at hy'
      cases hy'
      exact hx k nm hreg' hnm
    · rw [Array.getElem?_eq_none (by simpa using hlt)] at hy'
      cases hy'
  · have hy' : (s.nodes.set! n x)[i]? = some y := hy
    simp only [Array.set!_eq_setIfInBounds] at hy'
    rw [Array.getElem?_setIfInBounds_ne hni] at hy'
    exact hn k i y nm hreg' hy' hnm

end nameinv

/-! ### `NameInv` along the builder -/

section nspecs
variable (P : Prog) (hash : Key → String)

def NFob (F : Nat) : Prop :=
  ∀ (t : Ty) (s : BState) (c : Nat) (s' : BState) (pend : List Key), tyOk P t = true → Inv P pend s →
    NameInv P s → findOrBuild P hash F t s = some (c, s') → NameInv P s'

def NApp (F : Nat) : Prop :=
  ∀ (t : Ty) (s : BState) (key : Key) (u : Unit) (s' : BState) (pend : List Key), tyOk P t = true →
    Inv P pend s → NameInv P s → KeyOf P t key → s.built.lookup key = none →
    appendSchema P hash F t { nodes := s.nodes, built := (key, s.nodes.size) :: s.built } = some (u, s') →
    NameInv P s'

def NFi (F : Nat) : Prop :=
  ∀ (d : Decl) (tn : String) (fd : Field) (name : String) (s : BState) (c : Nat) (s' : BState)
    (pend : List Key), buildFieldOk P fd = true → Inv P pend s → NameInv P s →
    fieldInst P hash F d [] fd (.structField name) tn s = some (c, s') → NameInv P s'

def NRec (F : Nat) : Prop :=
  ∀ (d : Decl) (tn : String) (fields : List Field) (s : BState) (fs : List (String × Nat)) (s' : BState)
    (pend : List Key), (∀ fd ∈ fields, buildFieldOk P fd = true) → Inv P pend s → NameInv P s →
    recordFields P hash F d [] tn fields s = some (fs, s') → NameInv P s'

def NVar (F : Nat) : Prop :=
  ∀ (d : Decl) (v : Variant) (s : BState) (c : Nat) (s' : BState) (pend : List Key),
    variantOk P v = true → Inv P pend s → NameInv P s →
    (match v.field with
      | none => findOrBuild P hash F .unit s
      | some f => fieldInst P hash F d [] f (.newtypeVariant v.ident) "" s) = some (c, s') →
    NameInv P s'

def NUnion (F : Nat) : Prop :=
  ∀ (d : Decl) (vs : List Variant) (s : BState) (ks : List Nat) (s' : BState) (pend : List Key),
    (∀ v ∈ vs, variantOk P v = true) → Inv P pend s → NameInv P s →
    unionVariants P hash F d [] vs s = some (ks, s') → NameInv P s'

variable {P hash}

theorem nfob_step {F : Nat} (happ : NApp P hash F) : NFob P hash (F + 1) := by
  intro t s c s' pend ht hinv hn h
  rw [findOrBuild_eq] at h
  cases hk : lookupKey P (F + 1) t with
  | none => simp [hk] at h
  | some key =>
    simp only [hk] at h
    cases hb : s.built.lookup key with
    | some idx =>
      simp only [hb, Option.some.injEq, Prod.mk.injEq] at h
      obtain ⟨_, rfl⟩ := h
      exact hn
    | none =>
      simp only [hb] at h
      cases ha : appendSchema P hash F t { nodes := s.nodes, built := (key, s.nodes.size) :: s.built } with
      | none => simp [ha] at h
      | some r =>
        obtain ⟨u, s2⟩ := r
        simp only [ha] at h
        split at h
        · simp only [Option.some.injEq, Prod.mk.injEq] at h
          obtain ⟨_, rfl⟩ := h
          exact happ t s key u s2 pend ht hinv hn ⟨_, hk⟩ hb ha
        · cases h

theorem nfi_step {F : Nat} (hfob : NFob P hash F) : NFi P hash (F + 1) := by
  intro d tn fd name s c s' pend hfd hinv hn h
  cases hl : fd.attr.logical.isNone with
  | true =>
    simp only [buildFieldOk, plainFieldOk, hl, Bool.true_and, Bool.not_true, Bool.false_and,
      Bool.or_false] at hfd
    rw [fieldInst_plain P hash F hl, subst_nil] at h
    exact hfob _ s c s' pend (tyOk_peel P hfd) hinv hn h
  | false =>
    simp only [buildFieldOk, plainFieldOk, hl, Bool.false_and, Bool.not_false, Bool.true_and,
      Bool.false_or, Option.isSome_iff_exists] at hfd
    obtain ⟨x, hx⟩ := hfd
    obtain ⟨rfl, hb, hnodes⟩ := fieldInst_logical P hash (F + 1) hl hx h
    have hold : ∀ j, j < s.nodes.size → s'.nodes[j]? = s.nodes[j]? := by
      intro j hj
      rw [hnodes]
      simp only [Array.set!_eq_setIfInBounds]
      rw [Array.getElem?_setIfInBounds_ne (by omega), Array.getElem?_push_lt hj]
      exact (Array.getElem?_eq_getElem hj).symm
    exact hn.push_owned hinv hb hold

theorem nrec_zero : NRec P hash 0 := by
  intro d tn fields s fs s' pend _ hinv hn h
  cases fields with
  | nil =>
    rw [recordFields_nil] at h
    simp only [Option.some.injEq, Prod.mk.injEq] at h
    obtain ⟨_, rfl⟩ := h
    exact hn
  | cons fd rest => rw [recordFields_zero] at h; cases h

theorem nrec_step (hP : ∀ (id : Nat) (d : Decl), P[id]? = some d → declOk true P d = true)
    {F : Nat} (hfi : NFi P hash F) (hrec : NRec P hash F) : NRec P hash (F + 1) := by
  intro d tn fields s fs s' pend hok hinv hn h
  cases fields with
  | nil =>
    rw [recordFields_nil] at h
    simp only [Option.some.injEq, Prod.mk.injEq] at h
    obtain ⟨_, rfl⟩ := h
    exact hn
  | cons fd rest =>
    rw [recordFields_cons] at h
    cases h1 : fieldInst P hash F d [] fd (.structField fd.name) tn s with
    | none => simp [h1] at h
    | some r1 =>
      obtain ⟨c, s1⟩ := r1
      simp only [h1] at h
      cases h2 : recordFields P hash F d [] tn rest s1 with
      | none => simp [h2] at h
      | some r2 =>
        obtain ⟨fs', s2⟩ := r2
        simp only [h2, Option.some.injEq, Prod.mk.injEq] at h
        obtain ⟨_, rfl⟩ := h
        obtain ⟨i1, _⟩ := (builder_specs (hash := hash) hP F).2.2.1 d tn fd fd.name s c s1 pend
          (hok fd (by simp)) hinv h1
        have n1 := hfi d tn fd fd.name s c s1 pend (hok fd (by simp)) hinv hn h1
        exact hrec d tn rest s1 fs' s2 pend (fun fd' h' => hok fd' (by simp [h'])) i1 n1 h2

theorem nvar_zero : NVar P hash 0 := by
  intro d v s c s' pend _ _ _ h
  cases hf : v.field with
  | none => rw [hf] at h; dsimp only at h; rw [findOrBuild_zero] at h; cases h
  | some fd => rw [hf] at h; dsimp only at h; rw [fieldInst_zero] at h; cases h

theorem nvar_step {F : Nat} (hfob : NFob P hash F) (hfob1 : NFob P hash (F + 1)) :
    NVar P hash (F + 1) := by
  intro d v s c s' pend hv hinv hn h
  unfold variantOk at hv
  cases hf : v.field with
  | none =>
    rw [hf] at h
    dsimp only at h
    exact hfob1 .unit s c s' pend (by simp [tyOk]) hinv hn h
  | some fd =>
    rw [hf] at h hv
    dsimp only at h hv
    simp only [plainFieldOk, Bool.and_eq_true] at hv
    obtain ⟨⟨hl, hty⟩, hdir⟩ := hv
    rw [fieldInst_variant P hash F hl hdir] at h
    exact hfob _ s c s' pend (tyOk_peel P hty) hinv hn h

theorem nunion_zero : NUnion P hash 0 := by
  intro d vs s ks s' pend _ hinv hn h
  cases vs with
  | nil =>
    rw [unionVariants_nil] at h
    simp only [Option.some.injEq, Prod.mk.injEq] at h
    obtain ⟨_, rfl⟩ := h
    exact hn
  | cons v rest => rw [unionVariants_zero] at h; cases h

theorem nunion_step (hP : ∀ (id : Nat) (d : Decl), P[id]? = some d → declOk true P d = true)
    {F : Nat} (hvar : NVar P hash F) (hun : NUnion P hash F) : NUnion P hash (F + 1) := by
  intro d vs s ks s' pend hok hinv hn h
  cases vs with
  | nil =>
    rw [unionVariants_nil] at h
    simp only [Option.some.injEq, Prod.mk.injEq] at h
    obtain ⟨_, rfl⟩ := h
    exact hn
  | cons v rest =>
    rw [unionVariants_cons] at h
    split at h
    · cases h
    · rename_i c s1 h1
      split at h
      · cases h
      · rename_i ks' s2 h2
        simp only [Option.some.injEq, Prod.mk.injEq] at h
        obtain ⟨_, rfl⟩ := h
        obtain ⟨i1, _⟩ := (builder_specs (hash := hash) hP F).2.2.2.2.1 d v s c s1 pend
          (hok v (by simp)) hinv h1
        have n1 := hvar d v s c s1 pend (hok v (by simp)) hinv hn h1
        exact hun d rest s1 ks' s2 pend (fun v' h' => hok v' (by simp [h'])) i1 n1 h2

/-- `appendSchema_newtype_nd` with the name of the `fixed`. -/
theorem appendSchema_newtype_nd_name {F : Nat} {id : Nat} {d : Decl} {fd : Field} {n : Nat}
    (hd : P[id]? = some d) (hb : d.body = .newtype fd) (hdir : isDirect fd .newtypeStruct = false)
    (hl : fd.attr.logical.isNone = true) (hp : Derive.peel fd.ty = .byteArray n)
    {s s' : BState} {u : Unit}
    (h : appendSchema P hash (F + 1) (.named id []) s = some (u, s')) :
    s' = { s with
      nodes := s.nodes.push (plain (.fixed (Name.ofFq (ownedName d .newtypeStruct "")) n)) } := by
  unfold appendSchema at h
  simp only [hd, hb, hdir, Bool.false_eq_true, if_false] at h
  cases F with
  | zero => rw [fieldInst_zero] at h; simp at h
  | succ F =>
    unfold fieldInst at h
    simp only [logicalOf_plain hl, chosenTy_plain hl, hp, FieldKind.overridesFixedName, push] at h
    split at h
    · simp only [Option.some.injEq, Prod.mk.injEq] at h
      exact h.2.symm
    · cases h

theorem leafNode_name {t : Ty} {tok : KTok} {x : RawNode} (h : leafTok t = some tok)
    (hx : leafNode t = some x) (nm : Name) (hnm : tyNm x.type = some nm) :
    expNm P [tok] = some nm := by
  cases t <;> simp only [leafTok, Option.some.injEq, reduceCtorEq] at h <;>
    simp only [leafNode, Option.some.injEq] at hx <;> subst h <;> subst hx <;>
    simp only [plain, tyNm, reduceCtorEq, Option.some.injEq] at hnm
  subst hnm
  rfl

theorem napp_step_leaf {F : Nat} {t : Ty} {tok : KTok} (h : leafTok t = some tok)
    (s : BState) (key : Key) (u : Unit) (s' : BState) (pend : List Key)
    (hinv : Inv P pend s) (hn : NameInv P s) (hkey : KeyOf P t key)
    (ha : appendSchema P hash (F + 1) t { nodes := s.nodes, built := (key, s.nodes.size) :: s.built } =
      some (u, s')) : NameInv P s' := by
  obtain ⟨x, hx⟩ : ∃ x, leafNode t = some x := by
    cases t <;> simp only [leafTok, reduceCtorEq] at h <;> exact ⟨_, rfl⟩
  rw [appendSchema_leaf P hash F hx] at ha
  simp only [Option.some.injEq, Prod.mk.injEq] at ha
  obtain ⟨_, rfl⟩ := ha
  have hk : key = [tok] := hkey.leaf (lookupKey_leaf h)
  subst hk
  exact hn.register_push hinv x (leafNode_name h hx)

theorem napp_step_container {F : Nat} (hfob : NFob P hash F) {t t0 : Ty} {mk : Nat → RegularType}
    (heq : ∀ s, appendSchema P hash (F + 1) t0 s =
      match findOrBuild P hash F t { s with nodes := s.nodes.push (plain .null) } with
      | none => none
      | some (k, s') => setNode s.nodes.size (plain (mk k)) s')
    (hmk : ∀ c, tyNm (mk c) = none)
    (ht : tyOk P t = true)
    (s : BState) (key : Key) (u : Unit) (s' : BState) (pend : List Key)
    (hinv : Inv P pend s) (hn : NameInv P s) (hnew : s.built.lookup key = none)
    (ha : appendSchema P hash (F + 1) t0 { nodes := s.nodes, built := (key, s.nodes.size) :: s.built } =
      some (u, s')) : NameInv P s' := by
  rw [heq] at ha
  obtain ⟨hinv2, _⟩ := hinv.register_push hnew (plain .null) ⟨_, rfl⟩
  have hn2 := hn.register_push hinv (key := key) (plain .null) (by intro nm h; simp [plain, tyNm] at h)
  dsimp only at ha
  cases hf : findOrBuild P hash F t
      { nodes := s.nodes.push (plain .null), built := (key, s.nodes.size) :: s.built } with
  | none => simp [hf] at ha
  | some r =>
    obtain ⟨c, s3⟩ := r
    simp only [hf] at ha
    have hn3 := hfob t _ c s3 (key :: pend) ht hinv2 hn2 hf
    have hs' := setNode_some ha
    subst hs'
    exact hn3.set _ _ (by intro k nm _ h; simp [plain, hmk] at h)

theorem napp_step_option (hP : ∀ (id : Nat) (d : Decl), P[id]? = some d → declOk true P d = true)
    {F : Nat} (hfob : NFob P hash F) {t : Ty} (ht : tyOk P t = true)
    (s : BState) (key : Key) (u : Unit) (s' : BState) (pend : List Key)
    (hinv : Inv P pend s) (hn : NameInv P s) (hnew : s.built.lookup key = none)
    (ha : appendSchema P hash (F + 1) (.option t)
      { nodes := s.nodes, built := (key, s.nodes.size) :: s.built } = some (u, s')) :
    NameInv P s' := by
  rw [appendSchema_option] at ha
  obtain ⟨hinv2, _⟩ := hinv.register_push hnew (plain .null) ⟨_, rfl⟩
  have hn2 := hn.register_push hinv (key := key) (plain .null) (by intro nm h; simp [plain, tyNm] at h)
  dsimp only at ha
  cases hf : findOrBuild P hash F .unit
      { nodes := s.nodes.push (plain .null), built := (key, s.nodes.size) :: s.built } with
  | none => simp [hf] at ha
  | some r =>
    obtain ⟨a, s3⟩ := r
    simp only [hf] at ha
    obtain ⟨hinv3, _⟩ := (builder_specs (hash := hash) hP F).1 .unit _ a s3 (key :: pend)
      (by simp [tyOk]) hinv2 hf
    have hn3 := hfob .unit _ a s3 (key :: pend) (by simp [tyOk]) hinv2 hn2 hf
    cases hf2 : findOrBuild P hash F t s3 with
    | none => simp [hf2] at ha
    | some r2 =>
      obtain ⟨b, s4⟩ := r2
      simp only [hf2] at ha
      have hn4 := hfob t _ b s4 (key :: pend) ht hinv3 hn3 hf2
      have hs' := setNode_some ha
      subst hs'
      exact hn4.set _ _ (by intro k nm _ h; simp [plain, tyNm] at h)

theorem napp_step_named (hP : ∀ (id : Nat) (d : Decl), P[id]? = some d → declOk true P d = true)
    {F : Nat} (happ : NApp P hash F) (hrec : NRec P hash F) (hun : NUnion P hash F)
    {id : Nat} {args : List Ty}
    (ht : tyOk P (.named id args) = true)
    (s : BState) (key : Key) (u : Unit) (s' : BState) (pend : List Key)
    (hinv : Inv P pend s) (hn : NameInv P s) (hkey : KeyOf P (.named id args) key)
    (hnew : s.built.lookup key = none)
    (ha : appendSchema P hash (F + 1) (.named id args)
      { nodes := s.nodes, built := (key, s.nodes.size) :: s.built } = some (u, s')) :
    NameInv P s' := by
  simp only [tyOk, Bool.and_eq_true, List.isEmpty_iff, decide_eq_true_eq] at ht
  obtain ⟨rfl, hid⟩ := ht
  cases hd : P[id]? with
  | none => rw [appendSchema_named_none P hash F hd] at ha; cases ha
  | some d =>
    have hdok := hP id d hd
    cases hb : d.body with
    | unitEnum vs =>
      rw [appendSchema_enum P hash F hd hb] at ha
      simp only [Option.some.injEq, Prod.mk.injEq] at ha
      obtain ⟨_, rfl⟩ := ha
      have hk := hkey.named_enum hd hb
      subst hk
      refine hn.register_push hinv _ (fun nm h => ?_)
      simp only [plain, tyNm, Option.some.injEq] at h
      subst h
      simp [expNm, hd, hb]
    | newtype fd =>
      simp only [declOk, hb, Bool.and_eq_true, decide_eq_true_eq, plainFieldOk] at hdok
      obtain ⟨⟨_, hl, hty⟩, hrest⟩ := hdok
      cases hdir : isDirect fd .newtypeStruct with
      | true =>
        rw [appendSchema_newtype P hash F hd hb hdir, chosenTy_plain hl, subst_nil] at ha
        have hk := hkey.named_newtype hd hb hdir
        rw [chosenTy_plain hl, subst_nil] at hk
        exact happ _ s key u s' pend (tyOk_peel P hty) hinv hn hk hnew ha
      | false =>
        simp only [hdir, Bool.false_eq_true, if_false, decide_eq_true_eq] at hrest
        obtain ⟨n, hp⟩ := not_direct hl hdir
        have hs' := appendSchema_newtype_nd_name hd hb hdir hl hp ha
        subst hs'
        have hk := hkey.named_newtype_nd hd hb hdir hrest
        subst hk
        refine hn.register_push hinv _ (fun nm h => ?_)
        simp only [plain, tyNm, Option.some.injEq] at h
        subst h
        simp [expNm, hd, hb]
    | record fields =>
      simp only [declOk, hb, Bool.and_eq_true, decide_eq_true_eq, List.all_eq_true] at hdok
      obtain ⟨⟨hnp, _⟩, hfields⟩ := hdok
      rw [appendSchema_record P hash F hd hb hnp] at ha
      obtain ⟨hinv2, _⟩ := hinv.register_push hnew (plain .null) ⟨_, rfl⟩
      have hn2 := hn.register_push hinv (key := key) (plain .null) (by intro nm h; simp [plain, tyNm] at h)
      dsimp only at ha
      cases hf : recordFields P hash F d [] (typeName d) fields
          { nodes := s.nodes.push (plain .null), built := (key, s.nodes.size) :: s.built } with
      | none => simp [hf] at ha
      | some r =>
        obtain ⟨fs, s3⟩ := r
        simp only [hf] at ha
        obtain ⟨hinv3, hext3, _⟩ := (builder_specs (hash := hash) hP F).2.2.2.1 d _ fields _ fs s3
          (key :: pend) (fun fd hfd => fieldOk_build (hfields fd hfd)) hinv2 hf
        have hn3 := hrec d _ fields _ fs s3 (key :: pend)
          (fun fd hfd => fieldOk_build (hfields fd hfd)) hinv2 hn2 hf
        have hs' := setNode_some ha
        subst hs'
        have hk := hkey.named_record hd hb hnp
        subst hk
        have hregn : Reg s3 [.self id] s.nodes.size := hext3.built _ _ (Reg.cons_self _ _ _ _)
        refine hn3.set _ _ (fun k nm hk h => ?_)
        have : k = [.self id] := hinv3.inj _ _ _ hk hregn
        subst this
        simp only [plain, tyNm, Option.some.injEq] at h
        subst h
        simp [expNm, hd, hb]
    | union vs =>
      simp only [declOk, hb, Bool.true_and, Bool.and_eq_true, decide_eq_true_eq, List.all_eq_true] at hdok
      obtain ⟨hnp, hvs⟩ := hdok
      rw [appendSchema_union P hash F hd hb] at ha
      obtain ⟨hinv2, _⟩ := hinv.register_push hnew (plain .null) ⟨_, rfl⟩
      have hn2 := hn.register_push hinv (key := key) (plain .null) (by intro nm h; simp [plain, tyNm] at h)
      dsimp only at ha
      cases hf : unionVariants P hash F d [] vs
          { nodes := s.nodes.push (plain .null), built := (key, s.nodes.size) :: s.built } with
      | none => simp [hf] at ha
      | some r =>
        obtain ⟨ks, s3⟩ := r
        simp only [hf] at ha
        have hn3 := hun d vs _ ks s3 (key :: pend) hvs hinv2 hn2 hf
        have hs' := setNode_some ha
        subst hs'
        exact hn3.set _ _ (by intro k nm _ h; simp [plain, tyNm] at h)

theorem napp_step (hP : ∀ (id : Nat) (d : Decl), P[id]? = some d → declOk true P d = true)
    {F : Nat} (hfob : NFob P hash F) (happ : NApp P hash F) (hrec : NRec P hash F)
    (hun : NUnion P hash F) : NApp P hash (F + 1) := by
  intro t s key u s' pend ht hinv hn hkey hnew ha
  cases t with
  | vec t =>
    exact napp_step_container hfob (t := t) (mk := .array) (appendSchema_vec P hash F t)
      (fun _ => rfl) (by simpa [tyOk] using ht) s key u s' pend hinv hn hnew ha
  | hashMap t =>
    exact napp_step_container hfob (t := t) (mk := .map) (appendSchema_hashMap P hash F t)
      (fun _ => rfl) (by simpa [tyOk] using ht) s key u s' pend hinv hn hnew ha
  | btreeMap t =>
    exact napp_step_container hfob (t := t) (mk := .map) (appendSchema_btreeMap P hash F t)
      (fun _ => rfl) (by simpa [tyOk] using ht) s key u s' pend hinv hn hnew ha
  | option t =>
    have ht' : tyOk P t = true := by
      simp only [tyOk, Bool.and_eq_true] at ht; exact ht.1
    exact napp_step_option hP hfob ht' s key u s' pend hinv hn hnew ha
  | ptr t =>
    rw [appendSchema_ptr] at ha
    exact happ t s key u s' pend (by simpa [tyOk] using ht) hinv hn hkey.ptr hnew ha
  | named id args => exact napp_step_named hP happ hrec hun ht s key u s' pend hinv hn hkey hnew ha
  | param i => simp [tyOk] at ht
  | unit => exact napp_step_leaf (tok := .unit) rfl s key u s' pend hinv hn hkey ha
  | bool => exact napp_step_leaf (tok := .bool) rfl s key u s' pend hinv hn hkey ha
  | i8 => exact napp_step_leaf (tok := .int) rfl s key u s' pend hinv hn hkey ha
  | i16 => exact napp_step_leaf (tok := .int) rfl s key u s' pend hinv hn hkey ha
  | i32 => exact napp_step_leaf (tok := .int) rfl s key u s' pend hinv hn hkey ha
  | u16 => exact napp_step_leaf (tok := .int) rfl s key u s' pend hinv hn hkey ha
  | i64 => exact napp_step_leaf (tok := .long) rfl s key u s' pend hinv hn hkey ha
  | u32 => exact napp_step_leaf (tok := .long) rfl s key u s' pend hinv hn hkey ha
  | u64 => exact napp_step_leaf (tok := .long) rfl s key u s' pend hinv hn hkey ha
  | usize => exact napp_step_leaf (tok := .long) rfl s key u s' pend hinv hn hkey ha
  | f32 => exact napp_step_leaf (tok := .float) rfl s key u s' pend hinv hn hkey ha
  | f64 => exact napp_step_leaf (tok := .double) rfl s key u s' pend hinv hn hkey ha
  | string => exact napp_step_leaf (tok := .string) rfl s key u s' pend hinv hn hkey ha
  | str => exact napp_step_leaf (tok := .string) rfl s key u s' pend hinv hn hkey ha
  | byteVec => exact napp_step_leaf (tok := .bytes) rfl s key u s' pend hinv hn hkey ha
  | byteSlice => exact napp_step_leaf (tok := .bytes) rfl s key u s' pend hinv hn hkey ha
  | byteArray n => exact napp_step_leaf (tok := .byteArray n) rfl s key u s' pend hinv hn hkey ha

/-- `NameInv` is kept by all builder functions, by induction on the fuel. -/
theorem name_specs (hP : ∀ (id : Nat) (d : Decl), P[id]? = some d → declOk true P d = true) : ∀ F,
    NFob P hash F ∧ NApp P hash F ∧ NFi P hash F ∧ NRec P hash F ∧ NVar P hash F ∧ NUnion P hash F
  | 0 => by
    refine ⟨?_, ?_, ?_, nrec_zero, nvar_zero, nunion_zero⟩
    · intro t s c s' pend _ _ _ h; rw [findOrBuild_zero] at h; cases h
    · intro t s key u s' pend _ _ _ _ _ h; rw [appendSchema_zero] at h; cases h
    · intro d tn fd name s c s' pend _ _ _ h; rw [fieldInst_zero] at h; cases h
  | F + 1 => by
    obtain ⟨h1, h2, h3, h4, h5, h6⟩ := name_specs hP F
    exact ⟨nfob_step h2, napp_step hP h1 h2 h4 h6, nfi_step h1, nrec_step hP h3 h4,
      nvar_step h1 (nfob_step h2), nunion_step hP h5 h6⟩

end nspecs

/-! ### The lookup names of the branch built for a payload type, from the program text -/

/-- `Node.lookupNames` of a named node: the short name, then the fullname. -/
def nmNames (nm : Name) : List String := [nm.short, nm.fq]

/-- The names under which the union branch built for a variant payload of type `t` is registered
    (`Node.lookupNames` of the frozen node), read off the program text: the Avro type name for
    the unnamed types, the short name and the fullname (`Name.ofFq`: split at the last dot) for
    records, unit-only enums and the named `fixed` of a `[u8; N]` newtype; pointers and forwarding
    newtypes are looked through (`n` bounds the length of a chain of newtypes).  `none`: not
    determined (types outside the fragment, or a chain of newtypes longer than `n`). -/
def branchNames (P : Prog) : Nat → Ty → Option (List String)
  | 0, _ => none
  | n + 1, t =>
    match Derive.peel t with
    | .unit => some ["Null"]
    | .bool => some ["Boolean"]
    | .i8 | .i16 | .i32 | .u16 => some ["Int"]
    | .i64 | .u32 | .u64 | .usize => some ["Long"]
    | .f32 => some ["Float"]
    | .f64 => some ["Double"]
    | .string | .str => some ["String"]
    | .byteVec | .byteSlice => some ["Bytes"]
    | .byteArray m => some (nmNames (Name.ofFq ("u8_array_" ++ toString m)))
    | .vec _ => some ["Array"]
    | .hashMap _ | .btreeMap _ => some ["Map"]
    | .option _ => some ["Union"]
    | .ptr _ | .param _ => none
    | .named id _ =>
      match P[id]? with
      | none => none
      | some d =>
        match d.body with
        | .record _ => some (nmNames (Name.ofFq (typeName d)))
        | .unitEnum _ => some (nmNames (Name.ofFq (typeName d)))
        | .union _ => some ["Union"]
        | .newtype fd =>
          if fd.attr.logical.isNone then
            if isDirect fd .newtypeStruct then branchNames P n fd.ty
            else some (nmNames (Name.ofFq (ownedName d .newtypeStruct "")))
          else none

/-- The frozen node at `c`, as `branchNodes` reads it. -/
def frozenAt (s : BState) (c : Nat) : Node := ((freezeNodes s.nodes)[c]?).getD .null

theorem frozenAt_plain {s : BState} {c : Nat} {X : RegularType} (h : s.nodes[c]? = some (plain X)) :
    frozenAt s c = freezeNode (plain X) := by
  unfold frozenAt
  rw [freeze_get h]
  rfl

section bnames
variable {P : Prog}

theorem branchNames_spec (hP : ∀ (id : Nat) (d : Decl), P[id]? = some d → declOk true P d = true)
    {s : BState} (hinv : Inv P [] s) (hn : NameInv P s) : ∀ (n : Nat) (t : Ty) (k : Key) (c : Nat)
    (L : List String), branchNames P n t = some L → tyOk P t = true → KeyOf P t k → Reg s k c →
    (frozenAt s c).lookupNames = L := by
  have hdone : ∀ k i, Reg s k i → Done P s k i := fun k i h => by
    rcases hinv.done k i h with h' | h'
    · cases h'
    · exact h'
  intro n
  induction n with
  | zero => intro t k c L h; simp [branchNames] at h
  | succ n ih =>
    intro t k c L h ht hk hreg
    have hk' := hk.to_peel
    have ht' := tyOk_peel P ht
    unfold branchNames at h
    generalize Derive.peel t = u at h hk' ht'
    have leaf : ∀ tok X, leafTok u = some tok → (Done P s [tok] c → s.nodes[c]? = some (plain X)) →
        (freezeNode (plain X)).lookupNames = L → (frozenAt s c).lookupNames = L := by
      intro tok X h1 h2 h3
      have : k = [tok] := hk'.leaf (lookupKey_leaf h1)
      subst this
      rw [frozenAt_plain (h2 (hdone _ _ hreg))]
      exact h3
    cases u with
    | ptr t => simp at h
    | param i => simp at h
    | unit => exact leaf .unit .null rfl id (by simpa [freezeNode, plain, Node.lookupNames] using h)
    | bool => exact leaf .bool .boolean rfl id (by simpa [freezeNode, plain, Node.lookupNames] using h)
    | i8 => exact leaf .int .int rfl id (by simpa [freezeNode, plain, Node.lookupNames] using h)
    | i16 => exact leaf .int .int rfl id (by simpa [freezeNode, plain, Node.lookupNames] using h)
    | i32 => exact leaf .int .int rfl id (by simpa [freezeNode, plain, Node.lookupNames] using h)
    | u16 => exact leaf .int .int rfl id (by simpa [freezeNode, plain, Node.lookupNames] using h)
    | i64 => exact leaf .long .long rfl id (by simpa [freezeNode, plain, Node.lookupNames] using h)
    | u32 => exact leaf .long .long rfl id (by simpa [freezeNode, plain, Node.lookupNames] using h)
    | u64 => exact leaf .long .long rfl id (by simpa [freezeNode, plain, Node.lookupNames] using h)
    | usize => exact leaf .long .long rfl id (by simpa [freezeNode, plain, Node.lookupNames] using h)
    | f32 => exact leaf .float .float rfl id (by simpa [freezeNode, plain, Node.lookupNames] using h)
    | f64 => exact leaf .double .double rfl id (by simpa [freezeNode, plain, Node.lookupNames] using h)
    | string => exact leaf .string .string rfl id (by simpa [freezeNode, plain, Node.lookupNames] using h)
    | str => exact leaf .string .string rfl id (by simpa [freezeNode, plain, Node.lookupNames] using h)
    | byteVec => exact leaf .bytes .bytes rfl id (by simpa [freezeNode, plain, Node.lookupNames] using h)
    | byteSlice => exact leaf .bytes .bytes rfl id (by simpa [freezeNode, plain, Node.lookupNames] using h)
    | byteArray m =>
      have : k = [.byteArray m] := hk'.leaf (lookupKey_leaf (t := .byteArray m) rfl)
      subst this
      obtain ⟨nm, hnode⟩ := hdone _ _ hreg
      have hnm := hn _ c _ nm hreg hnode rfl
      simp only [expNm, Option.some.injEq] at hnm
      subst hnm
      rw [frozenAt_plain hnode]
      simpa [freezeNode, plain, Node.lookupNames, nmNames] using h
    | vec t =>
      obtain ⟨k', rfl, _⟩ := hk'.vec
      obtain ⟨c', hnode, _⟩ := hdone _ _ hreg
      rw [frozenAt_plain hnode]
      simpa [freezeNode, plain, Node.lookupNames] using h
    | hashMap t =>
      obtain ⟨k', rfl, _⟩ := hk'.hashMap
      obtain ⟨c', hnode, _⟩ := hdone _ _ hreg
      rw [frozenAt_plain hnode]
      simpa [freezeNode, plain, Node.lookupNames] using h
    | btreeMap t =>
      obtain ⟨k', rfl, _⟩ := hk'.btreeMap
      obtain ⟨c', hnode, _⟩ := hdone _ _ hreg
      rw [frozenAt_plain hnode]
      simpa [freezeNode, plain, Node.lookupNames] using h
    | option t =>
      obtain ⟨k', rfl, _⟩ := hk'.option
      obtain ⟨a, b, hnode, _⟩ := hdone _ _ hreg
      rw [frozenAt_plain hnode]
      simpa [freezeNode, plain, Node.lookupNames] using h
    | named id args =>
      simp only [tyOk, Bool.and_eq_true, List.isEmpty_iff, decide_eq_true_eq] at ht'
      obtain ⟨rfl, hid⟩ := ht'
      have hd : P[id]? = some P[id] := Array.getElem?_eq_getElem hid
      have hdok := hP id _ hd
      generalize P[id] = d at hd hdok
      simp only [hd] at h
      cases hb : d.body with
      | unitEnum vs =>
        simp only [hb, Option.some.injEq] at h
        have := hk'.named_enum hd hb
        subst this
        have hdn := hdone _ _ hreg
        simp only [Done, KeyNode, hd, hb] at hdn
        obtain ⟨nm, hnode⟩ := hdn
        have hnm := hn _ c _ nm hreg hnode rfl
        simp only [expNm, hd, hb, Option.some.injEq] at hnm
        subst hnm
        rw [frozenAt_plain hnode]
        simpa [freezeNode, plain, Node.lookupNames, nmNames] using h
      | record fields =>
        simp only [hb, Option.some.injEq] at h
        simp only [declOk, hb, Bool.and_eq_true, decide_eq_true_eq, List.all_eq_true] at hdok
        have := hk'.named_record hd hb hdok.1.1
        subst this
        have hdn := hdone _ _ hreg
        simp only [Done, KeyNode, hd, hb] at hdn
        obtain ⟨nm, fs, hnode, _⟩ := hdn
        have hnm := hn _ c _ nm hreg hnode rfl
        simp only [expNm, hd, hb, Option.some.injEq] at hnm
        subst hnm
        rw [frozenAt_plain hnode]
        simpa [freezeNode, plain, Node.lookupNames, nmNames] using h
      | union vs =>
        simp only [hb, Option.some.injEq] at h
        simp only [declOk, hb, Bool.true_and, Bool.and_eq_true, decide_eq_true_eq] at hdok
        have := hk'.named_union hd hb hdok.1
        subst this
        have hdn := hdone _ _ hreg
        simp only [Done, KeyNode, hd, hb] at hdn
        obtain ⟨ks, hnode, _⟩ := hdn
        rw [frozenAt_plain hnode]
        simpa [freezeNode, plain, Node.lookupNames] using h
      | newtype fd =>
        simp only [hb] at h
        simp only [declOk, hb, Bool.and_eq_true, decide_eq_true_eq, plainFieldOk] at hdok
        obtain ⟨⟨_, hl, hty⟩, hrest⟩ := hdok
        simp only [hl, if_true] at h
        cases hdir : isDirect fd .newtypeStruct with
        | true =>
          simp only [hdir, if_true] at h
          have hk2 := hk'.named_newtype hd hb hdir
          rw [chosenTy_plain hl, subst_nil] at hk2
          exact ih fd.ty k c L h hty hk2.of_peel hreg
        | false =>
          simp only [hdir, Bool.false_eq_true, if_false, decide_eq_true_eq, Option.some.injEq] at h hrest
          have := hk'.named_newtype_nd hd hb hdir hrest
          subst this
          have hdn := hdone _ _ hreg
          simp only [Done, KeyNode, hd, hb] at hdn
          obtain ⟨_, nm, m, hnode, _⟩ := hdn
          have hnm := hn _ c _ nm hreg hnode rfl
          simp only [expNm, hd, hb, Option.some.injEq] at hnm
          subst hnm
          rw [frozenAt_plain hnode]
          simpa [freezeNode, plain, Node.lookupNames, nmNames] using h

end bnames

/-! ### By-name selection -/

theorem namedLookup_go_none (name : String) : ∀ (ns : List Node) (disc : Nat) (acc : Option Nat),
    (∀ n ∈ ns, n.lookupNames.contains name = false) → namedLookup.go name ns disc acc = acc
  | [], _, _, _ => rfl
  | n :: rest, disc, acc, h => by
    rw [namedLookup.go, h n (by simp)]
    exact namedLookup_go_none name rest (disc + 1) acc (fun m hm => h m (by simp [hm]))

theorem namedLookup_go_at (name : String) : ∀ (ns : List Node) (disc : Nat) (acc : Option Nat) (j : Nat)
    (n : Node), ns[j]? = some n → n.lookupNames.contains name = true →
    (∀ l m, j < l → ns[l]? = some m → m.lookupNames.contains name = false) →
    namedLookup.go name ns disc acc = some (disc + j)
  | [], _, _, j, n, hj, _, _ => by simp at hj
  | x :: rest, disc, acc, 0, n, hj, hc, hlater => by
    simp only [List.getElem?_cons_zero, Option.some.injEq] at hj
    subst hj
    rw [namedLookup.go, hc]
    simp only [if_true, Nat.add_zero]
    refine namedLookup_go_none name rest (disc + 1) _ (fun m hm => ?_)
    obtain ⟨l, hl⟩ := List.getElem?_of_mem hm
    exact hlater (l + 1) m (by omega) (by simpa using hl)
  | x :: rest, disc, acc, j + 1, n, hj, hc, hlater => by
    rw [namedLookup.go]
    have := namedLookup_go_at name rest (disc + 1)
      (if x.lookupNames.contains name then some disc else acc) j n (by simpa using hj) hc
      (fun l m hl hm => hlater (l + 1) m (by omega) (by simpa using hm))
    rw [this]
    congr 1
    omega

/-- By-name selection picks branch `j` when it registers the name and no later branch does. -/
theorem namedLookup_at {name : String} {ns : List Node} {j : Nat} {n : Node} (hj : ns[j]? = some n)
    (hc : n.lookupNames.contains name = true)
    (hlater : ∀ l m, j < l → ns[l]? = some m → m.lookupNames.contains name = false) :
    namedLookup name ns = some j := by
  unfold namedLookup
  rw [namedLookup_go_at name ns 0 none j n hj hc hlater, Nat.zero_add]

end Avro.Theorems.DeriveFits
