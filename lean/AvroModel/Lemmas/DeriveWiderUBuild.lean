import AvroModel.Lemmas.DeriveWiderUInv
import AvroModel.Lemmas.DeriveMore
/-
C20, wider, with enums that map to unions — part 2: the fragment and the builder specifications.

`declOkWU` is `DeriveW.declOkW` plus enums that map to unions, generic or not: every variant is a unit
variant or a newtype variant whose field has no logical-type attribute and a type of the fragment
over the enum's parameters (`tyOkW`; marks as for records).  In a non-generic enum a payload *written*
`[u8; N]` (behind pointers) is allowed: the variant then owns a `fixed` node (`VarNode`); in a generic
enum it is not (defect D24 of the crate: the fixed would be defined once per instantiation).
-/
namespace Avro.Theorems.DeriveWU
open Avro Avro.Impl Avro.Impl.Derive Avro.Theorems.DeriveG Avro.Theorems.DeriveW
open Avro.Theorems.DeriveFits hiding Inv KeyNode Done app_leaf app_fill app_step_leaf plainAt_of_done leaf_realizes leaf_keyNode

/-! ### The fragment -/

/-- Variants: unit, or one field without logical-type attribute whose type is a type of the fragment
    over the enum's `n` parameters. -/
def variantOkWU (P : Prog) (M : Marks) (K n : Nat) (ctx : Nat → Bool) (v : Variant) : Bool :=
  match v.field with
  | none => true
  | some fd => plainFieldOkW P M K n ctx fd

/-- The variant's payload goes through `find_or_build` (it is not written `[u8; N]`). -/
def directV (v : Variant) : Bool :=
  match v.field with
  | none => true
  | some fd => isDirect fd (.newtypeVariant v.ident)

/-- A declaration, its marked parameters being `ctx`: those of `declOkWith`, and enums that map to
    unions.  In a *generic* enum no payload may be written `[u8; N]` (the variant-owned fixed would
    be defined once per instantiation: defect D24 of the crate). -/
def declOkWithU (P : Prog) (M : Marks) (K : Nat) (ctx : Nat → Bool) (d : Decl) : Bool :=
  match d.body with
  | .union vs => vs.all fun v => variantOkWU P M K (scopeW d) ctx v && (decide (d.nparams = 0) || directV v)
  | _ => declOkWith P M K ctx d

def declOkWU (P : Prog) (M : Marks) (K id : Nat) (d : Decl) : Bool :=
  declOkWithU P M K (ctxOf M id (scopeW d)) d

theorem declOkWU_of_W {P : Prog} {M : Marks} {K id : Nat} {d : Decl} (h : declOkW P M K id d = true) :
    declOkWU P M K id d = true := by
  unfold declOkWU declOkWithU
  cases hb : d.body with
  | union vs => simp [declOkW, declOkWith, hb] at h
  | _ => exact h

theorem scopeW_union {d : Decl} {vs : List Variant} (hb : d.body = .union vs) : scopeW d = d.nparams := by
  by_cases hn : d.nparams = 0 <;> simp [scopeW, isGenW, hb, hn]

theorem declOkWU_union {P : Prog} {M : Marks} {K id : Nat} {d : Decl} {vs : List Variant}
    (hb : d.body = .union vs) (h : declOkWU P M K id d = true) :
    ∀ v ∈ vs, variantOkWU P M K d.nparams (ctxOf M id d.nparams) v = true ∧
      (d.nparams = 0 ∨ directV v = true) := by
  unfold declOkWU declOkWithU at h
  simp only [hb, scopeW_union hb, List.all_eq_true, Bool.and_eq_true, Bool.or_eq_true, decide_eq_true_eq] at h
  exact h

/-! ### Equations for variants -/

section eqns
variable (P : Prog) (hash : Key → String) (F : Nat)

theorem not_directV {fd : Field} {name : String} (hl : fd.attr.logical.isNone = true)
    (hdir : ¬ isDirect fd (.newtypeVariant name) = true) : ∃ n, Derive.peel fd.ty = .byteArray n := by
  simp only [isDirect, hl, FieldKind.overridesFixedName, Bool.true_and] at hdir
  cases hp : Derive.peel fd.ty <;> simp [hp] at hdir
  exact ⟨_, rfl⟩

theorem fieldInst_variant_nd {d : Decl} {args : List Ty} {fd : Field} {name tn : String} {n : Nat}
    (hl : fd.attr.logical.isNone = true) (hp : Derive.peel fd.ty = .byteArray n) :
    fieldInst P hash (F + 1) d args fd (.newtypeVariant name) tn =
      push (plain (.fixed (Name.ofFq (ownedName d (.newtypeVariant name) tn)) n)) := by
  unfold fieldInst
  simp only [logicalOf_plain hl, chosenTy_plain hl, hp, FieldKind.overridesFixedName]

theorem fieldInst_variantA {d : Decl} {args : List Ty} {fd : Field} {name tn : String}
    (hl : fd.attr.logical.isNone = true) (hdir : isDirect fd (.newtypeVariant name) = true) :
    fieldInst P hash (F + 1) d args fd (.newtypeVariant name) tn =
      findOrBuild P hash F (subst args (Derive.peel fd.ty)) := by
  unfold fieldInst
  simp only [isDirect, hl, FieldKind.overridesFixedName, Bool.true_and] at hdir
  simp only [logicalOf_plain hl, chosenTy_plain hl, FieldKind.overridesFixedName]
  cases hp : Derive.peel fd.ty <;> simp [hp] at hdir <;> rfl

/-- The instantiation of one variant (`unionVariants`). -/
def variantStep (d : Decl) (args : List Ty) (v : Variant) (s : BState) : Option (Nat × BState) :=
  match v.field with
  | none => findOrBuild P hash F .unit s
  | some f => fieldInst P hash F d args f (.newtypeVariant v.ident) "" s

theorem unionVariants_consU (d : Decl) (args : List Ty) (v : Variant) (rest : List Variant)
    (s : BState) : unionVariants P hash (F + 1) d args (v :: rest) s =
      match variantStep P hash F d args v s with
      | none => none
      | some (k, s1) =>
        match unionVariants P hash F d args rest s1 with
        | none => none
        | some (ks, s2) => some (k :: ks, s2) := by
  conv => lhs; unfold unionVariants
  unfold variantStep
  cases v.field <;> rfl

end eqns

/-- The key of an instantiation of a generic enum that maps to a union. -/
theorem named_union_gen {P : Prog} {id : Nat} {args : List Ty} {k : Key} {d : Decl} {vs : List Variant}
    (h : KeyOf P (.named id args) k) (hd : P[id]? = some d) (hb : d.body = .union vs)
    (hn : d.nparams ≠ 0) :
    ∃ F rest, k = .generic id (vs.filterMap (·.field)).length :: rest ∧
      lookupKeys P F ((vs.filterMap (·.field)).map fun f => subst args (chosenTy f)) = some rest := by
  obtain ⟨F, h⟩ := h.succ
  unfold lookupKey at h
  simp only [hd, hb, hn, if_false, Body.lookupFields] at h
  cases h1 : lookupKeys P F ((vs.filterMap (·.field)).map fun f => subst args (chosenTy f)) with
  | none => rw [h1] at h; cases h
  | some rest =>
    rw [h1] at h
    exact ⟨F, rest, (Option.some.inj h).symm, h1⟩

theorem BExt.keep {s s' : BState} (he : BExt s s') {j : Nat} {x : RawNode} (h : s.nodes[j]? = some x) :
    s'.nodes[j]? = some x := by
  have hlt : j < s.nodes.size := by
    rcases Nat.lt_or_ge j s.nodes.size with h' | h'
    · exact h'
    · rw [Array.getElem?_eq_none h'] at h; cases h
  rw [he.nodes j hlt, h]

/-! ### Specifications of the builder functions -/

section specs
variable (P : Prog) (M : Marks) (hash : Key → String)

def FobSpecU (F : Nat) : Prop :=
  ∀ (t : Ty) (s : BState) (c : Nat) (s' : BState) (pend : List Key), OkT P M t → InvU P pend s →
    findOrBuild P hash F t s = some (c, s') →
    InvU P pend s' ∧ BExt s s' ∧ ∃ key, KeyOf P t key ∧ Reg s' key c

def AppSpecU (F : Nat) : Prop :=
  ∀ (t : Ty) (s : BState) (key : Key) (u : Unit) (s' : BState) (pend : List Key), OkT P M t →
    InvU P pend s → KeyOf P t key → s.built.lookup key = none →
    appendSchema P hash F t { nodes := s.nodes, built := (key, s.nodes.size) :: s.built } = some (u, s') →
    InvU P pend s' ∧ BExt s s' ∧ s.nodes.size < s'.nodes.size ∧ Reg s' key s.nodes.size

def FiSpecU (F : Nat) : Prop :=
  ∀ (K : Nat) (ctx : Nat → Bool) (d : Decl) (args : List Ty) (tn : String) (fd : Field) (name : String)
    (s : BState) (c : Nat) (s' : BState) (pend : List Key),
    buildFieldOkW P M K args.length ctx fd = true →
    ArgsOk P M ctx args → (∀ i, ctx i = true → i < args.length) → InvU P pend s →
    fieldInst P hash F d args fd (.structField name) tn s = some (c, s') →
    InvU P pend s' ∧ BExt s s' ∧ c < s'.nodes.size ∧
      ((fd.attr.logical.isNone = true ∧ ∃ k, KeyOf P (subst args fd.ty) k ∧ Reg s' k c) ∨
       (fd.attr.logical.isNone = false ∧
          ∃ raw, logicalRawAt d fd name tn = some raw ∧ s'.nodes[c]? = some raw))

def RecSpecU (F : Nat) : Prop :=
  ∀ (K : Nat) (ctx : Nat → Bool) (d : Decl) (args : List Ty) (tn : String) (fields : List Field) (s : BState)
    (fs : List (String × Nat)) (s' : BState) (pend : List Key),
    (∀ fd ∈ fields, buildFieldOkW P M K args.length ctx fd = true) →
    ArgsOk P M ctx args → (∀ i, ctx i = true → i < args.length) →
    InvU P pend s → recordFields P hash F d args tn fields s = some (fs, s') →
    InvU P pend s' ∧ BExt s s' ∧ fs.length = fields.length ∧
      ∀ (j : Nat) (fd : Field) (p : String × Nat), fields[j]? = some fd → fs[j]? = some p →
        p.1 = fd.name ∧
          ((fd.attr.logical.isNone = true ∧ ∃ k, KeyOf P (subst args fd.ty) k ∧ Reg s' k p.2) ∨
           (fd.attr.logical.isNone = false ∧
              ∃ raw, logicalRawAt d fd fd.name tn = some raw ∧ s'.nodes[p.2]? = some raw))

/-- One variant of an enum that maps to a union, instantiated with `args`. -/
def VarSpecU (F : Nat) : Prop :=
  ∀ (K : Nat) (ctx : Nat → Bool) (d : Decl) (args : List Ty) (v : Variant) (s : BState) (c : Nat) (s' : BState)
    (pend : List Key),
    variantOkWU P M K args.length ctx v = true →
    ArgsOk P M ctx args → (∀ i, ctx i = true → i < args.length) → InvU P pend s →
    variantStep P hash F d args v s = some (c, s') →
    InvU P pend s' ∧ BExt s s' ∧ c < s'.nodes.size ∧ VarNode P (Reg s') s'.nodes d args v c

def UnionSpecU (F : Nat) : Prop :=
  ∀ (K : Nat) (ctx : Nat → Bool) (d : Decl) (args : List Ty) (vs : List Variant) (s : BState) (ks : List Nat)
    (s' : BState) (pend : List Key),
    (∀ v ∈ vs, variantOkWU P M K args.length ctx v = true) →
    ArgsOk P M ctx args → (∀ i, ctx i = true → i < args.length) → InvU P pend s →
    unionVariants P hash F d args vs s = some (ks, s') →
    InvU P pend s' ∧ BExt s s' ∧ ks.length = vs.length ∧
      ∀ (j : Nat) (v : Variant) (c : Nat), vs[j]? = some v → ks[j]? = some c →
        c < s'.nodes.size ∧ VarNode P (Reg s') s'.nodes d args v c

variable {P M hash}

theorem var_zeroU : VarSpecU P M hash 0 := by
  intro K ctx d args v s c s' pend _ _ _ _ h
  cases hf : v.field with
  | none => unfold variantStep at h; rw [hf] at h; dsimp only at h; rw [findOrBuild_zero] at h; cases h
  | some fd => unfold variantStep at h; rw [hf] at h; dsimp only at h; rw [fieldInst_zero] at h; cases h

theorem var_stepU {F : Nat} (hfob : FobSpecU P M hash F) (hfob1 : FobSpecU P M hash (F + 1)) :
    VarSpecU P M hash (F + 1) := by
  intro K ctx d args v s c s' pend hv hargs hctx hinv h
  unfold variantOkWU at hv
  unfold VarNode
  unfold variantStep at h
  cases hf : v.field with
  | none =>
    rw [hf] at h
    dsimp only at h ⊢
    obtain ⟨h1, h2, key, h3, h4⟩ := hfob1 .unit s c s' pend (OkT.unit P M) hinv h
    have : key = [.unit] := h3.leaf (fun F => by unfold lookupKey; rfl)
    subst this
    exact ⟨h1, h2, h1.bnd _ _ h4, h4⟩
  | some fd =>
    rw [hf] at h hv
    dsimp only at h hv ⊢
    simp only [plainFieldOkW, Bool.and_eq_true] at hv
    obtain ⟨hl, hty⟩ := hv
    by_cases hdir : isDirect fd (.newtypeVariant v.ident) = true
    · rw [fieldInst_variantA P hash F hl hdir] at h
      obtain ⟨h1, h2, key, h3, h4⟩ := hfob _ s c s' pend
        (OkT.subst hargs rfl hctx (tyOkW_peel P M K _ ctx hty)) hinv h
      rw [if_pos hdir]
      exact ⟨h1, h2, h1.bnd _ _ h4, key, KeyOf.subst_peel args h3, h4⟩
    · obtain ⟨n, hp⟩ := not_directV hl hdir
      rw [fieldInst_variant_nd P hash F hl hp] at h
      simp only [push, Option.some.injEq, Prod.mk.injEq] at h
      obtain ⟨rfl, rfl⟩ := h
      obtain ⟨h1, h2⟩ := hinv.push_owned
        (s' := { s with nodes := s.nodes.push (plain (.fixed (Name.ofFq (ownedName d (.newtypeVariant v.ident) "")) n)) })
        rfl (by simp) (fun j hj => by simp [Array.getElem?_push, Nat.ne_of_lt hj])
      rw [if_neg hdir]
      exact ⟨h1, h2, by simp, n, hp, by simp⟩

theorem union_zeroU : UnionSpecU P M hash 0 := by
  intro K ctx d args vs s ks s' pend _ _ _ hinv h
  cases vs with
  | nil =>
    rw [unionVariants_nil] at h
    simp only [Option.some.injEq, Prod.mk.injEq] at h
    obtain ⟨rfl, rfl⟩ := h
    exact ⟨hinv, BExt.refl _, rfl, fun j v c hj => by simp at hj⟩
  | cons v rest => rw [unionVariants_zero] at h; cases h

theorem union_stepU {F : Nat} (hvar : VarSpecU P M hash F) (hun : UnionSpecU P M hash F) :
    UnionSpecU P M hash (F + 1) := by
  intro K ctx d args vs s ks s' pend hok hargs hctx hinv h
  cases vs with
  | nil =>
    rw [unionVariants_nil] at h
    simp only [Option.some.injEq, Prod.mk.injEq] at h
    obtain ⟨rfl, rfl⟩ := h
    exact ⟨hinv, BExt.refl _, rfl, fun j v c hj => by simp at hj⟩
  | cons v rest =>
    rw [unionVariants_consU] at h
    cases h1 : variantStep P hash F d args v s with
    | none => simp [h1] at h
    | some r1 =>
      obtain ⟨c, s1⟩ := r1
      simp only [h1] at h
      cases h2 : unionVariants P hash F d args rest s1 with
      | none => simp [h2] at h
      | some r2 =>
        obtain ⟨ks', s2⟩ := r2
        simp only [h2, Option.some.injEq, Prod.mk.injEq] at h
        obtain ⟨rfl, rfl⟩ := h
        obtain ⟨i1, e1, hlt, hc⟩ := hvar K ctx d args v s c s1 pend (hok v (by simp)) hargs hctx hinv h1
        obtain ⟨i2, e2, hlen, hall⟩ := hun K ctx d args rest s1 ks' s2 pend
          (fun v' h' => hok v' (by simp [h'])) hargs hctx i1 h2
        refine ⟨i2, e1.trans e2, by simp [hlen], fun j v' c' hj hp => ?_⟩
        cases j with
        | zero =>
          simp only [List.getElem?_cons_zero, Option.some.injEq] at hj hp
          subst hj hp
          exact ⟨Nat.lt_of_lt_of_le hlt e2.size, hc.mono e2.built (fun j x hj _ => BExt.keep e2 hj)⟩
        | succ j =>
          simp only [List.getElem?_cons_succ] at hj hp
          exact hall j v' c' hj hp

theorem fob_stepU {F : Nat} (happ : AppSpecU P M hash F) : FobSpecU P M hash (F + 1) := by
  intro t s c s' pend ht hinv h
  rw [findOrBuild_eq] at h
  cases hk : lookupKey P (F + 1) t with
  | none => simp [hk] at h
  | some key =>
    simp only [hk] at h
    cases hb : s.built.lookup key with
    | some idx =>
      simp only [hb, Option.some.injEq, Prod.mk.injEq] at h
      obtain ⟨rfl, rfl⟩ := h
      exact ⟨hinv, BExt.refl _, key, ⟨_, hk⟩, hb⟩
    | none =>
      simp only [hb] at h
      cases ha : appendSchema P hash F t { nodes := s.nodes, built := (key, s.nodes.size) :: s.built } with
      | none => simp [ha] at h
      | some r =>
        obtain ⟨u, s2⟩ := r
        simp only [ha] at h
        split at h
        · simp only [Option.some.injEq, Prod.mk.injEq] at h
          obtain ⟨rfl, rfl⟩ := h
          obtain ⟨h1, h2, _, h4⟩ := happ t s key u s2 pend ht hinv ⟨_, hk⟩ hb ha
          exact ⟨h1, h2, key, ⟨_, hk⟩, h4⟩
        · cases h

theorem fi_stepU {F : Nat} (hfob : FobSpecU P M hash F) : FiSpecU P M hash (F + 1) := by
  intro K ctx d args tn fd name s c s' pend hfd hargs hctx hinv h
  cases hl : fd.attr.logical.isNone with
  | true =>
    simp only [buildFieldOkW, plainFieldOkW, hl, Bool.true_and, Bool.not_true, Bool.false_and,
      Bool.or_false] at hfd
    rw [fieldInst_plain P hash F hl] at h
    obtain ⟨h1, h2, key, h3, h4⟩ := hfob _ s c s' pend
      (OkT.subst hargs rfl hctx (tyOkW_peel P M K _ ctx hfd)) hinv h
    exact ⟨h1, h2, h1.bnd _ _ h4, .inl ⟨rfl, key, KeyOf.subst_peel args h3, h4⟩⟩
  | false =>
    simp only [buildFieldOkW, plainFieldOkW, hl, Bool.false_and, Bool.not_false, Bool.true_and,
      Bool.false_or, Option.isSome_iff_exists] at hfd
    obtain ⟨x, hx⟩ := hfd
    obtain ⟨rfl, hb, hn⟩ := fieldInst_logicalG P hash (F + 1) hl hx h
    have hsz : s'.nodes.size = s.nodes.size + 1 := by rw [hn]; simp [Array.set!_eq_setIfInBounds]
    have hold : ∀ j, j < s.nodes.size → s'.nodes[j]? = s.nodes[j]? := by
      intro j hj
      rw [hn]
      simp only [Array.set!_eq_setIfInBounds]
      rw [Array.getElem?_setIfInBounds_ne (by omega), Array.getElem?_push_lt hj]
      exact (Array.getElem?_eq_getElem hj).symm
    obtain ⟨h1, h2⟩ := hinv.push_owned hb (by omega) hold
    refine ⟨h1, h2, by omega, .inr ⟨rfl,
      { type := renameNode x.type (Name.ofFq (ownedName d (.structField name) tn)),
        logical := logicalOf fd }, ?_, ?_⟩⟩
    · unfold logicalRawAt
      rw [hx]
      rfl
    · rw [hn]
      simp [Array.set!_eq_setIfInBounds]

theorem rec_zeroU : RecSpecU P M hash 0 := by
  intro K ctx d args tn fields s fs s' pend _ _ _ hinv h
  cases fields with
  | nil =>
    rw [recordFields_nil] at h
    simp only [Option.some.injEq, Prod.mk.injEq] at h
    obtain ⟨rfl, rfl⟩ := h
    exact ⟨hinv, BExt.refl _, rfl, fun j fd p hj => by simp at hj⟩
  | cons fd rest => rw [recordFields_zero] at h; cases h

theorem rec_stepU {F : Nat} (hfi : FiSpecU P M hash F) (hrec : RecSpecU P M hash F) :
    RecSpecU P M hash (F + 1) := by
  intro K ctx d args tn fields s fs s' pend hok hargs hctx hinv h
  cases fields with
  | nil =>
    rw [recordFields_nil] at h
    simp only [Option.some.injEq, Prod.mk.injEq] at h
    obtain ⟨rfl, rfl⟩ := h
    exact ⟨hinv, BExt.refl _, rfl, fun j fd p hj => by simp at hj⟩
  | cons fd rest =>
    rw [recordFields_cons] at h
    cases h1 : fieldInst P hash F d args fd (.structField fd.name) tn s with
    | none => simp [h1] at h
    | some r1 =>
      obtain ⟨c, s1⟩ := r1
      simp only [h1] at h
      cases h2 : recordFields P hash F d args tn rest s1 with
      | none => simp [h2] at h
      | some r2 =>
        obtain ⟨fs', s2⟩ := r2
        simp only [h2, Option.some.injEq, Prod.mk.injEq] at h
        obtain ⟨rfl, rfl⟩ := h
        obtain ⟨i1, e1, hc, hfield⟩ := hfi K ctx d args tn fd fd.name s c s1 pend (hok fd (by simp)) hargs hctx
          hinv h1
        obtain ⟨i2, e2, hlen, hall⟩ := hrec K ctx d args tn rest s1 fs' s2 pend
          (fun fd' h' => hok fd' (by simp [h'])) hargs hctx i1 h2
        refine ⟨i2, e1.trans e2, by simp [hlen], fun j fd' p hj hp => ?_⟩
        cases j with
        | zero =>
          simp only [List.getElem?_cons_zero, Option.some.injEq] at hj hp
          subst hj hp
          refine ⟨rfl, ?_⟩
          rcases hfield with ⟨hl, k, hk, hreg⟩ | ⟨hl, raw, hraw, hnode⟩
          · exact .inl ⟨hl, k, hk, e2.built _ _ hreg⟩
          · exact .inr ⟨hl, raw, hraw, by rw [e2.nodes c hc]; exact hnode⟩
        | succ j =>
          simp only [List.getElem?_cons_succ] at hj hp
          exact hall j fd' p hj hp

theorem leaf_keyNodeU {t : Ty} {tok : KTok} {x : RawNode} (h : leafTok t = some tok)
    (hx : leafNode t = some x) (reg : Key → Nat → Prop) (nodes : Array RawNode) (i : Nat)
    (hn : nodes[i]? = some x) : KeyNodeU P reg nodes [tok] i := by
  cases t <;> simp only [leafTok, Option.some.injEq, reduceCtorEq] at h <;>
    simp only [leafNode, Option.some.injEq] at hx <;> subst h <;> subst hx <;> exact hn

theorem app_step_leafU {F : Nat} {t : Ty} {tok : KTok} (h : leafTok t = some tok)
    (s : BState) (key : Key) (u : Unit) (s' : BState) (pend : List Key)
    (hinv : InvU P pend s) (hkey : KeyOf P t key) (hnew : s.built.lookup key = none)
    (ha : appendSchema P hash (F + 1) t { nodes := s.nodes, built := (key, s.nodes.size) :: s.built } =
      some (u, s')) :
    InvU P pend s' ∧ BExt s s' ∧ s.nodes.size < s'.nodes.size ∧ Reg s' key s.nodes.size := by
  obtain ⟨x, hx⟩ : ∃ x, leafNode t = some x := by
    cases t <;> simp only [leafTok, reduceCtorEq] at h <;> exact ⟨_, rfl⟩
  rw [appendSchema_leaf P hash F hx] at ha
  simp only [Option.some.injEq, Prod.mk.injEq] at ha
  obtain ⟨_, rfl⟩ := ha
  have hk : key = [tok] := hkey.leaf (lookupKey_leaf h)
  subst hk
  exact app_leafU hinv hnew x (leafNode_plain hx) (fun reg nodes hn => leaf_keyNodeU h hx reg nodes _ hn)

/-- `Vec<T>` and the two maps: reserve, register the element type, fill. -/
theorem app_step_containerU {F : Nat} (hfob : FobSpecU P M hash F) {t t0 : Ty} {tok : KTok}
    {mk : Nat → RegularType}
    (heq : ∀ s, appendSchema P hash (F + 1) t0 s =
      match findOrBuild P hash F t { s with nodes := s.nodes.push (plain .null) } with
      | none => none
      | some (k, s') => setNode s.nodes.size (plain (mk k)) s')
    (hkinv : ∀ key, KeyOf P t0 key → ∃ k', key = tok :: k' ∧ KeyOf P t k')
    (hnode : ∀ (reg : Key → Nat → Prop) (nodes : Array RawNode) (i c : Nat) (rest : Key),
      nodes[i]? = some (plain (mk c)) → reg rest c → KeyNodeU P reg nodes (tok :: rest) i)
    (ht : OkT P M t)
    (s : BState) (key : Key) (u : Unit) (s' : BState) (pend : List Key)
    (hinv : InvU P pend s) (hkey : KeyOf P t0 key) (hnew : s.built.lookup key = none)
    (ha : appendSchema P hash (F + 1) t0 { nodes := s.nodes, built := (key, s.nodes.size) :: s.built } =
      some (u, s')) :
    InvU P pend s' ∧ BExt s s' ∧ s.nodes.size < s'.nodes.size ∧ Reg s' key s.nodes.size := by
  rw [heq] at ha
  obtain ⟨hinv2, hext2⟩ := hinv.register_push hnew (plain .null) ⟨_, rfl⟩
  dsimp only at ha
  cases hf : findOrBuild P hash F t
      { nodes := s.nodes.push (plain .null), built := (key, s.nodes.size) :: s.built } with
  | none => simp [hf] at ha
  | some r =>
    obtain ⟨c, s3⟩ := r
    simp only [hf] at ha
    obtain ⟨hinv3, hext3, key', hk', hreg'⟩ := hfob t _ c s3 (key :: pend) ht hinv2 hf
    have hs' := setNode_some ha
    subst hs'
    obtain ⟨k', rfl, hk''⟩ := hkinv key hkey
    have := hk''.unique hk'
    subst this
    exact app_fillU hinv3 (hext2.trans hext3) (hext3.built _ _ (Reg.cons_self _ _ _ _))
      (placeholder_kept hext3) _ ⟨_, rfl⟩
      (fun nodes hn _ => hnode _ nodes _ c _ hn hreg')

theorem app_step_optionU {F : Nat} (hfob : FobSpecU P M hash F) {t : Ty} (ht : OkT P M t)
    (s : BState) (key : Key) (u : Unit) (s' : BState) (pend : List Key)
    (hinv : InvU P pend s) (hkey : KeyOf P (.option t) key) (hnew : s.built.lookup key = none)
    (ha : appendSchema P hash (F + 1) (.option t)
      { nodes := s.nodes, built := (key, s.nodes.size) :: s.built } = some (u, s')) :
    InvU P pend s' ∧ BExt s s' ∧ s.nodes.size < s'.nodes.size ∧ Reg s' key s.nodes.size := by
  rw [appendSchema_option] at ha
  obtain ⟨hinv2, hext2⟩ := hinv.register_push hnew (plain .null) ⟨_, rfl⟩
  dsimp only at ha
  cases hf : findOrBuild P hash F .unit
      { nodes := s.nodes.push (plain .null), built := (key, s.nodes.size) :: s.built } with
  | none => simp [hf] at ha
  | some r =>
    obtain ⟨a, s3⟩ := r
    simp only [hf] at ha
    obtain ⟨hinv3, hext3, keyu, hku, hrega⟩ := hfob .unit _ a s3 (key :: pend) (OkT.unit P M) hinv2 hf
    have : keyu = [.unit] := hku.leaf (lookupKey_leaf (t := .unit) rfl)
    subst this
    cases hf2 : findOrBuild P hash F t s3 with
    | none => simp [hf2] at ha
    | some r2 =>
      obtain ⟨b, s4⟩ := r2
      simp only [hf2] at ha
      obtain ⟨hinv4, hext4, key', hk', hregb⟩ := hfob t _ b s4 (key :: pend) ht hinv3 hf2
      have hs' := setNode_some ha
      subst hs'
      obtain ⟨k', rfl, hk''⟩ := hkey.option
      have := hk''.unique hk'
      subst this
      exact app_fillU hinv4 ((hext2.trans hext3).trans hext4)
        (hext4.built _ _ (hext3.built _ _ (Reg.cons_self _ _ _ _)))
        (placeholder_kept (hext3.trans hext4)) _ ⟨_, rfl⟩
        (fun nodes hn _ => ⟨a, b, hn, hext4.built _ _ hrega, hregb⟩)

theorem app_step_namedU {F K0 : Nat}
    (hP : ∀ (id : Nat) (d : Decl), P[id]? = some d → declOkWU P M K0 id d = true)
    (hun : UnionSpecU P M hash F) (happ : AppSpecU P M hash F) (hrec : RecSpecU P M hash F)
    {id : Nat} {args : List Ty}
    (ht : OkT P M (.named id args))
    (s : BState) (key : Key) (u : Unit) (s' : BState) (pend : List Key)
    (hinv : InvU P pend s) (hkey : KeyOf P (.named id args) key) (hnew : s.built.lookup key = none)
    (ha : appendSchema P hash (F + 1) (.named id args)
      { nodes := s.nodes, built := (key, s.nodes.size) :: s.built } = some (u, s')) :
    InvU P pend s' ∧ BExt s s' ∧ s.nodes.size < s'.nodes.size ∧ Reg s' key s.nodes.size := by
  cases hd : P[id]? with
  | none => rw [appendSchema_named_none P hash F hd] at ha; cases ha
  | some d =>
    have hdok := hP id d hd
    obtain ⟨hlen, hargs⟩ := ht.named hd
    have hctx : ∀ i, ctxOf M id (scopeW d) i = true → i < args.length := by
      rw [hlen]; exact ctxOf_lt
    unfold declOkWU declOkWithU at hdok
    cases hb : d.body with
    | unitEnum vs =>
      rw [appendSchema_enum P hash F hd hb] at ha
      simp only [Option.some.injEq, Prod.mk.injEq] at ha
      obtain ⟨_, rfl⟩ := ha
      have hk := hkey.named_enum hd hb
      subst hk
      refine app_leafU hinv hnew _ ⟨_, rfl⟩ (fun reg nodes hn => ?_)
      simp only [KeyNodeU, hd, hb]
      exact hn
    | newtype fd =>
      simp only [hb, declOkWith, Bool.and_eq_true, decide_eq_true_eq, plainFieldOkW] at hdok
      obtain ⟨⟨_, hl, hty⟩, hrest⟩ := hdok
      cases hdir : isDirect fd .newtypeStruct with
      | true =>
        rw [appendSchema_newtype P hash F hd hb hdir, chosenTy_plain hl] at ha
        have hk := hkey.named_newtype hd hb hdir
        rw [chosenTy_plain hl] at hk
        exact happ _ s key u s' pend
          (OkT.subst hargs hlen ctxOf_lt (tyOkW_peel P M K0 _ _ hty)) hinv hk hnew ha
      | false =>
        simp only [hdir, Bool.false_eq_true, if_false, decide_eq_true_eq] at hrest
        have hng : scopeW d = 0 := by simp [scopeW, isGenW, hrest]
        rw [hng] at hlen
        have : args = [] := List.eq_nil_of_length_eq_zero hlen
        subst this
        obtain ⟨n, hp⟩ := not_direct hl hdir
        have hs' := appendSchema_newtype_nd_name (hash := hash) (F := F) hd hb hdir hl hp ha
        subst hs'
        have hk := hkey.named_newtype_nd hd hb hdir hrest
        subst hk
        refine app_leafU hinv hnew _ ⟨_, rfl⟩ (fun reg nodes hn => ?_)
        simp only [KeyNodeU, hd, hb]
        exact ⟨hdir, n, hn, hp⟩
    | record fields =>
      simp only [hb, declOkWith, Bool.and_eq_true, decide_eq_true_eq, List.all_eq_true] at hdok
      obtain ⟨_, hfields⟩ := hdok
      obtain ⟨hinv2, hext2⟩ := hinv.register_push hnew (plain .null) ⟨_, rfl⟩
      have hfok : ∀ fd ∈ fields, buildFieldOkW P M K0 args.length (ctxOf M id (scopeW d)) fd = true := by
        intro fd hfd
        rw [hlen]
        exact fieldOkW_build (hfields fd hfd)
      by_cases hn : d.nparams = 0
      · -- a non-generic record
        have hng : scopeW d = 0 := by simp [scopeW, isGenW, hn]
        have : args = [] := List.eq_nil_of_length_eq_zero (by rw [hlen, hng])
        subst this
        rw [appendSchema_record P hash F hd hb hn] at ha
        dsimp only at ha
        cases hf : recordFields P hash F d [] (typeName d) fields
            { nodes := s.nodes.push (plain .null), built := (key, s.nodes.size) :: s.built } with
        | none => simp [hf] at ha
        | some r =>
          obtain ⟨fs, s3⟩ := r
          simp only [hf] at ha
          obtain ⟨hinv3, hext3, hlen3, hall⟩ := hrec K0 _ d [] _ fields _ fs s3 (key :: pend)
            hfok hargs hctx hinv2 hf
          have hs' := setNode_some ha
          subst hs'
          have hk := hkey.named_record hd hb hn
          subst hk
          have hregn : Reg s3 [.self id] s.nodes.size := hext3.built _ _ (Reg.cons_self _ _ _ _)
          refine app_fillU hinv3 (hext2.trans hext3) hregn (placeholder_kept hext3) _ ⟨_, rfl⟩ (fun nodes hnd hother => ?_)
          simp only [KeyNodeU, hd, hb]
          refine ⟨fs, hnd, hlen3, fun j fd p hj hp => ?_⟩
          obtain ⟨h1, h2⟩ := hall j fd p hj hp
          refine ⟨h1, ?_⟩
          rw [subst_nil] at h2
          rcases h2 with h2 | ⟨hl, raw, hraw, hnode⟩
          · exact .inl h2
          · refine .inr ⟨hl, raw, hraw, ?_⟩
            rw [hother p.2 ?_]
            · exact hnode
            · intro hpn
              obtain ⟨X, hX⟩ := hinv3.isPlain _ _ hregn
              rw [hpn, hX] at hnode
              cases hnode
              exact logicalRawAt_logical hraw hl rfl
      · -- a generic record
        rw [appendSchema_record_gen P hash F hd hb hn] at ha
        cases hk1 : lookupKey P F (.named id args) with
        | none => simp [hk1] at ha
        | some k1 =>
          have : k1 = key := KeyOf.unique ⟨_, hk1⟩ hkey
          subst this
          simp only [hk1] at ha
          cases hf : recordFields P hash F d args (typeName d ++ "_" ++ hash k1) fields
              { nodes := s.nodes.push (plain .null), built := (k1, s.nodes.size) :: s.built } with
          | none => simp [hf] at ha
          | some r =>
            obtain ⟨fs, s3⟩ := r
            simp only [hf] at ha
            obtain ⟨hinv3, hext3, hlen3, hall⟩ := hrec K0 _ d args _ fields _ fs s3 (k1 :: pend)
              hfok hargs hctx hinv2 hf
            have hs' := setNode_some ha
            subst hs'
            obtain ⟨F', rest, rfl, hrest⟩ := hkey.named_record_gen hd hb hn
            obtain ⟨cks, rfl, hclen, hcall⟩ := lookupKeys_split P _ F' rest hrest
            have hregn : Reg s3 (.generic id fields.length :: cks.flatten) s.nodes.size :=
              hext3.built _ _ (Reg.cons_self _ _ _ _)
            refine app_fillU hinv3 (hext2.trans hext3) hregn (placeholder_kept hext3) _ ⟨_, rfl⟩ (fun nodes hnd hother => ?_)
            simp only [KeyNodeU, hd, hb]
            refine ⟨_, fs, cks, hnd, hlen3, by simpa using hclen, rfl, fun ck hck => ?_,
              fun j fd p ck hj hp hc => ?_⟩
            · obtain ⟨j, hj⟩ := List.getElem?_of_mem hck
              have hjlt : j < fields.length := by
                have := (List.getElem?_eq_some_iff.mp hj).1
                simpa [hclen] using this
              exact (hcall j (subst args (chosenTy fields[j])) ck (by simp [List.getElem?_eq_getElem hjlt]) hj).coded
            · obtain ⟨h1, h2⟩ := hall j fd p hj hp
              refine ⟨h1, ?_⟩
              rcases h2 with ⟨hl, k, hk, hr⟩ | ⟨hl, raw, hraw, hnode⟩
              · have hck := hcall j (subst args (chosenTy fd)) ck (by simp [hj]) hc
                rw [chosenTy_plain hl] at hck
                have := (KeyOf.subst_peel args hck).unique hk
                subst this
                exact .inl ⟨hl, hr⟩
              · refine .inr ⟨hl, _, raw, hraw, ?_⟩
                rw [hother p.2 ?_]
                · exact hnode
                · intro hpn
                  obtain ⟨X, hX⟩ := hinv3.isPlain _ _ hregn
                  rw [hpn, hX] at hnode
                  cases hnode
                  exact logicalRawAt_logical hraw hl rfl
    | union vs =>
      have hvs := declOkWU_union hb (hP id d hd)
      have hsc := scopeW_union hb
      rw [hsc] at hlen hargs hctx
      have hvok : ∀ v ∈ vs, variantOkWU P M K0 args.length (ctxOf M id d.nparams) v = true := by
        intro v hv; rw [hlen]; exact (hvs v hv).1
      rw [appendSchema_union P hash F hd hb] at ha
      obtain ⟨hinv2, hext2⟩ := hinv.register_push hnew (plain .null) ⟨_, rfl⟩
      dsimp only at ha
      cases hf : unionVariants P hash F d args vs
          { nodes := s.nodes.push (plain .null), built := (key, s.nodes.size) :: s.built } with
      | none => simp [hf] at ha
      | some r =>
        obtain ⟨ks, s3⟩ := r
        simp only [hf] at ha
        obtain ⟨hinv3, hext3, hlen3, hall⟩ := hun K0 _ d args vs _ ks s3 (key :: pend) hvok hargs hctx hinv2 hf
        have hs' := setNode_some ha
        subst hs'
        have hnull := placeholder_kept hext3
        have hkeep : ∀ (nodes : Array RawNode), (∀ j, j ≠ s.nodes.size → nodes[j]? = s3.nodes[j]?) →
            ∀ (j' : Nat) (x : RawNode), s3.nodes[j']? = some x → x ≠ plain .null → nodes[j']? = some x := by
          intro nodes hother j' x hj' hx
          rw [hother j' ?_]
          · exact hj'
          · intro he
            rw [he, hnull] at hj'
            cases hj'
            exact hx rfl
        by_cases hn : d.nparams = 0
        · have : args = [] := List.eq_nil_of_length_eq_zero (by rw [hlen, hn])
          subst this
          have hk := hkey.named_union hd hb hn
          subst hk
          refine app_fillU hinv3 (hext2.trans hext3) (hext3.built _ _ (Reg.cons_self _ _ _ _)) hnull _ ⟨_, rfl⟩
            (fun nodes hnd hother => ?_)
          simp only [KeyNodeU, hd, hb]
          exact ⟨ks, hnd, hlen3, fun j v c hj hc =>
            (hall j v c hj hc).2.mono (fun _ _ h => h) (hkeep nodes hother)⟩
        · obtain ⟨F', rest, rfl, hrest⟩ := named_union_gen hkey hd hb hn
          obtain ⟨cks, rfl, hclen, hcall⟩ := lookupKeys_split P _ F' rest hrest
          refine app_fillU hinv3 (hext2.trans hext3) (hext3.built _ _ (Reg.cons_self _ _ _ _)) hnull _ ⟨_, rfl⟩
            (fun nodes hnd hother => ?_)
          simp only [KeyNodeU, hd, hb]
          refine ⟨ks, cks, hnd, hlen3, by simpa using hclen, rfl, fun ck hck => ?_, fun j v c hj hc => ?_⟩
          · obtain ⟨m, hm⟩ := List.getElem?_of_mem hck
            have hmlt : m < (vs.filterMap (·.field)).length := by
              have := (List.getElem?_eq_some_iff.mp hm).1
              simpa [hclen] using this
            exact (hcall m (subst args (chosenTy (vs.filterMap (·.field))[m])) ck
              (by simp [List.getElem?_eq_getElem hmlt]) hm).coded
          · have hvn := (hall j v c hj hc).2
            have hdv := (hvs v (List.mem_of_getElem? hj)).2
            have hvk := (hvs v (List.mem_of_getElem? hj)).1
            unfold VarNode at hvn
            unfold directV at hdv
            unfold variantOkWU at hvk
            cases hfd : v.field with
            | none => rw [hfd] at hvn; exact hvn
            | some fd =>
              rw [hfd] at hvn hdv hvk
              dsimp only at hvn hdv hvk ⊢
              have hdir : isDirect fd (.newtypeVariant v.ident) = true := by
                rcases hdv with h | h
                · exact absurd h hn
                · exact h
              simp only [plainFieldOkW, Bool.and_eq_true] at hvk
              rw [if_pos hdir] at hvn
              obtain ⟨k, hk, hr⟩ := hvn
              have hidx := filterMap_fieldIdx vs j v fd hj hfd
              have hilt : fieldIdx vs j < cks.length := by
                rw [hclen]
                simpa using (List.getElem?_eq_some_iff.mp hidx).1
              have hck : cks[fieldIdx vs j]? = some cks[fieldIdx vs j] := List.getElem?_eq_getElem hilt
              have hko := hcall (fieldIdx vs j) (subst args (chosenTy fd)) _ (by simp [hidx]) hck
              rw [chosenTy_plain hvk.1] at hko
              have := (KeyOf.subst_peel args hko).unique hk
              exact ⟨_, hck, this ▸ hr⟩

theorem app_stepU {F K0 : Nat} (hP : ∀ (id : Nat) (d : Decl), P[id]? = some d → declOkWU P M K0 id d = true)
    (hfob : FobSpecU P M hash F) (happ : AppSpecU P M hash F) (hrec : RecSpecU P M hash F)
    (hun : UnionSpecU P M hash F) :
    AppSpecU P M hash (F + 1) := by
  intro t s key u s' pend ht hinv hkey hnew ha
  cases t with
  | vec t =>
    exact app_step_containerU hfob (t := t) (tok := .vec) (mk := .array) (appendSchema_vec P hash F t)
      (fun _ h => h.vec) (fun reg nodes i c rest h1 h2 => ⟨c, h1, h2⟩)
      (ht.inner fun K h => by simpa [tyOkW] using h) s key u s' pend hinv hkey hnew ha
  | hashMap t =>
    exact app_step_containerU hfob (t := t) (tok := .map) (mk := .map) (appendSchema_hashMap P hash F t)
      (fun _ h => h.hashMap) (fun reg nodes i c rest h1 h2 => ⟨c, h1, h2⟩)
      (ht.inner fun K h => by simpa [tyOkW] using h) s key u s' pend hinv hkey hnew ha
  | btreeMap t =>
    exact app_step_containerU hfob (t := t) (tok := .map) (mk := .map) (appendSchema_btreeMap P hash F t)
      (fun _ h => h.btreeMap) (fun reg nodes i c rest h1 h2 => ⟨c, h1, h2⟩)
      (ht.inner fun K h => by simpa [tyOkW] using h) s key u s' pend hinv hkey hnew ha
  | option t =>
    have ht' : OkT P M t := ht.inner fun K h => by
      simp only [tyOkW, Bool.and_eq_true] at h; exact h.1
    exact app_step_optionU hfob ht' s key u s' pend hinv hkey hnew ha
  | ptr t =>
    rw [appendSchema_ptr] at ha
    exact happ t s key u s' pend (ht.inner fun K h => by simpa [tyOkW] using h) hinv hkey.ptr hnew ha
  | named id args => exact app_step_namedU hP hun happ hrec ht s key u s' pend hinv hkey hnew ha
  | param i => obtain ⟨K, ht⟩ := ht; simp [tyOkW] at ht
  | unit => exact app_step_leafU (tok := .unit) rfl s key u s' pend hinv hkey hnew ha
  | bool => exact app_step_leafU (tok := .bool) rfl s key u s' pend hinv hkey hnew ha
  | i8 => exact app_step_leafU (tok := .int) rfl s key u s' pend hinv hkey hnew ha
  | i16 => exact app_step_leafU (tok := .int) rfl s key u s' pend hinv hkey hnew ha
  | i32 => exact app_step_leafU (tok := .int) rfl s key u s' pend hinv hkey hnew ha
  | u16 => exact app_step_leafU (tok := .int) rfl s key u s' pend hinv hkey hnew ha
  | i64 => exact app_step_leafU (tok := .long) rfl s key u s' pend hinv hkey hnew ha
  | u32 => exact app_step_leafU (tok := .long) rfl s key u s' pend hinv hkey hnew ha
  | u64 => exact app_step_leafU (tok := .long) rfl s key u s' pend hinv hkey hnew ha
  | usize => exact app_step_leafU (tok := .long) rfl s key u s' pend hinv hkey hnew ha
  | f32 => exact app_step_leafU (tok := .float) rfl s key u s' pend hinv hkey hnew ha
  | f64 => exact app_step_leafU (tok := .double) rfl s key u s' pend hinv hkey hnew ha
  | string => exact app_step_leafU (tok := .string) rfl s key u s' pend hinv hkey hnew ha
  | str => exact app_step_leafU (tok := .string) rfl s key u s' pend hinv hkey hnew ha
  | byteVec => exact app_step_leafU (tok := .bytes) rfl s key u s' pend hinv hkey hnew ha
  | byteSlice => exact app_step_leafU (tok := .bytes) rfl s key u s' pend hinv hkey hnew ha
  | byteArray n => exact app_step_leafU (tok := .byteArray n) rfl s key u s' pend hinv hkey hnew ha

/-- All four specifications, by induction on the fuel. -/
theorem builder_specsU {K0 : Nat}
    (hP : ∀ (id : Nat) (d : Decl), P[id]? = some d → declOkWU P M K0 id d = true) : ∀ F,
    FobSpecU P M hash F ∧ AppSpecU P M hash F ∧ FiSpecU P M hash F ∧ RecSpecU P M hash F ∧
      VarSpecU P M hash F ∧ UnionSpecU P M hash F
  | 0 => by
    refine ⟨?_, ?_, ?_, rec_zeroU, var_zeroU, union_zeroU⟩
    · intro t s c s' pend _ _ h; rw [findOrBuild_zero] at h; cases h
    · intro t s key u s' pend _ _ _ _ h; rw [appendSchema_zero] at h; cases h
    · intro K ctx d args tn fd name s c s' pend _ _ _ _ h; rw [fieldInst_zero] at h; cases h
  | F + 1 => by
    obtain ⟨h1, h2, h3, h4, h5, h6⟩ := builder_specsU hP F
    exact ⟨fob_stepU h2, app_stepU hP h1 h2 h4 h6, fi_stepU h1, rec_stepU h3 h4, var_stepU h1 (fob_stepU h2), union_stepU h5 h6⟩

end specs

end Avro.Theorems.DeriveWU
