import AvroModel.Lemmas.RenderPcfBase
/-
C09 (global): one step of each of the three walks, per kind of node.

* `render_*_inv` — what a successful call of the renderer on a node of a given kind did;
* `pcf_*` — the corresponding call of the canonical-form writer, from the results of its
  sub-calls (general previous value of the guard cell, unlike `Lemmas/PcfSpecGraph.lean`);
* `canon_obj_*`, `scan_obj_*`, `canonFields_cons`, `scanFields_cons` — the specification's
  transformation on an object whose `type` attribute is known.
-/
namespace Avro.RenderPcf
open Avro Avro.Impl Avro.Spec Avro.Spec.Pcf

def primText : RegularType → Option String
  | .null => some "null" | .boolean => some "boolean" | .int => some "int" | .long => some "long"
  | .float => some "float" | .double => some "double" | .bytes => some "bytes"
  | .string => some "string"
  | _ => none

def nameOf : RegularType → Option Name
  | .record nm _ => some nm | .enum nm _ => some nm | .fixed nm _ => some nm
  | _ => none

theorem primText_isPrimitive {ty : RegularType} {t : String} (h : primText ty = some t) :
    isPrimitive t = true := by
  cases ty <;> simp only [primText, Option.some.injEq, reduceCtorEq] at h <;> subst h <;> decide

/-! ### the renderer, inverted -/

theorem render_prim_inv {S : SchemaMut} {f key : Nat} {ns : Option String} {st st' : RenderState}
    {j : Json} {node : RawNode} {t : String}
    (hk : S[key]? = some node) (hp : primText node.type = some t)
    (h : render S (f + 1) key ns st = .ok (j, st')) :
    st' = st ∧ j = (match node.logical with
      | none => .str t
      | some _ => .obj (typeMembers t node.logical)) := by
  simp only [render, hk] at h
  cases ht : node.type <;> rw [ht] at hp <;>
    simp only [primText, Option.some.injEq, reduceCtorEq] at hp
  all_goals
    subst hp
    simp only [ht] at h
    cases hl : node.logical with
    | none => simp only [hl, Except.ok.injEq, Prod.mk.injEq] at h; exact ⟨h.2.symm, h.1.symm⟩
    | some lt => simp only [hl, Except.ok.injEq, Prod.mk.injEq] at h; exact ⟨h.2.symm, h.1.symm⟩

theorem render_array_inv {S : SchemaMut} {f key : Nat} {ns : Option String} {st st' : RenderState}
    {j : Json} {lg : Option LogicalType} {items : Nat}
    (hk : S[key]? = some ⟨.array items, lg⟩)
    (h : render S (f + 1) key ns st = .ok (j, st')) :
    st.get key < st.nWritten ∧ ∃ j1 st1,
      render S f items ns (st.set key st.nWritten) = .ok (j1, st1) ∧
      j = .obj (typeMembers "array" lg ++ [("items", j1)]) ∧ st' = st1.set key 0 := by
  simp only [render, hk] at h
  split at h
  · cases h
  · rename_i hg
    refine ⟨by omega, ?_⟩
    cases hr : render S f items ns (st.set key st.nWritten) with
    | error e => rw [hr] at h; cases h
    | ok p =>
      obtain ⟨j1, st1⟩ := p
      rw [hr] at h
      simp only [Except.ok.injEq, Prod.mk.injEq] at h
      exact ⟨j1, st1, rfl, h.1.symm, h.2.symm⟩

theorem render_map_inv {S : SchemaMut} {f key : Nat} {ns : Option String} {st st' : RenderState}
    {j : Json} {lg : Option LogicalType} {values : Nat}
    (hk : S[key]? = some ⟨.map values, lg⟩)
    (h : render S (f + 1) key ns st = .ok (j, st')) :
    st.get key < st.nWritten ∧ ∃ j1 st1,
      render S f values ns (st.set key st.nWritten) = .ok (j1, st1) ∧
      j = .obj (typeMembers "map" lg ++ [("values", j1)]) ∧ st' = st1.set key 0 := by
  simp only [render, hk] at h
  split at h
  · cases h
  · rename_i hg
    refine ⟨by omega, ?_⟩
    cases hr : render S f values ns (st.set key st.nWritten) with
    | error e => rw [hr] at h; cases h
    | ok p =>
      obtain ⟨j1, st1⟩ := p
      rw [hr] at h
      simp only [Except.ok.injEq, Prod.mk.injEq] at h
      exact ⟨j1, st1, rfl, h.1.symm, h.2.symm⟩

theorem render_union_inv {S : SchemaMut} {f key : Nat} {ns : Option String} {st st' : RenderState}
    {j : Json} {lg : Option LogicalType} {vs : List Nat}
    (hk : S[key]? = some ⟨.union vs, lg⟩)
    (h : render S (f + 1) key ns st = .ok (j, st')) :
    st.get key < st.nWritten ∧ ∃ js st1,
      renderList S f vs ns (st.set key st.nWritten) = .ok (js, st1) ∧
      j = .arr js ∧ st' = st1.set key 0 := by
  simp only [render, hk] at h
  split at h
  · cases h
  · split at h
    · cases h
    · rename_i hg
      refine ⟨by omega, ?_⟩
      cases hr : renderList S f vs ns (st.set key st.nWritten) with
      | error e => rw [hr] at h; cases h
      | ok p =>
        obtain ⟨js, st1⟩ := p
        rw [hr] at h
        simp only [Except.ok.injEq, Prod.mk.injEq] at h
        exact ⟨js, st1, rfl, h.1.symm, h.2.symm⟩

theorem render_named_again_inv {S : SchemaMut} {f key : Nat} {ns : Option String}
    {st st' : RenderState} {j : Json} {node : RawNode} {nm : Name}
    (hk : S[key]? = some node) (hn : nameOf node.type = some nm) (hw : 0 < st.get key)
    (h : render S (f + 1) key ns st = .ok (j, st')) :
    j = .str (refString ns nm) ∧ st' = st := by
  simp only [render, hk] at h
  cases ht : node.type <;> rw [ht] at hn <;>
    simp only [nameOf, Option.some.injEq, reduceCtorEq] at hn
  all_goals
    subst hn
    simp only [ht, gt_iff_lt, hw, if_true, Except.ok.injEq, Prod.mk.injEq] at h
    exact ⟨h.1.symm, h.2.symm⟩

/-- the state in which the body of a named type is written -/
def namedEnter (st : RenderState) (key : Nat) : RenderState :=
  { (st.set key st.nWritten) with nWritten := st.nWritten + 1 }

theorem render_enum_inv {S : SchemaMut} {f key : Nat} {ns : Option String} {st st' : RenderState}
    {j : Json} {lg : Option LogicalType} {nm : Name} {syms : List String}
    (hk : S[key]? = some ⟨.enum nm syms, lg⟩) (hw : ¬ 0 < st.get key)
    (h : render S (f + 1) key ns st = .ok (j, st')) :
    j = .obj (typeMembers "enum" lg ++ nameMembers ns nm ++ [("symbols", .arr (syms.map .str))]) ∧
      st' = namedEnter st key := by
  simp only [render, hk, gt_iff_lt, hw, if_false, Except.ok.injEq, Prod.mk.injEq] at h
  exact ⟨h.1.symm, h.2.symm⟩

theorem render_fixed_inv {S : SchemaMut} {f key : Nat} {ns : Option String} {st st' : RenderState}
    {j : Json} {lg : Option LogicalType} {nm : Name} {size : Nat}
    (hk : S[key]? = some ⟨.fixed nm size, lg⟩) (hw : ¬ 0 < st.get key)
    (h : render S (f + 1) key ns st = .ok (j, st')) :
    j = .obj (typeMembers "fixed" lg ++ nameMembers ns nm ++ [("size", .nat size)]) ∧
      st' = namedEnter st key := by
  simp only [render, hk, gt_iff_lt, hw, if_false, Except.ok.injEq, Prod.mk.injEq] at h
  exact ⟨h.1.symm, h.2.symm⟩

theorem render_record_inv {S : SchemaMut} {f key : Nat} {ns : Option String} {st st' : RenderState}
    {j : Json} {lg : Option LogicalType} {nm : Name} {fields : List (String × Nat)}
    (hk : S[key]? = some ⟨.record nm fields, lg⟩) (hw : ¬ 0 < st.get key)
    (h : render S (f + 1) key ns st = .ok (j, st')) :
    ∃ js, renderFields S f fields nm.ns (namedEnter st key) = .ok (js, st') ∧
      j = .obj (typeMembers "record" lg ++ nameMembers ns nm ++ [("fields", .arr js)]) := by
  simp only [render, hk, gt_iff_lt, hw, if_false] at h
  cases hr : renderFields S f fields nm.ns (namedEnter st key) with
  | error e => simp only [namedEnter] at hr; rw [hr] at h; cases h
  | ok p =>
    obtain ⟨js, st2⟩ := p
    simp only [namedEnter] at hr
    rw [hr] at h
    simp only [Except.ok.injEq, Prod.mk.injEq] at h
    obtain ⟨h1, h2⟩ := h
    subst h2
    exact ⟨js, rfl, h1.symm⟩

theorem renderList_nil_inv {S : SchemaMut} {f : Nat} {ns : Option String} {st st' : RenderState}
    {js : List Json} (h : renderList S f [] ns st = .ok (js, st')) : js = [] ∧ st' = st := by
  cases f <;> simp only [renderList, Except.ok.injEq, Prod.mk.injEq] at h <;>
    exact ⟨h.1.symm, h.2.symm⟩

theorem renderList_cons_inv {S : SchemaMut} {f k : Nat} {rest : List Nat} {ns : Option String}
    {st st' : RenderState} {js : List Json}
    (h : renderList S (f + 1) (k :: rest) ns st = .ok (js, st')) :
    ∃ j1 st1 js2, render S f k ns st = .ok (j1, st1) ∧
      renderList S f rest ns st1 = .ok (js2, st') ∧ js = j1 :: js2 := by
  simp only [renderList] at h
  cases h1 : render S f k ns st with
  | error e => rw [h1] at h; cases h
  | ok p =>
    obtain ⟨j1, st1⟩ := p
    rw [h1] at h
    simp only at h
    cases h2 : renderList S f rest ns st1 with
    | error e => rw [h2] at h; cases h
    | ok q =>
      obtain ⟨js2, st2⟩ := q
      rw [h2] at h
      simp only [Except.ok.injEq, Prod.mk.injEq] at h
      obtain ⟨e1, e2⟩ := h
      subst e2
      exact ⟨j1, st1, js2, rfl, h2, e1.symm⟩

theorem renderFields_nil_inv {S : SchemaMut} {f : Nat} {ns : Option String} {st st' : RenderState}
    {js : List Json} (h : renderFields S f [] ns st = .ok (js, st')) : js = [] ∧ st' = st := by
  cases f <;> simp only [renderFields, Except.ok.injEq, Prod.mk.injEq] at h <;>
    exact ⟨h.1.symm, h.2.symm⟩

theorem renderFields_cons_inv {S : SchemaMut} {f k : Nat} {name : String}
    {rest : List (String × Nat)} {ns : Option String} {st st' : RenderState} {js : List Json}
    (h : renderFields S (f + 1) ((name, k) :: rest) ns st = .ok (js, st')) :
    ∃ j1 st1 js2, render S f k ns st = .ok (j1, st1) ∧
      renderFields S f rest ns st1 = .ok (js2, st') ∧
      js = .obj [("name", .str name), ("type", j1)] :: js2 := by
  simp only [renderFields] at h
  cases h1 : render S f k ns st with
  | error e => rw [h1] at h; cases h
  | ok p =>
    obtain ⟨j1, st1⟩ := p
    rw [h1] at h
    simp only at h
    cases h2 : renderFields S f rest ns st1 with
    | error e => rw [h2] at h; cases h
    | ok q =>
      obtain ⟨js2, st2⟩ := q
      rw [h2] at h
      simp only [Except.ok.injEq, Prod.mk.injEq] at h
      obtain ⟨e1, e2⟩ := h
      subst e2
      exact ⟨j1, st1, js2, rfl, h2, e1.symm⟩

/-! ### the canonical-form writer, forwards -/

theorem pcf_prim {S : SchemaMut} {pf key : Nat} {ps : PcfState} {node : RawNode} {s : String}
    (hk : S[key]? = some node) (hp : primText node.type = some s) :
    pcf S (pf + 1) key ps = .ok { ps with out := ps.out ++ "\"" ++ s ++ "\"" } := by
  simp only [pcf, hk]
  cases ht : node.type <;> rw [ht] at hp <;>
    simp only [primText, Option.some.injEq, reduceCtorEq] at hp
  all_goals subst hp; rfl

theorem pcf_named_again {S : SchemaMut} {pf key : Nat} {ps : PcfState} {node : RawNode}
    {nm : Name} (hk : S[key]? = some node) (hn : nameOf node.type = some nm)
    (hw : ps.written.contains key = true) :
    pcf S (pf + 1) key ps = .ok { ps with out := ps.out ++ "\"" ++ nm.fq ++ "\"" } := by
  simp only [pcf, hk]
  cases ht : node.type <;> rw [ht] at hn <;>
    simp only [nameOf, Option.some.injEq, reduceCtorEq] at hn
  all_goals subst hn; simp only [hw, if_true]

theorem pcf_enum_first {S : SchemaMut} {pf key : Nat} {ps : PcfState} {lg}
    {nm : Name} {syms : List String} (hk : S[key]? = some ⟨.enum nm syms, lg⟩)
    (hw : ps.written.contains key = false) :
    pcf S (pf + 1) key ps = .ok { ps with
      written := key :: ps.written,
      out := ps.out ++ ("{\"name\":\"" ++ nm.fq ++ "\",\"type\":\"enum\",\"symbols\":[" ++
        joinWith "," (syms.map fun s => "\"" ++ s ++ "\"") ++ "]}") } := by
  simp only [pcf, hk, hw, Bool.false_eq_true, if_false]

theorem pcf_fixed_first {S : SchemaMut} {pf key : Nat} {ps : PcfState} {lg}
    {nm : Name} {size : Nat} (hk : S[key]? = some ⟨.fixed nm size, lg⟩)
    (hw : ps.written.contains key = false) :
    pcf S (pf + 1) key ps = .ok { ps with
      written := key :: ps.written,
      out := ps.out ++ ("{\"name\":\"" ++ nm.fq ++ "\",\"type\":\"fixed\",\"size\":" ++
        toString size ++ "}") } := by
  simp only [pcf, hk, hw, Bool.false_eq_true, if_false]

theorem pcf_record_first {S : SchemaMut} {pf key : Nat} {ps ps2 : PcfState} {lg}
    {nm : Name} {fields : List (String × Nat)} (hk : S[key]? = some ⟨.record nm fields, lg⟩)
    (hw : ps.written.contains key = false)
    (h2 : pcfFields S pf fields true { ps with
      written := key :: ps.written,
      out := ps.out ++ ("{\"name\":\"" ++ nm.fq ++ "\",\"type\":\"record\",\"fields\":[") } = .ok ps2) :
    pcf S (pf + 1) key ps = .ok { ps2 with out := ps2.out ++ "]}" } := by
  simp only [pcf, hk, hw, Bool.false_eq_true, if_false, h2]

/-- the state in which the body of an unnamed type is written -/
def unnamedEnter (ps : PcfState) (key : Nat) (o : String) : PcfState :=
  { ps with onPath := (key, ps.written.length + 1) :: ps.onPath.filter (·.1 ≠ key), out := o }

/-- … and the state after it -/
def unnamedExit (ps ps2 : PcfState) (key : Nat) (o : String) : PcfState :=
  { ps2 with out := o, onPath := (key, cell ps key) :: ps2.onPath.filter (·.1 ≠ key) }

theorem pcf_array {S : SchemaMut} {pf key : Nat} {ps ps2 : PcfState} {lg} {items : Nat}
    (hk : S[key]? = some ⟨.array items, lg⟩) (hg : cell ps key ≠ ps.written.length + 1)
    (h2 : pcf S pf items (unnamedEnter ps key (ps.out ++ "{\"type\":\"array\",\"items\":")) = .ok ps2) :
    pcf S (pf + 1) key ps = .ok (unnamedExit ps ps2 key (ps2.out ++ "}")) := by
  simp only [unnamedEnter] at h2
  simp only [cell] at hg
  simp only [pcf, hk, hg, if_false, h2, unnamedExit, cell]

theorem pcf_map {S : SchemaMut} {pf key : Nat} {ps ps2 : PcfState} {lg} {values : Nat}
    (hk : S[key]? = some ⟨.map values, lg⟩) (hg : cell ps key ≠ ps.written.length + 1)
    (h2 : pcf S pf values (unnamedEnter ps key (ps.out ++ "{\"type\":\"map\",\"values\":")) = .ok ps2) :
    pcf S (pf + 1) key ps = .ok (unnamedExit ps ps2 key (ps2.out ++ "}")) := by
  simp only [unnamedEnter] at h2
  simp only [cell] at hg
  simp only [pcf, hk, hg, if_false, h2, unnamedExit, cell]

theorem pcf_union {S : SchemaMut} {pf key : Nat} {ps ps2 : PcfState} {lg} {vs : List Nat}
    (hk : S[key]? = some ⟨.union vs, lg⟩) (hg : cell ps key ≠ ps.written.length + 1)
    (h2 : pcfList S pf vs true (unnamedEnter ps key (ps.out ++ "[")) = .ok ps2) :
    pcf S (pf + 1) key ps = .ok (unnamedExit ps ps2 key (ps2.out ++ "]")) := by
  simp only [unnamedEnter] at h2
  simp only [cell] at hg
  simp only [pcf, hk, hg, if_false, h2, unnamedExit, cell]

/-! ### the specification's transformation on an object of known type -/

theorem canon_str_prim (enc : Option String) (t : String) (h : isPrimitive t = true) :
    canon enc (.str t) = some (.str t) := by
  simp only [canon, h, if_true]

theorem canon_str_ref (enc : Option String) (s : String) (h : isPrimitive s = false) :
    canon enc (.str s) = some (.str (fullnameText (fullnameOfRef s enc))) := by
  simp only [canon, h, Bool.false_eq_true, if_false]

theorem canon_obj_prim (enc : Option String) (ms : List (String × Json)) (t : String)
    (h : strAttr "type" ms = some t) (hp : isPrimitive t = true) :
    canon enc (.obj ms) = some (.str t) := by
  simp only [canon, h, hp, if_true]

theorem canon_obj_array (enc : Option String) (ms : List (String × Json))
    (h : strAttr "type" ms = some "array") :
    canon enc (.obj ms) = (canonAttr enc "items" ms).map fun c =>
      .obj [("type", .str "array"), ("items", c)] := by
  have h1 : isPrimitive "array" = false := by decide
  simp only [canon, h, h1, Bool.false_eq_true, if_false, if_true]

theorem canon_obj_map (enc : Option String) (ms : List (String × Json))
    (h : strAttr "type" ms = some "map") :
    canon enc (.obj ms) = (canonAttr enc "values" ms).map fun c =>
      .obj [("type", .str "map"), ("values", c)] := by
  have h1 : isPrimitive "map" = false := by decide
  have h2 : ¬ "map" = "array" := by decide
  simp only [canon, h, h1, h2, Bool.false_eq_true, if_false, if_true]

theorem canon_obj_enum (enc : Option String) (ms : List (String × Json)) (name : String)
    (syms : List String)
    (h : strAttr "type" ms = some "enum") (hn : strAttr "name" ms = some name)
    (hs : symbolsAttr ms = some syms) :
    canon enc (.obj ms) =
      some (.obj [("name", .str (fullnameText (fullnameOfDef name (strAttr "namespace" ms) enc))),
        ("type", .str "enum"), ("symbols", .arr (syms.map Json.str))]) := by
  have h1 : isPrimitive "enum" = false := by decide
  have h2 : ¬ "enum" = "array" := by decide
  have h3 : ¬ "enum" = "map" := by decide
  simp only [canon, h, h1, h2, h3, hn, hs, Bool.false_eq_true, if_false, if_true]

theorem canon_obj_fixed (enc : Option String) (ms : List (String × Json)) (name : String)
    (size : Nat)
    (h : strAttr "type" ms = some "fixed") (hn : strAttr "name" ms = some name)
    (hs : natAttr "size" ms = some size) :
    canon enc (.obj ms) =
      some (.obj [("name", .str (fullnameText (fullnameOfDef name (strAttr "namespace" ms) enc))),
        ("type", .str "fixed"), ("size", .nat size)]) := by
  have h1 : isPrimitive "fixed" = false := by decide
  have h2 : ¬ "fixed" = "array" := by decide
  have h3 : ¬ "fixed" = "map" := by decide
  have h4 : ¬ "fixed" = "enum" := by decide
  simp only [canon, h, h1, h2, h3, h4, hn, hs, Bool.false_eq_true, if_false, if_true]

theorem canon_obj_record (enc : Option String) (ms : List (String × Json)) (name : String)
    (h : strAttr "type" ms = some "record") (hn : strAttr "name" ms = some name) :
    canon enc (.obj ms) =
      (fieldsAttr (fullnameOfDef name (strAttr "namespace" ms) enc).1 ms).map fun fs =>
        .obj [("name", .str (fullnameText (fullnameOfDef name (strAttr "namespace" ms) enc))),
          ("type", .str "record"), ("fields", .arr fs)] := by
  have h1 : isPrimitive "record" = false := by decide
  have h2 : ¬ "record" = "array" := by decide
  have h3 : ¬ "record" = "map" := by decide
  have h4 : ¬ "record" = "enum" := by decide
  have h5 : ¬ "record" = "fixed" := by decide
  simp only [canon, h, h1, h2, h3, h4, h5, hn, Bool.false_eq_true, if_false, if_true]

theorem canonList_cons (enc : Option String) (j : Json) (rest : List Json) (c : Json)
    (cs : List Json) (h1 : canon enc j = some c) (h2 : canonList enc rest = some cs) :
    canonList enc (j :: rest) = some (c :: cs) := by
  simp only [canonList, h1, h2]

theorem canonFields_cons (enc : Option String) (n : String) (j : Json) (rest : List Json)
    (c : Json) (cs : List Json) (h1 : canon enc j = some c) (h2 : canonFields enc rest = some cs) :
    canonFields enc (.obj [("name", .str n), ("type", j)] :: rest) =
      some (.obj [("name", .str n), ("type", c)] :: cs) := by
  have e : ¬ "name" = "type" := by decide
  simp only [canonFields, strAttr, attr, canonAttr, e, if_true, if_false, h1, h2]

theorem scan_str_prim (enc : Option String) (t : String) (D : List Fullname)
    (h : isPrimitive t = true) : scan enc (.str t) D = some D := by
  simp only [scan, h, if_true]

theorem scan_str_ref (enc : Option String) (s : String) (D : List Fullname)
    (h : isPrimitive s = false) (hd : fullnameOfRef s enc ∈ D) : scan enc (.str s) D = some D := by
  have : D.contains (fullnameOfRef s enc) = true := by simpa using hd
  simp only [scan, h, Bool.false_eq_true, if_false, this, if_true]

theorem isPrimitive_not_complex (t : String) (h : isPrimitive t = true) :
    t ≠ "array" ∧ t ≠ "map" ∧ t ≠ "enum" ∧ t ≠ "fixed" ∧ t ≠ "record" := by
  simp only [isPrimitive, primitiveNames, List.contains_eq_mem, List.mem_cons, List.not_mem_nil,
    or_false, decide_eq_true_eq] at h
  rcases h with rfl | rfl | rfl | rfl | rfl | rfl | rfl | rfl <;> decide

theorem scan_obj_prim (enc : Option String) (ms : List (String × Json)) (t : String)
    (D : List Fullname) (h : strAttr "type" ms = some t) (hp : isPrimitive t = true) :
    scan enc (.obj ms) D = some D := by
  obtain ⟨h1, h2, h3, h4, h5⟩ := isPrimitive_not_complex t hp
  simp only [scan, h, h1, h2, h3, h4, h5, if_false, or_self]

theorem scan_obj_array (enc : Option String) (ms : List (String × Json)) (D : List Fullname)
    (h : strAttr "type" ms = some "array") :
    scan enc (.obj ms) D = scanAttr enc "items" ms D := by
  simp only [scan, h, if_true]

theorem scan_obj_map (enc : Option String) (ms : List (String × Json)) (D : List Fullname)
    (h : strAttr "type" ms = some "map") :
    scan enc (.obj ms) D = scanAttr enc "values" ms D := by
  have h2 : ¬ "map" = "array" := by decide
  simp only [scan, h, h2, if_false, if_true]

theorem scan_obj_enum (enc : Option String) (ms : List (String × Json)) (D : List Fullname)
    (name : String) (h : strAttr "type" ms = some "enum") (hn : strAttr "name" ms = some name) :
    scan enc (.obj ms) D = some (fullnameOfDef name (strAttr "namespace" ms) enc :: D) := by
  have h2 : ¬ "enum" = "array" := by decide
  have h3 : ¬ "enum" = "map" := by decide
  simp only [scan, h, h2, h3, hn, if_false, true_or, if_true]

theorem scan_obj_fixed (enc : Option String) (ms : List (String × Json)) (D : List Fullname)
    (name : String) (h : strAttr "type" ms = some "fixed") (hn : strAttr "name" ms = some name) :
    scan enc (.obj ms) D = some (fullnameOfDef name (strAttr "namespace" ms) enc :: D) := by
  have h2 : ¬ "fixed" = "array" := by decide
  have h3 : ¬ "fixed" = "map" := by decide
  simp only [scan, h, h2, h3, hn, if_false, or_true, if_true]

theorem scan_obj_record (enc : Option String) (ms : List (String × Json)) (D : List Fullname)
    (name : String) (h : strAttr "type" ms = some "record") (hn : strAttr "name" ms = some name) :
    scan enc (.obj ms) D =
      scanFieldsAttr (fullnameOfDef name (strAttr "namespace" ms) enc).1 ms
        (fullnameOfDef name (strAttr "namespace" ms) enc :: D) := by
  have h2 : ¬ "record" = "array" := by decide
  have h3 : ¬ "record" = "map" := by decide
  have h4 : ¬ "record" = "enum" := by decide
  have h5 : ¬ "record" = "fixed" := by decide
  simp only [scan, h, h2, h3, h4, h5, hn, if_false, or_self, if_true]

theorem scanFields_cons (enc : Option String) (n : String) (j : Json) (rest : List Json)
    (D : List Fullname) :
    scanFields enc (.obj [("name", .str n), ("type", j)] :: rest) D =
      match scan enc j D with
      | some D' => scanFields enc rest D'
      | none => none := by
  have e : ¬ "name" = "type" := by decide
  simp only [scanFields, scanAttr, e, if_true, if_false]
  cases scan enc j D <;> rfl

end Avro.RenderPcf
