import AvroModel.Impl.Derive
import AvroModel.Lemmas.Derive
/-
Names of the named Avro types a derived schema defines (`Impl/Derive.lean`): every record / enum /
fixed node the builder creates has an *origin* (the lookup key it is registered under and its role:
the type itself, an owned sub-node, …); the builder creates each origin at most once; the name is
a function of the origin.  Used by `Theorems/C20names.lean`.

Injectivity of the name assignment is only needed (and only assumed, `NameInjOn`) for origins whose
owner is a lookup key the build REGISTERS: every comparison the proof makes is between two origins
whose owners are in `already_built_types` of a builder state reached during the run, and `built`
only grows (`Lemmas/Derive.lean`, `postAll`), so both are registered in the final state
(`builtKeys`).  The hash of a key enters a name only for keys of generic records
(`genericRecordKeys`), so the conditions on `hash` (`TextWfOn`) are about those finitely many keys.
-/
namespace Avro.Theorems
open Avro Avro.Impl Avro.Impl.Derive

/-- The fullname a node defines (`record`, `enum`, `fixed`), if it defines one. -/
def tyName : RegularType → Option String
  | .record nm _ => some nm.fq
  | .enum nm _ => some nm.fq
  | .fixed nm _ => some nm.fq
  | _ => none

def nodeName (n : RawNode) : Option String := tyName n.type

/-- The fullnames defined by a node vector, in node order (one entry per defining node). -/
def definedNames (S : SchemaMut) : List String := S.toList.filterMap nodeName

namespace DeriveNames

/-! ### `lookupKey`: unfolding, fuel monotonicity, determinism -/

theorem lk_zero (P : Prog) (t : Ty) : lookupKey P 0 t = none := by simp [lookupKey]
theorem lk_vec (P : Prog) (n : Nat) (t : Ty) :
    lookupKey P (n+1) (.vec t) = (lookupKey P n t).map (.vec :: ·) := by simp [lookupKey]
theorem lk_option (P : Prog) (n : Nat) (t : Ty) :
    lookupKey P (n+1) (.option t) = (lookupKey P n t).map (.option :: ·) := by simp [lookupKey]
theorem lk_hashMap (P : Prog) (n : Nat) (t : Ty) :
    lookupKey P (n+1) (.hashMap t) = (lookupKey P n t).map (.map :: ·) := by simp [lookupKey]
theorem lk_btreeMap (P : Prog) (n : Nat) (t : Ty) :
    lookupKey P (n+1) (.btreeMap t) = (lookupKey P n t).map (.map :: ·) := by simp [lookupKey]
theorem lk_ptr (P : Prog) (n : Nat) (t : Ty) : lookupKey P (n+1) (.ptr t) = lookupKey P n t := by
  simp [lookupKey]
theorem lk_named (P : Prog) (n : Nat) (id : Nat) (args : List Ty) :
    lookupKey P (n+1) (.named id args) =
      match P[id]? with
      | none => none
      | some d =>
        match d.body with
        | .unitEnum _ => some [.self id]
        | .newtype f =>
          if isDirect f .newtypeStruct then lookupKey P n (subst args (chosenTy f))
          else if d.nparams = 0 then some [.self id]
          else (lookupKeys P n [subst args (chosenTy f)]).map (.generic id 1 :: ·)
        | body =>
          if d.nparams = 0 then some [.self id]
          else
            let fs := body.lookupFields
            (lookupKeys P n (fs.map fun f => subst args (chosenTy f))).map (.generic id fs.length :: ·) := by
  simp only [lookupKey]; rfl
theorem lks_cons (P : Prog) (n : Nat) (t : Ty) (ts : List Ty) :
    lookupKeys P (n+1) (t :: ts) =
      match lookupKey P n t, lookupKeys P n ts with
      | some a, some b => some (a ++ b)
      | _, _ => none := by simp only [lookupKeys]; rfl
theorem lks_nil (P : Prog) (n : Nat) : lookupKeys P n [] = some [] := by
  cases n <;> simp [lookupKeys]

theorem lk_mono (P : Prog) : ∀ n,
    (∀ t k, lookupKey P n t = some k → lookupKey P (n+1) t = some k) ∧
    (∀ ts k, lookupKeys P n ts = some k → lookupKeys P (n+1) ts = some k) := by
  intro n
  induction n with
  | zero =>
    refine ⟨fun t k h => by simp [lookupKey] at h, fun ts k h => ?_⟩
    cases ts with
    | nil => simpa [lookupKeys] using h
    | cons t ts => simp [lookupKeys] at h
  | succ n ih =>
    obtain ⟨ih1, ih2⟩ := ih
    constructor
    · intro t k h
      cases t with
      | vec t =>
        rw [lk_vec, Option.map_eq_some_iff] at h ⊢
        obtain ⟨a, ha, rfl⟩ := h
        exact ⟨a, ih1 _ _ ha, rfl⟩
      | option t =>
        rw [lk_option, Option.map_eq_some_iff] at h ⊢
        obtain ⟨a, ha, rfl⟩ := h
        exact ⟨a, ih1 _ _ ha, rfl⟩
      | hashMap t =>
        rw [lk_hashMap, Option.map_eq_some_iff] at h ⊢
        obtain ⟨a, ha, rfl⟩ := h
        exact ⟨a, ih1 _ _ ha, rfl⟩
      | btreeMap t =>
        rw [lk_btreeMap, Option.map_eq_some_iff] at h ⊢
        obtain ⟨a, ha, rfl⟩ := h
        exact ⟨a, ih1 _ _ ha, rfl⟩
      | ptr t =>
        rw [lk_ptr] at h ⊢
        exact ih1 _ _ h
      | param i => simp [lookupKey] at h
      | named id args =>
        rw [lk_named] at h ⊢
        cases hP : P[id]? with
        | none => simp [hP] at h
        | some d =>
          simp only [hP] at h ⊢
          cases hb : d.body with
          | unitEnum vs => simpa [hb] using h
          | newtype f =>
            simp only [hb] at h ⊢
            by_cases hd : isDirect f .newtypeStruct = true
            · rw [if_pos hd] at h ⊢
              exact ih1 _ _ h
            · rw [if_neg hd] at h ⊢
              by_cases hn : d.nparams = 0
              · simpa [hn] using h
              · rw [if_neg hn, Option.map_eq_some_iff] at h ⊢
                obtain ⟨a, ha, rfl⟩ := h
                exact ⟨a, ih2 _ _ ha, rfl⟩
          | record fs =>
            simp only [hb] at h ⊢
            by_cases hn : d.nparams = 0
            · simpa [hn] using h
            · rw [if_neg hn] at h ⊢
              simp only [Option.map_eq_some_iff] at h ⊢
              obtain ⟨a, ha, rfl⟩ := h
              exact ⟨a, ih2 _ _ ha, rfl⟩
          | union fs =>
            simp only [hb] at h ⊢
            by_cases hn : d.nparams = 0
            · simpa [hn] using h
            · rw [if_neg hn] at h ⊢
              simp only [Option.map_eq_some_iff] at h ⊢
              obtain ⟨a, ha, rfl⟩ := h
              exact ⟨a, ih2 _ _ ha, rfl⟩
      | _ => simpa [lookupKey] using h
    · intro ts k h
      cases ts with
      | nil => simp [lks_nil] at h ⊢; exact h
      | cons t ts =>
        rw [lks_cons] at h ⊢
        cases h1 : lookupKey P n t with
        | none => simp [h1] at h
        | some a =>
          cases h2 : lookupKeys P n ts with
          | none => simp [h1, h2] at h
          | some b =>
            simp only [h1, h2] at h
            simp [ih1 _ _ h1, ih2 _ _ h2, h]

theorem lk_le (P : Prog) {n m : Nat} {t : Ty} {k : Key} (h : lookupKey P n t = some k) (hle : n ≤ m) :
    lookupKey P m t = some k := by
  induction hle with
  | refl => exact h
  | step _ ih => exact (lk_mono P _).1 _ _ ih

/-- The lookup key of a type does not depend on the fuel (once there is enough). -/
theorem lk_det (P : Prog) {n m : Nat} {t : Ty} {k k' : Key}
    (h : lookupKey P n t = some k) (h' : lookupKey P m t = some k') : k = k' := by
  have h1 := lk_le P h (Nat.le_max_left n m)
  have h2 := lk_le P h' (Nat.le_max_right n m)
  rw [h1] at h2
  exact Option.some.inj h2

/-! ### Origins of names -/

/-- Where a named node of a derived schema comes from. -/
inductive Origin
  | arr (n : Nat)                  -- `[u8; n]` on its own: `u8_array_n`
  | top (k : Key)                  -- the record / enum registered under lookup key `k`
  | newty (id : Nat)               -- the node of a newtype struct that does not forward
  | sub (k : Key) (f : String)     -- node owned by field `f` of the record registered under `k`
  | var (id : Nat) (v : String)    -- node owned by variant `v` of union enum `id`
  deriving DecidableEq

/-- The lookup key whose construction creates the origin. -/
def Origin.owner : Origin → Key
  | .arr n => [.byteArray n]
  | .top k => k
  | .newty id => [.self id]
  | .sub k _ => k
  | .var id _ => [.self id]

def Origin.isSub : Origin → Bool
  | .sub _ _ => true
  | .var _ _ => true
  | _ => false

/-- `Name::from_fully_qualified_name(s).fully_qualified_name()`. -/
def fqOf (s : String) : String := (Name.ofFq s).fq

/-- Shape of the lookup key of declaration `id`. -/
def KeyOf (d : Decl) (id : Nat) (k : Key) : Prop :=
  (d.nparams = 0 ∧ k = [.self id]) ∨ (d.nparams ≠ 0 ∧ ∃ n r, k = .generic id n :: r)

/-- The runtime `type_name` of a record registered under `k`. -/
def recName (d : Decl) (hash : Key → String) (k : Key) : String :=
  if d.nparams = 0 then typeName d else typeName d ++ "_" ++ hash k

/-- A variant field that never gets an owned node: no logical type, and its type as written
    (pointers stripped) is not a byte array. -/
def safeField (f : Field) : Bool :=
  f.attr.logical.isNone &&
    (match peel f.ty with | .byteArray _ => false | _ => true)

/-- `Named P hash o nm`: origin `o` exists in program `P` and is given the fullname `nm`. -/
inductive Named (P : Prog) (hash : Key → String) : Origin → String → Prop
  | arr (n : Nat) : Named P hash (.arr n) (fqOf ("u8_array_" ++ toString n))
  | enum {id d vs} : P[id]? = some d → d.body = .unitEnum vs →
      Named P hash (.top [.self id]) (fqOf (typeName d))
  | record {id d fs k} : P[id]? = some d → d.body = .record fs → KeyOf d id k →
      Named P hash (.top k) (fqOf (recName d hash k))
  | newty {id d f} : P[id]? = some d → d.body = .newtype f → isDirect f .newtypeStruct = false →
      Named P hash (.newty id) (fqOf (ownedName d .newtypeStruct ""))
  | sub {id d fs k f} : P[id]? = some d → d.body = .record fs → KeyOf d id k → f ∈ fs →
      f.attr.logical.isSome = true →
      Named P hash (.sub k f.name) (fqOf (recName d hash k ++ "." ++ f.name))
  | var {id d vs v f} : P[id]? = some d → d.body = .union vs → d.nparams = 0 → v ∈ vs →
      v.field = some f → safeField f = false →
      Named P hash (.var id v.ident) (fqOf (ownedName d (.newtypeVariant v.ident) ""))

/-- The name assignment is injective (on ALL conceivable origins: for a program with a generic
    record this needs `hash` injective on all keys — see `NameInjOn`). -/
def NameInj (P : Prog) (hash : Key → String) : Prop :=
  ∀ o o' nm, Named P hash o nm → Named P hash o' nm → o = o'

/-- The name assignment is injective on the origins whose owner (a lookup key) satisfies `K`. -/
def NameInjOn (P : Prog) (hash : Key → String) (K : Key → Prop) : Prop :=
  ∀ o o' nm, Named P hash o nm → Named P hash o' nm → K o.owner → K o'.owner → o = o'

theorem NameInj.on {P : Prog} {hash : Key → String} (h : NameInj P hash) (K : Key → Prop) :
    NameInjOn P hash K :=
  fun o o' nm a b _ _ => h o o' nm a b

/-- A type on which a logical-type attribute may sit: the duplicate built for it has no owned
    sub-nodes (its own top node is the one that gets renamed). -/
def dupSafe (P : Prog) : Ty → Bool
  | .named id _ =>
    match P[id]? with
    | none => true
    | some d =>
      match d.body with
      | .newtype f => !isDirect f .newtypeStruct
      | .record fs => fs.all (·.attr.logical.isNone)
      | .union vs => vs.all fun v => match v.field with | none => true | some f => safeField f
      | .unitEnum _ => true
  | .param _ => false
  | .ptr _ => false
  | _ => true

/-- The field of a newtype struct (as a list), the fields of a record, the variants of a union. -/
def newtypeFields : Body → List Field
  | .newtype f => [f]
  | _ => []
def recFields : Body → List Field
  | .record fs => fs
  | _ => []
def unionVars : Body → List Variant
  | .union vs => vs
  | _ => []

/-- The structural part of `NamesWf` (every field is a decidable statement about the program). -/
structure StructWf (P : Prog) : Prop where
  /-- a newtype struct that does not forward (logical type or `[u8; N]` field) is not generic -/
  newtype_nongeneric : ∀ (id : Nat) (d : Decl), P[id]? = some d → ∀ f ∈ newtypeFields d.body,
    isDirect f .newtypeStruct = false → d.nparams = 0
  /-- a generic union enum has no variant that can own a node -/
  generic_union_safe : ∀ (id : Nat) (d : Decl), P[id]? = some d → d.nparams ≠ 0 →
    ∀ v ∈ unionVars d.body, ∀ f ∈ v.field, safeField f = true
  /-- a logical-type attribute sits on a field whose type can be duplicated without duplicating
      owned sub-nodes -/
  logical_dupSafe : ∀ (id : Nat) (d : Decl), P[id]? = some d → ∀ f ∈ d.body.lookupFields,
    f.attr.logical.isSome = true → dupSafe P (chosenTy f) = true
  /-- field names within a record are distinct -/
  field_names_nodup : ∀ (id : Nat) (d : Decl), P[id]? = some d →
    ((recFields d.body).map (·.name)).Nodup
  /-- variant identifiers within an enum are distinct -/
  variant_idents_nodup : ∀ (id : Nat) (d : Decl), P[id]? = some d →
    ((unionVars d.body).map (·.ident)).Nodup

theorem StructWf.newtype_mono {P : Prog} (h : StructWf P) (id : Nat) (d : Decl) (f : Field)
    (hP : P[id]? = some d) (hb : d.body = .newtype f) (hd : isDirect f .newtypeStruct = false) :
    d.nparams = 0 :=
  h.newtype_nongeneric id d hP f (by rw [hb]; exact List.mem_singleton.2 rfl) hd

theorem StructWf.union_generic_safe {P : Prog} (h : StructWf P) (id : Nat) (d : Decl)
    (vs : List Variant) (hP : P[id]? = some d) (hb : d.body = .union vs) (hn : d.nparams ≠ 0)
    (v : Variant) (hv : v ∈ vs) (f : Field) (hf : v.field = some f) : safeField f = true :=
  h.generic_union_safe id d hP hn v (by rw [hb]; exact hv) f (by rw [hf]; rfl)

theorem StructWf.fields_nodup {P : Prog} (h : StructWf P) (id : Nat) (d : Decl) (fs : List Field)
    (hP : P[id]? = some d) (hb : d.body = .record fs) : (fs.map (·.name)).Nodup := by
  have := h.field_names_nodup id d hP
  rwa [hb] at this

theorem StructWf.variants_nodup {P : Prog} (h : StructWf P) (id : Nat) (d : Decl)
    (vs : List Variant) (hP : P[id]? = some d) (hb : d.body = .union vs) : (vs.map (·.ident)).Nodup := by
  have := h.variant_idents_nodup id d hP
  rwa [hb] at this

/-! ### Builder states -/

def dn (l : List RawNode) : List String := l.filterMap nodeName

theorem dn_append (a b : List RawNode) : dn (a ++ b) = dn a ++ dn b := by
  simp [dn, List.filterMap_append]

theorem dn_cons (x : RawNode) (b : List RawNode) :
    dn (x :: b) = (match nodeName x with | some nm => [nm] | none => []) ++ dn b := by
  simp only [dn, List.filterMap_cons]
  cases nodeName x <;> simp

def Reg (s : BState) (k : Key) : Prop := (s.built.lookup k).isSome = true

theorem reg_cons (s : BState) (key : Key) (idx : Nat) (k : Key) :
    Reg { s with built := (key, idx) :: s.built } k ↔ k = key ∨ Reg s k := by
  simp only [Reg, List.lookup_cons]
  by_cases h : k = key
  · simp [h]
  · have : (k == key) = false := by simpa using h
    simp [this, h]

structure Inv (P : Prog) (hash : Key → String) (s : BState) : Prop where
  nodup : (dn s.nodes.toList).Nodup
  owned : ∀ nm ∈ dn s.nodes.toList, ∃ o, Named P hash o nm ∧ Reg s o.owner

def NewOwned (P : Prog) (hash : Key → String) (s s' : BState) (nm : String) : Prop :=
  ∃ o, Named P hash o nm ∧ Reg s' o.owner ∧ ¬ Reg s o.owner

def Allowed (P : Prog) (hash : Key → String) (s : BState) (nm : String) : Prop :=
  nm ∉ dn s.nodes.toList ∧ ∃ o, Named P hash o nm ∧ Reg s o.owner

structure Ext (P : Prog) (hash : Key → String) (A : String → Prop) (s s' : BState)
    (ext : List RawNode) : Prop where
  mono : ∀ k, Reg s k → Reg s' k
  nodup : (dn s.nodes.toList ++ dn ext).Nodup
  src : ∀ nm ∈ dn ext, NewOwned P hash s s' nm ∨ A nm

variable {P : Prog} {hash : Key → String} {K : Key → Prop}

/-- Registrations survive every builder call (`Lemmas/Derive.lean`). -/
theorem reg_of_ext {s s' : BState} (h : Avro.Impl.Derive.Ext s s') {k : Key} (hr : Reg s k) :
    Reg s' k := by
  unfold Reg at hr ⊢
  cases hl : s.built.lookup k with
  | none => simp [hl] at hr
  | some i => simp [h.built k i hl]

theorem reg_mono_as {fuel : Nat} {t : Ty} {s s' : BState} {u : Unit}
    (h : appendSchema P hash fuel t s = some (u, s')) : ∀ k, Reg s k → Reg s' k :=
  fun _ => reg_of_ext ((postAll P hash fuel).1 t s u s' h).ext

theorem reg_mono_fob {fuel : Nat} {t : Ty} {s s' : BState} {i : Nat}
    (h : findOrBuild P hash fuel t s = some (i, s')) : ∀ k, Reg s k → Reg s' k :=
  fun _ => reg_of_ext ((postAll P hash fuel).2.1 t s i s' h).ext

theorem reg_mono_rf {fuel : Nat} {d : Decl} {args : List Ty} {tn : String} {fs : List Field}
    {s s' : BState} {r : List (String × Nat)}
    (h : recordFields P hash fuel d args tn fs s = some (r, s')) : ∀ k, Reg s k → Reg s' k :=
  fun _ => reg_of_ext ((postAll P hash fuel).2.2.2.1 d args tn fs s r s' h).ext

theorem reg_mono_uv {fuel : Nat} {d : Decl} {args : List Ty} {vs : List Variant}
    {s s' : BState} {r : List Nat}
    (h : unionVariants P hash fuel d args vs s = some (r, s')) : ∀ k, Reg s k → Reg s' k :=
  fun _ => reg_of_ext ((postAll P hash fuel).2.2.2.2 d args vs s r s' h).ext

/-- `setNode` does not touch `already_built_types`. -/
theorem hK_of_setNode {i : Nat} {node : RawNode} {s2 s' : BState}
    (h : setNode i node s2 = some ((), s')) (hK : ∀ k, Reg s' k → K k) : ∀ k, Reg s2 k → K k := by
  obtain ⟨_, rfl⟩ := setNode_some h
  exact hK

theorem Inv.congr {s s0 : BState} (h : Inv P hash s) (hn : dn s0.nodes.toList = dn s.nodes.toList)
    (hb : s0.built = s.built) : Inv P hash s0 := by
  refine ⟨hn ▸ h.nodup, ?_⟩
  intro nm hm
  rw [hn] at hm
  obtain ⟨o, ho, hr⟩ := h.owned nm hm
  exact ⟨o, ho, by simpa [Reg, hb] using hr⟩

theorem Allowed.congr {s s0 : BState} {nm : String} (h : Allowed P hash s nm)
    (hn : dn s0.nodes.toList = dn s.nodes.toList) (hb : s0.built = s.built) : Allowed P hash s0 nm := by
  obtain ⟨h1, o, ho, hr⟩ := h
  exact ⟨hn ▸ h1, o, ho, by simpa [Reg, hb] using hr⟩

theorem Ext.congr {A : String → Prop} {s s' s0 s0' : BState} {ext : List RawNode}
    (h : Ext P hash A s0 s0' ext) (hn : dn s0.nodes.toList = dn s.nodes.toList)
    (hb : s0.built = s.built) (hb' : s0'.built = s'.built) : Ext P hash A s s' ext := by
  refine ⟨?_, hn ▸ h.nodup, ?_⟩
  · intro k hk
    have := h.mono k (by simpa [Reg, hb] using hk)
    simpa [Reg, hb'] using this
  · intro nm hm
    rcases h.src nm hm with ⟨o, ho, h1, h2⟩ | hA
    · exact .inl ⟨o, ho, by simpa [Reg, hb'] using h1, by simpa [Reg, hb] using h2⟩
    · exact .inr hA

theorem Ext.refl {A : String → Prop} {s : BState} (h : Inv P hash s) : Ext P hash A s s [] :=
  ⟨fun _ hk => hk, by simpa [dn] using h.nodup, by simp [dn]⟩

theorem Ext.weaken {A B : String → Prop} {s s' : BState} {ext : List RawNode}
    (h : Ext P hash A s s' ext) (hAB : ∀ nm, A nm → B nm) : Ext P hash B s s' ext :=
  ⟨h.mono, h.nodup, fun nm hm => (h.src nm hm).imp id (hAB nm)⟩

theorem Ext.trans {A : String → Prop} {s s1 s2 : BState} {e1 e2 : List RawNode}
    (hn : s1.nodes.toList = s.nodes.toList ++ e1)
    (h1 : Ext P hash A s s1 e1) (h2 : Ext P hash A s1 s2 e2) : Ext P hash A s s2 (e1 ++ e2) := by
  refine ⟨fun k hk => h2.mono k (h1.mono k hk), ?_, ?_⟩
  · have := h2.nodup
    rw [hn, dn_append, List.append_assoc] at this
    rw [dn_append]; exact this
  · intro nm hm
    rw [dn_append, List.mem_append] at hm
    rcases hm with hm | hm
    · rcases h1.src nm hm with ⟨o, ho, h3, h4⟩ | hA
      · exact .inl ⟨o, ho, h2.mono _ h3, h4⟩
      · exact .inr hA
    · rcases h2.src nm hm with ⟨o, ho, h3, h4⟩ | hA
      · exact .inl ⟨o, ho, h3, fun h => h4 (h1.mono _ h)⟩
      · exact .inr hA

theorem Ext.inv {A : String → Prop} {s s' : BState} {ext : List RawNode} (hi : Inv P hash s)
    (hn : s'.nodes.toList = s.nodes.toList ++ ext) (h : Ext P hash A s s' ext)
    (hA : ∀ nm, A nm → ∃ o, Named P hash o nm ∧ Reg s o.owner) : Inv P hash s' := by
  refine ⟨by rw [hn, dn_append]; exact h.nodup, ?_⟩
  intro nm hm
  rw [hn, dn_append, List.mem_append] at hm
  rcases hm with hm | hm
  · obtain ⟨o, ho, hr⟩ := hi.owned nm hm
    exact ⟨o, ho, h.mono _ hr⟩
  · rcases h.src nm hm with ⟨o, ho, h3, _⟩ | hA'
    · exact ⟨o, ho, h3⟩
    · obtain ⟨o, ho, hr⟩ := hA nm hA'
      exact ⟨o, ho, h.mono _ hr⟩

theorem Allowed.not_new (hI : NameInjOn P hash K) {s s' : BState} {nm : String}
    (hK : ∀ k, Reg s' k → K k) (hm : ∀ k, Reg s k → Reg s' k)
    (h : Allowed P hash s nm) (hnew : NewOwned P hash s s' nm) : False := by
  obtain ⟨_, o, ho, hr⟩ := h
  obtain ⟨o', ho', hr1, hr'⟩ := hnew
  have := hI o o' nm ho ho' (hK _ (hm _ hr)) (hK _ hr1)
  subst this
  exact hr' hr

theorem Allowed.step (hI : NameInjOn P hash K) {A : String → Prop} {s s' : BState} {ext : List RawNode}
    {nm : String} (hK : ∀ k, Reg s' k → K k)
    (h : Allowed P hash s nm) (hn : s'.nodes.toList = s.nodes.toList ++ ext)
    (he : Ext P hash A s s' ext) (hA : ¬ A nm) : Allowed P hash s' nm := by
  refine ⟨?_, ?_⟩
  · rw [hn, dn_append, List.mem_append]
    rintro (hm | hm)
    · exact h.1 hm
    · rcases he.src nm hm with hnew | hA'
      · exact h.not_new hI hK he.mono hnew
      · exact hA hA'
  · obtain ⟨_, o, ho, hr⟩ := h
    exact ⟨o, ho, he.mono _ hr⟩

theorem Ext.cons_top (hI : NameInjOn P hash K) {A : String → Prop} {s s' : BState} {rest : List RawNode}
    {top : RawNode} {nm0 : String} (hK : ∀ k, Reg s' k → K k) (h : Ext P hash A s s' rest) (ha : Allowed P hash s nm0)
    (ht : ∀ nm, nodeName top = some nm → nm = nm0) (hA : ¬ A nm0) :
    Ext P hash (fun nm => A nm ∨ nm = nm0) s s' (top :: rest) := by
  have hnot : nm0 ∉ dn rest := by
    intro hm
    rcases h.src nm0 hm with hnew | hA'
    · exact ha.not_new hI hK h.mono hnew
    · exact hA hA'
  refine ⟨h.mono, ?_, ?_⟩
  · rw [dn_cons]
    cases hx : nodeName top with
    | none => simpa using h.nodup
    | some nm =>
      have := ht nm hx
      subst this
      have hnd := h.nodup
      simp only [List.nodup_append, List.nodup_cons, List.mem_cons, List.cons_append,
        List.nil_append] at hnd ⊢
      refine ⟨hnd.1, ⟨hnot, hnd.2.1⟩, ?_⟩
      intro a ha' b hb
      rcases hb with rfl | hb
      · intro hab; subst hab; exact ha.1 ha'
      · exact hnd.2.2 a ha' b hb
  · intro nm hm
    rw [dn_cons, List.mem_append] at hm
    rcases hm with hm | hm
    · cases hx : nodeName top with
      | none => simp [hx] at hm
      | some nm' =>
        simp only [hx, List.mem_singleton] at hm
        subst hm
        exact .inr (.inr (ht _ hx))
    · exact (h.src nm hm).imp id .inl


/-! ### Unfolding the builder -/

def nullNode : RawNode := { type := .null, logical := none }
def resv (s : BState) : BState := { s with nodes := s.nodes.push nullNode }

theorem reserve_eq (s : BState) : reserve s = some (s.nodes.size, resv s) := rfl

variable (P : Prog) (hash : Key → String)

theorem as_zero (t : Ty) : appendSchema P hash 0 t = fun _ => none := by simp [appendSchema]
theorem as_ptr (n : Nat) (t : Ty) : appendSchema P hash (n+1) (.ptr t) = appendSchema P hash n t := by
  simp [appendSchema]
theorem as_vec (n : Nat) (t : Ty) : appendSchema P hash (n+1) (.vec t) = fun s =>
    match findOrBuild P hash n t (resv s) with
    | none => none
    | some (k, s2) => setNode s.nodes.size (plain (.array k)) s2 := by
  simp only [appendSchema]; rfl
theorem as_hashMap (n : Nat) (t : Ty) : appendSchema P hash (n+1) (.hashMap t) = fun s =>
    match findOrBuild P hash n t (resv s) with
    | none => none
    | some (k, s2) => setNode s.nodes.size (plain (.map k)) s2 := by
  simp only [appendSchema]; rfl
theorem as_btreeMap (n : Nat) (t : Ty) : appendSchema P hash (n+1) (.btreeMap t) = fun s =>
    match findOrBuild P hash n t (resv s) with
    | none => none
    | some (k, s2) => setNode s.nodes.size (plain (.map k)) s2 := by
  simp only [appendSchema]; rfl
theorem as_option (n : Nat) (t : Ty) : appendSchema P hash (n+1) (.option t) = fun s =>
    match findOrBuild P hash n .unit (resv s) with
    | none => none
    | some (a, s1) =>
      match findOrBuild P hash n t s1 with
      | none => none
      | some (b, s2) => setNode s.nodes.size (plain (.union [a, b])) s2 := by
  simp only [appendSchema]; rfl
theorem as_named (n : Nat) (id : Nat) (args : List Ty) :
    appendSchema P hash (n+1) (.named id args) =
      match P[id]? with
      | none => fun _ => none
      | some d =>
        match d.body with
        | .unitEnum variants => fun s =>
          (push (plain (.enum (Name.ofFq (typeName d)) variants)) s).map fun (_, s) => ((), s)
        | .newtype f =>
          if isDirect f .newtypeStruct then appendSchema P hash n (subst args (chosenTy f))
          else fun s =>
            match fieldInst P hash n d args f .newtypeStruct "" s with
            | none => none
            | some (k, s') => if k = s.nodes.size then some ((), s') else none
        | .record fields => fun s =>
          match (if d.nparams = 0 then some (typeName d)
              else (lookupKey P n (.named id args)).map fun k => typeName d ++ "_" ++ hash k) with
          | none => none
          | some tn =>
            match recordFields P hash n d args tn fields (resv s) with
            | none => none
            | some (fs, s2) => setNode s.nodes.size (plain (.record (Name.ofFq tn) fs)) s2
        | .union variants => fun s =>
          match unionVariants P hash n d args variants (resv s) with
          | none => none
          | some (ks, s2) => setNode s.nodes.size (plain (.union ks)) s2 := by
  simp only [appendSchema]; rfl

theorem fob_zero (t : Ty) : findOrBuild P hash 0 t = fun _ => none := by simp [findOrBuild]
theorem fob_succ (n : Nat) (t : Ty) : findOrBuild P hash (n+1) t = fun s =>
    match lookupKey P (n + 1) t with
    | none => none
    | some key =>
      match s.built.lookup key with
      | some idx => some (idx, s)
      | none =>
        match appendSchema P hash n t { s with built := (key, s.nodes.size) :: s.built } with
        | none => none
        | some (_, s') => if s'.nodes.size > s.nodes.size then some (s.nodes.size, s') else none := by
  simp only [findOrBuild]; rfl

theorem fi_zero (d args f kind rtn) : fieldInst P hash 0 d args f kind rtn = fun _ => none := by
  simp [fieldInst]
theorem fi_succ (n : Nat) (d : Decl) (args : List Ty) (f : Field) (kind : FieldKind) (rtn : String) :
    fieldInst P hash (n+1) d args f kind rtn =
      match logicalOf f with
      | none =>
        match kind.overridesFixedName, chosenTy f with
        | true, .byteArray m => push (plain (.fixed (Name.ofFq (ownedName d kind rtn)) m))
        | _, _ => findOrBuild P hash n (subst args (chosenTy f))
      | some lt => fun s =>
        match appendSchema P hash n (subst args (chosenTy f)) s with
        | none => none
        | some (_, s1) =>
          if s1.nodes.size > s.nodes.size then
            match s1.nodes[s.nodes.size]? with
            | none => none
            | some node =>
              let node' : RawNode :=
                { type := renameNode node.type (Name.ofFq (ownedName d kind rtn)), logical := some lt }
              some (s.nodes.size, { s1 with nodes := s1.nodes.set! s.nodes.size node' })
          else none := by
  simp only [fieldInst]; rfl

theorem rf_nil (n : Nat) (d args tn) : recordFields P hash n d args tn [] = fun s => some ([], s) := by
  cases n <;> simp [recordFields]
theorem rf_zero (d args tn f rest) : recordFields P hash 0 d args tn (f :: rest) = fun _ => none := by
  simp [recordFields]
theorem rf_cons (n : Nat) (d args tn) (f : Field) (rest : List Field) :
    recordFields P hash (n+1) d args tn (f :: rest) = fun s =>
      match fieldInst P hash n d args f (.structField f.name) tn s with
      | none => none
      | some (k, s1) =>
        match recordFields P hash n d args tn rest s1 with
        | none => none
        | some (fs, s2) => some ((f.name, k) :: fs, s2) := by
  simp only [recordFields]; rfl

theorem uv_nil (n : Nat) (d args) : unionVariants P hash n d args [] = fun s => some ([], s) := by
  cases n <;> simp [unionVariants]
theorem uv_zero (d args v rest) : unionVariants P hash 0 d args (v :: rest) = fun _ => none := by
  simp [unionVariants]
theorem uv_cons (n : Nat) (d args) (v : Variant) (rest : List Variant) :
    unionVariants P hash (n+1) d args (v :: rest) = fun s =>
      match (match v.field with
        | none => findOrBuild P hash n .unit s
        | some f => fieldInst P hash n d args f (.newtypeVariant v.ident) "" s) with
      | none => none
      | some (k, s1) =>
        match unionVariants P hash n d args rest s1 with
        | none => none
        | some (ks, s2) => some (k :: ks, s2) := by
  simp only [unionVariants]; rfl


/-! ### Small facts -/

theorem nodup_insert_mid {α} {a b : List α} {x : α} (h : (a ++ b).Nodup) (ha : x ∉ a) (hb : x ∉ b) :
    (a ++ x :: b).Nodup := by
  simp only [List.nodup_append, List.nodup_cons, List.mem_cons] at h ⊢
  refine ⟨h.1, ⟨hb, h.2.1⟩, ?_⟩
  intro y hy z hz
  rcases hz with rfl | hz
  · intro hyz; subst hyz; exact ha hy
  · exact h.2.2 y hy z hz

theorem list_set_mid {α} (a : List α) (x y : α) (b : List α) :
    (a ++ x :: b).set a.length y = a ++ y :: b := by
  induction a with
  | nil => rfl
  | cons c a ih => simp [ih]

theorem list_get_mid {α} (a : List α) (x : α) (b : List α) : (a ++ x :: b)[a.length]? = some x := by
  induction a with
  | nil => rfl
  | cons c a ih => simp

theorem tyName_rename (t : RegularType) (nm : Name) :
    tyName (renameNode t nm) = (tyName t).map fun _ => nm.fq := by
  cases t <;> rfl

theorem nodeName_null : nodeName nullNode = none := rfl

theorem resv_toList (s : BState) : (resv s).nodes.toList = s.nodes.toList ++ [nullNode] := by
  simp [resv]

theorem dn_resv (s : BState) : dn (resv s).nodes.toList = dn s.nodes.toList := by
  rw [resv_toList, dn_append]; simp [dn, nodeName_null]

theorem setNode_spec {s2 s' : BState} {pre rest : List RawNode} {x node : RawNode}
    (hn : s2.nodes.toList = pre ++ x :: rest) (h : setNode pre.length node s2 = some ((), s')) :
    s'.nodes.toList = pre ++ node :: rest ∧ s'.built = s2.built := by
  unfold setNode at h
  split at h
  · simp only [Option.some.injEq, Prod.mk.injEq, true_and] at h
    subst h
    simp [hn]
  · cases h

theorem logicalOf_none {f : Field} (h : logicalOf f = none) : f.attr.logical = none := by
  unfold logicalOf at h
  cases hl : f.attr.logical with
  | none => rfl
  | some l =>
    simp only [hl] at h
    cases hk : known (pascal l) with
    | none => simp [hk] at h
    | some kn => cases kn <;> simp [hk] at h

theorem logicalOf_some {f : Field} {lt : LogicalType} (h : logicalOf f = some lt) :
    f.attr.logical.isSome = true := by
  cases hl : f.attr.logical with
  | none => simp [logicalOf, hl] at h
  | some l => rfl

theorem chosenTy_plain {f : Field} (h : f.attr.logical = none) : chosenTy f = peel f.ty := by
  simp [chosenTy, h]

theorem ownedName_struct (d : Decl) (f : String) (tn : String) :
    ownedName d (.structField f) tn = tn ++ "." ++ f := by
  unfold ownedName
  cases d.ns <;> rfl

/-- The field instantiation creates a node named after its owner (instead of going through
    `find_or_build`): a logical-type attribute, or a type written `[u8; N]` in a newtype struct /
    enum variant. -/
def creates (f : Field) (kind : FieldKind) : Prop :=
  f.attr.logical.isSome = true ∨ (kind.overridesFixedName = true ∧ ∃ n, chosenTy f = .byteArray n)

theorem creates_unsafe {f : Field} {kind : FieldKind} (h : creates f kind) : safeField f = false := by
  cases hl : f.attr.logical with
  | some l => simp [safeField, hl]
  | none =>
    rcases h with h | ⟨_, n, hn⟩
    · simp [hl] at h
    · rw [chosenTy_plain hl] at hn
      simp [safeField, hn]

/-- The declaration index at the head of a lookup key. -/
def keyId : Key → Option Nat
  | .self id :: _ => some id
  | .generic id _ :: _ => some id
  | _ => none

theorem keyId_of_KeyOf {d : Decl} {id : Nat} {k : Key} (h : KeyOf d id k) : keyId k = some id := by
  rcases h with ⟨_, rfl⟩ | ⟨_, n, r, rfl⟩ <;> rfl

/-- Lookup key of a declared type that does not forward: headed by its own index. -/
theorem lk_named_shape (P : Prog) {n id : Nat} {args : List Ty} {k : Key} {d : Decl}
    (h : lookupKey P n (.named id args) = some k) (hP : P[id]? = some d)
    (hnd : ∀ f, d.body = .newtype f → isDirect f .newtypeStruct = false) :
    (d.nparams = 0 ∨ (∃ vs, d.body = .unitEnum vs)) ∧ k = [.self id] ∨
      (d.nparams ≠ 0 ∧ ∃ m r, k = .generic id m :: r) := by
  cases n with
  | zero => simp [lk_zero] at h
  | succ n =>
    rw [lk_named] at h
    simp only [hP] at h
    cases hb : d.body with
    | unitEnum vs =>
      simp only [hb, Option.some.injEq] at h
      exact .inl ⟨.inr ⟨vs, rfl⟩, h.symm⟩
    | newtype f =>
      simp only [hb] at h
      rw [if_neg (by simp [hnd f hb])] at h
      by_cases hn : d.nparams = 0
      · rw [if_pos hn] at h
        exact .inl ⟨.inl hn, (Option.some.inj h).symm⟩
      · rw [if_neg hn, Option.map_eq_some_iff] at h
        obtain ⟨a, _, rfl⟩ := h
        exact .inr ⟨hn, _, _, rfl⟩
    | record fs =>
      simp only [hb] at h
      by_cases hn : d.nparams = 0
      · rw [if_pos hn] at h
        exact .inl ⟨.inl hn, (Option.some.inj h).symm⟩
      · rw [if_neg hn] at h
        simp only [Option.map_eq_some_iff] at h
        obtain ⟨a, _, rfl⟩ := h
        exact .inr ⟨hn, _, _, rfl⟩
    | union vs =>
      simp only [hb] at h
      by_cases hn : d.nparams = 0
      · rw [if_pos hn] at h
        exact .inl ⟨.inl hn, (Option.some.inj h).symm⟩
      · rw [if_neg hn] at h
        simp only [Option.map_eq_some_iff] at h
        obtain ⟨a, _, rfl⟩ := h
        exact .inr ⟨hn, _, _, rfl⟩

theorem keyId_dupSafe (P : Prog) {n : Nat} {args : List Ty} {c : Ty} {k : Key}
    (h : lookupKey P n (subst args c) = some k) (hs : dupSafe P c = true) :
    keyId k = (match c with | .named id _ => some id | _ => none) := by
  cases n with
  | zero => simp [lk_zero] at h
  | succ n =>
    cases c with
    | named id as =>
      simp only [subst] at h
      cases hP : P[id]? with
      | none => rw [lk_named] at h; simp [hP] at h
      | some d =>
        have hnd : ∀ f, d.body = .newtype f → isDirect f .newtypeStruct = false := by
          intro f hb
          simpa [dupSafe, hP, hb] using hs
        rcases lk_named_shape P h hP hnd with ⟨_, rfl⟩ | ⟨_, m, r, rfl⟩ <;> rfl
    | param i => simp [dupSafe] at hs
    | ptr t => simp [dupSafe] at hs
    | vec t => simp only [subst, lk_vec, Option.map_eq_some_iff] at h; obtain ⟨a, _, rfl⟩ := h; rfl
    | option t => simp only [subst, lk_option, Option.map_eq_some_iff] at h; obtain ⟨a, _, rfl⟩ := h; rfl
    | hashMap t => simp only [subst, lk_hashMap, Option.map_eq_some_iff] at h; obtain ⟨a, _, rfl⟩ := h; rfl
    | btreeMap t => simp only [subst, lk_btreeMap, Option.map_eq_some_iff] at h; obtain ⟨a, _, rfl⟩ := h; rfl
    | _ => simp only [subst, lookupKey, Option.some.injEq] at h; subst h; rfl


/-! ### Specifications of the five mutually recursive builder functions -/

def TopOK (P : Prog) (hash : Key → String) (t : Ty) (top : RawNode) : Prop :=
  ∀ nm, nodeName top = some nm → ∀ n k0, lookupKey P n t = some k0 →
    ∃ o, Named P hash o nm ∧ o.owner = k0 ∧ o.isSub = false

def Compat (P : Prog) (hash : Key → String) (K : Key → Prop) (t : Ty) (A : String → Prop) : Prop :=
  ∀ n k0 o nm, lookupKey P n t = some k0 → Named P hash o nm → o.owner = k0 → o.isSub = true →
    A nm ∧ K k0

/- In the five specifications `K` is a set of lookup keys containing every key registered in the
   OUTPUT state of the call (`∀ k, Reg s' k → K k`); the name assignment is only assumed injective
   on origins owned by keys in `K`. -/

def AppendSpec (P : Prog) (hash : Key → String) (K : Key → Prop) (fuel : Nat) : Prop :=
  ∀ (t : Ty) (s s' : BState) (A : String → Prop), Inv P hash s → (∀ nm, A nm → Allowed P hash s nm) →
    Compat P hash K t A → appendSchema P hash fuel t s = some ((), s') → (∀ k, Reg s' k → K k) →
    ∃ top rest, s'.nodes.toList = s.nodes.toList ++ top :: rest ∧ Ext P hash A s s' rest ∧
      TopOK P hash t top

def NoA : String → Prop := fun _ => False

def FBSpec (P : Prog) (hash : Key → String) (K : Key → Prop) (fuel : Nat) : Prop :=
  ∀ (t : Ty) (s : BState) (idx : Nat) (s' : BState), Inv P hash s →
    findOrBuild P hash fuel t s = some (idx, s') → (∀ k, Reg s' k → K k) →
    ∃ ext, s'.nodes.toList = s.nodes.toList ++ ext ∧ Ext P hash NoA s s' ext

def FISpec (P : Prog) (hash : Key → String) (K : Key → Prop) (fuel : Nat) : Prop :=
  ∀ (id : Nat) (d : Decl) (args : List Ty) (f : Field) (kind : FieldKind) (rtn : String)
    (s : BState) (k : Nat) (s' : BState), Inv P hash s → P[id]? = some d → f ∈ d.body.lookupFields →
    fieldInst P hash fuel d args f kind rtn s = some (k, s') → (∀ k, Reg s' k → K k) →
    (¬ creates f kind ∧ ∃ ext, s'.nodes.toList = s.nodes.toList ++ ext ∧ Ext P hash NoA s s' ext) ∨
    (creates f kind ∧ k = s.nodes.size ∧ ∃ top rest,
      s'.nodes.toList = s.nodes.toList ++ top :: rest ∧ Ext P hash NoA s s' rest ∧
      ∀ nm, nodeName top = some nm → nm = fqOf (ownedName d kind rtn))

def subNm (d : Decl) (hash : Key → String) (k : Key) (f : Field) : String :=
  fqOf (recName d hash k ++ "." ++ f.name)

def RFSpec (P : Prog) (hash : Key → String) (K : Key → Prop) (fuel : Nat) : Prop :=
  ∀ (id : Nat) (d : Decl) (fs0 : List Field) (args : List Ty) (k : Key) (fs : List Field)
    (s : BState) (r : List (String × Nat)) (s' : BState), Inv P hash s → P[id]? = some d →
    d.body = .record fs0 → (∀ f ∈ fs, f ∈ fs0) → (fs.map (·.name)).Nodup → KeyOf d id k →
    (∀ f ∈ fs, f.attr.logical.isSome = true → Allowed P hash s (subNm d hash k f)) →
    (∀ f ∈ fs, f.attr.logical.isSome = true → K k) →
    recordFields P hash fuel d args (recName d hash k) fs s = some (r, s') → (∀ k, Reg s' k → K k) →
    ∃ ext, s'.nodes.toList = s.nodes.toList ++ ext ∧
      Ext P hash (fun nm => ∃ f ∈ fs, f.attr.logical.isSome = true ∧ nm = subNm d hash k f) s s' ext

def varNm (d : Decl) (v : Variant) : String := fqOf (ownedName d (.newtypeVariant v.ident) "")

def UVSpec (P : Prog) (hash : Key → String) (K : Key → Prop) (fuel : Nat) : Prop :=
  ∀ (id : Nat) (d : Decl) (vs0 : List Variant) (args : List Ty) (vs : List Variant)
    (s : BState) (r : List Nat) (s' : BState), Inv P hash s → P[id]? = some d →
    d.body = .union vs0 → (∀ v ∈ vs, v ∈ vs0) → (vs.map (·.ident)).Nodup →
    (∀ v ∈ vs, ∀ f, v.field = some f → safeField f = false → Allowed P hash s (varNm d v)) →
    (∀ v ∈ vs, ∀ f, v.field = some f → safeField f = false → K [.self id]) →
    unionVariants P hash fuel d args vs s = some (r, s') → (∀ k, Reg s' k → K k) →
    ∃ ext, s'.nodes.toList = s.nodes.toList ++ ext ∧
      Ext P hash (fun nm => ∃ v ∈ vs, ∃ f, v.field = some f ∧ safeField f = false ∧ nm = varNm d v)
        s s' ext

variable {P : Prog} {hash : Key → String} {K : Key → Prop}

theorem Inv.resv {s : BState} (h : Inv P hash s) : Inv P hash (resv s) := h.congr (dn_resv s) rfl

theorem Allowed.resv {s : BState} {nm : String} (h : Allowed P hash s nm) : Allowed P hash (resv s) nm :=
  h.congr (dn_resv s) rfl

/-- A node pushed on an otherwise unchanged builder. -/
theorem push_post {A : String → Prop} {t : Ty} {s s' : BState} {node : RawNode} (hi : Inv P hash s)
    (h : (push node s).map (fun (x : Nat × BState) => ((), x.2)) = some ((), s'))
    (htop : TopOK P hash t node) :
    ∃ top rest, s'.nodes.toList = s.nodes.toList ++ top :: rest ∧ Ext P hash A s s' rest ∧
      TopOK P hash t top := by
  simp only [push, Option.map_some, Option.some.injEq, Prod.mk.injEq, true_and] at h
  subst h
  exact ⟨node, [], by simp, (Ext.refl hi).congr rfl rfl rfl, htop⟩

/-- Reserve, build children, fill the reserved slot. -/
theorem fill_post {A : String → Prop} {t : Ty} {s s2 s' : BState} {rest : List RawNode} {node : RawNode}
    (hn : s2.nodes.toList = (resv s).nodes.toList ++ rest) (he : Ext P hash A (resv s) s2 rest)
    (hset : setNode s.nodes.size node s2 = some ((), s')) (htop : TopOK P hash t node) :
    ∃ top rest, s'.nodes.toList = s.nodes.toList ++ top :: rest ∧ Ext P hash A s s' rest ∧
      TopOK P hash t top := by
  rw [resv_toList, List.append_assoc] at hn
  have hsz : s.nodes.size = s.nodes.toList.length := by simp
  rw [hsz] at hset
  obtain ⟨h1, h2⟩ := setNode_spec hn hset
  exact ⟨node, rest, h1, he.congr (dn_resv s) rfl h2.symm, htop⟩

theorem topOK_unnamed {t : Ty} {node : RawNode} (h : nodeName node = none) : TopOK P hash t node := by
  intro nm hnm; rw [h] at hnm; cases hnm

theorem fresh_of_unreg (hI : NameInjOn P hash K) {s : BState} (hi : Inv P hash s)
    (hKs : ∀ k, Reg s k → K k) {key : Key} {o : Origin}
    {nm : String} (hKk : K key) (hr : ¬ Reg s key) (ho : Named P hash o nm) (hk : o.owner = key) :
    nm ∉ dn s.nodes.toList := by
  intro hm
  obtain ⟨o', ho', hr'⟩ := hi.owned nm hm
  have := hI o o' nm ho ho' (by rw [hk]; exact hKk) (hKs _ hr')
  subst this
  exact hr (hk ▸ hr')

theorem compat_of_dupSafe {c : Ty} (hs : dupSafe P c = true) (args : List Ty) :
    Compat P hash K (subst args c) NoA := by
  intro n k0 o nm hk hnamed hown hsub
  have hid := keyId_dupSafe P hk hs
  cases hnamed with
  | arr n => cases hsub
  | enum _ _ => cases hsub
  | record _ _ _ => cases hsub
  | newty _ _ _ => cases hsub
  | @sub id d fs k f hP hb hko hf hl =>
    simp only [Origin.owner] at hown
    subst hown
    rw [keyId_of_KeyOf hko] at hid
    cases c with
    | named id' as =>
      simp only [Option.some.injEq] at hid
      subst hid
      simp only [dupSafe, hP, hb, List.all_eq_true] at hs
      have := hs f hf
      cases hx : f.attr.logical <;> simp [hx] at this hl
    | _ => simp at hid
  | @var id d vs v f hP hb hn hv hf hu =>
    simp only [Origin.owner] at hown
    subst hown
    cases c with
    | named id' as =>
      simp only [keyId, Option.some.injEq] at hid
      subst hid
      simp only [dupSafe, hP, hb, List.all_eq_true] at hs
      have := hs v hv
      simp [hf, hu] at this
    | _ => simp [keyId] at hid

variable {P : Prog} {hash : Key → String} {K : Key → Prop}

theorem fob_step (hI : NameInjOn P hash K) {fuel : Nat} (ihA : AppendSpec P hash K fuel) :
    FBSpec P hash K (fuel + 1) := by
  intro t s idx s' hi h hK
  rw [fob_succ] at h
  simp only at h
  cases hk : lookupKey P (fuel + 1) t with
  | none => simp [hk] at h
  | some key =>
    simp only [hk] at h
    cases hb : s.built.lookup key with
    | some i =>
      simp only [hb, Option.some.injEq, Prod.mk.injEq] at h
      obtain ⟨_, rfl⟩ := h
      exact ⟨[], by simp, Ext.refl hi⟩
    | none =>
      simp only [hb] at h
      have hnr : ¬ Reg s key := by simp [Reg, hb]
      cases ha : appendSchema P hash fuel t { s with built := (key, s.nodes.size) :: s.built } with
      | none => simp [ha] at h
      | some r =>
        obtain ⟨u, s1⟩ := r
        simp only [ha] at h
        by_cases hlt : s1.nodes.size > s.nodes.size
        · simp only [hlt, if_true, Option.some.injEq, Prod.mk.injEq] at h
          obtain ⟨_, rfl⟩ := h
          have hreg0 : ∀ k, Reg s k → Reg { s with built := (key, s.nodes.size) :: s.built } k :=
            fun k hk' => (reg_cons s key _ k).2 (.inr hk')
          have hi0 : Inv P hash { s with built := (key, s.nodes.size) :: s.built } :=
            ⟨hi.nodup, fun nm hm => let ⟨o, ho, hr⟩ := hi.owned nm hm; ⟨o, ho, hreg0 _ hr⟩⟩
          have hmono := reg_mono_as ha
          have hKkey : K key := hK _ (hmono _ ((reg_cons s key _ _).2 (.inl rfl)))
          have hKs : ∀ k, Reg s k → K k := fun k hk' => hK k (hmono k (hreg0 k hk'))
          let A : String → Prop := fun nm => ∃ o, Named P hash o nm ∧ o.owner = key ∧ o.isSub = true
          have hA : ∀ nm, A nm → Allowed P hash { s with built := (key, s.nodes.size) :: s.built } nm := by
            rintro nm ⟨o, ho, hok, _⟩
            exact ⟨fresh_of_unreg hI hi hKs hKkey hnr ho hok, o, ho, (reg_cons s key _ _).2 (.inl hok)⟩
          have hC : Compat P hash K t A := by
            intro n k0 o nm hk0 ho hown hsub
            exact ⟨⟨o, ho, hown.trans (lk_det P hk0 hk), hsub⟩, by rw [lk_det P hk0 hk]; exact hKkey⟩
          obtain ⟨top, rest, hn, he, htop⟩ := ihA t _ s1 A hi0 hA hC ha hK
          have hkey1 : Reg s1 key := he.mono _ ((reg_cons s key _ _).2 (.inl rfl))
          refine ⟨top :: rest, hn, fun k hk' => he.mono _ (hreg0 _ hk'), ?_, ?_⟩
          · rw [dn_cons]
            cases hx : nodeName top with
            | none => simpa using he.nodup
            | some nm =>
              obtain ⟨o, ho, hok, hsub⟩ := htop nm hx _ _ hk
              refine nodup_insert_mid he.nodup (fresh_of_unreg hI hi hKs hKkey hnr ho hok) ?_
              intro hm
              rcases he.src nm hm with ⟨o', ho', hr1', hr'⟩ | ⟨o', ho', hok', hsub'⟩
              · have := hI o o' nm ho ho' (by rw [hok]; exact hKkey) (hK _ hr1')
                subst this
                exact hr' ((reg_cons s key _ _).2 (.inl hok))
              · have := hI o o' nm ho ho' (by rw [hok]; exact hKkey) (by rw [hok']; exact hKkey)
                subst this
                rw [hsub] at hsub'; cases hsub'
          · intro nm hm
            rw [dn_cons, List.mem_append] at hm
            rcases hm with hm | hm
            · cases hx : nodeName top with
              | none => simp [hx] at hm
              | some nm' =>
                simp only [hx, List.mem_singleton] at hm
                subst hm
                obtain ⟨o, ho, hok, _⟩ := htop nm hx _ _ hk
                exact .inl ⟨o, ho, hok ▸ hkey1, hok ▸ hnr⟩
            · rcases he.src nm hm with ⟨o', ho', h1, h2⟩ | ⟨o', ho', hok, _⟩
              · exact .inl ⟨o', ho', h1, fun h => h2 (hreg0 _ h)⟩
              · exact .inl ⟨o', ho', hok ▸ hkey1, hok ▸ hnr⟩
        · simp [hlt] at h

theorem fi_step (hW : StructWf P) {fuel : Nat} (ihA : AppendSpec P hash K fuel)
    (ihF : FBSpec P hash K fuel) : FISpec P hash K (fuel + 1) := by
  intro id d args f kind rtn s k s' hi hP hf h hK
  rw [fi_succ] at h
  cases hl : logicalOf f with
  | none =>
    simp only [hl] at h
    have hlog := logicalOf_none hl
    split at h
    · rename_i n hov hty
      simp only [push, Option.some.injEq, Prod.mk.injEq] at h
      obtain ⟨rfl, rfl⟩ := h
      refine .inr ⟨.inr ⟨hov, n, hty⟩, rfl, plain (.fixed (Name.ofFq (ownedName d kind rtn)) n), [],
        by simp, (Ext.refl hi).congr rfl rfl rfl, ?_⟩
      intro nm hnm
      simpa [nodeName, tyName, plain, fqOf] using hnm.symm
    · rename_i hne
      have hnc : ¬ creates f kind := by
        rintro (h1 | ⟨h1, n, h2⟩)
        · simp [hlog] at h1
        · exact hne n h1 h2
      exact .inl ⟨hnc, ihF _ _ _ _ hi h hK⟩
  | some lt =>
    simp only [hl] at h
    have hlog := logicalOf_some hl
    have hds := hW.logical_dupSafe id d hP f hf hlog
    cases ha : appendSchema P hash fuel (subst args (chosenTy f)) s with
    | none => simp [ha] at h
    | some r =>
      obtain ⟨u, s1⟩ := r
      simp only [ha] at h
      by_cases hlt : s1.nodes.size > s.nodes.size
      · simp only [hlt, if_true] at h
        have hK1 : ∀ k, Reg s1 k → K k := by
          cases hg : s1.nodes[s.nodes.size]? with
          | none => simp [hg] at h
          | some node =>
            simp only [hg, Option.some.injEq, Prod.mk.injEq] at h
            obtain ⟨_, rfl⟩ := h
            exact hK
        obtain ⟨top, rest, hn, he, _⟩ :=
          ihA _ s s1 NoA hi (fun _ h => h.elim) (compat_of_dupSafe hds args) ha hK1
        have hget : s1.nodes[s.nodes.size]? = some top := by
          rw [← Array.getElem?_toList, hn]
          have : s.nodes.size = s.nodes.toList.length := by simp
          rw [this]; exact list_get_mid _ _ _
        simp only [hget, Option.some.injEq, Prod.mk.injEq] at h
        obtain ⟨rfl, rfl⟩ := h
        refine .inr ⟨.inl hlog, rfl,
          { type := renameNode top.type (Name.ofFq (ownedName d kind rtn)), logical := some lt }, rest,
          ?_, he.congr rfl rfl rfl, ?_⟩
        · have : s.nodes.size = s.nodes.toList.length := by simp
          simp only [Array.set!_eq_setIfInBounds, Array.toList_setIfInBounds, hn]
          rw [this]; exact list_set_mid _ _ _ _
        · intro nm hnm
          simp only [nodeName, tyName_rename] at hnm
          cases hx : tyName top.type with
          | none => simp [hx] at hnm
          | some x => simp [hx] at hnm; exact hnm.symm
      · simp [hlt] at h

variable {P : Prog} {hash : Key → String} {K : Key → Prop}

theorem rf_zero_spec : RFSpec P hash K 0 := by
  intro id d fs0 args k fs s r s' hi hP hb hsub hnd hko hal hKk h hK
  cases fs with
  | nil =>
    rw [rf_nil] at h
    simp only [Option.some.injEq, Prod.mk.injEq] at h
    obtain ⟨_, rfl⟩ := h
    exact ⟨[], by simp, Ext.refl hi⟩
  | cons f rest => rw [rf_zero] at h; cases h

theorem rf_step (hI : NameInjOn P hash K) {fuel : Nat} (ihI : FISpec P hash K fuel)
    (ihR : RFSpec P hash K fuel) : RFSpec P hash K (fuel + 1) := by
  intro id d fs0 args k fs s r s' hi hP hb hsub hnd hko hal hKk h hK
  cases fs with
  | nil =>
    rw [rf_nil] at h
    simp only [Option.some.injEq, Prod.mk.injEq] at h
    obtain ⟨_, rfl⟩ := h
    exact ⟨[], by simp, Ext.refl hi⟩
  | cons f rest =>
    rw [rf_cons] at h
    simp only at h
    cases h1 : fieldInst P hash fuel d args f (.structField f.name) (recName d hash k) s with
    | none => simp [h1] at h
    | some r1 =>
      obtain ⟨k1, s1⟩ := r1
      simp only [h1] at h
      cases h2 : recordFields P hash fuel d args (recName d hash k) rest s1 with
      | none => simp [h2] at h
      | some r2 =>
        obtain ⟨fs2, s2⟩ := r2
        simp only [h2, Option.some.injEq, Prod.mk.injEq] at h
        obtain ⟨_, rfl⟩ := h
        have hf0 : f ∈ fs0 := hsub f (List.mem_cons_self ..)
        have hfl : f ∈ d.body.lookupFields := by rw [hb]; exact hf0
        have hK1 : ∀ k, Reg s1 k → K k := fun k hk => hK k (reg_mono_rf h2 k hk)
        -- the first field
        let A1 : String → Prop := fun nm => f.attr.logical.isSome = true ∧ nm = subNm d hash k f
        have step1 : ∃ ext1, s1.nodes.toList = s.nodes.toList ++ ext1 ∧ Ext P hash A1 s s1 ext1 := by
          rcases ihI id d args f _ _ s k1 s1 hi hP hfl h1 hK1 with ⟨_, ext, hn, he⟩ | ⟨hc, _, top, rest1, hn, he, ht⟩
          · exact ⟨ext, hn, he.weaken (fun _ h => h.elim)⟩
          · have hlog : f.attr.logical.isSome = true := by
              rcases hc with hc | ⟨hc, _⟩
              · exact hc
              · cases hc
            have hal1 := hal f (List.mem_cons_self ..) hlog
            rw [ownedName_struct] at ht
            refine ⟨top :: rest1, hn, (he.cons_top hI hK1 hal1 ht (fun h => h)).weaken ?_⟩
            rintro nm (h | h)
            · exact h.elim
            · exact ⟨hlog, h⟩
        obtain ⟨ext1, hn1, he1⟩ := step1
        have hi1 : Inv P hash s1 := he1.inv hi hn1 (by
          rintro nm ⟨hlog, rfl⟩
          exact (hal f (List.mem_cons_self ..) hlog).2)
        -- the remaining fields
        have hnd' : f.name ∉ rest.map (·.name) ∧ (rest.map (·.name)).Nodup := by
          simpa using hnd
        have hal' : ∀ g ∈ rest, g.attr.logical.isSome = true → Allowed P hash s1 (subNm d hash k g) := by
          intro g hg hgl
          refine (hal g (List.mem_cons_of_mem _ hg) hgl).step hI hK1 hn1 he1 ?_
          rintro ⟨hlog, heq⟩
          have hKk' : K k := hKk f (List.mem_cons_self ..) hlog
          have hn1 := Named.sub (hash := hash) hP hb hko hf0 hlog
          have hn2 := Named.sub (hash := hash) hP hb hko (hsub g (List.mem_cons_of_mem _ hg)) hgl
          have hn1' : Named P hash (.sub k f.name) (subNm d hash k g) := by rw [heq]; exact hn1
          have := hI _ _ _ hn2 hn1' hKk' hKk'
          simp only [Origin.sub.injEq, true_and] at this
          exact hnd'.1 (List.mem_map.2 ⟨g, hg, this⟩)
        obtain ⟨ext2, hn2, he2⟩ := ihR id d fs0 args k rest s1 fs2 s2 hi1 hP hb
          (fun g hg => hsub g (List.mem_cons_of_mem _ hg)) hnd'.2 hko hal'
          (fun g hg => hKk g (List.mem_cons_of_mem _ hg)) h2 hK
        refine ⟨ext1 ++ ext2, by rw [hn2, hn1, List.append_assoc], Ext.trans hn1 (he1.weaken ?_) (he2.weaken ?_)⟩
        · rintro nm ⟨hlog, rfl⟩
          exact ⟨f, List.mem_cons_self .., hlog, rfl⟩
        · rintro nm ⟨g, hg, hgl, rfl⟩
          exact ⟨g, List.mem_cons_of_mem _ hg, hgl, rfl⟩

theorem uv_zero_spec : UVSpec P hash K 0 := by
  intro id d vs0 args vs s r s' hi hP hb hsub hnd hal hKid h hK
  cases vs with
  | nil =>
    rw [uv_nil] at h
    simp only [Option.some.injEq, Prod.mk.injEq] at h
    obtain ⟨_, rfl⟩ := h
    exact ⟨[], by simp, Ext.refl hi⟩
  | cons f rest => rw [uv_zero] at h; cases h

theorem uv_step (hW : StructWf P) (hI : NameInjOn P hash K) {fuel : Nat} (ihF : FBSpec P hash K fuel)
    (ihI : FISpec P hash K fuel) (ihU : UVSpec P hash K fuel) : UVSpec P hash K (fuel + 1) := by
  intro id d vs0 args vs s r s' hi hP hb hsub hnd hal hKid h hK
  cases vs with
  | nil =>
    rw [uv_nil] at h
    simp only [Option.some.injEq, Prod.mk.injEq] at h
    obtain ⟨_, rfl⟩ := h
    exact ⟨[], by simp, Ext.refl hi⟩
  | cons v rest =>
    rw [uv_cons] at h
    simp only at h
    split at h
    · cases h
    · rename_i k1 s1 h1
      cases h2 : unionVariants P hash fuel d args rest s1 with
      | none => simp [h2] at h
      | some r2 =>
        obtain ⟨ks2, s2⟩ := r2
        simp only [h2, Option.some.injEq, Prod.mk.injEq] at h
        obtain ⟨_, rfl⟩ := h
        have hv0 : v ∈ vs0 := hsub v (List.mem_cons_self ..)
        have hK1 : ∀ k, Reg s1 k → K k := fun k hk => hK k (reg_mono_uv h2 k hk)
        have hnp : ∀ w ∈ vs0, ∀ g, w.field = some g → safeField g = false → d.nparams = 0 := by
          intro w hw g hg hu
          refine Classical.byContradiction fun hn => ?_
          have := hW.union_generic_safe id d vs0 hP hb hn w hw g hg
          rw [hu] at this; cases this
        let A1 : String → Prop := fun nm => ∃ f, v.field = some f ∧ safeField f = false ∧ nm = varNm d v
        have step1 : ∃ ext1, s1.nodes.toList = s.nodes.toList ++ ext1 ∧ Ext P hash A1 s s1 ext1 := by
          cases hvf : v.field with
          | none =>
            simp only [hvf] at h1
            obtain ⟨ext, hn, he⟩ := ihF _ _ _ _ hi h1 hK1
            exact ⟨ext, hn, he.weaken (fun _ h => h.elim)⟩
          | some f =>
            simp only [hvf] at h1
            have hfl : f ∈ d.body.lookupFields := by
              rw [hb]; exact List.mem_filterMap.2 ⟨v, hv0, hvf⟩
            rcases ihI id d args f _ _ s k1 s1 hi hP hfl h1 hK1 with ⟨_, ext, hn, he⟩ | ⟨hc, _, top, rest1, hn, he, ht⟩
            · exact ⟨ext, hn, he.weaken (fun _ h => h.elim)⟩
            · have hu := creates_unsafe hc
              have hal1 := hal v (List.mem_cons_self ..) f hvf hu
              refine ⟨top :: rest1, hn, (he.cons_top hI hK1 hal1 ht (fun h => h)).weaken ?_⟩
              rintro nm (h | h)
              · exact h.elim
              · exact ⟨f, hvf, hu, h⟩
        obtain ⟨ext1, hn1, he1⟩ := step1
        have hi1 : Inv P hash s1 := he1.inv hi hn1 (by
          rintro nm ⟨f, hvf, hu, rfl⟩
          exact (hal v (List.mem_cons_self ..) f hvf hu).2)
        have hnd' : v.ident ∉ rest.map (·.ident) ∧ (rest.map (·.ident)).Nodup := by
          simpa using hnd
        have hal' : ∀ w ∈ rest, ∀ g, w.field = some g → safeField g = false →
            Allowed P hash s1 (varNm d w) := by
          intro w hw g hg hgu
          refine (hal w (List.mem_cons_of_mem _ hw) g hg hgu).step hI hK1 hn1 he1 ?_
          rintro ⟨f, hvf, hu, heq⟩
          have hKv : K [.self id] := hKid v (List.mem_cons_self ..) f hvf hu
          have hw0 := hsub w (List.mem_cons_of_mem _ hw)
          have hn1 := Named.var (hash := hash) hP hb (hnp v hv0 f hvf hu) hv0 hvf hu
          have hn2 := Named.var (hash := hash) hP hb (hnp v hv0 f hvf hu) hw0 hg hgu
          have hn1' : Named P hash (.var id v.ident) (varNm d w) := by rw [heq]; exact hn1
          have := hI _ _ _ hn2 hn1' hKv hKv
          simp only [Origin.var.injEq, true_and] at this
          exact hnd'.1 (List.mem_map.2 ⟨w, hw, this⟩)
        obtain ⟨ext2, hn2, he2⟩ := ihU id d vs0 args rest s1 ks2 s2 hi1 hP hb
          (fun g hg => hsub g (List.mem_cons_of_mem _ hg)) hnd'.2 hal'
          (fun w hw => hKid w (List.mem_cons_of_mem _ hw)) h2 hK
        refine ⟨ext1 ++ ext2, by rw [hn2, hn1, List.append_assoc], Ext.trans hn1 (he1.weaken ?_) (he2.weaken ?_)⟩
        · rintro nm ⟨f, hvf, hu, rfl⟩
          exact ⟨v, List.mem_cons_self .., f, hvf, hu, rfl⟩
        · rintro nm ⟨w, hw, g, hg, hgu, rfl⟩
          exact ⟨w, List.mem_cons_of_mem _ hw, g, hg, hgu, rfl⟩

variable {P : Prog} {hash : Key → String} {K : Key → Prop}

theorem as_zero_spec : AppendSpec P hash K 0 := by
  intro t s s' A _ _ _ h _
  rw [as_zero] at h; cases h

/-- `Vec<T>` / maps: reserve, `find_or_build` the element type, fill. -/
theorem wrap_post {fuel : Nat} (ihF : FBSpec P hash K fuel) {A : String → Prop} {t0 t : Ty}
    {s s' : BState} {mk : Nat → RegularType} (hmk : ∀ k, tyName (mk k) = none) (hi : Inv P hash s)
    (h : (match findOrBuild P hash fuel t (resv s) with
      | none => none
      | some (k, s2) => setNode s.nodes.size (plain (mk k)) s2) = some ((), s'))
    (hK : ∀ k, Reg s' k → K k) :
    ∃ top rest, s'.nodes.toList = s.nodes.toList ++ top :: rest ∧ Ext P hash A s s' rest ∧
      TopOK P hash t0 top := by
  cases h1 : findOrBuild P hash fuel t (resv s) with
  | none => simp [h1] at h
  | some r1 =>
    obtain ⟨k, s2⟩ := r1
    simp only [h1] at h
    obtain ⟨ext, hn, he⟩ := ihF _ _ _ _ hi.resv h1 (hK_of_setNode h hK)
    exact fill_post hn (he.weaken (fun _ h => h.elim)) h (topOK_unnamed (hmk k))

theorem append_step (hW : StructWf P) {fuel : Nat}
    (ihA : AppendSpec P hash K fuel) (ihF : FBSpec P hash K fuel) (ihI : FISpec P hash K fuel)
    (ihR : RFSpec P hash K fuel) (ihU : UVSpec P hash K fuel) : AppendSpec P hash K (fuel + 1) := by
  intro t s s' A hi hA hC h hK
  cases t with
  | ptr t =>
    rw [as_ptr] at h
    have hC' : Compat P hash K t A := fun n k0 o nm hk => hC (n + 1) k0 o nm (by rw [lk_ptr]; exact hk)
    obtain ⟨top, rest, hn, he, htop⟩ := ihA t s s' A hi hA hC' h hK
    refine ⟨top, rest, hn, he, ?_⟩
    intro nm hnm n k0 hk
    cases n with
    | zero => simp [lk_zero] at hk
    | succ n => rw [lk_ptr] at hk; exact htop nm hnm n k0 hk
  | param i => simp [appendSchema] at h
  | vec t => rw [as_vec] at h; exact wrap_post ihF (fun _ => rfl) hi h hK
  | hashMap t => rw [as_hashMap] at h; exact wrap_post ihF (fun _ => rfl) hi h hK
  | btreeMap t => rw [as_btreeMap] at h; exact wrap_post ihF (fun _ => rfl) hi h hK
  | option t =>
    rw [as_option] at h
    simp only at h
    cases h1 : findOrBuild P hash fuel .unit (resv s) with
    | none => simp [h1] at h
    | some r1 =>
      obtain ⟨a, s1⟩ := r1
      simp only [h1] at h
      cases h2 : findOrBuild P hash fuel t s1 with
      | none => simp [h2] at h
      | some r2 =>
        obtain ⟨b, s2⟩ := r2
        simp only [h2] at h
        have hK2 : ∀ k, Reg s2 k → K k := hK_of_setNode h hK
        have hK1 : ∀ k, Reg s1 k → K k := fun k hk => hK2 k (reg_mono_fob h2 k hk)
        obtain ⟨ext1, hn1, he1⟩ := ihF _ _ _ _ hi.resv h1 hK1
        have hi1 : Inv P hash s1 := he1.inv hi.resv hn1 (fun _ h => h.elim)
        obtain ⟨ext2, hn2, he2⟩ := ihF _ _ _ _ hi1 h2 hK2
        have hn : s2.nodes.toList = (resv s).nodes.toList ++ (ext1 ++ ext2) := by
          rw [hn2, hn1, List.append_assoc]
        exact fill_post hn ((Ext.trans hn1 he1 he2).weaken (fun _ h => h.elim)) h (topOK_unnamed rfl)
  | byteArray m =>
    simp only [appendSchema] at h
    refine push_post hi h ?_
    intro nm hnm n k0 hk
    cases n with
    | zero => simp [lk_zero] at hk
    | succ n =>
      simp only [lookupKey, Option.some.injEq] at hk
      subst hk
      simp only [nodeName, plain, tyName, Option.some.injEq] at hnm
      subst hnm
      exact ⟨.arr m, Named.arr m, rfl, rfl⟩
  | named id args =>
    rw [as_named] at h
    cases hP : P[id]? with
    | none => simp [hP] at h
    | some d =>
      simp only [hP] at h
      cases hb : d.body with
      | unitEnum vs =>
        simp only [hb] at h
        refine push_post hi h ?_
        intro nm hnm n k0 hk
        cases n with
        | zero => simp [lk_zero] at hk
        | succ n =>
          rw [lk_named] at hk
          simp only [hP, hb, Option.some.injEq] at hk
          subst hk
          simp only [nodeName, plain, tyName, Option.some.injEq] at hnm
          subst hnm
          exact ⟨_, Named.enum hP hb, rfl, rfl⟩
      | newtype f =>
        simp only [hb] at h
        by_cases hd : isDirect f .newtypeStruct = true
        · rw [if_pos hd] at h
          have hC' : Compat P hash K (subst args (chosenTy f)) A := fun n k0 o nm hk =>
            hC (n + 1) k0 o nm (by rw [lk_named]; simp only [hP, hb]; rw [if_pos hd]; exact hk)
          obtain ⟨top, rest, hn, he, htop⟩ := ihA _ s s' A hi hA hC' h hK
          refine ⟨top, rest, hn, he, ?_⟩
          intro nm hnm n k0 hk
          cases n with
          | zero => simp [lk_zero] at hk
          | succ n =>
            rw [lk_named] at hk
            simp only [hP, hb] at hk
            rw [if_pos hd] at hk
            exact htop nm hnm n k0 hk
        · rw [if_neg hd] at h
          have hd' : isDirect f .newtypeStruct = false := by simpa using hd
          cases h1 : fieldInst P hash fuel d args f .newtypeStruct "" s with
          | none => simp [h1] at h
          | some r1 =>
            obtain ⟨k1, s1⟩ := r1
            simp only [h1] at h
            by_cases hk1 : k1 = s.nodes.size
            · simp only [hk1, if_true, Option.some.injEq, Prod.mk.injEq, true_and] at h
              subst h
              have hfl : f ∈ d.body.lookupFields := by rw [hb]; exact List.mem_singleton.2 rfl
              have hcr : creates f .newtypeStruct := by
                cases hlog : f.attr.logical with
                | some l => exact .inl (by simp [hlog])
                | none =>
                  refine .inr ⟨rfl, ?_⟩
                  rw [chosenTy_plain hlog]
                  simp only [isDirect, hlog, Option.isNone_none, FieldKind.overridesFixedName,
                    Bool.true_and] at hd'
                  cases hp : peel f.ty with
                  | byteArray m => exact ⟨m, by simp⟩
                  | _ => simp [hp] at hd'
              rcases ihI id d args f _ _ s k1 s1 hi hP hfl h1 hK with ⟨hnc, _⟩ | ⟨_, _, top, rest, hn, he, ht⟩
              · exact absurd hcr hnc
              · refine ⟨top, rest, hn, he.weaken (fun _ h => h.elim), ?_⟩
                intro nm hnm n k0 hk
                have := ht nm hnm
                subst this
                have hnp := hW.newtype_mono id d f hP hb hd'
                rcases lk_named_shape P hk hP (fun f' hb' => by rw [hb] at hb'; cases hb'; exact hd')
                  with ⟨_, rfl⟩ | ⟨hne, _⟩
                · exact ⟨_, Named.newty hP hb hd', rfl, rfl⟩
                · exact absurd hnp hne
            · simp [hk1] at h
      | record fields =>
        simp only [hb] at h
        -- the runtime name and the key it comes from
        have hkey : (∃ k, KeyOf d id k ∧ (∃ n, lookupKey P n (.named id args) = some k) ∧
            (if d.nparams = 0 then some (typeName d)
              else (lookupKey P fuel (.named id args)).map fun k => typeName d ++ "_" ++ hash k) =
              some (recName d hash k)) ∨
            (if d.nparams = 0 then some (typeName d)
              else (lookupKey P fuel (.named id args)).map fun k => typeName d ++ "_" ++ hash k) = none := by
          by_cases hn : d.nparams = 0
          · refine .inl ⟨[.self id], .inl ⟨hn, rfl⟩, ⟨1, ?_⟩, by simp [hn, recName]⟩
            rw [lk_named]; simp [hP, hb, hn]
          · cases hlk : lookupKey P fuel (.named id args) with
            | none => exact .inr (by simp [hn])
            | some k =>
              refine .inl ⟨k, ?_, ⟨fuel, hlk⟩, by simp [hn, recName]⟩
              rcases lk_named_shape P hlk hP (fun f' hb' => by rw [hb] at hb'; cases hb')
                with ⟨h1 | ⟨vs, h1⟩, _⟩ | h2
              · exact absurd h1 hn
              · rw [hb] at h1; cases h1
              · exact .inr h2
        rcases hkey with ⟨k, hko, ⟨nk, hlk⟩, htn⟩ | htn
        · rw [htn] at h
          simp only at h
          cases h1 : recordFields P hash fuel d args (recName d hash k) fields (resv s) with
          | none => simp [h1] at h
          | some r1 =>
            obtain ⟨fs, s2⟩ := r1
            simp only [h1] at h
            have hal : ∀ f ∈ fields, f.attr.logical.isSome = true →
                Allowed P hash (resv s) (subNm d hash k f) := by
              intro f hf hlog
              exact (hA _ (hC nk k _ _ hlk (Named.sub hP hb hko hf hlog) rfl rfl).1).resv
            have hKk : ∀ f ∈ fields, f.attr.logical.isSome = true → K k := fun f hf hlog =>
              (hC nk k _ _ hlk (Named.sub hP hb hko hf hlog) rfl rfl).2
            obtain ⟨ext, hn, he⟩ := ihR id d fields args k fields (resv s) fs s2 hi.resv hP hb
              (fun _ h => h) (hW.fields_nodup id d fields hP hb) hko hal hKk h1 (hK_of_setNode h hK)
            refine fill_post hn (he.weaken ?_) h ?_
            · rintro nm ⟨f, hf, hlog, rfl⟩
              exact (hC nk k _ _ hlk (Named.sub hP hb hko hf hlog) rfl rfl).1
            · intro nm hnm n k0 hk
              have := lk_det P hk hlk
              subst this
              simp only [nodeName, plain, tyName, Option.some.injEq] at hnm
              subst hnm
              exact ⟨_, Named.record hP hb hko, rfl, rfl⟩
        · rw [htn] at h; cases h
      | union variants =>
        simp only [hb] at h
        cases h1 : unionVariants P hash fuel d args variants (resv s) with
        | none => simp [h1] at h
        | some r1 =>
          obtain ⟨ks, s2⟩ := r1
          simp only [h1] at h
          have hAv : ∀ v ∈ variants, ∀ f, v.field = some f → safeField f = false →
              A (varNm d v) ∧ K [.self id] := by
            intro v hv f hf hu
            have hnp : d.nparams = 0 := by
              refine Classical.byContradiction fun hn => ?_
              have := hW.union_generic_safe id d variants hP hb hn v hv f hf
              rw [hu] at this; cases this
            have hlk : lookupKey P 1 (.named id args) = some [.self id] := by
              rw [lk_named]; simp [hP, hb, hnp]
            exact hC 1 _ _ _ hlk (Named.var hP hb hnp hv hf hu) rfl rfl
          obtain ⟨ext, hn, he⟩ := ihU id d variants args variants (resv s) ks s2 hi.resv hP hb
            (fun _ h => h) (hW.variants_nodup id d variants hP hb)
            (fun v hv f hf hu => (hA _ (hAv v hv f hf hu).1).resv)
            (fun v hv f hf hu => (hAv v hv f hf hu).2) h1 (hK_of_setNode h hK)
          refine fill_post hn (he.weaken ?_) h (topOK_unnamed rfl)
          rintro nm ⟨v, hv, f, hf, hu, rfl⟩
          exact (hAv v hv f hf hu).1
  | _ =>
    simp only [appendSchema] at h
    exact push_post hi h (topOK_unnamed rfl)


/-- The five specifications hold for every fuel. -/
theorem all_specs (hW : StructWf P) (hI : NameInjOn P hash K) : ∀ fuel,
    AppendSpec P hash K fuel ∧ FBSpec P hash K fuel ∧ FISpec P hash K fuel ∧ RFSpec P hash K fuel ∧
      UVSpec P hash K fuel := by
  intro fuel
  induction fuel with
  | zero =>
    refine ⟨as_zero_spec, ?_, ?_, rf_zero_spec, uv_zero_spec⟩
    · intro t s idx s' _ h _; rw [fob_zero] at h; cases h
    · intro id d args f kind rtn s k s' _ _ _ h _; rw [fi_zero] at h; cases h
  | succ fuel ih =>
    obtain ⟨ihA, ihF, ihI, ihR, ihU⟩ := ih
    exact ⟨append_step hW ihA ihF ihI ihR ihU, fob_step hI ihA, fi_step hW ihA ihF,
      rf_step hI ihI ihR, uv_step hW hI ihF ihI ihU⟩

theorem inv_empty : Inv P hash {} := ⟨by simp [dn], by simp [dn]⟩

/-- The lookup keys the build of `root` registers (`already_built_types` of the final builder
    state), a finite computable list; `[]` if the build fails. -/
def builtKeys (P : Prog) (hash : Key → String) (fuel : Nat) (root : Ty) : List Key :=
  match findOrBuild P hash fuel root {} with
  | some (_, s) => s.built.map (·.1)
  | none => []

theorem mem_keys_of_lookup {α β} [BEq α] [LawfulBEq α] {k : α} : ∀ {l : List (α × β)},
    (l.lookup k).isSome = true → k ∈ l.map (·.1)
  | [], h => by simp at h
  | (a, b) :: l, h => by
    simp only [List.lookup_cons] at h
    cases hb : k == a with
    | true =>
      have : k = a := by simpa using hb
      simp [this]
    | false =>
      simp only [hb] at h
      exact List.mem_cons_of_mem _ (mem_keys_of_lookup h)

/-- Core statement: structural well-formedness + a name assignment injective on the origins owned
    by the keys the build registers ⟹ one definition per fullname. -/
theorem definedNames_nodup_on (hW : StructWf P) {fuel : Nat} {root : Ty}
    (hI : NameInjOn P hash (fun k => k ∈ builtKeys P hash fuel root))
    {S : SchemaMut} (h : schemaMut P hash fuel root = some S) : (definedNames S).Nodup := by
  unfold schemaMut at h
  cases h1 : findOrBuild P hash fuel root {} with
  | none => simp [h1] at h
  | some r =>
    obtain ⟨idx, s'⟩ := r
    simp only [h1, Option.map_some, Option.some.injEq] at h
    subst h
    have hK : ∀ k, Reg s' k → k ∈ builtKeys P hash fuel root := by
      intro k hk
      simp only [builtKeys, h1]
      exact mem_keys_of_lookup hk
    obtain ⟨ext, hn, he⟩ := (all_specs hW hI fuel).2.1 root {} idx s' inv_empty h1 hK
    exact (he.inv inv_empty hn (fun _ h => h.elim)).nodup

/-- The same from injectivity on all origins (unmeetable by a hash with finitely many values as
    soon as the program has a generic record; kept for reference). -/
theorem definedNames_nodup (hW : StructWf P) (hI : NameInj P hash) {fuel : Nat} {root : Ty}
    {S : SchemaMut} (h : schemaMut P hash fuel root = some S) : (definedNames S).Nodup :=
  definedNames_nodup_on hW (hI.on _) h


/-! ### From conditions on the program text to injectivity of the name assignment -/

/-- Non-empty and not starting with `'.'`. -/
def okStart (s : String) : Bool :=
  match s.toList with
  | c :: _ => c != '.'
  | [] => false

theorem rfindDot_go_zero (cs : List Char) (i : Nat) (acc : Option Nat)
    (h : rfindDot.go cs i acc = some 0) : acc = some 0 ∨ (i = 0 ∧ cs.head? = some '.') := by
  induction cs generalizing i acc with
  | nil => exact .inl (by simpa [rfindDot.go] using h)
  | cons c rest ih =>
    simp only [rfindDot.go] at h
    rcases ih _ _ h with h1 | ⟨h1, _⟩
    · by_cases hc : c = '.'
      · simp only [hc, if_true, Option.some.injEq] at h1
        exact .inr ⟨h1, by simp [hc]⟩
      · simp only [hc, if_false] at h1
        exact .inl h1
    · omega

theorem fqOf_eq {s : String} (h : okStart s = true) : fqOf s = s := by
  have hne : rfindDot s.toList ≠ some 0 := by
    intro h0
    rcases rfindDot_go_zero _ _ _ h0 with h1 | ⟨_, h1⟩
    · cases h1
    · unfold okStart at h
      cases hs : s.toList with
      | nil => simp [hs] at h1
      | cons c r => simp [hs] at h h1; exact h h1
  unfold fqOf Name.ofFq
  simp only
  split
  · rfl
  · rename_i h0; exact absurd h0 hne
  · rfl

theorem okStart_append {a : String} (b : String) (h : okStart a = true) : okStart (a ++ b) = true := by
  unfold okStart at h ⊢
  rw [String.toList_append]
  cases ha : a.toList with
  | nil => simp [ha] at h
  | cons c r => simpa [ha] using h

theorem prefix_snoc {α} {l m as : List α} {c : α} (h : l ++ [c] = m ++ as) : as = [] ∨ m <+: l := by
  rcases List.eq_nil_or_concat as with rfl | ⟨as', b, rfl⟩
  · exact .inl rfl
  · right
    rw [List.concat_eq_append, ← List.append_assoc] at h
    exact ⟨as', (List.append_inj' h rfl).1.symm⟩

theorem split_first {α} {c : α} : ∀ {a b x y : List α}, c ∉ a → c ∉ b → a ++ c :: x = b ++ c :: y →
    a = b ∧ x = y
  | [], [], _, _, _, _, h => ⟨rfl, by simpa using h⟩
  | [], d :: b, _, _, _, hb, h => by
    simp only [List.nil_append, List.cons_append, List.cons.injEq] at h
    exact absurd (h.1 ▸ List.mem_cons_self ..) hb
  | d :: a, [], _, _, ha, _, h => by
    simp only [List.nil_append, List.cons_append, List.cons.injEq] at h
    exact absurd (h.1 ▸ List.mem_cons_self ..) ha
  | d :: a, e :: b, _, _, ha, hb, h => by
    simp only [List.cons_append, List.cons.injEq] at h
    obtain ⟨rfl, h⟩ := h
    have := split_first (fun hm => ha (List.mem_cons_of_mem _ hm))
      (fun hm => hb (List.mem_cons_of_mem _ hm)) h
    exact ⟨by rw [this.1], this.2⟩

theorem repr_inj {n m : Nat} (h : Nat.toDigits 10 n = Nat.toDigits 10 m) : n = m := by
  have := congrArg (fun l => Nat.ofDigitChars 10 l 0) h
  simpa using this

/-- The names a declaration contributes that do not depend on a generic hash. -/
def staticNames (d : Decl) : List String :=
  match d.body with
  | .record fs =>
    typeName d ::
      (if d.nparams = 0 then
        (fs.filter (·.attr.logical.isSome)).map fun f => typeName d ++ "." ++ f.name
      else [])
  | .unitEnum _ => [typeName d]
  | .newtype f => if isDirect f .newtypeStruct then [] else [ownedName d .newtypeStruct ""]
  | .union vs =>
    (vs.filter fun v => match v.field with | some f => !safeField f | none => false).map fun v =>
      ownedName d (.newtypeVariant v.ident) ""

def isGenericRecord (d : Decl) : Bool :=
  (match d.body with | .record _ => true | _ => false) && d.nparams != 0

/-- Conditions on the declared names (all decidable, about the program text) and on `hash`. -/
structure TextWf (P : Prog) (hash : Key → String) : Prop where
  start_ok : ∀ (id : Nat) (d : Decl), P[id]? = some d → ∀ x ∈ staticNames d, okStart x = true
  distinct : ∀ (id : Nat) (d : Decl), P[id]? = some d → ∀ (id' : Nat) (d' : Decl), P[id']? = some d' →
    id ≠ id' → ∀ x ∈ staticNames d, x ∉ staticNames d'
  no_u8_array : ∀ (id : Nat) (d : Decl), P[id]? = some d → ∀ x ∈ staticNames d,
    ¬ "u8_array_".toList <+: x.toList
  generic_prefix_free : ∀ (id : Nat) (d : Decl), P[id]? = some d → isGenericRecord d = true →
    (∀ (id' : Nat) (d' : Decl), P[id']? = some d' → ∀ x ∈ staticNames d',
      ¬ (typeName d ++ "_").toList <+: x.toList) ∧
    ¬ (typeName d ++ "_").toList <+: "u8_array_".toList
  hash_inj : ∀ k k', hash k = hash k' → k = k'
  hash_nodot : ∀ k, '.' ∉ (hash k).toList

/-- `k` is the lookup key of (an instantiation of) a generic record of `P`: the keys whose hash
    enters a name (`recName`). -/
def isGenericKey (P : Prog) (k : Key) : Bool :=
  match keyId k with
  | some id =>
    match P[id]? with
    | some d => isGenericRecord d
    | none => false
  | none => false

/-- The keys of generic records among the keys the build of `root` registers. -/
def genericRecordKeys (P : Prog) (hash : Key → String) (fuel : Nat) (root : Ty) : List Key :=
  (builtKeys P hash fuel root).filter (isGenericKey P)

/-- `TextWf` with the two conditions on `hash` restricted to a list of keys: every field is a
    decidable statement for a concrete program, hash and list. -/
structure TextWfOn (P : Prog) (hash : Key → String) (Ks : List Key) : Prop where
  start_ok : ∀ (id : Nat) (d : Decl), P[id]? = some d → ∀ x ∈ staticNames d, okStart x = true
  distinct : ∀ (id : Nat) (d : Decl), P[id]? = some d → ∀ (id' : Nat) (d' : Decl), P[id']? = some d' →
    id ≠ id' → ∀ x ∈ staticNames d, x ∉ staticNames d'
  no_u8_array : ∀ (id : Nat) (d : Decl), P[id]? = some d → ∀ x ∈ staticNames d,
    ¬ "u8_array_".toList <+: x.toList
  generic_prefix_free : ∀ (id : Nat) (d : Decl), P[id]? = some d → isGenericRecord d = true →
    (∀ (id' : Nat) (d' : Decl), P[id']? = some d' → ∀ x ∈ staticNames d',
      ¬ (typeName d ++ "_").toList <+: x.toList) ∧
    ¬ (typeName d ++ "_").toList <+: "u8_array_".toList
  hash_inj : ∀ k ∈ Ks, ∀ k' ∈ Ks, hash k = hash k' → k = k'
  hash_nodot : ∀ k ∈ Ks, '.' ∉ (hash k).toList

theorem TextWf.on {P : Prog} {hash : Key → String} (h : TextWf P hash) (Ks : List Key) :
    TextWfOn P hash Ks :=
  ⟨h.start_ok, h.distinct, h.no_u8_array, h.generic_prefix_free,
    fun k _ k' _ => h.hash_inj k k', fun k _ => h.hash_nodot k⟩

theorem TextWfOn.mono {P : Prog} {hash : Key → String} {Ks Ks' : List Key} (h : TextWfOn P hash Ks)
    (hs : ∀ k ∈ Ks', k ∈ Ks) : TextWfOn P hash Ks' :=
  ⟨h.start_ok, h.distinct, h.no_u8_array, h.generic_prefix_free,
    fun k hk k' hk' => h.hash_inj k (hs k hk) k' (hs k' hk'), fun k hk => h.hash_nodot k (hs k hk)⟩

/-- Classification of an origin's raw name. -/
inductive Cls (P : Prog) (hash : Key → String) : Origin → String → Prop
  | arr (n : Nat) : Cls P hash (.arr n) ("u8_array_" ++ toString n)
  | stat {id d o x} : P[id]? = some d → x ∈ staticNames d →
      ((∃ vs, d.body = .unitEnum vs ∧ o = .top [.self id] ∧ x = typeName d) ∨
       (∃ fs, d.body = .record fs ∧ o = .top [.self id] ∧ x = typeName d) ∨
       (∃ fs f, d.body = .record fs ∧ o = .sub [.self id] f ∧ x = typeName d ++ "." ++ f) ∨
       (∃ f, d.body = .newtype f ∧ o = .newty id ∧ x = ownedName d .newtypeStruct "") ∨
       (∃ vs v, d.body = .union vs ∧ o = .var id v ∧ x = ownedName d (.newtypeVariant v) "")) →
      Cls P hash o x
  | gen {id d o x k} : P[id]? = some d → isGenericRecord d = true → keyId k = some id →
      ((o = .top k ∧ x = typeName d ++ "_" ++ hash k) ∨
       (∃ f, o = .sub k f ∧ x = typeName d ++ "_" ++ hash k ++ "." ++ f)) →
      Cls P hash o x

variable {P : Prog} {hash : Key → String} {Ks : List Key}

theorem isGenericRecord_of {d : Decl} {fs : List Field} (hb : d.body = .record fs) (hn : d.nparams ≠ 0) :
    isGenericRecord d = true := by
  simp [isGenericRecord, hb, hn]

theorem typeName_static_of_generic {d : Decl} (h : isGenericRecord d = true) :
    typeName d ∈ staticNames d := by
  unfold isGenericRecord at h
  unfold staticNames
  cases hb : d.body <;> simp [hb] at h ⊢

theorem named_cls {o : Origin} {nm : String} (h : Named P hash o nm) :
    ∃ x, nm = fqOf x ∧ Cls P hash o x := by
  cases h with
  | arr n => exact ⟨_, rfl, .arr n⟩
  | @enum id d vs hP hb =>
    exact ⟨_, rfl, .stat hP (by simp [staticNames, hb]) (.inl ⟨vs, hb, rfl, rfl⟩)⟩
  | @record id d fs k hP hb hko =>
    rcases hko with ⟨hn, rfl⟩ | ⟨hn, m, r, rfl⟩
    · refine ⟨_, rfl, .stat hP (x := recName d hash [.self id]) ?_ (.inr (.inl ⟨fs, hb, rfl, ?_⟩))⟩
      · simp [staticNames, hb, recName, hn]
      · simp [recName, hn]
    · exact ⟨_, rfl, .gen hP (isGenericRecord_of hb hn) rfl (.inl ⟨rfl, by simp [recName, hn]⟩)⟩
  | @newty id d f hP hb hd =>
    exact ⟨_, rfl, .stat hP (by simp [staticNames, hb, hd]) (.inr (.inr (.inr (.inl ⟨f, hb, rfl, rfl⟩))))⟩
  | @sub id d fs k f hP hb hko hf hl =>
    rcases hko with ⟨hn, rfl⟩ | ⟨hn, m, r, rfl⟩
    · refine ⟨_, rfl, .stat hP (x := recName d hash [.self id] ++ "." ++ f.name) ?_
        (.inr (.inr (.inl ⟨fs, f.name, hb, rfl, ?_⟩)))⟩
      · simp only [staticNames, hb, hn, if_true, recName, List.mem_cons, List.mem_map, List.mem_filter]
        exact .inr ⟨f, ⟨hf, hl⟩, rfl⟩
      · simp [recName, hn]
    · exact ⟨_, rfl, .gen hP (isGenericRecord_of hb hn) rfl (.inr ⟨f.name, rfl, by simp [recName, hn]⟩)⟩
  | @var id d vs v f hP hb hn hv hf hu =>
    refine ⟨_, rfl, .stat hP ?_ (.inr (.inr (.inr (.inr ⟨vs, v.ident, hb, rfl, rfl⟩))))⟩
    simp only [staticNames, hb, List.mem_map, List.mem_filter]
    exact ⟨v, ⟨hv, by simp [hf, hu]⟩, rfl⟩

theorem cls_okStart (hT : TextWfOn P hash Ks) {o : Origin} {x : String} (h : Cls P hash o x) :
    okStart x = true := by
  cases h with
  | arr n => exact okStart_append _ (by decide)
  | stat hP hx _ => exact hT.start_ok _ _ hP _ hx
  | gen hP hg _ hx =>
    have h0 := hT.start_ok _ _ hP _ (typeName_static_of_generic hg)
    rcases hx with ⟨_, rfl⟩ | ⟨f, _, rfl⟩
    · exact okStart_append _ (okStart_append _ h0)
    · exact okStart_append _ (okStart_append _ (okStart_append _ (okStart_append _ h0)))

variable {P : Prog} {hash : Key → String} {Ks : List Key}

theorem str_append_left_cancel {a b c : String} (h : a ++ b = a ++ c) : b = c := by
  have := congrArg String.toList h
  simp only [String.toList_append] at this
  exact String.toList_inj.1 (List.append_cancel_left this)

theorem str_ne_append_dot {a f : String} : a ≠ a ++ "." ++ f := by
  intro h
  have := congrArg (fun s => s.toList.length) h
  simp at this

theorem ownedName_variant (d : Decl) : ∃ pre : String, ∀ v,
    ownedName d (.newtypeVariant v) "" = pre ++ v := by
  unfold ownedName
  cases d.ns with
  | none => exact ⟨d.modulePath ++ "." ++ d.ident ++ ".", fun v => by simp [String.append_assoc]⟩
  | some ns => exact ⟨(if ns = "" then "" else ns ++ ".") ++ d.ident ++ ".", fun v => by simp [String.append_assoc]⟩

theorem gen_vs_stat (hT : TextWfOn P hash Ks) {id id' : Nat} {d d' : Decl} (hP : P[id]? = some d)
    (hg : isGenericRecord d = true) (hP' : P[id']? = some d') {x b : String} (hx : x ∈ staticNames d')
    (h : x = typeName d ++ ("_" ++ b)) : False := by
  rw [← String.append_assoc] at h
  refine (hT.generic_prefix_free id d hP hg).1 id' d' hP' x hx ⟨b.toList, ?_⟩
  rw [h]; simp [String.toList_append]

theorem gen_vs_arr (hT : TextWfOn P hash Ks) {id : Nat} {d : Decl} (hP : P[id]? = some d)
    (hg : isGenericRecord d = true) {a b : String} (h : "u8_array_" ++ a = typeName d ++ ("_" ++ b)) :
    False := by
  rw [← String.append_assoc] at h
  have hl := congrArg String.toList h
  simp only [String.toList_append] at hl
  rcases List.append_eq_append_iff.1 hl with ⟨as, h1, _⟩ | ⟨bs, h1, _⟩
  · -- `typeName d ++ "_" = "u8_array_" ++ as`
    have h1' : (typeName d).toList ++ ['_'] = "u8_array_".toList ++ as := by simpa using h1
    rcases prefix_snoc h1' with rfl | hp
    · refine (hT.generic_prefix_free id d hP hg).2 ⟨[], ?_⟩
      simp only [String.toList_append, List.append_nil]; exact h1
    · exact hT.no_u8_array id d hP _ (typeName_static_of_generic hg) hp
  · exact (hT.generic_prefix_free id d hP hg).2 ⟨bs, by simp only [String.toList_append]; exact h1.symm⟩

theorem gen_vs_gen (hT : TextWfOn P hash Ks) {id id' : Nat} {d d' : Decl} (hP : P[id]? = some d)
    (hg : isGenericRecord d = true) (hP' : P[id']? = some d') (hg' : isGenericRecord d' = true)
    (hne : id ≠ id') {b b' : String} (h : typeName d ++ ("_" ++ b) = typeName d' ++ ("_" ++ b')) : False := by
  rw [← String.append_assoc, ← String.append_assoc] at h
  have hl := congrArg String.toList h
  simp only [String.toList_append] at hl
  have key : ∀ {id id' : Nat} {d d' : Decl}, P[id]? = some d → isGenericRecord d = true →
      P[id']? = some d' → isGenericRecord d' = true → id ≠ id' → ∀ as,
      (typeName d').toList ++ "_".toList = (typeName d).toList ++ "_".toList ++ as → False := by
    intro id id' d d' hP hg hP' hg' hne as h1
    have h1' : (typeName d').toList ++ ['_'] = ((typeName d).toList ++ ['_']) ++ as := by simpa using h1
    rcases prefix_snoc h1' with rfl | hp
    · have : typeName d' = typeName d := by
        apply String.toList_inj.1
        simpa using h1'
      exact hT.distinct id d hP id' d' hP' hne _ (typeName_static_of_generic hg)
        (this ▸ typeName_static_of_generic hg')
    · refine (hT.generic_prefix_free id d hP hg).1 id' d' hP' _ (typeName_static_of_generic hg') ?_
      simpa [String.toList_append] using hp
  rcases List.append_eq_append_iff.1 hl with ⟨as, h1, _⟩ | ⟨bs, h1, _⟩
  · exact key hP hg hP' hg' hne as h1
  · exact key hP' hg' hP hg (Ne.symm hne) bs h1

theorem cls_inj (hT : TextWfOn P hash Ks) {o o' : Origin} {x x' : String} (h : Cls P hash o x)
    (h' : Cls P hash o' x') (hx : x = x')
    (hKo : isGenericKey P o.owner = true → o.owner ∈ Ks)
    (hKo' : isGenericKey P o'.owner = true → o'.owner ∈ Ks) : o = o' := by
  cases h with
  | arr n =>
    cases h' with
    | arr m =>
      have hl := congrArg String.toList hx
      simp only [String.toList_append, Nat.toString_eq_repr, Nat.toList_repr] at hl
      rw [repr_inj (List.append_cancel_left hl)]
    | stat hP' hx' _ =>
      exact absurd ⟨_, by rw [← hx, String.toList_append]⟩ (hT.no_u8_array _ _ hP' _ hx')
    | gen hP' hg' _ hc' =>
      rcases hc' with ⟨_, rfl⟩ | ⟨f, _, rfl⟩ <;>
      · simp only [String.append_assoc] at hx
        exact (gen_vs_arr hT hP' hg' hx).elim
  | @stat id d _ _ hP hxs hc =>
    cases h' with
    | arr m =>
      exact absurd ⟨_, by rw [hx, String.toList_append]⟩ (hT.no_u8_array _ _ hP _ hxs)
    | @stat id' d' _ _ hP' hxs' hc' =>
      by_cases hid : id = id'
      · subst hid
        rw [hP] at hP'
        cases hP'
        subst hx
        obtain ⟨pre, hpre⟩ := ownedName_variant d
        rcases hc with ⟨vs, hb, ho, he⟩ | ⟨fs, hb, ho, he⟩ | ⟨fs, f, hb, ho, he⟩ | ⟨f, hb, ho, he⟩ |
            ⟨vs, v, hb, ho, he⟩ <;>
          rcases hc' with ⟨vs', hb', ho', he'⟩ | ⟨fs', hb', ho', he'⟩ | ⟨fs', f', hb', ho', he'⟩ |
            ⟨f', hb', ho', he'⟩ | ⟨vs', v', hb', ho', he'⟩ <;>
          first
            | (rw [hb] at hb'; cases hb'; done)
            | (rw [ho, ho']; done)
            | (rw [he] at he'; exact absurd he' str_ne_append_dot)
            | (rw [he'] at he; exact absurd he str_ne_append_dot)
            | (rw [he] at he'; rw [ho, ho', str_append_left_cancel he'])
            | (rw [he, hpre, hpre] at he'; rw [ho, ho', str_append_left_cancel he'])
      · subst hx
        exact absurd hxs' (hT.distinct id d hP id' d' hP' hid _ hxs)
    | gen hP' hg' _ hc' =>
      rcases hc' with ⟨_, rfl⟩ | ⟨f, _, rfl⟩ <;>
      · simp only [String.append_assoc] at hx
        exact (gen_vs_stat hT hP' hg' hP hxs hx).elim
  | @gen id d _ _ k hP hg hk hc =>
    cases h' with
    | arr m =>
      rcases hc with ⟨_, rfl⟩ | ⟨f, _, rfl⟩ <;>
      · simp only [String.append_assoc] at hx
        exact (gen_vs_arr hT hP hg hx.symm).elim
    | stat hP' hxs' _ =>
      rcases hc with ⟨_, rfl⟩ | ⟨f, _, rfl⟩ <;>
      · simp only [String.append_assoc] at hx
        exact (gen_vs_stat hT hP hg hP' hxs' hx.symm).elim
    | @gen id' d' _ _ k' hP' hg' hk' hc' =>
      by_cases hid : id = id'
      · subst hid
        rw [hP] at hP'
        cases hP'
        have hgk : isGenericKey P k = true := by simp [isGenericKey, hk, hP, hg]
        have hgk' : isGenericKey P k' = true := by simp [isGenericKey, hk', hP, hg]
        have hmem : k ∈ Ks := by
          rcases hc with ⟨rfl, _⟩ | ⟨f, rfl, _⟩ <;> exact hKo hgk
        have hmem' : k' ∈ Ks := by
          rcases hc' with ⟨rfl, _⟩ | ⟨f, rfl, _⟩ <;> exact hKo' hgk'
        have hnd := hT.hash_nodot k hmem
        have hnd' := hT.hash_nodot k' hmem'
        rcases hc with ⟨rfl, rfl⟩ | ⟨f, rfl, rfl⟩ <;> rcases hc' with ⟨rfl, rfl⟩ | ⟨f', rfl, rfl⟩ <;>
          simp only [String.append_assoc] at hx <;>
          have h1 := str_append_left_cancel (str_append_left_cancel hx)
        · rw [hT.hash_inj _ hmem _ hmem' h1]
        · rw [h1] at hnd
          simp [String.toList_append] at hnd
        · rw [← h1] at hnd'
          simp [String.toList_append] at hnd'
        · have := congrArg String.toList h1
          simp only [String.toList_append] at this
          have h2 : (hash k).toList ++ '.' :: f.toList = (hash k').toList ++ '.' :: f'.toList := by
            simpa using this
          obtain ⟨h3, h4⟩ := split_first hnd hnd' h2
          rw [hT.hash_inj _ hmem _ hmem' (String.toList_inj.1 h3), String.toList_inj.1 h4]
      · exfalso
        have e1 : ∃ b, x = typeName d ++ ("_" ++ b) := by
          rcases hc with ⟨_, rfl⟩ | ⟨f, _, rfl⟩
          · exact ⟨hash k, by simp [String.append_assoc]⟩
          · exact ⟨hash k ++ ("." ++ f), by simp [String.append_assoc]⟩
        have e2 : ∃ b, x' = typeName d' ++ ("_" ++ b) := by
          rcases hc' with ⟨_, rfl⟩ | ⟨f, _, rfl⟩
          · exact ⟨hash k', by simp [String.append_assoc]⟩
          · exact ⟨hash k' ++ ("." ++ f), by simp [String.append_assoc]⟩
        obtain ⟨b, rfl⟩ := e1
        obtain ⟨b', rfl⟩ := e2
        exact gen_vs_gen hT hP hg hP' hg' hid hx

/-- The conditions on the program text, with `hash` injective and dot-free on a list `Ks` of keys,
    make the name assignment injective on the origins owned by keys in `K`, provided `Ks` contains
    the generic-record keys of `K` (the only keys whose hash enters a name). -/
theorem nameInjOn_of_textWfOn {K : Key → Prop} (hT : TextWfOn P hash Ks)
    (hKs : ∀ k, K k → isGenericKey P k = true → k ∈ Ks) : NameInjOn P hash K := by
  intro o o' nm h h' hk hk'
  obtain ⟨x, rfl, hc⟩ := named_cls h
  obtain ⟨x', hx', hc'⟩ := named_cls h'
  rw [fqOf_eq (cls_okStart hT hc), fqOf_eq (cls_okStart hT hc')] at hx'
  exact cls_inj hT hc hc' hx' (hKs _ hk) (hKs _ hk')

/-- The conditions on the program text make the name assignment injective (global form:
    `TextWf.hash_inj` is about all keys). -/
theorem nameInj_of_textWf (hT : TextWf P hash) : NameInj P hash := by
  intro o o' nm h h'
  exact nameInjOn_of_textWfOn (K := fun k => k ∈ [o.owner, o'.owner]) (hT.on [o.owner, o'.owner])
    (fun _ hk _ => hk) o o' nm h h' (by simp) (by simp)


/-! ### Lookup keys of built-in types: injective up to the crate's forwarding -/

/-- Built-in types up to what the crate's `BuildSchema` implementations identify: pointers are
    transparent, `i8/i16/u16 → i32`, `u32/u64/usize → i64`, `&str → String`, `&[u8] → Vec<u8>`,
    `BTreeMap → HashMap`. -/
inductive CTy
  | unit | bool | int | long | float | double | string | bytes
  | byteArray (n : Nat)
  | vec (t : CTy) | option (t : CTy) | map (t : CTy)
  deriving DecidableEq, Repr

/-- Canonical form of a closed built-in type (`none` if it mentions a declared type or a parameter). -/
def canon : Ty → Option CTy
  | .unit => some .unit | .bool => some .bool
  | .i8 | .i16 | .i32 | .u16 => some .int
  | .i64 | .u32 | .u64 | .usize => some .long
  | .f32 => some .float | .f64 => some .double
  | .string | .str => some .string
  | .byteVec | .byteSlice => some .bytes
  | .byteArray n => some (.byteArray n)
  | .vec t => (canon t).map .vec
  | .option t => (canon t).map .option
  | .hashMap t | .btreeMap t => (canon t).map .map
  | .ptr t => canon t
  | .named _ _ => none
  | .param _ => none

def ckey : CTy → Key
  | .unit => [.unit] | .bool => [.bool] | .int => [.int] | .long => [.long]
  | .float => [.float] | .double => [.double] | .string => [.string] | .bytes => [.bytes]
  | .byteArray n => [.byteArray n]
  | .vec t => .vec :: ckey t
  | .option t => .option :: ckey t
  | .map t => .map :: ckey t

theorem ckey_inj : ∀ {c c' : CTy}, ckey c = ckey c' → c = c' := by
  intro c
  induction c with
  | vec t ih => intro c' h; cases c' <;> simp [ckey] at h; rw [ih h]
  | option t ih => intro c' h; cases c' <;> simp [ckey] at h; rw [ih h]
  | map t ih => intro c' h; cases c' <;> simp [ckey] at h; rw [ih h]
  | byteArray n => intro c' h; cases c' <;> simp [ckey] at h; rw [h]
  | _ => intro c' h; cases c' <;> simp [ckey] at h <;> rfl

theorem lookupKey_canon (P : Prog) : ∀ (n : Nat) (t : Ty) (k : Key) (c : CTy),
    lookupKey P n t = some k → canon t = some c → k = ckey c := by
  intro n
  induction n with
  | zero => intro t k c h; simp [lk_zero] at h
  | succ n ih =>
    intro t k c h hc
    cases t with
    | vec t =>
      rw [lk_vec, Option.map_eq_some_iff] at h
      simp only [canon, Option.map_eq_some_iff] at hc
      obtain ⟨a, ha, rfl⟩ := h
      obtain ⟨b, hb, rfl⟩ := hc
      rw [ih t a b ha hb]; rfl
    | option t =>
      rw [lk_option, Option.map_eq_some_iff] at h
      simp only [canon, Option.map_eq_some_iff] at hc
      obtain ⟨a, ha, rfl⟩ := h
      obtain ⟨b, hb, rfl⟩ := hc
      rw [ih t a b ha hb]; rfl
    | hashMap t =>
      rw [lk_hashMap, Option.map_eq_some_iff] at h
      simp only [canon, Option.map_eq_some_iff] at hc
      obtain ⟨a, ha, rfl⟩ := h
      obtain ⟨b, hb, rfl⟩ := hc
      rw [ih t a b ha hb]; rfl
    | btreeMap t =>
      rw [lk_btreeMap, Option.map_eq_some_iff] at h
      simp only [canon, Option.map_eq_some_iff] at hc
      obtain ⟨a, ha, rfl⟩ := h
      obtain ⟨b, hb, rfl⟩ := hc
      rw [ih t a b ha hb]; rfl
    | ptr t =>
      rw [lk_ptr] at h
      exact ih t k c h (by simpa [canon] using hc)
    | named id args => simp [canon] at hc
    | param i => simp [canon] at hc
    | _ =>
      simp only [lookupKey, Option.some.injEq] at h
      simp only [canon, Option.some.injEq] at hc
      subst h; subst hc; rfl

/-- A closed built-in type has a lookup key, given fuel above its depth. -/
theorem lookupKey_canon_some (P : Prog) : ∀ (t : Ty) (c : CTy), canon t = some c →
    ∃ n, lookupKey P n t = some (ckey c)
  | .vec t, c, hc => by
    simp only [canon, Option.map_eq_some_iff] at hc
    obtain ⟨b, hb, rfl⟩ := hc
    obtain ⟨n, hn⟩ := lookupKey_canon_some P t b hb
    exact ⟨n + 1, by rw [lk_vec, hn]; rfl⟩
  | .option t, c, hc => by
    simp only [canon, Option.map_eq_some_iff] at hc
    obtain ⟨b, hb, rfl⟩ := hc
    obtain ⟨n, hn⟩ := lookupKey_canon_some P t b hb
    exact ⟨n + 1, by rw [lk_option, hn]; rfl⟩
  | .hashMap t, c, hc => by
    simp only [canon, Option.map_eq_some_iff] at hc
    obtain ⟨b, hb, rfl⟩ := hc
    obtain ⟨n, hn⟩ := lookupKey_canon_some P t b hb
    exact ⟨n + 1, by rw [lk_hashMap, hn]; rfl⟩
  | .btreeMap t, c, hc => by
    simp only [canon, Option.map_eq_some_iff] at hc
    obtain ⟨b, hb, rfl⟩ := hc
    obtain ⟨n, hn⟩ := lookupKey_canon_some P t b hb
    exact ⟨n + 1, by rw [lk_btreeMap, hn]; rfl⟩
  | .ptr t, c, hc => by
    obtain ⟨n, hn⟩ := lookupKey_canon_some P t c (by simpa [canon] using hc)
    exact ⟨n + 1, by rw [lk_ptr, hn]⟩
  | .named id args, c, hc => by simp [canon] at hc
  | .param i, c, hc => by simp [canon] at hc
  | .unit, c, hc | .bool, c, hc | .i8, c, hc | .i16, c, hc | .i32, c, hc | .i64, c, hc
  | .u16, c, hc | .u32, c, hc | .u64, c, hc | .usize, c, hc | .f32, c, hc | .f64, c, hc
  | .string, c, hc | .str, c, hc | .byteVec, c, hc | .byteSlice, c, hc | .byteArray _, c, hc => by
    simp only [canon, Option.some.injEq] at hc
    subst hc
    exact ⟨1, by simp [lookupKey, ckey]⟩


/-! ### An injective, dot-free `hash` (for non-vacuity; the crate uses SipHash of the `TypeId`) -/

def encTok : KTok → List Char
  | .unit => ['a'] | .bool => ['b'] | .int => ['c'] | .long => ['d'] | .float => ['e']
  | .double => ['f'] | .string => ['g'] | .bytes => ['h'] | .vec => ['i'] | .option => ['j']
  | .map => ['k']
  | .byteArray n => 'l' :: (List.replicate n 'x' ++ ['y'])
  | .self id => 'm' :: (List.replicate id 'x' ++ ['y'])
  | .generic id nf => 'n' :: (List.replicate id 'x' ++ 'y' :: (List.replicate nf 'x' ++ ['y']))

def hashDemo (k : Key) : String := String.ofList (k.flatMap encTok)

theorem rep_split {n m : Nat} {r r' : List Char}
    (h : List.replicate n 'x' ++ 'y' :: r = List.replicate m 'x' ++ 'y' :: r') : n = m ∧ r = r' := by
  have hy : ∀ n, 'y' ∉ List.replicate n 'x' := by
    intro n hm; have := List.eq_of_mem_replicate hm; cases this
  obtain ⟨h1, h2⟩ := split_first (hy n) (hy m) h
  have := congrArg List.length h1
  simp at this
  exact ⟨this, h2⟩

theorem encTok_prefix {t t' : KTok} {r r' : List Char} (h : encTok t ++ r = encTok t' ++ r') :
    t = t' ∧ r = r' := by
  cases t <;> cases t' <;>
    simp only [encTok, List.cons_append, List.nil_append, List.cons.injEq, List.append_assoc,
      Char.reduceEq, false_and, true_and] at h <;>
    first
      | exact h.elim
      | exact ⟨rfl, h⟩
      | (obtain ⟨h1, h2⟩ := rep_split h; subst h1; exact ⟨rfl, h2⟩)
      | (obtain ⟨h1, h2⟩ := rep_split h; obtain ⟨h3, h4⟩ := rep_split h2; subst h1; subst h3; exact ⟨rfl, h4⟩)

theorem flatMap_encTok_inj : ∀ {k k' : Key}, k.flatMap encTok = k'.flatMap encTok → k = k'
  | [], [], _ => rfl
  | [], t :: k', h => by cases t <;> simp [encTok] at h
  | t :: k, [], h => by cases t <;> simp [encTok] at h
  | t :: k, t' :: k', h => by
    simp only [List.flatMap_cons] at h
    obtain ⟨rfl, h2⟩ := encTok_prefix h
    rw [flatMap_encTok_inj h2]

theorem hashDemo_inj (k k' : Key) (h : hashDemo k = hashDemo k') : k = k' := by
  unfold hashDemo at h
  have := congrArg String.toList h
  simp only [String.toList_ofList] at this
  exact flatMap_encTok_inj this

theorem hashDemo_nodot (k : Key) : '.' ∉ (hashDemo k).toList := by
  unfold hashDemo
  simp only [String.toList_ofList, List.mem_flatMap, not_exists, not_and]
  intro t _ hm
  cases t <;> simp [encTok] at hm
  all_goals
    rcases hm with hm | hm
    · have := List.eq_of_mem_replicate hm.2; cases this
    · try (rcases hm with hm | hm; · have := List.eq_of_mem_replicate hm.2; cases this)
      try cases hm


/-! ### Lookup keys form a prefix code -/

/-- Consume `m` lookup keys from the front of a token list. -/
def skipN : Nat → Key → Option Key
  | 0, ts => some ts
  | _ + 1, [] => none
  | m + 1, tok :: rest =>
    match tok with
    | .vec | .option | .map => skipN (m + 1) rest
    | .generic _ nf => skipN (m + nf) rest
    | _ => skipN m rest

theorem skipN_key (P : Prog) : ∀ n,
    (∀ t k, lookupKey P n t = some k → ∀ m r, skipN (m + 1) (k ++ r) = skipN m r) ∧
    (∀ ts k, lookupKeys P n ts = some k → ∀ m r, skipN (m + ts.length) (k ++ r) = skipN m r) := by
  intro n
  induction n with
  | zero =>
    refine ⟨fun t k h => by simp [lk_zero] at h, fun ts k h m r => ?_⟩
    cases ts with
    | nil => rw [lks_nil] at h; cases h; rfl
    | cons t ts => simp [lookupKeys] at h
  | succ n ih =>
    obtain ⟨ih1, ih2⟩ := ih
    constructor
    · intro t k h m r
      cases t with
      | vec t =>
        rw [lk_vec, Option.map_eq_some_iff] at h
        obtain ⟨a, ha, rfl⟩ := h
        simpa [skipN] using ih1 _ _ ha m r
      | option t =>
        rw [lk_option, Option.map_eq_some_iff] at h
        obtain ⟨a, ha, rfl⟩ := h
        simpa [skipN] using ih1 _ _ ha m r
      | hashMap t =>
        rw [lk_hashMap, Option.map_eq_some_iff] at h
        obtain ⟨a, ha, rfl⟩ := h
        simpa [skipN] using ih1 _ _ ha m r
      | btreeMap t =>
        rw [lk_btreeMap, Option.map_eq_some_iff] at h
        obtain ⟨a, ha, rfl⟩ := h
        simpa [skipN] using ih1 _ _ ha m r
      | ptr t => rw [lk_ptr] at h; exact ih1 _ _ h m r
      | param i => simp [lookupKey] at h
      | named id args =>
        rw [lk_named] at h
        cases hP : P[id]? with
        | none => simp [hP] at h
        | some d =>
          simp only [hP] at h
          have gen : ∀ (ts : List Ty) (nf : Nat), nf = ts.length →
              (lookupKeys P n ts).map (KTok.generic id nf :: ·) = some k →
              skipN (m + 1) (k ++ r) = skipN m r := by
            intro ts nf hnf hk
            rw [Option.map_eq_some_iff] at hk
            obtain ⟨a, ha, rfl⟩ := hk
            subst hnf
            simpa [skipN] using ih2 _ _ ha m r
          cases hb : d.body with
          | unitEnum vs =>
            simp only [hb, Option.some.injEq] at h
            subst h; rfl
          | newtype f =>
            simp only [hb] at h
            by_cases hd : isDirect f .newtypeStruct = true
            · rw [if_pos hd] at h; exact ih1 _ _ h m r
            · rw [if_neg hd] at h
              by_cases hn : d.nparams = 0
              · rw [if_pos hn] at h; cases h; rfl
              · rw [if_neg hn] at h; exact gen _ 1 rfl h
          | record fs =>
            simp only [hb] at h
            by_cases hn : d.nparams = 0
            · rw [if_pos hn] at h; cases h; rfl
            · rw [if_neg hn] at h; exact gen _ _ (by simp) h
          | union vs =>
            simp only [hb] at h
            by_cases hn : d.nparams = 0
            · rw [if_pos hn] at h; cases h; rfl
            · rw [if_neg hn] at h; exact gen _ _ (by simp) h
      | _ =>
        simp only [lookupKey, Option.some.injEq] at h
        subst h; rfl
    · intro ts k h m r
      cases ts with
      | nil => rw [lks_nil] at h; cases h; rfl
      | cons t ts =>
        rw [lks_cons] at h
        cases h1 : lookupKey P n t with
        | none => simp [h1] at h
        | some a =>
          cases h2 : lookupKeys P n ts with
          | none => simp [h1, h2] at h
          | some b =>
            simp only [h1, h2, Option.some.injEq] at h
            subst h
            rw [List.length_cons, ← Nat.add_assoc, List.append_assoc, ih1 _ _ h1, ih2 _ _ h2]

/-- No lookup key is a proper prefix of another: a sequence of keys splits uniquely. -/
theorem lookupKey_prefix_free (P : Prog) {n n' : Nat} {t t' : Ty} {k k' r r' : Key}
    (h : lookupKey P n t = some k) (h' : lookupKey P n' t' = some k') (he : k ++ r = k' ++ r') :
    k = k' ∧ r = r' := by
  have h1 := (skipN_key P n).1 t k h 0 r
  have h2 := (skipN_key P n').1 t' k' h' 0 r'
  rw [he, h2] at h1
  simp only [skipN, Option.some.injEq] at h1
  subst h1
  exact ⟨List.append_cancel_right he, rfl⟩

/-- `t` and `t'` have the same lookup type. -/
def SameKey (P : Prog) (t t' : Ty) : Prop := ∃ n n' k, lookupKey P n t = some k ∧ lookupKey P n' t' = some k

theorem lookupKeys_inj (P : Prog) : ∀ (n n' : Nat) (ts ts' : List Ty) (k : Key),
    lookupKeys P n ts = some k → lookupKeys P n' ts' = some k → ts.length = ts'.length →
    ∀ i (h : i < ts.length) (h' : i < ts'.length), SameKey P ts[i] ts'[i]
  | _, _, [], [], _, _, _, _, i, h, _ => by cases h
  | _, _, [], _ :: _, _, _, _, hl, _, _, _ => by cases hl
  | _, _, _ :: _, [], _, _, _, hl, _, _, _ => by cases hl
  | 0, _, _ :: _, _ :: _, _, h, _, _, _, _, _ => by simp [lookupKeys] at h
  | _ + 1, 0, _ :: _, _ :: _, _, _, h', _, _, _, _ => by simp [lookupKeys] at h'
  | n + 1, n' + 1, t :: ts, t' :: ts', k, h, h', hl, i, hi, hi' => by
    rw [lks_cons] at h h'
    cases h1 : lookupKey P n t with
    | none => simp [h1] at h
    | some a =>
      cases h2 : lookupKeys P n ts with
      | none => simp [h1, h2] at h
      | some b =>
        cases h1' : lookupKey P n' t' with
        | none => simp [h1'] at h'
        | some a' =>
          cases h2' : lookupKeys P n' ts' with
          | none => simp [h1', h2'] at h'
          | some b' =>
            simp only [h1, h2, h1', h2', Option.some.injEq] at h h'
            obtain ⟨rfl, rfl⟩ := lookupKey_prefix_free P h1 h1' (h.trans h'.symm)
            cases i with
            | zero => exact ⟨n, n', a, h1, h1'⟩
            | succ i =>
              exact lookupKeys_inj P n n' ts ts' b h2 h2' (by simpa using hl) i
                (by simpa using hi) (by simpa using hi')


/-- Two instantiations of a generic record with the same lookup key agree on the lookup type of
    every field. -/
theorem generic_record_key_fields (P : Prog) {id : Nat} {d : Decl} {fs : List Field}
    {args1 args2 : List Ty} {n1 n2 : Nat} {k : Key} (hP : P[id]? = some d) (hb : d.body = .record fs)
    (hn : d.nparams ≠ 0) (h1 : lookupKey P n1 (.named id args1) = some k)
    (h2 : lookupKey P n2 (.named id args2) = some k) :
    ∀ f ∈ fs, SameKey P (subst args1 (chosenTy f)) (subst args2 (chosenTy f)) := by
  intro f hf
  cases n1 with
  | zero => simp [lk_zero] at h1
  | succ n1 =>
    cases n2 with
    | zero => simp [lk_zero] at h2
    | succ n2 =>
      rw [lk_named] at h1 h2
      simp only [hP, hb] at h1 h2
      rw [if_neg hn] at h1 h2
      simp only [Body.lookupFields, Option.map_eq_some_iff] at h1 h2
      obtain ⟨a1, ha1, rfl⟩ := h1
      obtain ⟨a2, ha2, he⟩ := h2
      simp only [List.cons.injEq, true_and] at he
      subst he
      obtain ⟨i, hi, rfl⟩ := List.getElem_of_mem hf
      have := lookupKeys_inj P n1 n2 _ _ _ ha1 ha2 (by simp) i (by simpa using hi) (by simpa using hi)
      simpa using this

end DeriveNames
end Avro.Theorems
