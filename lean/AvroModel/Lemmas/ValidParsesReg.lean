import AvroModel.Lemmas.ValidParsesRaw
import AvroModel.Lemmas.PcfSpecGraph
/-
C07 (valid documents parse), third part: registration of the raw tree SUCCEEDS.

`register_succeeds`: four-way induction on the fuel.  Hypotheses on the raw tree: the shape
(`canonRaw` defined), every reference follows its definition (`scanRaw` defined), the local
demands (`regOk`), the defined names are pairwise distinct and not yet in the name table
(`Pre`).  Conclusion: the registration function returns, no reference was left pending, the name
table received exactly the defined names (`Out`).
-/
namespace Avro.ValidParses
open Avro Avro.Impl Avro.Spec Avro.Spec.Pcf Avro.PcfSpec

def keyOf (fn : Fullname) : NameKey := ⟨fn.1, fn.2⟩

theorem keyOf_inj {a b : Fullname} (h : keyOf a = keyOf b) : a = b := by
  obtain ⟨a1, a2⟩ := a
  obtain ⟨b1, b2⟩ := b
  simp only [keyOf, NameKey.mk.injEq] at h
  rw [h.1, h.2]

def tkeys (st : PState) : List NameKey := st.names.map (·.1)

theorem lookup_none_of_not_mem {l : List (NameKey × Nat)} {k : NameKey}
    (h : k ∉ l.map (·.1)) : l.lookup k = none := by
  induction l with
  | nil => rfl
  | cons p l ih =>
    obtain ⟨a, b⟩ := p
    simp only [List.map_cons, List.mem_cons, not_or] at h
    have : (k == a) = false := by simpa using h.1
    rw [List.lookup_cons, this]
    exact ih h.2

theorem lookup_some_of_mem {l : List (NameKey × Nat)} {k : NameKey}
    (h : k ∈ l.map (·.1)) : ∃ i, l.lookup k = some i := by
  induction l with
  | nil => simp at h
  | cons p l ih =>
    obtain ⟨a, b⟩ := p
    rw [List.lookup_cons]
    by_cases hk : k = a
    · subst hk; exact ⟨b, by simp⟩
    · have : (k == a) = false := by simpa using hk
      rw [this]
      simp only [List.map_cons, List.mem_cons] at h
      rcases h with h | h
      · exact absurd h hk
      · exact ih h

/-- before: the names to be defined are pairwise distinct and new; the names of `D` are bound -/
structure Pre (st : PState) (defs D : List Fullname) : Prop where
  nodup : defs.Nodup
  fresh : ∀ fn ∈ defs, keyOf fn ∉ tkeys st
  defined : ∀ fn ∈ D, keyOf fn ∈ tkeys st

/-- after: nothing pending was added, the table received `defs`, the names of `D'` are bound -/
structure Out (st st' : PState) (defs D' : List Fullname) : Prop where
  unres : st'.unresolved = st.unresolved
  keys : tkeys st' = (defs.map keyOf).reverse ++ tkeys st
  defined : ∀ fn ∈ D', keyOf fn ∈ tkeys st'

theorem Out.refl {st : PState} {D : List Fullname} (h : ∀ fn ∈ D, keyOf fn ∈ tkeys st) :
    Out st st [] D :=
  ⟨rfl, by simp, h⟩

theorem Out.trans {st st1 st2 : PState} {d1 d2 D1 D2 : List Fullname}
    (h1 : Out st st1 d1 D1) (h2 : Out st1 st2 d2 D2) : Out st st2 (d1 ++ d2) D2 :=
  ⟨h2.unres.trans h1.unres, by rw [h2.keys, h1.keys]; simp, h2.defined⟩

theorem Out.setNodes {st st2 : PState} {d D' : List Fullname} (h : Out st st2 d D')
    (nodes : Array PNode) : Out st { st2 with nodes := nodes } d D' :=
  ⟨h.unres, h.keys, h.defined⟩

theorem Out.ofNodes {st st2 : PState} {d D' : List Fullname} (nodes : Array PNode)
    (h : Out { st with nodes := nodes } st2 d D') : Out st st2 d D' :=
  ⟨h.unres, h.keys, h.defined⟩

theorem Pre.left {st : PState} {d1 d2 D : List Fullname} (h : Pre st (d1 ++ d2) D) :
    Pre st d1 D :=
  ⟨(List.nodup_append.mp h.nodup).1, fun fn hfn => h.fresh fn (List.mem_append_left _ hfn),
    h.defined⟩

theorem Pre.after {st st1 : PState} {d1 d2 D D1 : List Fullname} (h : Pre st (d1 ++ d2) D)
    (ho : Out st st1 d1 D1) : Pre st1 d2 D1 := by
  obtain ⟨hn1, hn2, hdis⟩ := List.nodup_append.mp h.nodup
  refine ⟨hn2, ?_, ho.defined⟩
  intro fn hfn hmem
  rw [ho.keys, List.mem_append, List.mem_reverse, List.mem_map] at hmem
  rcases hmem with ⟨fn', hfn', he⟩ | hmem
  · have := keyOf_inj he
    subst this
    exact hdis _ hfn' _ hfn rfl
  · exact h.fresh fn (List.mem_append_right _ hfn) hmem

theorem Pre.weaken {st : PState} {d D D1 : List Fullname} (h : Pre st d D1)
    (hsub : ∀ fn ∈ D, fn ∈ D1) : Pre st d D :=
  ⟨h.nodup, h.fresh, fun fn hfn => h.defined fn (hsub fn hfn)⟩

theorem Pre.ofNodes {st : PState} {d D : List Fullname} (h : Pre st d D) (nodes : Array PNode) :
    Pre { st with nodes := nodes } d D :=
  ⟨h.nodup, h.fresh, h.defined⟩

/-! ### `defsParts` = own name, then the body -/

def ownDefs (enc : Option String) (name nsAttr : Option String) : List Fullname :=
  match name with
  | some nm => [fullnameOfDef nm nsAttr enc]
  | none => []

def bodyDefs (enc : Option String) (t : RawType) (name nsAttr : Option String)
    (dfields : Option String → List Fullname) (ditems dvalues : List Fullname) : List Fullname :=
  match t with
  | .array => ditems
  | .map => dvalues
  | .record =>
    (match name with
      | some nm => dfields (fullnameOfDef nm nsAttr enc).1
      | none => [])
  | _ => []

theorem defsParts_eq (enc : Option String) (t : RawType) (name nsAttr : Option String)
    (df : Option String → List Fullname) (di dv : List Fullname) :
    defsParts enc t name nsAttr df di dv =
      ownDefs enc name nsAttr ++ bodyDefs enc t name nsAttr df di dv := by
  cases name <;> cases t <;> rfl

/-! ### the steps of `registerObject` -/

theorem keyOf_def (nm : String) (nsA enc : Option String) :
    keyOf (fullnameOfDef nm nsA enc) = defKey nm nsA enc := by
  rw [defKey_eq_spec]; rfl

theorem keyOf_ref (r : String) (enc : Option String) :
    keyOf (fullnameOfRef r enc) = refKey r enc := by
  rw [refKey_eq_spec]; rfl

theorem nameStep_out {o : Option RawAttrs} {enc : Option String} {st : PState}
    {rest D : List Fullname}
    (hpre : Pre st (ownDefs enc (o.bind (·.name)) (o.bind (·.nsAttr)) ++ rest) D) :
    ∃ st1, nameStep o enc st =
        .ok ((o.bind (·.name)).map (fun nm => defKey nm (o.bind (·.nsAttr)) enc), st1) ∧
      Out st st1 (ownDefs enc (o.bind (·.name)) (o.bind (·.nsAttr)))
        (ownDefs enc (o.bind (·.name)) (o.bind (·.nsAttr)) ++ D) := by
  cases o with
  | none =>
    refine ⟨_, rfl, ?_⟩
    exact ⟨rfl, by simp [ownDefs, tkeys], by simpa [ownDefs, tkeys] using hpre.defined⟩
  | some a =>
    cases hn : a.name with
    | none =>
      refine ⟨{ st with nodes := st.nodes.push { type := .null, logical := none } }, ?_, ?_⟩
      · simp [nameStep, hn]
      · exact ⟨rfl, by simp [ownDefs, tkeys, hn], by simpa [ownDefs, tkeys, hn] using hpre.defined⟩
    | some nm =>
      have hfresh : st.names.lookup (defKey nm a.nsAttr enc) = none := by
        apply lookup_none_of_not_mem
        rw [← keyOf_def]
        exact hpre.fresh _ (by simp [ownDefs, hn])
      refine ⟨{ st with nodes := st.nodes.push { type := .null, logical := none },
                        names := (defKey nm a.nsAttr enc, st.nodes.size) :: st.names }, ?_, ?_⟩
      · simp [nameStep, hn, hfresh]
      · refine ⟨rfl, by simp [ownDefs, tkeys, hn, keyOf_def], ?_⟩
        intro fn hfn
        simp only [Option.bind_some, hn, ownDefs, List.cons_append, List.nil_append,
          List.mem_cons] at hfn
        simp only [tkeys, List.map_cons, List.mem_cons]
        rcases hfn with rfl | hfn
        · exact Or.inl (keyOf_def _ _ _)
        · exact Or.inr (hpre.defined fn hfn)

theorem logicalStep_ok {o : Option RawAttrs} (h : ∀ a, o = some a → attrsRegOk a = true) :
    ∃ lt, logicalStep o = .ok lt := by
  cases o with
  | none => exact ⟨none, rfl⟩
  | some a =>
    have ha := h a rfl
    simp only [logicalStep]
    unfold logicalOf
    split <;> try exact ⟨_, rfl⟩
    rename_i hl
    split
    · rename_i hp
      simp [attrsRegOk, hl, hp] at ha
    · exact ⟨_, rfl⟩

/-! ### the four statements -/

def ClaimN (f : Nat) : Prop :=
  ∀ raw enc st D D' c, sizeRaw raw ≤ f →
    canonRaw enc raw = some c → scanRaw enc raw D = some D' → regOk raw = true →
    Pre st (defsRaw enc raw) D →
    ∃ k st', registerNode f raw enc st = .ok (k, st') ∧ Out st st' (defsRaw enc raw) D'

def ClaimL (f : Nat) : Prop :=
  ∀ l enc st D D' cs, sizeRawList l ≤ f →
    canonRawList enc l = some cs → scanRawList enc l D = some D' → regOkList l = true →
    Pre st (defsRawList enc l) D →
    ∃ ks st', registerList f l enc st = .ok (ks, st') ∧ Out st st' (defsRawList enc l) D'

def ClaimF (f : Nat) : Prop :=
  ∀ l ns st D D' cs, sizeRawFields l ≤ f →
    canonRawFields ns l = some cs → scanRawFields ns l D = some D' → regOkFields l = true →
    Pre st (defsRawFields ns l) D →
    ∃ fs st', registerFields f l ns st = .ok (fs, st') ∧ Out st st' (defsRawFields ns l) D'

def ClaimO (f : Nat) : Prop :=
  ∀ t o of oi ov enc st D D' c, 1 + sizeRawO oi + sizeRawO ov + sizeRawOF of ≤ f →
    canonParts enc t (o.bind (·.name)) (o.bind (·.nsAttr)) (o.bind (·.symbols)) (o.bind (·.size))
      (fun ns => canonRawOFields ns of) (canonRawO enc oi) (canonRawO enc ov) = some c →
    scanParts enc t (o.bind (·.name)) (o.bind (·.nsAttr)) (fun ns D => scanRawOFields ns of D)
      (scanRawO enc oi) (scanRawO enc ov) D = some D' →
    (∀ a, o = some a → attrsRegOk a = true) →
    regOkO oi = true → regOkO ov = true → regOkOF of = true →
    Pre st (defsParts enc t (o.bind (·.name)) (o.bind (·.nsAttr)) (fun ns => defsRawOF ns of)
      (defsRawO enc oi) (defsRawO enc ov)) D →
    ∃ k st', registerObject f t o of oi ov enc st = .ok (k, st') ∧
      Out st st' (defsParts enc t (o.bind (·.name)) (o.bind (·.nsAttr))
        (fun ns => defsRawOF ns of) (defsRawO enc oi) (defsRawO enc ov)) D'

theorem bodyStep_out {f : Nat} (ihN : ClaimN f) (ihF : ClaimF f)
    {t : RawType} {o : Option RawAttrs} {of : Option (List (String × RawSchema))}
    {oi ov : Option RawSchema} {enc : Option String} {st1 : PState} {D D' : List Fullname}
    {c : Json}
    (hsz : sizeRawO oi + sizeRawO ov + sizeRawOF of ≤ f)
    (hc : canonParts enc t (o.bind (·.name)) (o.bind (·.nsAttr)) (o.bind (·.symbols))
      (o.bind (·.size)) (fun ns => canonRawOFields ns of) (canonRawO enc oi)
      (canonRawO enc ov) = some c)
    (hs : scanParts enc t (o.bind (·.name)) (o.bind (·.nsAttr))
      (fun ns D => scanRawOFields ns of D) (scanRawO enc oi) (scanRawO enc ov) D = some D')
    (hri : regOkO oi = true) (hrv : regOkO ov = true) (hrf : regOkOF of = true)
    (hpre : Pre st1 (bodyDefs enc t (o.bind (·.name)) (o.bind (·.nsAttr))
      (fun ns => defsRawOF ns of) (defsRawO enc oi) (defsRawO enc ov))
      (ownDefs enc (o.bind (·.name)) (o.bind (·.nsAttr)) ++ D)) :
    ∃ ty st2, bodyStep f t o of oi ov enc
        ((o.bind (·.name)).map (fun nm => defKey nm (o.bind (·.nsAttr)) enc)) st1 =
          .ok (ty, st2) ∧
      Out st1 st2 (bodyDefs enc t (o.bind (·.name)) (o.bind (·.nsAttr))
        (fun ns => defsRawOF ns of) (defsRawO enc oi) (defsRawO enc ov)) D' := by
  have hDsub : ∀ fn ∈ D, fn ∈ ownDefs enc (o.bind (·.name)) (o.bind (·.nsAttr)) ++ D :=
    fun fn h => List.mem_append_right _ h
  cases t with
  | array =>
    cases oi with
    | none => simp [canonParts, canonRawO] at hc
    | some items =>
      simp only [canonParts, canonRawO, Option.map_eq_some_iff] at hc
      obtain ⟨ci, hci, -⟩ := hc
      simp only [scanParts, scanRawO] at hs
      simp only [sizeRawO] at hsz
      simp only [bodyDefs, defsRawO] at hpre ⊢
      obtain ⟨k, st2, hr, hout⟩ :=
        ihN items enc st1 D D' ci (by omega) hci hs hri (hpre.weaken hDsub)
      exact ⟨.array k, st2, by simp only [bodyStep, hr], hout⟩
  | map =>
    cases ov with
    | none => simp [canonParts, canonRawO] at hc
    | some values =>
      simp only [canonParts, canonRawO, Option.map_eq_some_iff] at hc
      obtain ⟨ci, hci, -⟩ := hc
      simp only [scanParts, scanRawO] at hs
      simp only [sizeRawO] at hsz
      simp only [bodyDefs, defsRawO] at hpre ⊢
      obtain ⟨k, st2, hr, hout⟩ :=
        ihN values enc st1 D D' ci (by omega) hci hs hrv (hpre.weaken hDsub)
      exact ⟨.map k, st2, by simp only [bodyStep, hr], hout⟩
  | enum =>
    cases hn : o.bind (·.name) with
    | none => simp [canonParts, hn] at hc
    | some nm =>
      cases hsy : o.bind (·.symbols) with
      | none => simp [canonParts, hn, hsy] at hc
      | some syms =>
        simp only [scanParts, hn, Option.some.injEq] at hs
        subst hs
        refine ⟨_, st1, by simp only [bodyStep, Option.map_some, hsy]; rfl, ?_⟩
        simp only [bodyDefs]
        exact Out.refl (by simpa [ownDefs, hn] using hpre.defined)
  | fixed =>
    cases hn : o.bind (·.name) with
    | none => simp [canonParts, hn] at hc
    | some nm =>
      cases hsy : o.bind (·.size) with
      | none => simp [canonParts, hn, hsy] at hc
      | some size =>
        simp only [scanParts, hn, Option.some.injEq] at hs
        subst hs
        refine ⟨_, st1, by simp only [bodyStep, Option.map_some, hsy]; rfl, ?_⟩
        simp only [bodyDefs]
        exact Out.refl (by simpa [ownDefs, hn] using hpre.defined)
  | record =>
    cases hn : o.bind (·.name) with
    | none => simp [canonParts, hn] at hc
    | some nm =>
      cases of with
      | none => simp [canonParts, hn, canonRawOFields] at hc
      | some fields =>
        simp only [canonParts, hn, canonRawOFields, Option.map_eq_some_iff] at hc
        obtain ⟨cs, hcs, -⟩ := hc
        simp only [scanParts, hn, scanRawOFields] at hs
        simp only [sizeRawOF] at hsz
        simp only [bodyDefs, hn, defsRawOF, ownDefs, List.cons_append, List.nil_append]
          at hpre ⊢
        have hns : (defKey nm (o.bind (·.nsAttr)) enc).ns =
            (fullnameOfDef nm (o.bind (·.nsAttr)) enc).1 := by rw [defKey_eq_spec]
        obtain ⟨fs, st2, hr, hout⟩ :=
          ihF fields _ st1 _ D' cs (by omega) hcs hs hrf hpre
        exact ⟨.record _ fs, st2, by simp only [bodyStep, Option.map_some, hns, hr]; rfl, hout⟩
  | null | boolean | int | long | float | double | bytes | string =>
    simp only [scanParts, Option.some.injEq] at hs
    subst hs
    exact ⟨_, st1, rfl, Out.refl fun fn h => hpre.defined fn (hDsub fn h)⟩

theorem claimO_succ {f : Nat} (ihN : ClaimN f) (ihF : ClaimF f) : ClaimO (f + 1) := by
  intro t o of oi ov enc st D D' c hsz hc hs hlog hri hrv hrf hpre
  rw [defsParts_eq] at hpre ⊢
  obtain ⟨st1, hname, hout1⟩ := nameStep_out hpre
  obtain ⟨ty, st2, hbody, hout2⟩ :=
    bodyStep_out ihN ihF (by omega) hc hs hri hrv hrf (hpre.after hout1)
  obtain ⟨lt, hlt⟩ := logicalStep_ok hlog
  refine ⟨.idx st.nodes.size,
    { st2 with nodes := st2.nodes.set! st.nodes.size { type := ty, logical := lt } }, ?_,
    (hout1.trans hout2).setNodes _⟩
  rw [registerObject_eq, hname]
  simp only [hbody, hlt]

theorem claimL_succ {f : Nat} (ihN : ClaimN f) (ihL : ClaimL f) : ClaimL (f + 1) := by
  intro l enc st D D' cs hsz hc hs hr hpre
  cases l with
  | nil =>
    simp only [scanRawList, Option.some.injEq] at hs
    subst hs
    exact ⟨[], st, rfl, Out.refl hpre.defined⟩
  | cons r rest =>
    simp only [sizeRawList] at hsz
    simp only [canonRawList] at hc
    cases hc1 : canonRaw enc r with
    | none => simp [hc1] at hc
    | some c1 =>
      cases hc2 : canonRawList enc rest with
      | none => simp [hc1, hc2] at hc
      | some cs2 =>
        simp only [scanRawList] at hs
        cases hs1 : scanRaw enc r D with
        | none => simp [hs1] at hs
        | some D1 =>
          rw [hs1] at hs
          simp only [regOkList, Bool.and_eq_true] at hr
          simp only [defsRawList] at hpre ⊢
          obtain ⟨k, st1, h1, o1⟩ := ihN r enc st D D1 c1 (by omega) hc1 hs1 hr.1 hpre.left
          obtain ⟨ks, st2, h2, o2⟩ :=
            ihL rest enc st1 D1 D' cs2 (by omega) hc2 hs hr.2 (hpre.after o1)
          exact ⟨k :: ks, st2, by simp only [registerList, h1, h2], o1.trans o2⟩

theorem claimF_succ {f : Nat} (ihN : ClaimN f) (ihF : ClaimF f) : ClaimF (f + 1) := by
  intro l ns st D D' cs hsz hc hs hr hpre
  cases l with
  | nil =>
    simp only [scanRawFields, Option.some.injEq] at hs
    subst hs
    exact ⟨[], st, rfl, Out.refl hpre.defined⟩
  | cons x rest =>
    obtain ⟨name, r⟩ := x
    simp only [sizeRawFields] at hsz
    simp only [canonRawFields] at hc
    cases hc1 : canonRaw ns r with
    | none => simp [hc1] at hc
    | some c1 =>
      cases hc2 : canonRawFields ns rest with
      | none => simp [hc1, hc2] at hc
      | some cs2 =>
        simp only [scanRawFields] at hs
        cases hs1 : scanRaw ns r D with
        | none => simp [hs1] at hs
        | some D1 =>
          rw [hs1] at hs
          simp only [regOkFields, Bool.and_eq_true] at hr
          simp only [defsRawFields] at hpre ⊢
          obtain ⟨k, st1, h1, o1⟩ := ihN r ns st D D1 c1 (by omega) hc1 hs1 hr.1 hpre.left
          obtain ⟨fs, st2, h2, o2⟩ :=
            ihF rest ns st1 D1 D' cs2 (by omega) hc2 hs hr.2 (hpre.after o1)
          exact ⟨(name, k) :: fs, st2, by simp only [registerFields, h1, h2], o1.trans o2⟩

theorem claimN_succ {f : Nat} (ihO : ClaimO f) (ihL : ClaimL f) : ClaimN (f + 1) := by
  intro raw enc st D D' c hsz hc hs hr hpre
  cases raw with
  | ref r =>
    simp only [scanRaw] at hs
    split at hs
    · rename_i hmem
      cases hs
      have hk := hpre.defined _ (by simpa using hmem)
      rw [keyOf_ref] at hk
      obtain ⟨i, hi⟩ := lookup_some_of_mem hk
      exact ⟨.idx i, st, by simp only [registerNode, hi], Out.refl hpre.defined⟩
    · cases hs
  | type t =>
    simp only [regOk] at hr
    simp only [sizeRaw] at hsz
    simp only [registerNode, defsRaw] at hpre ⊢
    have hD : D' = D := by
      cases t <;> simp [isPrimType] at hr <;>
        simpa [scanRaw, typeText, isPrimitive, primitiveNames] using hs.symm
    subst hD
    have := ihO t none none none none enc st D' D' (.str (typeText t)) (by simp [sizeRawO, sizeRawOF]; omega)
      (by cases t <;> simp [isPrimType] at hr <;> rfl)
      (by cases t <;> simp [isPrimType] at hr <;> rfl)
      (by intro a h; cases h) rfl rfl rfl
      (by cases t <;> simp [isPrimType] at hr <;> exact hpre)
    obtain ⟨k, st', h1, h2⟩ := this
    refine ⟨k, st', h1, ?_⟩
    cases t <;> simp [isPrimType] at hr <;> exact h2
  | object a fields items values =>
    simp only [regOk, Bool.and_eq_true] at hr
    obtain ⟨⟨⟨hra, hrf⟩, hri⟩, hrv⟩ := hr
    simp only [sizeRaw] at hsz
    simp only [canonRaw] at hc
    simp only [scanRaw] at hs
    simp only [registerNode, defsRaw] at hpre ⊢
    exact ihO a.type (some a) fields items values enc st D D' c (by omega) hc hs
      (by intro a' h; cases h; exact hra) hri hrv hrf hpre
  | union bs =>
    simp only [regOk] at hr
    simp only [sizeRaw] at hsz
    simp only [canonRaw, Option.map_eq_some_iff] at hc
    obtain ⟨cs, hcs, -⟩ := hc
    simp only [scanRaw] at hs
    simp only [defsRaw] at hpre ⊢
    obtain ⟨ks, st2, h1, o1⟩ := ihL bs enc
      { st with nodes := st.nodes.push { type := .null, logical := none } } D D' cs (by omega)
      hcs hs hr (hpre.ofNodes _)
    exact ⟨_, _, by simp only [registerNode, h1]; rfl, (Out.ofNodes _ o1).setNodes _⟩

/-- Registration of a raw tree succeeds. -/
theorem register_succeeds : ∀ f, ClaimN f ∧ ClaimO f ∧ ClaimL f ∧ ClaimF f := by
  intro f
  induction f with
  | zero =>
    refine ⟨?_, ?_, ?_, ?_⟩
    · intro raw enc st D D' c hsz
      cases raw <;> simp [sizeRaw] at hsz
    · intro t o of oi ov enc st D D' c hsz
      omega
    · intro l enc st D D' cs hsz hc hs hr hpre
      cases l with
      | nil =>
        simp only [scanRawList, Option.some.injEq] at hs
        subst hs
        exact ⟨[], st, rfl, Out.refl hpre.defined⟩
      | cons r rest => simp [sizeRawList] at hsz
    · intro l ns st D D' cs hsz hc hs hr hpre
      cases l with
      | nil =>
        simp only [scanRawFields, Option.some.injEq] at hs
        subst hs
        exact ⟨[], st, rfl, Out.refl hpre.defined⟩
      | cons r rest => obtain ⟨n, r⟩ := r; simp [sizeRawFields] at hsz
  | succ f ih =>
    obtain ⟨ihN, ihO, ihL, ihF⟩ := ih
    exact ⟨claimN_succ ihO ihL, claimO_succ ihN ihF, claimL_succ ihN ihL, claimF_succ ihN ihF⟩

end Avro.ValidParses
