import AvroModel.Lemmas.TypedConsume
/-
C01 / C03, typed targets: WHAT a typed read returns.

`consistent o' o` — "`o'`, what a target asking with some hint received, is consistent with `o`, what
the self-describing read (`deserialize_any`, hint `.any`) delivers for the same datum" — is the
relation the driver uses informally (`Driver/Main.lean`, `consistentOut`), as a structural
definition, completed with the coercions the visitor dispatch of `de` performs (an `Option` target,
`str` on bytes / fixed, `bytes` / `seq` / `tuple` on a duration, integer identifiers, decimals read
through an integer hint): without them the statement is false (`Theorems/C03typed.lean`).

The proof is a *relational* induction on the model fuel of the typed run: the typed run and a run
of the self-describing read (its own configuration, fuel and depth budget) are started in the same
state on an input that `decodeX Limits.impl` accepts; they stay in step (`Inv2`): the states after
each sub-datum agree because both consume exactly the datum (`TC`, `TypedConsume.lean`, used as a
black box), and what they deliver is `consistent`.
-/
namespace Avro.Impl
open Avro Avro.Spec

/-! ### 1. `unborrow` and `consistent`, structurally -/

mutual
/-- drop the `borrowed` flags (`Driver/Main.lean`, `unborrow`) -/
def unborrow : Out → Out
  | .str s _ => .str s false
  | .bytes b _ => .bytes b false
  | .some o => .some (unborrow o)
  | .seq items => .seq (unborrowL items)
  | .map es => .map (unborrowM es)
  | .variant n p => .variant (unborrow n) (unborrow p)
  | .unit => .unit
  | .bool b => .bool b
  | .i32 i => .i32 i
  | .i64 i => .i64 i
  | .i128 i => .i128 i
  | .u32 n => .u32 n
  | .u64 n => .u64 n
  | .u128 n => .u128 n
  | .f32 b => .f32 b
  | .f64 b => .f64 b
  | .none => .none
def unborrowL : List Out → List Out
  | [] => []
  | x :: xs => unborrow x :: unborrowL xs
def unborrowM : List (Out × Out) → List (Out × Out)
  | [] => []
  | (k, v) :: xs => (unborrow k, unborrow v) :: unborrowM xs
end

mutual
/-- hinted result vs full result.  The first seven groups are `consistentOut` of the driver
    (ignored parts match anything; a unit variant matches whatever the branch held; a newtype /
    tuple / struct variant's payload matches the branch's value; sequences and maps elementwise;
    otherwise equal up to `unborrow`); the others are the coercions of the visitor dispatch:
      * `Option` target: `None` for `null`, `Some(x)` for a value that is not wrapped;
      * `deserialize_str` on `bytes` / `fixed`: the UTF-8 reading of the bytes;
      * `deserialize_bytes` on a duration: its 12 bytes; `deserialize_seq/tuple` on a duration (and
        only there a sequence meets a map): the three values;
      * an integer asked for where the self-describing read gives `i32` / `i64` (identifiers) or the
        string of a decimal of scale 0 (`decToStringModel · 0`);
      * `u64` against a string: an enum read as its index, a decimal, a duration key — NOT checked
        (the index cannot be compared with the symbol without the schema; see
        `C03_typed_enum_index` for the precise statement at top level). -/
def consistent : Out → Out → Prop
  | .unit, _ => True
  | .variant _ p, full => p = .unit ∨ consistent p full
  | .seq a, full =>
    match full with
    | .seq b => consistentL a b
    | .map es => consistentL a (es.map Prod.snd)
    | _ => False
  | .map a, full =>
    match full with
    | .map b => consistentM a b
    | _ => False
  | .some a, full => consistent a full ∨ ∃ b, full = .some b ∧ consistent a b
  | .none, full => full = .none ∨ full = .unit
  | .str s _, full =>
    match full with
    | .str s' _ => s = s'
    | .bytes b _ => bytesToStr? b = some s
    | _ => False
  | .bytes b _, full =>
    match full with
    | .bytes b' _ => b = b'
    | .map es => Out.map es = durationOut b .any
    | _ => False
  | .u64 n, full =>
    match full with
    | .u64 m => n = m
    | .i32 i => i = (n : Int)
    | .i64 i => i = (n : Int)
    | .str _ _ => True
    | _ => False
  | .i64 i, full =>
    match full with
    | .i64 j => i = j
    | .str s _ => decToStringModel i 0 = some s
    | _ => False
  | .i128 i, full =>
    match full with
    | .i128 j => i = j
    | .str s _ => decToStringModel i 0 = some s
    | _ => False
  | .u128 n, full =>
    match full with
    | .u128 m => n = m
    | .str s _ => decToStringModel (n : Int) 0 = some s
    | _ => False
  | .bool b, full => full = .bool b
  | .i32 i, full => full = .i32 i
  | .u32 n, full => full = .u32 n
  | .f32 b, full => full = .f32 b
  | .f64 b, full => full = .f64 b
def consistentL : List Out → List Out → Prop
  | [], ys => ys = []
  | x :: xs, ys =>
    match ys with
    | [] => False
    | y :: ys' => consistent x y ∧ consistentL xs ys'
def consistentM : List (Out × Out) → List (Out × Out) → Prop
  | [], ys => ys = []
  | (k, v) :: xs, ys =>
    match ys with
    | [] => False
    | (k', v') :: ys' => consistent k k' ∧ consistent v v' ∧ consistentM xs ys'
end

theorem consistentL_nil : consistentL [] [] := by simp [consistentL]

theorem consistentL_cons {x y : Out} {xs ys : List Out} :
    consistentL (x :: xs) (y :: ys) ↔ consistent x y ∧ consistentL xs ys := by
  simp [consistentL]

theorem consistentM_cons {k v k' v' : Out} {xs ys : List (Out × Out)} :
    consistentM ((k, v) :: xs) ((k', v') :: ys) ↔
      consistent k k' ∧ consistent v v' ∧ consistentM xs ys := by
  simp [consistentM]

theorem consistentL_snoc : ∀ {xs ys : List Out} {x y : Out}, consistentL xs ys → consistent x y →
    consistentL (xs ++ [x]) (ys ++ [y])
  | [], ys, x, y, h, hxy => by
    simp only [consistentL] at h
    subst h
    simp [consistentL, hxy]
  | a :: xs, [], x, y, h, hxy => by simp [consistentL] at h
  | a :: xs, b :: ys, x, y, h, hxy => by
    rw [consistentL_cons] at h
    simp only [List.cons_append]
    rw [consistentL_cons]
    exact ⟨h.1, consistentL_snoc h.2 hxy⟩

theorem consistentM_snoc : ∀ {xs ys : List (Out × Out)} {x y : Out × Out}, consistentM xs ys →
    consistent x.1 y.1 → consistent x.2 y.2 → consistentM (xs ++ [x]) (ys ++ [y])
  | [], ys, (k, v), (k', v'), h, h1, h2 => by
    simp only [consistentM] at h
    subst h
    simp only [List.nil_append]
    rw [consistentM_cons]
    exact ⟨h1, h2, by simp [consistentM]⟩
  | (a, b) :: xs, [], x, y, h, _, _ => by simp [consistentM] at h
  | (a, b) :: xs, (a', b') :: ys, x, y, h, h1, h2 => by
    rw [consistentM_cons] at h
    simp only [List.cons_append]
    rw [consistentM_cons]
    exact ⟨h.1, h.2.1, consistentM_snoc h.2.2 h1 h2⟩

/-! ### 2. Two runs in step -/

/-- Two readers started in the same state on `bs`: whenever both succeed they end in the same
    state, on a common remainder, with results related by `Q`. -/
def Inv2 {α β : Type} (m1 : DeM α) (m2 : DeM β) (bs : Bytes) (Q : α → β → Bytes → Prop) : Prop :=
  ∀ s, SlBase s → ∀ a s1 b s2, m1 (s.mk' bs none) = (.ok a, s1) → m2 (s.mk' bs none) = (.ok b, s2) →
    ∃ r, s1 = s.mk' r none ∧ s2 = s.mk' r none ∧ Q a b r

theorem Inv2.mono {α β : Type} {m1 : DeM α} {m2 : DeM β} {bs : Bytes} {Q Q' : α → β → Bytes → Prop}
    (h : Inv2 m1 m2 bs Q) (hq : ∀ a b r, Q a b r → Q' a b r) : Inv2 m1 m2 bs Q' := by
  intro s hs a s1 b s2 h1 h2
  obtain ⟨r, e1, e2, q⟩ := h s hs a s1 b s2 h1 h2
  exact ⟨r, e1, e2, hq _ _ _ q⟩

theorem Inv2.of_inv {α β : Type} {m1 : DeM α} {m2 : DeM β} {bs : Bytes}
    {Q1 : α → Bytes → Prop} {Q2 : β → Bytes → Prop} {Q : α → β → Bytes → Prop}
    (h1 : Inv m1 bs Q1) (h2 : Inv m2 bs Q2)
    (hq : ∀ a r1 b r2, Q1 a r1 → Q2 b r2 → r1 = r2 ∧ Q a b r1) : Inv2 m1 m2 bs Q := by
  intro s hs a s1 b s2 e1 e2
  obtain ⟨r1, rfl, q1⟩ := h1 s hs a s1 e1
  obtain ⟨r2, rfl, q2⟩ := h2 s hs b s2 e2
  obtain ⟨rfl, q⟩ := hq a r1 b r2 q1 q2
  exact ⟨r1, rfl, rfl, q⟩

/-- the same reader twice -/
theorem Inv2.same {α : Type} {m : DeM α} {bs : Bytes} {P : α → Bytes → Prop} (h : Inv m bs P) :
    Inv2 m m bs (fun a b r => a = b ∧ P a r) := by
  intro s hs a s1 b s2 e1 e2
  rw [e1] at e2
  simp only [Prod.mk.injEq, Except.ok.injEq] at e2
  obtain ⟨rfl, rfl⟩ := e2
  obtain ⟨r, rfl, p⟩ := h s hs a s1 e1
  exact ⟨r, rfl, rfl, rfl, p⟩

theorem Inv2.fail_left {α β : Type} (e : DeErr) (m2 : DeM β) (bs : Bytes)
    (Q : α → β → Bytes → Prop) : Inv2 (DeM.fail e : DeM α) m2 bs Q := by
  intro s _ a s1 b s2 h1 _
  simp [DeM.fail_apply] at h1

theorem Inv2.fail_right {α β : Type} (e : DeErr) (m1 : DeM α) (bs : Bytes)
    (Q : α → β → Bytes → Prop) : Inv2 m1 (DeM.fail e : DeM β) bs Q := by
  intro s _ a s1 b s2 _ h2
  simp [DeM.fail_apply] at h2

theorem Inv2.pure {α β : Type} {a : α} {b : β} {bs : Bytes} {Q : α → β → Bytes → Prop}
    (h : Q a b bs) : Inv2 (pure a : DeM α) (pure b : DeM β) bs Q := by
  intro s _ a' s1 b' s2 h1 h2
  simp only [DeM.pure_apply, Prod.mk.injEq, Except.ok.injEq] at h1 h2
  obtain ⟨rfl, rfl⟩ := h1
  obtain ⟨rfl, rfl⟩ := h2
  exact ⟨bs, rfl, rfl, h⟩

theorem Inv2.bind {α β α' β' : Type} {m1 : DeM α} {m2 : DeM β} {f1 : α → DeM α'} {f2 : β → DeM β'}
    {bs : Bytes} {Q1 : α → β → Bytes → Prop} {Q2 : α' → β' → Bytes → Prop}
    (h1 : Inv2 m1 m2 bs Q1) (h2 : ∀ a b r, Q1 a b r → Inv2 (f1 a) (f2 b) r Q2) :
    Inv2 (m1 >>= f1) (m2 >>= f2) bs Q2 := by
  intro s hs a' s1 b' s2 e1 e2
  rw [DeM.bind_apply] at e1 e2
  cases hm1 : m1 (s.mk' bs none) with
  | mk res1 t1 =>
    rw [hm1] at e1
    cases res1 with
    | error e => simp at e1
    | ok a =>
      cases hm2 : m2 (s.mk' bs none) with
      | mk res2 t2 =>
        rw [hm2] at e2
        cases res2 with
        | error e => simp at e2
        | ok b =>
          simp only at e1 e2
          obtain ⟨r, rfl, rfl, q⟩ := h1 s hs a t1 b t2 hm1 hm2
          exact h2 a b r q s hs a' s1 b' s2 e1 e2

/-- the left reader does one more (pure) step -/
theorem Inv2.bind_left {α β α' : Type} {m1 : DeM α} {m2 : DeM β} {f1 : α → DeM α'}
    {bs : Bytes} {Q1 : α → β → Bytes → Prop} {Q2 : α' → β → Bytes → Prop}
    (h1 : Inv2 m1 m2 bs Q1) (h2 : ∀ a b r, Q1 a b r → Inv2 (f1 a) (Pure.pure b : DeM β) r Q2) :
    Inv2 (m1 >>= f1) m2 bs Q2 := by
  have : m2 = m2 >>= (fun b => (Pure.pure b : DeM β)) := by
    funext s
    rw [DeM.bind_apply]
    cases m2 s with
    | mk res t => cases res <;> rfl
  rw [this]
  exact Inv2.bind h1 h2

/-- only the left reader reads (the right one is done) -/
theorem Inv2.left {α β : Type} {m1 : DeM α} {b : β} {bs : Bytes} {P : α → Bytes → Prop}
    {Q : α → β → Bytes → Prop} (h : Inv m1 bs P) (hq : ∀ a r, P a r → r = bs ∧ Q a b bs) :
    Inv2 m1 (Pure.pure b : DeM β) bs Q := by
  intro s hs a s1 b' s2 e1 e2
  simp only [DeM.pure_apply, Prod.mk.injEq, Except.ok.injEq] at e2
  obtain ⟨rfl, rfl⟩ := e2
  obtain ⟨r, rfl, p⟩ := h s hs a s1 e1
  obtain ⟨rfl, q⟩ := hq a r p
  exact ⟨r, rfl, rfl, q⟩

/-- `has_more` under two configurations: the successful answers agree -/
theorem hasMore_cfg_agree (cfg cfg2 : DeConfig) (ign : Bool) (bst : BlockState) (s : RState)
    (p p2 : Bool × BlockState) (s1 s2 : RState)
    (h1 : hasMore cfg ign bst s = (.ok p, s1)) (h2 : hasMore cfg2 ign bst s = (.ok p2, s2)) :
    p = p2 ∧ s1 = s2 := by
  obtain ⟨c, nr⟩ := bst
  cases c with
  | succ c =>
    simp only [hasMore, Prod.mk.injEq, Except.ok.injEq] at h1 h2
    exact ⟨h1.1.symm.trans h2.1, h1.2.symm.trans h2.2⟩
  | zero =>
    simp only [hasMore] at h1 h2
    cases hb : readBlockLen ign (s.rest.length + 2) s with
    | mk res t =>
      rw [hb] at h1 h2
      cases res with
      | error e => simp at h1
      | ok res =>
        cases res with
        | none =>
          simp only [Prod.mk.injEq, Except.ok.injEq] at h1 h2
          exact ⟨h1.1.symm.trans h2.1, h1.2.symm.trans h2.2⟩
        | some l =>
          simp only at h1 h2
          split at h1
          · simp at h1
          · split at h2
            · simp at h2
            · simp only [Prod.mk.injEq, Except.ok.injEq] at h1 h2
              exact ⟨h1.1.symm.trans h2.1, h1.2.symm.trans h2.2⟩

theorem inv2_hasMore (cfg cfg2 : DeConfig) (ign : Bool) (bst : BlockState) (bs : Bytes)
    {P : Bool × BlockState → Bytes → Prop} (h : Inv (hasMore cfg ign bst) bs P) :
    Inv2 (hasMore cfg ign bst) (hasMore cfg2 ign bst) bs (fun p p2 r => p = p2 ∧ P p r) := by
  intro s hs a s1 b s2 e1 e2
  obtain ⟨rfl, rfl⟩ := hasMore_cfg_agree cfg cfg2 ign bst _ a b s1 s2 e1 e2
  obtain ⟨r, rfl, p⟩ := h s hs a s1 e1
  exact ⟨r, rfl, rfl, rfl, p⟩

theorem Inv2.and_left {α β : Type} {m1 : DeM α} {m2 : DeM β} {bs : Bytes}
    {Q : α → β → Bytes → Prop} {P : α → Bytes → Prop} (h : Inv2 m1 m2 bs Q) (hp : Inv m1 bs P) :
    Inv2 m1 m2 bs (fun a b r => Q a b r ∧ P a r) := by
  intro s hs a s1 b s2 e1 e2
  obtain ⟨r, rfl, rfl, q⟩ := h s hs a s1 b s2 e1 e2
  obtain ⟨r', e, p⟩ := hp s hs a _ e1
  have : r' = r := by
    have := congrArg RState.rest e
    simp only [RState.mk'_rest] at this
    exact this.symm
  subst this
  exact ⟨r', rfl, rfl, q, p⟩

/-- the left reader first does a step that reads nothing -/
theorem Inv2.skip_left {α β γ : Type} {m0 : DeM γ} {f : γ → DeM α} {m2 : DeM β} {bs : Bytes}
    {Q : α → β → Bytes → Prop} (h0 : Inv m0 bs (fun _ r => r = bs))
    (h : ∀ c, Inv2 (f c) m2 bs Q) : Inv2 (m0 >>= f) m2 bs Q := by
  intro s hs a s1 b s2 e1 e2
  rw [DeM.bind_apply] at e1
  cases hm : m0 (s.mk' bs none) with
  | mk res t =>
    rw [hm] at e1
    cases res with
    | error e => simp at e1
    | ok c =>
      simp only at e1
      obtain ⟨r, rfl, rfl⟩ := h0 s hs c t hm
      exact h c s hs a s1 b s2 e1 e2

/-- … and the same on the right -/
theorem Inv2.skip_right {α β γ : Type} {m0 : DeM γ} {f : γ → DeM β} {m1 : DeM α} {bs : Bytes}
    {Q : α → β → Bytes → Prop} (h0 : Inv m0 bs (fun _ r => r = bs))
    (h : ∀ c, Inv2 m1 (f c) bs Q) : Inv2 m1 (m0 >>= f) bs Q := by
  intro s hs a s1 b s2 e1 e2
  rw [DeM.bind_apply] at e2
  cases hm : m0 (s.mk' bs none) with
  | mk res t =>
    rw [hm] at e2
    cases res with
    | error e => simp at e2
    | ok c =>
      simp only at e2
      obtain ⟨r, rfl, rfl⟩ := h0 s hs c t hm
      exact h c s hs a s1 b s2 e1 e2

variable (S : Schema)

/-- `decodeX Limits.impl` accepts a prefix of `bs` as a datum of `n` -/
def HasX (n : Node) (bs : Bytes) : Prop := ∃ rest, DecX S n bs rest

theorem hasX_union {vs : List Nat} {bs r : Bytes} {d k : Nat} {variant : Node}
    (hx : HasX S (.union vs) bs) (hd : decodeLenL Limits.impl bs = some (d, r))
    (hk : vs[d]? = some k) (hv : S[k]? = some variant) : HasX S variant r := by
  obtain ⟨rest, hx⟩ := hx
  obtain ⟨idx, r0', k', branch, hd', hk', hb', hx'⟩ := DecX_union S hx
  rw [hd] at hd'
  simp only [Option.some.injEq, Prod.mk.injEq] at hd'
  obtain ⟨rfl, rfl⟩ := hd'
  rw [hk] at hk'
  simp only [Option.some.injEq] at hk'
  subst hk'
  rw [hv] at hb'
  simp only [Option.some.injEq] at hb'
  subst hb'
  exact ⟨rest, hx'⟩

/-- the right-hand run stated through `de … .any` -/
theorem inv2_right_de {α : Type} {m : DeM α} {cfg2 : DeConfig} {n : Node} {d2 : Nat} {bs : Bytes}
    {Q : α → Out → Bytes → Prop}
    (H : ∀ f2, Inv2 m (deAny deExtModel cfg2 S f2 n d2 .any) bs Q) (f2 : Nat) :
    Inv2 m (de deExtModel cfg2 S f2 n d2 false .any) bs Q := by
  cases f2 with
  | zero => rw [de]; exact Inv2.fail_right _ _ _ _
  | succ f => rw [de]; exact H f

/-! ### 3. Leaves -/

/-- nodes `deserialize_any` reads without recursion and without looking at the hint -/
def Node.leafy : Node → Bool
  | .array _ | .map _ | .union _ | .record _ _ | .duration => false
  | _ => true

theorem observe_leaf_refl {n : Node} {v : Value} {o : Out} (hn : n.leafy = true)
    (h : observe S n v = some o) : consistent o o := by
  cases v with
  | union idx v => cases n <;> simp [observe, Node.leafy] at h hn
  | array items => cases n <;> simp [observe, Node.leafy] at h hn
  | map es => cases n <;> simp [observe, Node.leafy] at h hn
  | record vals => cases n <;> simp [observe, Node.leafy] at h hn
  | «enum» idx =>
    cases n <;> simp only [observe, Option.map_eq_some_iff, reduceCtorEq] at h
    obtain ⟨s, _, rfl⟩ := h
    simp [consistent]
  | decimal u =>
    cases n <;> simp only [observe, Option.map_eq_some_iff, reduceCtorEq] at h
    obtain ⟨s, _, rfl⟩ := h
    simp [consistent]
  | bigDecimal u sc =>
    simp only [observe, Option.map_eq_some_iff] at h
    obtain ⟨s, _, rfl⟩ := h
    simp [consistent]
  | duration mo d ms =>
    simp only [observe, Option.some.injEq] at h
    subst h
    simp [consistent, consistentM]
  | _ =>
    simp only [observe, Option.some.injEq] at h
    subst h
    simp [consistent]

theorem inv2_leaf (m : DeM Out) (cfg2 : DeConfig) (f2 : Nat) (n : Node) (d2 : Nat) (bs : Bytes)
    (hn : n.leafy = true) (e : m = deAny deExtModel cfg2 S f2 n d2 .any) :
    Inv2 m (deAny deExtModel cfg2 S f2 n d2 .any) bs (fun o' o _ => consistent o' o) := by
  subst e
  refine (Inv2.same ((sndAll cfg2 S f2).any n d2 bs)).mono ?_
  rintro a b r ⟨rfl, v, fS, _, hobs⟩
  exact observe_leaf_refl S hn hobs

theorem deIgnored_unit (ext : DeExt) (cfg : DeConfig) (f : Nat) (n : Node) (d : Nat)
    (s s' : RState) (o : Out) (h : deIgnored ext cfg S f n d s = (.ok o, s')) : o = .unit := by
  cases f with
  | zero => rw [deIgnored] at h; simp [DeM.fail_apply] at h
  | succ f =>
    cases n with
    | array k =>
      simp only [deIgnored] at h
      cases hk : S[k]? with
      | none => rw [hk] at h; simp [DeM.fail_apply] at h
      | some item =>
        rw [hk] at h
        simp only [DeM.bind_apply, DeM.pure_apply] at h
        (repeat' split at h) <;>
          first
            | (simp only [Prod.mk.injEq, Except.ok.injEq] at h; exact h.1.symm)
            | (simp at h)
    | map k =>
      simp only [deIgnored] at h
      cases hk : S[k]? with
      | none => rw [hk] at h; simp [DeM.fail_apply] at h
      | some item =>
        rw [hk] at h
        simp only [DeM.bind_apply, DeM.pure_apply] at h
        (repeat' split at h) <;>
          first
            | (simp only [Prod.mk.injEq, Except.ok.injEq] at h; exact h.1.symm)
            | (simp at h)
    | _ =>
      simp only [deIgnored, DeM.bind_apply, DeM.pure_apply] at h <;>
      (repeat' split at h) <;>
      first
        | (simp only [Prod.mk.injEq, Except.ok.injEq] at h; exact h.1.symm)
        | (simp at h)

theorem offerName_consistent (kh : Hint) (name : String) (idx : Nat) (dk : Bool) :
    consistent (offerName kh name idx dk) (.str name false) := by
  cases kh <;> cases dk <;> simp [offerName, consistent]

theorem durationOut_consistent (b : Bytes) (h : Hint) :
    consistent (durationOut b h) (durationOut b .any) := by
  have hk := fun name idx => offerName_consistent h.key name idx true
  simp only [durationOut, consistent, consistentM, Hint.key, Hint.valFor, offerName, isIgnoredHint]
  refine ⟨hk _ _, ?_, hk _ _, ?_, hk _ _, ?_, trivial⟩ <;> split <;> simp [consistent]

theorem durationSeqOut_consistent (b : Bytes) (eh : Hint) (mi : Option Nat)
    (hmi : mi = none ∨ mi = some 3) :
    consistent (durationSeqOut b eh mi) (durationOut b .any) := by
  have : mi.getD 3 = 3 := by rcases hmi with rfl | rfl <;> rfl
  simp only [durationSeqOut, this, durationOut, consistent, Hint.key, Hint.valFor, offerName,
    isIgnoredHint, List.map, List.take, consistentL]
  refine ⟨?_, ?_, ?_, trivial⟩ <;> split <;> simp [consistent]

/-! ### 4. Decimals under a numeric hint -/

theorem decTail_str (u : Int) (sc : Nat) (t t2 : RState) (b : Out)
    (h2 : decTail deExtModel .str u sc t = (.ok b, t2)) :
    ∃ str, decToStringModel u sc = some str ∧ b = .str str false := by
  unfold decTail at h2
  simp only [deExtModel] at h2
  cases hd : decToStringModel u sc with
  | none =>
    rw [hd] at h2
    by_cases hsc : sc = 0 <;>
      simp [hsc, DeM.fail_apply] at h2
  | some str =>
    rw [hd] at h2
    by_cases hsc : sc = 0 <;>
      simp [hsc, pure] at h2 <;>
      exact ⟨str, rfl, h2.1.symm⟩

theorem decTail_consistent (hint : DecHint) (u : Int) (sc : Nat) (t t1 : RState) (a : Out)
    (h1 : decTail deExtModel hint u sc t = (.ok a, t1)) (str : String)
    (hs : decToStringModel u sc = some str) : consistent a (.str str false) := by
  unfold decTail at h1
  simp only [deExtModel] at h1
  rw [hs] at h1
  by_cases hsc : sc = 0
  · subst hsc
    cases hint <;> simp [pure] at h1
    case str => obtain ⟨rfl, _⟩ := h1; simp [consistent]
    case f64 => obtain ⟨rfl, _⟩ := h1; simp [consistent]
    case i128 => obtain ⟨rfl, _⟩ := h1; simp [consistent, hs]
    case u64 =>
      split at h1
      · simp only [Prod.mk.injEq, Except.ok.injEq] at h1
        obtain ⟨rfl, _⟩ := h1; simp [consistent]
      · split at h1 <;> simp only [Prod.mk.injEq, Except.ok.injEq] at h1 <;>
          obtain ⟨rfl, _⟩ := h1 <;> simp [consistent, hs]
    case i64 =>
      split at h1 <;> simp only [Prod.mk.injEq, Except.ok.injEq] at h1 <;>
        obtain ⟨rfl, _⟩ := h1 <;> simp [consistent, hs]
    case u128 =>
      split at h1
      · rename_i hu
        simp only [Prod.mk.injEq, Except.ok.injEq] at h1
        obtain ⟨rfl, _⟩ := h1
        simp [consistent, hs, Int.toNat_of_nonneg hu]
      · simp only [Prod.mk.injEq, Except.ok.injEq] at h1
        obtain ⟨rfl, _⟩ := h1; simp [consistent, hs]
  · cases hint <;> simp [hsc, pure] at h1 <;> (obtain ⟨rfl, _⟩ := h1; simp [consistent])

theorem inv_decHead (mode : DecMode) (bs : Bytes) : Inv (decHead mode) bs (fun _ _ => True) := by
  intro s hs p t hh
  have h2 : readDecimal extOK mode .str (s.mk' bs none) = (.ok (.str "" false), t) := by
    rw [readDecimal_eq, DeM.bind_apply, hh]
    exact decTail_extOK p.1 p.2 t
  have : Inv (readDecimal extOK mode .str) bs (fun _ _ => True) := by
    cases mode with
    | big => exact (inv_readDecimal_big extOK bs).mono (fun _ _ _ => trivial)
    | regular sc repr =>
      cases repr with
      | bytes => exact (inv_readDecimal_bytes extOK sc bs).mono (fun _ _ _ => trivial)
      | fixed nm size => exact (inv_readDecimal_fixed extOK sc nm size bs).mono (fun _ _ _ => trivial)
  obtain ⟨r, e, _⟩ := this s hs _ t h2
  exact ⟨r, e, trivial⟩

/-- a decimal read through any visitor hint against the same decimal read by `deserialize_any` -/
theorem inv2_readDecimal (mode : DecMode) (hint : DecHint) (bs : Bytes) :
    Inv2 (readDecimal deExtModel mode hint) (readDecimal deExtModel mode .str) bs
      (fun o' o _ => consistent o' o) := by
  rw [readDecimal_eq, readDecimal_eq]
  refine Inv2.bind (Inv2.same (inv_decHead mode bs)) ?_
  rintro p _ r ⟨rfl, _⟩
  intro s hs a s1 b s2 e1 e2
  have t1 := decTail_noRead deExtModel hint p.1 p.2 (s.mk' r none)
  have t2 := decTail_noRead deExtModel .str p.1 p.2 (s.mk' r none)
  rw [e1] at t1
  rw [e2] at t2
  simp only at t1 t2
  subst t1 t2
  obtain ⟨str, hstr, rfl⟩ := decTail_str _ _ _ _ _ e2
  exact ⟨r, rfl, rfl, decTail_consistent hint _ _ _ _ _ e1 str hstr⟩

/-! ### 5. The relational induction on the fuel of the typed run -/

/-- the result relation: what the typed run delivers is consistent with what the self-describing
    run delivers -/
abbrev QC : Out → Out → Bytes → Prop := fun o' o _ => consistent o' o

structure TV (cfg : DeConfig) (S : Schema) (ok : Hint → Node → Prop) (fuel : Nat) : Prop where
  any : ∀ cfg2 f2 n d d2 h bs, h.anyRouted = true → ok h n → HasX S n bs →
    Inv2 (deAny deExtModel cfg S fuel n d h) (deAny deExtModel cfg2 S f2 n d2 .any) bs QC
  de : ∀ cfg2 f2 n d d2 favor h bs, ok h n → HasX S n bs →
    Inv2 (de deExtModel cfg S fuel n d favor h) (deAny deExtModel cfg2 S f2 n d2 .any) bs QC
  tn : ∀ cfg2 f2 n d d2 vts bs, (∀ vh, lookupVariant n.typeName vts = some vh → ok vh.toHint n) →
    HasX S n bs →
    Inv2 (deTypeNameEnum deExtModel cfg S fuel n d vts) (deAny deExtModel cfg2 S f2 n d2 .any) bs QC
  seq : ∀ cfg2 f2 item d d2 eh mi bst acc acc2 bs, ok eh item →
    (∃ r1 rest, ItmX S item bst.current bs r1 ∧ BlkX S item r1 rest) →
    consistentL acc.reverse acc2.reverse →
    Inv2 (deSeqLoop deExtModel cfg S fuel item d false eh mi bst acc)
      (deSeqLoop deExtModel cfg2 S f2 item d2 false .any none bst acc2) bs
      (fun a b _ => consistentL a b)
  map : ∀ cfg2 f2 item d d2 h bst acc acc2 bs, (∀ name, ok (h.valFor name) item) →
    (∃ r1 rest, MItmX S item bst.current bs r1 ∧ MBlkX S item r1 rest) →
    consistentM acc.reverse acc2.reverse →
    Inv2 (deMapLoop deExtModel cfg S fuel item d false h bst acc)
      (deMapLoop deExtModel cfg2 S f2 item d2 false .any bst acc2) bs
      (fun a b _ => consistentM a b)
  fields : ∀ cfg2 f2 fields d d2 h acc acc2 bs,
    (∀ name k fnode, (name, k) ∈ fields → S[k]? = some fnode → ok (h.valFor (some name)) fnode) →
    (∃ rest, FldX S (fields.map (·.2)) bs rest) →
    consistentM acc.reverse acc2.reverse →
    Inv2 (deRecordFields deExtModel cfg S fuel fields d h acc)
      (deRecordFields deExtModel cfg2 S f2 fields d2 .any acc2) bs
      (fun a b _ => consistentM a b)

variable (cfg : DeConfig) {ok : Hint → Node → Prop} (hc : OkClosed S ok)

include hc in
theorem tv_succ_seq (g : Nat) (ih : TV cfg S ok g) (cfg2 : DeConfig) (f2 : Nat) (item : Node)
    (d d2 : Nat) (eh : Hint) (mi : Option Nat) (bst : BlockState) (acc acc2 : List Out) (bs : Bytes)
    (hok : ok eh item)
    (hx : ∃ r1 rest, ItmX S item bst.current bs r1 ∧ BlkX S item r1 rest)
    (hacc : consistentL acc.reverse acc2.reverse) :
    Inv2 (deSeqLoop deExtModel cfg S (g + 1) item d false eh mi bst acc)
      (deSeqLoop deExtModel cfg2 S f2 item d2 false .any none bst acc2) bs
      (fun a b _ => consistentL a b) := by
  obtain ⟨r1, rest, hi, hb⟩ := hx
  cases f2 with
  | zero => rw [deSeqLoop]; exact Inv2.fail_right _ _ _ _
  | succ g2 =>
    rw [deSeqLoop, deSeqLoop]
    have hm := inv2_hasMore cfg cfg2 false bst bs
      (inv_hasMore_gen (BlkX_unfold S item) (fun _ _ => ItmX_zero S) cfg false bst bs)
    simp only [reduceCtorEq, if_false, Option.map_none]
    by_cases hmi : mi = some 0
    · simp only [hmi, if_true]
      refine Inv2.bind hm ?_
      rintro ⟨more, bst'⟩ _ r0 ⟨rfl, hpost⟩
      cases more with
      | true => simp only [if_true]; exact Inv2.fail_left _ _ _ _
      | false =>
        simp only [Bool.false_eq_true, if_false, Bool.not_false, if_true]
        exact Inv2.pure hacc
    · simp only [hmi, if_false]
      refine Inv2.bind hm ?_
      rintro ⟨more, bst'⟩ _ r0 ⟨rfl, hpost⟩
      cases more with
      | false =>
        simp only [Bool.not_false, if_true]
        exact Inv2.pure hacc
      | true =>
        simp only [Bool.not_true, Bool.false_eq_true, if_false]
        obtain ⟨r1', hi', hb'⟩ := (hpost r1 rest hi hb).2 rfl
        obtain ⟨ra, hd, hi''⟩ := ItmX_succ S hi'
        refine Inv2.bind ((inv2_right_de S (fun f => ih.de cfg2 f item d d2 false eh r0 hok ⟨ra, hd⟩)
          g2).and_left ((tc S cfg hc g).de item d false eh r0 hok)) ?_
        intro o' o r ⟨hcons, hcq⟩
        have := hcq ra hd
        subst this
        refine ih.seq cfg2 g2 item d d2 eh _ bst' (o' :: acc) (o :: acc2) r hok
          ⟨r1', rest, hi'', hb'⟩ ?_
        simp only [List.reverse_cons]
        exact consistentL_snoc hacc hcons

include hc in
theorem tv_succ_map (g : Nat) (ih : TV cfg S ok g) (cfg2 : DeConfig) (f2 : Nat) (item : Node)
    (d d2 : Nat) (h : Hint) (bst : BlockState) (acc acc2 : List (Out × Out)) (bs : Bytes)
    (hok : ∀ name, ok (h.valFor name) item)
    (hx : ∃ r1 rest, MItmX S item bst.current bs r1 ∧ MBlkX S item r1 rest)
    (hacc : consistentM acc.reverse acc2.reverse) :
    Inv2 (deMapLoop deExtModel cfg S (g + 1) item d false h bst acc)
      (deMapLoop deExtModel cfg2 S f2 item d2 false .any bst acc2) bs
      (fun a b _ => consistentM a b) := by
  obtain ⟨r1, rest, hi, hb⟩ := hx
  cases f2 with
  | zero => rw [deMapLoop]; exact Inv2.fail_right _ _ _ _
  | succ g2 =>
    rw [deMapLoop, deMapLoop]
    have hm := inv2_hasMore cfg cfg2 false bst bs
      (inv_hasMore_gen (MBlkX_unfold S item) (fun _ _ => MItmX_zero S) cfg false bst bs)
    refine Inv2.bind hm ?_
    rintro ⟨more, bst'⟩ _ r0 ⟨rfl, hpost⟩
    cases more with
    | false =>
      simp only [Bool.not_false, if_true]
      exact Inv2.pure hacc
    | true =>
      simp only [Bool.not_true, Bool.false_eq_true, if_false]
      obtain ⟨r1', hi', hb'⟩ := (hpost r1 rest hi hb).2 rfl
      obtain ⟨k, ra2, rb2, hs, hd, hi''⟩ := MItmX_succ S hi'
      refine Inv2.bind (Inv2.same (inv_readLen r0)) ?_
      rintro n _ ra ⟨rfl, hlen⟩
      refine Inv2.bind (Inv2.same (inv_readSlice n ra)) ?_
      rintro ⟨kb, borrowed⟩ _ rb ⟨rfl, ht, hbor⟩
      simp only at ht hbor
      have := cq_string_of hlen ht hs
      subst this
      refine Inv2.bind (Q1 := fun p p2 r => r = rb ∧ consistent p.1 p2.1) ?_ ?_
      · simp only [Hint.key]
        cases hkb : bytesToStr? kb with
        | none =>
          simp only
          exact Inv2.fail_right _ _ _ _
        | some str =>
          simp only
          split
          · exact Inv2.pure ⟨rfl, by simp [consistent]⟩
          · exact Inv2.pure ⟨rfl, by simp [consistent]⟩
      · rintro ⟨kOut, kName⟩ ⟨kOut2, kName2⟩ r ⟨rfl, hk⟩
        simp only at hk
        have hv2 : Hint.valFor .any kName2 = .any := rfl
        rw [hv2]
        refine Inv2.bind ((inv2_right_de S (fun f => ih.de cfg2 f item d d2 false (h.valFor kName) r
          (hok kName) ⟨rb2, hd⟩) g2).and_left
            ((tc S cfg hc g).de item d false (h.valFor kName) r (hok kName))) ?_
        intro o' o rc ⟨hcons, hcq⟩
        have := hcq rb2 hd
        subst this
        refine ih.map cfg2 g2 item d d2 h bst' ((kOut, o') :: acc) ((kOut2, o) :: acc2) rc hok
          ⟨r1', rest, hi'', hb'⟩ ?_
        simp only [List.reverse_cons]
        exact consistentM_snoc hacc hk hcons

include hc in
theorem tv_fields (g : Nat) (ih : ∀ g', g = g' + 1 → TV cfg S ok g') (cfg2 : DeConfig) (f2 : Nat)
    (fields : List (String × Nat)) (d d2 : Nat) (h : Hint) (acc acc2 : List (Out × Out))
    (bs : Bytes)
    (hok : ∀ name k fnode, (name, k) ∈ fields → S[k]? = some fnode →
      ok (h.valFor (some name)) fnode)
    (hx : ∃ rest, FldX S (fields.map (·.2)) bs rest)
    (hacc : consistentM acc.reverse acc2.reverse) :
    Inv2 (deRecordFields deExtModel cfg S g fields d h acc)
      (deRecordFields deExtModel cfg2 S f2 fields d2 .any acc2) bs
      (fun a b _ => consistentM a b) := by
  cases fields with
  | nil =>
    rw [deRecordFields, deRecordFields]
    exact Inv2.pure hacc
  | cons fk fs =>
    obtain ⟨name, k⟩ := fk
    cases g with
    | zero => rw [deRecordFields]; exact Inv2.fail_left _ _ _ _
    | succ g' =>
      have ih := ih g' rfl
      cases f2 with
      | zero => rw [deRecordFields.eq_2]; exact Inv2.fail_right _ _ _ _
      | succ g2 =>
        rw [deRecordFields, deRecordFields]
        obtain ⟨rest, hx⟩ := hx
        simp only [List.map_cons] at hx
        obtain ⟨n', ra', hn', hd, hf⟩ := FldX_cons S hx
        rw [hn']
        simp only
        have hok1 := hok name k n' (List.mem_cons_self ..) hn'
        have hv2 : Hint.valFor .any (some name) = .any := rfl
        rw [hv2]
        refine Inv2.bind ((inv2_right_de S (fun f => ih.de cfg2 f n' d d2 false
          (h.valFor (some name)) bs hok1 ⟨ra', hd⟩) g2).and_left
            ((tc S cfg hc g').de n' d false (h.valFor (some name)) bs hok1)) ?_
        intro o' o r ⟨hcons, hcq⟩
        have := hcq ra' hd
        subst this
        refine ih.fields cfg2 g2 fs d d2 h _ _ r
          (fun nm' k' fn' hm hn => hok nm' k' fn' (List.mem_cons_of_mem _ hm) hn) ⟨rest, hf⟩ ?_
        simp only [List.reverse_cons]
        exact consistentM_snoc hacc (offerName_consistent _ _ _ _) hcons

theorem inv2_decDepth (d d2 : Nat) (bs : Bytes) :
    Inv2 (decDepth d) (decDepth d2) bs (fun _ _ r => r = bs) :=
  Inv2.of_inv (inv_decDepth d bs) (inv_decDepth d2 bs) (fun _ _ _ _ h1 h2 => ⟨h1.trans h2.symm, h1⟩)

include hc in
theorem tv_succ_any (g : Nat) (ih : TV cfg S ok g) (cfg2 : DeConfig) (f2 : Nat) (n : Node)
    (d d2 : Nat) (h : Hint) (bs : Bytes) (hr : h.anyRouted = true) (hok : ok h n)
    (hx : HasX S n bs) :
    Inv2 (deAny deExtModel cfg S (g + 1) n d h) (deAny deExtModel cfg2 S f2 n d2 .any) bs QC := by
  cases f2 with
  | zero => rw [deAny.eq_1]; exact Inv2.fail_right _ _ _ _
  | succ g2 =>
  obtain ⟨rest, hx⟩ := hx
  cases n with
  | array k =>
    rw [deAny, deAny]
    cases hitem : S[k]? with
    | none => exact Inv2.fail_left _ _ _ _
    | some item =>
      simp only
      refine Inv2.bind (inv2_decDepth d d2 bs) ?_
      rintro dd dd2 r rfl
      refine Inv2.bind (ih.seq cfg2 g2 item dd dd2 h.elem h.maxItems {} [] [] r
        (hc.any_array h k item hr hok hitem) ⟨r, rest, ⟨0, [], rfl⟩, DecX_array S hx hitem⟩
        (by simp [consistentL])) ?_
      intro items items2 r' hcons
      exact Inv2.pure (by simpa [QC, consistent] using hcons)
  | map k =>
    rw [deAny, deAny]
    cases hitem : S[k]? with
    | none => exact Inv2.fail_left _ _ _ _
    | some item =>
      simp only
      refine Inv2.bind (inv2_decDepth d d2 bs) ?_
      rintro dd dd2 r rfl
      refine Inv2.bind (ih.map cfg2 g2 item dd dd2 h {} [] [] r
        (fun name => hc.any_map h k item name hr hok hitem)
        ⟨r, rest, ⟨0, [], rfl⟩, DecX_map S hx hitem⟩ (by simp [consistentM])) ?_
      intro items items2 r' hcons
      exact Inv2.pure (by simpa [QC, consistent] using hcons)
  | union vs =>
    rw [deAny, deAny]
    refine Inv2.bind (Inv2.same (inv_readLen bs)) ?_
    rintro dsc _ r0 ⟨rfl, hd⟩
    cases hk : vs[dsc]? with
    | none => exact Inv2.fail_left _ _ _ _
    | some k =>
      simp only
      cases hvar : S[k]? with
      | none => exact Inv2.fail_left _ _ _ _
      | some variant =>
        simp only
        refine Inv2.bind (inv2_decDepth d d2 r0) ?_
        rintro dd dd2 r rfl
        exact ih.any cfg2 g2 variant dd dd2 h r hr (hc.any_union h vs dsc k variant hr hok hk hvar)
          (hasX_union S ⟨rest, hx⟩ hd hk hvar)
  | record nm fields =>
    rw [deAny, deAny]
    refine Inv2.bind (inv2_decDepth d d2 bs) ?_
    rintro dd dd2 r rfl
    refine Inv2.bind (ih.fields cfg2 g2 fields dd dd2 h [] [] r
      (fun name k fnode hm hn => hc.any_record h nm fields name k fnode hr hok hm hn)
      ⟨rest, DecX_record S hx⟩ (by simp [consistentM])) ?_
    intro es es2 r' hcons
    exact Inv2.pure (by simpa [QC, consistent] using hcons)
  | duration =>
    rw [deAny, deAny]
    refine Inv2.bind (Inv2.same (inv_readExact 12 bs)) ?_
    rintro b _ r ⟨rfl, _⟩
    exact Inv2.pure (durationOut_consistent b h)
  | _ => exact inv2_leaf S _ cfg2 _ _ d2 bs rfl (by rw [deAny, deAny])

include hc in
/-- an ignoring read against the self-describing read: both consume the datum -/
theorem inv2_ignored (g : Nat) (cfg2 : DeConfig) (f2 : Nat) (n : Node) (d d2 : Nat) (bs : Bytes)
    (hx : HasX S n bs) :
    Inv2 (deIgnored deExtModel cfg S g n d) (deAny deExtModel cfg2 S f2 n d2 .any) bs
      (fun o' _ _ => o' = .unit) := by
  obtain ⟨rest, hx⟩ := hx
  have h1 : Inv (deIgnored deExtModel cfg S g n d) bs (fun o r => o = .unit ∧ CQ S n bs o r) := by
    intro s hs a s' hrun
    obtain ⟨r, e, q⟩ := (tc S cfg hc g).ign n d bs s hs a s' hrun
    exact ⟨r, e, deIgnored_unit S _ _ _ _ _ _ _ _ hrun, q⟩
  exact Inv2.of_inv h1 ((tc S cfg2 hc f2).any n d2 .any bs rfl (hc.any_ok n))
    (fun a r1 b r2 q1 q2 => ⟨(q1.2 rest hx).trans (q2 rest hx).symm, q1.1⟩)

include hc in
theorem tv_succ_tn (g : Nat) (ih : TV cfg S ok g) (cfg2 : DeConfig) (f2 : Nat) (n : Node)
    (d d2 : Nat) (vts : List (String × VariantHint)) (bs : Bytes)
    (hv : ∀ vh, lookupVariant n.typeName vts = some vh → ok vh.toHint n) (hx : HasX S n bs) :
    Inv2 (deTypeNameEnum deExtModel cfg S (g + 1) n d vts)
      (deAny deExtModel cfg2 S f2 n d2 .any) bs QC := by
  rw [deTypeNameEnum]
  simp only [selectVariant]
  cases hl : lookupVariant n.typeName vts with
  | none => exact Inv2.fail_left _ _ _ _
  | some vh =>
    have hokv := hv vh hl
    cases vh with
    | unit =>
      refine Inv2.bind_left (inv2_ignored S cfg hc g cfg2 f2 n d d2 bs hx) ?_
      intro a b r _
      exact Inv2.pure (by simp [QC, consistent])
    | newtype h =>
      refine Inv2.bind_left (ih.de cfg2 f2 n d d2 false h bs hokv hx) ?_
      intro a b r q
      exact Inv2.pure (by simp only [QC, consistent]; exact Or.inr q)
    | tuple k e =>
      refine Inv2.bind_left (ih.de cfg2 f2 n d d2 false (.tuple k e) bs hokv hx) ?_
      intro a b r q
      exact Inv2.pure (by simp only [QC, consistent]; exact Or.inr q)
    | struct fs =>
      refine Inv2.bind_left (ih.de cfg2 f2 n d d2 false (.struct fs) bs hokv hx) ?_
      intro a b r q
      exact Inv2.pure (by simp only [QC, consistent]; exact Or.inr q)

include hc in
theorem tv_succ_de (g : Nat) (ih : TV cfg S ok g) (cfg2 : DeConfig) (f2 : Nat) (n : Node)
    (d d2 : Nat) (favor : Bool) (h : Hint) (bs : Bytes) (hok : ok h n) (hx : HasX S n bs) :
    Inv2 (de deExtModel cfg S (g + 1) n d favor h) (deAny deExtModel cfg2 S f2 n d2 .any) bs QC := by
  cases f2 with
  | zero => rw [deAny.eq_1]; exact Inv2.fail_right _ _ _ _
  | succ g2 =>
  have routed : ∀ h', h'.anyRouted = true → ok h' n →
      Inv2 (deAny deExtModel cfg S g n d h') (deAny deExtModel cfg2 S (g2 + 1) n d2 .any) bs QC :=
    fun h' hr hok' => ih.any cfg2 (g2 + 1) n d d2 h' bs hr hok' hx
  cases h with
  | any => rw [de]; exact routed _ rfl hok
  | ignored =>
    rw [de]
    refine (inv2_ignored S cfg hc g cfg2 _ n d d2 bs hx).mono ?_
    intro a b r e
    subst e
    simp [QC, consistent]
  | map kh vh => rw [de]; exact routed _ rfl hok
  | struct fs => rw [de]; exact routed _ rfl hok
  | u64 =>
    cases n with
    | «enum» nm syms =>
      rw [de, deAny]
      refine Inv2.of_inv
        (Q1 := fun o r => (∃ m, o = .u64 m) ∧ ∃ i, decodeLongL Limits.impl bs = some (i, r))
        (Q2 := fun o r => (∃ s b, o = .str s b) ∧ ∃ i, decodeLongL Limits.impl bs = some (i, r))
        ?_ ?_ ?_
      · refine Inv.bind (inv_varint_i64 bs) ?_
        intro i r hd
        split
        · exact Inv.fail _ _ _
        · exact Inv.pure ⟨⟨_, rfl⟩, i, hd⟩
      · refine Inv.bind (inv_readLen bs) ?_
        intro dsc r hd
        split
        · exact Inv.fail _ _ _
        · obtain ⟨j, hj, _⟩ := decodeLenL_inv hd
          exact Inv.pure ⟨⟨_, _, rfl⟩, j, hj⟩
      · rintro a r1 b r2 ⟨⟨m, rfl⟩, i, h1⟩ ⟨⟨s, b', rfl⟩, j, h2⟩
        rw [h1] at h2
        simp only [Option.some.injEq, Prod.mk.injEq] at h2
        exact ⟨h2.2, by simp [QC, consistent]⟩
    | decimal sc pr repr => rw [de, deAny]; exact inv2_readDecimal _ .u64 bs
    | bigDecimal => rw [de, deAny]; exact inv2_readDecimal _ .u64 bs
    | _ =>
      rw [de]
      · exact routed _ rfl hok
      all_goals (intros; contradiction)
  | i64 =>
    cases n with
    | long => exact inv2_leaf S _ cfg2 _ _ d2 bs rfl (by rw [de, deAny])
    | decimal sc pr repr => rw [de, deAny]; exact inv2_readDecimal _ .i64 bs
    | bigDecimal => rw [de, deAny]; exact inv2_readDecimal _ .i64 bs
    | _ =>
      rw [de]
      · exact routed _ rfl hok
      all_goals (intros; contradiction)
  | u128 =>
    cases n with
    | decimal sc pr repr => rw [de, deAny]; exact inv2_readDecimal _ .u128 bs
    | bigDecimal => rw [de, deAny]; exact inv2_readDecimal _ .u128 bs
    | _ =>
      rw [de]
      · exact routed _ rfl hok
      all_goals (intros; contradiction)
  | i128 =>
    cases n with
    | decimal sc pr repr => rw [de, deAny]; exact inv2_readDecimal _ .i128 bs
    | bigDecimal => rw [de, deAny]; exact inv2_readDecimal _ .i128 bs
    | _ =>
      rw [de]
      · exact routed _ rfl hok
      all_goals (intros; contradiction)
  | f64 =>
    cases n with
    | double => exact inv2_leaf S _ cfg2 _ _ d2 bs rfl (by rw [de, deAny])
    | decimal sc pr repr => rw [de, deAny]; exact inv2_readDecimal _ .f64 bs
    | bigDecimal => rw [de, deAny]; exact inv2_readDecimal _ .f64 bs
    | _ =>
      rw [de]
      · exact routed _ rfl hok
      all_goals (intros; contradiction)
  | str =>
    cases n with
    | string => exact inv2_leaf S _ cfg2 _ _ d2 bs rfl (by rw [de, deAny])
    | bytes =>
      rw [de, deAny]
      refine Inv2.of_inv (inv_readString bs) (inv_readBytes bs) ?_
      rintro a r1 b r2 ⟨str, hs, rfl⟩ ⟨b', hb, rfl⟩
      unfold decodeStringL at hs
      rw [hb] at hs
      simp only at hs
      split at hs
      · rename_i s' hutf
        simp only [Option.some.injEq, Prod.mk.injEq] at hs
        obtain ⟨rfl, rfl⟩ := hs
        exact ⟨rfl, by simp only [QC, consistent, bytesToStr?]; exact hutf⟩
      · cases hs
    | fixed nm size =>
      rw [de, deAny]
      refine Inv2.bind (Inv2.same (inv_readSlice size bs)) ?_
      rintro ⟨b, bor⟩ _ r ⟨rfl, _, _⟩
      dsimp only
      cases hb : bytesToStr? b with
      | none => exact Inv2.fail_left _ _ _ _
      | some str => exact Inv2.pure (by simp [QC, consistent, hb])
    | _ =>
      rw [de]
      · exact routed _ rfl hok
      all_goals (intros; contradiction)
  | bytes =>
    cases n with
    | bytes => exact inv2_leaf S _ cfg2 _ _ d2 bs rfl (by rw [de, deAny])
    | duration =>
      rw [de, deAny]
      refine Inv2.of_inv
        (Q1 := fun o r => ∃ b bor, takeN 12 bs = some (b, r) ∧ o = .bytes b bor)
        (Q2 := fun o r => ∃ b, takeN 12 bs = some (b, r) ∧ o = durationOut b .any) ?_ ?_ ?_
      · refine Inv.bind (inv_readSlice 12 bs) ?_
        rintro ⟨b, bor⟩ r ⟨ht, _⟩
        exact Inv.pure ⟨b, bor, ht, rfl⟩
      · refine Inv.bind (inv_readExact 12 bs) ?_
        intro b r ht
        exact Inv.pure ⟨b, ht, rfl⟩
      · rintro a r1 b r2 ⟨b1, bor, h1, rfl⟩ ⟨b2, h2, rfl⟩
        rw [h1] at h2
        simp only [Option.some.injEq, Prod.mk.injEq] at h2
        obtain ⟨rfl, rfl⟩ := h2
        exact ⟨rfl, by simp [QC, consistent, durationOut]⟩
    | _ =>
      rw [de]
      · exact routed _ rfl hok
      all_goals (intros; contradiction)
  | identifier =>
    cases n with
    | int =>
      rw [de, deAny]
      refine Inv2.bind (Inv2.same (inv_varint_i32 bs)) ?_
      rintro v _ r ⟨rfl, _⟩
      split
      · exact Inv2.fail_left _ _ _ _
      · exact Inv2.pure (by simp only [QC, consistent]; omega)
    | long =>
      rw [de, deAny]
      refine Inv2.bind (Inv2.same (inv_varint_i64 bs)) ?_
      rintro v _ r ⟨rfl, _⟩
      split
      · exact Inv2.fail_left _ _ _ _
      · exact Inv2.pure (by simp only [QC, consistent]; omega)
    | _ =>
      rw [de]
      · exact routed _ rfl hok
      all_goals (intros; contradiction)
  | seq e =>
    cases n with
    | duration =>
      rw [de, deAny]
      refine Inv2.bind (Inv2.same (inv_readExact 12 bs)) ?_
      rintro b _ r ⟨rfl, _⟩
      exact Inv2.pure (durationSeqOut_consistent b _ none (Or.inl rfl))
    | _ =>
      rw [de]
      · exact routed _ rfl hok
      all_goals (intros; contradiction)
  | tuple k e =>
    cases n with
    | duration =>
      rw [de]
      by_cases hk : k = 3
      · simp only [hk, if_true]
        rw [deAny]
        refine Inv2.bind (Inv2.same (inv_readExact 12 bs)) ?_
        rintro b _ r ⟨rfl, _⟩
        exact Inv2.pure (durationSeqOut_consistent b _ (some 3) (Or.inr rfl))
      · simp only [hk, if_false]
        exact routed _ rfl hok
    | _ =>
      rw [de]
      · exact routed _ rfl hok
      all_goals (intros; contradiction)
  | option inner =>
    cases n with
    | null =>
      rw [de, deAny]
      exact Inv2.pure (by simp [QC, consistent])
    | union vs =>
      rw [de, deAny]
      refine Inv2.bind (Inv2.same (inv_readLen bs)) ?_
      rintro dsc _ r0 ⟨rfl, hd⟩
      cases hk : vs[dsc]? with
      | none => exact Inv2.fail_left _ _ _ _
      | some k =>
        simp only
        cases hvar : S[k]? with
        | none => exact Inv2.fail_left _ _ _ _
        | some variant =>
          simp only
          split
          · exact Inv2.fail_left _ _ _ _
          · rename_i hnull
            simp only [Option.some.injEq] at hnull
            subst hnull
            refine Inv2.skip_right (inv_decDepth d2 r0) ?_
            intro dd2
            cases g2 with
            | zero => rw [deAny]; exact Inv2.fail_right _ _ _ _
            | succ g3 => rw [deAny]; exact Inv2.pure (by simp [QC, consistent])
          · rename_i variant' hnn hvar'
            simp only [Option.some.injEq] at hvar'
            subst hvar'
            refine Inv2.bind (inv2_decDepth d d2 r0) ?_
            rintro dd dd2 r rfl
            refine Inv2.bind_left (ih.de cfg2 g2 variant dd dd2 _ inner r
              (hc.opt_union inner vs dsc k variant hok hk hvar) (hasX_union S hx hd hk hvar)) ?_
            intro a b r' q
            exact Inv2.pure (by simp only [QC, consistent]; exact Or.inl q)
    | _ =>
      rw [de]
      · refine Inv2.bind_left (ih.de cfg2 (g2 + 1) _ d d2 favor inner bs
          (hc.opt_other inner _ hok (by intro vs e; cases e)) hx) ?_
        intro a b r' q
        exact Inv2.pure (by simp only [QC, consistent]; exact Or.inl q)
      all_goals (intros; contradiction)
  | «enum» variants =>
    cases n with
    | union vs =>
      rw [de]
      split
      · exact ih.tn cfg2 (g2 + 1) _ d d2 variants bs
          (fun vh hv => hc.enum_here variants _ vh hok hv) hx
      · rw [deAny]
        refine Inv2.bind (Inv2.same (inv_readLen bs)) ?_
        rintro dsc _ r0 ⟨rfl, hd⟩
        cases hk : vs[dsc]? with
        | none => exact Inv2.fail_left _ _ _ _
        | some k =>
          simp only
          cases hvar : S[k]? with
          | none => exact Inv2.fail_left _ _ _ _
          | some variant =>
            simp only
            refine Inv2.bind (inv2_decDepth d d2 r0) ?_
            rintro dd dd2 r rfl
            exact ih.tn cfg2 g2 variant dd dd2 variants r
              (fun vh hv => hc.enum_union variants vs dsc k variant vh hok hk hvar hv)
              (hasX_union S hx hd hk hvar)
    | _ =>
      rw [de]
      · split
        · exact ih.tn cfg2 (g2 + 1) _ d d2 variants bs
            (fun vh hv => hc.enum_here variants _ vh hok hv) hx
        · first
          | (refine Inv2.skip_left (inv_decDepth d bs) ?_
             intro dd
             refine Inv2.bind_left (ih.de cfg2 (g2 + 1) _ dd d2 false .identifier bs
               (hc.ident_ok _) hx) ?_
             intro ident b r' q
             split
             · exact Inv2.pure (by simp [QC, consistent])
             · exact Inv2.fail_left _ _ _ _
             · exact Inv2.fail_left _ _ _ _)
          | (refine Inv2.skip_left (inv_decDepth d bs) ?_
             intro dd
             exact ih.tn cfg2 (g2 + 1) _ dd d2 variants bs
               (fun vh hv => hc.enum_here variants _ vh hok hv) hx)
      all_goals (intros; contradiction)

include hc in
theorem tv_zero : TV cfg S ok 0 := by
  refine ⟨?_, ?_, ?_, ?_, ?_, ?_⟩
  · intros; rw [deAny.eq_1]; exact Inv2.fail_left _ _ _ _
  · intros; rw [de]; exact Inv2.fail_left _ _ _ _
  · intros; rw [deTypeNameEnum]; exact Inv2.fail_left _ _ _ _
  · intros; rw [deSeqLoop.eq_1]; exact Inv2.fail_left _ _ _ _
  · intros; rw [deMapLoop.eq_1]; exact Inv2.fail_left _ _ _ _
  · intro cfg2 f2 fields d d2 h acc acc2 bs hok hx hacc
    exact tv_fields S cfg hc 0 (fun g' e => by cases e) cfg2 f2 fields d d2 h acc acc2 bs hok hx hacc

include hc in
theorem tv : ∀ fuel, TV cfg S ok fuel := by
  intro fuel
  induction fuel with
  | zero => exact tv_zero S cfg hc
  | succ g ih =>
    refine ⟨?_, ?_, ?_, ?_, ?_, ?_⟩
    · intro cfg2 f2 n d d2 h bs hr hok hx
      exact tv_succ_any S cfg hc g ih cfg2 f2 n d d2 h bs hr hok hx
    · intro cfg2 f2 n d d2 favor h bs hok hx
      exact tv_succ_de S cfg hc g ih cfg2 f2 n d d2 favor h bs hok hx
    · intro cfg2 f2 n d d2 vts bs hv hx
      exact tv_succ_tn S cfg hc g ih cfg2 f2 n d d2 vts bs hv hx
    · intro cfg2 f2 item d d2 eh mi bst acc acc2 bs hok hx hacc
      exact tv_succ_seq S cfg hc g ih cfg2 f2 item d d2 eh mi bst acc acc2 bs hok hx hacc
    · intro cfg2 f2 item d d2 h bst acc acc2 bs hok hx hacc
      exact tv_succ_map S cfg hc g ih cfg2 f2 item d d2 h bst acc acc2 bs hok hx hacc
    · intro cfg2 f2 fields d d2 h acc acc2 bs hok hx hacc
      exact tv_fields S cfg hc (g + 1) (fun g' e => by cases e; exact ih) cfg2 f2 fields d d2 h acc
        acc2 bs hok hx hacc

include hc in
/-- **What a typed read returns**, against a successful self-describing read of the same input
    (its own configuration, fuel and depth budget): the results are `consistent`, and the two reads
    end in the same state. -/
theorem typed_value_run (n : Node) (d fuel : Nat) (favor : Bool) (h : Hint) (hok : ok h n)
    (s s' : RState) (o' : Out)
    (hs : s.isSlice = true) (hl : s.limit = none) (ha : s.avail = 0)
    (hrun : de deExtModel cfg S fuel n d favor h s = (.ok o', s'))
    (cfg2 : DeConfig) (f2 d2 : Nat) (o : Out) (s2 : RState)
    (hany : de deExtModel cfg2 S f2 n d2 false .any s = (.ok o, s2))
    (hx : ∃ fX v rest, decodeX Limits.impl S fX n s.rest = some (v, rest)) :
    consistent o' o ∧ s' = s2 := by
  have e1 : s.mk' s.rest none = s := by
    obtain ⟨isS, r, av, sched, lc, ma, scr, lim⟩ := s
    simp only at hl
    subst hl
    rfl
  rw [← e1] at hrun hany
  obtain ⟨fX, v, rest, hx⟩ := hx
  have H := inv2_right_de S (fun f => (tv S cfg hc fuel).de cfg2 f n d d2 favor h s.rest hok
    ⟨rest, fX, v, hx⟩) f2
  obtain ⟨r, rfl, rfl, q⟩ := H s ⟨hs, ha⟩ o' s' o s2 hrun hany
  exact ⟨q, rfl⟩

/-! ### 6. Requests that hand `deserialize_any`'s sub-requests to their children -/

/-- the sub-requests a visitor with this hint makes are those of the self-describing target -/
structure Hint.AnyLike (h : Hint) : Prop where
  elem : h.elem = .any
  maxItems : h.maxItems = none
  key : h.key = .any
  valFor : ∀ nm, h.valFor nm = .any

structure AC (cfg : DeConfig) (S : Schema) (h : Hint) (f : Nat) : Prop where
  any : ∀ n d, deAny deExtModel cfg S f n d h = deAny deExtModel cfg S f n d .any
  map : ∀ item d ign bst acc, deMapLoop deExtModel cfg S f item d ign h bst acc =
    deMapLoop deExtModel cfg S f item d ign .any bst acc
  fields : ∀ fields d acc, deRecordFields deExtModel cfg S f fields d h acc =
    deRecordFields deExtModel cfg S f fields d .any acc

theorem ac_fields (h : Hint) (hl : h.AnyLike) (f : Nat) (ih : ∀ g, f = g + 1 → AC cfg S h g)
    (fields : List (String × Nat)) (d : Nat) (acc : List (Out × Out)) :
    deRecordFields deExtModel cfg S f fields d h acc =
      deRecordFields deExtModel cfg S f fields d .any acc := by
  cases fields with
  | nil => rw [deRecordFields, deRecordFields]
  | cons fk fs =>
    cases f with
    | zero => rw [deRecordFields, deRecordFields]
    | succ g =>
      obtain ⟨name, k⟩ := fk
      rw [deRecordFields, deRecordFields]
      simp only [hl.key, hl.valFor, (ih g rfl).fields]
      rfl

theorem ac (h : Hint) (hl : h.AnyLike) : ∀ f, AC cfg S h f := by
  intro f
  induction f with
  | zero =>
    refine ⟨?_, ?_, ?_⟩
    · intro n d; rw [deAny.eq_1, deAny.eq_1]
    · intros; rw [deMapLoop.eq_1, deMapLoop.eq_1]
    · intro fields d acc
      exact ac_fields S cfg h hl 0 (fun g e => by cases e) fields d acc
  | succ g ih =>
    refine ⟨?_, ?_, ?_⟩
    · intro n d
      cases n <;> rw [deAny, deAny] <;>
        (try simp only [hl.elem, hl.maxItems, ih.any, ih.map, ih.fields]) <;>
        (try rfl)
      simp only [durationOut, hl.key, hl.valFor]
      rfl
    · intro item d ign bst acc
      rw [deMapLoop, deMapLoop]
      simp only [hl.key, hl.valFor, ih.map]
      rfl
    · intro fields d acc
      exact ac_fields S cfg h hl (g + 1) (fun g' e => by cases e; exact ih) fields d acc

/-- the (request, node) pairs of the shallow fragment: the request fits the node and asks its
    children for what `deserialize_any` asks -/
def shallowFits : Hint → Node → Bool
  | .seq .any, n => match n with
    | .duration => false
    | _ => true
  | .map .any .any, _ => true
  | .i64, .long => true
  | .f64, .double => true
  | .str, .string => true
  | .bytes, .bytes => true
  | _, _ => false

theorem de_shallow_eq (h : Hint) (n : Node) (hf : shallowFits h n = true) (f d : Nat)
    (fv : Bool) :
    de deExtModel cfg S (f + 2) n d fv h = de deExtModel cfg S (f + 2) n d false .any := by
  cases h with
  | seq e =>
    cases e <;> (try (simp [shallowFits] at hf; done))
    cases n <;> (try (simp [shallowFits] at hf; done)) <;>
      (rw [de, de]
       · exact (ac S cfg _ ⟨rfl, rfl, rfl, fun _ => rfl⟩ _).any _ _
       all_goals (intros; contradiction))
  | map k v =>
    cases k <;> (try (simp [shallowFits] at hf; done))
    cases v <;> (try (simp [shallowFits] at hf; done))
    rw [de, de]
    exact (ac S cfg _ ⟨rfl, rfl, rfl, fun _ => rfl⟩ _).any _ _
  | i64 =>
    cases n <;> (try (simp [shallowFits] at hf; done))
    rw [de, de, deAny]
  | f64 =>
    cases n <;> (try (simp [shallowFits] at hf; done))
    rw [de, de, deAny]
  | str =>
    cases n <;> (try (simp [shallowFits] at hf; done))
    rw [de, de, deAny]
  | bytes =>
    cases n <;> (try (simp [shallowFits] at hf; done))
    rw [de, de, deAny]
  | _ => first | (simp [shallowFits] at hf; done) | (cases n <;> simp [shallowFits] at hf)

end Avro.Impl
