import AvroModel.Lemmas.SerSoundRecord
import AvroModel.Lemmas.SerCanonicalDecimal
/-
C01 glue, part 1: every leaf serializer call, the union dispatchers, arrays, maps and durations
write the CANONICAL specification encoding of a value the presentation denotes.  The file follows
`SerSoundMain.lean` (the C02 development) lemma by lemma, with the decodability relation replaced
by "`bytes` IS `Spec.encode v`"; most proofs are the C02 proofs unchanged, the block writer, the
decimals and `duration` are new.

Differences with the C02 development:
* `Dec S n bytes v` here means `Spec.encode S n v = some bytes` (it implies the C02 relation by
  `Spec.decode_encode`);
* sequences/maps: on an `array`/`map` node the block writer emits one block exactly when the
  advertised length covers the elements (`elems.length ≤ len.getD 0`), or when nothing is
  advertised and there is exactly one element (`lenCovers`);
* integers on a `decimal`/`bytes` node: `serIntegerAsDecimal` strips leading zero bytes only, so a
  negative integer is written on 16 bytes (valid, not minimal);
* both are hypotheses of the form "the presentation does not do X, or the schema has no node on
  which X matters": `svCanon nb sv` with the permissions `nb : Allow`, and `NodeOK … nb …` which
  extends the C02 `NodeOK` with `nodeAllows nb`.
-/
namespace Avro.Canon
open Avro Avro.Spec Avro.Impl

/-! ### Canonical encodings -/

/-- `bytes` is the canonical encoding of `v` at node `n` -/
abbrev Dec (S : Schema) (n : Node) (bytes : Bytes) (v : Value) : Prop := encode S n v = some bytes

theorem Dec.of_encode {S : Schema} {n : Node} {v : Value} {bytes : Bytes}
    (h : encode S n v = some bytes) : Dec S n bytes v := h

/-- the canonical encoding is decodable in the sense of C02 -/
theorem Dec.to_dec {S : Schema} {n : Node} {v : Value} {bytes : Bytes} (h : Dec S n bytes v) :
    Avro.Dec S n bytes v := Avro.Dec.of_encode h

theorem Dec.union {S : Schema} {vs : List Nat} {d k : Nat} {n : Node} {bytes : Bytes} {y : Value}
    (hk : vs[d]? = some k) (hn : S[k]? = some n) (hd : d < 2 ^ 63) (h : Dec S n bytes y) :
    Dec S (.union vs) (encodeLong d ++ bytes) (.union d y) := by
  show encode S (.union vs) (.union d y) = _
  have h' : encode S n y = some bytes := h
  simp only [encode, hk, nodeOf, hn, h', hd, if_true]

theorem Dec.array {S : Schema} {k : Nat} {item : Node} {body : Bytes} {vs : List Value}
    (hk : S[k]? = some item) (h : encodeItems S item vs = some body) (hl : vs.length < 2 ^ 63) :
    Dec S (.array k) ((if vs.isEmpty then [] else encodeLong vs.length ++ body) ++ [0]) (.array vs) := by
  show encode S (.array k) (.array vs) = _
  simp only [encode, nodeOf, hk, h, hl, if_true]

theorem Dec.map {S : Schema} {k : Nat} {item : Node} {body : Bytes} {vs : List (String × Value)}
    (hk : S[k]? = some item) (h : encodeEntries S item vs = some body) (hl : vs.length < 2 ^ 63) :
    Dec S (.map k) ((if vs.isEmpty then [] else encodeLong vs.length ++ body) ++ [0]) (.map vs) := by
  show encode S (.map k) (.map vs) = _
  simp only [encode, nodeOf, hk, h, hl, if_true]

theorem Dec.record {S : Schema} {nm : Name} {fields : List (String × Nat)} {b : Bytes}
    {vs : List Value} (h : encodeFields S (fields.map (·.2)) vs = some b) :
    Dec S (.record nm fields) b (.record vs) := by
  show encode S (.record nm fields) (.record vs) = _
  simp only [encode, h]

theorem Dec.string_inv {S : Schema} {b : Bytes} {v : Value} (h : Dec S .string b v) :
    ∃ k, v = .string k ∧ b = lenPrefixed (utf8 k) ∧ (utf8 k).length < 2 ^ 63 := by
  have h' : encode S .string v = some b := h
  cases v <;> simp only [encode, reduceCtorEq] at h'
  rename_i k
  by_cases hl : (utf8 k).length < 2 ^ 63
  · rw [if_pos hl] at h'
    simp only [Option.some.injEq] at h'
    exact ⟨k, rfl, h'.symm, hl⟩
  · rw [if_neg hl] at h'; cases h'

theorem Dec.decimal_bytes {S : Schema} {scale prec : Nat} {m : Bytes} {u : Int}
    (hmin : Minimal m) (hl : m.length ≤ 64) (hv : fromTwosComplementBE m = u) :
    Dec S (.decimal scale prec .bytes) (lenPrefixed m) (.decimal u) := by
  show encode S (.decimal scale prec .bytes) (.decimal u) = _
  subst hv
  simp only [encode, twos_minimal m hmin hl, Option.map_some]

theorem Dec.decimal_fixed {S : Schema} {scale prec : Nat} {nm : Name} {size : Nat} {m : Bytes}
    {u : Int} (hl : m.length = size) (hv : fromTwosComplementBE m = u) :
    Dec S (.decimal scale prec (.fixed nm size)) m (.decimal u) := by
  show encode S (.decimal scale prec (.fixed nm size)) (.decimal u) = _
  subst hv hl
  simp only [encode, twos_of_fromTwos]

theorem Dec.bigDecimal {S : Schema} {m : Bytes} {u : Int} {scale : Nat}
    (hmin : Minimal m) (hl : m.length ≤ 64) (hv : fromTwosComplementBE m = u) (hsc : scale < 2 ^ 63) :
    Dec S .bigDecimal (lenPrefixed (lenPrefixed m ++ encodeLong scale)) (.bigDecimal u scale) := by
  show encode S .bigDecimal (.bigDecimal u scale) = _
  subst hv
  simp only [encode, hsc, if_true, twos_minimal m hmin hl, Option.map_some]

/-! ### Hypotheses -/

/-- Which presentations with a possibly non-canonical layout may occur; each permission excludes
    the kind of schema node on which the layout would not be canonical (`nodeAllows`).
    `{}` (everything `false`) puts no condition on the schema. -/
structure Allow where
  /-- negative integers (not canonical on a `decimal` on `bytes`) -/
  negInt : Bool := false
  /-- `seq` whose advertised length does not cover its elements (not canonical on an `array`) -/
  openSeq : Bool := false
  /-- `map` whose advertised length does not cover its entries (not canonical on a `map`) -/
  openMap : Bool := false
  deriving DecidableEq, Repr

def nodeAllows (f : Allow) : Node → Bool
  | .decimal _ _ .bytes => !f.negInt
  | .array _ => !f.openSeq
  | .map _ => !f.openMap
  | _ => true

def schemaAllows (f : Allow) (S : Schema) : Bool := S.all (nodeAllows f)

theorem nodeAllows_strict (n : Node) : nodeAllows {} n = true := by
  cases n <;> try rfl
  rename_i sc pr repr
  cases repr <;> rfl

structure NodeOK (nb : Allow) (S : Schema) (n : Node) : Prop extends Avro.NodeOK S n where
  allows : nodeAllows nb n = true

def SchemaOK (nb : Allow) (S : Schema) : Prop :=
  ∀ (k : Nat) (n : Node), S[k]? = some n → NodeOK nb S n

theorem SchemaOK.of_checks {nb : Allow} {S : Schema} (h1 : S.keysInBounds = true)
    (h2 : schemaNamesDistinct S = true) (h3 : schemaSmall S = true)
    (h4 : schemaNoNestedUnion S = true)
    (h6 : schemaAllows nb S = true) : SchemaOK nb S := by
  intro k n hk
  exact ⟨Avro.SchemaOK.of_checks h1 h2 h3 h4 k n hk, Array.all_getElem? h6 hk⟩

theorem NodeOK.of_check {nb : Allow} {S : Schema} {n : Node} (h : nodeOKb S n = true)
    (h' : nodeAllows nb n = true) : NodeOK nb S n :=
  ⟨Avro.NodeOK.of_check h, h'⟩

theorem NodeOK.string {nb : Allow} {S : Schema} : NodeOK nb S .string :=
  ⟨Avro.NodeOK.string, rfl⟩

/-- The block writer, started with the advertised length `L` (`len.unwrap_or(0)`), writes ONE
    block for `n` elements exactly in these cases (with `n < L` the call fails): the length covers
    the elements, or nothing was advertised and there is a single element. -/
def lenCovers (L n : Nat) : Bool := decide (n ≤ L) || (L == 0 && n == 1)

theorem lenCovers_iff {L n : Nat} : lenCovers L n = true ↔ n ≤ L ∨ (L = 0 ∧ n = 1) := by
  simp [lenCovers]

mutual
/-- Presentations for which the serializer's layout is the canonical one, given the permissions
    `nb`: unless `nb.openSeq` (resp. `nb.openMap`), every `seq` (resp. `map`) advertises a length
    that covers its elements, so that one block is written; unless `nb.negInt`, no integer is
    negative. -/
def svCanon (nb : Allow) : SV → Bool
  | .bool _ | .f32 _ | .f64 _ | .none | .unit | .char _ | .str _ | .bytes _ => true
  | .unitStruct _ | .unitVariant _ _ _ => true
  | .int _ v => nb.negInt || decide (0 ≤ v)
  | .some v => svCanon nb v
  | .newtypeStruct _ v => svCanon nb v
  | .newtypeVariant _ _ _ v => svCanon nb v
  | .seq len elems => (nb.openSeq || lenCovers (len.getD 0) elems.length) && svCanonList nb elems
  | .tuple elems => svCanonList nb elems
  | .tupleStruct _ elems => svCanonList nb elems
  | .tupleVariant _ _ _ elems => svCanonList nb elems
  | .map len entries =>
    (nb.openMap || lenCovers (len.getD 0) entries.length) && svCanonEntries nb entries
  | .struct _ fields => svCanonFields nb fields
  | .structVariant _ _ _ fields => svCanonFields nb fields
def svCanonList (nb : Allow) : List SV → Bool
  | [] => true
  | e :: es => svCanon nb e && svCanonList nb es
def svCanonFields (nb : Allow) : List (String × SV) → Bool
  | [] => true
  | (_, v) :: rest => svCanon nb v && svCanonFields nb rest
def svCanonEntries (nb : Allow) : List (SV × SV) → Bool
  | [] => true
  | (k, v) :: rest => svCanon nb k && svCanon nb v && svCanonEntries nb rest
end

theorem svCanonList_mem {nb : Allow} {elems : List SV} (h : svCanonList nb elems = true) {e : SV}
    (he : e ∈ elems) : svCanon nb e = true := by
  induction elems with
  | nil => simp at he
  | cons x rest ih =>
    simp only [svCanonList, Bool.and_eq_true] at h
    simp only [List.mem_cons] at he
    rcases he with rfl | he
    · exact h.1
    · exact ih h.2 he

theorem svCanonFields_mem {nb : Allow} {fields : List (String × SV)}
    (h : svCanonFields nb fields = true) {p : String × SV} (hp : p ∈ fields) :
    svCanon nb p.2 = true := by
  induction fields with
  | nil => simp at hp
  | cons x rest ih =>
    obtain ⟨name, v⟩ := x
    simp only [svCanonFields, Bool.and_eq_true] at h
    simp only [List.mem_cons] at hp
    rcases hp with rfl | hp
    · exact h.1
    · exact ih h.2 hp

theorem svCanonEntries_mem {nb : Allow} {entries : List (SV × SV)}
    (h : svCanonEntries nb entries = true) {p : SV × SV} (hp : p ∈ entries) :
    svCanon nb p.1 = true ∧ svCanon nb p.2 = true := by
  induction entries with
  | nil => simp at hp
  | cons x rest ih =>
    obtain ⟨k, v⟩ := x
    simp only [svCanonEntries, Bool.and_eq_true] at h
    simp only [List.mem_cons] at hp
    rcases hp with rfl | hp
    · exact ⟨h.1.1, h.1.2⟩
    · exact ih h.2 hp

/-! ### Leaf calls -/

/-- result of a leaf call at a non-union node -/
def LeafRes (ext : DenExt) (S : Schema) (n : Node) (sv : SV) (m : SerM Unit) (s : SerState) : Prop :=
  (m s).1 = .ok () →
    ∃ v bytes, m s = (.ok (), { s with out := s.out ++ bytes }) ∧ Dec S n bytes v ∧
      denotesLeaf ext n sv v = true

theorem SchemaOK.child {nb : Allow} {S : Schema} {n : Node} (hn : NodeOK nb S n) {k : Nat}
    (hk : k ∈ n.children) : ∃ c, S[k]? = some c := by
  have := hn.children k hk
  exact ⟨S[k], by simp [this]⟩

theorem viaUnion_leaf {nb : Allow} {ext : DenExt} {S : Schema} (hS : SchemaOK nb S) {node : Node}
    (hn : NodeOK nb S node) (key : LookupKey) (f : Node → SerM Unit) (sv : SV) (s : SerState)
    (h : s.budget = none)
    (hf : ∀ n s, s.budget = none → n.isUnion = false → NodeOK nb S n → LeafRes ext S n sv (f n) s)
    (hok : (viaUnion S node key f s).1 = .ok ()) :
    ∃ v bytes, viaUnion S node key f s = (.ok (), { s with out := s.out ++ bytes }) ∧
      Dec S node bytes v ∧ denotesAtLeaf ext S node sv v = true := by
  by_cases hu : node.isUnion = false
  · rw [viaUnion_nonunion S node key f hu] at hok ⊢
    simp only [denotesAtLeaf_nonunion _ _ _ _ _ hu]
    exact hf node s h hu hn hok
  · obtain ⟨vs, rfl⟩ : ∃ vs, node = .union vs := by
      cases node <;> simp [Node.isUnion] at hu; exact ⟨_, rfl⟩
    rcases viaUnion_union S vs key f s h with ⟨_, he⟩ | ⟨d, k, hl, hd, hk, hcase⟩
    · rw [he] at hok; simp at hok
    · rcases hcase with ⟨_, he⟩ | ⟨n, hnk, he⟩
      · rw [he] at hok; simp at hok
      · rw [he] at hok ⊢
        have hsmall : vs.length < 2 ^ 63 := by simpa [nodeSmall] using hn.small
        have hd63 : d < 2 ^ 63 := by omega
        have hnu := (union_branch_of_lookup hl hk hnk).1
        obtain ⟨v, bytes, hrun, hdec, hden⟩ :=
          hf n { s with out := s.out ++ encodeVarI64 d } h hnu (hS k n hnk) hok
        refine ⟨.union d v, encodeLong d ++ bytes, ?_, Dec.union hk hnk hd63 hdec, ?_⟩
        · rw [hrun, encodeVarI64_eq_spec _ (inI64_of_lt hd63)]; simp
        · simp [denotesAtLeaf, unionBranch, hk, hnk, hden]



/-- a `rust_decimal` value written to a decimal node -/
theorem serDecimal_regular_sound {ext : Ext} (hext : ExtOK ext) (S : Schema) (scale prec : Nat)
    (repr : DecimalRepr) (d : Int × Nat) (s : SerState) (h : s.budget = none)
    (hd128 : inI128 d.1 = true)
    (hok : (serDecimal ext (.regular scale repr) d s).1 = .ok ()) :
    ∃ u bytes, serDecimal ext (.regular scale repr) d s = (.ok (), { s with out := s.out ++ bytes }) ∧
      Dec S (.decimal scale prec repr) bytes (.decimal u) ∧
      decimalOf (denExtOf ext) scale d = some u := by
  cases repr with
  | bytes =>
    obtain ⟨hsc, m, hl, hmin, he, hv⟩ :=
      serDecimal_regular_bytes_canon ext scale d s h (hext.rescale d scale hd128) hok
    exact ⟨(ext.decRescale d scale).1, _, he, Dec.decimal_bytes hmin (by omega) hv,
      by simp [decimalOf, denExtOf, hsc]⟩
  | fixed nm size =>
    obtain ⟨hsc, m, hl, he, hv⟩ := serDecimal_regular_fixed ext scale nm size d s h (hext.rescale d scale hd128) hok
    exact ⟨(ext.decRescale d scale).1, _, he, Dec.decimal_fixed hl hv,
      by simp [decimalOf, denExtOf, hsc]⟩

theorem serDecimal_big_sound {ext : Ext} (S : Schema) (d : Int × Nat) (s : SerState)
    (h : s.budget = none) (hr : inI128 d.1 = true) (hsc : d.2 < 2 ^ 63) :
    ∃ bytes, serDecimal ext .big d s = (.ok (), { s with out := s.out ++ bytes }) ∧
      Dec S .bigDecimal bytes (.bigDecimal d.1 d.2) := by
  obtain ⟨m, hl, hmin, he, hv⟩ := serDecimal_big_canon ext d s h hr hsc
  exact ⟨_, he, Dec.bigDecimal hmin (by omega) hv hsc⟩

section
variable {nb : Allow} {ext : Ext} {S : Schema} (hS : SchemaOK nb S) {node : Node}
  (hn : NodeOK nb S node) (s : SerState) (h : s.budget = none)
include hn h

theorem serUnit_sound (sv : SV) (hsv : sv = .none ∨ sv = .unit)
    (hok : (serUnit S node s).1 = .ok ()) :
    ∃ v bytes, serUnit S node s = (.ok (), { s with out := s.out ++ bytes }) ∧
      Dec S node bytes v ∧ denotesAtLeaf (denExtOf ext) S node sv v = true := by
  unfold serUnit at hok ⊢
  cases node <;> simp only [] at hok ⊢
  case null =>
    refine ⟨.null, [], by simp [pure], Dec.of_encode (by simp [encode]), ?_⟩
    rcases hsv with rfl | rfl <;> simp [denotesAtLeaf, denotesLeaf]
  case union vs =>
    cases hl : unnamedLookup .null (branchNodes S vs) with
    | none => simp [hl, SerM.fail] at hok
    | some d =>
      obtain ⟨n', p, hn', hp⟩ := unnamedLookup_some hl
      have hnull := priorityFor_null hp
      subst hnull
      have hd : d < vs.length := by have := unnamedLookup_lt hl; rwa [branchNodes_length] at this
      have hsmall : vs.length < 2 ^ 63 := by simpa [nodeSmall] using hn.small
      have hk : vs[d]? = some vs[d] := List.getElem?_eq_getElem hd
      have hkb : vs[d] < S.size := hn.children _ (by simp [Node.children])
      have hSk : S[vs[d]]? = some S[vs[d]] := by simp [hkb]
      rw [branchNodes_getElem?, hk] at hn'
      simp only [Option.map_some, hSk, Option.getD_some, Option.some.injEq] at hn'
      rw [hn'] at hSk
      refine ⟨.union d .null, encodeLong d ++ [], ?_, Dec.union hk hSk (by omega) (Dec.of_encode (by simp [encode])), ?_⟩
      · show writeVarI64 (d : Int) s = _
        rw [writeVarI64_spec _ (inI64_of_lt (by omega)) s h]; simp
      · rcases hsv with rfl | rfl <;> simp [denotesAtLeaf, unionBranch, hk, hSk, denotesLeaf]
  all_goals simp [SerM.fail] at hok

end

theorem Dec.fixed {S : Schema} {nm : Name} {size : Nat} {b : Bytes} (hl : b.length = size) :
    Dec S (.fixed nm size) b (.fixed b) := Dec.of_encode (by simp [encode, hl])


section
variable {nb : Allow} {ext : Ext} {S : Schema} (hS : SchemaOK nb S) {node : Node}
  (hn : NodeOK nb S node) (s : SerState) (h : s.budget = none)
include hS hn h

theorem serBytes_sound (b : Bytes) (hb : b.length < 2 ^ 63)
    (hok : (serBytes S node b s).1 = .ok ()) :
    ∃ v bytes, serBytes S node b s = (.ok (), { s with out := s.out ++ bytes }) ∧
      Dec S node bytes v ∧ denotesAtLeaf (denExtOf ext) S node (.bytes b) v = true := by
  unfold serBytes at hok ⊢
  refine viaUnion_leaf hS hn _ _ _ s h ?_ hok
  intro n s h hu hnok hok
  cases n <;> simp only [] at hok ⊢
  case bytes =>
    exact ⟨.bytes b, _, writeLengthDelimited_none b hb s h, Dec.of_encode (by simp [encode, hb]),
      by simp [denotesLeaf]⟩
  case string =>
    have hv := ite_fail_ok hok
    rw [if_pos hv]
    obtain ⟨str, rfl⟩ := (validUtf8_iff b).1 hv
    exact ⟨.string str, _, writeLengthDelimited_none _ hb s h, Dec.of_encode (by simp [encode, hb]),
      by simp [denotesLeaf]⟩
  case fixed nm size =>
    by_cases hsz : size ≠ b.length
    · simp [hsz, SerM.fail] at hok
    · rw [if_neg hsz]
      exact ⟨.fixed b, _, writeAll_none b s h, Dec.fixed (by omega), by simp [denotesLeaf]; omega⟩
  case duration =>
    by_cases hsz : b.length ≠ 12
    · simp [hsz, SerM.fail] at hok
    · rw [if_neg hsz]
      have hl : b.length = 12 := by omega
      refine ⟨.duration (leToNat (b.take 4)) (leToNat ((b.drop 4).take 4)) (leToNat (b.drop 8)), _,
        writeAll_none b s h, ?_, ?_⟩
      · have l1 : (b.take 4).length = 4 := by simp; omega
        have l2 : ((b.drop 4).take 4).length = 4 := by simp; omega
        have l3 : (b.drop 8).length = 4 := by simp; omega
        have h1 := leToNat_lt (b.take 4)
        have h2 := leToNat_lt ((b.drop 4).take 4)
        have h3 := leToNat_lt (b.drop 8)
        rw [l1] at h1; rw [l2] at h2; rw [l3] at h3
        show encode S .duration _ = some b
        simp only [encode]
        rw [if_pos ⟨by omega, by omega, by omega⟩, ← leBytes_take_drop12 b hl]
      · simp only [denotesLeaf, decide_eq_true_eq]
        exact leBytes_take_drop12 b hl
  all_goals simp [SerM.fail] at hok

end

section
variable {nb : Allow} {ext : Ext} {S : Schema} (hS : SchemaOK nb S) {node : Node}
  (hn : NodeOK nb S node) (s : SerState) (h : s.budget = none)
include hS hn h

theorem serBool_sound (b : Bool) (hok : (serBool S node b s).1 = .ok ()) :
    ∃ v bytes, serBool S node b s = (.ok (), { s with out := s.out ++ bytes }) ∧
      Dec S node bytes v ∧ denotesAtLeaf (denExtOf ext) S node (.bool b) v = true := by
  unfold serBool at hok ⊢
  refine viaUnion_leaf hS hn _ _ _ s h ?_ hok
  intro n s h hu hnok hok
  cases n <;> simp [SerM.fail] at hok
  exact ⟨.bool b, [if b then 1 else 0], writeAll_none _ s h, Dec.of_encode (by simp [encode]),
    by simp [denotesLeaf]⟩

theorem serF32_sound (bits : BitVec 32) (hok : (serF32 S node bits s).1 = .ok ()) :
    ∃ v bytes, serF32 S node bits s = (.ok (), { s with out := s.out ++ bytes }) ∧
      Dec S node bytes v ∧ denotesAtLeaf (denExtOf ext) S node (.f32 bits) v = true := by
  unfold serF32 at hok ⊢
  refine viaUnion_leaf hS hn _ _ _ s h ?_ hok
  intro n s h hu hnok hok
  cases n <;> simp [SerM.fail] at hok
  exact ⟨.float bits, _, writeAll_none _ s h, Dec.of_encode (by simp [encode]),
    by simp [denotesLeaf]⟩

end

section
variable {nb : Allow} {ext : Ext} {S : Schema} (hS : SchemaOK nb S) {node : Node}
  (hn : NodeOK nb S node) (s : SerState) (h : s.budget = none)
include hS hn h

theorem serInteger_sound (t : IntTy) (x : Int) (ht : t.inRange x = true)
    (hx : nb.negInt = true ∨ 0 ≤ x)
    (hok : (serInteger S node t x s).1 = .ok ()) :
    ∃ v bytes, serInteger S node t x s = (.ok (), { s with out := s.out ++ bytes }) ∧
      Dec S node bytes v ∧ denotesAtLeaf (denExtOf ext) S node (.int t x) v = true := by
  unfold serInteger at hok ⊢
  refine viaUnion_leaf hS hn _ _ _ s h ?_ hok
  intro n s h hu hnok hok
  cases n <;> simp only [] at hok ⊢
  case int | date | timeMillis =>
    have hr := ite_fail_ok hok
    have hi : InI64 x := by unfold InI64; omega
    have h32 : InI32 x := hr
    rw [if_pos hr]
    exact ⟨.int x, _, writeVarI64_spec x hi s h, Dec.of_encode (by simp [encode, h32]),
      by simp [denotesLeaf, ht]⟩
  case long | timeMicros | timestampMillis | timestampMicros =>
    have hr := ite_fail_ok hok
    have hi : InI64 x := hr
    rw [if_pos hr]
    exact ⟨.long x, _, writeVarI64_spec x hi s h, Dec.of_encode (by simp [encode, hi]),
      by simp [denotesLeaf, ht]⟩
  case enum nm syms =>
    have hr := ite_fail_ok hok
    have hsmall : syms.length < 2 ^ 63 := by simpa [nodeSmall] using hnok.small
    have hi : InI64 x := by unfold InI64; omega
    have h1 : x.toNat < syms.length ∧ x.toNat < 2 ^ 63 := by omega
    have h2 : ((x.toNat : Nat) : Int) = x := by omega
    rw [if_pos hr]
    refine ⟨.enum x.toNat, _, writeVarI64_spec x hi s h, Dec.of_encode (by simp [encode, h1, h2]), ?_⟩
    simp [denotesLeaf, ht, h2, h1]
  case decimal scale prec repr =>
    cases repr with
    | bytes =>
      have hx0 : 0 ≤ x := by
        rcases hx with hx | hx
        · have := hnok.allows; simp [nodeAllows, hx] at this
        · exact hx
      obtain ⟨m, hl, hmin, he, hv⟩ := serIntegerAsDecimal_bytes_canon scale x s h hx0 hok
      exact ⟨.decimal (x * 10 ^ scale), _, he, Dec.decimal_bytes hmin (by omega) hv,
        by simp [denotesLeaf, ht]⟩
    | fixed nm size =>
      obtain ⟨h16, m, hl, he, hv⟩ := serIntegerAsDecimal_fixed scale nm size x s h hok
      exact ⟨.decimal (x * 10 ^ scale), _, he, Dec.decimal_fixed hl hv, by simp [denotesLeaf, ht]⟩
  all_goals simp [SerM.fail] at hok

end

section
variable {nb : Allow} {ext : Ext} {S : Schema} (s : SerState) (h : s.budget = none)
include h

/-- `serStrAt` on string / bytes / enum nodes for any presentation that offers a text -/
theorem serStrAt_text {n : Node} (hnok : NodeOK nb S n) (sv : SV) (str : String)
    (ht : textOf sv = some str) (hlen : (utf8 str).length < 2 ^ 63)
    (h3 : n = .string ∨ n = .bytes ∨ ∃ nm syms, n = .enum nm syms) :
    LeafRes (denExtOf ext) S n sv (serStrAt ext n str) s := by
  intro hok
  rcases h3 with rfl | rfl | ⟨nm, syms, rfl⟩
  · exact ⟨.string str, _, writeLengthDelimited_none _ hlen s h,
      Dec.of_encode (by simp [encode, hlen]), denotesLeaf_string_text ht⟩
  · exact ⟨.bytes (utf8 str), _, writeLengthDelimited_none _ hlen s h,
      Dec.of_encode (by simp [encode, hlen]), denotesLeaf_bytes_text ht⟩
  · simp only [serStrAt] at hok ⊢
    cases hl : lookupLast syms str with
    | none => simp [hl, SerM.fail] at hok
    | some d =>
      have hd := lookupLast_lt hl
      have hsmall : syms.length < 2 ^ 63 := by simpa [nodeSmall] using hnok.small
      have hi : InI64 (d : Int) := inI64_of_lt (by omega)
      have h1 : d < syms.length ∧ d < 2 ^ 63 := by omega
      exact ⟨.enum d, _, writeVarI64_spec _ hi s h, Dec.of_encode (by simp [encode, h1]),
        denotesLeaf_enum_text ht (lookupLast_some hl)⟩

/-- `serialize_str` / `serialize_char` at a non-union node -/
theorem serStrAt_leaf (hext : ExtOK ext) {n : Node} (hnok : NodeOK nb S n)
    (sv : SV) (str : String)
    (hsv : sv = .str str ∨ ∃ c, sv = .char c ∧ str = String.singleton c)
    (hlen : (utf8 str).length < 2 ^ 63) :
    LeafRes (denExtOf ext) S n sv (serStrAt ext n str) s := by
  have ht : textOf sv = some str := by
    rcases hsv with rfl | ⟨c, rfl, rfl⟩ <;> rfl
  intro hok
  cases n
  case string => exact serStrAt_text s h hnok sv str ht hlen (Or.inl rfl) hok
  case bytes => exact serStrAt_text s h hnok sv str ht hlen (Or.inr (Or.inl rfl)) hok
  case enum nm syms =>
    exact serStrAt_text s h hnok sv str ht hlen (Or.inr (Or.inr ⟨nm, syms, rfl⟩)) hok
  case uuid =>
    simp only [serStrAt] at hok ⊢
    refine ⟨.string str, _, writeLengthDelimited_none _ hlen s h,
      Dec.of_encode (by simp [encode, hlen]), ?_⟩
    rcases hsv with rfl | ⟨c, rfl, rfl⟩ <;> simp [denotesLeaf]
  case fixed nm size =>
    simp only [serStrAt] at hok ⊢
    by_cases hsz : size ≠ (strBytes str).length
    · simp [hsz, SerM.fail] at hok
    · rw [if_neg hsz]
      have hl : (utf8 str).length = size := by have : (strBytes str).length = size := by omega
                                               exact this
      refine ⟨.fixed (utf8 str), _, writeAll_none _ s h, Dec.fixed hl, ?_⟩
      rcases hsv with rfl | ⟨c, rfl, rfl⟩ <;> simp [denotesLeaf, hl]
  case decimal scale prec repr =>
    simp only [serStrAt] at hok ⊢
    cases hp : ext.decParse str with
    | none => simp [hp, SerM.fail] at hok
    | some d =>
      simp only [hp] at hok ⊢
      obtain ⟨u, bytes, he, hd, hu⟩ := serDecimal_regular_sound hext S scale prec repr d s h (hext.parse str d hp).1 hok
      refine ⟨.decimal u, bytes, he, hd, ?_⟩
      have hp' : (denExtOf ext).decParse str = some d := hp
      rcases hsv with rfl | ⟨c, rfl, rfl⟩ <;>
        (simp only [denotesLeaf, hp']; exact decide_eq_true hu)
  case bigDecimal =>
    simp only [serStrAt] at hok ⊢
    cases hp : ext.decParse str with
    | none => simp [hp, SerM.fail] at hok
    | some d =>
      simp only [hp] at hok ⊢
      obtain ⟨hr, hsc⟩ := hext.parse str d hp
      obtain ⟨bytes, he, hd⟩ := serDecimal_big_sound (ext := ext) S d s h hr hsc
      refine ⟨.bigDecimal d.1 d.2, bytes, he, hd, ?_⟩
      rcases hsv with rfl | ⟨c, rfl, rfl⟩ <;> simp [denotesLeaf, denExtOf, hp]
  all_goals simp [serStrAt, SerM.fail] at hok

end

section
variable {nb : Allow} {ext : Ext} {S : Schema} (hS : SchemaOK nb S) {node : Node}
  (hn : NodeOK nb S node) (s : SerState) (h : s.budget = none)
include hS hn h

theorem serStr_sound (hext : ExtOK ext) (sv : SV) (str : String)
    (hsv : sv = .str str ∨ ∃ c, sv = .char c ∧ str = String.singleton c)
    (hlen : (utf8 str).length < 2 ^ 63)
    (hok : (serStr ext S node str s).1 = .ok ()) :
    ∃ v bytes, serStr ext S node str s = (.ok (), { s with out := s.out ++ bytes }) ∧
      Dec S node bytes v ∧ denotesAtLeaf (denExtOf ext) S node sv v = true := by
  unfold serStr at hok ⊢
  refine viaUnion_leaf hS hn _ _ _ s h ?_ hok
  intro n s h hu hnok
  exact serStrAt_leaf s h hext hnok sv str hsv hlen

theorem serUnitStruct_sound (name : String) (hlen : (utf8 name).length < 2 ^ 63)
    (hok : (serUnitStruct ext S node name s).1 = .ok ()) :
    ∃ v bytes, serUnitStruct ext S node name s = (.ok (), { s with out := s.out ++ bytes }) ∧
      Dec S node bytes v ∧ denotesAtLeaf (denExtOf ext) S node (.unitStruct name) v = true := by
  unfold serUnitStruct at hok ⊢
  refine viaUnion_leaf hS hn _ _ _ s h ?_ hok
  intro n s h hu hnok hok
  cases n <;> simp only [] at hok ⊢
  case null => exact ⟨.null, [], by simp [pure], Dec.of_encode (by simp [encode]), by simp [denotesLeaf]⟩
  case string => exact serStrAt_text s h hnok _ name rfl hlen (Or.inl rfl) hok
  case bytes => exact serStrAt_text s h hnok _ name rfl hlen (Or.inr (Or.inl rfl)) hok
  case enum nm syms =>
    exact serStrAt_text s h hnok _ name rfl hlen (Or.inr (Or.inr ⟨nm, syms, rfl⟩)) hok
  all_goals simp [SerM.fail] at hok

theorem serUnitVariant_sound (name : String) (idx : Nat) (variant : String)
    (hlen : (utf8 variant).length < 2 ^ 63)
    (hok : (serUnitVariant ext S node variant s).1 = .ok ()) :
    ∃ v bytes, serUnitVariant ext S node variant s = (.ok (), { s with out := s.out ++ bytes }) ∧
      Dec S node bytes v ∧
      denotesAtLeaf (denExtOf ext) S node (.unitVariant name idx variant) v = true := by
  have hAt : (viaUnion S node .unitVariant (serUnitVariantAt ext variant) s).1 = .ok () →
      ∃ v bytes, viaUnion S node .unitVariant (serUnitVariantAt ext variant) s =
          (.ok (), { s with out := s.out ++ bytes }) ∧
        Dec S node bytes v ∧
        denotesAtLeaf (denExtOf ext) S node (.unitVariant name idx variant) v = true := by
    intro hok
    refine viaUnion_leaf hS hn _ _ _ s h ?_ hok
    intro n s h hu hnok hok
    cases n <;> simp only [serUnitVariantAt] at hok ⊢
    case null =>
      have hv := ite_fail_ok hok
      rw [if_pos hv]
      exact ⟨.null, [], by simp [pure], Dec.of_encode (by simp [encode]), by simp [denotesLeaf, hv]⟩
    case string => exact serStrAt_text s h hnok _ variant rfl hlen (Or.inl rfl) hok
    case bytes => exact serStrAt_text s h hnok _ variant rfl hlen (Or.inr (Or.inl rfl)) hok
    case enum nm syms =>
      exact serStrAt_text s h hnok _ variant rfl hlen (Or.inr (Or.inr ⟨nm, syms, rfl⟩)) hok
    all_goals simp [SerM.fail] at hok
  by_cases hu : node.isUnion = false
  · have e : serUnitVariant ext S node variant =
        viaUnion S node .unitVariant (serUnitVariantAt ext variant) := by
      cases node <;> first | rfl | simp [Node.isUnion] at hu
    rw [e] at hok ⊢
    exact hAt hok
  · obtain ⟨vs, rfl⟩ : ∃ vs, node = .union vs := by
      cases node <;> simp [Node.isUnion] at hu; exact ⟨_, rfl⟩
    cases hd : nullVariantBranch S vs variant with
    | none =>
      have e : serUnitVariant ext S (.union vs) variant =
          viaUnion S (.union vs) .unitVariant (serUnitVariantAt ext variant) := by
        simp only [serUnitVariant, hd]
      rw [e] at hok ⊢
      exact hAt hok
    | some d =>
      have e : serUnitVariant ext S (.union vs) variant = writeVarI64 (d : Int) := by
        simp only [serUnitVariant, hd]
      rw [e]
      obtain ⟨hv, k, hk, hSk⟩ := nullVariantBranch_some hd
      have hdl : d < vs.length := by
        rcases Nat.lt_or_ge d vs.length with h' | h'
        · exact h'
        · simp [List.getElem?_eq_none h'] at hk
      have hsmall : vs.length < 2 ^ 63 := by simpa [nodeSmall] using hn.small
      refine ⟨.union d .null, encodeLong d ++ [], ?_,
        Dec.union hk hSk (by omega) (Dec.of_encode (by simp [encode])), ?_⟩
      · rw [writeVarI64_spec _ (inI64_of_lt (by omega)) s h]; simp
      · simp [denotesAtLeaf, unionBranch, hk, hSk, denotesLeaf, hv]

theorem serF64_sound (hext : ExtOK ext) (bits : BitVec 64) (hok : (serF64 ext S node bits s).1 = .ok ()) :
    ∃ v bytes, serF64 ext S node bits s = (.ok (), { s with out := s.out ++ bytes }) ∧
      Dec S node bytes v ∧ denotesAtLeaf (denExtOf ext) S node (.f64 bits) v = true := by
  unfold serF64 at hok ⊢
  refine viaUnion_leaf hS hn _ _ _ s h ?_ hok
  intro n s h hu hnok hok
  cases n <;> simp only [] at hok ⊢
  case double =>
    exact ⟨.double bits, _, writeAll_none _ s h, Dec.of_encode (by simp [encode]),
      by simp [denotesLeaf]⟩
  case float =>
    exact ⟨.float (ext.asF32 bits), _, writeAll_none _ s h, Dec.of_encode (by simp [encode]),
      by simp [denotesLeaf, denExtOf]⟩
  case decimal scale prec repr =>
    cases hp : ext.decFromF64 bits with
    | none => simp [hp, SerM.fail] at hok
    | some d =>
      simp only [hp] at hok ⊢
      obtain ⟨u, bytes, he, hd, hu⟩ := serDecimal_regular_sound hext S scale prec repr d s h (hext.fromF64 bits d hp).1 hok
      have hp' : (denExtOf ext).decFromF64 bits = some d := hp
      refine ⟨.decimal u, bytes, he, hd, ?_⟩
      simp only [denotesLeaf, hp']; exact decide_eq_true hu
  case bigDecimal =>
    cases hp : ext.decFromF64 bits with
    | none => simp [hp, SerM.fail] at hok
    | some d =>
      simp only [hp] at hok ⊢
      obtain ⟨hr, hsc⟩ := hext.fromF64 bits d hp
      obtain ⟨bytes, he, hd⟩ := serDecimal_big_sound (ext := ext) S d s h hr hsc
      exact ⟨.bigDecimal d.1 d.2, bytes, he, hd, by simp [denotesLeaf, denExtOf, hp]⟩
  all_goals simp [SerM.fail] at hok

end

/-! ### Results of compound calls -/

/-- `m` succeeds from `s`, appends `bytes`, keeps the writer/pool invariant, and `bytes` decode
    at node `n` to a value satisfying `Q`. -/
def Res (S : Schema) (n : Node) (m : SerM Unit) (s : SerState) (Q : Value → Prop) : Prop :=
  ∃ s' v bytes, m s = (.ok (), s') ∧ s'.out = s.out ++ bytes ∧ Good s' ∧ Dec S n bytes v ∧ Q v

theorem Res.mono {S : Schema} {n : Node} {m : SerM Unit} {s : SerState} {Q Q' : Value → Prop}
    (h : Res S n m s Q) (hq : ∀ v, Q v → Q' v) : Res S n m s Q' := by
  obtain ⟨s', v, bytes, h1, h2, h3, h4, h5⟩ := h
  exact ⟨s', v, bytes, h1, h2, h3, h4, hq v h5⟩


theorem Res.of_leaf {S : Schema} {n : Node} {m : SerM Unit} {s : SerState} {Q : Value → Prop}
    (hs : Good s)
    (h : ∃ v bytes, m s = (.ok (), { s with out := s.out ++ bytes }) ∧ Dec S n bytes v ∧ Q v) :
    Res S n m s Q := by
  obtain ⟨v, bytes, h1, h2, h3⟩ := h
  exact ⟨_, v, bytes, h1, rfl, hs.append bytes, h2, h3⟩


section
variable {nb : Allow} {S : Schema} (hS : SchemaOK nb S) {node : Node} (hn : NodeOK nb S node)
include hS hn

theorem viaUnion_sound (key : LookupKey) (f : Node → SerM Unit) (Q : Node → Value → Prop)
    (s : SerState) (hs : Good s)
    (hf : ∀ n s, Good s → n.isUnion = false → NodeOK nb S n → (f n s).1 = .ok () →
      Res S n (f n) s (Q n))
    (hok : (viaUnion S node key f s).1 = .ok ()) :
    Res S node (viaUnion S node key f) s (fun v =>
      (node.isUnion = false ∧ Q node v) ∨
      (∃ vs d k n y, node = .union vs ∧ v = .union d y ∧ vs[d]? = some k ∧ S[k]? = some n ∧
        n.isUnion = false ∧ Q n y)) := by
  by_cases hu : node.isUnion = false
  · rw [viaUnion_nonunion S node key f hu] at hok ⊢
    exact (hf node s hs hu hn hok).mono fun v hv => Or.inl ⟨hu, hv⟩
  · obtain ⟨vs, rfl⟩ : ∃ vs, node = .union vs := by
      cases node <;> simp [Node.isUnion] at hu; exact ⟨_, rfl⟩
    rcases viaUnion_union S vs key f s hs.1 with ⟨_, he⟩ | ⟨d, k, hl, hd, hk, hcase⟩
    · rw [he] at hok; simp at hok
    · rcases hcase with ⟨_, he⟩ | ⟨n, hnk, he⟩
      · rw [he] at hok; simp at hok
      · rw [he] at hok
        unfold Res
        rw [he]
        have hsmall : vs.length < 2 ^ 63 := by simpa [nodeSmall] using hn.small
        have hd63 : d < 2 ^ 63 := by omega
        have hnu := (union_branch_of_lookup hl hk hnk).1
        obtain ⟨s', v, bytes, hrun, hout, hgood, hdec, hq⟩ :=
          hf n { s with out := s.out ++ encodeVarI64 d } (hs.append _) hnu (hS k n hnk) hok
        refine ⟨s', .union d v, encodeLong d ++ bytes, hrun, ?_, hgood, Dec.union hk hnk hd63 hdec,
          Or.inr ⟨vs, d, k, n, v, rfl, rfl, hk, hnk, hnu, hq⟩⟩
        rw [hout, encodeVarI64_eq_spec _ (inI64_of_lt hd63)]; simp

end


section
variable {nb : Allow} {S : Schema} (hS : SchemaOK nb S) {node : Node} (hn : NodeOK nb S node)
include hS hn

theorem viaName_sound (name : String) (f : Node → SerM Unit) (Q : Node → Value → Prop)
    (s : SerState) (hs : Good s)
    (hf : ∀ n s, Good s → NodeOK nb S n → (f n s).1 = .ok () → Res S n (f n) s (Q n))
    (hok : (viaName S node name f s).1 = .ok ()) :
    Res S node (viaName S node name f) s (fun v =>
      ((node.isUnion = false ∨ ∃ vs, node = .union vs ∧ namedLookup name (branchNodes S vs) = none)
        ∧ Q node v) ∨
      (∃ vs d k n y, node = .union vs ∧ namedLookup name (branchNodes S vs) = some d ∧
        v = .union d y ∧ vs[d]? = some k ∧ S[k]? = some n ∧ n.isUnion = false ∧ Q n y)) := by
  by_cases hu : node.isUnion = false
  · rw [viaName_nonunion S node name f hu] at hok ⊢
    exact (hf node s hs hn hok).mono fun v hv => Or.inl ⟨Or.inl hu, hv⟩
  · obtain ⟨vs, rfl⟩ : ∃ vs, node = .union vs := by
      cases node <;> simp [Node.isUnion] at hu; exact ⟨_, rfl⟩
    rcases viaName_union S vs name f s hs.1 with ⟨hl, he⟩ | ⟨d, k, hl, hd, hk, hcase⟩
    · rw [he] at hok
      unfold Res
      rw [he]
      exact (hf _ s hs hn hok).mono fun v hv => Or.inl ⟨Or.inr ⟨vs, rfl, hl⟩, hv⟩
    · rcases hcase with ⟨_, he⟩ | ⟨n, hnk, he⟩
      · rw [he] at hok; simp at hok
      · rw [he] at hok
        unfold Res
        rw [he]
        have hsmall : vs.length < 2 ^ 63 := by simpa [nodeSmall] using hn.small
        have hd63 : d < 2 ^ 63 := by omega
        have hnu : n.isUnion = false := by
          have hnn := hn.nonest
          simp only [nodeNoNestedUnion, List.all_eq_true] at hnn
          have := hnn k (List.mem_of_getElem? hk)
          rw [hnk] at this
          cases n <;> first | rfl | simp at this
        obtain ⟨s', v, bytes, hrun, hout, hgood, hdec, hq⟩ :=
          hf n { s with out := s.out ++ encodeVarI64 d } (hs.append _) (hS k n hnk) hok
        refine ⟨s', .union d v, encodeLong d ++ bytes, hrun, ?_, hgood, Dec.union hk hnk hd63 hdec,
          Or.inr ⟨vs, d, k, n, v, rfl, hl, rfl, hk, hnk, hnu, hq⟩⟩
        rw [hout, encodeVarI64_eq_spec _ (inI64_of_lt hd63)]; simp

end


/-- soundness of `ser` on one presentation, at every node and state -/
def SerSound (nb : Allow) (ext : Ext) (a : Bool) (S : Schema) (sv : SV) : Prop :=
  ∀ node s, NodeOK nb S node → Good s → (ser ext a S node sv s).1 = .ok () →
    Res S node (ser ext a S node sv) s (fun v => denotes (denExtOf ext) S node sv v = true)



/-! ### Arrays: one block -/

section
variable {nb : Allow} {ext : Ext} {a : Bool} {S : Schema}

/-- inside a block that still has room for all remaining elements, nothing but the items is
    written -/
theorem serElems_array_sound (item : Node) (hitem : NodeOK nb S item) (elems : List SV)
    (hIH : ∀ e ∈ elems, SerSound nb ext a S e) :
    ∀ c s k' s', Good s → elems.length ≤ c →
    serElems ext a S (.array item c) elems s = (.ok k', s') →
    ∃ vs bytes, k' = .array item (c - elems.length) ∧ s'.out = s.out ++ bytes ∧ Good s' ∧
      denotesList (denExtOf ext) S item elems vs = true ∧
      encodeItems S item vs = some bytes ∧ vs.length = elems.length := by
  induction elems with
  | nil =>
    intro c s k' s' hs _ hrun
    simp only [serElems, Prod.mk.injEq, Except.ok.injEq] at hrun
    obtain ⟨rfl, rfl⟩ := hrun
    exact ⟨[], [], rfl, by simp, hs, by simp [denotesList], by simp [encodeItems], rfl⟩
  | cons e rest ih =>
    intro c s k' s' hs hc hrun
    have ihr := ih (fun e he => hIH e (List.mem_cons_of_mem _ he))
    have he := hIH e (List.mem_cons_self ..)
    simp only [serElems] at hrun
    obtain ⟨n, rfl⟩ : ∃ n, c = n + 1 := ⟨c - 1, by simp at hc; omega⟩
    rw [blockSignal_succ] at hrun
    simp only [] at hrun
    cases hser : ser ext a S item e s with
    | mk r s2 =>
      rw [hser] at hrun
      cases r with
      | error err => simp at hrun
      | ok u =>
        simp only [] at hrun
        obtain ⟨s2', v, be, hrun2, hout2, hg2, hdec, hden⟩ := he item s hitem hs (by rw [hser])
        rw [hser] at hrun2
        simp only [Prod.mk.injEq, true_and] at hrun2
        subst hrun2
        obtain ⟨vs, bytes, hk', hout, hg', hdl, henc, hvl⟩ :=
          ihr n s2 k' s' hg2 (by simp at hc; omega) hrun
        have hdec' : encode S item v = some be := hdec
        refine ⟨v :: vs, be ++ bytes, ?_, ?_, hg', ?_, ?_, by simp [hvl]⟩
        · rw [hk']; simp
        · rw [hout, hout2]; simp
        · simp [denotesList, hden, hdl]
        · simp only [encodeItems, hdec', henc]

/-- a single element after an empty header: the block writer opens a block of one -/
theorem serElems_array_one (item : Node) (hitem : NodeOK nb S item) (e : SV)
    (hIH : SerSound nb ext a S e) (s : SerState) (k' : SeqKind) (s' : SerState) (hs : Good s)
    (hrun : serElems ext a S (.array item 0) [e] s = (.ok k', s')) :
    ∃ vs bytes, k' = .array item 0 ∧ s'.out = s.out ++ (encodeLong 1 ++ bytes) ∧ Good s' ∧
      denotesList (denExtOf ext) S item [e] vs = true ∧
      encodeItems S item vs = some bytes ∧ vs.length = 1 := by
  simp only [serElems] at hrun
  rw [blockSignal_zero s hs.1] at hrun
  simp only [] at hrun
  generalize hs1 : ({ s with out := s.out ++ encodeLong 1 } : SerState) = s1 at hrun
  have hg1 : Good s1 := by subst hs1; exact hs.append _
  cases hser : ser ext a S item e s1 with
  | mk r s2 =>
    rw [hser] at hrun
    cases r with
    | error err => simp at hrun
    | ok u =>
      simp only [Prod.mk.injEq, Except.ok.injEq] at hrun
      obtain ⟨rfl, rfl⟩ := hrun
      obtain ⟨s2', v, be, hrun2, hout2, hg2, hdec, hden⟩ := hIH item s1 hitem hg1 (by rw [hser])
      rw [hser] at hrun2
      simp only [Prod.mk.injEq, true_and] at hrun2
      subst hrun2
      have hdec' : encode S item v = some be := hdec
      refine ⟨[v], be, rfl, ?_, hg2, by simp [denotesList, hden], ?_, rfl⟩
      · rw [hout2, ← hs1]; simp
      · simp [encodeItems, hdec']

theorem seqCore_array_sound (k : Nat) (hnok : NodeOK nb S (.array k)) (hS : SchemaOK nb S)
    (len : Option Nat) (elems : List SV) (hlen : elems.length < 2 ^ 63)
    (hle : lenCovers (len.getD 0) elems.length = true)
    (hIH : ∀ e ∈ elems, SerSound nb ext a S e) (s : SerState) (hs : Good s)
    (hok : (seqCore ext a S (.array k) len elems s).1 = .ok ()) :
    Res S (.array k) (seqCore ext a S (.array k) len elems) s (fun v =>
      seqAtNode S (fun item items => denotesList (denExtOf ext) S item elems items) (u8List elems)
        (elems.map u32Of) (.array k) v = true) := by
  have hkb : k < S.size := hnok.children k (by simp [Node.children])
  obtain ⟨item, hk⟩ : ∃ item, S[k]? = some item := ⟨S[k], by simp [hkb]⟩
  have hitem := hS k item hk
  generalize hL : len.getD 0 = L at *
  -- the header
  have hstart : seqStartAt a S (.array k) len s =
      (.ok (.array item L), { s with out := s.out ++ (if L > 0 then encodeVarI64 L else []) }) := by
    simp only [seqStartAt, bind, nodeAt, hk, pure, blockNew, hL]
    by_cases h0 : L > 0
    · simp [h0, writeVarI64_none _ s hs.1]
    · simp [h0]
  unfold Res
  simp only [seqCore, bind, hstart] at hok ⊢
  generalize hs1 : ({ s with out := s.out ++ (if L > 0 then encodeVarI64 L else []) } : SerState) = s1
    at hok ⊢
  have hg1 : Good s1 := by subst hs1; exact hs.append _
  cases hrun : serElems ext a S (.array item L) elems s1 with
  | mk r s2 =>
    rw [hrun] at hok
    cases r with
    | error ek =>
      exfalso
      obtain ⟨e, k'⟩ := ek
      exact finally_fail_not_ok e _ _ _ hok
    | ok k' =>
      -- one block: `L` items after the header `L`, or one item after its own header `1`
      obtain ⟨vs, body, hk', hout, hg2, hdl, henc, hL63⟩ :
          ∃ vs body, k' = .array item 0 ∧
            s2.out = s.out ++ (if vs.isEmpty then [] else encodeLong vs.length ++ body) ∧ Good s2 ∧
            denotesList (denExtOf ext) S item elems vs = true ∧
            encodeItems S item vs = some body ∧ vs.length < 2 ^ 63 := by
        rcases lenCovers_iff.1 hle with hle | ⟨hL0, hn1⟩
        · obtain ⟨vs, bytes, hk', hout, hg2, hdl, henc, hvl⟩ :=
            serElems_array_sound item hitem elems hIH L s1 k' s2 hg1 hle hrun
          have hLe : L = elems.length := by
            rcases Nat.eq_zero_or_pos (L - elems.length) with h0 | hpos
            · omega
            · exfalso
              subst hk'
              have hc' : L - elems.length ≠ 0 := by omega
              simp only [seqFinish, seqEnd, seqDrop, finally_pure, blockEnd] at hok
              simp [hc', SerM.fail] at hok
          refine ⟨vs, bytes, by rw [hk', hLe]; simp, ?_, hg2, hdl, henc, by omega⟩
          simp only [hout, ← hs1]
          by_cases h0 : L > 0
          · have hne : vs.isEmpty = false := by
              cases vs with
              | nil => simp at hvl; omega
              | cons _ _ => rfl
            have hvL : vs.length = L := by omega
            have hL63 : L < 2 ^ 63 := by omega
            simp [h0, hne, hvL, encodeVarI64_eq_spec _ (inI64_of_lt hL63)]
          · have hvs : vs = [] := by
              cases vs with
              | nil => rfl
              | cons _ _ => simp at hvl; omega
            subst hvs
            simp only [encodeItems, Option.some.injEq] at henc
            subst henc
            simp [h0]
        · subst hL0
          match elems, hn1 with
          | [e], _ =>
            obtain ⟨vs, bytes, hk', hout, hg2, hdl, henc, hvl⟩ :=
              serElems_array_one item hitem e (hIH e (by simp)) s1 k' s2 hg1 hrun
            refine ⟨vs, bytes, hk', ?_, hg2, hdl, henc, by omega⟩
            have hne : vs.isEmpty = false := by
              cases vs with
              | nil => simp at hvl
              | cons _ _ => rfl
            simp [hout, ← hs1, hne, hvl]
      subst hk'
      simp only [seqFinish, seqEnd, seqDrop, finally_pure, blockEnd] at hok ⊢
      simp only [ne_eq, not_true_eq_false, if_false,
        writeVarI64_spec 0 (by decide) s2 hg2.1, encodeLong_zero]
      have hdec := Dec.array hk henc hL63
      refine ⟨_, .array vs, _, rfl, ?_, hg2.append _, hdec, ?_⟩
      · simp only [hout, List.append_assoc]
      · simp [seqAtNode, hk, hdl]

end

section
variable {nb : Allow} {ext : Ext} {a : Bool} {S : Schema}

theorem seqCore_bytes_sound (len : Option Nat) (elems : List SV) (hlen : elems.length < 2 ^ 63)
    (s : SerState) (hs : Good s)
    (hok : (seqCore ext a S .bytes len elems s).1 = .ok ()) :
    Res S .bytes (seqCore ext a S .bytes len elems) s (fun v =>
      seqAtNode S (fun item items => denotesList (denExtOf ext) S item elems items) (u8List elems)
        (elems.map u32Of) .bytes v = true) := by
  unfold Res
  cases a with
  | false => simp [seqCore, seqStartAt, bind, SerM.fail] at hok
  | true =>
    cases len with
    | none =>
      obtain ⟨buf, s1, hpop, hbd, hout1, hg1⟩ := popBuffer_good hs
      simp only [seqCore, seqStartAt, bind, hpop, pure, Bool.not_true, Bool.false_eq_true,
        if_false] at hok ⊢
      cases hrun : serElems ext true S (.buffered buf) elems s1 with
      | mk r s2 =>
        rw [hrun] at hok
        cases r with
        | error ek => exfalso; obtain ⟨e, k'⟩ := ek; exact finally_fail_not_ok e _ _ _ hok
        | ok k' =>
          obtain ⟨b, buf', hk', hu, hs2, hd⟩ := serElems_buffered_sound elems buf s1 k' s2 hrun
          subst hk' hs2
          rw [hbd, List.nil_append] at hd
          have hbl : b.length < 2 ^ 63 := by rw [u8List_length hu]; exact hlen
          obtain ⟨s3, hdrop, hout3, hg3⟩ := seqDrop_good (hg1.append (lenPrefixed b)) (.buffered buf')
          have hend : seqEnd (.buffered buf') s2 = (.ok (), { s2 with out := s2.out ++ lenPrefixed b }) := by
            simp only [seqEnd, hd, writeLengthDelimited_none b hbl s2 hg1.1]
          refine ⟨s3, .bytes b, lenPrefixed b, finally_ok hend hdrop, by rw [hout3, hout1], hg3,
            Dec.of_encode (by simp [encode, hbl]), by simp [seqAtNode, hu]⟩
    | some l =>
      simp only [seqCore, seqStartAt, bind, pure, Bool.not_true, Bool.false_eq_true,
        if_false, writeVarI64_none _ s hs.1] at hok ⊢
      generalize hs1 : ({ s with out := s.out ++ encodeVarI64 l } : SerState) = s1 at hok ⊢
      have hg1 : Good s1 := by subst hs1; exact hs.append _
      cases hrun : serElems ext true S (.fixed l) elems s1 with
      | mk r s2 =>
        rw [hrun] at hok
        cases r with
        | error ek => exfalso; obtain ⟨e, k'⟩ := ek; exact finally_fail_not_ok e _ _ _ hok
        | ok k' =>
          obtain ⟨b, n', hk', hu, hs2, hn⟩ := serElems_fixed_sound elems l s1 k' s2 hg1.1 hrun
          subst hk'
          simp only [seqFinish, seqEnd, seqDrop, finally_pure] at hok ⊢
          by_cases hn0 : n' ≠ 0
          · simp [hn0, SerM.fail] at hok
          · have : n' = 0 := by omega
            subst this
            have hbl : b.length < 2 ^ 63 := by rw [u8List_length hu]; exact hlen
            have hl : l = b.length := by omega
            simp only [ne_eq, not_true_eq_false, if_false, pure]
            refine ⟨s2, .bytes b, lenPrefixed b, rfl, ?_, ?_, Dec.of_encode (by simp [encode, hbl]),
              by simp [seqAtNode, hu]⟩
            · rw [hs2, ← hs1, hl, encodeVarI64_eq_spec _ (inI64_of_lt hbl)]
              simp [lenPrefixed]
            · rw [hs2]; exact hg1.append _

theorem seqCore_fixed_sound (nm : Name) (size : Nat) (len : Option Nat) (elems : List SV)
    (s : SerState) (hs : Good s)
    (hok : (seqCore ext a S (.fixed nm size) len elems s).1 = .ok ()) :
    Res S (.fixed nm size) (seqCore ext a S (.fixed nm size) len elems) s (fun v =>
      seqAtNode S (fun item items => denotesList (denExtOf ext) S item elems items) (u8List elems)
        (elems.map u32Of) (.fixed nm size) v = true) := by
  have hstart : seqStartAt a S (.fixed nm size) len s = (.ok (.fixed size), s) := by
    cases a with
    | false => simp [seqCore, seqStartAt, bind, SerM.fail] at hok
    | true =>
      cases len with
      | none => rfl
      | some l =>
        by_cases hl : l ≠ size
        · simp [seqCore, seqStartAt, bind, SerM.fail, hl] at hok
        · simp [seqStartAt, hl, pure]
  unfold Res
  simp only [seqCore, bind, hstart] at hok ⊢
  cases hrun : serElems ext a S (.fixed size) elems s with
  | mk r s2 =>
    rw [hrun] at hok
    cases r with
    | error ek => exfalso; obtain ⟨e, k'⟩ := ek; exact finally_fail_not_ok e _ _ _ hok
    | ok k' =>
      obtain ⟨b, n', hk', hu, hs2, hn⟩ := serElems_fixed_sound elems size s k' s2 hs.1 hrun
      subst hk'
      simp only [seqFinish, seqEnd, seqDrop, finally_pure] at hok ⊢
      by_cases hn0 : n' ≠ 0
      · simp [hn0, SerM.fail] at hok
      · have : n' = 0 := by omega
        subst this
        have hl : b.length = size := by omega
        simp only [ne_eq, not_true_eq_false, if_false, pure]
        refine ⟨s2, .fixed b, b, rfl, by rw [hs2], by rw [hs2]; exact hs.append _, Dec.fixed hl,
          by simp [seqAtNode, hu, hl]⟩

theorem seqCore_duration_sound (len : Option Nat) (elems : List SV)
    (s : SerState) (hs : Good s)
    (hok : (seqCore ext a S .duration len elems s).1 = .ok ()) :
    Res S .duration (seqCore ext a S .duration len elems) s (fun v =>
      seqAtNode S (fun item items => denotesList (denExtOf ext) S item elems items) (u8List elems)
        (elems.map u32Of) .duration v = true) := by
  have hstart : seqStartAt a S .duration len s = (.ok (.duration 0), s) := by
    cases len with
    | none => rfl
    | some l =>
      by_cases hl : l ≠ 3
      · simp [seqCore, seqStartAt, bind, SerM.fail, hl] at hok
      · simp [seqStartAt, hl, pure]
  unfold Res
  simp only [seqCore, bind, hstart] at hok ⊢
  cases hrun : serElems ext a S (.duration 0) elems s with
  | mk r s2 =>
    rw [hrun] at hok
    cases r with
    | error ek => exfalso; obtain ⟨e, k'⟩ := ek; exact finally_fail_not_ok e _ _ _ hok
    | ok k' =>
      obtain ⟨xs, hk', hm, hs2⟩ := serElems_duration_sound elems 0 s k' s2 hs.1 hrun
      subst hk'
      simp only [seqFinish, seqEnd, seqDrop, finally_pure] at hok ⊢
      by_cases hn0 : 0 + xs.length ≠ 3
      · have : ¬ xs.length = 3 := by omega
        simp [this, SerM.fail] at hok
      · rw [if_neg hn0]
        have hx3 : xs.length = 3 := by omega
        match xs, hx3 with
        | [x, y, z], _ =>
          have hlt : ∀ w ∈ [x, y, z], w < 2 ^ 32 := by
            intro w hw
            have : some w ∈ List.map u32Of elems := by rw [hm]; exact List.mem_map_of_mem hw
            obtain ⟨e, _, he⟩ := List.mem_map.1 this
            exact u32Of_lt he
          have hx := hlt x (by simp)
          have hy := hlt y (by simp)
          have hz := hlt z (by simp)
          refine ⟨s2, .duration x y z, leBytes 4 x ++ leBytes 4 y ++ leBytes 4 z, rfl, ?_, ?_,
            Dec.of_encode (by simp [encode, hx, hy, hz]), by simp [seqAtNode, hm]⟩
          · rw [hs2]; simp
          · rw [hs2]; exact hs.append _

end

section
variable {nb : Allow} {ext : Ext} {a : Bool} {S : Schema}

theorem seqCore_sound (hS : SchemaOK nb S) (n : Node) (hnok : NodeOK nb S n)
    (len : Option Nat) (elems : List SV) (hlen : elems.length < 2 ^ 63)
    (hle : nb.openSeq = true ∨ lenCovers (len.getD 0) elems.length = true)
    (hIH : ∀ e ∈ elems, SerSound nb ext a S e) (s : SerState) (hs : Good s)
    (hok : (seqCore ext a S n len elems s).1 = .ok ()) :
    Res S n (seqCore ext a S n len elems) s (fun v =>
      seqAtNode S (fun item items => denotesList (denExtOf ext) S item elems items) (u8List elems)
        (elems.map u32Of) n v = true) := by
  cases n
  case array k =>
    have hle' : lenCovers (len.getD 0) elems.length = true := by
      rcases hle with h | h
      · have := hnok.allows; simp [nodeAllows, h] at this
      · exact h
    exact seqCore_array_sound k hnok hS len elems hlen hle' hIH s hs hok
  case bytes => exact seqCore_bytes_sound len elems hlen s hs hok
  case fixed nm size => exact seqCore_fixed_sound nm size len elems s hs hok
  case duration => exact seqCore_duration_sound len elems s hs hok
  all_goals simp [seqCore, seqStartAt, bind, SerM.fail] at hok

theorem seqBody_sound (hS : SchemaOK nb S) (node : Node) (hnok : NodeOK nb S node)
    (len : Option Nat) (elems : List SV) (hlen : elems.length < 2 ^ 63)
    (hle : nb.openSeq = true ∨ lenCovers (len.getD 0) elems.length = true)
    (hIH : ∀ e ∈ elems, SerSound nb ext a S e) (s : SerState) (hs : Good s)
    (hok : (seqBody ext a S node len elems s).1 = .ok ()) :
    Res S node (seqBody ext a S node len elems) s (fun v =>
      (node.isUnion = false ∧
        seqAtNode S (fun item items => denotesList (denExtOf ext) S item elems items) (u8List elems)
          (elems.map u32Of) node v = true) ∨
      (∃ vs d k n y, node = .union vs ∧ v = .union d y ∧ vs[d]? = some k ∧ S[k]? = some n ∧
        n.isUnion = false ∧
        seqAtNode S (fun item items => denotesList (denExtOf ext) S item elems items) (u8List elems)
          (elems.map u32Of) n y = true)) := by
  rw [seqBody_eq] at hok ⊢
  exact viaUnion_sound hS hnok _ _ _ s hs
    (fun n s hs _ hn hok => seqCore_sound hS n hn len elems hlen hle hIH s hs hok) hok

end


/-! ### Maps: one block -/

section
variable {nb : Allow} {ext : Ext} {a : Bool} {S : Schema}

theorem serFields_map_sound (item : Node) (hitem : NodeOK nb S item) (fields : List (String × SV))
    (hIH : ∀ p ∈ fields, (utf8 p.1).length < 2 ^ 63 ∧ SerSound nb ext a S p.2) :
    ∀ c s k' s', Good s → fields.length ≤ c →
    serFields ext a S (.map item c) fields s = (.ok k', s') →
    ∃ ents bytes, k' = .map item (c - fields.length) ∧ s'.out = s.out ++ bytes ∧ Good s' ∧
      denotesMapFields (denExtOf ext) S item fields ents = true ∧
      encodeEntries S item ents = some bytes ∧ ents.length = fields.length := by
  induction fields with
  | nil =>
    intro c s k' s' hs _ hrun
    simp only [serFields, Prod.mk.injEq, Except.ok.injEq] at hrun
    obtain ⟨rfl, rfl⟩ := hrun
    exact ⟨[], [], rfl, by simp, hs, by simp [denotesMapFields], by simp [encodeEntries], rfl⟩
  | cons p rest ih =>
    obtain ⟨name, sv⟩ := p
    intro c s k' s' hs hc hrun
    have ihr := ih (fun p hp => hIH p (List.mem_cons_of_mem _ hp))
    obtain ⟨hname, he⟩ := hIH (name, sv) (List.mem_cons_self ..)
    simp only [] at hname he
    simp only [serFields] at hrun
    obtain ⟨n, rfl⟩ : ∃ n, c = n + 1 := ⟨c - 1, by simp at hc; omega⟩
    have hsig : (do let c ← blockSignal (n + 1); writeLengthDelimited (strBytes name); pure c : SerM Nat) s =
          (.ok n, { s with out := s.out ++ lenPrefixed (utf8 name) }) := by
      simp only [bind, blockSignal_succ, strBytes_eq_utf8,
        writeLengthDelimited_none _ hname s hs.1, pure]
    rw [hsig] at hrun
    simp only [] at hrun
    generalize hs1 : ({ s with out := s.out ++ lenPrefixed (utf8 name) } : SerState) = s1 at hrun
    have hg1 : Good s1 := by subst hs1; exact hs.append _
    cases hser : ser ext a S item sv s1 with
    | mk r s2 =>
      rw [hser] at hrun
      cases r with
      | error err => simp at hrun
      | ok u =>
        simp only [] at hrun
        obtain ⟨s2', v, be, hrun2, hout2, hg2, hdec, hden⟩ := he item s1 hitem hg1 (by rw [hser])
        rw [hser] at hrun2
        simp only [Prod.mk.injEq, true_and] at hrun2
        subst hrun2
        obtain ⟨ents, bytes, hk', hout, hg', hdl, henc, hel⟩ :=
          ihr n s2 k' s' hg2 (by simp at hc; omega) hrun
        have hdec' : encode S item v = some be := hdec
        refine ⟨(name, v) :: ents, lenPrefixed (utf8 name) ++ be ++ bytes, ?_, ?_, hg', ?_, ?_,
          by simp [hel]⟩
        · rw [hk']; simp
        · rw [hout, hout2, ← hs1]; simp
        · simp [denotesMapFields, hden, hdl]
        · simp only [encodeEntries, hdec', henc, hname, if_true]

theorem serEntries_map_sound (item : Node) (hitem : NodeOK nb S item) (entries : List (SV × SV))
    (hstr : NodeOK nb S .string)
    (hIH : ∀ p ∈ entries, SerSound nb ext a S p.1 ∧ SerSound nb ext a S p.2) :
    ∀ c s k' s', Good s → entries.length ≤ c →
    serEntries ext a S (.map item c) entries s = (.ok k', s') →
    ∃ ents bytes, k' = .map item (c - entries.length) ∧ s'.out = s.out ++ bytes ∧ Good s' ∧
      denotesMapEntries (denExtOf ext) S item entries ents = true ∧
      encodeEntries S item ents = some bytes ∧ ents.length = entries.length := by
  induction entries with
  | nil =>
    intro c s k' s' hs _ hrun
    simp only [serEntries, Prod.mk.injEq, Except.ok.injEq] at hrun
    obtain ⟨rfl, rfl⟩ := hrun
    exact ⟨[], [], rfl, by simp, hs, by simp [denotesMapEntries], by simp [encodeEntries], rfl⟩
  | cons p rest ih =>
    obtain ⟨key, sv⟩ := p
    intro c s k' s' hs hc hrun
    have ihr := ih (fun p hp => hIH p (List.mem_cons_of_mem _ hp))
    obtain ⟨hkey, he⟩ := hIH (key, sv) (List.mem_cons_self ..)
    simp only [] at hkey he
    simp only [serEntries] at hrun
    obtain ⟨n, rfl⟩ : ∃ n, c = n + 1 := ⟨c - 1, by simp at hc; omega⟩
    rw [blockSignal_succ] at hrun
    simp only [] at hrun
    cases hserk : ser ext a S .string key s with
    | mk rk sk =>
      rw [hserk] at hrun
      cases rk with
      | error err => simp at hrun
      | ok u =>
        simp only [] at hrun
        obtain ⟨sk', kv, bk, hrunk, houtk, hgk, hdeck, hdenk⟩ := hkey .string s hstr hs (by rw [hserk])
        rw [hserk] at hrunk
        simp only [Prod.mk.injEq, true_and] at hrunk
        subst hrunk
        obtain ⟨kstr, rfl, rfl, hklen⟩ := hdeck.string_inv
        cases hser : ser ext a S item sv sk with
        | mk r s2 =>
          rw [hser] at hrun
          cases r with
          | error err => simp at hrun
          | ok u =>
            simp only [] at hrun
            obtain ⟨s2', v, be, hrun2, hout2, hg2, hdec, hden⟩ := he item sk hitem hgk (by rw [hser])
            rw [hser] at hrun2
            simp only [Prod.mk.injEq, true_and] at hrun2
            subst hrun2
            obtain ⟨ents, bytes, hk', hout, hg', hdl, henc, hel⟩ :=
              ihr n s2 k' s' hg2 (by simp at hc; omega) hrun
            have hdec' : encode S item v = some be := hdec
            refine ⟨(kstr, v) :: ents, lenPrefixed (utf8 kstr) ++ be ++ bytes, ?_, ?_, hg', ?_, ?_,
              by simp [hel]⟩
            · rw [hk']; simp
            · rw [hout, hout2, houtk]; simp
            · simp [denotesMapEntries, hdenk, hden, hdl]
            · simp only [encodeEntries, hdec', henc, hklen, if_true]

/-- a single entry after an empty header: the block writer opens a block of one -/
theorem serEntries_map_one (item : Node) (hitem : NodeOK nb S item) (key sv : SV)
    (hstr : NodeOK nb S .string)
    (hkey : SerSound nb ext a S key) (he : SerSound nb ext a S sv)
    (s : SerState) (k' : StructKind) (s' : SerState) (hs : Good s)
    (hrun : serEntries ext a S (.map item 0) [(key, sv)] s = (.ok k', s')) :
    ∃ ents bytes, k' = .map item 0 ∧ s'.out = s.out ++ (encodeLong 1 ++ bytes) ∧ Good s' ∧
      denotesMapEntries (denExtOf ext) S item [(key, sv)] ents = true ∧
      encodeEntries S item ents = some bytes ∧ ents.length = 1 := by
  simp only [serEntries] at hrun
  rw [blockSignal_zero s hs.1] at hrun
  simp only [] at hrun
  generalize hs1 : ({ s with out := s.out ++ encodeLong 1 } : SerState) = s1 at hrun
  have hg1 : Good s1 := by subst hs1; exact hs.append _
  cases hserk : ser ext a S .string key s1 with
  | mk rk sk =>
    rw [hserk] at hrun
    cases rk with
    | error err => simp at hrun
    | ok u =>
      simp only [] at hrun
      obtain ⟨sk', kv, bk, hrunk, houtk, hgk, hdeck, hdenk⟩ := hkey .string s1 hstr hg1 (by rw [hserk])
      rw [hserk] at hrunk
      simp only [Prod.mk.injEq, true_and] at hrunk
      subst hrunk
      obtain ⟨kstr, rfl, rfl, hklen⟩ := hdeck.string_inv
      cases hser : ser ext a S item sv sk with
      | mk r s2 =>
        rw [hser] at hrun
        cases r with
        | error err => simp at hrun
        | ok u =>
          simp only [Prod.mk.injEq, Except.ok.injEq] at hrun
          obtain ⟨rfl, rfl⟩ := hrun
          obtain ⟨s2', v, be, hrun2, hout2, hg2, hdec, hden⟩ := he item sk hitem hgk (by rw [hser])
          rw [hser] at hrun2
          simp only [Prod.mk.injEq, true_and] at hrun2
          subst hrun2
          have hdec' : encode S item v = some be := hdec
          refine ⟨[(kstr, v)], lenPrefixed (utf8 kstr) ++ be ++ [], rfl, ?_, hg2, ?_, ?_, rfl⟩
          · rw [hout2, houtk, ← hs1]; simp
          · simp [denotesMapEntries, hdenk, hden]
          · simp only [encodeEntries, hdec', hklen, if_true]

end

section
variable {nb : Allow} {S : Schema}

theorem structCore_map_sound (k : Nat) (hnok : NodeOK nb S (.map k))
    (L : Nat) (durLen : Option Nat)
    (run : StructKind → SerState → Except (SerErr × StructKind) StructKind × SerState)
    (cnt : Nat) (hcnt : cnt < 2 ^ 63) (hle : lenCovers L cnt = true)
    (den : Node → List (String × Value) → Bool)
    (hrun : ∀ item, S[k]? = some item → ∀ c s k' s', Good s → cnt ≤ c →
      run (.map item c) s = (.ok k', s') →
      ∃ ents bytes, k' = .map item (c - cnt) ∧ s'.out = s.out ++ bytes ∧ Good s' ∧
        den item ents = true ∧ encodeEntries S item ents = some bytes ∧ ents.length = cnt)
    (hrun1 : L = 0 → cnt = 1 → ∀ item, S[k]? = some item → ∀ s k' s', Good s →
      run (.map item 0) s = (.ok k', s') →
      ∃ ents bytes, k' = .map item 0 ∧ s'.out = s.out ++ (encodeLong 1 ++ bytes) ∧ Good s' ∧
        den item ents = true ∧ encodeEntries S item ents = some bytes ∧ ents.length = 1)
    (s : SerState) (hs : Good s)
    (hok : (structCore S (.map k) L durLen run s).1 = .ok ()) :
    Res S (.map k) (structCore S (.map k) L durLen run) s (fun v =>
      ∃ item ents, S[k]? = some item ∧ v = .map ents ∧ den item ents = true) := by
  have hkb : k < S.size := hnok.children k (by simp [Node.children])
  obtain ⟨item, hk⟩ : ∃ item, S[k]? = some item := ⟨S[k], by simp [hkb]⟩
  have hstart : structStartAt S (.map k) L durLen s =
      (.ok (.map item L), { s with out := s.out ++ (if L > 0 then encodeVarI64 L else []) }) := by
    simp only [structStartAt, bind, nodeAt, hk, pure, blockNew]
    by_cases h0 : L > 0
    · simp [h0, writeVarI64_none _ s hs.1]
    · simp [h0]
  unfold Res
  simp only [structCore, bind, hstart] at hok ⊢
  generalize hs1 : ({ s with out := s.out ++ (if L > 0 then encodeVarI64 L else []) } : SerState) = s1
    at hok ⊢
  have hg1 : Good s1 := by subst hs1; exact hs.append _
  cases hr : run (.map item L) s1 with
  | mk r s2 =>
    rw [hr] at hok
    cases r with
    | error ek =>
      exfalso
      obtain ⟨e, k'⟩ := ek
      exact finally_fail_not_ok e _ _ _ hok
    | ok k' =>
      obtain ⟨ents, body, hk', hout, hg2, hden, henc, hL63⟩ :
          ∃ ents body, k' = .map item 0 ∧
            s2.out = s.out ++ (if ents.isEmpty then [] else encodeLong ents.length ++ body) ∧
            Good s2 ∧ den item ents = true ∧ encodeEntries S item ents = some body ∧
            ents.length < 2 ^ 63 := by
        rcases lenCovers_iff.1 hle with hle | ⟨hL0, hn1⟩
        · obtain ⟨ents, bytes, hk', hout, hg2, hden, henc, hel⟩ := hrun item hk L s1 k' s2 hg1 hle hr
          have hLe : L = cnt := by
            rcases Nat.eq_zero_or_pos (L - cnt) with h0 | hpos
            · omega
            · exfalso
              subst hk'
              have hc' : L - cnt ≠ 0 := by omega
              simp only [structBodyFinish, structFinish, structEnd, TrM.lift, bind, blockEnd] at hok
              simp [hc', SerM.fail] at hok
              exact absurd hok (finally_fail_not_ok _ _ _ _)
          refine ⟨ents, bytes, by rw [hk', hLe]; simp, ?_, hg2, hden, henc, by omega⟩
          simp only [hout, ← hs1]
          by_cases h0 : L > 0
          · have hne : ents.isEmpty = false := by
              cases ents with
              | nil => simp at hel; omega
              | cons _ _ => rfl
            have hvL : ents.length = L := by omega
            have hL63 : L < 2 ^ 63 := by omega
            simp [h0, hne, hvL, encodeVarI64_eq_spec _ (inI64_of_lt hL63)]
          · have hvs : ents = [] := by
              cases ents with
              | nil => rfl
              | cons _ _ => simp at hel; omega
            subst hvs
            simp only [encodeEntries, Option.some.injEq] at henc
            subst henc
            simp [h0]
        · subst hL0
          obtain ⟨ents, bytes, hk', hout, hg2, hden, henc, hel⟩ :=
            hrun1 rfl hn1 item hk s1 k' s2 hg1 hr
          refine ⟨ents, bytes, hk', ?_, hg2, hden, henc, by omega⟩
          have hne : ents.isEmpty = false := by
            cases ents with
            | nil => simp at hel
            | cons _ _ => rfl
          simp [hout, ← hs1, hne, hel]
      subst hk'
      simp only [structBodyFinish, structFinish, structEnd, TrM.lift, bind, blockEnd] at hok ⊢
      simp only [ne_eq, not_true_eq_false, if_false,
        writeVarI64_spec 0 (by decide) s2 hg2.1, encodeLong_zero, pure, structDrop, SerM.finally]
      have hdec := Dec.map hk henc hL63
      refine ⟨_, .map ents, _, rfl, ?_, hg2.append _, hdec, item, ents, hk, rfl, hden⟩
      simp only [hout, List.append_assoc]

end

section
variable {ext : Ext} {a : Bool} {S : Schema}

theorem structCore_duration_sound (L : Nat) (durLen : Option Nat) (fields : List (String × SV))
    (s : SerState) (hs : Good s)
    (hok : (structCore S .duration L durLen (fun k s => serFields ext a S k fields s) s).1 = .ok ()) :
    Res S .duration (structCore S .duration L durLen (fun k s => serFields ext a S k fields s)) s
      (fun v => ∃ mo d ms, v = .duration mo d ms ∧
        durationComplete (fields.map (·.1)) = true ∧ denotesDurFields mo d ms fields = true) := by
  have hstart : structStartAt S .duration L durLen s = (.ok (.duration [none, none, none]), s) := by
    cases durLen with
    | none => rfl
    | some l =>
      by_cases hl : l ≠ 3
      · simp [structCore, structStartAt, bind, SerM.fail, hl] at hok
      · simp [structStartAt, hl, pure]
  unfold Res
  simp only [structCore, bind, hstart] at hok ⊢
  cases hrun : serFields ext a S (.duration [none, none, none]) fields s with
  | mk r s2 =>
    rw [hrun] at hok
    cases r with
    | error ek => exfalso; obtain ⟨e, k'⟩ := ek; exact finally_fail_not_ok e _ _ _ hok
    | ok k' =>
      obtain ⟨vals', hk', hs2, hl', hcnt, hmem, _, hinv⟩ :=
        serFields_duration_sound fields [none, none, none] s k' s2 rfl hrun
      subst hk' hs2
      simp only [structBodyFinish, structFinish] at hok ⊢
      match vals', hl' with
      | [o0, o1, o2], _ =>
        cases o0 with
        | none => simp only [structEnd] at hok; exact absurd hok (finally_fail_not_ok _ _ _ _)
        | some x0 =>
        cases o1 with
        | none => simp only [structEnd] at hok; exact absurd hok (finally_fail_not_ok _ _ _ _)
        | some x1 =>
        cases o2 with
        | none => simp only [structEnd] at hok; exact absurd hok (finally_fail_not_ok _ _ _ _)
        | some x2 =>
          have hlen : fields.length = 3 := by
            simp [cntSome] at hcnt; omega
          -- who set each slot
          have hsrc : ∀ (i x : Nat), [some x0, some x1, some x2][i]? = some (some x) →
              ∃ p ∈ fields, durationFieldIdx p.1 = some i := by
            intro i x hx
            rcases hinv i x hx with h1 | h1
            · have : i < 3 := by
                cases hi : [some x0, some x1, some x2][i]? with
                | none => rw [hi] at hx; simp at hx
                | some _ => have := (List.getElem?_eq_some_iff.1 hi).1; simpa using this
              have : i = 0 ∨ i = 1 ∨ i = 2 := by omega
              rcases this with rfl | rfl | rfl <;> simp at h1
            · exact h1
          have hval : ∀ p ∈ fields, ∃ x, durField p.1 x0 x1 x2 = some x ∧ u32Of p.2 = some x := by
            intro p hp
            obtain ⟨i, x, hi, hx, hv⟩ := hmem p hp
            refine ⟨x, ?_, hx⟩
            rcases durationFieldIdx_cases hi with ⟨rfl, hn⟩ | ⟨rfl, hn⟩ | ⟨rfl, hn⟩ <;>
              simp at hv <;> subst hv <;> simp [durField, hn]
          have hlt : ∀ (i x : Nat), [some x0, some x1, some x2][i]? = some (some x) → x < 2 ^ 32 := by
            intro i x hx
            obtain ⟨p, hp, hpi⟩ := hsrc i x hx
            obtain ⟨j, y, hj, hy, hv⟩ := hmem p hp
            rw [hpi] at hj; simp at hj; subst hj
            rw [hx] at hv; simp at hv; subst hv
            exact u32Of_lt hy
          have h0 := hlt 0 x0 (by simp)
          have h1 := hlt 1 x1 (by simp)
          have h2 := hlt 2 x2 (by simp)
          have hcontains : ∀ (i : Nat) (nm : String), (∀ name, durationFieldIdx name = some i → name = nm) →
              (∃ x, [some x0, some x1, some x2][i]? = some (some x)) →
              (fields.map (·.1)).contains nm = true := by
            intro i nm hnm ⟨x, hx⟩
            obtain ⟨p, hp, hpi⟩ := hsrc i x hx
            have := hnm p.1 hpi
            simp only [List.contains_eq_mem, List.mem_map, decide_eq_true_eq]
            exact ⟨p, hp, this⟩
          have hc0 := hcontains 0 "months" (fun name h => by
            rcases durationFieldIdx_cases h with ⟨_, hn⟩ | ⟨h', _⟩ | ⟨h', _⟩ <;> first | exact hn | omega)
            ⟨x0, by simp⟩
          have hc1 := hcontains 1 "days" (fun name h => by
            rcases durationFieldIdx_cases h with ⟨h', _⟩ | ⟨_, hn⟩ | ⟨h', _⟩ <;> first | exact hn | omega)
            ⟨x1, by simp⟩
          have hc2 := hcontains 2 "milliseconds" (fun name h => by
            rcases durationFieldIdx_cases h with ⟨h', _⟩ | ⟨h', _⟩ | ⟨_, hn⟩ <;> first | exact hn | omega)
            ⟨x2, by simp⟩
          simp only [structEnd, TrM.lift, bind, writeAll_none _ s2 hs.1, pure, structDrop,
            SerM.finally]
          refine ⟨_, .duration x0 x1 x2, leBytes 4 x0 ++ leBytes 4 x1 ++ leBytes 4 x2, rfl, rfl,
            hs.append _, Dec.of_encode (by simp [encode, h0, h1, h2]), x0, x1, x2, rfl, ?_,
            denotesDurFields_of fields hval⟩
          simp only [durationComplete, List.length_map, hlen, hc0, hc1, hc2, decide_true, Bool.and_self]

end

end Avro.Canon
