import AvroModel.Impl.Ocf
/-
Helper lemmas on the container-file writer model (`Impl/Ocf.lean`): the vectored-write loop
only depends on the concatenation of the buffers (`writeAllVectored_eq_flat`), facts on the
flat loop, and the simulation between writer states that differ only by the sink's schedule.
-/
namespace Avro.Impl.Ocf

open Avro Avro.Impl

/-! ### `advanceSlices` -/

theorem advanceSlices_flatten (bufs : List Bytes) (n : Nat) :
    (advanceSlices bufs n).flatten = bufs.flatten.drop n := by
  induction bufs generalizing n with
  | nil => simp [advanceSlices]
  | cons b rest ih =>
    simp only [advanceSlices]
    split
    · rename_i h
      rw [ih, List.flatten_cons, List.drop_append]
      simp [List.drop_eq_nil_of_le h]
    · rename_i h
      rw [List.flatten_cons, List.flatten_cons, List.drop_append]
      have : n - b.length = 0 := by omega
      simp [this]

theorem advanceSlices_zero_flatten (bufs : List Bytes) :
    (advanceSlices bufs 0).flatten = bufs.flatten := by
  simp [advanceSlices_flatten]

/-- After `advance_slices(0)` the list of buffers is empty exactly when nothing is left. -/
theorem advanceSlices_zero_isEmpty (bufs : List Bytes) :
    (advanceSlices bufs 0).isEmpty = true ↔ bufs.flatten = [] := by
  induction bufs with
  | nil => simp [advanceSlices]
  | cons b rest ih =>
    simp only [advanceSlices, Nat.le_zero_eq, List.length_eq_zero_iff]
    split
    · rename_i h; subst h; simpa using ih
    · rename_i h; simp [h]

/-- `advance_slices(0)` only strips leading empty buffers: the first remaining one is not empty. -/
theorem advanceSlices_zero_head_ne_nil (bufs : List Bytes) :
    ∀ b ∈ (advanceSlices bufs 0).head?, b ≠ [] := by
  induction bufs with
  | nil => simp [advanceSlices]
  | cons b rest ih =>
    simp only [advanceSlices, Nat.le_zero_eq, List.length_eq_zero_iff]
    split
    · simpa using ih
    · rename_i h; simpa using h

/-- `advance_slices(0)` returns a suffix of the buffer list. -/
theorem advanceSlices_zero_suffix (bufs : List Bytes) : advanceSlices bufs 0 <:+ bufs := by
  induction bufs with
  | nil => simp [advanceSlices]
  | cons b rest ih =>
    simp only [advanceSlices, Nat.le_zero_eq, List.length_eq_zero_iff]
    split
    · exact List.IsSuffix.trans (by simpa using ih) (List.suffix_cons b rest)
    · simp

/-! ### The flat loop -/

/-- The write loop on the concatenation of the buffers. -/
def writeFlat : Nat → Bytes → Sink → Except WErr Unit × Sink
  | 0, _, s => (.error .panic, s)
  | fuel + 1, bs, s =>
    if bs = [] then (.ok (), s)
    else
      match s.sched with
      | [] => writeFlat fuel [] { data := s.data ++ bs, sched := [], calls := s.calls + 1 }
      | .interrupted :: rest => writeFlat fuel bs { s with sched := rest, calls := s.calls + 1 }
      | .hardError :: rest => (.error .io, { s with sched := rest, calls := s.calls + 1 })
      | .accept k :: rest =>
        let s' : Sink := { data := s.data ++ bs.take (min k bs.length), sched := rest, calls := s.calls + 1 }
        if min k bs.length = 0 then (.error .io, s')
        else writeFlat fuel (bs.drop (min k bs.length)) s'

theorem writeAllVectored_eq_flat (fuel : Nat) (bufs : List Bytes) (s : Sink) :
    writeAllVectored fuel bufs s = writeFlat fuel bufs.flatten s := by
  induction fuel generalizing bufs s with
  | zero => simp [writeAllVectored, writeFlat]
  | succ fuel ih =>
    unfold writeAllVectored writeFlat
    simp only
    by_cases hnil : bufs.flatten = []
    · simp [hnil, (advanceSlices_zero_isEmpty bufs).2 hnil]
    · have hne : ¬ ((advanceSlices bufs 0).isEmpty = true) := fun h =>
        hnil ((advanceSlices_zero_isEmpty bufs).1 h)
      have hlen : bufs.flatten.length ≠ 0 := fun h => hnil (List.length_eq_zero_iff.1 h)
      simp only [hne, hnil, if_false, Bool.false_eq_true]
      cases hs : s.sched with
      | nil =>
        simp only [Sink.writeCall, hs, advanceSlices_zero_flatten]
        rw [ih, advanceSlices_flatten, advanceSlices_zero_flatten, List.drop_length]
      | cons r rest =>
        cases r with
        | interrupted => simp only [ih, advanceSlices_zero_flatten]
        | hardError => simp [Sink.writeCall, hs]
        | accept k =>
          simp only [Sink.writeCall, hs, advanceSlices_zero_flatten]
          generalize min k bufs.flatten.length = m
          cases m with
          | zero => simp
          | succ m => simp [ih, advanceSlices_flatten]

/-- A schedule with no hard error and no zero-length acceptance: only partial (non-empty) writes
    and interruptions. -/
def Benign (sched : List SinkResp) : Prop :=
  ∀ r ∈ sched, r = .interrupted ∨ ∃ k, r = .accept k ∧ 1 ≤ k

theorem Benign.nil : Benign [] := by intro r h; simp at h

theorem Benign.tail {r : SinkResp} {rest : List SinkResp} (h : Benign (r :: rest)) : Benign rest :=
  fun x hx => h x (List.mem_cons_of_mem _ hx)

/-- Whatever the schedule, what reaches the sink during one `write_all` is a prefix of the bytes
    offered, all of them if the call succeeds; the schedule is consumed from the front. -/
theorem writeFlat_prefix (fuel : Nat) (bs : Bytes) (s : Sink) (r : Except WErr Unit) (s' : Sink)
    (h : writeFlat fuel bs s = (r, s')) :
    ∃ m, m ≤ bs.length ∧ s'.data = s.data ++ bs.take m ∧ (r = .ok () → m = bs.length) ∧
      s'.sched <:+ s.sched ∧ s.calls ≤ s'.calls := by
  induction fuel generalizing bs s with
  | zero =>
    simp only [writeFlat, Prod.mk.injEq] at h
    obtain ⟨h1, h2⟩ := h
    subst h1 h2
    exact ⟨0, by simp⟩
  | succ fuel ih =>
    unfold writeFlat at h
    split at h
    · rename_i hnil
      simp only [Prod.mk.injEq] at h
      obtain ⟨h1, h2⟩ := h
      subst h1 h2 hnil
      exact ⟨0, by simp⟩
    · split at h
      · rename_i hs
        obtain ⟨m, _, h2, _, h4, h5⟩ := ih _ _ h
        refine ⟨bs.length, Nat.le_refl _, ?_, fun _ => rfl, ?_, ?_⟩
        · simpa using h2
        · simp only at h4; rw [hs]; exact h4
        · simp only at h5; omega
      · rename_i rest hs
        obtain ⟨m, h1, h2, h3, h4, h5⟩ := ih _ _ h
        refine ⟨m, h1, h2, h3, ?_, ?_⟩
        · rw [hs]; exact List.IsSuffix.trans h4 (List.suffix_cons _ _)
        · simp only at h5; omega
      · rename_i rest hs
        simp only [Prod.mk.injEq] at h
        obtain ⟨h1, h2⟩ := h
        subst h1 h2
        refine ⟨0, by simp, by simp, by simp, ?_, by simp⟩
        simp only; rw [hs]; exact List.suffix_cons _ _
      · rename_i k rest hs
        simp only at h
        split at h
        · rename_i hz
          simp only [Prod.mk.injEq] at h
          obtain ⟨h1, h2⟩ := h
          subst h1 h2
          refine ⟨0, by simp, by simp [hz], by simp, ?_, by simp⟩
          simp only; rw [hs]; exact List.suffix_cons _ _
        · obtain ⟨m, h1, h2, h3, h4, h5⟩ := ih _ _ h
          simp only [List.length_drop] at h1 h3
          refine ⟨min k bs.length + m, by omega, ?_, ?_, ?_, ?_⟩
          · rw [h2]; simp only [List.append_assoc, List.append_cancel_left_eq]
            rw [List.take_add]
          · intro hr; have := h3 hr; omega
          · rw [hs]; exact List.IsSuffix.trans h4 (List.suffix_cons _ _)
          · simp only at h5; omega

/-- With a benign schedule and enough fuel the loop succeeds and delivers exactly the bytes
    offered. -/
theorem writeFlat_benign (fuel : Nat) (bs : Bytes) (s : Sink) (hb : Benign s.sched)
    (hf : fuel ≥ s.sched.length + bs.length + 2) :
    ∃ s', writeFlat fuel bs s = (.ok (), s') ∧ s'.data = s.data ++ bs ∧ Benign s'.sched := by
  induction fuel generalizing bs s with
  | zero => omega
  | succ fuel ih =>
    unfold writeFlat
    split
    · rename_i hnil; subst hnil; exact ⟨s, rfl, by simp, hb⟩
    · rename_i hnil
      have hlen : 1 ≤ bs.length := List.length_pos_iff.2 hnil
      split
      · rename_i hs
        obtain ⟨s', h1, h2, h3⟩ := ih [] { data := s.data ++ bs, sched := [], calls := s.calls + 1 }
          Benign.nil (by simp only [List.length_nil]; omega)
        exact ⟨s', h1, by simpa using h2, h3⟩
      · rename_i rest hs
        rw [hs] at hb hf
        obtain ⟨s', h1, h2, h3⟩ := ih bs { s with sched := rest, calls := s.calls + 1 }
          hb.tail (by simp only [List.length_cons] at hf ⊢; omega)
        exact ⟨s', h1, h2, h3⟩
      · rename_i rest hs
        rw [hs] at hb
        have := hb .hardError (by simp)
        simp at this
      · rename_i k rest hs
        rw [hs] at hb hf
        have hk : 1 ≤ k := by
          have := hb (.accept k) (by simp)
          simpa using this
        simp only
        have hm : ¬ (min k bs.length = 0) := by omega
        simp only [hm, if_false]
        obtain ⟨s', h1, h2, h3⟩ := ih (bs.drop (min k bs.length))
          { data := s.data ++ bs.take (min k bs.length), sched := rest, calls := s.calls + 1 }
          hb.tail (by simp only [List.length_cons, List.length_drop] at hf ⊢; omega)
        refine ⟨s', h1, ?_, h3⟩
        rw [h2]; simp

/-- If the first response that is not an interruption is a hard error (and something is to be
    written), the call fails with an I/O error having delivered nothing. -/
theorem writeFlat_hardError (fuel : Nat) (bs : Bytes) (s : Sink) (pre rest : List SinkResp)
    (hs : s.sched = pre ++ .hardError :: rest) (hpre : ∀ r ∈ pre, r = .interrupted)
    (hbs : bs ≠ []) (hf : pre.length < fuel) :
    writeFlat fuel bs s =
      (.error .io, { s with sched := rest, calls := s.calls + pre.length + 1 }) := by
  induction pre generalizing fuel s with
  | nil =>
    cases fuel with
    | zero => simp at hf
    | succ fuel =>
      unfold writeFlat
      simp only [hbs, if_false]
      simp only [List.nil_append] at hs
      simp [hs]
  | cons p pre ih =>
    cases fuel with
    | zero => simp at hf
    | succ fuel =>
      have hp : p = .interrupted := hpre p (by simp)
      subst hp
      unfold writeFlat
      simp only [hbs, if_false]
      simp only [List.cons_append] at hs
      simp only [hs]
      rw [ih fuel { s with sched := pre ++ .hardError :: rest, calls := s.calls + 1 } rfl
        (fun r hr => hpre r (List.mem_cons_of_mem _ hr)) (by simpa using hf)]
      simp only [List.length_cons, Prod.mk.injEq, true_and]
      congr 1
      omega

/-- If the first response that is not an interruption is `Ok(0)` (and something is to be
    written), the call fails with an I/O error (`WriteZero`) having delivered nothing. -/
theorem writeFlat_zero (fuel : Nat) (bs : Bytes) (s : Sink) (pre rest : List SinkResp)
    (hs : s.sched = pre ++ .accept 0 :: rest) (hpre : ∀ r ∈ pre, r = .interrupted)
    (hbs : bs ≠ []) (hf : pre.length < fuel) :
    writeFlat fuel bs s =
      (.error .io, { s with sched := rest, calls := s.calls + pre.length + 1 }) := by
  induction pre generalizing fuel s with
  | nil =>
    cases fuel with
    | zero => simp at hf
    | succ fuel =>
      unfold writeFlat
      simp only [hbs, if_false]
      simp only [List.nil_append] at hs
      simp [hs]
  | cons p pre ih =>
    cases fuel with
    | zero => simp at hf
    | succ fuel =>
      have hp : p = .interrupted := hpre p (by simp)
      subst hp
      unfold writeFlat
      simp only [hbs, if_false]
      simp only [List.cons_append] at hs
      simp only [hs]
      rw [ih fuel { s with sched := pre ++ .accept 0 :: rest, calls := s.calls + 1 } rfl
        (fun r hr => hpre r (List.mem_cons_of_mem _ hr)) (by simpa using hf)]
      simp only [List.length_cons, Prod.mk.injEq, true_and]
      congr 1
      omega

theorem writeAllVectored_benign (fuel : Nat) (bufs : List Bytes) (s : Sink) (hb : Benign s.sched)
    (hf : fuel ≥ sinkFuel s bufs) :
    ∃ s', writeAllVectored fuel bufs s = (.ok (), s') ∧ s'.data = s.data ++ bufs.flatten ∧
      Benign s'.sched := by
  rw [writeAllVectored_eq_flat]
  exact writeFlat_benign fuel bufs.flatten s hb hf

/-! ### Writer states up to the sink's schedule -/

/-- Forget the sink's schedule and call counter. -/
def core (w : WState) : WState :=
  { w with sink := { data := w.sink.data, sched := [], calls := 0 } }

theorem core_eq_iff (w w' : WState) :
    core w = core w' ↔
      w.buf = w'.buf ∧ w.n = w'.n ∧ w.pending = w'.pending ∧ w.compressed = w'.compressed ∧
      w.approx = w'.approx ∧ w.sync = w'.sync ∧ w.sink.data = w'.sink.data ∧ w.taken = w'.taken := by
  obtain ⟨b, n, p, co, a, sy, ⟨d, sc, ca⟩, t⟩ := w
  obtain ⟨b', n', p', co', a', sy', ⟨d', sc', ca'⟩, t'⟩ := w'
  simp only [core, WState.mk.injEq, Sink.mk.injEq, and_true]

@[simp] theorem core_core (w : WState) : core (core w) = core w := rfl

/-- Two writer states that differ only by the (benign) schedules of their sinks. -/
structure Sim (w w' : WState) : Prop where
  benign : Benign w.sink.sched
  benign' : Benign w'.sink.sched
  core_eq : core w = core w'

theorem Sim.of_core (w : WState) (h : Benign w.sink.sched) : Sim w (core w) :=
  ⟨h, Benign.nil, rfl⟩

/-- With a benign schedule the pending block is written entirely: header, data, marker. -/
theorem flushFinishedBlock_benign (c : Codec) (w : WState) (header : Bytes)
    (hp : w.pending = some header) (ht : w.taken = false) (hb : Benign w.sink.sched) :
    ∃ s1, flushFinishedBlock c w = (.ok (), { w with sink := s1, pending := none, buf := [] }) ∧
      s1.data = w.sink.data ++ (header ++ blockData c w ++ w.sync) ∧ Benign s1.sched := by
  unfold flushFinishedBlock
  simp only [hp, ht, Bool.false_eq_true, if_false]
  obtain ⟨s1, h1, h2, h3⟩ := writeAllVectored_benign
    (sinkFuel w.sink [header, blockData c w, w.sync]) [header, blockData c w, w.sync] w.sink hb
    (Nat.le_refl _)
  refine ⟨s1, ?_, ?_, h3⟩
  · rw [h1]
  · rw [h2]; simp

theorem flushFinishedBlock_sim (c : Codec) (w w' : WState) (h : Sim w w') :
    (flushFinishedBlock c w).1 = (flushFinishedBlock c w').1 ∧
      Sim (flushFinishedBlock c w).2 (flushFinishedBlock c w').2 := by
  obtain ⟨hb, hb', hc⟩ := h
  have hc' := (core_eq_iff w w').1 hc
  obtain ⟨e1, e2, e3, e4, e5, e6, e7, e8⟩ := hc'
  cases hp : w.pending with
  | none =>
    have hp' : w'.pending = none := by rw [← e3, hp]
    simp only [flushFinishedBlock, hp, hp']
    exact ⟨trivial, hb, hb', hc⟩
  | some header =>
    have hp' : w'.pending = some header := by rw [← e3, hp]
    cases ht : w.taken with
    | true =>
      have ht' : w'.taken = true := by rw [← e8, ht]
      simp only [flushFinishedBlock, hp, hp', ht, ht', if_true]
      exact ⟨trivial, hb, hb', hc⟩
    | false =>
      have ht' : w'.taken = false := by rw [← e8, ht]
      obtain ⟨s1, h1, h2, h3⟩ := flushFinishedBlock_benign c w header hp ht hb
      obtain ⟨s1', h1', h2', h3'⟩ := flushFinishedBlock_benign c w' header hp' ht' hb'
      rw [h1, h1']
      refine ⟨rfl, h3, h3', ?_⟩
      rw [core_eq_iff]
      simp only [h2, h2', blockData, e1, e2, e4, e5, e6, e7, e8, and_self]

theorem innerFinishBlock_sim (c : Codec) (w w' : WState) (h : Sim w w') :
    (innerFinishBlock c w).1 = (innerFinishBlock c w').1 ∧
      Sim (innerFinishBlock c w).2 (innerFinishBlock c w').2 := by
  obtain ⟨hb, hb', hc⟩ := h
  have hc' := (core_eq_iff w w').1 hc
  obtain ⟨e1, e2, e3, e4, e5, e6, e7, e8⟩ := hc'
  unfold innerFinishBlock
  rw [e2, e3]
  split
  · split
    · exact ⟨rfl, hb, hb', hc⟩
    · refine ⟨rfl, hb, hb', ?_⟩
      rw [core_eq_iff]
      simp only [blockData, e1, e5, e6, e7, e8, and_self]
  · exact ⟨rfl, hb, hb', hc⟩

theorem finishBlock_sim (c : Codec) (w w' : WState) (h : Sim w w') :
    (finishBlock c w).1 = (finishBlock c w').1 ∧
      Sim (finishBlock c w).2 (finishBlock c w').2 := by
  obtain ⟨h1, h2⟩ := innerFinishBlock_sim c w w' h
  unfold finishBlock
  cases hi : innerFinishBlock c w with
  | mk r w1 =>
    cases hi' : innerFinishBlock c w' with
    | mk r' w1' =>
      rw [hi, hi'] at h1 h2
      simp only at h1 h2
      subst h1
      cases r with
      | error e => exact ⟨rfl, h2⟩
      | ok u => exact flushFinishedBlock_sim c w1 w1' h2

/-- The prefix of `serialize` / `push_serialized` that runs before the value is looked at:
    flush a pending block, and close the current one if it is already large enough. -/
def preFlush (c : Codec) (w : WState) : Except WErr Unit × WState :=
  match flushFinishedBlock c w with
  | (.error e, w) => (.error e, w)
  | (.ok _, w) => if w.buf.length ≥ w.approx then finishBlock c w else (.ok (), w)

/-- The suffix of `serialize` / `push_serialized` that runs after the value was appended. -/
def postAdd (c : Codec) (w : WState) : Except WErr Unit × WState :=
  match (if w.buf.length ≥ w.approx then innerFinishBlock c w else (.ok (), w)) with
  | (.error e, w) => (.error e, w)
  | (.ok _, w) => flushFinishedBlock c w

theorem withValue_eq (c : Codec) (w : WState) (add : Option (Bytes × Nat)) :
    withValue c w add =
      match preFlush c w with
      | (.error e, w) => (.error e, w)
      | (.ok _, w) =>
        match add with
        | none => (.error .custom, w)
        | some (bytes, k) => postAdd c { w with buf := w.buf ++ bytes, n := w.n + k } := by
  unfold withValue preFlush postAdd
  cases flushFinishedBlock c w with
  | mk r w1 =>
    cases r with
    | error e => rfl
    | ok u => rfl

theorem preFlush_sim (c : Codec) (w w' : WState) (h : Sim w w') :
    (preFlush c w).1 = (preFlush c w').1 ∧ Sim (preFlush c w).2 (preFlush c w').2 := by
  obtain ⟨h1, h2⟩ := flushFinishedBlock_sim c w w' h
  unfold preFlush
  cases hi : flushFinishedBlock c w with
  | mk r w1 =>
  cases hi' : flushFinishedBlock c w' with
  | mk r' w1' =>
  rw [hi, hi'] at h1 h2
  simp only at h1 h2
  subst h1
  cases r with
  | error e => exact ⟨rfl, h2⟩
  | ok u =>
    simp only
    have hc1 := (core_eq_iff w1 w1').1 h2.core_eq
    rw [← hc1.1, ← hc1.2.2.2.2.1]
    split
    · exact finishBlock_sim c w1 w1' h2
    · exact ⟨rfl, h2⟩

theorem postAdd_sim (c : Codec) (w w' : WState) (h : Sim w w') :
    (postAdd c w).1 = (postAdd c w').1 ∧ Sim (postAdd c w).2 (postAdd c w').2 := by
  unfold postAdd
  have hc1 := (core_eq_iff w w').1 h.core_eq
  rw [← hc1.1, ← hc1.2.2.2.2.1]
  by_cases hge : w.buf.length ≥ w.approx
  · simp only [hge, if_true]
    obtain ⟨h1, h2⟩ := innerFinishBlock_sim c w w' h
    cases hi : innerFinishBlock c w with
    | mk r w1 =>
    cases hi' : innerFinishBlock c w' with
    | mk r' w1' =>
    rw [hi, hi'] at h1 h2
    simp only at h1 h2
    subst h1
    cases r with
    | error e => exact ⟨rfl, h2⟩
    | ok u => exact flushFinishedBlock_sim c w1 w1' h2
  · simp only [hge, if_false]
    exact flushFinishedBlock_sim c w w' h

theorem withValue_sim (c : Codec) (w w' : WState) (add : Option (Bytes × Nat)) (h : Sim w w') :
    (withValue c w add).1 = (withValue c w' add).1 ∧
      Sim (withValue c w add).2 (withValue c w' add).2 := by
  obtain ⟨h1, h2⟩ := preFlush_sim c w w' h
  rw [withValue_eq, withValue_eq]
  cases hi : preFlush c w with
  | mk r w1 =>
  cases hi' : preFlush c w' with
  | mk r' w1' =>
  rw [hi, hi'] at h1 h2
  simp only at h1 h2
  subst h1
  cases r with
  | error e => exact ⟨rfl, h2⟩
  | ok u =>
    cases add with
    | none => exact ⟨rfl, h2⟩
    | some bk =>
      obtain ⟨bytes, k⟩ := bk
      simp only
      apply postAdd_sim
      refine ⟨h2.benign, h2.benign', ?_⟩
      have := (core_eq_iff _ _).1 h2.core_eq
      rw [core_eq_iff]
      simp only [this, and_self]

theorem wstep_sim (c : Codec) (dbg : Bool) (w w' : WState) (op : WOp) (h : Sim w w') :
    (wstep c dbg w op).1 = (wstep c dbg w' op).1 ∧
      Sim (wstep c dbg w op).2 (wstep c dbg w' op).2 := by
  have ht : w.taken = w'.taken := ((core_eq_iff w w').1 h.core_eq).2.2.2.2.2.2.2
  cases op with
  | value d => exact withValue_sim c w w' _ h
  | push b n => exact withValue_sim c w w' _ h
  | finishBlock => exact finishBlock_sim c w w' h
  | intoInner =>
    obtain ⟨h1, h2⟩ := finishBlock_sim c w w' h
    simp only [wstep]
    refine ⟨h1, h2.benign, h2.benign', ?_⟩
    have := (core_eq_iff _ _).1 h2.core_eq
    rw [core_eq_iff]
    simp only [this, and_self]
  | drop =>
    obtain ⟨h1, h2⟩ := finishBlock_sim c w w' h
    simp only [wstep]
    rw [← ht]
    split
    · exact ⟨rfl, h⟩
    · cases hi : finishBlock c w with
      | mk r w1 =>
      cases hi' : finishBlock c w' with
      | mk r' w1' =>
      rw [hi, hi'] at h1 h2
      simp only at h1 h2
      subst h1
      cases r with
      | ok u => exact ⟨rfl, h2⟩
      | error e =>
        cases e with
        | panic => exact ⟨rfl, h2⟩
        | io => simp only; split <;> exact ⟨rfl, h2⟩
        | custom => simp only; split <;> exact ⟨rfl, h2⟩

/-- A whole history of writer calls: the results of the calls, and the final state. -/
def wrun (c : Codec) (dbg : Bool) (w : WState) (ops : List WOp) : List (Except WErr Unit) × WState :=
  ops.foldl (fun acc op => (acc.1 ++ [(wstep c dbg acc.2 op).1], (wstep c dbg acc.2 op).2)) ([], w)

theorem wrun_sim_aux (c : Codec) (dbg : Bool) (ops : List WOp) (acc : List (Except WErr Unit))
    (w w' : WState) (h : Sim w w') :
    let f := fun (acc : List (Except WErr Unit) × WState) op =>
      (acc.1 ++ [(wstep c dbg acc.2 op).1], (wstep c dbg acc.2 op).2)
    (ops.foldl f (acc, w)).1 = (ops.foldl f (acc, w')).1 ∧
      Sim (ops.foldl f (acc, w)).2 (ops.foldl f (acc, w')).2 := by
  induction ops generalizing acc w w' with
  | nil => exact ⟨rfl, h⟩
  | cons op ops ih =>
    obtain ⟨h1, h2⟩ := wstep_sim c dbg w w' op h
    simp only [List.foldl_cons]
    rw [h1]
    exact ih _ _ _ h2

theorem wrun_sim (c : Codec) (dbg : Bool) (ops : List WOp) (w w' : WState) (h : Sim w w') :
    (wrun c dbg w ops).1 = (wrun c dbg w' ops).1 ∧ Sim (wrun c dbg w ops).2 (wrun c dbg w' ops).2 :=
  wrun_sim_aux c dbg ops [] w w' h

/-! ### The all-accepting sink and the abstract writer -/

theorem writeAllVectored_accepting (fuel : Nat) (bufs : List Bytes) (s : Sink) (hs : s.sched = [])
    (hf : fuel ≥ sinkFuel s bufs) :
    ∃ s', writeAllVectored fuel bufs s = (.ok (), s') ∧ s'.data = s.data ++ bufs.flatten ∧
      s'.sched = [] := by
  obtain ⟨s', h1, h2, _⟩ := writeAllVectored_benign fuel bufs s (by rw [hs]; exact Benign.nil) hf
  refine ⟨s', h1, h2, ?_⟩
  rw [writeAllVectored_eq_flat] at h1
  obtain ⟨_, _, _, _, h5, _⟩ := writeFlat_prefix _ _ _ _ _ h1
  rw [hs] at h5
  exact List.suffix_nil.1 h5

/-- What the codec stores for a block whose serialized values are `d`. -/
def codecData (c : Codec) (d : Bytes) : Bytes := if c.isNull then d else c.compress d

/-- One block of the file: count, size, (compressed) data, sync marker. -/
def blockBytes (c : Codec) (sync : Bytes) (b : Nat × Bytes) : Bytes :=
  encodeVarI64 b.1 ++ encodeVarI64 (codecData c b.2).length ++ codecData c b.2 ++ sync

def blocksBytes (c : Codec) (sync : Bytes) (blocks : List (Nat × Bytes)) : Bytes :=
  (blocks.map (blockBytes c sync)).flatten

theorem blocksBytes_snoc (c : Codec) (sync : Bytes) (blocks : List (Nat × Bytes)) (b : Nat × Bytes) :
    blocksBytes c sync (blocks ++ [b]) = blocksBytes c sync blocks ++ blockBytes c sync b := by
  simp [blocksBytes]

/-- The state of the writer between two calls: nothing pending, the sink holds the header and
    the blocks `(count, uncompressed data)` flushed so far. -/
structure Inv (c : Codec) (hdr : Bytes) (blocks : List (Nat × Bytes)) (w : WState) : Prop where
  pending_none : w.pending = none
  not_taken : ¬ w.taken
  sink_eq : w.sink.data = hdr ++ blocksBytes c w.sync blocks

/-- An entry of the log: the bytes appended to the buffer and the number of values they count
    for (`serialize`: one value; `push_serialized bytes n`: `n` values). -/
abbrev Entry := Bytes × Nat

def bufOf (es : List Entry) : Bytes := (es.map (·.1)).flatten
def cntOf (es : List Entry) : Nat := (es.map (·.2)).sum
def blockOf (es : List Entry) : Nat × Bytes := (cntOf es, bufOf es)

@[simp] theorem bufOf_nil : bufOf [] = [] := rfl
@[simp] theorem cntOf_nil : cntOf [] = 0 := rfl
theorem bufOf_snoc (es : List Entry) (e : Entry) : bufOf (es ++ [e]) = bufOf es ++ e.1 := by
  simp [bufOf]
theorem cntOf_snoc (es : List Entry) (e : Entry) : cntOf (es ++ [e]) = cntOf es + e.2 := by
  simp [cntOf]

/-- The abstract writer: the entries of each block written, and the entries still buffered. -/
structure AState where
  sealed : List (List Entry) := []
  buffered : List Entry := []

/-- all entries accepted so far, in order -/
def AState.log (a : AState) : List Entry := a.sealed.flatten ++ a.buffered

/-- close the current block if it counts at least one value -/
def aseal (a : AState) : AState :=
  if cntOf a.buffered > 0 then { sealed := a.sealed ++ [a.buffered], buffered := [] } else a

/-- close the current block if it has reached the approximate block size -/
def asealIf (approx : Nat) (a : AState) : AState :=
  if (bufOf a.buffered).length ≥ approx then aseal a else a

def aadd (a : AState) (e : Entry) : AState := { a with buffered := a.buffered ++ [e] }

def entryOf : WOp → List Entry
  | .value (some d) => [(d, 1)]
  | .push b k => [(b, k)]
  | _ => []

def astep (approx : Nat) (a : AState) : WOp → AState
  | .value none => asealIf approx a
  | .value (some d) => asealIf approx (aadd (asealIf approx a) (d, 1))
  | .push b k => asealIf approx (aadd (asealIf approx a) (b, k))
  | .finishBlock => aseal a
  | .intoInner => aseal a
  | .drop => aseal a

/-- the result each call is expected to return (on a sink without errors) -/
def expected : WOp → Except WErr Unit
  | .value none => .error .custom
  | _ => .ok ()

/-- The writer state `w` (all-accepting sink) is represented by the abstract state `a`. -/
structure Rep (c : Codec) (hdr sync : Bytes) (approx : Nat) (a : AState) (w : WState) : Prop where
  inv : Inv c hdr (a.sealed.map blockOf) w
  buf_eq : w.buf = bufOf a.buffered
  n_eq : w.n = cntOf a.buffered
  sched_nil : w.sink.sched = []
  sync_eq : w.sync = sync
  approx_eq : w.approx = approx

theorem flushFinishedBlock_accepting (c : Codec) (w : WState) (header : Bytes)
    (hp : w.pending = some header) (ht : w.taken = false) (hs : w.sink.sched = []) :
    ∃ s1, flushFinishedBlock c w = (.ok (), { w with sink := s1, pending := none, buf := [] }) ∧
      s1.data = w.sink.data ++ (header ++ blockData c w ++ w.sync) ∧ s1.sched = [] := by
  unfold flushFinishedBlock
  simp only [hp, ht, Bool.false_eq_true, if_false]
  obtain ⟨s1, h1, h2, h3⟩ := writeAllVectored_accepting
    (sinkFuel w.sink [header, blockData c w, w.sync]) [header, blockData c w, w.sync] w.sink hs
    (Nat.le_refl _)
  refine ⟨s1, ?_, ?_, h3⟩
  · rw [h1]
  · rw [h2]; simp

theorem innerFinishBlock_pos (c : Codec) (w : WState) (hpos : w.n > 0) (hp : w.pending = none) :
    innerFinishBlock c w =
      (.ok (), { w with compressed := (if c.isNull then [] else c.compress w.buf),
                        pending := some (encodeVarI64 w.n ++ encodeVarI64 (codecData c w.buf).length),
                        n := 0 }) := by
  unfold innerFinishBlock
  simp only [hpos, hp, if_true, Option.isSome_none, Bool.false_eq_true, if_false, blockData, codecData]
  cases c.isNull <;> simp

theorem finishBlock_rep (c : Codec) (hdr sync : Bytes) (approx : Nat) (a : AState) (w : WState)
    (h : Rep c hdr sync approx a w) :
    ∃ w', finishBlock c w = (.ok (), w') ∧ Rep c hdr sync approx (aseal a) w' := by
  obtain ⟨⟨hp, ht, hd⟩, hb, hn, hs, hsy, hap⟩ := h
  have ht' : w.taken = false := by simpa using ht
  unfold finishBlock aseal
  by_cases hpos : w.n > 0
  · have hpos' : cntOf a.buffered > 0 := by rw [← hn]; exact hpos
    rw [innerFinishBlock_pos c w hpos hp]
    simp only [hpos', if_true]
    obtain ⟨s1, h1, h2, h3⟩ := flushFinishedBlock_accepting c
      { w with compressed := (if c.isNull then [] else c.compress w.buf),
               pending := some (encodeVarI64 w.n ++ encodeVarI64 (codecData c w.buf).length),
               n := 0 } _ rfl ht' hs
    rw [h1]
    refine ⟨_, rfl, ⟨rfl, ht, ?_⟩, hb ▸ rfl, rfl, h3, hsy, hap⟩
    simp only [h2, hd, List.map_append, List.map_cons, List.map_nil, blocksBytes_snoc, blockBytes,
      blockOf, ← hn, ← hb, List.append_assoc, List.append_cancel_left_eq]
    simp only [blockData, codecData]
    cases c.isNull <;> simp
  · have hpos' : ¬ (cntOf a.buffered > 0) := by rw [← hn]; exact hpos
    simp only [innerFinishBlock, hpos, hpos', if_false, flushFinishedBlock, hp]
    exact ⟨w, rfl, ⟨hp, ht, hd⟩, hb, hn, hs, hsy, hap⟩

theorem preFlush_rep (c : Codec) (hdr sync : Bytes) (approx : Nat) (a : AState) (w : WState)
    (h : Rep c hdr sync approx a w) :
    ∃ w', preFlush c w = (.ok (), w') ∧ Rep c hdr sync approx (asealIf approx a) w' := by
  unfold preFlush asealIf
  simp only [flushFinishedBlock, h.inv.pending_none, h.buf_eq, h.approx_eq]
  split
  · exact finishBlock_rep c hdr sync approx a w h
  · exact ⟨w, rfl, h⟩

theorem postAdd_rep (c : Codec) (hdr sync : Bytes) (approx : Nat) (a : AState) (w : WState)
    (h : Rep c hdr sync approx a w) :
    ∃ w', postAdd c w = (.ok (), w') ∧ Rep c hdr sync approx (asealIf approx a) w' := by
  have hfin : ∀ w, finishBlock c w =
      (match innerFinishBlock c w with
        | (.error e, w) => (.error e, w)
        | (.ok _, w) => flushFinishedBlock c w) := fun _ => rfl
  unfold postAdd asealIf
  simp only [h.buf_eq, h.approx_eq]
  by_cases hge : (bufOf a.buffered).length ≥ approx
  · simp only [hge, if_true]
    rw [← hfin]; exact finishBlock_rep c hdr sync approx a w h
  · simp only [hge, if_false, flushFinishedBlock, h.inv.pending_none]
    exact ⟨w, rfl, h⟩

theorem add_rep (c : Codec) (hdr sync : Bytes) (approx : Nat) (a : AState) (w : WState)
    (bytes : Bytes) (k : Nat) (h : Rep c hdr sync approx a w) :
    Rep c hdr sync approx (aadd a (bytes, k)) { w with buf := w.buf ++ bytes, n := w.n + k } := by
  obtain ⟨⟨hp, ht, hd⟩, hb, hn, hs, hsy, hap⟩ := h
  exact ⟨⟨hp, ht, hd⟩, by simp [aadd, bufOf_snoc, hb], by simp [aadd, cntOf_snoc, hn], hs, hsy, hap⟩

theorem withValue_rep (c : Codec) (hdr sync : Bytes) (approx : Nat) (a : AState) (w : WState)
    (bytes : Bytes) (k : Nat) (h : Rep c hdr sync approx a w) :
    ∃ w', withValue c w (some (bytes, k)) = (.ok (), w') ∧
      Rep c hdr sync approx (asealIf approx (aadd (asealIf approx a) (bytes, k))) w' := by
  obtain ⟨w1, h1, r1⟩ := preFlush_rep c hdr sync approx a w h
  rw [withValue_eq, h1]
  exact postAdd_rep c hdr sync approx _ _ (add_rep c hdr sync approx _ w1 bytes k r1)

theorem withValue_none_rep (c : Codec) (hdr sync : Bytes) (approx : Nat) (a : AState) (w : WState)
    (h : Rep c hdr sync approx a w) :
    ∃ w', withValue c w none = (.error .custom, w') ∧
      Rep c hdr sync approx (asealIf approx a) w' := by
  obtain ⟨w1, h1, r1⟩ := preFlush_rep c hdr sync approx a w h
  rw [withValue_eq, h1]
  exact ⟨w1, rfl, r1⟩

theorem wstep_rep (c : Codec) (dbg : Bool) (hdr sync : Bytes) (approx : Nat) (a : AState)
    (w : WState) (op : WOp) (hop : op ≠ .intoInner) (h : Rep c hdr sync approx a w) :
    ∃ w', wstep c dbg w op = (expected op, w') ∧ Rep c hdr sync approx (astep approx a op) w' := by
  cases op with
  | value d =>
    cases d with
    | none => exact withValue_none_rep c hdr sync approx a w h
    | some d => exact withValue_rep c hdr sync approx a w d 1 h
  | push b k => exact withValue_rep c hdr sync approx a w b k h
  | finishBlock => exact finishBlock_rep c hdr sync approx a w h
  | intoInner => exact absurd rfl hop
  | drop =>
    obtain ⟨w', h1, h2⟩ := finishBlock_rep c hdr sync approx a w h
    have ht : w.taken = false := by simpa using h.inv.not_taken
    simp only [wstep, ht, Bool.false_eq_true, if_false, h1]
    exact ⟨w', rfl, h2⟩

theorem wstep_intoInner_rep (c : Codec) (dbg : Bool) (hdr sync : Bytes) (approx : Nat) (a : AState)
    (w : WState) (h : Rep c hdr sync approx a w) :
    ∃ w', wstep c dbg w .intoInner = (.ok (), { w' with taken := true }) ∧
      Rep c hdr sync approx (aseal a) w' := by
  obtain ⟨w', h1, h2⟩ := finishBlock_rep c hdr sync approx a w h
  simp only [wstep, h1]
  exact ⟨w', rfl, h2⟩

/-! ### Facts on the abstract writer -/

theorem aseal_log (a : AState) : (aseal a).log = a.log := by
  unfold aseal AState.log
  split <;> simp

theorem asealIf_log (approx : Nat) (a : AState) : (asealIf approx a).log = a.log := by
  unfold asealIf
  split
  · exact aseal_log a
  · rfl

theorem aadd_log (a : AState) (e : Entry) : (aadd a e).log = a.log ++ [e] := by
  simp [aadd, AState.log]

/-- Every call appends its entry (if it has one) to the log; nothing else changes the log. -/
theorem astep_log (approx : Nat) (a : AState) (op : WOp) :
    (astep approx a op).log = a.log ++ entryOf op := by
  cases op with
  | value d =>
    cases d with
    | none => simp [astep, entryOf, asealIf_log]
    | some d => simp [astep, entryOf, asealIf_log, aadd_log]
  | push b k => simp [astep, entryOf, asealIf_log, aadd_log]
  | finishBlock => simp [astep, entryOf, aseal_log]
  | intoInner => simp [astep, entryOf, aseal_log]
  | drop => simp [astep, entryOf, aseal_log]

theorem aseal_cnt (a : AState) : cntOf (aseal a).buffered = 0 := by
  unfold aseal
  split
  · rfl
  · omega

/-- entries that count for at least one value each -/
def AllPos (es : List Entry) : Prop := ∀ e ∈ es, 1 ≤ e.2

theorem eq_nil_of_cntOf_eq_zero (es : List Entry) (hp : AllPos es) (h : cntOf es = 0) : es = [] := by
  cases es with
  | nil => rfl
  | cons e es =>
    have := hp e (by simp)
    simp only [cntOf, List.map_cons, List.sum_cons] at h
    omega

/-- Blocks written hold at least one value (no empty block is ever written). -/
def SealedPos (a : AState) : Prop := ∀ b ∈ a.sealed, 0 < cntOf b

theorem aseal_sealedPos (a : AState) (h : SealedPos a) : SealedPos (aseal a) := by
  unfold aseal
  split
  · intro b hb
    simp only [List.mem_append, List.mem_singleton] at hb
    rcases hb with hb | hb
    · exact h b hb
    · subst hb; assumption
  · exact h

theorem asealIf_sealedPos (approx : Nat) (a : AState) (h : SealedPos a) :
    SealedPos (asealIf approx a) := by
  unfold asealIf
  split
  · exact aseal_sealedPos a h
  · exact h

theorem astep_sealedPos (approx : Nat) (a : AState) (op : WOp) (h : SealedPos a) :
    SealedPos (astep approx a op) := by
  cases op with
  | value d =>
    cases d with
    | none => exact asealIf_sealedPos approx a h
    | some d => exact asealIf_sealedPos approx _ (asealIf_sealedPos approx a h)
  | push b k => exact asealIf_sealedPos approx _ (asealIf_sealedPos approx a h)
  | finishBlock => exact aseal_sealedPos a h
  | intoInner => exact aseal_sealedPos a h
  | drop => exact aseal_sealedPos a h

/-- The abstract state after a history of calls. -/
def arun (approx : Nat) (a : AState) (ops : List WOp) : AState := ops.foldl (astep approx) a

theorem arun_log (approx : Nat) (a : AState) (ops : List WOp) :
    (arun approx a ops).log = a.log ++ ops.flatMap entryOf := by
  unfold arun
  induction ops generalizing a with
  | nil => simp
  | cons op ops ih => simp [List.foldl_cons, ih, astep_log, List.flatMap_cons]

theorem arun_sealedPos (approx : Nat) (a : AState) (ops : List WOp) (h : SealedPos a) :
    SealedPos (arun approx a ops) := by
  unfold arun
  induction ops generalizing a with
  | nil => exact h
  | cons op ops ih => exact ih _ (astep_sealedPos approx a op h)

theorem wrun_rep_aux (c : Codec) (dbg : Bool) (hdr sync : Bytes) (approx : Nat) (ops : List WOp)
    (hops : ∀ op ∈ ops, op ≠ .intoInner) (acc : List (Except WErr Unit)) (a : AState) (w : WState)
    (h : Rep c hdr sync approx a w) :
    let f := fun (acc : List (Except WErr Unit) × WState) op =>
      (acc.1 ++ [(wstep c dbg acc.2 op).1], (wstep c dbg acc.2 op).2)
    (ops.foldl f (acc, w)).1 = acc ++ ops.map expected ∧
      Rep c hdr sync approx (arun approx a ops) (ops.foldl f (acc, w)).2 := by
  induction ops generalizing acc a w with
  | nil => exact ⟨by simp, h⟩
  | cons op ops ih =>
    obtain ⟨w', h1, h2⟩ := wstep_rep c dbg hdr sync approx a w op (hops op (by simp)) h
    simp only [List.foldl_cons, h1]
    have := ih (fun o ho => hops o (List.mem_cons_of_mem _ ho)) (acc ++ [expected op]) _ w' h2
    simp only [List.map_cons]
    refine ⟨?_, this.2⟩
    rw [this.1]; simp

theorem wrun_rep (c : Codec) (dbg : Bool) (hdr sync : Bytes) (approx : Nat) (ops : List WOp)
    (hops : ∀ op ∈ ops, op ≠ .intoInner) (a : AState) (w : WState)
    (h : Rep c hdr sync approx a w) :
    (wrun c dbg w ops).1 = ops.map expected ∧
      Rep c hdr sync approx (arun approx a ops) (wrun c dbg w ops).2 := by
  have := wrun_rep_aux c dbg hdr sync approx ops hops [] a w h
  simpa [wrun] using this

end Avro.Impl.Ocf
