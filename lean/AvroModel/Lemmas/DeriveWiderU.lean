import AvroModel.Lemmas.DeriveWiderUBuild
/-
C20, wider, with enums that map to unions — part 3: the built schema realizes the types of the
fragment; the by-name table of a union from the program text; the fragment `FitWfWU`.
-/
namespace Avro.Theorems.DeriveWU
open Avro Avro.Impl Avro.Impl.Derive Avro.Theorems.DeriveG Avro.Theorems.DeriveW
open Avro.Theorems.DeriveFits hiding Inv KeyNode Done app_leaf app_fill app_step_leaf plainAt_of_done leaf_realizes leaf_keyNode

/-! ### Plain types have plain head tokens -/

/-- A head token whose node is neither `null` nor a union (`PlainTok`, which does not look at
    `.generic` tokens, plus: the token is not that of a generic enum that maps to a union). -/
def PlainTokU (P : Prog) (tok : KTok) : Prop :=
  PlainTok P tok ∧
    ∀ (id m : Nat) (d : Decl) (vs : List Variant), tok = .generic id m → P[id]? = some d → d.body ≠ .union vs

def HeadPlainU (P : Prog) (k : Key) : Prop := ∃ tok rest, k = tok :: rest ∧ PlainTokU P tok

theorem PlainTokU.self {P : Prog} {id : Nat} {d : Decl} (hd : P[id]? = some d) (hnu : ∀ vs, d.body ≠ .union vs) :
    PlainTokU P (.self id) :=
  ⟨PlainTok.self hd hnu, by intro _ _ _ _ h; cases h⟩

theorem named_headU {P : Prog} {id : Nat} {args : List Ty} {k : Key} {d : Decl}
    (h : KeyOf P (.named id args) k) (hd : P[id]? = some d) (hb : ∀ fd, d.body ≠ .newtype fd)
    (hnu : ∀ vs, d.body ≠ .union vs) : HeadPlainU P k := by
  obtain ⟨F, h⟩ := h.succ
  unfold lookupKey at h
  simp only [hd] at h
  cases hbody : d.body with
  | newtype fd => exact absurd hbody (hb fd)
  | unitEnum vs =>
    simp only [hbody, Option.some.injEq] at h
    exact ⟨_, _, h.symm, PlainTokU.self hd hnu⟩
  | record fs =>
    simp only [hbody] at h
    split at h
    · exact ⟨_, _, (Option.some.inj h).symm, PlainTokU.self hd hnu⟩
    · obtain ⟨k', hk', _⟩ := KeyOf.of_maps h
      refine ⟨_, _, hk', by plain_tok, fun id' m d' vs' he hd' => ?_⟩
      cases he
      rw [hd] at hd'
      cases hd'
      exact hnu vs'
  | union vs => exact absurd hbody (hnu vs)

theorem plainW_headU {P : Prog} : ∀ (n : Nat) (t : Ty) (ctx : Nat → Bool) (σ : List Ty),
    plainW P ctx n t = true →
    (∀ i, ctx i = true → ∀ k, KeyOf P (subst σ (.param i)) k → HeadPlainU P k) →
    ∀ k, KeyOf P (subst σ t) k → HeadPlainU P k := by
  intro n
  induction n with
  | zero => intro t ctx σ h; simp [plainW] at h
  | succ n ih =>
    intro t ctx σ h hctx k hk
    have hk' := KeyOf.peel_subst σ hk
    unfold plainW at h
    generalize Derive.peel t = u at h hk'
    have leaf : ∀ tok, leafTok u = some tok → tok ≠ .unit → tok ≠ .option → (∀ id, tok ≠ .self id) →
        (∀ id m, tok ≠ .generic id m) → HeadPlainU P k := by
      intro tok h1 h2 h3 h4 h5
      have hu : subst σ u = u := by
        cases u <;> simp only [leafTok, reduceCtorEq] at h1 <;> simp [subst]
      rw [hu] at hk'
      exact ⟨tok, [], hk'.leaf (lookupKey_leaf h1), ⟨h2, h3, fun id _ _ h => absurd h (h4 id)⟩,
        fun id m _ _ h => absurd h (h5 id m)⟩
    cases u with
    | unit => simp at h
    | option t => simp at h
    | ptr t => simp at h
    | param i => exact hctx i h k hk'
    | vec t => rw [subst] at hk'; obtain ⟨k', h1, _⟩ := hk'.vec; exact ⟨_, _, h1, ⟨by plain_tok, by intro _ _ _ _ h; cases h⟩⟩
    | hashMap t => rw [subst] at hk'; obtain ⟨k', h1, _⟩ := hk'.hashMap; exact ⟨_, _, h1, ⟨by plain_tok, by intro _ _ _ _ h; cases h⟩⟩
    | btreeMap t => rw [subst] at hk'; obtain ⟨k', h1, _⟩ := hk'.btreeMap; exact ⟨_, _, h1, ⟨by plain_tok, by intro _ _ _ _ h; cases h⟩⟩
    | named id as =>
      rw [subst] at hk'
      dsimp only at h
      cases hd : P[id]? with
      | none => simp [hd] at h
      | some d =>
        simp only [hd] at h
        cases hb : d.body with
        | newtype fd =>
          simp only [hb, Bool.and_eq_true] at h
          obtain ⟨hl, hno⟩ := h
          cases hdir : isDirect fd .newtypeStruct with
          | true =>
            simp only [hdir, if_true] at hno
            have hk2 := hk'.named_newtype hd hb hdir
            rw [chosenTy_plain hl] at hk2
            refine ih fd.ty _ (substList σ as) hno (fun j hj k2 hk2 => ?_) k (KeyOf.subst_peel _ hk2)
            cases ha : as[j]? with
            | none => simp [ha] at hj
            | some a =>
              simp only [ha] at hj
              have : subst (substList σ as) (.param j) = subst σ a := by
                rw [subst, substList_getElem?, ha]; rfl
              rw [this] at hk2
              exact ih a ctx σ hj hctx k2 hk2
          | false =>
            simp only [hdir, Bool.false_eq_true, if_false, decide_eq_true_eq] at hno
            exact ⟨_, _, hk'.named_newtype_nd hd hb hdir hno,
              PlainTokU.self hd (by intro vs; rw [hb]; simp)⟩
        | record fs => exact named_headU hk' hd (by intro fd; rw [hb]; simp) (by intro vs; rw [hb]; simp)
        | unitEnum vs => exact named_headU hk' hd (by intro fd; rw [hb]; simp) (by intro vs'; rw [hb]; simp)
        | union vs => simp [hb] at h
    | bool => exact leaf .bool rfl (by simp) (by simp) (by simp) (by simp)
    | i8 => exact leaf .int rfl (by simp) (by simp) (by simp) (by simp)
    | i16 => exact leaf .int rfl (by simp) (by simp) (by simp) (by simp)
    | i32 => exact leaf .int rfl (by simp) (by simp) (by simp) (by simp)
    | u16 => exact leaf .int rfl (by simp) (by simp) (by simp) (by simp)
    | i64 => exact leaf .long rfl (by simp) (by simp) (by simp) (by simp)
    | u32 => exact leaf .long rfl (by simp) (by simp) (by simp) (by simp)
    | u64 => exact leaf .long rfl (by simp) (by simp) (by simp) (by simp)
    | usize => exact leaf .long rfl (by simp) (by simp) (by simp) (by simp)
    | f32 => exact leaf .float rfl (by simp) (by simp) (by simp) (by simp)
    | f64 => exact leaf .double rfl (by simp) (by simp) (by simp) (by simp)
    | string => exact leaf .string rfl (by simp) (by simp) (by simp) (by simp)
    | str => exact leaf .string rfl (by simp) (by simp) (by simp) (by simp)
    | byteVec => exact leaf .bytes rfl (by simp) (by simp) (by simp) (by simp)
    | byteSlice => exact leaf .bytes rfl (by simp) (by simp) (by simp) (by simp)
    | byteArray n => exact leaf (.byteArray n) rfl (by simp) (by simp) (by simp) (by simp)

/-- Closed plain types. -/
theorem plainW_head_closedU {P : Prog} {K : Nat} {t : Ty} (h : plainW P noCtx K t = true) {k : Key}
    (hk : KeyOf P t k) : HeadPlainU P k := by
  refine plainW_headU K t noCtx [] h (fun i hi => by simp [noCtx] at hi) k ?_
  rw [subst_nil]; exact hk

/-- The field type of a declaration, plain given its marked parameters, instantiated with
    arguments that are plain where marked. -/
theorem plainW_head_instU {P : Prog} {M : Marks} {K n : Nat} {ctx : Nat → Bool} {args : List Ty} {t : Ty}
    (h : plainW P ctx K t = true) (hargs : ArgsOk P M ctx args) (hlen : args.length = n)
    (hctx : ∀ i, ctx i = true → i < n) {k : Key} (hk : KeyOf P (subst args t) k) : HeadPlainU P k := by
  obtain ⟨K', hargs⟩ := hargs
  refine plainW_headU K t ctx args h (fun i hi k2 hk2 => ?_) k hk
  exact plainW_head_closedU (hargs.param hlen hctx i hi) hk2


section heads
variable {P : Prog}

theorem plainAt_of_doneU {s : BState} {tok : KTok} {rest : Key} {b : Nat}
    (h : DoneU P s (tok :: rest) b) (hp : PlainTokU P tok) :
    PlainAt (freezeNodes s.nodes) b := by
  obtain ⟨⟨h1, h2, h3⟩, h4⟩ := hp
  unfold DoneU at h
  have mk : ∀ (X : RegularType), s.nodes[b]? = some (plain X) → X ≠ .null → (∀ vs, X ≠ .union vs) →
      PlainAt (freezeNodes s.nodes) b := by
    intro X hX hn hu
    refine ⟨freezeNode (plain X), freeze_get hX, ?_, ?_⟩
    · cases X <;> simp [freezeNode, plain] at hn ⊢
    · intro vs
      cases X <;> simp [freezeNode, plain] at hu ⊢
  cases tok with
  | unit => exact absurd rfl h1
  | option => exact absurd rfl h2
  | bool => exact mk _ h (by simp) (by simp)
  | int => exact mk _ h (by simp) (by simp)
  | long => exact mk _ h (by simp) (by simp)
  | float => exact mk _ h (by simp) (by simp)
  | double => exact mk _ h (by simp) (by simp)
  | string => exact mk _ h (by simp) (by simp)
  | bytes => exact mk _ h (by simp) (by simp)
  | byteArray n => exact mk _ h (by simp) (by simp)
  | vec => obtain ⟨c, h, _⟩ := h; exact mk _ h (by simp) (by simp)
  | map => obtain ⟨c, h, _⟩ := h; exact mk _ h (by simp) (by simp)
  | generic id m =>
    simp only [KeyNodeU] at h
    cases hd : P[id]? with
    | none => rw [hd] at h; exact h.elim
    | some d =>
      rw [hd] at h
      dsimp only at h
      cases hb : d.body with
      | record fields =>
        rw [hb] at h
        obtain ⟨nm, fs, cks, h, _⟩ := h
        exact mk _ h (by simp) (by simp)
      | unitEnum vs => rw [hb] at h; exact h.elim
      | newtype fd => rw [hb] at h; exact h.elim
      | union vs => exact absurd hb (h4 id m d vs rfl hd)
  | self id =>
    simp only [KeyNodeU] at h
    cases hd : P[id]? with
    | none => rw [hd] at h; exact h.elim
    | some d =>
      rw [hd] at h
      dsimp only at h
      cases hb : d.body with
      | record fields =>
        rw [hb] at h
        obtain ⟨fs, h, _⟩ := h
        exact mk _ h (by simp) (by simp)
      | unitEnum vs =>
        rw [hb] at h
        exact mk _ h (by simp) (by simp)
      | newtype fd =>
        rw [hb] at h
        obtain ⟨_, n, h, _⟩ := h
        exact mk _ h (by simp) (by simp)
      | union vs => exact absurd hb (h3 id d vs rfl hd)

theorem leaf_realizesU {s : BState} {t : Ty} {tok : KTok} (htok : leafTok t = some tok) {i : Nat}
    (h : DoneU P s [tok] i) (f : Nat) : Realizes P (freezeNodes s.nodes) (f + 1) t i := by
  unfold DoneU at h
  cases t <;> simp only [leafTok, Option.some.injEq, reduceCtorEq] at htok <;> subst htok <;>
    first
    | exact freeze_get h
    | exact ⟨_, freeze_get h⟩

end heads

/-! ### The lookup names of a union's branches, from the program text -/

/-- As `DeriveFits.branchNames`, for the wider fragment: a generic forwarding newtype is looked
    through after substituting its arguments; a generic record has no name known from the text (its
    name ends in the hash of its lookup type), so it is `none`. -/
def branchNamesW (P : Prog) : Nat → Ty → Option (List String)
  | 0, _ => none
  | n + 1, t =>
    match Derive.peel t with
    | .unit => some ["Null"]
    | .bool => some ["Boolean"]
    | .i8 | .i16 | .i32 | .u16 => some ["Int"]
    | .i64 | .u32 | .u64 | .usize => some ["Long"]
    | .f32 => some ["Float"]
    | .f64 => some ["Double"]
    | .string | .str => some ["String"]
    | .byteVec | .byteSlice => some ["Bytes"]
    | .byteArray m => some (nmNames (Name.ofFq ("u8_array_" ++ toString m)))
    | .vec _ => some ["Array"]
    | .hashMap _ | .btreeMap _ => some ["Map"]
    | .option _ => some ["Union"]
    | .ptr _ | .param _ => none
    | .named id args =>
      match P[id]? with
      | none => none
      | some d =>
        match d.body with
        | .record _ => if d.nparams = 0 then some (nmNames (Name.ofFq (typeName d))) else none
        | .unitEnum _ => some (nmNames (Name.ofFq (typeName d)))
        | .union _ => some ["Union"]
        | .newtype fd =>
          if fd.attr.logical.isNone then
            if isDirect fd .newtypeStruct then branchNamesW P n (subst args fd.ty)
            else some (nmNames (Name.ofFq (ownedName d .newtypeStruct "")))
          else none

section bnames
variable {P : Prog} {M : Marks}

theorem branchNamesW_spec {K0 : Nat}
    (hP : ∀ (id : Nat) (d : Decl), P[id]? = some d → declOkWU P M K0 id d = true)
    {s : BState} (hinv : InvU P [] s) : ∀ (n : Nat) (t : Ty) (k : Key) (c : Nat)
    (L : List String), branchNamesW P n t = some L → OkT P M t → KeyOf P t k → Reg s k c →
    (frozenAt s c).lookupNames = L := by
  have hdone : ∀ k i, Reg s k i → DoneU P s k i := fun k i h => by
    rcases hinv.done k i h with h' | h'
    · cases h'
    · exact h'
  intro n
  induction n with
  | zero => intro t k c L h; simp [branchNamesW] at h
  | succ n ih =>
    intro t k c L h ht hk hreg
    have hk' := hk.to_peel
    have ht' : OkT P M (Derive.peel t) := by
      obtain ⟨K, ht⟩ := ht
      exact ⟨K, tyOkW_peel P M K 0 noCtx ht⟩
    unfold branchNamesW at h
    generalize Derive.peel t = u at h hk' ht'
    have leaf : ∀ tok X, leafTok u = some tok → (DoneU P s [tok] c → s.nodes[c]? = some (plain X)) →
        (freezeNode (plain X)).lookupNames = L → (frozenAt s c).lookupNames = L := by
      intro tok X h1 h2 h3
      have : k = [tok] := hk'.leaf (lookupKey_leaf h1)
      subst this
      rw [frozenAt_plain (h2 (hdone _ _ hreg))]
      exact h3
    cases u with
    | ptr t => simp at h
    | param i => simp at h
    | unit => exact leaf .unit .null rfl id (by simpa [freezeNode, plain, Node.lookupNames] using h)
    | bool => exact leaf .bool .boolean rfl id (by simpa [freezeNode, plain, Node.lookupNames] using h)
    | i8 => exact leaf .int .int rfl id (by simpa [freezeNode, plain, Node.lookupNames] using h)
    | i16 => exact leaf .int .int rfl id (by simpa [freezeNode, plain, Node.lookupNames] using h)
    | i32 => exact leaf .int .int rfl id (by simpa [freezeNode, plain, Node.lookupNames] using h)
    | u16 => exact leaf .int .int rfl id (by simpa [freezeNode, plain, Node.lookupNames] using h)
    | i64 => exact leaf .long .long rfl id (by simpa [freezeNode, plain, Node.lookupNames] using h)
    | u32 => exact leaf .long .long rfl id (by simpa [freezeNode, plain, Node.lookupNames] using h)
    | u64 => exact leaf .long .long rfl id (by simpa [freezeNode, plain, Node.lookupNames] using h)
    | usize => exact leaf .long .long rfl id (by simpa [freezeNode, plain, Node.lookupNames] using h)
    | f32 => exact leaf .float .float rfl id (by simpa [freezeNode, plain, Node.lookupNames] using h)
    | f64 => exact leaf .double .double rfl id (by simpa [freezeNode, plain, Node.lookupNames] using h)
    | string => exact leaf .string .string rfl id (by simpa [freezeNode, plain, Node.lookupNames] using h)
    | str => exact leaf .string .string rfl id (by simpa [freezeNode, plain, Node.lookupNames] using h)
    | byteVec => exact leaf .bytes .bytes rfl id (by simpa [freezeNode, plain, Node.lookupNames] using h)
    | byteSlice => exact leaf .bytes .bytes rfl id (by simpa [freezeNode, plain, Node.lookupNames] using h)
    | byteArray m =>
      exact leaf (.byteArray m) _ rfl id (by simpa [freezeNode, plain, Node.lookupNames, nmNames] using h)
    | vec t =>
      obtain ⟨k', rfl, _⟩ := hk'.vec
      obtain ⟨c', hnode, _⟩ := hdone _ _ hreg
      rw [frozenAt_plain hnode]
      simpa [freezeNode, plain, Node.lookupNames] using h
    | hashMap t =>
      obtain ⟨k', rfl, _⟩ := hk'.hashMap
      obtain ⟨c', hnode, _⟩ := hdone _ _ hreg
      rw [frozenAt_plain hnode]
      simpa [freezeNode, plain, Node.lookupNames] using h
    | btreeMap t =>
      obtain ⟨k', rfl, _⟩ := hk'.btreeMap
      obtain ⟨c', hnode, _⟩ := hdone _ _ hreg
      rw [frozenAt_plain hnode]
      simpa [freezeNode, plain, Node.lookupNames] using h
    | option t =>
      obtain ⟨k', rfl, _⟩ := hk'.option
      obtain ⟨a, b, hnode, _⟩ := hdone _ _ hreg
      rw [frozenAt_plain hnode]
      simpa [freezeNode, plain, Node.lookupNames] using h
    | named id args =>
      dsimp only at h
      cases hd : P[id]? with
      | none => simp [hd] at h
      | some d =>
      simp only [hd] at h
      have hdok := hP id d hd
      obtain ⟨hlen, hargs⟩ := ht'.named hd
      unfold declOkWU declOkWithU at hdok
      cases hb : d.body with
      | unitEnum vs =>
        simp only [hb, Option.some.injEq] at h
        have := hk'.named_enum hd hb
        subst this
        have hdn := hdone _ _ hreg
        simp only [DoneU, KeyNodeU, hd, hb] at hdn
        rw [frozenAt_plain hdn]
        simpa [freezeNode, plain, Node.lookupNames, nmNames] using h
      | record fields =>
        simp only [hb] at h
        by_cases hn : d.nparams = 0
        · simp only [hn, if_true, Option.some.injEq] at h
          have := hk'.named_record hd hb hn
          subst this
          have hdn := hdone _ _ hreg
          simp only [DoneU, KeyNodeU, hd, hb] at hdn
          obtain ⟨fs, hnode, _⟩ := hdn
          rw [frozenAt_plain hnode]
          simpa [freezeNode, plain, Node.lookupNames, nmNames] using h
        · simp [hn] at h
      | union vs =>
        simp only [hb, Option.some.injEq] at h
        by_cases hn : d.nparams = 0
        · have := hk'.named_union hd hb hn
          subst this
          have hdn := hdone _ _ hreg
          simp only [DoneU, KeyNodeU, hd, hb] at hdn
          obtain ⟨ks, hnode, _⟩ := hdn
          rw [frozenAt_plain hnode]
          simpa [freezeNode, plain, Node.lookupNames] using h
        · obtain ⟨F', rest, rfl, _⟩ := named_union_gen hk' hd hb hn
          have hdn := hdone _ _ hreg
          simp only [DoneU, KeyNodeU, hd, hb] at hdn
          obtain ⟨ks, cks, hnode, _⟩ := hdn
          rw [frozenAt_plain hnode]
          simpa [freezeNode, plain, Node.lookupNames] using h
      | newtype fd =>
        simp only [hb] at h
        simp only [hb, declOkWith, Bool.and_eq_true, decide_eq_true_eq, plainFieldOkW] at hdok
        obtain ⟨⟨_, hl, hty⟩, hrest⟩ := hdok
        simp only [hl, if_true] at h
        cases hdir : isDirect fd .newtypeStruct with
        | true =>
          simp only [hdir, if_true] at h
          have hk2 := hk'.named_newtype hd hb hdir
          rw [chosenTy_plain hl] at hk2
          have hk2 := KeyOf.subst_peel args hk2
          exact ih _ k c L h (OkT.subst hargs hlen ctxOf_lt hty) hk2 hreg
        | false =>
          simp only [hdir, Bool.false_eq_true, if_false, decide_eq_true_eq, Option.some.injEq] at h hrest
          have := hk'.named_newtype_nd hd hb hdir hrest
          subst this
          have hdn := hdone _ _ hreg
          simp only [DoneU, KeyNodeU, hd, hb] at hdn
          obtain ⟨_, m, hnode, _⟩ := hdn
          rw [frozenAt_plain hnode]
          simpa [freezeNode, plain, Node.lookupNames, nmNames] using h

end bnames

/-- Fuel for the chains of forwarding newtypes followed by `branchNamesW`. -/
def namesFuel (P : Prog) : Nat := wideFuel P .unit

/-- The head of the payload type (behind pointers) is an instantiation of a generic newtype. -/
def genNewtypeHead (P : Prog) (t : Ty) : Bool :=
  match Derive.peel t with
  | .named id as =>
    (match P[id]? with
      | some d => (match d.body with | .newtype _ => !as.isEmpty | _ => false)
      | none => false)
  | _ => false

/-- The lookup names of the branch built for a payload type `t` of a variant of `d`, whatever the
    instantiation of `d`: for a non-generic enum those of `t`; for a generic enum those of `t` when
    they do not depend on the arguments — `none` for a bare parameter, a generic record, or (a
    restriction of the check) an instantiation of a generic newtype. -/
def payloadNames (P : Prog) (d : Decl) (t : Ty) : Option (List String) :=
  if d.nparams = 0 then branchNamesW P (namesFuel P) t
  else if genNewtypeHead P t then none else branchNamesW P (namesFuel P) t

theorem branchNamesW_subst {P : Prog} (args : List Ty) {n : Nat} {t : Ty} {L : List String}
    (hg : genNewtypeHead P t = false) (h : branchNamesW P n t = some L) :
    branchNamesW P n (subst args t) = some L := by
  cases n with
  | zero => simp [branchNamesW] at h
  | succ n =>
    unfold branchNamesW at h ⊢
    unfold genNewtypeHead at hg
    rw [peel_subst]
    generalize Derive.peel t = u at h hg
    cases u with
    | param i => simp at h
    | ptr t => simp at h
    | named id as =>
      simp only [subst, Derive.peel]
      cases hd : P[id]? with
      | none => simp [hd] at h
      | some d =>
        simp only [hd] at h hg ⊢
        cases hb : d.body with
        | newtype fd =>
          simp only [hb, Bool.not_eq_false', List.isEmpty_iff] at h hg ⊢
          subst hg
          rw [substList]
          exact h
        | record fs => simpa [hb] using h
        | unitEnum vs => simpa [hb] using h
        | union vs => simpa [hb] using h
    | _ => simpa [subst, Derive.peel] using h

theorem payloadNames_subst {P : Prog} {d : Decl} {t : Ty} {L : List String} {args : List Ty}
    (hargs0 : d.nparams = 0 → args = []) (h : payloadNames P d t = some L) :
    branchNamesW P (namesFuel P) (subst args t) = some L := by
  unfold payloadNames at h
  by_cases hn : d.nparams = 0
  · rw [hargs0 hn, subst_nil]
    simpa [hn] using h
  · simp only [hn, if_false] at h
    cases hg : genNewtypeHead P t with
    | true => simp [hg] at h
    | false =>
      simp only [hg, Bool.false_eq_true, if_false] at h
      exact branchNamesW_subst args hg h

/-- Names under which the union branch built for variant `v` of declaration `d` is registered:
    `Null` for a unit variant; those of the payload type; for a payload written `[u8; N]`, the short
    name and the fullname of the variant-owned fixed (`<enum>.<variant>` in the enum's namespace). -/
def variantNamesW (P : Prog) (d : Decl) (v : Variant) : Option (List String) :=
  match v.field with
  | none => some ["Null"]
  | some fd =>
    if isDirect fd (.newtypeVariant v.ident) then payloadNames P d fd.ty
    else some (nmNames (Name.ofFq (ownedName d (.newtypeVariant v.ident) "")))

/-- The variant's serde name is a name of its own branch. -/
def variantOwnW (P : Prog) (d : Decl) (v : Variant) : Bool :=
  match variantNamesW P d v with
  | some L => L.contains v.serdeName
  | none => false

/-- The branch of variant `w` is not registered under `name`. -/
def variantFreeW (P : Prog) (d : Decl) (name : String) (w : Variant) : Bool :=
  match variantNamesW P d w with
  | some L => !L.contains name
  | none => false

/-- `earlier` are the variants before the ones listed. -/
def unionTextW (P : Prog) (d : Decl) : List Variant → List Variant → Bool
  | _, [] => true
  | earlier, v :: rest =>
    variantOwnW P d v && (earlier ++ rest).all (variantFreeW P d v.serdeName) &&
      unionTextW P d (earlier ++ [v]) rest

def unionTextLastW (P : Prog) (d : Decl) : List Variant → Bool
  | [] => true
  | v :: rest => variantOwnW P d v && rest.all (variantFreeW P d v.serdeName) && unionTextLastW P d rest

/-- **The text-level naming condition** (that of `UnionNamesText`, `Theorems/C20more.lean`, for the
    wider fragment): for every enum that maps to a union and every variant, the serde name is a lookup
    name — short or full — of the variant's own branch and of no other variant's branch. -/
def UnionNamesTextW (P : Prog) : Bool :=
  P.all fun d => match d.body with
    | .union vs => unionTextW P d [] vs
    | _ => true

theorem unionTextW_last (P : Prog) (d : Decl) : ∀ (vs earlier : List Variant), unionTextW P d earlier vs = true →
    unionTextLastW P d vs = true
  | [], _, _ => rfl
  | v :: rest, earlier, h => by
    simp only [unionTextW, Bool.and_eq_true, List.all_append] at h
    simp only [unionTextLastW, Bool.and_eq_true]
    exact ⟨⟨h.1.1, h.1.2.2⟩, unionTextW_last P d rest _ h.2⟩

theorem unionTextLastW_index (P : Prog) (d : Decl) : ∀ (vs : List Variant), unionTextLastW P d vs = true →
    ∀ (j : Nat) (v : Variant), vs[j]? = some v →
      variantOwnW P d v = true ∧
        ∀ (l : Nat) (w : Variant), j < l → vs[l]? = some w → variantFreeW P d v.serdeName w = true
  | [], _, j, v, hj => by simp at hj
  | x :: rest, h, 0, v, hj => by
    simp only [List.getElem?_cons_zero, Option.some.injEq] at hj
    subst hj
    simp only [unionTextLastW, Bool.and_eq_true, List.all_eq_true] at h
    refine ⟨h.1.1, fun l w hl hw => ?_⟩
    cases l with
    | zero => omega
    | succ l => exact h.1.2 w (List.mem_of_getElem? (by simpa using hw))
  | x :: rest, h, j + 1, v, hj => by
    simp only [unionTextLastW, Bool.and_eq_true] at h
    obtain ⟨h1, h2⟩ := unionTextLastW_index P d rest h.2 j v (by simpa using hj)
    refine ⟨h1, fun l w hl hw => ?_⟩
    cases l with
    | zero => omega
    | succ l => exact h2 l w (by omega) (by simpa using hw)

/-- **By-name selection from the program text.**  In the final builder state, in the union built for
    an instantiation of an enum that satisfies the naming condition, every variant's serde name
    selects its own branch; unit variants are called `Null`. -/
theorem union_lookup_of_text {P : Prog} {M : Marks} {K0 : Nat}
    (hP : ∀ (id : Nat) (d : Decl), P[id]? = some d → declOkWU P M K0 id d = true)
    {s : BState} (hinv : InvU P [] s) (htext : UnionNamesTextW P = true)
    {id : Nat} {d : Decl} {vs : List Variant} (hd : P[id]? = some d) (hb : d.body = .union vs)
    {args : List Ty} (hargs0 : d.nparams = 0 → args = [])
    {ks : List Nat} (hlen : ks.length = vs.length)
    (hall : ∀ (l : Nat) (w : Variant) (c : Nat), vs[l]? = some w → ks[l]? = some c →
      VarNode P (Reg s) s.nodes d args w c)
    (hok : ∀ w ∈ vs, ∀ fd, w.field = some fd → OkT P M (subst args fd.ty)) :
    ∀ (j : Nat) (v : Variant), vs[j]? = some v →
      namedLookup v.serdeName (branchNodes (freezeNodes s.nodes) ks) = some j ∧
        (v.field = none → v.serdeName = "Null") := by
  have hdone : ∀ k i, Reg s k i → DoneU P s k i := fun k i h => by
    rcases hinv.done k i h with h' | h'
    · cases h'
    · exact h'
  intro j v hj
  have htx : unionTextLastW P d vs = true := by
    simp only [UnionNamesTextW, Array.all_eq_true] at htext
    obtain ⟨hlt, rfl⟩ := Array.getElem?_eq_some_iff.mp hd
    have := htext id hlt
    simp only [hb] at this
    exact unionTextW_last P _ vs [] this
  have hbranch : ∀ (l : Nat) (w : Variant) (L : List String), vs[l]? = some w →
      variantNamesW P d w = some L →
      ∃ n, (branchNodes (freezeNodes s.nodes) ks)[l]? = some n ∧ n.lookupNames = L := by
    intro l w L hl hL
    have hlt : l < ks.length := by
      rw [hlen]
      rcases Nat.lt_or_ge l vs.length with h | h
      · exact h
      · rw [List.getElem?_eq_none h] at hl; cases hl
    have hc : ks[l]? = some ks[l] := List.getElem?_eq_getElem hlt
    refine ⟨frozenAt s ks[l], by simp [branchNodes, hc, frozenAt], ?_⟩
    have hcv := hall l w ks[l] hl hc
    have hw := hok w (List.mem_of_getElem? hl)
    unfold variantNamesW at hL
    unfold VarNode at hcv
    cases hf : w.field with
    | none =>
      rw [hf] at hcv hL
      have hnc : s.nodes[ks[l]]? = some (plain .null) := hdone _ _ hcv
      rw [frozenAt_plain hnc]
      simpa [freezeNode, plain, Node.lookupNames] using hL
    | some fd =>
      rw [hf] at hcv hL
      dsimp only at hcv hL
      by_cases hdir : isDirect fd (.newtypeVariant w.ident) = true
      · rw [if_pos hdir] at hcv hL
        obtain ⟨k, hk, hr⟩ := hcv
        exact branchNamesW_spec hP hinv _ _ k _ L (payloadNames_subst hargs0 hL) (hw fd hf) hk hr
      · rw [if_neg hdir] at hcv hL
        obtain ⟨n, _, hnc⟩ := hcv
        rw [frozenAt_plain hnc]
        simpa [freezeNode, plain, Node.lookupNames, nmNames] using hL
  obtain ⟨hown, hfree⟩ := unionTextLastW_index P d vs htx j v hj
  unfold variantOwnW at hown
  cases hL : variantNamesW P d v with
  | none => simp [hL] at hown
  | some L =>
    simp only [hL] at hown
    obtain ⟨n, hnj, hnL⟩ := hbranch j v L hj hL
    refine ⟨namedLookup_at hnj (by rw [hnL]; exact hown) (fun l m hl hm => ?_), fun hf => ?_⟩
    · have hlv : l < vs.length := by
        have : l < (branchNodes (freezeNodes s.nodes) ks).length := by
          rcases Nat.lt_or_ge l (branchNodes (freezeNodes s.nodes) ks).length with h | h
          · exact h
          · rw [List.getElem?_eq_none h] at hm; cases hm
        simpa [branchNodes, hlen] using this
      have hw : vs[l]? = some vs[l] := List.getElem?_eq_getElem hlv
      have hfr := hfree l _ hl hw
      unfold variantFreeW at hfr
      cases hL' : variantNamesW P d vs[l] with
      | none => simp [hL'] at hfr
      | some L' =>
        simp only [hL'] at hfr
        obtain ⟨n', hn', hnL'⟩ := hbranch l _ L' hw hL'
        rw [hm] at hn'
        cases hn'
        rw [hnL']
        simpa using hfr
    · simp only [variantNamesW, hf, Option.some.injEq] at hL
      subst hL
      simpa using hown

section realizes
variable {P : Prog} {M : Marks}

theorem realizes_of_invU {K0 : Nat}
    (hP : ∀ (id : Nat) (d : Decl), P[id]? = some d → declOkWU P M K0 id d = true)
    {s : BState} (hinv : InvU P [] s) (htext : UnionNamesTextW P = true) : ∀ (f : Nat) (t : Ty) (key : Key) (i : Nat),
    OkT P M t → KeyOf P t key → Reg s key i → Realizes P (freezeNodes s.nodes) f t i := by
  have hdone : ∀ k i, Reg s k i → DoneU P s k i := fun k i h => by
    rcases hinv.done k i h with h' | h'
    · cases h'
    · exact h'
  have hbnd : ∀ k i, Reg s k i → i < (freezeNodes s.nodes).size := fun k i h => by
    rw [freezeNodes_size]; exact hinv.bnd k i h
  intro f
  induction f with
  | zero => intro t key i _ _ _; exact trivial
  | succ f ih =>
    intro t key i ht hkey hreg
    have leaf : ∀ tok, leafTok t = some tok → Realizes P (freezeNodes s.nodes) (f + 1) t i := by
      intro tok htok
      have : key = [tok] := hkey.leaf (lookupKey_leaf htok)
      subst this
      exact leaf_realizesU htok (hdone _ _ hreg) f
    cases t with
    | vec t =>
      obtain ⟨k', rfl, hk'⟩ := hkey.vec
      obtain ⟨c, hn, hc⟩ := hdone _ _ hreg
      exact ⟨c, freeze_get hn, hbnd _ _ hc, ih t k' c (ht.inner fun K h => by simpa [tyOkW] using h) hk' hc⟩
    | hashMap t =>
      obtain ⟨k', rfl, hk'⟩ := hkey.hashMap
      obtain ⟨c, hn, hc⟩ := hdone _ _ hreg
      exact ⟨c, freeze_get hn, hbnd _ _ hc, ih t k' c (ht.inner fun K h => by simpa [tyOkW] using h) hk' hc⟩
    | btreeMap t =>
      obtain ⟨k', rfl, hk'⟩ := hkey.btreeMap
      obtain ⟨c, hn, hc⟩ := hdone _ _ hreg
      exact ⟨c, freeze_get hn, hbnd _ _ hc, ih t k' c (ht.inner fun K h => by simpa [tyOkW] using h) hk' hc⟩
    | option t =>
      obtain ⟨K, ht⟩ := ht
      simp only [tyOkW, Bool.and_eq_true] at ht
      obtain ⟨k', rfl, hk'⟩ := hkey.option
      obtain ⟨a, b, hn, ha, hb⟩ := hdone _ _ hreg
      obtain ⟨tok, rest, rfl, h1⟩ := plainW_head_closedU ht.2 hk'
      have hna : s.nodes[a]? = some (plain .null) := hdone _ _ ha
      exact ⟨a, b, freeze_get hn, freeze_get hna, plainAt_of_doneU (hdone _ _ hb) h1,
        ih t _ b ⟨K, ht.1⟩ hk' hb⟩
    | ptr t => exact ih t key i (ht.inner fun K h => by simpa [tyOkW] using h) hkey.ptr hreg
    | param j => obtain ⟨K, ht⟩ := ht; simp [tyOkW] at ht
    | named id args =>
      cases hd : P[id]? with
      | none =>
        obtain ⟨K, ht⟩ := ht
        simp [tyOkW, hd] at ht
      | some d =>
      obtain ⟨hlen, hargs⟩ := ht.named hd
      have hdok := hP id _ hd
      unfold declOkWU declOkWithU at hdok
      unfold Realizes
      simp only [hd]
      cases hb : d.body with
      | unitEnum vs =>
        dsimp only
        have := hkey.named_enum hd hb
        subst this
        have h := hdone _ _ hreg
        simp only [DoneU, KeyNodeU, hd, hb] at h
        exact ⟨_, freeze_get h⟩
      | newtype fd =>
        dsimp only
        simp only [hb, declOkWith, Bool.and_eq_true, decide_eq_true_eq, plainFieldOkW] at hdok
        obtain ⟨⟨hname, hl, hty⟩, hno⟩ := hdok
        cases hdir : isDirect fd .newtypeStruct with
        | true =>
          simp only [hdir, if_true] at hno
          have hk := hkey.named_newtype hd hb hdir
          rw [chosenTy_plain hl] at hk
          have hk := KeyOf.subst_peel args hk
          obtain ⟨tok, rest, rfl, h1⟩ := plainW_head_instU hno hargs hlen ctxOf_lt hk
          exact ⟨hname, plainAt_of_doneU (hdone _ _ hreg) h1,
            ih _ _ i (OkT.subst hargs hlen ctxOf_lt hty) hk hreg⟩
        | false =>
          simp only [hdir, Bool.false_eq_true, if_false, decide_eq_true_eq] at hno
          have hng : scopeW d = 0 := by simp [scopeW, isGenW, hno]
          have : args = [] := List.eq_nil_of_length_eq_zero (by rw [hlen, hng])
          subst this
          rw [subst_nil]
          have := hkey.named_newtype_nd hd hb hdir hno
          subst this
          have hdn := hdone _ _ hreg
          have h := hdn
          simp only [DoneU, KeyNodeU, hd, hb] at h
          obtain ⟨_, n, hnode, hp⟩ := h
          exact ⟨hname, plainAt_of_doneU hdn (PlainTokU.self hd (by intro vs; rw [hb]; simp)),
            realizes_of_peel_fixed (freeze_get hnode) fd.ty hp f⟩
      | record fields =>
        dsimp only
        simp only [hb, declOkWith, Bool.and_eq_true, decide_eq_true_eq, List.all_eq_true] at hdok
        obtain ⟨hname, hfields⟩ := hdok
        by_cases hn : d.nparams = 0
        · have hng : scopeW d = 0 := by simp [scopeW, isGenW, hn]
          have : args = [] := List.eq_nil_of_length_eq_zero (by rw [hlen, hng])
          subst this
          have := hkey.named_record hd hb hn
          subst this
          have h := hdone _ _ hreg
          simp only [DoneU, KeyNodeU, hd, hb] at h
          obtain ⟨fs, hnode, hlen', hall⟩ := h
          refine ⟨hname, _, fs, freeze_get hnode, hlen', fun j fd p hj hp => ?_⟩
          obtain ⟨h1, h2⟩ := hall j fd p hj hp
          have hfd := hfields fd (List.mem_of_getElem? hj)
          rcases h2 with ⟨hl, k, hk, hr⟩ | ⟨hl, raw, hraw, hrn⟩
          · simp only [fieldOkW, plainFieldOkW, hl, Bool.true_and, Bool.not_true, Bool.false_and,
              Bool.or_false] at hfd
            rw [if_pos hl]
            have hok := OkT.subst hargs hlen ctxOf_lt hfd
            rw [subst_nil] at hok ⊢
            exact ⟨h1, hbnd _ _ hr, ih fd.ty k p.2 hok hk hr⟩
          · simp only [fieldOkW, plainFieldOkW, hl, Bool.false_and, Bool.not_false, Bool.true_and,
              Bool.false_or, hraw] at hfd
            have hlt : p.2 < (freezeNodes s.nodes).size := by
              rw [freezeNodes_size]
              rcases Nat.lt_or_ge p.2 s.nodes.size with h | h
              · exact h
              · rw [Array.getElem?_eq_none h] at hrn; cases hrn
            rw [if_neg (by simp [hl]), subst_nil]
            exact ⟨h1, hlt, _, freeze_get hrn, hfd⟩
        · obtain ⟨F', rest, rfl, hrest⟩ := hkey.named_record_gen hd hb hn
          obtain ⟨cks', rfl, hclen', hcall⟩ := lookupKeys_split P _ F' rest hrest
          have h := hdone _ _ hreg
          simp only [DoneU, KeyNodeU, hd, hb] at h
          obtain ⟨nm, fs, cks, hnode, hlen', hclen, hflat, hcoded, hall⟩ := h
          have hcoded' : ∀ ck ∈ cks', Coded 1 ck := by
            intro ck hck
            obtain ⟨j, hj⟩ := List.getElem?_of_mem hck
            have hjlt : j < fields.length := by
              have := (List.getElem?_eq_some_iff.mp hj).1
              simpa [hclen'] using this
            exact (hcall j (subst args (chosenTy fields[j])) ck
              (by simp [List.getElem?_eq_getElem hjlt]) hj).coded
          have hcks : cks' = cks :=
            flatten_unique cks' cks hcoded' hcoded (by simp [hclen, hclen']) hflat
          subst hcks
          refine ⟨hname, nm, fs, freeze_get hnode, hlen', fun j fd p hj hp => ?_⟩
          have hjlt : j < cks'.length := by
            rw [hclen]
            rcases Nat.lt_or_ge j fields.length with h | h
            · exact h
            · rw [List.getElem?_eq_none h] at hj; cases hj
          have hc : cks'[j]? = some cks'[j] := List.getElem?_eq_getElem hjlt
          obtain ⟨h1, h2⟩ := hall j fd p _ hj hp hc
          have hfd := hfields fd (List.mem_of_getElem? hj)
          rcases h2 with ⟨hl, h2⟩ | ⟨hl, tn, raw, hraw, hrn⟩
          · simp only [fieldOkW, plainFieldOkW, hl, Bool.true_and, Bool.not_true, Bool.false_and,
              Bool.or_false] at hfd
            have hck := hcall j (subst args (chosenTy fd)) _ (by simp [hj]) hc
            rw [chosenTy_plain hl] at hck
            rw [if_pos hl]
            exact ⟨h1, hbnd _ _ h2, ih _ _ p.2 (OkT.subst hargs hlen ctxOf_lt hfd)
              (KeyOf.subst_peel args hck) h2⟩
          · simp only [fieldOkW, plainFieldOkW, hl, Bool.false_and, Bool.not_false, Bool.true_and,
              Bool.false_or] at hfd
            cases hraw0 : logicalRaw d fd with
            | none => simp [hraw0] at hfd
            | some raw0 =>
              simp only [hraw0] at hfd
              have hlt : p.2 < (freezeNodes s.nodes).size := by
                rw [freezeNodes_size]
                rcases Nat.lt_or_ge p.2 s.nodes.size with h | h
                · exact h
                · rw [Array.getElem?_eq_none h] at hrn; cases hrn
              rw [if_neg (by simp [hl])]
              refine ⟨h1, hlt, _, freeze_get hrn, ?_⟩
              obtain ⟨x, hx⟩ := nodeAccepts_leaf hfd
              rw [peel_subst, subst_leaf hx, peel_leaf hx, logicalRawAt_accepts hraw hraw0]
              exact hfd
      | union vs =>
        dsimp only
        have hvs := declOkWU_union hb (hP id d hd)
        have hsc := scopeW_union hb
        rw [hsc] at hlen hargs
        have h := hdone _ _ hreg
        -- the branches, per variant
        have hbr : ∃ ks, s.nodes[i]? = some (plain (.union ks)) ∧ ks.length = vs.length ∧
            ∀ (j : Nat) (v : Variant) (c : Nat), vs[j]? = some v → ks[j]? = some c →
              VarNode P (Reg s) s.nodes d args v c := by
          by_cases hn : d.nparams = 0
          · have : args = [] := List.eq_nil_of_length_eq_zero (by rw [hlen, hn])
            subst this
            have := hkey.named_union hd hb hn
            subst this
            simp only [DoneU, KeyNodeU, hd, hb] at h
            exact h
          · obtain ⟨F', rest, rfl, hrest⟩ := named_union_gen hkey hd hb hn
            obtain ⟨cks', rfl, hclen', hcall⟩ := lookupKeys_split P _ F' rest hrest
            simp only [DoneU, KeyNodeU, hd, hb] at h
            obtain ⟨ks, cks, hnode, hlen', hclen, hflat, hcoded, hall⟩ := h
            have hcoded' : ∀ ck ∈ cks', Coded 1 ck := by
              intro ck hck
              obtain ⟨m, hm⟩ := List.getElem?_of_mem hck
              have hmlt : m < (vs.filterMap (·.field)).length := by
                have := (List.getElem?_eq_some_iff.mp hm).1
                simpa [hclen'] using this
              exact (hcall m (subst args (chosenTy (vs.filterMap (·.field))[m])) ck
                (by simp [List.getElem?_eq_getElem hmlt]) hm).coded
            have hcks : cks' = cks :=
              flatten_unique cks' cks hcoded' hcoded (by simp [hclen, hclen']) hflat
            subst hcks
            refine ⟨ks, hnode, hlen', fun j v c hj hc => ?_⟩
            have hv := hall j v c hj hc
            have hdv := (hvs v (List.mem_of_getElem? hj)).2
            have hvk := (hvs v (List.mem_of_getElem? hj)).1
            unfold VarNode
            unfold directV at hdv
            unfold variantOkWU at hvk
            cases hfd : v.field with
            | none => rw [hfd] at hv; exact hv
            | some fd =>
              rw [hfd] at hv hdv hvk
              dsimp only at hv hdv hvk ⊢
              have hdir : isDirect fd (.newtypeVariant v.ident) = true := by
                rcases hdv with h | h
                · exact absurd h hn
                · exact h
              simp only [plainFieldOkW, Bool.and_eq_true] at hvk
              obtain ⟨ck, hck, hr⟩ := hv
              rw [if_pos hdir]
              have hidx := filterMap_fieldIdx vs j v fd hj hfd
              have hko := hcall (fieldIdx vs j) (subst args (chosenTy fd)) ck (by simp [hidx]) hck
              rw [chosenTy_plain hvk.1] at hko
              exact ⟨ck, KeyOf.subst_peel args hko, hr⟩
        obtain ⟨ks, hnode, hlen', hall⟩ := hbr
        refine ⟨ks, freeze_get hnode, hlen', fun j v c hj hc => ?_⟩
        have hokp : ∀ w ∈ vs, ∀ fd, w.field = some fd → OkT P M (subst args fd.ty) := by
          intro w hw fd hfd
          have := (hvs w hw).1
          unfold variantOkWU at this
          rw [hfd] at this
          simp only [plainFieldOkW, Bool.and_eq_true] at this
          exact OkT.subst hargs hlen ctxOf_lt this.2
        obtain ⟨hnl, hnull⟩ := union_lookup_of_text hP hinv htext hd hb
          (fun hn => List.eq_nil_of_length_eq_zero (by rw [hlen, hn])) hlen' hall hokp j v hj
        have hcv := hall j v c hj hc
        unfold VarNode at hcv
        cases hf : v.field with
        | none =>
          rw [hf] at hcv
          have hnc : s.nodes[c]? = some (plain .null) := hdone _ _ hcv
          exact ⟨hbnd _ _ hcv, hnl, hnull hf, freeze_get hnc⟩
        | some fd =>
          rw [hf] at hcv
          dsimp only at hcv ⊢
          by_cases hdir : isDirect fd (.newtypeVariant v.ident) = true
          · rw [if_pos hdir] at hcv
            obtain ⟨k, hk, hr⟩ := hcv
            exact ⟨hbnd _ _ hr, hnl, ih _ k c (hokp v (List.mem_of_getElem? hj) fd hf) hk hr⟩
          · rw [if_neg hdir] at hcv
            obtain ⟨n, hp, hnc⟩ := hcv
            have hlt : c < (freezeNodes s.nodes).size := by
              rw [freezeNodes_size]
              rcases Nat.lt_or_ge c s.nodes.size with h | h
              · exact h
              · rw [Array.getElem?_eq_none h] at hnc; cases hnc
            have hp' : Derive.peel (subst args fd.ty) = .byteArray n := by
              rw [peel_subst, hp]; rfl
            exact ⟨hlt, hnl, realizes_of_peel_fixed (freeze_get hnc) _ hp' f⟩
    | unit => exact leaf .unit rfl
    | bool => exact leaf .bool rfl
    | i8 => exact leaf .int rfl
    | i16 => exact leaf .int rfl
    | i32 => exact leaf .int rfl
    | u16 => exact leaf .int rfl
    | i64 => exact leaf .long rfl
    | u32 => exact leaf .long rfl
    | u64 => exact leaf .long rfl
    | usize => exact leaf .long rfl
    | f32 => exact leaf .float rfl
    | f64 => exact leaf .double rfl
    | string => exact leaf .string rfl
    | str => exact leaf .string rfl
    | byteVec => exact leaf .bytes rfl
    | byteSlice => exact leaf .bytes rfl
    | byteArray n => exact leaf (.byteArray n) rfl

end realizes


/-! ### The fragment `FitWfWU` -/

/-- The program and the root type check against the table of marks `M`. -/
def FitWfWithU (P : Prog) (M : Marks) (K : Nat) (root : Ty) : Bool :=
  ((List.range P.size).all fun id => match P[id]? with | some d => declOkWU P M K id d | none => true) &&
    tyOkW P M K 0 noCtx root

theorem FitWfWithU_decls {P : Prog} {M : Marks} {K : Nat} {root : Ty} (h : FitWfWithU P M K root = true) :
    ∀ (id : Nat) (d : Decl), P[id]? = some d → declOkWU P M K id d = true := by
  simp only [FitWfWithU, Bool.and_eq_true, List.all_eq_true, List.mem_range] at h
  intro id d hd
  obtain ⟨hlt, _⟩ := Array.getElem?_eq_some_iff.mp hd
  have := h.1 id hlt
  simpa [hd] using this

theorem FitWfWithU_root {P : Prog} {M : Marks} {K : Nat} {root : Ty} (h : FitWfWithU P M K root = true) :
    tyOkW P M K 0 noCtx root = true := by
  simp only [FitWfWithU, Bool.and_eq_true] at h
  exact h.2

/-- One round of inference of marks, as `DeriveW.markStep`, with enums that map to unions. -/
def markStepU (P : Prog) (K : Nat) (tbl : List (List Bool)) : List (List Bool) :=
  (List.range P.size).map fun id =>
    match P[id]? with
    | none => []
    | some d =>
      (List.range d.nparams).map fun i =>
        marksOfTable tbl id i ||
          !declOkWithU P (marksOfTable tbl) K (fun j => decide (j < scopeW d) && (j != i)) d

def inferMarksU (P : Prog) (K : Nat) : Marks :=
  marksOfTable (iterN (markStepU P K) (P.foldl (fun a d => a + d.nparams) 1) [])

/-- **The fragment of `C20_fits_widerU`**: `FitWfW` (generic records, generic forwarding newtypes,
    `Option` of a marked bare parameter) plus enums that map to unions, generic or not — unit variants
    and newtype variants, in non-generic enums payloads written `[u8; N]` included — under the
    text-level naming condition.  Four tables of marks are tried: none, those inferred by `FitWfW`'s
    inference (which marks every parameter of a generic union enum), those inferred with union enums
    taken into account, all. -/
def FitWfWU (P : Prog) (root : Ty) : Bool :=
  (FitWfWithU P noMarks (wideFuel P root) root ||
    FitWfWithU P (inferMarks P (wideFuel P root)) (wideFuel P root) root ||
    FitWfWithU P (inferMarksU P (wideFuel P root)) (wideFuel P root) root ||
    FitWfWithU P allMarks (wideFuel P root) root) && UnionNamesTextW P

theorem FitWfWU_with {P : Prog} {root : Ty} (h : FitWfWU P root = true) :
    (∃ M K, FitWfWithU P M K root = true) ∧ UnionNamesTextW P = true := by
  simp only [FitWfWU, Bool.and_eq_true, Bool.or_eq_true] at h
  refine ⟨?_, h.2⟩
  rcases h.1 with ((h | h) | h) | h
  · exact ⟨_, _, h⟩
  · exact ⟨_, _, h⟩
  · exact ⟨_, _, h⟩
  · exact ⟨_, _, h⟩

theorem FitWfWith_toU {P : Prog} {M : Marks} {K : Nat} {root : Ty} (h : FitWfWith P M K root = true) :
    FitWfWithU P M K root = true := by
  have hd := FitWfWith_decls h
  simp only [FitWfWith, Bool.and_eq_true] at h
  simp only [FitWfWithU, Bool.and_eq_true, List.all_eq_true, List.mem_range]
  refine ⟨fun id hid => ?_, h.2⟩
  have hd' : P[id]? = some P[id] := Array.getElem?_eq_getElem hid
  simp only [hd']
  exact declOkWU_of_W (hd id _ hd')

/-- A program without enums that map to unions satisfies the naming condition. -/
theorem unionNamesTextW_of_no_union {P : Prog} (h : ∀ (id : Nat) (d : Decl), P[id]? = some d → ∀ vs, d.body ≠ .union vs) :
    UnionNamesTextW P = true := by
  simp only [UnionNamesTextW, Array.all_eq_true]
  intro i hi
  have := h i P[i] (Array.getElem?_eq_getElem hi)
  cases hb : P[i].body with
  | union vs => exact absurd hb (this vs)
  | _ => rfl

/-- **Nothing is lost**: the fragment of `C20_fits_wider` is part of `FitWfWU`. -/
theorem FitWfW_toWU {P : Prog} {root : Ty} (h : FitWfW P root = true) : FitWfWU P root = true := by
  have hnu : UnionNamesTextW P = true := by
    obtain ⟨M, K, hw⟩ := FitWfW_with h
    refine unionNamesTextW_of_no_union (fun id d hd vs hb => ?_)
    have := FitWfWith_decls hw id d hd
    simp [declOkW, declOkWith, hb] at this
  simp only [FitWfW, Bool.or_eq_true] at h
  simp only [FitWfWU, Bool.and_eq_true, Bool.or_eq_true]
  refine ⟨?_, hnu⟩
  rcases h with (h | h) | h
  · exact .inl (.inl (.inl (FitWfWith_toU h)))
  · exact .inl (.inl (.inr (FitWfWith_toU h)))
  · exact .inr (FitWfWith_toU h)

end Avro.Theorems.DeriveWU
