import AvroModel.Lemmas.ValidParsesRaw
import AvroModel.Lemmas.PcfSpecGraph
/-
C07 (valid documents parse), fourth part: a document whose named types can be ranked
(`Spec.ranked`) gives a node graph without record cycle.

`register_ranked`: four-way induction on the fuel, about the FINAL registration state `stF`
(as `register_pcf`): every record node written has its fields' keys resolved (`.idx`) and
pointing to nodes that, if records, rank strictly below it.
-/
namespace Avro.ValidParses
open Avro Avro.Impl Avro.Spec Avro.Spec.Pcf Avro.PcfSpec

/-- the fullname a `Name` was built from -/
def nameFn (nm : Name) : Fullname := (nm.ns, nm.short)

theorem nameFn_toName (k : NameKey) : nameFn k.toName = (k.ns, k.name) := by
  unfold NameKey.toName nameFn
  cases k.ns <;> rfl

theorem nameFn_defKey (nm : String) (nsA enc : Option String) :
    nameFn (defKey nm nsA enc).toName = fullnameOfDef nm nsA enc := by
  rw [nameFn_toName, defKey_eq_spec]

section
variable (rank : Fullname → Nat) (stF : PState)

/-- node `t` of the final state, if a record, ranks below `bound` -/
def RecBelow (t : Nat) (bound : Nat) : Prop :=
  ∀ nm fs lg, stF.nodes[t]? = some ⟨.record nm fs, lg⟩ → rank (nameFn nm) < bound

/-- a bound key points to a node that, if a record, carries the name of that key -/
def NamesInv (st : PState) : Prop :=
  ∀ key t, st.names.lookup key = some t →
    ∀ nm fs lg, stF.nodes[t]? = some ⟨.record nm fs, lg⟩ → nameFn nm = (key.ns, key.name)

/-- the field keys of a record node are resolved and point below it -/
def FieldsBelow (fs : List (String × PKey)) (bound : Nat) : Prop :=
  ∀ p ∈ fs, ∃ t, p.2 = .idx t ∧ RecBelow rank stF t bound

def GoodRange (lo hi : Nat) : Prop :=
  ∀ i, lo ≤ i → i < hi → ∀ nm fs lg, stF.nodes[i]? = some ⟨.record nm fs, lg⟩ →
    FieldsBelow rank stF fs (rank (nameFn nm))

end

variable {rank : Fullname → Nat} {stF : PState}

theorem GoodRange.append {lo mid hi : Nat} (h1 : GoodRange rank stF lo mid)
    (h2 : GoodRange rank stF mid hi) : GoodRange rank stF lo hi := by
  intro i hlo hhi
  by_cases h : i < mid
  · exact h1 i hlo h
  · exact h2 i (by omega) hhi

theorem GoodRange.empty (lo : Nat) : GoodRange rank stF lo lo := by
  intro i h1 h2; omega

theorem GoodRange.single {idx : Nat} {ty : PType} {lt : Option LogicalType}
    (hF : stF.nodes[idx]? = some ⟨ty, lt⟩)
    (h : ∀ nm fs, ty = .record nm fs → FieldsBelow rank stF fs (rank (nameFn nm))) :
    GoodRange rank stF idx (idx + 1) := by
  intro i h1 h2 nm fs lg hi
  have : i = idx := by omega
  subst this
  rw [hF] at hi
  simp only [Option.some.injEq, PNode.mk.injEq] at hi
  exact h nm fs hi.1

theorem RecBelow.of_node {idx : Nat} {ty : PType} {lt : Option LogicalType} {bound : Nat}
    (hF : stF.nodes[idx]? = some ⟨ty, lt⟩)
    (h : ∀ nm fs, ty = .record nm fs → rank (nameFn nm) < bound) :
    RecBelow rank stF idx bound := by
  intro nm fs lg hi
  rw [hF] at hi
  simp only [Option.some.injEq, PNode.mk.injEq] at hi
  exact h nm fs hi.1

theorem NamesInv.of_names {st st' : PState} (h : NamesInv stF st) (e : st'.names = st.names) :
    NamesInv stF st' := by
  intro key t hl
  rw [e] at hl
  exact h key t hl

theorem NamesInv.step {o : Option RawAttrs} {enc : Option String} {st st1 : PState}
    {nk : Option NameKey} {ty : PType} {lt : Option LogicalType}
    (h : NamesInv stF st) (hn : nameStep o enc st = .ok (nk, st1))
    (hF : stF.nodes[st.nodes.size]? = some ⟨ty, lt⟩)
    (hty : ∀ nm fs, ty = .record nm fs → ∀ key, nk = some key → nm = key.toName) :
    NamesInv stF st1 := by
  obtain ⟨-, -, hnames⟩ := nameStep_ok hn
  rcases hnames with ⟨-, e, -⟩ | ⟨a, name, -, -, hnk, -, e⟩
  · exact h.of_names e
  · intro key t hl nm fs lg hnode
    rw [e, List.lookup_cons] at hl
    by_cases hk : key = defKey name a.nsAttr enc
    · subst hk
      simp only [beq_self_eq_true, Option.some.injEq] at hl
      subst hl
      rw [hF] at hnode
      simp only [Option.some.injEq, PNode.mk.injEq] at hnode
      rw [hty nm fs hnode.1 _ hnk, nameFn_toName]
    · have : (key == defKey name a.nsAttr enc) = false := by simpa using hk
      rw [this] at hl
      exact h key t hl nm fs lg hnode

/-- nothing pending was added between `st` and `sb`, hence nothing in between -/
theorem unres_mid {st sa sb : PState} (h1 : st.Le sa) (h2 : sa.Le sb)
    (h : sb.unresolved = st.unresolved) :
    sa.unresolved = st.unresolved ∧ sb.unresolved = sa.unresolved := by
  obtain ⟨l1, e1⟩ := h1.unres
  obtain ⟨l2, e2⟩ := h2.unres
  rw [e2, e1, List.append_assoc] at h
  have : l1 ++ l2 = [] := by simpa using h
  obtain ⟨rfl, rfl⟩ := List.append_eq_nil_iff.mp this
  exact ⟨by simpa using e1, by simpa using e2⟩

/-! ### the four statements -/

def CycN (rank : Fullname → Nat) (stF : PState) (f : Nat) : Prop :=
  ∀ raw enc st k st', registerNode f raw enc st = .ok (k, st') →
    st'.unresolved = st.unresolved → Agree stF st' st.nodes.size →
    rankedRaw rank enc raw = true → NamesInv stF st →
    NamesInv stF st' ∧ GoodRange rank stF st.nodes.size st'.nodes.size ∧
    ∀ owner, directBelowRaw rank owner enc raw = true →
      ∃ t, k = .idx t ∧ RecBelow rank stF t (rank owner)

def CycO (rank : Fullname → Nat) (stF : PState) (f : Nat) : Prop :=
  ∀ t o of oi ov enc st k st', registerObject f t o of oi ov enc st = .ok (k, st') →
    st'.unresolved = st.unresolved → Agree stF st' st.nodes.size →
    rankedParts enc t (o.bind (·.name)) (o.bind (·.nsAttr))
      (fun owner => rankedRawOF rank owner of) (rankedRawO rank enc oi)
      (rankedRawO rank enc ov) = true →
    NamesInv stF st →
    NamesInv stF st' ∧ GoodRange rank stF st.nodes.size st'.nodes.size ∧
    k = .idx st.nodes.size ∧
    ∀ bound, (∀ nm, t = .record → o.bind (·.name) = some nm →
        rank (fullnameOfDef nm (o.bind (·.nsAttr)) enc) < bound) →
      RecBelow rank stF st.nodes.size bound

def CycL (rank : Fullname → Nat) (stF : PState) (f : Nat) : Prop :=
  ∀ l enc st ks st', registerList f l enc st = .ok (ks, st') →
    st'.unresolved = st.unresolved → Agree stF st' st.nodes.size →
    rankedRawList rank enc l = true → NamesInv stF st →
    NamesInv stF st' ∧ GoodRange rank stF st.nodes.size st'.nodes.size

def CycF (rank : Fullname → Nat) (stF : PState) (f : Nat) : Prop :=
  ∀ l owner st fs st', registerFields f l owner.1 st = .ok (fs, st') →
    st'.unresolved = st.unresolved → Agree stF st' st.nodes.size →
    rankedRawFields rank owner l = true → NamesInv stF st →
    NamesInv stF st' ∧ GoodRange rank stF st.nodes.size st'.nodes.size ∧
    FieldsBelow rank stF fs (rank owner)

/-! ### inversion of `bodyStep` -/

theorem bodyStep_record {f : Nat} {t : RawType} {o : Option RawAttrs}
    {of : Option (List (String × RawSchema))} {oi ov : Option RawSchema} {enc : Option String}
    {nk : Option NameKey} {st1 st2 : PState} {nm : Name} {fs : List (String × PKey)}
    (hb : bodyStep f t o of oi ov enc nk st1 = .ok (.record nm fs, st2)) :
    t = .record ∧ ∃ key fields, nk = some key ∧ nm = key.toName ∧ of = some fields ∧
      registerFields f fields key.ns st1 = .ok (fs, st2) := by
  cases t <;> simp only [bodyStep] at hb
  any_goals (first | (simp only [Except.ok.injEq, Prod.mk.injEq, reduceCtorEq, false_and] at hb; done) | skip)
  all_goals (repeat' split at hb) <;>
    simp only [Except.ok.injEq, Prod.mk.injEq, reduceCtorEq, false_and, PType.record.injEq] at hb
  rename_i key _ fields _ fs' st2' hr
  obtain ⟨⟨rfl, rfl⟩, rfl⟩ := hb
  exact ⟨rfl, key, fields, rfl, rfl, rfl, hr⟩

theorem bodyStep_array {f : Nat} {o : Option RawAttrs}
    {of : Option (List (String × RawSchema))} {oi ov : Option RawSchema} {enc : Option String}
    {nk : Option NameKey} {st1 st2 : PState} {ty : PType}
    (hb : bodyStep f .array o of oi ov enc nk st1 = .ok (ty, st2)) :
    ∃ items k, oi = some items ∧ registerNode f items enc st1 = .ok (k, st2) ∧ ty = .array k := by
  simp only [bodyStep] at hb
  cases oi with
  | none => cases hb
  | some items =>
    simp only at hb
    cases hr : registerNode f items enc st1 with
    | error e => rw [hr] at hb; cases hb
    | ok p =>
      obtain ⟨k, s⟩ := p
      rw [hr] at hb
      simp only [Except.ok.injEq, Prod.mk.injEq] at hb
      obtain ⟨rfl, rfl⟩ := hb
      exact ⟨items, k, rfl, hr, rfl⟩

theorem bodyStep_map {f : Nat} {o : Option RawAttrs}
    {of : Option (List (String × RawSchema))} {oi ov : Option RawSchema} {enc : Option String}
    {nk : Option NameKey} {st1 st2 : PState} {ty : PType}
    (hb : bodyStep f .map o of oi ov enc nk st1 = .ok (ty, st2)) :
    ∃ values k, ov = some values ∧ registerNode f values enc st1 = .ok (k, st2) ∧
      ty = .map k := by
  simp only [bodyStep] at hb
  cases ov with
  | none => cases hb
  | some values =>
    simp only at hb
    cases hr : registerNode f values enc st1 with
    | error e => rw [hr] at hb; cases hb
    | ok p =>
      obtain ⟨k, s⟩ := p
      rw [hr] at hb
      simp only [Except.ok.injEq, Prod.mk.injEq] at hb
      obtain ⟨rfl, rfl⟩ := hb
      exact ⟨values, k, rfl, hr, rfl⟩

theorem bodyStep_leaf {f : Nat} {t : RawType} {o : Option RawAttrs}
    {of : Option (List (String × RawSchema))} {oi ov : Option RawSchema} {enc : Option String}
    {nk : Option NameKey} {st1 st2 : PState} {ty : PType}
    (ht : t ≠ .array ∧ t ≠ .map ∧ t ≠ .record)
    (hb : bodyStep f t o of oi ov enc nk st1 = .ok (ty, st2)) : st2 = st1 := by
  cases t <;> simp only [bodyStep] at hb
  any_goals (first | (simp only [Except.ok.injEq, Prod.mk.injEq] at hb; exact hb.2.symm) | skip)
  any_goals (first | (simp at ht; done) | skip)
  all_goals (repeat' split at hb) <;>
    simp only [Except.ok.injEq, Prod.mk.injEq, reduceCtorEq] at hb
  all_goals exact hb.2.symm

theorem cycO_succ {f : Nat} (ihN : CycN rank stF f) (ihF : CycF rank stF f) :
    CycO rank stF (f + 1) := by
  intro t o of oi ov enc st k st' h hun hag hrk hinv
  obtain ⟨nk, st1, ty, st2, lt, hn, hb, -, hk, hst', hnode⟩ := registerObject_ok h
  subst hk
  have hle1 := nameStep_le hn
  have hle2 := bodyStep_le (register_mono f).1 (register_mono f).2.2.2 hb
  obtain ⟨hn1, hu1, hnames⟩ := nameStep_ok hn
  have hsz1 : st1.nodes.size = st.nodes.size + 1 := by rw [hn1]; simp
  have hsz' : st'.nodes.size = st2.nodes.size := by rw [hst']; simp
  have hsz2 := hle2.size
  have hidx : st.nodes.size < st'.nodes.size := by omega
  have hF : stF.nodes[st.nodes.size]? = some ⟨ty, lt⟩ := by
    rw [hag _ (Nat.le_refl _) hidx, hnode]
  have hag2 : Agree stF st2 st1.nodes.size := by
    intro i h1 h2
    rw [hag i (by omega) (by omega), hst']
    simp only [Array.set!_eq_setIfInBounds]
    exact Array.getElem?_setIfInBounds_ne (by omega)
  have hun2 : st2.unresolved = st1.unresolved := by rw [hu1, ← hun, hst']
  have hnames' : st'.names = st2.names := by rw [hst']
  rw [hsz']
  -- the node, when it is a record
  have hrec : ∀ nm fs, ty = .record nm fs → t = .record ∧ ∃ name, o.bind (·.name) = some name ∧
      nk = some (defKey name (o.bind (·.nsAttr)) enc) ∧
      nm = (defKey name (o.bind (·.nsAttr)) enc).toName := by
    intro nm fs hty
    subst hty
    obtain ⟨ht, key, fields, hkey, hnm, -, -⟩ := bodyStep_record hb
    rcases hnames with ⟨e, -, -⟩ | ⟨a, name, rfl, hname, e, -, -⟩
    · rw [e] at hkey; cases hkey
    · rw [e] at hkey
      simp only [Option.some.injEq] at hkey
      subst hkey
      exact ⟨ht, name, by simp [hname], by simpa using e, hnm⟩
  have hinv1 : NamesInv stF st1 := by
    refine hinv.step hn hF ?_
    intro nm fs hty key hkey
    obtain ⟨-, name, -, e, hnm⟩ := hrec nm fs hty
    rw [e] at hkey
    simp only [Option.some.injEq] at hkey
    rw [← hkey]; exact hnm
  have hbelow : ∀ bound, (∀ nm, t = .record → o.bind (·.name) = some nm →
      rank (fullnameOfDef nm (o.bind (·.nsAttr)) enc) < bound) →
      RecBelow rank stF st.nodes.size bound := by
    intro bound hb'
    refine RecBelow.of_node hF ?_
    intro nm fs hty
    obtain ⟨ht, name, hname, -, hnm⟩ := hrec nm fs hty
    rw [hnm, nameFn_defKey]
    exact hb' name ht hname
  by_cases ht : t = .array
  · subst ht
    obtain ⟨items, k, rfl, hr, rfl⟩ := bodyStep_array hb
    simp only [rankedParts, rankedRawO] at hrk
    obtain ⟨hinv2, hgood, -⟩ := ihN items enc st1 k st2 hr hun2 hag2 hrk hinv1
    refine ⟨hinv2.of_names hnames', ?_, rfl, hbelow⟩
    rw [hsz1] at hgood
    exact (GoodRange.single hF (by intro nm fs h; cases h)).append hgood
  by_cases ht2 : t = .map
  · subst ht2
    obtain ⟨values, k, rfl, hr, rfl⟩ := bodyStep_map hb
    simp only [rankedParts, rankedRawO] at hrk
    obtain ⟨hinv2, hgood, -⟩ := ihN values enc st1 k st2 hr hun2 hag2 hrk hinv1
    refine ⟨hinv2.of_names hnames', ?_, rfl, hbelow⟩
    rw [hsz1] at hgood
    exact (GoodRange.single hF (by intro nm fs h; cases h)).append hgood
  by_cases ht3 : t = .record
  · subst ht3
    cases ty with
    | record nm fs =>
      obtain ⟨-, name, hname, hnk, hnm⟩ := hrec nm fs rfl
      obtain ⟨-, key, fields, hkey, -, rfl, hr⟩ := bodyStep_record hb
      rw [hnk] at hkey
      simp only [Option.some.injEq] at hkey
      subst hkey
      simp only [rankedParts, hname, rankedRawOF] at hrk
      have hns : (defKey name (o.bind (·.nsAttr)) enc).ns =
          (fullnameOfDef name (o.bind (·.nsAttr)) enc).1 := by rw [defKey_eq_spec]
      rw [hns] at hr
      obtain ⟨hinv2, hgood, hfb⟩ := ihF fields _ st1 fs st2 hr hun2 hag2 hrk hinv1
      refine ⟨hinv2.of_names hnames', ?_, rfl, hbelow⟩
      rw [hsz1] at hgood
      refine (GoodRange.single hF ?_).append hgood
      intro nm' fs' h
      simp only [PType.record.injEq] at h
      obtain ⟨rfl, rfl⟩ := h
      rw [hnm, nameFn_defKey]
      exact hfb
    | _ =>
      exfalso
      simp only [bodyStep] at hb
      (repeat' split at hb) <;>
        simp only [Except.ok.injEq, Prod.mk.injEq, reduceCtorEq, false_and] at hb
  · have hst2 : st2 = st1 := bodyStep_leaf ⟨ht, ht2, ht3⟩ hb
    subst hst2
    refine ⟨hinv1.of_names hnames', ?_, rfl, hbelow⟩
    rw [hsz1]
    refine GoodRange.single hF ?_
    intro nm fs hty
    exact absurd (hrec nm fs hty).1 ht3

theorem cycL_succ {f : Nat} (ihN : CycN rank stF f) (ihL : CycL rank stF f) :
    CycL rank stF (f + 1) := by
  intro l enc st ks st' h hun hag hrk hinv
  cases l with
  | nil =>
    simp only [registerList, Except.ok.injEq, Prod.mk.injEq] at h
    obtain ⟨-, rfl⟩ := h
    exact ⟨hinv, GoodRange.empty _⟩
  | cons r rest =>
    simp only [registerList] at h
    split at h
    · cases h
    · rename_i k1 sa h1
      split at h
      · cases h
      · rename_i ks2 sb h2
        simp only [Except.ok.injEq, Prod.mk.injEq] at h
        obtain ⟨-, rfl⟩ := h
        have hle1 := (register_mono f).1 _ _ _ _ _ h1
        have hle2 := (register_mono f).2.2.1 _ _ _ _ _ h2
        obtain ⟨hua, hub⟩ := unres_mid hle1 hle2 hun
        simp only [rankedRawList, Bool.and_eq_true] at hrk
        obtain ⟨hinva, hga, -⟩ := ihN r enc st k1 sa h1 hua (hag.head hle2) hrk.1 hinv
        obtain ⟨hinvb, hgb⟩ := ihL rest enc sa ks2 sb h2 hub (hag.tail hle1.size) hrk.2 hinva
        exact ⟨hinvb, hga.append hgb⟩

theorem cycF_succ {f : Nat} (ihN : CycN rank stF f) (ihF : CycF rank stF f) :
    CycF rank stF (f + 1) := by
  intro l owner st fs st' h hun hag hrk hinv
  cases l with
  | nil =>
    simp only [registerFields, Except.ok.injEq, Prod.mk.injEq] at h
    obtain ⟨rfl, rfl⟩ := h
    exact ⟨hinv, GoodRange.empty _, fun p hp => by cases hp⟩
  | cons x rest =>
    obtain ⟨name, r⟩ := x
    simp only [registerFields] at h
    split at h
    · cases h
    · rename_i k1 sa h1
      split at h
      · cases h
      · rename_i fs2 sb h2
        simp only [Except.ok.injEq, Prod.mk.injEq] at h
        obtain ⟨rfl, rfl⟩ := h
        have hle1 := (register_mono f).1 _ _ _ _ _ h1
        have hle2 := ((register_mono f).2.2.2 _ _ _ _ _ h2).1
        obtain ⟨hua, hub⟩ := unres_mid hle1 hle2 hun
        simp only [rankedRawFields, Bool.and_eq_true] at hrk
        obtain ⟨⟨hd, hr1⟩, hr2⟩ := hrk
        obtain ⟨hinva, hga, hk1⟩ := ihN r owner.1 st k1 sa h1 hua (hag.head hle2) hr1 hinv
        obtain ⟨hinvb, hgb, hfb⟩ :=
          ihF rest owner sa fs2 sb h2 hub (hag.tail hle1.size) hr2 hinva
        refine ⟨hinvb, hga.append hgb, ?_⟩
        intro p hp
        rcases List.mem_cons.mp hp with rfl | hp
        · exact hk1 owner hd
        · exact hfb p hp

theorem cycN_succ {f : Nat} (ihO : CycO rank stF f) (ihL : CycL rank stF f) :
    CycN rank stF (f + 1) := by
  intro raw enc st k st' h hun hag hrk hinv
  cases raw with
  | ref r =>
    simp only [registerNode] at h
    split at h
    · rename_i i hl
      simp only [Except.ok.injEq, Prod.mk.injEq] at h
      obtain ⟨rfl, rfl⟩ := h
      refine ⟨hinv, GoodRange.empty _, ?_⟩
      intro owner hd
      refine ⟨i, rfl, ?_⟩
      intro nm fs lg hnode
      have := hinv _ i hl nm fs lg hnode
      rw [this]
      have e : ((refKey r enc).ns, (refKey r enc).name) = fullnameOfRef r enc := by
        rw [refKey_eq_spec]
      rw [e]
      simpa [directBelowRaw] using hd
    · simp only [Except.ok.injEq, Prod.mk.injEq] at h
      obtain ⟨-, rfl⟩ := h
      simp at hun
  | type t =>
    simp only [registerNode] at h
    obtain ⟨hinv', hg, hk, hb⟩ :=
      ihO t none none none none enc st k st' h hun hag (by cases t <;> rfl) hinv
    refine ⟨hinv', hg, ?_⟩
    intro owner _
    exact ⟨_, hk, hb _ (by intro nm _ h; cases h)⟩
  | object a fields items values =>
    simp only [registerNode] at h
    simp only [rankedRaw] at hrk
    obtain ⟨hinv', hg, hk, hb⟩ :=
      ihO a.type (some a) fields items values enc st k st' h hun hag hrk hinv
    refine ⟨hinv', hg, ?_⟩
    intro owner hd
    refine ⟨_, hk, hb _ ?_⟩
    intro nm ht hn
    simp only [Option.bind_some] at hn ⊢
    simpa [directBelowRaw, ht, hn] using hd
  | union bs =>
    simp only [registerNode] at h
    split at h
    · cases h
    · rename_i keys st2 hl
      simp only [Except.ok.injEq, Prod.mk.injEq] at h
      obtain ⟨rfl, rfl⟩ := h
      simp only [rankedRaw] at hrk
      have hle2 := (register_mono f).2.2.1 _ _ _ _ _ hl
      have hsz2 : st.nodes.size + 1 ≤ st2.nodes.size := by
        have := hle2.size; simpa using this
      have hidx : st.nodes.size < st2.nodes.size := by omega
      have hF : stF.nodes[st.nodes.size]? = some ⟨.union keys, none⟩ := by
        have := hag _ (Nat.le_refl _) (by simpa using hidx)
        simpa only [Array.set!_eq_setIfInBounds,
          Array.getElem?_setIfInBounds_self_of_lt hidx] using this
      have hag2 : Agree stF st2 (st.nodes.size + 1) := by
        intro i h1 h2
        rw [hag i (by omega) (by simpa using h2)]
        simp only [Array.set!_eq_setIfInBounds]
        exact Array.getElem?_setIfInBounds_ne (by omega)
      obtain ⟨hinv2, hg⟩ := ihL bs enc
        { st with nodes := st.nodes.push { type := .null, logical := none } } keys st2 hl
        (by simpa using hun) (by simpa using hag2) hrk (hinv.of_names rfl)
      refine ⟨hinv2.of_names rfl, ?_, ?_⟩
      · have hg' : GoodRange rank stF (st.nodes.size + 1) st2.nodes.size := by simpa using hg
        simpa using (GoodRange.single hF (by intro nm fs h; cases h)).append hg'
      · intro owner _
        exact ⟨_, rfl, RecBelow.of_node hF (by intro nm fs h; cases h)⟩

/-- Every record node written by the registration of a ranked tree has its fields resolved and
    pointing to nodes that rank below it. -/
theorem register_ranked (rank : Fullname → Nat) (stF : PState) :
    ∀ f, CycN rank stF f ∧ CycO rank stF f ∧ CycL rank stF f ∧ CycF rank stF f := by
  intro f
  induction f with
  | zero =>
    refine ⟨?_, ?_, ?_, ?_⟩
    · intro raw enc st k st' h; simp [registerNode] at h
    · intro t o of oi ov enc st k st' h; simp [registerObject] at h
    · intro l enc st ks st' h hun hag hrk hinv
      cases l with
      | nil =>
        simp only [registerList, Except.ok.injEq, Prod.mk.injEq] at h
        obtain ⟨-, rfl⟩ := h
        exact ⟨hinv, GoodRange.empty _⟩
      | cons r rest => simp [registerList] at h
    · intro l owner st fs st' h hun hag hrk hinv
      cases l with
      | nil =>
        simp only [registerFields, Except.ok.injEq, Prod.mk.injEq] at h
        obtain ⟨rfl, rfl⟩ := h
        exact ⟨hinv, GoodRange.empty _, fun p hp => by cases hp⟩
      | cons r rest => simp [registerFields] at h
  | succ f ih =>
    obtain ⟨ihN, ihO, ihL, ihF⟩ := ih
    exact ⟨cycN_succ ihO ihL, cycO_succ ihN ihF, cycL_succ ihN ihL, cycF_succ ihN ihF⟩

/-! ### a ranked graph has no record cycle -/

theorem isRecord_inv {S : SchemaMut} {i : Nat} (h : isRecord S i = true) :
    ∃ nm fs lg, S[i]? = some ⟨.record nm fs, lg⟩ := by
  unfold isRecord at h
  split at h
  · rename_i nm fs lg hi; exact ⟨_, _, _, hi⟩
  · cases h

theorem graphOf_record {stF : PState} {i : Nat} {nm : Name} {fs' : List (String × Nat)}
    {lg : Option LogicalType} (h : (graphOf stF)[i]? = some ⟨.record nm fs', lg⟩) :
    ∃ fs, stF.nodes[i]? = some ⟨.record nm fs, lg⟩ ∧
      fs' = fs.map fun p => (p.1, resolveKey stF p.2) := by
  cases hn : stF.nodes[i]? with
  | none => simp [graphOf, hn] at h
  | some n =>
    rw [graphOf_get hn] at h
    obtain ⟨ty, lg'⟩ := n
    simp only [Option.some.injEq, RawNode.mk.injEq] at h
    obtain ⟨hty, rfl⟩ := h
    cases ty <;> simp only [resolveType, reduceCtorEq, RegularType.record.injEq] at hty
    obtain ⟨rfl, rfl⟩ := hty
    exact ⟨_, rfl, rfl⟩

/-- rank of a node of the graph: that of its name if it is a record -/
def rankAt (rank : Fullname → Nat) (S : SchemaMut) (i : Nat) : Nat :=
  match S[i]? with
  | some ⟨.record nm _, _⟩ => rank (nameFn nm)
  | _ => 0

theorem recEdge_rank {rank : Fullname → Nat} {stF : PState}
    (hg : GoodRange rank stF 0 stF.nodes.size) {i j : Nat}
    (e : recEdge (graphOf stF) i j) :
    rankAt rank (graphOf stF) j < rankAt rank (graphOf stF) i := by
  obtain ⟨hi, hj, hmem⟩ := e
  obtain ⟨nmi, fsi', lgi, hSi⟩ := isRecord_inv hi
  obtain ⟨nmj, fsj', lgj, hSj⟩ := isRecord_inv hj
  obtain ⟨fsi, hFi, rfl⟩ := graphOf_record hSi
  obtain ⟨fsj, hFj, rfl⟩ := graphOf_record hSj
  have hlt : i < stF.nodes.size := by
    cases Nat.lt_or_ge i stF.nodes.size with
    | inl h => exact h
    | inr h => rw [Array.getElem?_eq_none h] at hFi; cases hFi
  simp only [recordFieldKeys, hSi, List.map_map, List.mem_map, Function.comp] at hmem
  obtain ⟨p, hp, hpj⟩ := hmem
  obtain ⟨t, hpt, hbelow⟩ := hg i (Nat.zero_le _) hlt nmi fsi lgi hFi p hp
  rw [hpt] at hpj
  simp only [resolveKey] at hpj
  subst hpj
  simp only [rankAt, hSi, hSj]
  exact hbelow nmj fsj lgj hFj

theorem transGen_rank {rank : Fullname → Nat} {stF : PState}
    (hg : GoodRange rank stF 0 stF.nodes.size) {i j : Nat}
    (p : Relation.TransGen (recEdge (graphOf stF)) i j) :
    rankAt rank (graphOf stF) j < rankAt rank (graphOf stF) i := by
  induction p with
  | single e => exact recEdge_rank hg e
  | tail _ e ih => exact Nat.lt_trans (recEdge_rank hg e) ih

/-- The registration of a ranked raw tree (nothing left pending) gives a graph without record
    cycle. -/
theorem ranked_acyclic {rank : Fullname → Nat} {f : Nat} {raw : RawSchema} {k : PKey}
    {st : PState} (hreg : registerNode f raw none {} = .ok (k, st))
    (hun : st.unresolved = []) (hrk : rankedRaw rank none raw = true) :
    ¬ ∃ i, Relation.TransGen (recEdge (graphOf st)) i i := by
  have hinv : NamesInv st ({} : PState) := by intro key t h; simp at h
  obtain ⟨-, hg, -⟩ := (register_ranked rank st f).1 raw none {} k st hreg (by simpa using hun)
    (fun _ _ _ => rfl) hrk hinv
  rintro ⟨i, p⟩
  exact Nat.lt_irrefl _ (transGen_rank (by simpa using hg) p)

end Avro.ValidParses
