import AvroModel.Lemmas.SerSim
/-
Order independence of record serialization: with pairwise distinct field names, presenting every
field exactly once in any order produces the field encodings in schema order.  Used by C13.
-/
namespace Avro.Theorems
open Avro Avro.Impl

theorem lookupLast_go_isSome (name : String) : ∀ (xs : List String) (i : Nat) (acc : Option Nat),
    (name ∈ xs ∨ acc.isSome) → (lookupLast.go name xs i acc).isSome := by
  intro xs
  induction xs with
  | nil => intro i acc h; simp only [lookupLast.go]; simpa using h
  | cons x rest ih =>
    intro i acc h
    simp only [lookupLast.go]
    apply ih
    by_cases hx : x = name
    · right; simp [hx]
    · rcases h with h | h
      · left; simp only [List.mem_cons] at h; rcases h with h | h
        · exact (hx h.symm).elim
        · exact h
      · right; simp [hx, h]

theorem lookupLast_of_nodup {xs : List String} (hnd : xs.Nodup) {i : Nat} {name : String}
    (h : xs[i]? = some name) : lookupLast xs name = some i := by
  have hs := lookupLast_go_isSome name xs 0 none (.inl (List.mem_of_getElem? h))
  cases hj : lookupLast xs name with
  | none => unfold lookupLast at hj; rw [hj] at hs; cases hs
  | some j =>
    have := lookupLast_sound hj
    have hi : i < xs.length := (List.getElem?_eq_some_iff.mp h).1
    rw [(List.getElem?_inj hi hnd).mp (h.trans this.symm)]

theorem fieldIdx_of_nodup {fields : List (String × Nat)} (hnd : (fields.map (·.1)).Nodup)
    {rs : RecordState} {i : Nat} {f : String × Nat} (hf : fields[i]? = some f)
    (hi : rs.current ≤ i) : fieldIdx fields rs f.1 = .ok i := by
  have hlt : i < fields.length := (List.getElem?_eq_some_iff.mp hf).1
  have hni : (fields.map (·.1))[i]? = some f.1 := by rw [List.getElem?_map, hf]; rfl
  unfold fieldIdx
  have hcur : rs.current < fields.length := by omega
  rw [List.getElem?_eq_getElem hcur]
  dsimp only
  split
  · rename_i hname
    have hnc : (fields.map (·.1))[rs.current]? = some f.1 := by
      rw [List.getElem?_map, List.getElem?_eq_getElem hcur]; simp [hname]
    have : rs.current = i := (List.getElem?_inj (by simpa using hcur) hnd).mp (hnc.trans hni.symm)
    rw [this]
  · rename_i hname
    rw [lookupLast_of_nodup hnd hni]
    dsimp only
    have : i ≠ rs.current := by
      intro h; subst h
      apply hname
      rw [List.getElem?_eq_getElem hcur] at hf
      simp only [Option.some.injEq] at hf
      rw [hf]
    rw [if_pos (by omega)]

theorem flushBuffered_done_conv : ∀ (fuel : Nat) (rs : RecordState) (s : SerState)
    (rs' : RecordState), (flushBuffered fuel rs s).1 = .ok rs' → ∀ i, RecDone rs' i → RecDone rs i := by
  intro fuel
  induction fuel with
  | zero => intro rs s rs' h i hd; simp [flushBuffered] at h; subst h; exact hd
  | succ fuel ih =>
    intro rs s rs' h i hd
    unfold flushBuffered at h
    split at h
    · rename_i b hb
      dsimp only at h
      split at h
      · simp at h
      · have := ih _ _ _ h i hd
        rcases this with h1 | ⟨b', hb'⟩
        · simp only at h1
          by_cases hi : i = rs.current
          · right; exact ⟨b, hi ▸ hb⟩
          · left; omega
        · simp only [List.getElem?_set] at hb'
          split at hb'
          · split at hb' <;> cases hb'
          · right; exact ⟨b', hb'⟩
    · simp at h; subst h; exact hd

theorem recordValue_done_conv {S : Schema} {fields : List (String × Nat)} {rs : RecordState}
    {idx : Nat} {serv : Node → SerM Unit} {s : SerState} {rs' : RecordState} {s' : SerState}
    (hok : recordValue S fields rs idx serv s = (.ok rs', s')) :
    ∀ i, RecDone rs' i → RecDone rs i ∨ i = idx := by
  intro i hd
  unfold recordValue at hok
  split at hok
  · simp at hok
  · split at hok
    · simp at hok
    · split at hok
      · rename_i hcur
        split at hok
        · simp at hok
        · rename_i s1 hs1
          have := flushBuffered_done_conv _ _ _ rs' (by rw [hok]) i hd
          rcases this with h1 | ⟨b, hb⟩
          · simp only at h1
            by_cases hi : i = idx
            · exact .inr hi
            · left; left; omega
          · left; right; exact ⟨b, hb⟩
      · dsimp only at hok
        split at hok
        · simp at hok
        · split at hok
          · simp at hok
          · split at hok
            · simp at hok
            · simp only [Prod.mk.injEq, Except.ok.injEq] at hok
              obtain ⟨e1, e2⟩ := hok; subst e1 e2
              by_cases hi : i = idx
              · exact .inr hi
              · left
                rcases hd with h1 | ⟨b, hb⟩
                · left; exact h1
                · right
                  simp only [List.getElem?_set] at hb
                  rw [if_neg (by omega)] at hb
                  exact ⟨b, (resizedSlots_some _ _ _ _).mp hb⟩

theorem recordValue_ok (fields : List (String × Nat)) (enc : Nat → Bytes) (base : Bytes)
    (S : Schema) (rs : RecordState) (idx : Nat) (serv : Node → SerM Unit) (s : SerState)
    (f : String × Nat) (node : Node)
    (hf : fields[idx]? = some f) (hnode : S[f.2]? = some node)
    (hb : s.budget = none) (hc : PoolClean s.pool)
    (hfree : ¬ RecDone rs idx)
    (hserv : ∀ s, s.budget = none → PoolClean s.pool →
      ∃ s', serv node s = (.ok (), s') ∧ s'.out = s.out ++ enc idx ∧ s'.budget = none)
    (hinv : RecInv fields enc base rs s) :
    ∃ rs' s', recordValue S fields rs idx serv s = (.ok rs', s') := by
  have hlt : idx < fields.length := (List.getElem?_eq_some_iff.mp hf).1
  unfold recordValue
  rw [hf]
  dsimp only
  rw [hnode]
  dsimp only
  split
  · rename_i hcur
    obtain ⟨s1, h1, h2, h3⟩ := hserv s hb hc
    rw [h1]
    dsimp only
    obtain ⟨rs2, s2, g1, _⟩ := flushBuffered_inv fields enc base rs.buffers.slots.length
      { rs with current := rs.current + 1 } s1 h3 (by simp only; omega)
      ⟨by simp only [h2, hinv.1, range_succ_flatMap, List.append_assoc, hcur],
       fun i b hib => by have := hinv.2.1 i b hib; exact ⟨by simp only; omega, this.2⟩,
       by simp only; omega⟩
    exact ⟨rs2, s2, g1⟩
  · split
    · rename_i b hb'
      exact (hfree (.inr ⟨b, (resizedSlots_some _ _ _ _).mp hb'⟩)).elim
    · obtain ⟨buf, s1, e1, hbuf, o1, b1, c1⟩ := popBuffer_op s hc
      rw [e1]
      dsimp only
      unfold intoBuffer
      obtain ⟨s2, h1, h2, h3⟩ := hserv { s1 with out := buf.data, budget := none } rfl c1
      rw [h1]
      exact ⟨_, _, rfl⟩

theorem recordValue_total (fields : List (String × Nat)) (enc : Nat → Bytes) (base : Bytes)
    (S : Schema) (rs : RecordState) (idx : Nat) (serv : Node → SerM Unit) (s : SerState)
    (f : String × Nat) (node : Node)
    (hf : fields[idx]? = some f) (hnode : S[f.2]? = some node)
    (hb : s.budget = none) (hc : PoolClean s.pool) (hidx : rs.current ≤ idx)
    (hfree : ¬ RecDone rs idx)
    (hservTr : ∀ node, Tr False (serv node) (fun _ => True))
    (hserv : ∀ s, s.budget = none → PoolClean s.pool →
      ∃ s', serv node s = (.ok (), s') ∧ s'.out = s.out ++ enc idx ∧ s'.budget = none)
    (hinv : RecInv fields enc base rs s) :
    ∃ rs' s', recordValue S fields rs idx serv s = (.ok rs', s') ∧
      RecInv fields enc base rs' s' ∧ s'.budget = none ∧ PoolClean s'.pool ∧
      ∀ i, RecDone rs' i ↔ RecDone rs i ∨ i = idx := by
  obtain ⟨rs', s', hok⟩ := recordValue_ok fields enc base S rs idx serv s f node hf hnode hb hc
    hfree hserv hinv
  have hclean := ((recordValue_tr (P := False) (S := S) (fields := fields) (rs := rs) (idx := idx)
    (serv := serv) (fun h => h.elim) (fun h => h.elim) (fun h => h.elim)
    (fun node _ => hservTr node)).out s hc).1
  rw [hok] at hclean
  obtain ⟨g1, g2, g3⟩ := recordValue_inv_gen PoolClean
    (fun s buf s1 hp hcl => by
      obtain ⟨b', s1', e1, _, _, _, c1⟩ := popBuffer_op s hcl
      rw [hp] at e1
      simp only [Prod.mk.injEq, Except.ok.injEq] at e1
      rw [e1.2]; exact c1)
    fields enc base S rs idx serv s rs' s' hb hc hidx
    (fun f' node' s0 hf' hnode' hb0 hc0 => by
      rw [hf] at hf'
      simp only [Option.some.injEq] at hf'; subst hf'
      rw [hnode] at hnode'
      simp only [Option.some.injEq] at hnode'; subst hnode'
      exact hserv s0 hb0 hc0)
    hinv hok
  exact ⟨rs', s', hok, g1, g2, hclean, fun i => ⟨recordValue_done_conv hok i, g3 i⟩⟩

/-- A struct presentation of a record: the fields with indices `order`, in that order, each
    with its schema name and its value `vals i`. -/
def presOf (fields : List (String × Nat)) (vals : Nat → SV) (order : List Nat) :
    List (String × SV) :=
  order.map fun i => ((fields[i]?.getD ("", 0)).1, vals i)

/-- A value that serializes from the empty unlimited writer to `bs` appends `bs` to any
    unlimited writer with a clean pool. -/
theorem ser_appends (ext : Ext) (allowSlow : Bool) (S : Schema) (node : Node) (v : SV)
    (t : SerState) (h : ser ext allowSlow S node v {} = (.ok (), t)) (s : SerState)
    (hb : s.budget = none) (hc : PoolClean s.pool) :
    ∃ s', ser ext allowSlow S node v s = (.ok (), s') ∧ s'.out = s.out ++ t.out ∧
      s'.budget = none := by
  have hs : SerSim True s.out s {} :=
    ⟨by simp, by rw [hb], fun _ => rfl, hc, PoolClean.empty⟩
  rcases (ser_par (U := True) ext allowSlow v node).out _ _ _ hs with
    ⟨_, _, t1, t2, e1, e2, _, ht⟩ | ⟨e, t1, t2, e1, e2, ht⟩
  · rw [h] at e2
    simp only [Prod.mk.injEq] at e2
    obtain ⟨_, rfl⟩ := e2
    exact ⟨t1, e1, ht.1, by rw [ht.2.1]; exact ht.2.2.1 trivial⟩
  · rw [h] at e2; simp at e2

section order
variable (ext : Ext) (allowSlow : Bool) (S : Schema) (fields : List (String × Nat))
  (enc : Nat → Bytes) (base : Bytes) (vals : Nat → SV)

theorem serFields_record_total (hnd : (fields.map (·.1)).Nodup)
    (hkeys : ∀ f ∈ fields, ∃ node, S[f.2]? = some node)
    (henc : ∀ i f node, fields[i]? = some f → S[f.2]? = some node →
      ∃ t, ser ext allowSlow S node (vals i) {} = (.ok (), t) ∧ t.out = enc i) :
    ∀ (order : List Nat) (rs : RecordState) (s : SerState), s.budget = none → PoolClean s.pool →
      RecInv fields enc base rs s → order.Nodup →
      (∀ i ∈ order, i < fields.length ∧ ¬ RecDone rs i) →
      ∃ rs' s', serFields ext allowSlow S (.record fields rs) (presOf fields vals order) s =
          (.ok (.record fields rs'), s') ∧
        RecInv fields enc base rs' s' ∧ s'.budget = none ∧ PoolClean s'.pool ∧
        ∀ i, RecDone rs' i ↔ RecDone rs i ∨ i ∈ order := by
  intro order
  induction order with
  | nil =>
    intro rs s hb hc hinv _ _
    refine ⟨rs, s, ?_, hinv, hb, hc, fun i => by simp⟩
    simp only [presOf, List.map_nil]
    rw [serFields]
  | cons i rest ih =>
    intro rs s hb hc hinv hnodup hall
    obtain ⟨hlt, hnd_i⟩ := hall i (by simp)
    have hf : fields[i]? = some fields[i] := List.getElem?_eq_getElem hlt
    obtain ⟨node, hnode⟩ := hkeys fields[i] (List.getElem_mem hlt)
    have hcur : rs.current ≤ i := by
      rcases Nat.lt_or_ge i rs.current with h | h
      · exact (hnd_i (.inl h)).elim
      · exact h
    obtain ⟨t, ht, htout⟩ := henc i fields[i] node hf hnode
    obtain ⟨rs1, s1, hrv, hinv1, hb1, hc1, hdone1⟩ := recordValue_total fields enc base S rs i
      (fun node => ser ext allowSlow S node (vals i)) s fields[i] node hf hnode hb hc hcur hnd_i
      (fun node => ser_tr (P := False) ext allowSlow (fun h => h.elim) (vals i) node (fun h => h.elim))
      (fun s0 hb0 hc0 => by
        obtain ⟨s', h1, h2, h3⟩ := ser_appends ext allowSlow S node (vals i) t ht s0 hb0 hc0
        exact ⟨s', h1, by rw [h2, htout], h3⟩)
      hinv
    have hnodup' := List.nodup_cons.mp hnodup
    obtain ⟨rs', s', hrest, hinv', hb', hc', hdone'⟩ := ih rs1 s1 hb1 hc1 hinv1 hnodup'.2
      (fun j hj => by
        refine ⟨(hall j (by simp [hj])).1, fun hd => ?_⟩
        rcases (hdone1 j).mp hd with h | h
        · exact (hall j (by simp [hj])).2 h
        · subst h; exact hnodup'.1 hj)
    refine ⟨rs', s', ?_, hinv', hb', hc', fun j => ?_⟩
    · simp only [presOf, List.map_cons, hf, Option.getD_some]
      rw [serFields, fieldIdx_of_nodup hnd hf hcur]
      dsimp only
      rw [hrv]
      exact hrest
    · rw [hdone', hdone1]
      simp only [List.mem_cons]
      exact ⟨fun h => by rcases h with (h | h) | h <;> simp [h], fun h => by
        rcases h with h | h | h <;> simp [h]⟩

end order
section order2
variable (ext : Ext) (allowSlow : Bool) (S : Schema) (nm : Name) (fields : List (String × Nat))
  (enc : Nat → Bytes) (vals : Nat → SV)

theorem ser_struct_record_eq (name : String) (pres : List (String × SV)) (s : SerState) :
    ser ext allowSlow S (.record nm fields) (.struct name pres) s =
      match popSuperBuffer s with
      | (.ok sb, s1) => structBodyFinish S
          (serFields ext allowSlow S (.record fields { current := 0, buffers := sb }) pres s1)
      | (.error e, s1) => (.error e, s1) := by
  rw [ser]
  simp only [viaName, viaUnion, structStartAt, bind, pure]
  cases popSuperBuffer s with
  | mk r s1 => cases r <;> rfl

theorem structFinish_record_done (rs : RecordState) (s : SerState) (hc : PoolClean s.pool)
    (hcur : rs.current = fields.length) :
    ∃ s', structFinish S (.record fields rs) s = (.ok (), s') ∧ s'.out = s.out ∧
      s'.budget = s.budget ∧ PoolClean s'.pool := by
  unfold structFinish structEnd
  dsimp only
  rw [recordEnd_succ, List.getElem?_eq_none (by omega)]
  dsimp only
  rw [if_neg (by omega)]
  dsimp only
  unfold SerM.finally
  obtain ⟨_, s', e1, _, o1, b1, c1⟩ := structDrop_op
    (.record fields { rs with buffers := { rs.buffers with slots := [] } }) s hc
  simp only [pure]
  rw [e1]
  exact ⟨s', rfl, o1, b1, c1⟩

/-- A struct presentation of all fields of a record, in any order, serializes to the field
    encodings in schema order. -/
theorem ser_record_any_order (hnd : (fields.map (·.1)).Nodup)
    (hkeys : ∀ f ∈ fields, ∃ node, S[f.2]? = some node)
    (henc : ∀ i f node, fields[i]? = some f → S[f.2]? = some node →
      ∃ t, ser ext allowSlow S node (vals i) {} = (.ok (), t) ∧ t.out = enc i)
    (name : String) (order : List Nat) (hperm : order.Perm (List.range fields.length))
    (s : SerState) (hb : s.budget = none) (hc : PoolClean s.pool) :
    ∃ s', ser ext allowSlow S (.record nm fields) (.struct name (presOf fields vals order)) s =
        (.ok (), s') ∧
      s'.out = s.out ++ (List.range fields.length).flatMap enc ∧ s'.budget = none ∧
      PoolClean s'.pool := by
  rw [ser_struct_record_eq]
  obtain ⟨sb, s1, e1, hsb, o1, b1, c1⟩ := popSuperBuffer_op s hc
  rw [e1]
  dsimp only
  have hmem : ∀ i, i ∈ order ↔ i < fields.length := fun i => by
    rw [hperm.mem_iff, List.mem_range]
  have hinv0 : RecInv fields enc s.out { current := 0, buffers := sb } s1 :=
    ⟨by simp [o1], fun i b hib => by simp [hsb] at hib, Nat.zero_le _⟩
  have hdone0 : ∀ i, ¬ RecDone { current := 0, buffers := sb } i := by
    intro i h
    rcases h with h | ⟨b, hb⟩
    · simp at h
    · simp [hsb] at hb
  obtain ⟨rs', s2, hsf, hinv, hb2, hc2, hdone⟩ := serFields_record_total ext allowSlow S fields enc
    s.out vals hnd hkeys henc order { current := 0, buffers := sb } s1 (by rw [b1, hb]) c1 hinv0
    (hperm.nodup_iff.mpr List.nodup_range) (fun i hi => ⟨(hmem i).mp hi, hdone0 i⟩)
  rw [hsf]
  have hcur : rs'.current = fields.length := by
    have hle := hinv.2.2
    rcases Nat.lt_or_ge rs'.current fields.length with hlt | hge
    · exfalso
      have := (hdone rs'.current).mpr (.inr ((hmem _).mpr hlt))
      rcases this with h | ⟨b, hb⟩
      · omega
      · have := (hinv.2.1 _ b hb).1; omega
    · omega
  unfold structBodyFinish
  dsimp only
  obtain ⟨s3, e3, o3, b3, c3⟩ := structFinish_record_done S fields rs' s2 hc2 hcur
  exact ⟨s3, e3, by rw [o3, hinv.1, hcur], by rw [b3, hb2], c3⟩

end order2
end Avro.Theorems
