import AvroModel.Impl.SchemaParse
import AvroModel.Spec.Names
/-
Helper lemmas for C07 / C08 (schema parsing, names, cycle check, canonical form).
-/
namespace Avro.Impl
open Avro

/-! ### `rfindDot` / `rsplitDot` against the structural split of the specification -/

theorem splitLastDot_some {cs a b : List Char} (h : Spec.splitLastDot cs = some (a, b)) :
    cs = a ++ '.' :: b ∧ '.' ∉ b ∧ Spec.splitLastDot b = none := by
  induction cs generalizing a b with
  | nil => simp [Spec.splitLastDot] at h
  | cons c rest ih =>
    simp only [Spec.splitLastDot] at h
    cases h' : Spec.splitLastDot rest with
    | some p =>
      obtain ⟨a', b'⟩ := p
      rw [h'] at h
      simp only [Option.some.injEq, Prod.mk.injEq] at h
      obtain ⟨rfl, rfl⟩ := h
      obtain ⟨h1, h2, h3⟩ := ih h'
      exact ⟨by rw [h1]; rfl, h2, h3⟩
    | none =>
      rw [h'] at h
      by_cases hc : c = '.'
      · simp only [hc, if_true, Option.some.injEq, Prod.mk.injEq] at h
        obtain ⟨rfl, rfl⟩ := h
        refine ⟨by simp [hc], ?_, h'⟩
        clear ih
        induction rest with
        | nil => simp
        | cons d r ihr =>
          simp only [Spec.splitLastDot] at h'
          cases h'' : Spec.splitLastDot r with
          | some p => rw [h''] at h'; simp at h'
          | none =>
            rw [h''] at h'
            by_cases hd : d = '.'
            · simp [hd] at h'
            · simp only [List.mem_cons, not_or]
              exact ⟨fun e => hd e.symm, ihr h''⟩
      · simp [hc] at h

theorem splitLastDot_none_iff {cs : List Char} : Spec.splitLastDot cs = none ↔ '.' ∉ cs := by
  induction cs with
  | nil => simp [Spec.splitLastDot]
  | cons c rest ih =>
    simp only [Spec.splitLastDot, List.mem_cons, not_or]
    cases h : Spec.splitLastDot rest with
    | some p => simp only [reduceCtorEq, false_iff, not_and]; intro _; rw [← ih, h]; simp
    | none =>
      have := ih.mp h
      by_cases hc : c = '.'
      · simp [hc]
      · simp only [hc, if_false, true_iff]; exact ⟨fun e => hc e.symm, this⟩

theorem splitLastDot_append {a b : List Char} (hb : '.' ∉ b) :
    Spec.splitLastDot (a ++ '.' :: b) = some (a, b) := by
  induction a with
  | nil => simp [Spec.splitLastDot, splitLastDot_none_iff.mpr hb]
  | cons c a ih => simp [Spec.splitLastDot, ih]

theorem rfindDot_go_eq (cs : List Char) (i : Nat) (acc : Option Nat) :
    rfindDot.go cs i acc =
      match Spec.splitLastDot cs with
      | some (a, _) => some (i + a.length)
      | none => acc := by
  induction cs generalizing i acc with
  | nil => simp [rfindDot.go, Spec.splitLastDot]
  | cons c rest ih =>
    simp only [rfindDot.go, Spec.splitLastDot]
    rw [ih]
    cases h : Spec.splitLastDot rest with
    | some p => simp; omega
    | none => by_cases hc : c = '.' <;> simp [hc]

theorem rfindDot_eq (cs : List Char) :
    rfindDot cs = (Spec.splitLastDot cs).map (fun p => p.1.length) := by
  simp only [rfindDot, rfindDot_go_eq]
  cases Spec.splitLastDot cs with
  | none => rfl
  | some p => simp

theorem rfindDot_none_iff {cs : List Char} : rfindDot cs = none ↔ '.' ∉ cs := by
  rw [rfindDot_eq, Option.map_eq_none_iff, splitLastDot_none_iff]

theorem rfindDot_append {a b : List Char} (hb : '.' ∉ b) :
    rfindDot (a ++ '.' :: b) = some a.length := by
  rw [rfindDot_eq, splitLastDot_append hb]; rfl

theorem rsplitDot_eq (s : String) :
    rsplitDot s = (Spec.splitLastDot s.toList).map (fun p => (String.ofList p.1, String.ofList p.2)) := by
  simp only [rsplitDot, rfindDot_eq]
  cases h : Spec.splitLastDot s.toList with
  | none => rfl
  | some p =>
    obtain ⟨a, b⟩ := p
    obtain ⟨h1, -, -⟩ := splitLastDot_some h
    simp [h1]

theorem nonEmpty_eq (s : String) : nonEmpty s = Spec.namespaceOf s := by
  simp only [nonEmpty, Spec.namespaceOf]
  by_cases h : s = ""
  · simp [h]
  · have : s.isEmpty = false := by
      cases h' : s.isEmpty with
      | true => exact absurd (String.isEmpty_iff.mp h') h
      | false => rfl
    simp [h, this]

theorem rsplitDot_dotted (ns name : String) (hn : '.' ∉ name.toList) :
    rsplitDot (ns ++ "." ++ name) = some (ns, name) := by
  have : (ns ++ "." ++ name).toList = ns.toList ++ '.' :: name.toList := by
    simp [String.toList_append]
  rw [rsplitDot_eq, this, splitLastDot_append hn]
  simp [String.ofList_toList]

theorem rsplitDot_nodot (name : String) (hn : '.' ∉ name.toList) : rsplitDot name = none := by
  rw [rsplitDot_eq, splitLastDot_none_iff.mpr hn]; rfl

theorem nonEmpty_of_ne {s : String} (h : s ≠ "") : nonEmpty s = some s := by
  rw [nonEmpty_eq]; simp [Spec.namespaceOf, h]

theorem nonEmpty_empty : nonEmpty "" = none := by
  rw [nonEmpty_eq]; simp [Spec.namespaceOf]

theorem nonEmpty_ne_some_empty (s : String) : nonEmpty s ≠ some "" := by
  rw [nonEmpty_eq]; unfold Spec.namespaceOf
  split
  · simp
  · intro h; simp only [Option.some.injEq] at h; contradiction

/-! ### `registerObject` in three steps -/

/-- The name-registration step of `registerObject` (after the node slot was reserved). -/
def nameStep (object : Option RawAttrs) (enclosing : Option String) (st : PState) :
    Except SchemaErr (Option NameKey × PState) :=
  let idx := st.nodes.size
  let st := { st with nodes := st.nodes.push { type := .null, logical := none } }
  match object with
  | some o =>
    (match o.name with
      | some name =>
        let key := defKey name o.nsAttr enclosing
        if (st.names.lookup key).isSome then .error .custom
        else .ok (some key, { st with names := (key, idx) :: st.names })
      | none => .ok (none, st))
  | none => .ok (none, st)

/-- The body of `registerObject` after the name step. -/
def bodyStep (fuel : Nat) (t : RawType) (object : Option RawAttrs)
    (ofields : Option (List (String × RawSchema))) (oitems ovalues : Option RawSchema)
    (enclosing : Option String) (nameKey : Option NameKey) (st : PState) :
    Except SchemaErr (PType × PState) :=
  match t with
  | .null => .ok (.null, st) | .boolean => .ok (.boolean, st) | .int => .ok (.int, st)
  | .long => .ok (.long, st) | .float => .ok (.float, st) | .double => .ok (.double, st)
  | .bytes => .ok (.bytes, st) | .string => .ok (.string, st)
  | .array =>
    (match oitems with
      | none => .error .custom
      | some items =>
        match registerNode fuel items enclosing st with
        | .error e => .error e
        | .ok (k, st) => .ok (.array k, st))
  | .map =>
    (match ovalues with
      | none => .error .custom
      | some values =>
        match registerNode fuel values enclosing st with
        | .error e => .error e
        | .ok (k, st) => .ok (.map k, st))
  | .enum =>
    (match nameKey with
      | none => .error .custom
      | some k =>
        match object.bind (·.symbols) with
        | none => .error .custom
        | some syms => .ok (.enum k.toName syms, st))
  | .fixed =>
    (match nameKey with
      | none => .error .custom
      | some k =>
        match object.bind (·.size) with
        | none => .error .custom
        | some size => .ok (.fixed k.toName size, st))
  | .record =>
    (match nameKey with
      | none => .error .custom
      | some k =>
        match ofields with
        | none => .error .custom
        | some fields =>
          match registerFields fuel fields k.ns st with
          | .error e => .error e
          | .ok (fs, st) => .ok (.record k.toName fs, st))

def logicalStep (object : Option RawAttrs) : Except SchemaErr (Option LogicalType) :=
  match object with | some o => logicalOf o | none => .ok none

theorem registerObject_eq (fuel : Nat) (t : RawType) (object : Option RawAttrs)
    (ofields : Option (List (String × RawSchema))) (oitems ovalues : Option RawSchema)
    (enclosing : Option String) (st : PState) :
    registerObject (fuel + 1) t object ofields oitems ovalues enclosing st =
      match nameStep object enclosing st with
      | .error e => .error e
      | .ok (nameKey, st1) =>
        match bodyStep fuel t object ofields oitems ovalues enclosing nameKey st1 with
        | .error e => .error e
        | .ok (ty, st2) =>
          match logicalStep object with
          | .error e => .error e
          | .ok lt => .ok (.idx st.nodes.size,
              { st2 with nodes := st2.nodes.set! st.nodes.size { type := ty, logical := lt } }) := by
  simp only [registerObject]
  cases object with
  | none =>
    simp only [nameStep, logicalStep, bodyStep]
    cases t <;> rfl
  | some o =>
    simp only [nameStep, logicalStep]
    cases o.name with
    | none => simp only [bodyStep]; cases t <;> rfl
    | some name =>
      by_cases hd : (List.lookup (defKey name o.nsAttr enclosing) st.names).isSome = true
      · simp only [hd, if_true]
      · simp only [hd, bodyStep]; cases t <;> rfl


/-! ### monotonicity of the registration state -/

/-- `a ≤ b`: `b` is reachable from `a` by registration: nodes are only appended (existing slots
    keep their contents), unresolved references are only appended, name bindings persist. -/
structure PState.Le (a b : PState) : Prop where
  size : a.nodes.size ≤ b.nodes.size
  nodes : ∀ i, i < a.nodes.size → b.nodes[i]? = a.nodes[i]?
  unres : ∃ l, b.unresolved = a.unresolved ++ l
  names : ∀ k i, a.names.lookup k = some i → b.names.lookup k = some i

theorem PState.Le.refl (a : PState) : a.Le a :=
  ⟨Nat.le_refl _, fun _ _ => rfl, ⟨[], by simp⟩, fun _ _ h => h⟩

theorem PState.Le.trans {a b c : PState} (h1 : a.Le b) (h2 : b.Le c) : a.Le c := by
  refine ⟨Nat.le_trans h1.size h2.size, ?_, ?_, fun k i h => h2.names k i (h1.names k i h)⟩
  · intro i hi
    rw [h2.nodes i (Nat.lt_of_lt_of_le hi h1.size), h1.nodes i hi]
  · obtain ⟨l1, e1⟩ := h1.unres
    obtain ⟨l2, e2⟩ := h2.unres
    exact ⟨l1 ++ l2, by rw [e2, e1, List.append_assoc]⟩

theorem nameStep_error {object enc st e} (h : nameStep object enc st = .error e) : e = .custom := by
  unfold nameStep at h
  cases object with
  | none => simp at h
  | some o =>
    cases ho : o.name with
    | none => simp [ho] at h
    | some name =>
      simp only [ho] at h
      split at h
      · cases h; rfl
      · cases h

theorem nameStep_ok {object enc} {st : PState} {nk st1} (h : nameStep object enc st = .ok (nk, st1)) :
    st1.nodes = st.nodes.push { type := .null, logical := none } ∧
    st1.unresolved = st.unresolved ∧
    ((nk = none ∧ st1.names = st.names ∧ (object = none ∨ ∃ o, object = some o ∧ o.name = none)) ∨
     (∃ o name, object = some o ∧ o.name = some name ∧ nk = some (defKey name o.nsAttr enc) ∧
        st.names.lookup (defKey name o.nsAttr enc) = none ∧
        st1.names = (defKey name o.nsAttr enc, st.nodes.size) :: st.names)) := by
  unfold nameStep at h
  cases object with
  | none => simp at h; obtain ⟨rfl, rfl⟩ := h; simp
  | some o =>
    cases ho : o.name with
    | none => simp [ho] at h; obtain ⟨rfl, rfl⟩ := h; simp [ho]
    | some name =>
      simp only [ho] at h
      split at h
      · cases h
      · rename_i hd
        simp only [Except.ok.injEq, Prod.mk.injEq] at h
        obtain ⟨rfl, rfl⟩ := h
        refine ⟨rfl, rfl, Or.inr ⟨o, name, rfl, ho, rfl, ?_, rfl⟩⟩
        cases hl : List.lookup (defKey name o.nsAttr enc) st.names with
        | none => rfl
        | some v => rw [hl] at hd; simp at hd

theorem nameStep_le {object enc} {st : PState} {nk st1} (h : nameStep object enc st = .ok (nk, st1)) :
    st.Le st1 := by
  obtain ⟨hn, hu, hnames⟩ := nameStep_ok h
  refine ⟨by simp [hn], ?_, ⟨[], by simp [hu]⟩, ?_⟩
  · intro i hi; rw [hn, Array.getElem?_push_lt hi]; simp [hi]
  · intro k i hk
    rcases hnames with ⟨-, e, -⟩ | ⟨o, name, -, -, -, hl, e⟩
    · rw [e]; exact hk
    · rw [e, List.lookup_cons]
      by_cases hkk : k = defKey name o.nsAttr enc
      · subst hkk; rw [hl] at hk; cases hk
      · have : (k == defKey name o.nsAttr enc) = false := by simpa using hkk
        simp [this, hk]


theorem PState.Le.set {a b : PState} (h : a.Le b) (idx : Nat) (hidx : a.nodes.size ≤ idx) (v : PNode) :
    a.Le { b with nodes := b.nodes.set! idx v } := by
  refine ⟨by simpa using h.size, ?_, h.unres, h.names⟩
  intro i hi
  have : idx ≠ i := by omega
  simp only [Array.set!_eq_setIfInBounds, Array.getElem?_setIfInBounds_ne this]
  exact h.nodes i hi

theorem PState.Le.push (a : PState) (v : PNode) : a.Le { a with nodes := a.nodes.push v } := by
  refine ⟨by simp, ?_, ⟨[], by simp⟩, fun _ _ h => h⟩
  intro i hi; simp [Array.getElem?_push_lt hi, hi]

theorem bodyStep_le {fuel t object ofields oitems ovalues enc nk} {st1 : PState} {ty st2}
    (ihN : ∀ raw enc st k st', registerNode fuel raw enc st = .ok (k, st') → st.Le st')
    (ihF : ∀ l ns st fs st', registerFields fuel l ns st = .ok (fs, st') →
      st.Le st' ∧ fs.map (·.1) = l.map (·.1))
    (h : bodyStep fuel t object ofields oitems ovalues enc nk st1 = .ok (ty, st2)) : st1.Le st2 := by
  unfold bodyStep at h
  cases t <;> simp only [Except.ok.injEq, Prod.mk.injEq] at h
  any_goals (obtain ⟨-, rfl⟩ := h; exact .refl _)
  · -- array
    cases oitems with
    | none => cases h
    | some items =>
      simp only at h
      cases hr : registerNode fuel items enc st1 with
      | error e => rw [hr] at h; cases h
      | ok p =>
        obtain ⟨k, s⟩ := p
        rw [hr] at h
        simp only [Except.ok.injEq, Prod.mk.injEq] at h
        obtain ⟨-, rfl⟩ := h
        exact ihN _ _ _ _ _ hr
  · -- map
    cases ovalues with
    | none => cases h
    | some items =>
      simp only at h
      cases hr : registerNode fuel items enc st1 with
      | error e => rw [hr] at h; cases h
      | ok p =>
        obtain ⟨k, s⟩ := p
        rw [hr] at h
        simp only [Except.ok.injEq, Prod.mk.injEq] at h
        obtain ⟨-, rfl⟩ := h
        exact ihN _ _ _ _ _ hr
  · -- record
    cases nk with
    | none => cases h
    | some k =>
      cases ofields with
      | none => cases h
      | some fields =>
        simp only at h
        cases hr : registerFields fuel fields k.ns st1 with
        | error e => rw [hr] at h; cases h
        | ok p =>
          obtain ⟨fs, s⟩ := p
          rw [hr] at h
          simp only [Except.ok.injEq, Prod.mk.injEq] at h
          obtain ⟨-, rfl⟩ := h
          exact (ihF _ _ _ _ _ hr).1
  · -- enum
    cases nk with
    | none => cases h
    | some k =>
      simp only at h
      split at h
      · cases h
      · simp only [Except.ok.injEq, Prod.mk.injEq] at h; obtain ⟨-, rfl⟩ := h; exact .refl _
  · -- fixed
    cases nk with
    | none => cases h
    | some k =>
      simp only at h
      split at h
      · cases h
      · simp only [Except.ok.injEq, Prod.mk.injEq] at h; obtain ⟨-, rfl⟩ := h; exact .refl _


theorem registerObject_le_of {fuel t object ofields oitems ovalues enc} {st : PState} {k st'}
    (ihN : ∀ raw enc st k st', registerNode fuel raw enc st = .ok (k, st') → st.Le st')
    (ihF : ∀ l ns st fs st', registerFields fuel l ns st = .ok (fs, st') →
      st.Le st' ∧ fs.map (·.1) = l.map (·.1))
    (h : registerObject (fuel + 1) t object ofields oitems ovalues enc st = .ok (k, st')) :
    st.Le st' := by
  rw [registerObject_eq] at h
  cases hn : nameStep object enc st with
  | error e => rw [hn] at h; cases h
  | ok p =>
    obtain ⟨nk, st1⟩ := p
    rw [hn] at h
    simp only at h
    cases hb : bodyStep fuel t object ofields oitems ovalues enc nk st1 with
    | error e => rw [hb] at h; cases h
    | ok q =>
      obtain ⟨ty, st2⟩ := q
      rw [hb] at h
      simp only at h
      cases hl : logicalStep object with
      | error e => rw [hl] at h; cases h
      | ok lt =>
        rw [hl] at h
        simp only [Except.ok.injEq, Prod.mk.injEq] at h
        obtain ⟨-, rfl⟩ := h
        exact ((nameStep_le hn).trans (bodyStep_le ihN ihF hb)).set _ (Nat.le_refl _) _

theorem register_mono (fuel : Nat) :
    (∀ raw enc st k st', registerNode fuel raw enc st = .ok (k, st') → st.Le st') ∧
    (∀ t o of oi ov enc st k st',
      registerObject fuel t o of oi ov enc st = .ok (k, st') → st.Le st') ∧
    (∀ l enc st ks st', registerList fuel l enc st = .ok (ks, st') → st.Le st') ∧
    (∀ l ns st fs st', registerFields fuel l ns st = .ok (fs, st') →
      st.Le st' ∧ fs.map (·.1) = l.map (·.1)) := by
  induction fuel with
  | zero =>
    refine ⟨?_, ?_, ?_, ?_⟩
    · intro raw enc st k st' h; simp [registerNode] at h
    · intro t o of oi ov enc st k st' h; simp [registerObject] at h
    · intro l enc st ks st' h
      cases l with
      | nil => simp [registerList] at h; obtain ⟨-, rfl⟩ := h; exact .refl _
      | cons a l => simp [registerList] at h
    · intro l ns st fs st' h
      cases l with
      | nil => simp [registerFields] at h; obtain ⟨rfl, rfl⟩ := h; exact ⟨.refl _, rfl⟩
      | cons a l => simp [registerFields] at h
  | succ fuel ih =>
    obtain ⟨ihN, ihO, ihL, ihF⟩ := ih
    refine ⟨?_, ?_, ?_, ?_⟩
    · intro raw enc st k st' h
      cases raw with
      | ref r =>
        simp only [registerNode] at h
        split at h
        · simp only [Except.ok.injEq, Prod.mk.injEq] at h; obtain ⟨-, rfl⟩ := h; exact .refl _
        · simp only [Except.ok.injEq, Prod.mk.injEq] at h; obtain ⟨-, rfl⟩ := h
          exact ⟨Nat.le_refl _, fun _ _ => rfl, ⟨_, rfl⟩, fun _ _ h => h⟩
      | type t => simp only [registerNode] at h; exact ihO _ _ _ _ _ _ _ _ _ h
      | object a f i v => simp only [registerNode] at h; exact ihO _ _ _ _ _ _ _ _ _ h
      | union bs =>
        simp only [registerNode] at h
        split at h
        · cases h
        · rename_i keys st2 hl
          simp only [Except.ok.injEq, Prod.mk.injEq] at h; obtain ⟨-, rfl⟩ := h
          exact ((PState.Le.push st _).trans (ihL _ _ _ _ _ hl)).set _ (Nat.le_refl _) _
    · intro t o of oi ov enc st k st' h
      exact registerObject_le_of ihN ihF h
    · intro l enc st ks st' h
      cases l with
      | nil => simp [registerList] at h; obtain ⟨-, rfl⟩ := h; exact .refl _
      | cons a l =>
        simp only [registerList] at h
        split at h
        · cases h
        · rename_i k1 st1 h1
          split at h
          · cases h
          · rename_i ks2 st2 h2
            simp only [Except.ok.injEq, Prod.mk.injEq] at h; obtain ⟨-, rfl⟩ := h
            exact (ihN _ _ _ _ _ h1).trans (ihL _ _ _ _ _ h2)
    · intro l ns st fs st' h
      cases l with
      | nil => simp [registerFields] at h; obtain ⟨rfl, rfl⟩ := h; exact ⟨.refl _, rfl⟩
      | cons a l =>
        obtain ⟨name, r⟩ := a
        simp only [registerFields] at h
        split at h
        · cases h
        · rename_i k1 st1 h1
          split at h
          · cases h
          · rename_i fs2 st2 h2
            simp only [Except.ok.injEq, Prod.mk.injEq] at h; obtain ⟨rfl, rfl⟩ := h
            obtain ⟨hle, hm⟩ := ihF _ _ _ _ _ h2
            exact ⟨(ihN _ _ _ _ _ h1).trans hle, by simp [hm]⟩


/-! ### `List.mapM` in `Option` -/

theorem mapM_option_none {α β} (f : α → Option β) (l : List α) (k : α) (hk : k ∈ l) (h : f k = none) :
    l.mapM f = none := by
  induction l with
  | nil => cases hk
  | cons a l ih =>
    rw [List.mapM_cons]
    rcases List.mem_cons.mp hk with rfl | hk
    · simp [h]
    · simp [ih hk]

theorem mapM_option_some {α β} (f : α → Option β) (l : List α) (r : List β) (h : l.mapM f = some r) :
    ∀ j : Nat, r[j]? = l[j]?.bind f := by
  induction l generalizing r with
  | nil => simp at h; subst h; simp
  | cons a l ih =>
    rw [List.mapM_cons] at h
    cases ha : f a with
    | none => simp [ha] at h
    | some b =>
      cases hl : l.mapM f with
      | none => simp [ha, hl] at h
      | some r' =>
        simp [ha, hl] at h
        subst h
        intro j
        cases j with
        | zero => simp [ha]
        | succ j => simpa using ih r' hl j



theorem registerObject_ok {fuel t object ofields oitems ovalues enc} {st : PState} {k st'}
    (h : registerObject (fuel + 1) t object ofields oitems ovalues enc st = .ok (k, st')) :
    ∃ nk st1 ty st2 lt,
      nameStep object enc st = .ok (nk, st1) ∧
      bodyStep fuel t object ofields oitems ovalues enc nk st1 = .ok (ty, st2) ∧
      logicalStep object = .ok lt ∧
      k = .idx st.nodes.size ∧
      st' = { st2 with nodes := st2.nodes.set! st.nodes.size { type := ty, logical := lt } } ∧
      st'.nodes[st.nodes.size]? = some { type := ty, logical := lt } := by
  rw [registerObject_eq] at h
  cases hn : nameStep object enc st with
  | error e => rw [hn] at h; cases h
  | ok p =>
    obtain ⟨nk, st1⟩ := p
    rw [hn] at h
    simp only at h
    cases hb : bodyStep fuel t object ofields oitems ovalues enc nk st1 with
    | error e => rw [hb] at h; cases h
    | ok q =>
      obtain ⟨ty, st2⟩ := q
      rw [hb] at h
      simp only at h
      cases hl : logicalStep object with
      | error e => rw [hl] at h; cases h
      | ok lt =>
        rw [hl] at h
        simp only [Except.ok.injEq, Prod.mk.injEq] at h
        obtain ⟨rfl, rfl⟩ := h
        refine ⟨nk, st1, ty, st2, lt, rfl, hb, rfl, rfl, rfl, ?_⟩
        have h1 : st1.nodes.size = st.nodes.size + 1 := by rw [(nameStep_ok hn).1]; simp
        have h2 := (bodyStep_le (register_mono fuel).1 (register_mono fuel).2.2.2 hb).size
        have : st.nodes.size < st2.nodes.size := by omega
        simp [this]


/-! ### states INSIDE an unfinished registration

`PState.Le` relates the states before and after a COMPLETE call of `registerNode` (`register_mono`).
The state `a` in which a NESTED node was registered (a reference in a record field, the items of an
array, …) and the FINAL state `b` of the document are NOT related by `Le`: the slot of every node
that encloses the nested one is a placeholder in `a` and is overwritten when the enclosing node is
completed (`NonVacuityD.le_to_final_state_fails`).  Two weaker relations do reach the final state:

* `a.LeNU b` — the name table and the list of unresolved references only grow (what the theorems
  about references need);
* `a.LeExcept op b` — as `Le`, except that the slots listed in `op` (the placeholders of the nodes
  whose registration is in progress in `a`) may have been overwritten.  `Le` is `LeExcept []`. -/

/-- Bindings persist, pending references are appended; nothing is said about the node vector. -/
structure PState.LeNU (a b : PState) : Prop where
  unres : ∃ l, b.unresolved = a.unresolved ++ l
  names : ∀ k i, a.names.lookup k = some i → b.names.lookup k = some i

/-- `Le` except on the slots `op`. -/
structure PState.LeExcept (op : List Nat) (a b : PState) : Prop where
  size : a.nodes.size ≤ b.nodes.size
  nodes : ∀ i, i < a.nodes.size → i ∉ op → b.nodes[i]? = a.nodes[i]?
  unres : ∃ l, b.unresolved = a.unresolved ++ l
  names : ∀ k i, a.names.lookup k = some i → b.names.lookup k = some i

theorem PState.LeNU.refl (a : PState) : a.LeNU a := ⟨⟨[], by simp⟩, fun _ _ h => h⟩

theorem PState.LeNU.trans {a b c : PState} (h1 : a.LeNU b) (h2 : b.LeNU c) : a.LeNU c := by
  refine ⟨?_, fun k i h => h2.names k i (h1.names k i h)⟩
  obtain ⟨l1, e1⟩ := h1.unres
  obtain ⟨l2, e2⟩ := h2.unres
  exact ⟨l1 ++ l2, by rw [e2, e1, List.append_assoc]⟩

/-- overwriting (or appending) nodes does not disturb `LeNU` -/
theorem PState.LeNU.nodes {a b : PState} (h : a.LeNU b) (ns : Array PNode) :
    a.LeNU { b with nodes := ns } := ⟨h.unres, h.names⟩

theorem PState.Le.toLeExcept {a b : PState} (h : a.Le b) : a.LeExcept [] b :=
  ⟨h.size, fun i hi _ => h.nodes i hi, h.unres, h.names⟩

theorem PState.LeExcept.toLe {a b : PState} (h : a.LeExcept [] b) : a.Le b :=
  ⟨h.size, fun i hi => h.nodes i hi (by simp), h.unres, h.names⟩

theorem PState.le_iff_leExcept_nil {a b : PState} : a.Le b ↔ a.LeExcept [] b :=
  ⟨PState.Le.toLeExcept, PState.LeExcept.toLe⟩

theorem PState.LeExcept.toLeNU {op : List Nat} {a b : PState} (h : a.LeExcept op b) : a.LeNU b :=
  ⟨h.unres, h.names⟩

theorem PState.Le.toLeNU {a b : PState} (h : a.Le b) : a.LeNU b := ⟨h.unres, h.names⟩

theorem PState.LeExcept.mono {op op' : List Nat} {a b : PState} (h : a.LeExcept op b)
    (hsub : ∀ i, i ∈ op → i ∈ op') : a.LeExcept op' b :=
  ⟨h.size, fun i hi hn => h.nodes i hi (fun hm => hn (hsub i hm)), h.unres, h.names⟩

theorem PState.LeExcept.trans {o1 o2 : List Nat} {a b c : PState} (h1 : a.LeExcept o1 b)
    (h2 : b.LeExcept o2 c) : a.LeExcept (o1 ++ o2) c := by
  refine ⟨Nat.le_trans h1.size h2.size, ?_, (h1.toLeNU.trans h2.toLeNU).unres,
    fun k i h => h2.names k i (h1.names k i h)⟩
  intro i hi hn
  simp only [List.mem_append, not_or] at hn
  rw [h2.nodes i (Nat.lt_of_lt_of_le hi h1.size) hn.2, h1.nodes i hi hn.1]

/-- completing an enclosing node: its slot `idx` joins the exceptions -/
theorem PState.LeExcept.set {op : List Nat} {a b : PState} (h : a.LeExcept op b) (idx : Nat)
    (v : PNode) : a.LeExcept (idx :: op) { b with nodes := b.nodes.set! idx v } := by
  refine ⟨by simpa using h.size, ?_, h.unres, h.names⟩
  intro i hi hn
  simp only [List.mem_cons, not_or] at hn
  have : idx ≠ i := fun e => hn.1 e.symm
  simp only [Array.set!_eq_setIfInBounds, Array.getElem?_setIfInBounds_ne this]
  exact h.nodes i hi hn.2

/-- A state `sm` reached while the BODY of a named / complex node was being registered (i.e.
    related to the state `st2` at the end of the body) is related to the state `st'` in which the
    node is completed, except on the node's own slot `st.nodes.size`. -/
theorem registerObject_inner {fuel t object ofields oitems ovalues enc} {st : PState} {k st'}
    (h : registerObject (fuel + 1) t object ofields oitems ovalues enc st = .ok (k, st')) :
    ∃ nk st1 ty st2,
      nameStep object enc st = .ok (nk, st1) ∧
      bodyStep fuel t object ofields oitems ovalues enc nk st1 = .ok (ty, st2) ∧
      ∀ (op : List Nat) (sm : PState), sm.LeExcept op st2 →
        sm.LeExcept (st.nodes.size :: op) st' := by
  obtain ⟨nk, st1, ty, st2, lt, hn, hb, -, -, rfl, -⟩ := registerObject_ok h
  exact ⟨nk, st1, ty, st2, hn, hb, fun op sm hsm => hsm.set _ _⟩

/-- The same for a union: a state reached while the branches were registered. -/
theorem registerUnion_inner {fuel branches enc} {st : PState} {k st'}
    (h : registerNode (fuel + 1) (.union branches) enc st = .ok (k, st')) :
    ∃ keys st2,
      registerList fuel branches enc
        { st with nodes := st.nodes.push { type := .null, logical := none } } = .ok (keys, st2) ∧
      ∀ (op : List Nat) (sm : PState), sm.LeExcept op st2 →
        sm.LeExcept (st.nodes.size :: op) st' := by
  simp only [registerNode] at h
  split at h
  · cases h
  · rename_i keys st2 hl
    simp only [Except.ok.injEq, Prod.mk.injEq] at h
    obtain ⟨-, rfl⟩ := h
    exact ⟨keys, st2, hl, fun op sm hsm => hsm.set _ _⟩

/-- Between ANY state inside a registration and its end only `LeNU` is needed to speak about
    references; it follows from every `LeExcept`, hence from every chain of the steps above and
    of `register_mono`. -/
theorem PState.LeNU.of_chain {op : List Nat} {a b c : PState} (h1 : a.LeExcept op b) (h2 : b.LeNU c) :
    a.LeNU c := h1.toLeNU.trans h2


/-! ### late resolution -/

/-- What late resolution makes of a child key, given the final state. -/
def resolveKey (st : PState) : PKey → Nat
  | .idx i => i
  | .pending j => ((st.unresolved[j]?).bind fun k => st.names.lookup k).getD 0

def resolveType (fix : PKey → Nat) : PType → RegularType
  | .null => .null | .boolean => .boolean | .int => .int | .long => .long
  | .float => .float | .double => .double | .bytes => .bytes | .string => .string
  | .array k => .array (fix k)
  | .map k => .map (fix k)
  | .union ks => .union (ks.map fix)
  | .record nm fs => .record nm (fs.map fun (f, k) => (f, fix k))
  | .enum nm syms => .enum nm syms
  | .fixed nm size => .fixed nm size

theorem mapM_option_isSome {α β} (f : α → Option β) (l : List α)
    (h : ∀ k ∈ l, (f k).isSome) : ∃ r, l.mapM f = some r := by
  induction l with
  | nil => exact ⟨[], by simp⟩
  | cons a l ih =>
    obtain ⟨r, hr⟩ := ih fun k hk => h k (List.mem_cons_of_mem _ hk)
    obtain ⟨b, hb⟩ := Option.isSome_iff_exists.mp (h a List.mem_cons_self)
    exact ⟨b :: r, by rw [List.mapM_cons]; simp [hb, hr]⟩

theorem resolveKeys_ok {st : PState} {S : SchemaMut} (h : resolveKeys st = .ok S) :
    S = st.nodes.map fun n =>
      { logical := n.logical, type := resolveType (resolveKey st) n.type } := by
  unfold resolveKeys at h
  cases hm : st.unresolved.mapM (fun k => st.names.lookup k) with
  | none => rw [hm] at h; cases h
  | some resolved =>
    rw [hm] at h
    simp only [Except.ok.injEq] at h
    subst h
    have hfix : ∀ k : PKey, (match k with | .idx i => i | .pending j => resolved[j]?.getD 0) =
        resolveKey st k := by
      intro k
      cases k with
      | idx i => rfl
      | pending j => simp only [resolveKey, mapM_option_some _ _ _ hm j]
    congr 1
    funext n
    cases n with
    | mk ty lg =>
      simp only [RawNode.mk.injEq, and_true]
      cases ty <;> simp only [resolveType]
      · exact congrArg RegularType.array (hfix _)
      · exact congrArg RegularType.map (hfix _)
      · exact congrArg RegularType.union (List.map_congr_left fun k _ => hfix k)
      · exact congrArg (RegularType.record _)
          (List.map_congr_left fun p _ => congrArg (Prod.mk p.1) (hfix p.2))



/-! ### cycle check -/

/-- record → record edge through a field -/
def recEdge (S : SchemaMut) (i j : Nat) : Prop :=
  isRecord S i = true ∧ isRecord S j = true ∧ j ∈ recordFieldKeys S i

/-- `l` lists records in an order where every record-successor of an element comes later in the
    list (a reverse post-order): the invariant of the `checked` list. -/
def TopoSorted (S : SchemaMut) : List Nat → Prop
  | [] => True
  | c :: l => (∀ j, recEdge S c j → j ∈ l) ∧ TopoSorted S l

theorem TopoSorted.closed {S : SchemaMut} {l : List Nat} (h : TopoSorted S l) {i j : Nat}
    (hi : i ∈ l) (e : recEdge S i j) : j ∈ l := by
  induction l with
  | nil => cases hi
  | cons c l ih =>
    obtain ⟨h1, h2⟩ := h
    rcases List.mem_cons.mp hi with rfl | hi
    · exact List.mem_cons_of_mem _ (h1 j e)
    · exact List.mem_cons_of_mem _ (ih h2 hi)

theorem TopoSorted.closed_trans {S : SchemaMut} {l : List Nat} (h : TopoSorted S l) {i j : Nat}
    (hi : i ∈ l) (p : Relation.TransGen (recEdge S) i j) : j ∈ l := by
  induction p with
  | single e => exact h.closed hi e
  | tail _ e ih => exact h.closed ih e

theorem transGen_head {α} {r : α → α → Prop} {a c : α} (p : Relation.TransGen r a c) :
    ∃ b, r a b ∧ (b = c ∨ Relation.TransGen r b c) := by
  induction p with
  | single e => exact ⟨_, e, Or.inl rfl⟩
  | tail _ e ih =>
    obtain ⟨b, hab, hb⟩ := ih
    refine ⟨b, hab, Or.inr ?_⟩
    rcases hb with rfl | hb
    · exact .single e
    · exact .tail hb e

theorem TopoSorted.acyclic {S : SchemaMut} {l : List Nat} (h : TopoSorted S l) {i : Nat}
    (hi : i ∈ l) : ¬ Relation.TransGen (recEdge S) i i := by
  induction l with
  | nil => cases hi
  | cons c l ih =>
    intro p
    obtain ⟨h1, h2⟩ := h
    by_cases hil : i ∈ l
    · exact ih h2 hil p
    · rcases List.mem_cons.mp hi with rfl | hi'
      · obtain ⟨b, hab, hb⟩ := transGen_head p
        have hbl := h1 b hab
        rcases hb with rfl | hb
        · exact hil hbl
        · exact hil (h2.closed_trans hbl hb)
      · exact hil hi'

theorem cycle_sound (S : SchemaMut) (fuel : Nat) :
    (∀ idx cs cs', cycleInner S fuel idx cs = .ok cs' → TopoSorted S cs.checked →
      TopoSorted S cs'.checked ∧ (∀ x ∈ cs.checked, x ∈ cs'.checked) ∧ idx ∈ cs'.checked) ∧
    (∀ ks cs cs', cycleFields S fuel ks cs = .ok cs' → TopoSorted S cs.checked →
      TopoSorted S cs'.checked ∧ (∀ x ∈ cs.checked, x ∈ cs'.checked) ∧
      ∀ k ∈ ks, isRecord S k = true → k ∈ cs'.checked) := by
  induction fuel with
  | zero =>
    refine ⟨?_, ?_⟩
    · intro idx cs cs' h; simp [cycleInner] at h
    · intro ks cs cs' h hs
      cases ks with
      | nil => simp [cycleFields] at h; subst h; exact ⟨hs, fun _ h => h, by simp⟩
      | cons k ks => simp [cycleFields] at h
  | succ fuel ih =>
    obtain ⟨ihI, ihF⟩ := ih
    refine ⟨?_, ?_⟩
    · intro idx cs cs' h hs
      simp only [cycleInner] at h
      split at h
      · cases h
      · rename_i cs1 h1
        simp only [Except.ok.injEq] at h
        subst h
        obtain ⟨s1, sub1, all1⟩ := ihF _ _ _ h1 hs
        refine ⟨⟨?_, s1⟩, fun x hx => List.mem_cons_of_mem _ (sub1 x hx), List.mem_cons_self⟩
        intro j e
        exact all1 j e.2.2 e.2.1
    · intro ks cs cs' h hs
      cases ks with
      | nil => simp [cycleFields] at h; subst h; exact ⟨hs, fun _ h => h, by simp⟩
      | cons k ks =>
        simp only [cycleFields] at h
        split at h
        · rename_i hrec
          split at h
          · cases h
          · split at h
            · rename_i hchk
              obtain ⟨s1, sub1, all1⟩ := ihF _ _ _ h hs
              refine ⟨s1, sub1, ?_⟩
              intro x hx hr
              rcases List.mem_cons.mp hx with rfl | hx
              · exact sub1 _ (by simpa using hchk)
              · exact all1 x hx hr
            · split at h
              · cases h
              · rename_i cs1 h1
                obtain ⟨s1, sub1, in1⟩ := ihI _ _ _ h1 hs
                obtain ⟨s2, sub2, all2⟩ := ihF _ _ _ h s1
                refine ⟨s2, fun x hx => sub2 x (sub1 x hx), ?_⟩
                intro x hx hr
                rcases List.mem_cons.mp hx with rfl | hx
                · exact sub2 _ in1
                · exact all2 x hx hr
        · rename_i hrec
          obtain ⟨s1, sub1, all1⟩ := ihF _ _ _ h hs
          refine ⟨s1, sub1, ?_⟩
          intro x hx hr
          rcases List.mem_cons.mp hx with rfl | hx
          · exact absurd hr hrec
          · exact all1 x hx hr

theorem checkForCycles_go_sound (S : SchemaMut) (n i : Nat) (cs : CycleState)
    (h : checkForCycles.go S n i cs = .ok ()) (hs : TopoSorted S cs.checked) :
    ∃ L, TopoSorted S L ∧ (∀ x ∈ cs.checked, x ∈ L) ∧
      ∀ x, i ≤ x → x < i + n → isRecord S x = true → x ∈ L := by
  induction n generalizing i cs with
  | zero => exact ⟨cs.checked, hs, fun _ h => h, fun x h1 h2 => by omega⟩
  | succ n ih =>
    simp only [checkForCycles.go] at h
    split at h
    · rename_i hc
      split at h
      · cases h
      · rename_i cs1 h1
        obtain ⟨s1, sub1, in1⟩ := (cycle_sound S _).1 _ _ _ h1 hs
        obtain ⟨L, sL, subL, allL⟩ := ih (i + 1) cs1 h s1
        refine ⟨L, sL, fun x hx => subL x (sub1 x hx), ?_⟩
        intro x hx1 hx2 hr
        by_cases hxi : x = i
        · subst hxi; exact subL _ in1
        · exact allL x (by omega) (by omega) hr
    · rename_i hc
      obtain ⟨L, sL, subL, allL⟩ := ih (i + 1) cs h hs
      refine ⟨L, sL, subL, ?_⟩
      intro x hx1 hx2 hr
      by_cases hxi : x = i
      · subst hxi
        have : cs.checked.contains x = true := by
          cases hcc : cs.checked.contains x with
          | true => rfl
          | false => exact absurd ⟨hr, by rw [hcc]; simp⟩ hc
        exact subL _ (by simpa using this)
      · exact allL x (by omega) (by omega) hr

theorem isRecord_lt {S : SchemaMut} {i : Nat} (h : isRecord S i = true) : i < S.size := by
  unfold isRecord at h
  cases Nat.lt_or_ge i S.size with
  | inl h' => exact h'
  | inr h' => rw [Array.getElem?_eq_none h'] at h; simp at h

theorem checkForCycles_sound (S : SchemaMut) (h : checkForCycles S = .ok ()) :
    ∃ L, TopoSorted S L ∧ ∀ x, isRecord S x = true → x ∈ L := by
  unfold checkForCycles at h
  obtain ⟨L, sL, -, allL⟩ := checkForCycles_go_sound S S.size 0 {} h trivial
  exact ⟨L, sL, fun x hr => allL x (Nat.zero_le _) (by simpa using isRecord_lt hr) hr⟩



theorem cycle_errors (S : SchemaMut) (fuel : Nat) :
    (∀ idx cs e, cycleInner S fuel idx cs = .error e → e = .cycle ∨ e = .panic) ∧
    (∀ ks cs e, cycleFields S fuel ks cs = .error e → e = .cycle ∨ e = .panic) := by
  induction fuel with
  | zero =>
    refine ⟨?_, ?_⟩
    · intro idx cs e h; simp [cycleInner] at h; exact Or.inr h.symm
    · intro ks cs e h
      cases ks with
      | nil => simp [cycleFields] at h
      | cons k ks => simp [cycleFields] at h; exact Or.inr h.symm
  | succ fuel ih =>
    obtain ⟨ihI, ihF⟩ := ih
    refine ⟨?_, ?_⟩
    · intro idx cs e h
      simp only [cycleInner] at h
      split at h
      · rename_i e' h1; cases h; exact ihF _ _ _ h1
      · cases h
    · intro ks cs e h
      cases ks with
      | nil => simp [cycleFields] at h
      | cons k ks =>
        simp only [cycleFields] at h
        split at h
        · split at h
          · cases h; exact Or.inl rfl
          · split at h
            · exact ihF _ _ _ h
            · split at h
              · rename_i e' h1; cases h; exact ihI _ _ _ h1
              · exact ihF _ _ _ h
        · exact ihF _ _ _ h

theorem checkForCycles_go_error (S : SchemaMut) (n i : Nat) (cs : CycleState) (e : SchemaErr)
    (h : checkForCycles.go S n i cs = .error e) : e = .cycle ∨ e = .panic := by
  induction n generalizing i cs with
  | zero => simp [checkForCycles.go] at h
  | succ n ih =>
    simp only [checkForCycles.go] at h
    split at h
    · split at h
      · rename_i e' h1; cases h; exact (cycle_errors S _).1 _ _ _ h1
      · exact ih _ _ h
    · exact ih _ _ h

theorem checkForCycles_error (S : SchemaMut) {e : SchemaErr} (h : checkForCycles S = .error e) :
    e = .cycle ∨ e = .panic :=
  checkForCycles_go_error S _ _ _ e h



/-! ### the `cycle` error is never spurious -/

/-- The `visited` list is a path: each element is a field type of the next one (the list is in
    reverse visiting order). -/
def VisChain (S : SchemaMut) : List Nat → Prop
  | [] => True
  | [_] => True
  | a :: b :: l => recEdge S b a ∧ VisChain S (b :: l)

theorem VisChain.reach {S : SchemaMut} {idx : Nat} {vs : List Nat} (h : VisChain S (idx :: vs))
    {k : Nat} (hk : k ∈ idx :: vs) : k = idx ∨ Relation.TransGen (recEdge S) k idx := by
  induction vs generalizing idx with
  | nil => simp at hk; exact Or.inl hk
  | cons b l ih =>
    rcases List.mem_cons.mp hk with rfl | hk
    · exact Or.inl rfl
    · obtain ⟨e, hc⟩ := h
      rcases ih hc hk with rfl | p
      · exact Or.inr (.single e)
      · exact Or.inr (.tail p e)

theorem cycle_complete (S : SchemaMut) (fuel : Nat) :
    (∀ idx cs, isRecord S idx = true → VisChain S (idx :: cs.visited) →
      (cycleInner S fuel idx cs = .error .cycle → ∃ i, Relation.TransGen (recEdge S) i i) ∧
      (∀ cs', cycleInner S fuel idx cs = .ok cs' → cs'.visited = cs.visited)) ∧
    (∀ ks cs idx tl, cs.visited = idx :: tl → isRecord S idx = true → VisChain S cs.visited →
      (∀ k ∈ ks, k ∈ recordFieldKeys S idx) →
      (cycleFields S fuel ks cs = .error .cycle → ∃ i, Relation.TransGen (recEdge S) i i) ∧
      (∀ cs', cycleFields S fuel ks cs = .ok cs' → cs'.visited = cs.visited)) := by
  induction fuel with
  | zero =>
    refine ⟨?_, ?_⟩
    · intro idx cs _ _
      exact ⟨fun h => by simp [cycleInner] at h, fun cs' h => by simp [cycleInner] at h⟩
    · intro ks cs idx tl _ _ _ _
      cases ks with
      | nil =>
        exact ⟨fun h => by simp [cycleFields] at h,
          fun cs' h => by simp [cycleFields] at h; rw [h]⟩
      | cons k ks =>
        exact ⟨fun h => by simp [cycleFields] at h, fun cs' h => by simp [cycleFields] at h⟩
  | succ fuel ih =>
    obtain ⟨ihI, ihF⟩ := ih
    refine ⟨?_, ?_⟩
    · intro idx cs hrec hch
      obtain ⟨hE, hO⟩ := ihF (recordFieldKeys S idx) { cs with visited := idx :: cs.visited }
        idx cs.visited rfl hrec hch (fun _ h => h)
      refine ⟨?_, ?_⟩
      · intro h
        simp only [cycleInner] at h
        split at h
        · rename_i e h1
          simp only [Except.error.injEq] at h
          subst h
          exact hE h1
        · cases h
      · intro cs' h
        simp only [cycleInner] at h
        split at h
        · cases h
        · rename_i cs1 h1
          simp only [Except.ok.injEq] at h
          subst h
          simp [hO cs1 h1]
    · intro ks cs idx tl hv hrec hch hks
      cases ks with
      | nil =>
        exact ⟨fun h => by simp [cycleFields] at h,
          fun cs' h => by simp [cycleFields] at h; rw [h]⟩
      | cons k ks =>
        have hks' : ∀ x ∈ ks, x ∈ recordFieldKeys S idx :=
          fun x hx => hks x (List.mem_cons_of_mem _ hx)
        have hrest := ihF ks cs idx tl hv hrec hch hks'
        simp only [cycleFields]
        by_cases hk : isRecord S k = true
        · simp only [hk, if_true]
          have hedge : recEdge S idx k := ⟨hrec, hk, hks k List.mem_cons_self⟩
          by_cases hvis : cs.visited.contains k = true
          · simp only [hvis, if_true]
            refine ⟨fun _ => ?_, fun cs' h => by cases h⟩
            have hmem : k ∈ idx :: tl := by rw [← hv]; simpa using hvis
            rw [hv] at hch
            rcases hch.reach hmem with rfl | p
            · exact ⟨k, .single hedge⟩
            · exact ⟨idx, .trans (.single hedge) p⟩
          · simp only [hvis, Bool.false_eq_true, if_false]
            by_cases hchk : cs.checked.contains k = true
            · simp only [hchk, if_true]; exact hrest
            · simp only [hchk, Bool.false_eq_true, if_false]
              have hch' : VisChain S (k :: cs.visited) := by
                rw [hv]; exact ⟨hedge, by rw [← hv]; exact hch⟩
              obtain ⟨hE, hO⟩ := ihI k cs hk hch'
              cases h1 : cycleInner S fuel k cs with
              | error e =>
                refine ⟨fun h => ?_, fun cs' h => by cases h⟩
                simp only [Except.error.injEq] at h
                subst h
                exact hE h1
              | ok cs1 =>
                have hv1 : cs1.visited = cs.visited := hO cs1 h1
                have := ihF ks cs1 idx tl (by rw [hv1, hv]) hrec (by rw [hv1]; exact hch) hks'
                simp only [hv1] at this
                exact this
        · simp only [hk, Bool.false_eq_true, if_false]; exact hrest

theorem checkForCycles_go_complete (S : SchemaMut) (n i : Nat) (cs : CycleState)
    (hv : cs.visited = [])
    (h : checkForCycles.go S n i cs = .error .cycle) :
    ∃ i, Relation.TransGen (recEdge S) i i := by
  induction n generalizing i cs with
  | zero => simp [checkForCycles.go] at h
  | succ n ih =>
    simp only [checkForCycles.go] at h
    split at h
    · rename_i hc
      obtain ⟨hE, hO⟩ := (cycle_complete S _).1 i cs hc.1 (by rw [hv]; trivial)
      split at h
      · rename_i e h1
        simp only [Except.error.injEq] at h
        subst h
        exact hE h1
      · rename_i cs1 h1
        exact ih _ cs1 (by rw [hO cs1 h1, hv]) h
    · exact ih _ cs hv h

theorem checkForCycles_complete (S : SchemaMut) (h : checkForCycles S = .error .cycle) :
    ∃ i, Relation.TransGen (recEdge S) i i :=
  checkForCycles_go_complete S _ _ _ rfl h



/-! ### the fuel of the cycle check suffices -/

/-- records not yet seen (neither on the path nor explored) -/
def unexp (S : SchemaMut) (cs : CycleState) : Nat :=
  ((List.range S.size).filter fun r =>
    isRecord S r && !cs.visited.contains r && !cs.checked.contains r).length

theorem filter_length_le_of_imp {α} (p q : α → Bool) (l : List α) (h : ∀ x ∈ l, p x = true → q x = true) :
    (l.filter p).length ≤ (l.filter q).length := by
  induction l with
  | nil => simp
  | cons a l ih =>
    have ih' := ih fun x hx => h x (List.mem_cons_of_mem _ hx)
    simp only [List.filter_cons]
    by_cases hp : p a = true
    · have hq := h a List.mem_cons_self hp
      simp [hp, hq, ih']
    · by_cases hq : q a = true
      · simp [hp, hq]; omega
      · simp [hp, hq, ih']

theorem filter_length_lt_of_imp {α} (p q : α → Bool) (l : List α) (h : ∀ x ∈ l, p x = true → q x = true)
    (x : α) (hx : x ∈ l) (hqx : q x = true) (hpx : p x = false) :
    (l.filter p).length < (l.filter q).length := by
  induction l with
  | nil => cases hx
  | cons a l ih =>
    have hle := filter_length_le_of_imp p q l fun y hy => h y (List.mem_cons_of_mem _ hy)
    simp only [List.filter_cons]
    rcases List.mem_cons.mp hx with rfl | hx'
    · simp [hpx, hqx]; omega
    · have ih' := ih (fun y hy => h y (List.mem_cons_of_mem _ hy)) hx'
      by_cases hp : p a = true
      · have hq := h a List.mem_cons_self hp
        simp [hp, hq, ih']
      · by_cases hq : q a = true
        · simp [hp, hq]; omega
        · simp [hp, hq, ih']

theorem unexp_le_size (S : SchemaMut) (cs : CycleState) : unexp S cs ≤ S.size := by
  unfold unexp
  have := List.length_filter_le (fun r => isRecord S r && !cs.visited.contains r && !cs.checked.contains r)
    (List.range S.size)
  simpa using this

/-- pushing an unseen record on the path strictly decreases the measure -/
theorem unexp_push (S : SchemaMut) (cs : CycleState) (idx : Nat) (hrec : isRecord S idx = true)
    (hv : cs.visited.contains idx = false) (hc : cs.checked.contains idx = false) :
    unexp S { cs with visited := idx :: cs.visited } + 1 ≤ unexp S cs := by
  unfold unexp
  apply filter_length_lt_of_imp _ _ _ _ idx
  · simp [isRecord_lt hrec]
  · simp only [hrec, hv, hc]; rfl
  · simp
  · intro x _ hx
    simp only [Bool.and_eq_true, Bool.not_eq_true', List.contains_cons, Bool.or_eq_false_iff] at hx ⊢
    exact ⟨⟨hx.1.1, hx.1.2.2⟩, hx.2⟩

theorem unexp_mono (S : SchemaMut) (cs cs' : CycleState) (hv : cs'.visited = cs.visited)
    (hc : ∀ x ∈ cs.checked, x ∈ cs'.checked) : unexp S cs' ≤ unexp S cs := by
  unfold unexp
  apply filter_length_le_of_imp
  intro x _ hx
  simp only [Bool.and_eq_true, Bool.not_eq_true', hv] at hx ⊢
  refine ⟨hx.1, ?_⟩
  cases h : cs.checked.contains x with
  | false => rfl
  | true =>
    have := hc x (by simpa using h)
    have : cs'.checked.contains x = true := by simpa using this
    rw [this] at hx; exact absurd hx.2 (by simp)

/-- `visited` is restored and `checked` only grows (unconditionally). -/
theorem cycle_frame (S : SchemaMut) (fuel : Nat) :
    (∀ idx cs cs', cycleInner S fuel idx cs = .ok cs' →
      cs'.visited = cs.visited ∧ ∀ x ∈ cs.checked, x ∈ cs'.checked) ∧
    (∀ ks cs cs', cycleFields S fuel ks cs = .ok cs' →
      cs'.visited = cs.visited ∧ ∀ x ∈ cs.checked, x ∈ cs'.checked) := by
  induction fuel with
  | zero =>
    refine ⟨?_, ?_⟩
    · intro idx cs cs' h; simp [cycleInner] at h
    · intro ks cs cs' h
      cases ks with
      | nil => simp [cycleFields] at h; subst h; exact ⟨rfl, fun _ h => h⟩
      | cons k ks => simp [cycleFields] at h
  | succ fuel ih =>
    obtain ⟨ihI, ihF⟩ := ih
    refine ⟨?_, ?_⟩
    · intro idx cs cs' h
      simp only [cycleInner] at h
      split at h
      · cases h
      · rename_i cs1 h1
        simp only [Except.ok.injEq] at h
        subst h
        obtain ⟨hv, hc⟩ := ihF _ _ _ h1
        exact ⟨by simp [hv], fun x hx => List.mem_cons_of_mem _ (hc x hx)⟩
    · intro ks cs cs' h
      cases ks with
      | nil => simp [cycleFields] at h; subst h; exact ⟨rfl, fun _ h => h⟩
      | cons k ks =>
        simp only [cycleFields] at h
        split at h
        · split at h
          · cases h
          · split at h
            · exact ihF _ _ _ h
            · split at h
              · cases h
              · rename_i cs1 h1
                obtain ⟨hv1, hc1⟩ := ihI _ _ _ h1
                obtain ⟨hv2, hc2⟩ := ihF _ _ _ h
                exact ⟨by rw [hv2, hv1], fun x hx => hc2 x (hc1 x hx)⟩
        · exact ihF _ _ _ h

theorem le_foldl_max (l : List Nat) (a : Nat) : a ≤ l.foldl max a ∧ ∀ x ∈ l, x ≤ l.foldl max a := by
  induction l generalizing a with
  | nil => simp
  | cons b l ih =>
    simp only [List.foldl_cons]
    obtain ⟨h1, h2⟩ := ih (max a b)
    refine ⟨by omega, ?_⟩
    intro x hx
    rcases List.mem_cons.mp hx with rfl | hx
    · omega
    · exact h2 x hx

theorem recordFieldKeys_length_le (S : SchemaMut) (idx : Nat) :
    (recordFieldKeys S idx).length ≤ maxWidth S := by
  unfold recordFieldKeys
  cases h : S[idx]? with
  | none => simp
  | some n =>
    obtain ⟨ty, lg⟩ := n
    cases ty <;> simp only [List.length_nil, Nat.zero_le]
    rename_i nm fs
    simp only [List.length_map]
    unfold maxWidth
    apply (le_foldl_max _ 0).2
    simp only [List.mem_map]
    refine ⟨⟨.record nm fs, lg⟩, ?_, rfl⟩
    have : idx < S.size := by
      cases Nat.lt_or_ge idx S.size with
      | inl h' => exact h'
      | inr h' => rw [Array.getElem?_eq_none h'] at h; cases h
    rw [Array.getElem?_eq_getElem this] at h
    simp only [Option.some.injEq] at h
    rw [← h]
    simp

theorem cycle_no_panic (S : SchemaMut) (fuel : Nat) :
    (∀ idx cs, isRecord S idx = true → cs.visited.contains idx = false →
      cs.checked.contains idx = false → unexp S cs * (maxWidth S + 2) ≤ fuel + 1 →
      cycleInner S fuel idx cs ≠ .error .panic) ∧
    (∀ ks cs, ks.length + unexp S cs * (maxWidth S + 2) ≤ fuel →
      cycleFields S fuel ks cs ≠ .error .panic) := by
  induction fuel with
  | zero =>
    refine ⟨?_, ?_⟩
    · intro idx cs hrec hv hc hf
      have h1 := unexp_push S cs idx hrec hv hc
      have : 1 * (maxWidth S + 2) ≤ unexp S cs * (maxWidth S + 2) :=
        Nat.mul_le_mul_right _ (by omega)
      omega
    · intro ks cs hf
      cases ks with
      | nil => simp [cycleFields]
      | cons k ks => simp at hf
  | succ fuel ih =>
    obtain ⟨ihI, ihF⟩ := ih
    refine ⟨?_, ?_⟩
    · intro idx cs hrec hv hc hf
      have h1 := unexp_push S cs idx hrec hv hc
      have h2 := recordFieldKeys_length_le S idx
      have h3 : (unexp S { cs with visited := idx :: cs.visited } + 1) * (maxWidth S + 2) ≤
          unexp S cs * (maxWidth S + 2) := Nat.mul_le_mul_right _ h1
      rw [Nat.succ_mul] at h3
      have := ihF (recordFieldKeys S idx) { cs with visited := idx :: cs.visited } (by omega)
      simp only [cycleInner]
      split
      · rename_i e h'
        intro he
        simp only [Except.error.injEq] at he
        subst he
        exact this h'
      · intro he; cases he
    · intro ks cs hf
      cases ks with
      | nil => simp [cycleFields]
      | cons k ks =>
        simp only [List.length_cons] at hf
        have hrest := ihF ks cs (by omega)
        simp only [cycleFields]
        split
        · rename_i hk
          split
          · intro he; cases he
          · rename_i hvis
            split
            · exact hrest
            · rename_i hchk
              have hv' : cs.visited.contains k = false := by simpa using hvis
              have hc' : cs.checked.contains k = false := by simpa using hchk
              have hI := ihI k cs hk hv' hc' (by omega)
              split
              · rename_i e h'
                intro he
                simp only [Except.error.injEq] at he
                subst he
                exact hI h'
              · rename_i cs1 h1
                obtain ⟨hv1, hc1⟩ := (cycle_frame S fuel).1 _ _ _ h1
                have hm := unexp_mono S cs cs1 hv1 hc1
                have := Nat.mul_le_mul_right (maxWidth S + 2) hm
                exact ihF ks cs1 (by omega)
        · exact hrest

theorem checkForCycles_go_no_panic (S : SchemaMut) (n i : Nat) (cs : CycleState)
    (hv : cs.visited = []) :
    checkForCycles.go S n i cs ≠ .error .panic := by
  induction n generalizing i cs with
  | zero => simp [checkForCycles.go]
  | succ n ih =>
    simp only [checkForCycles.go]
    split
    · rename_i hc
      split
      · rename_i e h'
        intro he
        simp only [Except.error.injEq] at he
        subst he
        have h1 := Nat.mul_le_mul_right (maxWidth S + 2) (unexp_le_size S cs)
        have h2 : S.size * (maxWidth S + 2) ≤ (S.size + 2) * (maxWidth S + 2) :=
          Nat.mul_le_mul_right _ (by omega)
        refine (cycle_no_panic S _).1 i cs hc.1 (by simp [hv]) ?_ (by omega) h'
        cases h : cs.checked.contains i with
        | false => rfl
        | true => exact absurd h hc.2
      · rename_i cs1 h1
        exact ih _ _ (by rw [((cycle_frame S _).1 _ _ _ h1).1, hv])
    · exact ih _ _ hv

theorem checkForCycles_no_panic (S : SchemaMut) : checkForCycles S ≠ .error .panic :=
  checkForCycles_go_no_panic S _ _ _ rfl

/-- The cycle check decides record-cyclicity. -/
theorem checkForCycles_eq_cycle_iff (S : SchemaMut) :
    checkForCycles S = .error .cycle ↔ ∃ i, Relation.TransGen (recEdge S) i i := by
  constructor
  · exact checkForCycles_complete S
  · rintro ⟨i, p⟩
    cases h : checkForCycles S with
    | ok u =>
      obtain ⟨L, sL, allL⟩ := checkForCycles_sound S h
      obtain ⟨b, e, -⟩ := transGen_head p
      exact absurd p (sL.acyclic (allL i e.1))
    | error e =>
      rcases checkForCycles_error S h with rfl | rfl
      · rfl
      · exact absurd h (checkForCycles_no_panic S)


end Avro.Impl
