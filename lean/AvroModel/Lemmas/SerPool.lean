import AvroModel.Impl.Ser
/-
Pool hygiene of the serializer model (`Impl/Ser.lean`): a small Hoare logic over `SerM`/`TrM`
whose triples say "a clean pool stays clean for every outcome; under `P` there is no `.panic`
and `.ok` results satisfy `Q`", and its rules for every primitive of the model.  Used by C14.
-/
namespace Avro.Theorems
open Avro Avro.Impl

/-- Every pooled buffer is empty, every pooled super-buffer has no slots: the state in which
    `SerializerConfig` expects to be handed back its `Buffers`. -/
def PoolClean (p : Pool) : Prop :=
  (∀ b ∈ p.buffers, b.data = []) ∧ (∀ sb ∈ p.superBuffers, sb.slots = [])

theorem PoolClean.empty : PoolClean {} := by
  constructor <;> intro _ h <;> cases h

/-- All child keys of a node are in bounds of the schema. -/
def NodeOK (S : Schema) (n : Node) : Prop := ∀ k ∈ n.children, k < S.size

/-- Triple for `SerM`: clean pool in, clean pool out (any outcome); under `P`, no panic and `Q`
    on `.ok` results. -/
structure Tr {α} (P : Prop) (m : SerM α) (Q : α → Prop) : Prop where
  out : ∀ s, PoolClean s.pool →
    PoolClean (m s).2.pool ∧ (P → (m s).1 ≠ .error .panic ∧ ∀ a, (m s).1 = .ok a → Q a)

/-- Triple for `TrM`. -/
structure TTr {σ α} (P : Prop) (m : TrM σ α) (Q : α → Prop) : Prop where
  out : ∀ s, PoolClean s.pool →
    PoolClean (m s).2.pool ∧
      (P → (∀ k, (m s).1 ≠ .error (.panic, k)) ∧ ∀ a, (m s).1 = .ok a → Q a)

section rules
variable {α β : Type} {P : Prop}

theorem Tr.pure (a : α) {Q : α → Prop} (h : P → Q a) : Tr P (pure a : SerM α) Q := by
  refine ⟨fun s hs => ?_⟩
  refine ⟨hs, fun hp => ⟨by simp [Pure.pure], ?_⟩⟩
  intro a' h'
  simp only [Pure.pure, Except.ok.injEq] at h'
  exact h' ▸ h hp

theorem Tr.fail {Q : α → Prop} (e : SerErr) (he : e ≠ .panic) : Tr P (SerM.fail e : SerM α) Q := by
  refine ⟨fun s hs => ?_⟩
  refine ⟨hs, fun _ => ⟨by simpa [SerM.fail] using he, ?_⟩⟩
  intro a h; simp [SerM.fail] at h

theorem Tr.bind {m : SerM α} {f : α → SerM β} {Q : α → Prop} {R : β → Prop}
    (hm : Tr P m Q) (hf : ∀ a, (P → Q a) → Tr P (f a) R) : Tr P (m >>= f) R := by
  refine ⟨fun s hs => ?_⟩
  have h1 := hm.out s hs
  simp only [Bind.bind]
  cases hms : m s with
  | mk r s' =>
    rw [hms] at h1
    cases r with
    | error e =>
      refine ⟨h1.1, fun hp => ⟨?_, ?_⟩⟩
      · simpa using (h1.2 hp).1
      · intro a h; simp at h
    | ok a =>
      exact (hf a (fun hp => (h1.2 hp).2 a rfl)).out s' h1.1

theorem Tr.weaken {m : SerM α} {Q Q' : α → Prop} (hm : Tr P m Q) (h : ∀ a, Q a → Q' a) :
    Tr P m Q' := by
  refine ⟨fun s hs => ?_⟩
  have h1 := hm.out s hs
  exact ⟨h1.1, fun hp => ⟨(h1.2 hp).1, fun a ha => h a ((h1.2 hp).2 a ha)⟩⟩

theorem Tr.true {m : SerM α} {Q : α → Prop} (hm : Tr P m Q) : Tr P m (fun _ => True) :=
  hm.weaken (fun _ _ => trivial)

theorem Tr.of_pool_eq {m : SerM α} (h1 : ∀ s, (m s).2.pool = s.pool)
    (h2 : ∀ s, (m s).1 ≠ .error .panic) : Tr P m (fun _ => True) := by
  refine ⟨fun s hs => ?_⟩
  exact ⟨by rw [h1]; exact hs, fun _ => ⟨h2 s, fun _ _ => trivial⟩⟩

theorem Tr.ite {c : Prop} [Decidable c] {m1 m2 : SerM α} {Q : α → Prop}
    (h1 : c → Tr P m1 Q) (h2 : ¬ c → Tr P m2 Q) : Tr P (if c then m1 else m2) Q := by
  split
  · exact h1 ‹_›
  · exact h2 ‹_›

end rules

/-! ### Writer primitives -/

section prims
variable {P : Prop}

theorem writeAll_tr (bs : Bytes) : Tr P (writeAll bs) (fun _ => True) := by
  apply Tr.of_pool_eq <;> intro s <;> unfold writeAll <;> (repeat' split) <;> simp

theorem writeVarI64_tr (i : Int) : Tr P (writeVarI64 i) (fun _ => True) := writeAll_tr _

theorem forM_tr {α} (l : List α) (f : α → SerM PUnit) (hf : ∀ a, Tr P (f a) (fun _ => True)) :
    Tr P (l.forM f) (fun _ => True) := by
  induction l with
  | nil => show Tr P (pure PUnit.unit) _; exact Tr.pure _ (fun _ => trivial)
  | cons a l ih => show Tr P (f a >>= fun _ => l.forM f) _; exact Tr.bind (hf a) (fun _ _ => ih)

/-- Extensible table of already proved triples (`macro_rules` are tried newest first). -/
syntax "tr_lemma" : tactic
macro_rules | `(tactic| tr_lemma) => `(tactic| with_reducible exact Tr.pure _ (fun _ => trivial))
macro_rules | `(tactic| tr_lemma) => `(tactic| with_reducible exact Tr.fail _ (by decide))
macro_rules | `(tactic| tr_lemma) => `(tactic| with_reducible exact writeAll_tr _)
macro_rules | `(tactic| tr_lemma) => `(tactic| with_reducible exact writeVarI64_tr _)
macro_rules
  | `(tactic| tr_lemma) => `(tactic| with_reducible exact forM_tr _ _ (fun _ => writeAll_tr _))

/-- Proof search for pool-neutral leaves. -/
macro "tr_auto" : tactic => `(tactic| repeat' (first
  | tr_lemma
  | with_reducible refine Tr.bind (Q := fun _ => True) ?_ ?_
  | intro _
  | assumption
  | dsimp only
  | split))

theorem writeLengthDelimited_tr (bs : Bytes) : Tr P (writeLengthDelimited bs) (fun _ => True) := by
  unfold writeLengthDelimited; tr_auto
macro_rules | `(tactic| tr_lemma) => `(tactic| with_reducible exact writeLengthDelimited_tr _)

theorem serDecimal_tr (ext : Ext) (mode : DecimalMode) (d : Int × Nat) :
    Tr P (serDecimal ext mode d) (fun _ => True) := by
  unfold serDecimal; tr_auto
macro_rules | `(tactic| tr_lemma) => `(tactic| with_reducible exact serDecimal_tr _ _ _)

theorem serIntegerAsDecimal_tr (scale : Nat) (repr : DecimalRepr) (v : Int) :
    Tr P (serIntegerAsDecimal scale repr v) (fun _ => True) := by
  unfold serIntegerAsDecimal; tr_auto
macro_rules | `(tactic| tr_lemma) => `(tactic| with_reducible exact serIntegerAsDecimal_tr _ _ _)

theorem serStrAt_tr (ext : Ext) (node : Node) (s : String) :
    Tr P (serStrAt ext node s) (fun _ => True) := by
  unfold serStrAt; tr_auto
macro_rules | `(tactic| tr_lemma) => `(tactic| with_reducible exact serStrAt_tr _ _ _)

end prims

/-! ### Lookups return in-range indices -/

theorem Slot.register_lt (s : Slot) (prio disc : Nat) (h : ∀ p d, s = .some p d → d < disc) :
    ∀ p d, s.register prio disc = .some p d → d < disc + 1 := by
  intro p d
  unfold Slot.register
  cases s with
  | none => simp; omega
  | some old d0 =>
    have := h old d0 rfl
    dsimp only
    repeat' split
    all_goals simp
    all_goals omega
  | conflict old =>
    dsimp only
    split <;> simp; omega

theorem slotFor_go_lt (k : LookupKey) : ∀ (bs : List Node) (disc : Nat) (s : Slot),
    (∀ p d, s = .some p d → d < disc) →
    ∀ p d, slotFor.go k bs disc s = .some p d → d < disc + bs.length := by
  intro bs
  induction bs with
  | nil => intro disc s h p d hg; simp only [slotFor.go] at hg; simpa using h p d hg
  | cons n rest ih =>
    intro disc s h p d hg
    simp only [slotFor.go] at hg
    have := ih (disc + 1) _ ?_ p d hg
    · simp only [List.length_cons]; omega
    · split
      · exact Slot.register_lt s _ disc h
      · intro p d hs; have := h p d hs; omega

theorem unnamedLookup_lt {k : LookupKey} {bs : List Node} {d : Nat}
    (h : unnamedLookup k bs = some d) : d < bs.length := by
  unfold unnamedLookup at h
  split at h
  · rename_i p d' heq
    simp only [Option.some.injEq] at h; subst h
    have := slotFor_go_lt k bs 0 .none (by simp) p d' heq
    simpa using this
  · cases h

theorem namedLookup_go_lt (name : String) : ∀ (bs : List Node) (disc : Nat) (acc : Option Nat),
    (∀ d, acc = some d → d < disc) →
    ∀ d, namedLookup.go name bs disc acc = some d → d < disc + bs.length := by
  intro bs
  induction bs with
  | nil => intro disc acc h d hg; simp only [namedLookup.go] at hg; simpa using h d hg
  | cons n rest ih =>
    intro disc acc h d hg
    simp only [namedLookup.go] at hg
    have := ih (disc + 1) _ ?_ d hg
    · simp only [List.length_cons]; omega
    · split
      · simp
      · intro d hs; have := h d hs; omega

theorem namedLookup_lt {name : String} {bs : List Node} {d : Nat}
    (h : namedLookup name bs = some d) : d < bs.length := by
  have := namedLookup_go_lt name bs 0 none (by simp) d h
  simpa using this

theorem lookupLast_go_spec (name : String) : ∀ (xs : List String) (i : Nat) (acc : Option Nat) (j : Nat),
    lookupLast.go name xs i acc = some j → acc = some j ∨ (i ≤ j ∧ xs[j - i]? = some name) := by
  intro xs
  induction xs with
  | nil => intro i acc j h; simp only [lookupLast.go] at h; exact .inl h
  | cons x rest ih =>
    intro i acc j h
    simp only [lookupLast.go] at h
    rcases ih _ _ _ h with h1 | ⟨h1, h2⟩
    · split at h1
      · rename_i hx
        simp only [Option.some.injEq] at h1; subst h1
        right; simp [hx]
      · exact .inl h1
    · right
      refine ⟨by omega, ?_⟩
      have : j - i = (j - (i + 1)) + 1 := by omega
      rw [this, List.getElem?_cons_succ]; exact h2

theorem lookupLast_sound {xs : List String} {name : String} {i : Nat}
    (h : lookupLast xs name = some i) : xs[i]? = some name := by
  rcases lookupLast_go_spec name xs 0 none i h with h1 | ⟨_, h2⟩
  · cases h1
  · simpa using h2

theorem NodeOK.of_get {S : Schema} (hk : S.keysInBounds) {k : Nat} {n : Node} (h : S[k]? = some n) :
    NodeOK S n := by
  unfold Schema.keysInBounds at hk
  rw [Array.all_eq_true] at hk
  intro c hc
  have hlt : k < S.size := by
    rcases Nat.lt_or_ge k S.size with h' | h'
    · exact h'
    · simp [Array.getElem?_eq_none h'] at h
  have := hk k hlt
  rw [Array.getElem?_eq_getElem hlt] at h
  simp only [Option.some.injEq] at h
  rw [h, List.all_eq_true] at this
  simpa using this c hc

section compound
variable {P : Prop}

theorem Tr.fail_absurd {α} {Q : α → Prop} (e : SerErr) (h : P → False) :
    Tr P (SerM.fail e : SerM α) Q :=
  ⟨fun _ hs => ⟨hs, fun hp => (h hp).elim⟩⟩

theorem branchNodes_length (S : Schema) (vs : List Nat) : (branchNodes S vs).length = vs.length := by
  simp [branchNodes]

theorem viaBranch_tr {α} {S : Schema} {vs : List Nat} {d : Nat} {f : Node → SerM α} {Q : α → Prop}
    (hk : P → S.keysInBounds) (hn : P → NodeOK S (.union vs)) (hd : d < vs.length)
    (hf : ∀ n, (P → NodeOK S n) → Tr P (f n) Q) :
    Tr P (do
      writeVarI64 d
      match vs[d]? with
      | none => SerM.fail .panic
      | some k => match S[k]? with
        | none => SerM.fail .panic
        | some n => f n) Q := by
  refine Tr.bind (writeVarI64_tr _) (fun _ _ => ?_)
  split
  · rename_i h; simp at h; omega
  · rename_i k hvk
    split
    · rename_i hSk
      apply Tr.fail_absurd
      intro hp
      have : k < S.size := hn hp k (by simp [Node.children]; exact List.mem_of_getElem? hvk)
      simp at hSk; omega
    · rename_i n hSk
      exact hf n (fun hp => NodeOK.of_get (hk hp) hSk)

theorem viaUnion_tr {α} {S : Schema} {node : Node} {key : LookupKey} {f : Node → SerM α}
    {Q : α → Prop} (hk : P → S.keysInBounds) (hn : P → NodeOK S node)
    (hf : ∀ n, (P → NodeOK S n) → Tr P (f n) Q) : Tr P (viaUnion S node key f) Q := by
  unfold viaUnion
  split
  · split
    · exact Tr.fail _ (by decide)
    · rename_i d hd
      exact viaBranch_tr hk hn (by have := unnamedLookup_lt hd; rwa [branchNodes_length] at this) hf
  · exact hf _ hn

theorem viaName_tr {α} {S : Schema} {node : Node} {name : String} {f : Node → SerM α}
    {Q : α → Prop} (hk : P → S.keysInBounds) (hn : P → NodeOK S node)
    (hf : ∀ n, (P → NodeOK S n) → Tr P (f n) Q) : Tr P (viaName S node name f) Q := by
  unfold viaName
  split
  · split
    · exact hf _ hn
    · rename_i d hd
      exact viaBranch_tr hk hn (by have := namedLookup_lt hd; rwa [branchNodes_length] at this) hf
  · exact hf _ hn

end compound
section leaves
variable {P : Prop} {S : Schema} {node : Node}

theorem serBool_tr (hk : P → S.keysInBounds) (hn : P → NodeOK S node) (b : Bool) :
    Tr P (serBool S node b) (fun _ => True) := by
  unfold serBool; exact viaUnion_tr hk hn (fun n _ => by tr_auto)

theorem serInteger_tr (hk : P → S.keysInBounds) (hn : P → NodeOK S node) (t : IntTy) (v : Int) :
    Tr P (serInteger S node t v) (fun _ => True) := by
  unfold serInteger; exact viaUnion_tr hk hn (fun n _ => by tr_auto)

theorem serF32_tr (hk : P → S.keysInBounds) (hn : P → NodeOK S node) (bits : BitVec 32) :
    Tr P (serF32 S node bits) (fun _ => True) := by
  unfold serF32; exact viaUnion_tr hk hn (fun n _ => by tr_auto)

theorem serF64_tr (ext : Ext) (hk : P → S.keysInBounds) (hn : P → NodeOK S node) (bits : BitVec 64) :
    Tr P (serF64 ext S node bits) (fun _ => True) := by
  unfold serF64; exact viaUnion_tr hk hn (fun n _ => by tr_auto)

theorem serStr_tr (ext : Ext) (hk : P → S.keysInBounds) (hn : P → NodeOK S node) (s : String) :
    Tr P (serStr ext S node s) (fun _ => True) := by
  unfold serStr; exact viaUnion_tr hk hn (fun n _ => by tr_auto)

theorem serBytes_tr (hk : P → S.keysInBounds) (hn : P → NodeOK S node) (b : Bytes) :
    Tr P (serBytes S node b) (fun _ => True) := by
  unfold serBytes; exact viaUnion_tr hk hn (fun n _ => by tr_auto)

theorem serUnit_tr : Tr P (serUnit S node) (fun _ => True) := by
  unfold serUnit; tr_auto

theorem serUnitStruct_tr (ext : Ext) (hk : P → S.keysInBounds) (hn : P → NodeOK S node) (name : String) :
    Tr P (serUnitStruct ext S node name) (fun _ => True) := by
  unfold serUnitStruct; exact viaUnion_tr hk hn (fun n _ => by tr_auto)

theorem serUnitVariant_tr (ext : Ext) (hk : P → S.keysInBounds) (hn : P → NodeOK S node) (v : String) :
    Tr P (serUnitVariant ext S node v) (fun _ => True) := by
  have hAt : ∀ n, (P → NodeOK S n) → Tr P (serUnitVariantAt ext v n) (fun _ => True) := by
    intro n _; unfold serUnitVariantAt; tr_auto
  unfold serUnitVariant
  split
  · split
    · exact writeVarI64_tr _
    · exact viaUnion_tr hk hn hAt
  · exact viaUnion_tr hk hn hAt

theorem blockNew_tr (n : Nat) : Tr P (blockNew n) (fun _ => True) := by
  unfold blockNew; tr_auto

theorem blockSignal_tr (n : Nat) : Tr P (blockSignal n) (fun _ => True) := by
  unfold blockSignal; tr_auto

theorem blockEnd_tr (n : Nat) : Tr P (blockEnd n) (fun _ => True) := by
  unfold blockEnd; tr_auto

end leaves
section pool
variable {P : Prop} {S : Schema}

theorem popBuffer_tr : Tr P popBuffer (fun b => b.data = []) := by
  refine ⟨fun s hs => ?_⟩
  unfold popBuffer
  rcases hs with ⟨h1, h2⟩
  split
  · exact ⟨⟨h1, h2⟩, fun _ => ⟨by simp, fun a h => by simp at h; subst h; rfl⟩⟩
  · rename_i b rest heq
    have hb : b.data = [] := h1 b (by simp [heq])
    have hc : PoolClean { s.pool with buffers := rest } :=
      ⟨fun x hx => h1 x (by simp [heq]; exact .inr hx), h2⟩
    simp only [hb, ne_eq, not_true_eq_false, ↓reduceIte]
    exact ⟨hc, fun _ => ⟨by simp, fun a h => by simp at h; subst h; exact hb⟩⟩

theorem pushBuffer_tr {b : Buffer} (hb : b.data = []) : Tr P (pushBuffer b) (fun _ => True) := by
  refine ⟨fun s hs => ?_⟩
  unfold pushBuffer
  rcases hs with ⟨h1, h2⟩
  refine ⟨⟨fun x hx => ?_, h2⟩, fun _ => ⟨by simp, fun _ _ => trivial⟩⟩
  simp only [List.mem_cons] at hx
  rcases hx with rfl | hx
  · exact hb
  · exact h1 x hx

theorem popSuperBuffer_tr : Tr P popSuperBuffer (fun b => b.slots = []) := by
  refine ⟨fun s hs => ?_⟩
  unfold popSuperBuffer
  rcases hs with ⟨h1, h2⟩
  split
  · exact ⟨⟨h1, h2⟩, fun _ => ⟨by simp, fun a h => by simp at h; subst h; rfl⟩⟩
  · rename_i b rest heq
    have hb : b.slots = [] := h2 b (by simp [heq])
    have hc : PoolClean { s.pool with superBuffers := rest } :=
      ⟨h1, fun x hx => h2 x (by simp [heq]; exact .inr hx)⟩
    simp only [hb, ne_eq, not_true_eq_false, ↓reduceIte]
    exact ⟨hc, fun _ => ⟨by simp, fun a h => by simp at h; subst h; exact hb⟩⟩

theorem pushSuperBuffer_tr {b : SuperBuffer} (hb : b.slots = []) :
    Tr P (pushSuperBuffer b) (fun _ => True) := by
  refine ⟨fun s hs => ?_⟩
  unfold pushSuperBuffer
  rcases hs with ⟨h1, h2⟩
  refine ⟨⟨h1, fun x hx => ?_⟩, fun _ => ⟨by simp, fun _ _ => trivial⟩⟩
  simp only [List.mem_cons] at hx
  rcases hx with rfl | hx
  · exact hb
  · exact h2 x hx

theorem nodeAt_tr (hk : P → S.keysInBounds) {k : Nat} (hlt : P → k < S.size) :
    Tr P (nodeAt S k) (fun n => NodeOK S n) := by
  unfold nodeAt
  split
  · rename_i n h
    exact Tr.pure _ (fun hp => NodeOK.of_get (hk hp) h)
  · rename_i h
    apply Tr.fail_absurd
    intro hp; have := hlt hp; simp at h; omega

theorem intoBuffer_tr {buf : Buffer} {m : SerM Unit} {Q : Unit → Prop} (hm : Tr P m Q) :
    Tr P (intoBuffer buf m) (fun _ => True) := by
  refine ⟨fun s hs => ?_⟩
  unfold intoBuffer
  have h := hm.out { s with out := buf.data, budget := none } hs
  cases hms : m { s with out := buf.data, budget := none } with
  | mk r s' =>
    rw [hms] at h
    cases r with
    | ok a => exact ⟨h.1, fun _ => ⟨by simp, fun _ _ => trivial⟩⟩
    | error e =>
      refine ⟨h.1, fun hp => ⟨?_, fun _ h' => by simp at h'⟩⟩
      simpa using (h.2 hp).1

theorem finally_tr {α} {m : SerM α} {fin : SerM Unit} {Q : α → Prop} {R : Unit → Prop}
    (hm : Tr P m Q) (hfin : Tr P fin R) : Tr P (SerM.finally m fin) Q := by
  refine ⟨fun s hs => ?_⟩
  unfold SerM.finally
  have h := hm.out s hs
  cases hms : m s with
  | mk r s' =>
    rw [hms] at h
    have h2 := hfin.out s' h.1
    cases hf : fin s' with
    | mk r2 s'' =>
      rw [hf] at h2
      dsimp only
      rw [hf]
      cases r2 with
      | ok _ => exact ⟨h2.1, h.2⟩
      | error e =>
        refine ⟨h2.1, fun hp => ⟨?_, fun _ h' => by simp at h'⟩⟩
        simpa using (h2.2 hp).1

theorem seqDrop_tr (k : SeqKind) : Tr P (seqDrop k) (fun _ => True) := by
  unfold seqDrop
  split
  · split
    · exact pushBuffer_tr rfl
    · exact Tr.pure _ (fun _ => trivial)
  · exact Tr.pure _ (fun _ => trivial)

theorem recordDrop_tr (rs : RecordState) : Tr P (recordDrop rs) (fun _ => True) := by
  unfold recordDrop
  split
  · refine ⟨fun s hs => ?_⟩
    rcases hs with ⟨h1, h2⟩
    simp only [bind, getPool, setPool, pushSuperBuffer]
    refine ⟨⟨fun x hx => ?_, fun x hx => ?_⟩, fun _ => ⟨by simp, fun _ _ => trivial⟩⟩
    · simp only [List.mem_append, List.mem_reverse, List.mem_filterMap] at hx
      rcases hx with ⟨o, _, ho⟩ | hx
      · cases o with
        | none => simp at ho
        | some b => simp at ho; subst ho; rfl
      · exact h1 x hx
    · simp only [List.mem_cons] at hx
      rcases hx with rfl | hx
      · rfl
      · exact h2 x hx
  · exact Tr.pure _ (fun _ => trivial)

theorem structDrop_tr (k : StructKind) : Tr P (structDrop k) (fun _ => True) := by
  unfold structDrop
  split
  · exact recordDrop_tr _
  · exact Tr.pure _ (fun _ => trivial)

theorem seqEnd_tr (k : SeqKind) : Tr P (seqEnd k) (fun _ => True) := by
  unfold seqEnd
  split
  · exact blockEnd_tr _
  · tr_auto
  · exact writeLengthDelimited_tr _
  · tr_auto

end pool
/-- Schema keys held in a sequence state are in bounds. -/
def SeqOK (S : Schema) : SeqKind → Prop
  | .array items _ => NodeOK S items
  | _ => True

/-- Schema keys held in a struct/map state are in bounds. -/
def StructOK (S : Schema) : StructKind → Prop
  | .record fields _ => ∀ f ∈ fields, f.2 < S.size
  | .map values _ => NodeOK S values
  | .duration _ => True

section compound2
variable {P : Prop} {S : Schema}

theorem seqStartAt_tr (hk : P → S.keysInBounds) (allowSlow : Bool) {node : Node}
    (hn : P → NodeOK S node) (len : Option Nat) :
    Tr P (seqStartAt allowSlow S node len) (SeqOK S) := by
  unfold seqStartAt
  split
  · rename_i items
    refine Tr.bind (nodeAt_tr hk (fun hp => hn hp items (by simp [Node.children]))) (fun n hn' => ?_)
    refine Tr.bind (blockNew_tr _) (fun c _ => ?_)
    exact Tr.pure _ hn'
  · repeat' split
    all_goals first | exact Tr.fail _ (by decide) | exact Tr.pure _ (fun _ => trivial)
  · split
    · exact Tr.fail _ (by decide)
    · split
      · exact Tr.bind popBuffer_tr (fun b _ => Tr.pure _ (fun _ => trivial))
      · exact Tr.bind (writeVarI64_tr _) (fun b _ => Tr.pure _ (fun _ => trivial))
  · repeat' split
    all_goals first | exact Tr.fail _ (by decide) | exact Tr.pure _ (fun _ => trivial)
  · exact Tr.fail _ (by decide)

theorem seqStart_tr (hk : P → S.keysInBounds) (allowSlow : Bool) {node : Node}
    (hn : P → NodeOK S node) (len : Option Nat) :
    Tr P (seqStart allowSlow S node len) (SeqOK S) := by
  unfold seqStart
  exact viaUnion_tr hk hn (fun n hn' => seqStartAt_tr hk allowSlow hn' len)

theorem structStartAt_tr (hk : P → S.keysInBounds) {node : Node}
    (hn : P → NodeOK S node) (len : Nat) (durLen : Option Nat) :
    Tr P (structStartAt S node len durLen) (StructOK S) := by
  unfold structStartAt
  split
  · rename_i nm fields
    refine Tr.bind popSuperBuffer_tr (fun sb _ => Tr.pure _ (fun hp => ?_))
    intro f hf
    exact hn hp f.2 (by simp [Node.children]; exact ⟨f.1, hf⟩)
  · rename_i values
    refine Tr.bind (nodeAt_tr hk (fun hp => hn hp values (by simp [Node.children]))) (fun n hn' => ?_)
    refine Tr.bind (blockNew_tr _) (fun c _ => ?_)
    exact Tr.pure _ hn'
  · repeat' split
    all_goals first | exact Tr.fail _ (by decide) | exact Tr.pure _ (fun _ => trivial)
  · exact Tr.fail _ (by decide)

/-! ### `TrM` rules -/

theorem TTr.ok {σ α} {Q : α → Prop} (a : α) (h : P → Q a) :
    TTr P (fun s => (.ok a, s) : TrM σ α) Q :=
  ⟨fun s hs => ⟨hs, fun hp => ⟨by simp, fun a' h' => by simp at h'; exact h' ▸ h hp⟩⟩⟩

theorem TTr.error {σ α} {Q : α → Prop} (e : SerErr) (k : σ) (he : P → e ≠ .panic) :
    TTr P (fun s => (.error (e, k), s) : TrM σ α) Q :=
  ⟨fun s hs => ⟨hs, fun hp => ⟨by simpa using he hp, fun a' h' => by simp at h'⟩⟩⟩

theorem TTr.lift {σ α} {Q : α → Prop} (k : σ) {m : SerM α} (hm : Tr P m Q) :
    TTr P (TrM.lift k m) Q := by
  refine ⟨fun s hs => ?_⟩
  have h := hm.out s hs
  unfold TrM.lift
  cases hms : m s with
  | mk r s' =>
    rw [hms] at h
    cases r with
    | ok a => exact ⟨h.1, fun hp => ⟨by simp, fun a' h' => (h.2 hp).2 a' (by simpa using h')⟩⟩
    | error e =>
      refine ⟨h.1, fun hp => ⟨?_, fun a' h' => by simp at h'⟩⟩
      have := (h.2 hp).1
      simpa using this

theorem flushBuffered_tr : ∀ (fuel : Nat) (rs : RecordState),
    TTr P (flushBuffered fuel rs) (fun _ => True) := by
  intro fuel
  induction fuel with
  | zero => intro rs; exact TTr.ok _ (fun _ => trivial)
  | succ fuel ih =>
    intro rs
    refine ⟨fun s hs => ?_⟩
    unfold flushBuffered
    split
    · rename_i b hb
      have h := (writeAll_tr (P := P) b.data).out s hs
      dsimp only
      cases hw : writeAll b.data s with
      | mk r s' =>
        rw [hw] at h
        cases r with
        | error e =>
          refine ⟨h.1, fun hp => ⟨?_, fun a' h' => by simp at h'⟩⟩
          have := (h.2 hp).1
          simpa using this
        | ok _ =>
          dsimp only
          have h2 := (pushBuffer_tr (P := P) (b := { b with data := [] }) rfl).out s' h.1
          exact (ih _).out _ h2.1
    · exact (TTr.ok (σ := RecordState) (P := P) rs (fun _ => trivial)).out s hs

theorem flushBuffered_current : ∀ (fuel : Nat) (rs : RecordState) (s : SerState) (rs' : RecordState),
    (flushBuffered fuel rs s).1 = .ok rs' → rs.current ≤ rs'.current := by
  intro fuel
  induction fuel with
  | zero => intro rs s rs' h; simp [flushBuffered] at h; subst h; exact Nat.le_refl _
  | succ fuel ih =>
    intro rs s rs' h
    unfold flushBuffered at h
    split at h
    · dsimp only at h
      split at h
      · simp at h
      · have := ih _ _ _ h
        simp at this; omega
    · simp at h; subst h; exact Nat.le_refl _

end compound2
section compound3
variable {P : Prop} {S : Schema}

/-- The "fill an omitted nullable field" step of `recordEnd`. -/
def recordFill (S : Schema) (f : String × Nat) : SerM Unit := do
  let n ← nodeAt S f.2
  match n with
  | .null => pure ()
  | .union vs =>
    match unnamedLookup .null (branchNodes S vs) with
    | some d =>
      match (branchNodes S vs)[d]? with
      | some .null => writeVarI64 d
      | _ => SerM.fail .custom
    | none => SerM.fail .custom
  | _ => SerM.fail .custom

theorem recordEnd_succ (fields : List (String × Nat)) (fuel : Nat) (rs : RecordState) (s : SerState) :
    recordEnd S fields (fuel + 1) rs s =
      match fields[rs.current]? with
      | none => (.ok rs, s)
      | some f =>
        match recordFill S f s with
        | (.error e, s') => (.error (e, rs), s')
        | (.ok _, s') =>
          match flushBuffered rs.buffers.slots.length { rs with current := rs.current + 1 } s' with
          | (.error e, s'') => (.error e, s'')
          | (.ok rs', s'') => recordEnd S fields fuel rs' s'' := rfl

theorem recordFill_tr (hk : P → S.keysInBounds) {f : String × Nat} (hf : P → f.2 < S.size) :
    Tr P (recordFill S f) (fun _ => True) := by
  unfold recordFill
  refine Tr.bind (nodeAt_tr hk hf) (fun n _ => ?_)
  tr_auto

theorem recordEnd_tr (hk : P → S.keysInBounds) {fields : List (String × Nat)}
    (hf : P → ∀ f ∈ fields, f.2 < S.size) : ∀ (fuel : Nat) (rs : RecordState),
    TTr P (recordEnd S fields fuel rs) (fun _ => True) := by
  intro fuel
  induction fuel with
  | zero => intro rs; exact TTr.ok _ (fun _ => trivial)
  | succ fuel ih =>
    intro rs
    refine ⟨fun s hs => ?_⟩
    rw [recordEnd_succ]
    split
    · exact (TTr.ok (σ := RecordState) (P := P) rs (fun _ => trivial)).out s hs
    · rename_i f hfs
      have h1 := (recordFill_tr hk (fun hp => hf hp f (List.mem_of_getElem? hfs))).out s hs
      split
      · grind
      · rename_i s' heq
        have h2 := (flushBuffered_tr (P := P) rs.buffers.slots.length { rs with current := rs.current + 1 }).out s' (by grind)
        split
        · grind
        · rename_i rs' s'' heq2
          exact (ih rs').out s'' (by grind)

end compound3
section compound4
variable {P : Prop} {S : Schema}

theorem recordEnd_current (fields : List (String × Nat)) : ∀ (fuel : Nat) (rs : RecordState)
    (s : SerState) (rs' : RecordState), (recordEnd S fields fuel rs s).1 = .ok rs' →
    fields.length ≤ rs'.current ∨ rs.current + fuel ≤ rs'.current := by
  intro fuel
  induction fuel with
  | zero => intro rs s rs' h; simp [recordEnd] at h; subst h; right; omega
  | succ fuel ih =>
    intro rs s rs' h
    rw [recordEnd_succ] at h
    split at h
    · rename_i hnone
      simp at h; subst h
      left; simpa using hnone
    · split at h
      · simp at h
      · split at h
        · simp at h
        · rename_i rs1 s'' heq
          have h1 := flushBuffered_current _ _ _ rs1 (by rw [heq])
          have h2 := ih _ _ _ h
          simp at h1
          omega

theorem structEnd_tr (hk : P → S.keysInBounds) {k : StructKind} (hok : P → StructOK S k) :
    TTr P (structEnd S k) (fun _ => True) := by
  refine ⟨fun s hs => ?_⟩
  unfold structEnd
  split
  · rename_i fields rs
    have h1 := (recordEnd_tr hk (fields := fields) (fun hp => hok hp) (fields.length + 1) rs).out s hs
    have h2 := recordEnd_current (S := S) fields (fields.length + 1) rs s
    split
    · grind
    · rename_i rs' s' heq
      have := h2 rs' (by rw [heq])
      rw [if_neg (by omega)]
      grind
  · rename_i values current
    exact (TTr.lift _ (Tr.bind (blockEnd_tr _) (fun _ _ => Tr.pure _ (fun _ => trivial)))).out s hs
  · rename_i vals
    split
    · exact (TTr.lift _ (Tr.bind (writeAll_tr _) (fun _ _ => Tr.pure _ (fun _ => trivial)))).out s hs
    · exact (TTr.error (P := P) (α := StructKind) (Q := fun _ => True) _ _ (fun _ => by decide)).out s hs

theorem structFinish_tr (hk : P → S.keysInBounds) {k : StructKind} (hok : P → StructOK S k) :
    Tr P (structFinish S k) (fun _ => True) := by
  refine ⟨fun s hs => ?_⟩
  unfold structFinish
  have h1 := (structEnd_tr hk hok).out s hs
  split
  · rename_i k' s' heq
    have := (finally_tr (P := P) (Tr.pure () (Q := fun _ => True) (fun _ => trivial)) (structDrop_tr k')).out s' (by grind)
    grind
  · rename_i e k' s' heq
    by_cases hp : P
    · have he : e ≠ .panic := by grind
      have := (finally_tr (P := P) (Tr.fail (α := Unit) (Q := fun _ => True) e he) (structDrop_tr k')).out s' (by grind)
      grind
    · have := (finally_tr (P := False) (Tr.fail_absurd (α := Unit) (Q := fun _ => True) e id) (structDrop_tr k')).out s' (by grind)
      grind

/-- `Drop` after a failed body. -/
theorem failDrop_tr {e : SerErr} {fin : SerM Unit} {R : Unit → Prop} (he : P → e ≠ .panic)
    (hfin : ∀ P', Tr P' fin R) : Tr P (SerM.finally (SerM.fail e : SerM Unit) fin) (fun _ => True) := by
  refine ⟨fun s hs => ?_⟩
  by_cases hp : P
  · exact (finally_tr (Tr.fail e (he hp)) (hfin P)).out s hs
  · have := (finally_tr (P := False) (Tr.fail_absurd (α := Unit) (Q := fun _ => True) e id) (hfin False)).out s hs
    exact ⟨this.1, fun hp' => (hp hp').elim⟩

theorem seqFinish_tr {m : TrM SeqKind SeqKind} {Q : SeqKind → Prop} (hm : TTr P m Q) :
    Tr P (fun s => seqFinish (m s)) (fun _ => True) := by
  refine ⟨fun s hs => ?_⟩
  have h1 := hm.out s hs
  unfold seqFinish
  split
  · rename_i k' s' heq
    have := (finally_tr (P := P) (seqEnd_tr k') (seqDrop_tr k')).out s' (by grind)
    grind
  · rename_i e k' s' heq
    have := (failDrop_tr (P := P) (e := e) (by grind) (fun P' => seqDrop_tr (P := P') k')).out s' (by grind)
    grind

theorem structBodyFinish_tr (hk : P → S.keysInBounds) {m : TrM StructKind StructKind}
    (hm : TTr P m (StructOK S)) :
    Tr P (fun s => structBodyFinish S (m s)) (fun _ => True) := by
  refine ⟨fun s hs => ?_⟩
  have h1 := hm.out s hs
  unfold structBodyFinish
  split
  · rename_i k' s' heq
    have := (structFinish_tr (P := P) hk (k := k') (by grind)).out s' (by grind)
    grind
  · rename_i e k' s' heq
    have := (failDrop_tr (P := P) (e := e) (by grind) (fun P' => structDrop_tr (P := P') k')).out s' (by grind)
    grind

end compound4
section compound5
variable {P : Prop} {S : Schema}

theorem fieldIdx_sound {fields : List (String × Nat)} {rs : RecordState} {name : String} {i : Nat}
    (h : fieldIdx fields rs name = .ok i) :
    (∃ k, fields[i]? = some (name, k)) ∧ i ≥ rs.current := by
  unfold fieldIdx at h
  split at h
  · cases h
  · rename_i first hfirst
    split at h
    · rename_i hname
      simp only [Except.ok.injEq] at h; subst h
      exact ⟨⟨first.2, by rw [hfirst, ← hname]⟩, Nat.le_refl _⟩
    · split at h
      · cases h
      · rename_i j hj
        have hs := lookupLast_sound hj
        split at h
        · simp only [Except.ok.injEq] at h; subst h
          refine ⟨?_, by omega⟩
          rw [List.getElem?_map] at hs
          cases hfj : fields[j]? with
          | none => simp [hfj] at hs
          | some p =>
            simp [hfj] at hs
            exact ⟨p.2, by rw [← hs]⟩
        · split at h <;> cases h

theorem fieldIdx_no_panic (fields : List (String × Nat)) (rs : RecordState) (name : String) :
    fieldIdx fields rs name ≠ .error .panic := by
  unfold fieldIdx
  split
  · simp
  · rename_i first hfirst
    split
    · simp
    · rename_i hname
      split
      · simp
      · rename_i j hj
        have hs := lookupLast_sound hj
        split
        · simp
        · split
          · simp
          · exfalso
            have : j = rs.current := by omega
            subst this
            rw [List.getElem?_map, hfirst] at hs
            simp at hs
            exact hname hs

theorem recordValue_tr (hk : P → S.keysInBounds) {fields : List (String × Nat)} {rs : RecordState}
    {idx : Nat} {serv : Node → SerM Unit} (hidx : P → idx < fields.length)
    (hf : P → ∀ f ∈ fields, f.2 < S.size)
    (hserv : ∀ node, (P → NodeOK S node) → Tr P (serv node) (fun _ => True)) :
    TTr P (recordValue S fields rs idx serv) (fun _ => True) := by
  refine ⟨fun s hs => ?_⟩
  unfold recordValue
  split
  · rename_i hnone
    refine ⟨hs, fun hp => ?_⟩
    have := hidx hp
    simp at hnone; omega
  · rename_i f hfi
    split
    · rename_i hnone
      refine ⟨hs, fun hp => ?_⟩
      have := hf hp f (List.mem_of_getElem? hfi)
      simp at hnone; omega
    · rename_i node hnode
      have hserv' := hserv node (fun hp => NodeOK.of_get (hk hp) hnode)
      split
      · have h1 := hserv'.out s hs
        split
        · grind
        · rename_i s' heq
          exact (flushBuffered_tr (P := P) _ _).out s' (by grind)
      · dsimp only
        split
        · exact ⟨hs, fun _ => by simp⟩
        · have h1 := (popBuffer_tr (P := P)).out s hs
          split
          · grind
          · rename_i buf s' heq
            have h2 := (intoBuffer_tr (P := P) (buf := buf) hserv').out s' (by grind)
            split <;> grind

end compound5
section main
variable {P : Prop} {S : Schema} (ext : Ext) (allowSlow : Bool)

theorem serElems_cons_tr (e : SV) (rest : List SV)
    (hser : ∀ node, (P → NodeOK S node) → Tr P (ser ext allowSlow S node e) (fun _ => True))
    (hrest : ∀ k, (P → SeqOK S k) → TTr P (serElems ext allowSlow S k rest) (fun _ => True))
    (k : SeqKind) (hok : P → SeqOK S k) :
    TTr P (serElems ext allowSlow S k (e :: rest)) (fun _ => True) := by
  refine ⟨fun s hs => ?_⟩
  cases k with
  | array items current =>
    rw [serElems]
    have h1 := (blockSignal_tr (P := P) current).out s hs
    split
    · grind
    · rename_i c s' heq
      have h2 := (hser items (fun hp => hok hp)).out s' (by grind)
      split
      · grind
      · rename_i s'' heq2
        exact (hrest (.array items c) (fun hp => hok hp)).out s'' (by grind)
  | duration n =>
    rw [serElems]
    split
    · exact ⟨hs, fun _ => by simp⟩
    · split
      · exact ⟨hs, fun _ => by simp⟩
      · rename_i v hv
        have h1 := (writeAll_tr (P := P) (leBytes 4 v)).out s hs
        split
        · grind
        · rename_i s' heq
          exact (hrest _ (fun _ => by simp [SeqOK])).out s' (by grind)
  | buffered buf =>
    rw [serElems]
    split
    · exact ⟨hs, fun _ => by simp⟩
    · exact (hrest _ (fun _ => by simp [SeqOK])).out s hs
  | fixed expected =>
    cases expected with
    | zero => rw [serElems]; exact ⟨hs, fun _ => by simp⟩
    | succ n =>
      rw [serElems]
      split
      · exact ⟨hs, fun _ => by simp⟩
      · rename_i b hb
        have h1 := (writeAll_tr (P := P) [b]).out s hs
        split
        · grind
        · rename_i s' heq
          exact (hrest _ (fun _ => by simp [SeqOK])).out s' (by grind)

end main
section main
variable {P : Prop} {S : Schema} (ext : Ext) (allowSlow : Bool)

theorem mapKey_tr (current : Nat) (name : String) :
    Tr P (do let c ← blockSignal current; writeLengthDelimited (strBytes name); pure c : SerM Nat)
      (fun _ => True) :=
  Tr.bind (blockSignal_tr _) (fun _ _ => Tr.bind (writeLengthDelimited_tr _)
    (fun _ _ => Tr.pure _ (fun _ => trivial)))

theorem serFields_cons_tr (hk : P → S.keysInBounds) (name : String) (v : SV)
    (rest : List (String × SV))
    (hser : ∀ node, (P → NodeOK S node) → Tr P (ser ext allowSlow S node v) (fun _ => True))
    (hrest : ∀ k, (P → StructOK S k) → TTr P (serFields ext allowSlow S k rest) (StructOK S))
    (k : StructKind) (hok : P → StructOK S k) :
    TTr P (serFields ext allowSlow S k ((name, v) :: rest)) (StructOK S) := by
  refine ⟨fun s hs => ?_⟩
  cases k with
  | record fields rs =>
    rw [serFields]
    split
    · rename_i e he
      have := fieldIdx_no_panic fields rs name
      exact ⟨hs, fun _ => by grind⟩
    · rename_i idx hidx
      have hlt : idx < fields.length := by
        obtain ⟨⟨k, hk'⟩, _⟩ := fieldIdx_sound hidx
        exact (List.getElem?_eq_some_iff.mp hk').1
      have h1 := (recordValue_tr (P := P) hk (rs := rs) (fun _ => hlt) (fun hp => hok hp) hser).out s hs
      split
      · grind
      · rename_i rs' s' heq
        exact (hrest (.record fields rs') (fun hp => hok hp)).out s' (by grind)
  | map values current =>
    rw [serFields]
    have h1 := (mapKey_tr (P := P) current name).out s hs
    split
    · grind
    · rename_i c s' heq
      have h2 := (hser values (fun hp => hok hp)).out s' (by grind)
      split
      · grind
      · rename_i s'' heq2
        exact (hrest (.map values c) (fun hp => hok hp)).out s'' (by grind)
  | duration vals =>
    rw [serFields]
    repeat' split
    all_goals first
      | exact ⟨hs, fun _ => by simp⟩
      | exact (hrest _ (fun _ => by simp [StructOK])).out s hs

theorem serEntries_cons_tr (hk : P → S.keysInBounds) (key v : SV)
    (rest : List (SV × SV))
    (hkey : ∀ node, (P → NodeOK S node) → Tr P (ser ext allowSlow S node key) (fun _ => True))
    (hser : ∀ node, (P → NodeOK S node) → Tr P (ser ext allowSlow S node v) (fun _ => True))
    (hrest : ∀ k, (P → StructOK S k) → TTr P (serEntries ext allowSlow S k rest) (StructOK S))
    (k : StructKind) (hok : P → StructOK S k) :
    TTr P (serEntries ext allowSlow S k ((key, v) :: rest)) (StructOK S) := by
  refine ⟨fun s hs => ?_⟩
  cases k with
  | record fields rs =>
    rw [serEntries]
    split
    · exact ⟨hs, fun _ => by simp⟩
    · rename_i name hname
      split
      · rename_i e he
        have := fieldIdx_no_panic fields rs name
        exact ⟨hs, fun _ => by grind⟩
      · rename_i idx hidx
        have hlt : idx < fields.length := by
          obtain ⟨⟨k, hk'⟩, _⟩ := fieldIdx_sound hidx
          exact (List.getElem?_eq_some_iff.mp hk').1
        have h1 := (recordValue_tr (P := P) hk (rs := rs) (fun _ => hlt) (fun hp => hok hp) hser).out s hs
        split
        · grind
        · rename_i rs' s' heq
          exact (hrest (.record fields rs') (fun hp => hok hp)).out s' (by grind)
  | map values current =>
    rw [serEntries]
    have h1 := (blockSignal_tr (P := P) current).out s hs
    split
    · grind
    · rename_i c s' heq
      have h2 := (hkey .string (fun _ => by simp [NodeOK, Node.children])).out s' (by grind)
      split
      · grind
      · rename_i s'' heq2
        have h3 := (hser values (fun hp => hok hp)).out s'' (by grind)
        split
        · grind
        · rename_i s3 heq3
          exact (hrest (.map values c) (fun hp => hok hp)).out s3 (by grind)
  | duration vals =>
    rw [serEntries]
    repeat' split
    all_goals first
      | exact ⟨hs, fun _ => by simp⟩
      | exact (hrest _ (fun _ => by simp [StructOK])).out s hs

end main
set_option linter.unusedSectionVars false

section main
variable {P : Prop} {S : Schema} (ext : Ext) (allowSlow : Bool) (hk : P → S.keysInBounds)
include hk

mutual

theorem ser_tr : ∀ (sv : SV) (node : Node), (P → NodeOK S node) →
    Tr P (ser ext allowSlow S node sv) (fun _ => True)
  | .bool b, node, hn => by rw [ser]; exact serBool_tr hk hn b
  | .int t v, node, hn => by rw [ser]; exact serInteger_tr hk hn t v
  | .f32 bits, node, hn => by rw [ser]; exact serF32_tr hk hn bits
  | .f64 bits, node, hn => by rw [ser]; exact serF64_tr ext hk hn bits
  | .char c, node, hn => by rw [ser]; exact serStr_tr ext hk hn _
  | .str s, node, hn => by rw [ser]; exact serStr_tr ext hk hn s
  | .bytes b, node, hn => by rw [ser]; exact serBytes_tr hk hn b
  | .none, node, hn => by rw [ser]; exact serUnit_tr
  | .some v, node, hn => by rw [ser]; exact ser_tr v node hn
  | .unit, node, hn => by rw [ser]; exact serUnit_tr
  | .unitStruct name, node, hn => by rw [ser]; exact serUnitStruct_tr ext hk hn name
  | .unitVariant _ _ variant, node, hn => by rw [ser]; exact serUnitVariant_tr ext hk hn variant
  | .newtypeStruct name v, node, hn => by
    rw [ser]; exact viaName_tr hk hn (fun n hn' => ser_tr v n hn')
  | .newtypeVariant _ _ variant v, node, hn => by
    rw [ser]; exact viaName_tr hk hn (fun n hn' => ser_tr v n hn')
  | .seq len elems, node, hn => by
    rw [ser]
    exact Tr.bind (seqStart_tr hk allowSlow hn len)
      (fun k hk' => seqFinish_tr (serElems_tr elems k hk'))
  | .tuple elems, node, hn => by
    rw [ser]
    exact Tr.bind (seqStart_tr hk allowSlow hn _)
      (fun k hk' => seqFinish_tr (serElems_tr elems k hk'))
  | .tupleStruct _ elems, node, hn => by
    rw [ser]
    exact Tr.bind (seqStart_tr hk allowSlow hn _)
      (fun k hk' => seqFinish_tr (serElems_tr elems k hk'))
  | .tupleVariant _ _ variant elems, node, hn => by
    rw [ser]
    exact viaName_tr hk hn (fun n hn' => Tr.bind (seqStart_tr hk allowSlow hn' _)
      (fun k hk' => seqFinish_tr (serElems_tr elems k hk')))
  | .map len entries, node, hn => by
    rw [ser]
    exact viaUnion_tr hk hn (fun n hn' => Tr.bind (structStartAt_tr hk hn' _ _)
      (fun k hk' => structBodyFinish_tr hk (serEntries_tr entries k hk')))
  | .struct name fields, node, hn => by
    rw [ser]
    exact viaName_tr hk hn (fun n hn' => viaUnion_tr hk hn' (fun n hn'' =>
      Tr.bind (structStartAt_tr hk hn'' _ _)
        (fun k hk' => structBodyFinish_tr hk (serFields_tr fields k hk'))))
  | .structVariant _ _ variant fields, node, hn => by
    rw [ser]
    exact viaName_tr hk hn (fun n hn' => viaUnion_tr hk hn' (fun n hn'' =>
      Tr.bind (structStartAt_tr hk hn'' _ _)
        (fun k hk' => structBodyFinish_tr hk (serFields_tr fields k hk'))))

theorem serElems_tr : ∀ (elems : List SV) (k : SeqKind), (P → SeqOK S k) →
    TTr P (serElems ext allowSlow S k elems) (fun _ => True)
  | [], k, _ => by
    have : serElems ext allowSlow S k [] = fun s => (.ok k, s) := by funext s; rw [serElems]
    rw [this]; exact TTr.ok _ (fun _ => trivial)
  | e :: rest, k, hok =>
    serElems_cons_tr ext allowSlow e rest (fun node hn => ser_tr e node hn)
      (fun k hok => serElems_tr rest k hok) k hok

theorem serFields_tr : ∀ (fs : List (String × SV)) (k : StructKind), (P → StructOK S k) →
    TTr P (serFields ext allowSlow S k fs) (StructOK S)
  | [], k, hok => by
    have : serFields ext allowSlow S k [] = fun s => (.ok k, s) := by funext s; rw [serFields]
    rw [this]; exact TTr.ok _ hok
  | (name, v) :: rest, k, hok =>
    serFields_cons_tr ext allowSlow hk name v rest (fun node hn => ser_tr v node hn)
      (fun k hok => serFields_tr rest k hok) k hok

theorem serEntries_tr : ∀ (es : List (SV × SV)) (k : StructKind), (P → StructOK S k) →
    TTr P (serEntries ext allowSlow S k es) (StructOK S)
  | [], k, hok => by
    have : serEntries ext allowSlow S k [] = fun s => (.ok k, s) := by funext s; rw [serEntries]
    rw [this]; exact TTr.ok _ hok
  | (key, v) :: rest, k, hok =>
    serEntries_cons_tr ext allowSlow hk key v rest (fun node hn => ser_tr key node hn)
      (fun node hn => ser_tr v node hn)
      (fun k hok => serEntries_tr rest k hok) k hok

end

end main
end Avro.Theorems
