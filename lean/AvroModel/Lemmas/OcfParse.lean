import AvroModel.Lemmas.OcfWriter
import AvroModel.Lemmas.Varint
import AvroModel.Lemmas.SpecRoundTrip
import AvroModel.Spec.Ocf
/-
The bytes the writer model puts in the sink (header, blocks) are read back by the independent
container-file parser of the specification (`Spec/Ocf.lean`).
-/
namespace Avro.Impl.Ocf

open Avro Avro.Impl Avro.Spec Avro.Spec.Ocf

theorem encodeVarI64_nat (n : Nat) (h : n < 2 ^ 63) : encodeVarI64 (n : Int) = encodeLong (n : Int) :=
  encodeVarI64_eq_spec _ (inI64_of_lt h)

theorem encodeLong_ne_nil (i : Int) : encodeLong i ≠ [] := encodeNat_ne_nil _

/-! ### Data blocks -/

theorem parseBlocks_cons (sync data R : Bytes) (k fuel : Nat) (hsync : sync.length = 16)
    (hk : k < 2 ^ 63) (hl : data.length < 2 ^ 63) :
    parseBlocks sync (fuel + 1)
        (encodeLong (k : Int) ++ (encodeLong (data.length : Int) ++ (data ++ (sync ++ R)))) =
      ({ count := k, data := data } :: (parseBlocks sync fuel R).1,
        (parseBlocks sync fuel R).2.1, (parseBlocks sync fuel R).2.2) := by
  conv => lhs; unfold parseBlocks
  have hne : (encodeLong (k : Int) ++ (encodeLong (data.length : Int) ++ (data ++ (sync ++ R)))).isEmpty
      = false := by
    have := encodeLong_ne_nil (k : Int)
    cases h : encodeLong (k : Int) with
    | nil => exact absurd h this
    | cons x xs => rfl
  have hk0 : ¬ ((k : Int) < 0) := by omega
  have hl0 : ¬ ((data.length : Int) < 0) := by omega
  have hlen : ¬ ((data ++ (sync ++ R)).length < data.length + 16) := by
    simp only [List.length_append, hsync]; omega
  have htake : ((data ++ (sync ++ R)).drop data.length).take 16 = sync := by
    rw [List.drop_left, ← hsync, List.take_left]
  have hdrop : (data ++ (sync ++ R)).drop (data.length + 16) = R := by
    rw [← List.drop_drop, List.drop_left, ← hsync, List.drop_left]
  simp only [hne, Bool.false_eq_true, if_false, decodeLong_encodeLong _ (inI64_of_lt hk),
    decodeLong_encodeLong _ (inI64_of_lt hl), hk0, hl0, Int.toNat_natCast, hlen, htake, hdrop,
    List.take_left, ne_eq, not_true_eq_false]

/-- The blocks written are read back one by one, nothing is left over, all markers match. -/
theorem parseBlocks_blocksBytes (c : Codec) (sync : Bytes) (hsync : sync.length = 16)
    (blocks : List (Nat × Bytes))
    (hb : ∀ b ∈ blocks, b.1 < 2 ^ 63 ∧ (codecData c b.2).length < 2 ^ 63)
    (fuel : Nat) (hf : blocks.length < fuel) :
    parseBlocks sync fuel (blocksBytes c sync blocks) =
      (blocks.map (fun b => { count := b.1, data := codecData c b.2 }), 0, false) := by
  induction blocks generalizing fuel with
  | nil =>
    cases fuel with
    | zero => simp at hf
    | succ fuel => simp [blocksBytes, parseBlocks]
  | cons b blocks ih =>
    cases fuel with
    | zero => simp at hf
    | succ fuel =>
      obtain ⟨hk, hl⟩ := hb b (by simp)
      have e : blocksBytes c sync (b :: blocks) =
          encodeLong (b.1 : Int) ++ (encodeLong ((codecData c b.2).length : Int) ++
            (codecData c b.2 ++ (sync ++ blocksBytes c sync blocks))) := by
        simp only [blocksBytes, List.map_cons, List.flatten_cons, blockBytes, List.append_assoc,
          encodeVarI64_nat _ hk, encodeVarI64_nat _ hl]
      rw [e, parseBlocks_cons sync _ _ _ _ hsync hk hl,
        ih (fun x hx => hb x (List.mem_cons_of_mem _ hx)) fuel (by simpa using hf)]
      simp

theorem length_le_blocksBytes (c : Codec) (sync : Bytes) (hsync : sync.length = 16)
    (blocks : List (Nat × Bytes)) : blocks.length ≤ (blocksBytes c sync blocks).length := by
  induction blocks with
  | nil => simp
  | cons b blocks ih =>
    have e : blocksBytes c sync (b :: blocks) = blockBytes c sync b ++ blocksBytes c sync blocks := by
      simp [blocksBytes]
    rw [e, List.length_append, List.length_cons]
    have : 16 ≤ (blockBytes c sync b).length := by
      simp only [blockBytes, List.length_append, hsync]; omega
    omega

/-! ### File metadata -/

/-- `metaBytes` is a file-metadata map the specification parser reads as `md`, whatever follows
    and with any sufficient fuel. -/
def MetaParses (metaBytes : Bytes) (md : List (Bytes × Bytes)) : Prop :=
  ∀ (rest : Bytes) (fuel : Nat), metaBytes.length < fuel →
    parseMeta fuel (metaBytes ++ rest) = some (md, rest)

/-- The file as the specification parser sees it. -/
theorem parse_file (c : Codec) (metaBytes sync : Bytes) (md : List (Bytes × Bytes))
    (blocks : List (Nat × Bytes)) (hmeta : MetaParses metaBytes md) (hsync : sync.length = 16)
    (hb : ∀ b ∈ blocks, b.1 < 2 ^ 63 ∧ (codecData c b.2).length < 2 ^ 63) :
    parse (magic ++ metaBytes ++ sync ++ blocksBytes c sync blocks) =
      some { metadata := md, sync := sync,
             blocks := blocks.map (fun b => { count := b.1, data := codecData c b.2 }),
             trailing := 0, badSync := false } := by
  have hlenBB := length_le_blocksBytes c sync hsync blocks
  unfold parse
  have h4 : (magic ++ metaBytes ++ sync ++ blocksBytes c sync blocks).take 4 = magic := by
    simp only [List.append_assoc]
    exact List.take_left' rfl
  have hd4 : (magic ++ metaBytes ++ sync ++ blocksBytes c sync blocks).drop 4
      = metaBytes ++ (sync ++ blocksBytes c sync blocks) := by
    simp only [List.append_assoc]
    exact List.drop_left' rfl
  have hm := hmeta (sync ++ blocksBytes c sync blocks)
    ((magic ++ metaBytes ++ sync ++ blocksBytes c sync blocks).length + 1)
    (by simp only [List.length_append]; omega)
  have h16 : ¬ ((sync ++ blocksBytes c sync blocks).length < 16) := by
    simp only [List.length_append, hsync]; omega
  have ht16 : (sync ++ blocksBytes c sync blocks).take 16 = sync := List.take_left' hsync
  have hd16 : (sync ++ blocksBytes c sync blocks).drop 16 = blocksBytes c sync blocks :=
    List.drop_left' hsync
  have hpb := parseBlocks_blocksBytes c sync hsync blocks hb
    ((magic ++ metaBytes ++ sync ++ blocksBytes c sync blocks).length + 1)
    (by simp only [List.length_append]; omega)
  simp only [h4, ne_eq, not_true_eq_false, if_false, hd4, hm, h16, ht16, hd16, hpb]

/-! ### The header the writer emits -/

def metaEntry (k v : Bytes) : Bytes :=
  encodeVarI64 1 ++ encodeVarI64 k.length ++ k ++ encodeVarI64 v.length ++ v

/-- The metadata map as `build_with_user_metadata` serializes it: one block per entry. -/
def metaBytesOf (entries : List (Bytes × Bytes)) : Bytes :=
  (entries.map fun (k, v) => metaEntry k v).flatten ++ encodeVarI64 0

theorem encodeVarI64_zero : encodeVarI64 0 = [0] := by
  have := encodeVarI64_nat 0 (by omega)
  rw [show ((0 : Nat) : Int) = 0 from rfl] at this
  rw [this]
  unfold encodeLong zigzag; simp; unfold encodeNat; simp

theorem parseMeta_entry (k v rest : Bytes) (fuel : Nat) (hk : k.length < 2 ^ 63)
    (hv : v.length < 2 ^ 63) :
    parseMeta (fuel + 1) (metaEntry k v ++ rest) =
      match parseMeta fuel rest with
      | none => none
      | some (more, rest'') => some ([(k, v)] ++ more, rest'') := by
  have e : metaEntry k v ++ rest =
      encodeLong ((1 : Nat) : Int) ++ (lenPrefixed k ++ (lenPrefixed v ++ rest)) := by
    simp only [metaEntry, lenPrefixed, List.append_assoc, encodeVarI64_nat _ hk,
      encodeVarI64_nat _ hv]
    rw [← encodeVarI64_nat 1 (by omega)]; rfl
  rw [e]
  conv => lhs; unfold parseMeta
  rw [decodeBlockHeader_encodeLong 1 (by omega)]
  simp only [parseMetaItems, decodeBytes_lenPrefixed _ hk, decodeBytes_lenPrefixed _ hv]
  cases parseMeta fuel rest with
  | none => rfl
  | some p => rfl

theorem metaEntry_length_pos (k v : Bytes) : 0 < (metaEntry k v).length := by
  have h1 : encodeVarI64 1 ≠ [] := by
    rw [show (1 : Int) = ((1 : Nat) : Int) from rfl, encodeVarI64_nat 1 (by omega)]
    exact encodeLong_ne_nil _
  have := List.length_pos_iff.2 h1
  simp only [metaEntry, List.length_append]
  omega

theorem metaParses_metaBytesOf (entries : List (Bytes × Bytes))
    (h : ∀ e ∈ entries, e.1.length < 2 ^ 63 ∧ e.2.length < 2 ^ 63) :
    MetaParses (metaBytesOf entries) entries := by
  intro rest fuel hf
  induction entries generalizing fuel with
  | nil =>
    cases fuel with
    | zero => simp at hf
    | succ fuel =>
      simp only [metaBytesOf, List.map_nil, List.flatten_nil, List.nil_append, encodeVarI64_zero,
        List.cons_append]
      unfold parseMeta
      rw [decodeBlockHeader_zero]
      rfl
  | cons e entries ih =>
    obtain ⟨k, v⟩ := e
    cases fuel with
    | zero => simp at hf
    | succ fuel =>
      obtain ⟨hk, hv⟩ := h (k, v) (by simp)
      have e1 : metaBytesOf ((k, v) :: entries) ++ rest
          = metaEntry k v ++ (metaBytesOf entries ++ rest) := by
        simp [metaBytesOf]
      have hlen : (metaBytesOf entries).length < fuel := by
        have : (metaBytesOf ((k, v) :: entries)).length
            = (metaEntry k v).length + (metaBytesOf entries).length := by
          simp [metaBytesOf]
        have := metaEntry_length_pos k v
        omega
      rw [e1, parseMeta_entry k v _ fuel hk hv,
        ih (fun x hx => h x (List.mem_cons_of_mem _ hx)) fuel hlen]
      simp

/-- The model's header is magic, the metadata map (schema, codec, user entries), the marker. -/
theorem headerBytes_eq (schemaJson codecName : Bytes) (userMeta : List (Bytes × Bytes)) (sync : Bytes) :
    headerBytes schemaJson codecName userMeta sync =
      magic ++ metaBytesOf (("avro.schema".toUTF8.data.toList, schemaJson) ::
        ("avro.codec".toUTF8.data.toList, codecName) :: userMeta) ++ sync := by
  simp [headerBytes, metaBytesOf, metaEntry, magic]

end Avro.Impl.Ocf
