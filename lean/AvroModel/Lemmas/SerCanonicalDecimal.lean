import AvroModel.Lemmas.SerSoundMain
/-
Canonical form of the decimal encoders: the two's-complement strings `serDecimal` (through
`canTruncate`) and `serIntegerAsDecimal` (through `stripZeros`, for non-negative integers) write
are the *shortest* two's-complement representations, i.e. exactly what `Spec.encode` writes
(`twosComplementBE (minimalLen u) u`).
-/
namespace Avro.Canon
open Avro Avro.Spec Avro.Impl

/-! ### `twosComplementBE` inverts `fromTwosComplementBE` -/

theorem beBytes_beToNat (m : Bytes) : beBytes m.length (beToNat m) = m := by
  have := leBytes_leToNat m.reverse
  rw [List.length_reverse] at this
  simp [beBytes, beToNat, this]

theorem twos_of_fromTwos (m : Bytes) :
    twosComplementBE m.length (fromTwosComplementBE m) = some m := by
  cases m with
  | nil => simp [twosComplementBE, fromTwosComplementBE]
  | cons b tl =>
    have hbe := beBytes_beToNat (b :: tl)
    rw [fromTwos_cons, ← beToNat_cons]
    have hlt := beToNat_lt (b :: tl)
    have hcons := beToNat_cons b tl
    have htl := beToNat_lt tl
    simp only [List.length_cons] at hbe hlt ⊢
    unfold twosComplementBE
    rw [if_neg (by omega), pow2_8succ_pred, pow2_8succ]
    rw [Nat.pow_succ, Nat.mul_comm (256 ^ tl.length) 256] at hlt ⊢
    generalize 256 ^ tl.length = Q at *
    generalize beToNat (b :: tl) = X at *
    generalize hP : b.toNat * Q = P at *
    by_cases hb : b.toNat ≥ 128
    · have h1 : 128 * Q ≤ P := by rw [← hP]; exact Nat.mul_le_mul_right _ hb
      rw [if_pos hb]
      have hr : -((128 * Q : Nat) : Int) ≤ (X : Int) - ((256 * Q : Nat) : Int) ∧
          (X : Int) - ((256 * Q : Nat) : Int) < ((128 * Q : Nat) : Int) := by omega
      rw [if_pos hr]
      have hm : ((X : Int) - ((256 * Q : Nat) : Int)) % ((256 * Q : Nat) : Int) = (X : Int) := by
        rw [Int.sub_emod_right]
        exact Int.emod_eq_of_lt (by omega) (by omega)
      rw [hm, Int.toNat_natCast, hbe]
    · have h1 : P ≤ 127 * Q := by
        rw [← hP]; exact Nat.mul_le_mul_right _ (by omega)
      rw [if_neg hb]
      have hr : -((128 * Q : Nat) : Int) ≤ (X : Int) - 0 ∧ (X : Int) - 0 < ((128 * Q : Nat) : Int) := by
        omega
      rw [if_pos hr]
      have hm : ((X : Int) - 0) % ((256 * Q : Nat) : Int) = (X : Int) := by
        rw [Int.sub_zero]
        exact Int.emod_eq_of_lt (by omega) (by omega)
      rw [hm, Int.toNat_natCast, hbe]

/-! ### Shortest representations -/

/-- `u` fits `k` bytes of two's complement -/
def Fits (k : Nat) (u : Int) : Prop := -(2 : Int) ^ (8 * k - 1) ≤ u ∧ u < (2 : Int) ^ (8 * k - 1)

instance (k : Nat) (u : Int) : Decidable (Fits k u) := by unfold Fits; infer_instance

theorem two_pow_mono {a b : Nat} (h : a ≤ b) : (2 : Int) ^ a ≤ (2 : Int) ^ b := by
  have : (2 : Nat) ^ a ≤ (2 : Nat) ^ b := Nat.pow_le_pow_right (by omega) h
  have h1 : ((2 ^ a : Nat) : Int) ≤ ((2 ^ b : Nat) : Int) := by exact_mod_cast this
  simpa using h1

theorem Fits.mono {k k' : Nat} {u : Int} (h : Fits k u) (hk : k ≤ k') : Fits k' u := by
  have := two_pow_mono (a := 8 * k - 1) (b := 8 * k' - 1) (by omega)
  unfold Fits at *
  omega

theorem minimalLen_go_eq (u : Int) (n : Nat) (hfit : Fits n u) :
    ∀ fuel j, j ≤ n → n - j < fuel → (∀ i, j ≤ i → i < n → ¬ Fits i u) →
      minimalLen.go u fuel j = n := by
  intro fuel
  induction fuel with
  | zero => intro j _ h; omega
  | succ fuel ih =>
    intro j hj hf hno
    unfold minimalLen.go
    by_cases hjn : j = n
    · subst hjn
      have : -(2 : Int) ^ (8 * j - 1) ≤ u ∧ u < (2 : Int) ^ (8 * j - 1) := hfit
      rw [if_pos this]
    · have hnf : ¬ (-(2 : Int) ^ (8 * j - 1) ≤ u ∧ u < (2 : Int) ^ (8 * j - 1)) :=
        hno j (Nat.le_refl _) (by omega)
      rw [if_neg hnf]
      exact ih (j + 1) (by omega) (by omega) (fun i hi hin => hno i (by omega) hin)

theorem minimalLen_eq {u : Int} {n : Nat} (h1 : 1 ≤ n) (h64 : n ≤ 64) (hfit : Fits n u)
    (hmin : n = 1 ∨ ¬ Fits (n - 1) u) : minimalLen u = n := by
  unfold minimalLen
  refine minimalLen_go_eq u n hfit 64 1 h1 (by omega) ?_
  intro i hi hin hfi
  rcases hmin with h | h
  · omega
  · exact h (hfi.mono (by omega))

/-- no leading byte is mere sign extension -/
def Minimal : Bytes → Prop
  | h :: h2 :: _ => ¬ ((h = 0 ∧ h2.toNat < 128) ∨ (h = 255 ∧ h2.toNat ≥ 128))
  | [_] => True
  | [] => False

theorem fits_of_length (m : Bytes) (hne : m ≠ []) : Fits m.length (fromTwosComplementBE m) := by
  have h := twos_of_fromTwos m
  unfold twosComplementBE at h
  have hl : m.length ≠ 0 := by
    intro h0; exact hne (List.length_eq_zero_iff.1 h0)
  rw [if_neg hl] at h
  by_cases hc : -(2 : Int) ^ (8 * m.length - 1) ≤ fromTwosComplementBE m ∧
      fromTwosComplementBE m < (2 : Int) ^ (8 * m.length - 1)
  · exact hc
  · rw [if_neg hc] at h; cases h

theorem toNat_eq_zero_of {h : UInt8} (h0 : h.toNat = 0) : h = 0 := by
  apply UInt8.toNat_inj.1; simpa using h0

theorem toNat_eq_255_of {h : UInt8} (h0 : h.toNat = 255) : h = 255 := by
  apply UInt8.toNat_inj.1; simpa using h0

theorem not_fits_pred (h h2 : UInt8) (tl : Bytes)
    (hmin : ¬ ((h = 0 ∧ h2.toNat < 128) ∨ (h = 255 ∧ h2.toNat ≥ 128))) :
    ¬ Fits (tl.length + 1) (fromTwosComplementBE (h :: h2 :: tl)) := by
  intro hf
  unfold Fits at hf
  rw [pow2_8succ_pred, fromTwos_cons, beToNat_cons] at hf
  have htl := beToNat_lt tl
  have hh := h.toNat_lt
  have hh2 := h2.toNat_lt
  simp only [List.length_cons, Nat.pow_succ] at hf
  generalize 256 ^ tl.length = Q at *
  generalize beToNat tl = T at *
  have hQ : 0 < Q := by omega
  generalize hP : h.toNat * (Q * 256) = P at *
  generalize hP2 : h2.toNat * Q = P2 at *
  apply hmin
  by_cases hb : h.toNat ≥ 128
  · rw [if_pos hb] at hf
    right
    -- P + P2 + T - 256 * 256 * Q ≥ -128 Q
    have hh255 : h.toNat = 255 := by
      rcases Nat.lt_or_ge h.toNat 255 with hlt | hge
      · exfalso
        have : P ≤ 254 * (Q * 256) := by rw [← hP]; exact Nat.mul_le_mul_right _ (by omega)
        have : P2 ≤ 255 * Q := by rw [← hP2]; exact Nat.mul_le_mul_right _ (by omega)
        omega
      · omega
    refine ⟨toNat_eq_255_of hh255, ?_⟩
    rcases Nat.lt_or_ge h2.toNat 128 with hlt | hge
    · exfalso
      have : P = 255 * (Q * 256) := by rw [← hP, hh255]
      have : P2 ≤ 127 * Q := by rw [← hP2]; exact Nat.mul_le_mul_right _ (by omega)
      omega
    · exact hge
  · rw [if_neg hb] at hf
    left
    have hh0 : h.toNat = 0 := by
      rcases Nat.eq_zero_or_pos h.toNat with h0 | hpos
      · exact h0
      · exfalso
        have : 1 * (Q * 256) ≤ P := by rw [← hP]; exact Nat.mul_le_mul_right _ hpos
        omega
    refine ⟨toNat_eq_zero_of hh0, ?_⟩
    rcases Nat.lt_or_ge h2.toNat 128 with hlt | hge
    · exact hlt
    · exfalso
      have : P = 0 := by rw [← hP, hh0]; simp
      have : 128 * Q ≤ P2 := by rw [← hP2]; exact Nat.mul_le_mul_right _ hge
      omega

/-- a minimal string of at most 64 bytes is the canonical representation of its value -/
theorem twos_minimal (m : Bytes) (hmin : Minimal m) (hlen : m.length ≤ 64) :
    twosComplementBE (minimalLen (fromTwosComplementBE m)) (fromTwosComplementBE m) = some m := by
  have hne : m ≠ [] := by intro h; subst h; exact hmin
  have hl : minimalLen (fromTwosComplementBE m) = m.length := by
    refine minimalLen_eq ?_ hlen (fits_of_length m hne) ?_
    · cases m with
      | nil => exact absurd rfl hne
      | cons _ _ => simp
    · match m, hmin with
      | [_], _ => left; rfl
      | h :: h2 :: tl, hmin =>
        right
        have := not_fits_pred h h2 tl hmin
        simpa using this
  rw [hl]
  exact twos_of_fromTwos m

/-! ### `canTruncate` drops a maximal sign prefix -/

theorem le_takeWhile_length {α} (p : α → Bool) (l : List α) (r : Nat) (hr : r ≤ l.length)
    (h : ∀ x ∈ l.take r, p x = true) : r ≤ (l.takeWhile p).length := by
  induction l generalizing r with
  | nil => simpa using hr
  | cons a l ih =>
    cases r with
    | zero => omega
    | succ r =>
      have ha : p a = true := h a (by simp)
      simp only [List.takeWhile_cons, ha, if_true, List.length_cons]
      have := ih r (by simpa using hr) (fun x hx => h x (by simp [hx]))
      omega

theorem signPrefix_le_canTruncate (buf : Bytes) (r : Nat) (hsp : SignPrefix buf r) :
    r ≤ canTruncate buf := by
  have hrl := hsp.lt_length
  obtain ⟨fill', h, tl, hall, hd, hs⟩ := hsp
  cases r with
  | zero => omega
  | succ r =>
  cases buf with
  | nil => simp at hrl
  | cons b0 rest =>
    have hb0 : b0 = fill' := hall b0 (by simp)
    unfold canTruncate
    simp only []
    generalize hbuf : b0 :: rest = buf at *
    have hb0s : (b0.toNat &&& 0x80 = 0) ↔ b0.toNat < 128 := and_128_eq_zero_iff _ b0.toNat_lt
    have hfill : (if b0.toNat &&& 0x80 = 0 then (0x00 : UInt8) else 0xFF) = fill' := by
      rcases hs with ⟨rfl, _⟩ | ⟨rfl, _⟩
      · subst hb0; rfl
      · subst hb0; rfl
    rw [hfill]
    generalize ht : (buf.takeWhile (fun x => decide (x = fill'))).length = t
    have hrt : r + 1 ≤ t := by
      rw [← ht]
      exact le_takeWhile_length _ buf (r + 1) (by omega) (fun x hx => by simpa using hall x hx)
    rw [if_pos (by omega)]
    cases hv : buf[t]? with
    | none =>
      simp only []
      have := List.getElem?_eq_none_iff.1 hv
      omega
    | some v =>
      simp only []
      split
      · omega
      · rename_i hne
        -- then `r + 1 < t`
        rcases Nat.lt_or_ge (r + 1) t with hlt | hge
        · omega
        · exfalso
          have hrt' : r + 1 = t := by omega
          have hh : buf[t]? = some h := by
            have := List.getElem?_drop (xs := buf) (i := r + 1) (j := 0)
            rw [hd] at this
            rw [← hrt']; simpa using this.symm
          rw [hv] at hh
          simp only [Option.some.injEq] at hh
          subst hh
          have hvs : (v.toNat &&& 0x80 = 0) ↔ v.toNat < 128 := and_128_eq_zero_iff _ v.toNat_lt
          apply hne
          apply propext
          rcases hs with ⟨rfl, hvl⟩ | ⟨rfl, hvl⟩
          · subst hb0
            constructor
            · intro _; rfl
            · intro _; exact hvs.2 hvl
          · subst hb0
            constructor
            · intro hc; have := hvs.1 hc; omega
            · intro hc; exact absurd hc (by decide)

theorem minimal_of_max_signPrefix (buf : Bytes) (c : Nat) (hsp : SignPrefix buf c)
    (hmax : ∀ r, SignPrefix buf r → r ≤ c) : Minimal (buf.drop c) := by
  obtain ⟨fill, h, tl, hall, hd, hs⟩ := hsp
  rw [hd]
  cases tl with
  | nil => trivial
  | cons h2 tl' =>
    show ¬ _
    intro hext
    have hclt : c < buf.length := by
      have : (buf.drop c).length = (h2 :: tl').length + 1 := by rw [hd]; rfl
      rw [List.length_drop] at this
      simp at this; omega
    have hhc : buf[c]? = some h := by
      have := List.getElem?_drop (xs := buf) (i := c) (j := 0)
      rw [hd] at this; simpa using this.symm
    have hhfill : h = fill := by
      rcases hext with ⟨rfl, _⟩ | ⟨rfl, _⟩
      · rcases hs with ⟨rfl, _⟩ | ⟨rfl, hc⟩
        · rfl
        · exact absurd hc (by decide)
      · rcases hs with ⟨rfl, hc⟩ | ⟨rfl, _⟩
        · exact absurd hc (by decide)
        · rfl
    have : SignPrefix buf (c + 1) := by
      refine ⟨fill, h2, tl', ?_, ?_, ?_⟩
      · intro x hx
        rw [List.take_add_one, List.mem_append] at hx
        rcases hx with hx | hx
        · exact hall x hx
        · rw [hhc] at hx; simp at hx; rw [hx, hhfill]
      · have : buf.drop (c + 1) = (buf.drop c).drop 1 := by simp
        rw [this, hd]; rfl
      · subst hhfill
        rcases hext with ⟨rfl, h2l⟩ | ⟨rfl, h2l⟩
        · left; exact ⟨rfl, h2l⟩
        · right; exact ⟨rfl, h2l⟩
    have := hmax _ this
    omega

theorem canTruncate_minimal (buf : Bytes) (hne : buf ≠ []) :
    Minimal (buf.drop (canTruncate buf)) :=
  minimal_of_max_signPrefix buf _ (canTruncate_signPrefix buf hne)
    (fun r hr => signPrefix_le_canTruncate buf r hr)

/-! ### `stripZeros` on a non-negative number -/

theorem stripZeros_minimal (bs : Bytes) (hne : bs ≠ [])
    (hhead : ∀ b, bs.head? = some b → b.toNat < 128) :
    Minimal (bs.drop (stripZeros bs)) := by
  fun_induction stripZeros bs with
  | case1 b0 b1 rest hc ih =>
    have h1 : b1.toNat < 128 := (and_128_eq_zero_iff _ b1.toNat_lt).1 hc.2
    rw [Nat.add_comm, List.drop_succ_cons]
    exact ih (by simp) (fun b hb => by simp at hb; subst hb; exact h1)
  | case2 b0 b1 rest hc =>
    simp only [List.drop_zero]
    show ¬ _
    have hb0 := hhead b0 (by simp)
    have h1 : (b1.toNat &&& 0x80 = 0) ↔ b1.toNat < 128 := and_128_eq_zero_iff _ b1.toNat_lt
    rintro (⟨rfl, hb1⟩ | ⟨rfl, _⟩)
    · exact hc ⟨rfl, h1.2 hb1⟩
    · exact absurd hb0 (by decide)
  | case3 bs hnot =>
    simp only [List.drop_zero]
    match bs, hne, hnot with
    | [_], _, _ => trivial
    | b0 :: b1 :: rest, _, hnot => exact absurd rfl (hnot b0 b1 rest)

theorem i128be_head_nonneg {n : Int} (h : inI128 n = true) (h0 : 0 ≤ n) :
    ∀ b, (i128be n).head? = some b → b.toNat < 128 := by
  intro b hb
  have hrt := i128be_roundtrip h
  have hlen := i128be_length n
  cases hbuf : i128be n with
  | nil => rw [hbuf] at hb; simp at hb
  | cons b' tl =>
    rw [hbuf] at hb hrt hlen
    simp at hb; subst hb
    rw [fromTwos_cons] at hrt
    have hlt := beToNat_lt (b' :: tl)
    rw [beToNat_cons] at hlt
    simp only [List.length_cons] at hlt
    rcases Nat.lt_or_ge b'.toNat 128 with hl | hge
    · exact hl
    · exfalso
      rw [if_pos hge] at hrt
      omega

/-! ### The decimal writers, with the exact bytes -/

theorem serDecimal_regular_bytes_canon (ext : Ext) (scale : Nat) (d : Int × Nat) (s : SerState)
    (h : s.budget = none) (hr : inI128 (ext.decRescale d scale).1 = true)
    (hok : (serDecimal ext (.regular scale .bytes) d s).1 = .ok ()) :
    (ext.decRescale d scale).2 = scale ∧
    ∃ m : Bytes, m.length ≤ 16 ∧ Minimal m ∧
      serDecimal ext (.regular scale .bytes) d s = (.ok (), { s with out := s.out ++ lenPrefixed m }) ∧
      fromTwosComplementBE m = (ext.decRescale d scale).1 := by
  unfold serDecimal at hok ⊢
  simp only [bind, pure] at hok ⊢
  by_cases hsc : (ext.decRescale d scale).2 = scale
  case neg => simp [hsc, SerM.fail] at hok
  refine ⟨hsc, ?_⟩
  generalize ext.decRescale d scale = d' at *
  simp only [hsc, ne_eq, not_true_eq_false, if_false]
  have hlt := canTruncate_i128be_lt d'.1
  have hlen := i128be_length d'.1
  have hne : i128be d'.1 ≠ [] := by intro h0; rw [h0] at hlen; simp at hlen
  have hsound := (canTruncate_signPrefix (i128be d'.1) hne).sound
  have hmin := canTruncate_minimal (i128be d'.1) hne
  rw [i128be_roundtrip hr] at hsound
  generalize i128be d'.1 = buf at *
  generalize canTruncate buf = start at *
  have hm : ((buf.drop start).length : Int) = 16 - (start : Int) := by
    rw [List.length_drop, hlen]; omega
  refine ⟨buf.drop start, by simp [hlen], hmin, ?_, hsound⟩
  rw [← hm, writeVarI64_spec _ (inI64_of_lt (by simp [hlen]; omega)) s h]
  simp only []
  rw [writeAll_none _ _ (by simpa using h)]
  simp [lenPrefixed]

theorem serDecimal_big_canon (ext : Ext) (d : Int × Nat) (s : SerState) (h : s.budget = none)
    (hr : inI128 d.1 = true) (hsc : d.2 < 2 ^ 63) :
    ∃ m : Bytes, m.length ≤ 16 ∧ Minimal m ∧
      serDecimal ext .big d s =
        (.ok (), { s with out := s.out ++ lenPrefixed (lenPrefixed m ++ encodeLong d.2) }) ∧
      fromTwosComplementBE m = d.1 := by
  unfold serDecimal
  simp only [bind, pure]
  have hlt := canTruncate_i128be_lt d.1
  have hlen := i128be_length d.1
  have hne : i128be d.1 ≠ [] := by intro h0; rw [h0] at hlen; simp at hlen
  have hsound := (canTruncate_signPrefix (i128be d.1) hne).sound
  have hmin := canTruncate_minimal (i128be d.1) hne
  rw [i128be_roundtrip hr] at hsound
  generalize i128be d.1 = buf at *
  generalize canTruncate buf = start at *
  have hml : (buf.drop start).length = 16 - start := by rw [List.length_drop, hlen]
  refine ⟨buf.drop start, by omega, hmin, ?_, hsound⟩
  have hi1 : InI64 ((16 - start : Nat) : Int) := inI64_of_lt (by omega)
  have hi2 : InI64 (d.2 : Int) := inI64_of_lt hsc
  have hl1 := encodeVarI64_length_le _ hi1
  have hl2 := encodeVarI64_length_le _ hi2
  rw [encodeVarI64_eq_spec _ hi1] at hl1 ⊢
  rw [encodeVarI64_eq_spec _ hi2] at hl2 ⊢
  have hL : ((lenPrefixed (buf.drop start) ++ encodeLong d.2).length : Int) =
      ((encodeLong ((16 - start : Nat) : Int)).length : Int) + ((16 - start : Nat) : Int) +
        ((encodeLong (d.2 : Int)).length : Int) := by
    simp only [lenPrefixed, List.length_append, hml]
    omega
  have hLlt : (lenPrefixed (buf.drop start) ++ encodeLong d.2).length < 2 ^ 63 := by
    simp only [lenPrefixed, List.length_append, hml]
    omega
  rw [← hL, writeVarI64_spec _ (inI64_of_lt hLlt) s h]
  simp only []
  rw [writeAll_none _ _ (by simpa using h)]
  simp only []
  rw [writeAll_none _ _ (by simpa using h)]
  simp only []
  by_cases hne : encodeLong (d.2 : Int) ≠ []
  · rw [if_pos hne, writeAll_none _ _ (by simpa using h)]
    simp [lenPrefixed, hml]
  · exact absurd (encodeNat_ne_nil _) hne

/-- a non-negative integer on a `decimal`/`bytes` node: the zero-stripped string is minimal -/
theorem serIntegerAsDecimal_bytes_canon (scale : Nat) (v : Int) (s : SerState)
    (h : s.budget = none) (hv : 0 ≤ v) :
    (serIntegerAsDecimal scale .bytes v s).1 = .ok () →
    ∃ m : Bytes, m.length ≤ 16 ∧ Minimal m ∧
      serIntegerAsDecimal scale .bytes v s = (.ok (), { s with out := s.out ++ lenPrefixed m }) ∧
      fromTwosComplementBE m = v * (10 : Int) ^ scale := by
  intro hok
  unfold serIntegerAsDecimal at hok ⊢
  by_cases h1 : inI128 v = true
  case neg => simp [h1, SerM.fail] at hok
  by_cases h2 : inI128 ((10 : Int) ^ scale) = true
  case neg => simp [h1, h2, SerM.fail] at hok
  by_cases h3 : inI128 (v * (10 : Int) ^ scale) = true
  case neg => simp [h1, h2, h3, SerM.fail] at hok
  simp only [h1, h2, h3, Bool.not_true, Bool.false_eq_true, if_false]
  have hn0 : 0 ≤ v * (10 : Int) ^ scale := Int.mul_nonneg hv (Int.pow_nonneg (by omega))
  have hlen := i128be_length (v * 10 ^ scale)
  have hne : i128be (v * 10 ^ scale) ≠ [] := by intro h0; rw [h0] at hlen; simp at hlen
  refine ⟨(i128be (v * 10 ^ scale)).drop (stripZeros (i128be (v * 10 ^ scale))), ?_,
    stripZeros_minimal _ hne (i128be_head_nonneg h3 hn0), ?_, ?_⟩
  · simp [i128be_length]
  · have hl : ((i128be (v * 10 ^ scale)).drop (stripZeros (i128be (v * 10 ^ scale)))).length < 2 ^ 63 := by
      simp [i128be_length]; omega
    exact writeLengthDelimited_none _ hl s h
  · rw [stripZeros_sound, i128be_roundtrip h3]

end Avro.Canon
