import AvroModel.Lemmas.PcfCanon
/-
C08 (injectivity part): the text of a canonical structure can be parsed back.

`Spec.Pcf.print` writes a JSON string RAW between two quotes (no escaping), so the text determines
the structure only if the strings of the structure (fullnames, field names, symbols) contain no
`"`; and a reference whose fullname is a primitive type name is written like the primitive.
`Canon.namesOk` is that (decidable) condition.  Under it, `parseF` (a recursive-descent parser
with fuel) is a left inverse of `Canon.chars`, whatever follows the text:
`parseF_chars : c.namesOk → c.size ≤ fuel → parseF fuel (c.chars ++ rest) = some (c, rest)`.
-/
namespace Avro.Spec.Pcf
open Avro.Impl (Json)

/-! ### the condition on the strings -/

/-- no `"` in the string -/
def strOk (s : String) : Bool := s.toList.all (· != '"')

mutual

/-- every fullname, field name and symbol is free of `"`, and no reference bears a primitive
    type name -/
def Canon.namesOk : Canon → Bool
  | .prim _ => true
  | .ref n => strOk n && !isPrimitive n
  | .array i => i.namesOk
  | .map v => v.namesOk
  | .union bs => Canon.namesOkList bs
  | .enum n syms => strOk n && syms.all strOk
  | .fixed n _ => strOk n
  | .record n fs => strOk n && Canon.namesOkFields fs

def Canon.namesOkList : List Canon → Bool
  | [] => true
  | c :: cs => c.namesOk && Canon.namesOkList cs

def Canon.namesOkFields : List (String × Canon) → Bool
  | [] => true
  | (f, c) :: fs => strOk f && c.namesOk && Canon.namesOkFields fs

end

/-! ### fuel needed by the parser -/

mutual

def Canon.size : Canon → Nat
  | .prim _ => 1
  | .ref _ => 1
  | .array i => 1 + i.size
  | .map v => 1 + v.size
  | .union bs => 1 + Canon.sizeList bs
  | .enum _ syms => 2 + syms.length
  | .fixed _ _ => 1
  | .record _ fs => 1 + Canon.sizeFields fs

def Canon.sizeList : List Canon → Nat
  | [] => 1
  | c :: cs => 1 + c.size + Canon.sizeList cs

def Canon.sizeFields : List (String × Canon) → Nat
  | [] => 1
  | (_, c) :: fs => 2 + c.size + Canon.sizeFields fs

end

/-! ### lexical pieces -/

/-- the longest prefix without `"`, and what follows -/
def untilQuote : List Char → List Char × List Char
  | [] => ([], [])
  | c :: cs => if c = '"' then ([], c :: cs) else (c :: (untilQuote cs).1, (untilQuote cs).2)

theorem untilQuote_append (s r : List Char) (hs : s.all (· != '"') = true)
    (hr : r.head? = some '"') : untilQuote (s ++ r) = (s, r) := by
  induction s with
  | nil =>
    cases r with
    | nil => simp at hr
    | cons c r => simp at hr; subst hr; simp [untilQuote]
  | cons c s ih =>
    simp only [List.all_cons, Bool.and_eq_true, bne_iff_ne, ne_eq] at hs
    simp [untilQuote, hs.1, ih hs.2]

/-- the longest prefix of decimal digits, and what follows -/
def digitsOf : List Char → List Char × List Char
  | [] => ([], [])
  | c :: cs => if c.isDigit then (c :: (digitsOf cs).1, (digitsOf cs).2) else ([], c :: cs)

theorem digitsOf_append (s : List Char) (c : Char) (r : List Char)
    (hs : ∀ x ∈ s, x.isDigit = true) (hc : c.isDigit = false) :
    digitsOf (s ++ c :: r) = (s, c :: r) := by
  induction s with
  | nil => simp [digitsOf, hc]
  | cons x s ih =>
    have hx : x.isDigit = true := hs x (by simp)
    have := ih (fun y hy => hs y (by simp [hy]))
    simp [digitsOf, hx, this]

/-- a decimal number -/
def readNat (s : List Char) : Option (Nat × List Char) :=
  if (digitsOf s).1 = [] then none
  else some (Nat.ofDigitChars 10 (digitsOf s).1 0, (digitsOf s).2)

theorem readNat_toDigits (n : Nat) (c : Char) (r : List Char) (hc : c.isDigit = false) :
    readNat (Nat.toDigits 10 n ++ c :: r) = some (n, c :: r) := by
  have h := digitsOf_append (Nat.toDigits 10 n) c r
    (fun x hx => Nat.isDigit_of_mem_toDigits (by decide) (by decide) hx) hc
  simp [readNat, h, Nat.toDigits_ne_nil]

/-- `expect p s`: `s` without its prefix `p`, if `p` is a prefix of `s` -/
def expect : List Char → List Char → Option (List Char)
  | [], s => some s
  | _ :: _, [] => none
  | a :: p, b :: s => if a = b then expect p s else none

theorem expect_append (p s : List Char) : expect p (p ++ s) = some s := by
  induction p with
  | nil => simp [expect]
  | cons a p ih => simp [expect, ih]

/-- a quoted string alone is a primitive type name or a reference -/
def leafOf (s : List Char) : Canon :=
  match Prim.ofString? (String.ofList s) with
  | some p => .prim p
  | none => .ref (String.ofList s)

theorem leafOf_prim (p : Prim) : leafOf p.name.toList = .prim p := by
  simp [leafOf, String.ofList_toList, Prim.ofString?_name]

theorem leafOf_ref (n : String) (h : isPrimitive n = false) : leafOf n.toList = .ref n := by
  have : Prim.ofString? n = none := by
    rw [isPrimitive_eq] at h
    cases h' : Prim.ofString? n with
    | none => rfl
    | some p => rw [h'] at h; cases h
  simp [leafOf, String.ofList_toList, this]

theorem Prim.name_ok (p : Prim) : p.name.toList.all (· != '"') = true := by
  cases p <;> decide

/-! ### the symbols of an enum -/

/-- after a symbol: `]` or `,"symbol"` and so on -/
def readSymsTail : Nat → List Char → Option (List String × List Char)
  | 0, _ => none
  | _ + 1, [] => none
  | fuel + 1, c :: s =>
    if c = ']' then some ([], s)
    else if c = ',' then
      match expect ['"'] s with
      | none => none
      | some s =>
        match expect ['"'] (untilQuote s).2 with
        | none => none
        | some r =>
          match readSymsTail fuel r with
          | none => none
          | some (xs, r') => some (String.ofList (untilQuote s).1 :: xs, r')
    else none

/-- after `[`: `]` or `"symbol"` and the rest -/
def readSyms (fuel : Nat) : List Char → Option (List String × List Char)
  | [] => none
  | c :: s =>
    if c = ']' then some ([], s)
    else if c = '"' then
      match expect ['"'] (untilQuote s).2 with
      | none => none
      | some r =>
        match readSymsTail fuel r with
        | none => none
        | some (xs, r') => some (String.ofList (untilQuote s).1 :: xs, r')
    else none

theorem readSymsTail_chars (syms : List String) (fuel : Nat) (rest : List Char)
    (hok : syms.all strOk = true) (hf : syms.length < fuel) :
    readSymsTail fuel (symsCharsTail syms ++ ']' :: rest) = some (syms, rest) := by
  induction syms generalizing fuel with
  | nil =>
    cases fuel with
    | zero => omega
    | succ fuel => simp [symsCharsTail, readSymsTail]
  | cons x xs ih =>
    cases fuel with
    | zero => omega
    | succ fuel =>
      simp only [List.all_cons, Bool.and_eq_true] at hok
      have hq := untilQuote_append x.toList ('"' :: (symsCharsTail xs ++ ']' :: rest)) hok.1 rfl
      have hrec := ih fuel hok.2 (by simp at hf; omega)
      simp [symsCharsTail, readSymsTail, expect, hq, hrec, String.ofList_toList]

theorem readSyms_chars (syms : List String) (fuel : Nat) (rest : List Char)
    (hok : syms.all strOk = true) (hf : syms.length < fuel) :
    readSyms fuel (symsChars syms ++ ']' :: rest) = some (syms, rest) := by
  cases syms with
  | nil => simp [symsChars, readSyms]
  | cons x xs =>
    simp only [List.all_cons, Bool.and_eq_true] at hok
    have hq := untilQuote_append x.toList ('"' :: (symsCharsTail xs ++ ']' :: rest)) hok.1 rfl
    have hrec := readSymsTail_chars xs fuel rest hok.2 (by simp at hf; omega)
    simp [symsChars, readSyms, expect, hq, hrec, String.ofList_toList]

/-! ### objects: the case analysis, the recursive parsers being parameters -/

/-- `s` begins with `{`; `pf` parses a schema, `pfs` the fields of a record after `[` up to and
    including `]` -/
def parseObjWith (pf : List Char → Option (Canon × List Char))
    (pfs : List Char → Option (List (String × Canon) × List Char)) (fuel : Nat)
    (s : List Char) : Option (Canon × List Char) :=
  match expect kwArray s with
  | some r =>
    (match pf r with
     | some (i, r) =>
       (match expect ['}'] r with
        | some r => some (.array i, r)
        | none => none)
     | none => none)
  | none =>
  match expect kwMap s with
  | some r =>
    (match pf r with
     | some (v, r) =>
       (match expect ['}'] r with
        | some r => some (.map v, r)
        | none => none)
     | none => none)
  | none =>
  match expect kwName s with
  | none => none
  | some r =>
    match expect kwEnum (untilQuote r).2 with
    | some r' =>
      (match readSyms fuel r' with
       | some (syms, r'') =>
         (match expect ['}'] r'' with
          | some r''' => some (.enum (String.ofList (untilQuote r).1) syms, r''')
          | none => none)
       | none => none)
    | none =>
    match expect kwFixed (untilQuote r).2 with
    | some r' =>
      (match readNat r' with
       | some (size, r'') =>
         (match expect ['}'] r'' with
          | some r''' => some (.fixed (String.ofList (untilQuote r).1) size, r''')
          | none => none)
       | none => none)
    | none =>
    match expect kwRecord (untilQuote r).2 with
    | some r' =>
      (match pfs r' with
       | some (fs, r'') =>
         (match expect ['}'] r'' with
          | some r''' => some (.record (String.ofList (untilQuote r).1) fs, r''')
          | none => none)
       | none => none)
    | none => none

/-- one field `{"name":"f","type":T}`; `pf` parses a schema -/
def parseFieldWith (pf : List Char → Option (Canon × List Char)) (s : List Char) :
    Option ((String × Canon) × List Char) :=
  match expect kwName s with
  | none => none
  | some r =>
    match expect kwFieldType (untilQuote r).2 with
    | none => none
    | some r' =>
      match pf r' with
      | none => none
      | some (c, r'') =>
        match expect ['}'] r'' with
        | none => none
        | some r''' => some ((String.ofList (untilQuote r).1, c), r''')

section
variable (pf : List Char → Option (Canon × List Char))
  (pfs : List Char → Option (List (String × Canon) × List Char)) (fuel : Nat)

theorem parseObjWith_array (i : Canon) (x rest : List Char) (h : pf x = some (i, '}' :: rest)) :
    parseObjWith pf pfs fuel (kwArray ++ x) = some (.array i, rest) := by
  simp [parseObjWith, expect_append, h, expect]

theorem expect_kwArray_kwMap (x : List Char) : expect kwArray (kwMap ++ x) = none := by
  simp [expect, kwArray, kwMap]

theorem expect_kwArray_kwName (x : List Char) : expect kwArray (kwName ++ x) = none := by
  simp [expect, kwArray, kwName]

theorem expect_kwMap_kwName (x : List Char) : expect kwMap (kwName ++ x) = none := by
  simp [expect, kwMap, kwName]

theorem expect_kwEnum_kwFixed (x : List Char) : expect kwEnum (kwFixed ++ x) = none := by
  simp [expect, kwEnum, kwFixed]

theorem expect_kwEnum_kwRecord (x : List Char) : expect kwEnum (kwRecord ++ x) = none := by
  simp [expect, kwEnum, kwRecord]

theorem expect_kwFixed_kwRecord (x : List Char) : expect kwFixed (kwRecord ++ x) = none := by
  simp [expect, kwFixed, kwRecord]

theorem parseObjWith_map (v : Canon) (x rest : List Char) (h : pf x = some (v, '}' :: rest)) :
    parseObjWith pf pfs fuel (kwMap ++ x) = some (.map v, rest) := by
  simp [parseObjWith, expect_append, expect_kwArray_kwMap, h, expect]

theorem parseObjWith_enum (n : String) (syms : List String) (x rest : List Char)
    (hn : strOk n = true) (h : readSyms fuel x = some (syms, '}' :: rest)) :
    parseObjWith pf pfs fuel (kwName ++ (n.toList ++ (kwEnum ++ x))) = some (.enum n syms, rest) := by
  have hq := untilQuote_append n.toList (kwEnum ++ x) hn rfl
  simp [parseObjWith, expect_append, expect_kwArray_kwName, expect_kwMap_kwName, hq, h, expect,
    String.ofList_toList]

theorem parseObjWith_fixed (n : String) (size : Nat) (x rest : List Char)
    (hn : strOk n = true) (h : readNat x = some (size, '}' :: rest)) :
    parseObjWith pf pfs fuel (kwName ++ (n.toList ++ (kwFixed ++ x))) = some (.fixed n size, rest) := by
  have hq := untilQuote_append n.toList (kwFixed ++ x) hn rfl
  simp [parseObjWith, expect_append, expect_kwArray_kwName, expect_kwMap_kwName,
    expect_kwEnum_kwFixed, hq, h, expect, String.ofList_toList]

theorem parseObjWith_record (n : String) (fs : List (String × Canon)) (x rest : List Char)
    (hn : strOk n = true) (h : pfs x = some (fs, '}' :: rest)) :
    parseObjWith pf pfs fuel (kwName ++ (n.toList ++ (kwRecord ++ x))) = some (.record n fs, rest) := by
  have hq := untilQuote_append n.toList (kwRecord ++ x) hn rfl
  simp [parseObjWith, expect_append, expect_kwArray_kwName, expect_kwMap_kwName,
    expect_kwEnum_kwRecord, expect_kwFixed_kwRecord, hq, h, expect, String.ofList_toList]

theorem parseFieldWith_chars (f : String) (c : Canon) (x rest : List Char)
    (hf : strOk f = true) (h : pf x = some (c, '}' :: rest)) :
    parseFieldWith pf (kwName ++ (f.toList ++ (kwFieldType ++ x))) = some ((f, c), rest) := by
  have hq := untilQuote_append f.toList (kwFieldType ++ x) hf rfl
  simp [parseFieldWith, expect_append, hq, h, expect, String.ofList_toList]

theorem parseFieldWith_bracket (rest : List Char) : parseFieldWith pf (']' :: rest) = none := by
  simp [parseFieldWith, expect, kwName]

end

/-! ### the parser -/

mutual

/-- a schema -/
def parseF : Nat → List Char → Option (Canon × List Char)
  | 0, _ => none
  | _ + 1, [] => none
  | fuel + 1, c :: t =>
    if c = '"' then
      match expect ['"'] (untilQuote t).2 with
      | some r => some (leafOf (untilQuote t).1, r)
      | none => none
    else if c = '[' then
      match parseElems fuel t with
      | some (cs, r) => some (.union cs, r)
      | none => none
    else if c = '{' then
      parseObjWith (parseF fuel) (parseFields fuel) fuel (c :: t)
    else none

/-- the branches of a union after `[`, up to and including `]` -/
def parseElems : Nat → List Char → Option (List Canon × List Char)
  | 0, _ => none
  | fuel + 1, s =>
    match parseF fuel s with
    | some (c, r) =>
      (match parseTail fuel r with
       | some (cs, r') => some (c :: cs, r')
       | none => none)
    | none =>
      (match expect [']'] s with
       | some r => some ([], r)
       | none => none)

/-- after a branch: `]`, or `,` a branch and so on -/
def parseTail : Nat → List Char → Option (List Canon × List Char)
  | 0, _ => none
  | _ + 1, [] => none
  | fuel + 1, c :: s =>
    if c = ']' then some ([], s)
    else if c = ',' then
      match parseF fuel s with
      | some (x, r) =>
        (match parseTail fuel r with
         | some (xs, r') => some (x :: xs, r')
         | none => none)
      | none => none
    else none

/-- the fields of a record after `[`, up to and including `]` -/
def parseFields : Nat → List Char → Option (List (String × Canon) × List Char)
  | 0, _ => none
  | fuel + 1, s =>
    match parseFieldWith (parseF fuel) s with
    | some (fc, r) =>
      (match parseFieldsTail fuel r with
       | some (fs, r') => some (fc :: fs, r')
       | none => none)
    | none =>
      (match expect [']'] s with
       | some r => some ([], r)
       | none => none)

def parseFieldsTail : Nat → List Char → Option (List (String × Canon) × List Char)
  | 0, _ => none
  | _ + 1, [] => none
  | fuel + 1, c :: s =>
    if c = ']' then some ([], s)
    else if c = ',' then
      match parseFieldWith (parseF fuel) s with
      | some (fc, r) =>
        (match parseFieldsTail fuel r with
         | some (fs, r') => some (fc :: fs, r')
         | none => none)
      | none => none
    else none

end

theorem parseF_bracket (fuel : Nat) (rest : List Char) : parseF fuel (']' :: rest) = none := by
  cases fuel <;> simp [parseF]

theorem parseF_quote (fuel : Nat) (t : List Char) :
    parseF (fuel + 1) ('"' :: t) =
      match expect ['"'] (untilQuote t).2 with
      | some r => some (leafOf (untilQuote t).1, r)
      | none => none := by
  simp [parseF]

theorem parseF_open (fuel : Nat) (t : List Char) :
    parseF (fuel + 1) ('[' :: t) =
      match parseElems fuel t with
      | some (cs, r) => some (.union cs, r)
      | none => none := by
  simp [parseF]

theorem parseF_brace (fuel : Nat) (t : List Char) :
    parseF (fuel + 1) ('{' :: t) =
      parseObjWith (parseF fuel) (parseFields fuel) fuel ('{' :: t) := by
  simp [parseF]

theorem kwArray_cons : kwArray = '{' :: kwArray.tail := rfl
theorem kwMap_cons : kwMap = '{' :: kwMap.tail := rfl
theorem kwName_cons : kwName = '{' :: kwName.tail := rfl

/-! ### the parser is a left inverse of the printer -/

mutual

theorem parseF_chars : (c : Canon) → ∀ (fuel : Nat) (rest : List Char),
    c.namesOk = true → c.size ≤ fuel → parseF fuel (c.chars ++ rest) = some (c, rest)
  | .prim p, fuel, rest, _, hf => by
    obtain ⟨fuel, rfl⟩ : ∃ k, fuel = k + 1 := ⟨fuel - 1, by simp [Canon.size] at hf; omega⟩
    have hq := untilQuote_append p.name.toList ('"' :: rest) (Prim.name_ok p) rfl
    simp [Canon.chars, parseF_quote, hq, expect, leafOf_prim]
  | .ref n, fuel, rest, hok, hf => by
    obtain ⟨fuel, rfl⟩ : ∃ k, fuel = k + 1 := ⟨fuel - 1, by simp [Canon.size] at hf; omega⟩
    simp only [Canon.namesOk, Bool.and_eq_true, Bool.not_eq_true'] at hok
    have hq := untilQuote_append n.toList ('"' :: rest) hok.1 rfl
    simp [Canon.chars, parseF_quote, hq, expect, leafOf_ref n hok.2]
  | .array i, fuel, rest, hok, hf => by
    obtain ⟨fuel, rfl⟩ : ∃ k, fuel = k + 1 := ⟨fuel - 1, by simp [Canon.size] at hf; omega⟩
    simp only [Canon.namesOk] at hok
    simp only [Canon.size] at hf
    have ih := parseF_chars i fuel ('}' :: rest) hok (by omega)
    have := parseObjWith_array (parseF fuel) (parseFields fuel) fuel i (i.chars ++ '}' :: rest) rest ih
    rw [kwArray_cons] at this
    simp only [Canon.chars, List.append_assoc, List.cons_append, List.nil_append]
    rw [kwArray_cons]
    simpa [parseF_brace] using this
  | .map v, fuel, rest, hok, hf => by
    obtain ⟨fuel, rfl⟩ : ∃ k, fuel = k + 1 := ⟨fuel - 1, by simp [Canon.size] at hf; omega⟩
    simp only [Canon.namesOk] at hok
    simp only [Canon.size] at hf
    have ih := parseF_chars v fuel ('}' :: rest) hok (by omega)
    have := parseObjWith_map (parseF fuel) (parseFields fuel) fuel v (v.chars ++ '}' :: rest) rest ih
    rw [kwMap_cons] at this
    simp only [Canon.chars, List.append_assoc, List.cons_append, List.nil_append]
    rw [kwMap_cons]
    simpa [parseF_brace] using this
  | .union bs, fuel, rest, hok, hf => by
    obtain ⟨fuel, rfl⟩ : ∃ k, fuel = k + 1 := ⟨fuel - 1, by simp [Canon.size] at hf; omega⟩
    simp only [Canon.namesOk] at hok
    simp only [Canon.size] at hf
    have ih := parseElems_chars bs fuel rest hok (by omega)
    simp only [Canon.chars, List.append_assoc, List.cons_append, List.nil_append]
    simp [parseF_open, ih]
  | .enum n syms, fuel, rest, hok, hf => by
    obtain ⟨fuel, rfl⟩ : ∃ k, fuel = k + 1 := ⟨fuel - 1, by simp [Canon.size] at hf; omega⟩
    simp only [Canon.namesOk, Bool.and_eq_true] at hok
    simp only [Canon.size] at hf
    have hs := readSyms_chars syms fuel ('}' :: rest) hok.2 (by omega)
    have := parseObjWith_enum (parseF fuel) (parseFields fuel) fuel n syms _ rest hok.1 hs
    rw [kwName_cons] at this
    simp only [Canon.chars, List.append_assoc, List.cons_append, List.nil_append]
    rw [kwName_cons]
    simpa [parseF_brace] using this
  | .fixed n size, fuel, rest, hok, hf => by
    obtain ⟨fuel, rfl⟩ : ∃ k, fuel = k + 1 := ⟨fuel - 1, by simp [Canon.size] at hf; omega⟩
    simp only [Canon.namesOk] at hok
    have hs := readNat_toDigits size '}' rest (by decide)
    have := parseObjWith_fixed (parseF fuel) (parseFields fuel) fuel n size _ rest hok hs
    rw [kwName_cons] at this
    simp only [Canon.chars, List.append_assoc, List.cons_append, List.nil_append]
    rw [kwName_cons]
    simpa [parseF_brace] using this
  | .record n fs, fuel, rest, hok, hf => by
    obtain ⟨fuel, rfl⟩ : ∃ k, fuel = k + 1 := ⟨fuel - 1, by simp [Canon.size] at hf; omega⟩
    simp only [Canon.namesOk, Bool.and_eq_true] at hok
    simp only [Canon.size] at hf
    have ih := parseFields_chars fs fuel ('}' :: rest) hok.2 (by omega)
    have := parseObjWith_record (parseF fuel) (parseFields fuel) fuel n fs _ rest hok.1 ih
    rw [kwName_cons] at this
    simp only [Canon.chars, List.append_assoc, List.cons_append, List.nil_append]
    rw [kwName_cons]
    simpa [parseF_brace] using this

theorem parseElems_chars : (cs : List Canon) → ∀ (fuel : Nat) (rest : List Char),
    Canon.namesOkList cs = true → Canon.sizeList cs ≤ fuel →
      parseElems fuel (Canon.charsList cs ++ ']' :: rest) = some (cs, rest)
  | [], fuel, rest, _, hf => by
    obtain ⟨fuel, rfl⟩ : ∃ k, fuel = k + 1 := ⟨fuel - 1, by simp [Canon.sizeList] at hf; omega⟩
    simp [Canon.charsList, parseElems, parseF_bracket, expect]
  | c :: cs, fuel, rest, hok, hf => by
    obtain ⟨fuel, rfl⟩ : ∃ k, fuel = k + 1 := ⟨fuel - 1, by simp [Canon.sizeList] at hf; omega⟩
    simp only [Canon.namesOkList, Bool.and_eq_true] at hok
    simp only [Canon.sizeList] at hf
    have h1 := parseF_chars c fuel (Canon.charsTail cs ++ ']' :: rest) hok.1 (by omega)
    have h2 := parseTail_chars cs fuel rest hok.2 (by omega)
    simp [Canon.charsList, parseElems, h1, h2]

theorem parseTail_chars : (cs : List Canon) → ∀ (fuel : Nat) (rest : List Char),
    Canon.namesOkList cs = true → Canon.sizeList cs ≤ fuel →
      parseTail fuel (Canon.charsTail cs ++ ']' :: rest) = some (cs, rest)
  | [], fuel, rest, _, hf => by
    obtain ⟨fuel, rfl⟩ : ∃ k, fuel = k + 1 := ⟨fuel - 1, by simp [Canon.sizeList] at hf; omega⟩
    simp [Canon.charsTail, parseTail]
  | c :: cs, fuel, rest, hok, hf => by
    obtain ⟨fuel, rfl⟩ : ∃ k, fuel = k + 1 := ⟨fuel - 1, by simp [Canon.sizeList] at hf; omega⟩
    simp only [Canon.namesOkList, Bool.and_eq_true] at hok
    simp only [Canon.sizeList] at hf
    have h1 := parseF_chars c fuel (Canon.charsTail cs ++ ']' :: rest) hok.1 (by omega)
    have h2 := parseTail_chars cs fuel rest hok.2 (by omega)
    simp [Canon.charsTail, parseTail, h1, h2]

theorem parseFields_chars : (fs : List (String × Canon)) → ∀ (fuel : Nat) (rest : List Char),
    Canon.namesOkFields fs = true → Canon.sizeFields fs ≤ fuel →
      parseFields fuel (Canon.charsFields fs ++ ']' :: rest) = some (fs, rest)
  | [], fuel, rest, _, hf => by
    obtain ⟨fuel, rfl⟩ : ∃ k, fuel = k + 1 := ⟨fuel - 1, by simp [Canon.sizeFields] at hf; omega⟩
    simp [Canon.charsFields, parseFields, parseFieldWith_bracket, expect]
  | (f, c) :: fs, fuel, rest, hok, hf => by
    obtain ⟨fuel, rfl⟩ : ∃ k, fuel = k + 1 := ⟨fuel - 1, by simp [Canon.sizeFields] at hf; omega⟩
    simp only [Canon.namesOkFields, Bool.and_eq_true] at hok
    simp only [Canon.sizeFields] at hf
    have h1 := parseF_chars c fuel ('}' :: (Canon.charsFieldsTail fs ++ ']' :: rest)) hok.1.2
      (by omega)
    have h1' := parseFieldWith_chars (parseF fuel) f c _ _ hok.1.1 h1
    have h2 := parseFieldsTail_chars fs fuel rest hok.2 (by omega)
    simp only [Canon.charsFields, List.append_assoc, List.cons_append]
    simp [parseFields, h1', h2]

theorem parseFieldsTail_chars : (fs : List (String × Canon)) → ∀ (fuel : Nat) (rest : List Char),
    Canon.namesOkFields fs = true → Canon.sizeFields fs ≤ fuel →
      parseFieldsTail fuel (Canon.charsFieldsTail fs ++ ']' :: rest) = some (fs, rest)
  | [], fuel, rest, _, hf => by
    obtain ⟨fuel, rfl⟩ : ∃ k, fuel = k + 1 := ⟨fuel - 1, by simp [Canon.sizeFields] at hf; omega⟩
    simp [Canon.charsFieldsTail, parseFieldsTail]
  | (f, c) :: fs, fuel, rest, hok, hf => by
    obtain ⟨fuel, rfl⟩ : ∃ k, fuel = k + 1 := ⟨fuel - 1, by simp [Canon.sizeFields] at hf; omega⟩
    simp only [Canon.namesOkFields, Bool.and_eq_true] at hok
    simp only [Canon.sizeFields] at hf
    have h1 := parseF_chars c fuel ('}' :: (Canon.charsFieldsTail fs ++ ']' :: rest)) hok.1.2
      (by omega)
    have h1' := parseFieldWith_chars (parseF fuel) f c _ _ hok.1.1 h1
    have h2 := parseFieldsTail_chars fs fuel rest hok.2 (by omega)
    simp only [Canon.charsFieldsTail, List.append_assoc, List.cons_append]
    simp [parseFieldsTail, h1', h2]

end

/-! ### injectivity -/

/-- The characters of a structure determine it (strings free of `"`, no reference bearing a
    primitive type name). -/
theorem Canon.chars_injective {c₁ c₂ : Canon} (h₁ : c₁.namesOk = true) (h₂ : c₂.namesOk = true)
    (h : c₁.chars = c₂.chars) : c₁ = c₂ := by
  have e₁ := parseF_chars c₁ (max c₁.size c₂.size) [] h₁ (Nat.le_max_left _ _)
  have e₂ := parseF_chars c₂ (max c₁.size c₂.size) [] h₂ (Nat.le_max_right _ _)
  rw [h, e₂] at e₁
  simpa using e₁.symm

/-- … even followed by anything: the text is self-delimiting. -/
theorem Canon.chars_append_injective {c₁ c₂ : Canon} {r₁ r₂ : List Char}
    (h₁ : c₁.namesOk = true) (h₂ : c₂.namesOk = true)
    (h : c₁.chars ++ r₁ = c₂.chars ++ r₂) : c₁ = c₂ ∧ r₁ = r₂ := by
  have e₁ := parseF_chars c₁ (max c₁.size c₂.size) r₁ h₁ (Nat.le_max_left _ _)
  have e₂ := parseF_chars c₂ (max c₁.size c₂.size) r₂ h₂ (Nat.le_max_right _ _)
  rw [h, e₂] at e₁
  simpa using e₁.symm

theorem Canon.text_injective {c₁ c₂ : Canon} (h₁ : c₁.namesOk = true) (h₂ : c₂.namesOk = true)
    (h : c₁.text = c₂.text) : c₁ = c₂ := by
  apply Canon.chars_injective h₁ h₂
  rw [← Canon.toList_text, ← Canon.toList_text, h]

/-! ### a parser without fuel parameter: twice the length of the text is enough fuel -/

theorem symsCharsTail_length (syms : List String) :
    syms.length ≤ (symsCharsTail syms).length := by
  induction syms with
  | nil => simp [symsCharsTail]
  | cons x xs ih => simp [symsCharsTail]; omega

theorem symsChars_length (syms : List String) : syms.length ≤ (symsChars syms).length := by
  cases syms with
  | nil => simp [symsChars]
  | cons x xs => have := symsCharsTail_length xs; simp [symsChars]; omega

mutual

theorem Canon.size_le : (c : Canon) → c.size + 1 ≤ 2 * c.chars.length
  | .prim p => by simp [Canon.size, Canon.chars]; omega
  | .ref n => by simp [Canon.size, Canon.chars]; omega
  | .array i => by
    have := Canon.size_le i
    simp [Canon.size, Canon.chars, kwArray]; omega
  | .map v => by
    have := Canon.size_le v
    simp [Canon.size, Canon.chars, kwMap]; omega
  | .union bs => by
    have := Canon.sizeList_le bs
    simp [Canon.size, Canon.chars]; omega
  | .enum n syms => by
    have := symsChars_length syms
    simp [Canon.size, Canon.chars, kwName, kwEnum]; omega
  | .fixed n size => by simp [Canon.size, Canon.chars, kwName, kwFixed]; omega
  | .record n fs => by
    have := Canon.sizeFields_le fs
    simp [Canon.size, Canon.chars, kwName, kwRecord]; omega

theorem Canon.sizeList_le : (cs : List Canon) →
    Canon.sizeList cs ≤ 2 * (Canon.charsList cs).length + 1
  | [] => by simp [Canon.sizeList, Canon.charsList]
  | c :: cs => by
    have := Canon.size_le c
    have := Canon.sizeTail_le cs
    simp [Canon.sizeList, Canon.charsList]; omega

theorem Canon.sizeTail_le : (cs : List Canon) →
    Canon.sizeList cs ≤ 2 * (Canon.charsTail cs).length + 1
  | [] => by simp [Canon.sizeList, Canon.charsTail]
  | c :: cs => by
    have := Canon.size_le c
    have := Canon.sizeTail_le cs
    simp [Canon.sizeList, Canon.charsTail]; omega

theorem Canon.sizeFields_le : (fs : List (String × Canon)) →
    Canon.sizeFields fs ≤ 2 * (Canon.charsFields fs).length + 1
  | [] => by simp [Canon.sizeFields, Canon.charsFields]
  | (f, c) :: fs => by
    have := Canon.size_le c
    have := Canon.sizeFieldsTail_le fs
    simp [Canon.sizeFields, Canon.charsFields, kwName, kwFieldType]; omega

theorem Canon.sizeFieldsTail_le : (fs : List (String × Canon)) →
    Canon.sizeFields fs ≤ 2 * (Canon.charsFieldsTail fs).length + 1
  | [] => by simp [Canon.sizeFields, Canon.charsFieldsTail]
  | (f, c) :: fs => by
    have := Canon.size_le c
    have := Canon.sizeFieldsTail_le fs
    simp [Canon.sizeFields, Canon.charsFieldsTail, kwName, kwFieldType]; omega

end

/-- The parser of canonical texts: a structure and the rest of the input. -/
def Canon.parse (s : List Char) : Option (Canon × List Char) := parseF (2 * s.length) s

/-- `Canon.parse` is a left inverse of `Canon.chars`, whatever follows the text. -/
theorem Canon.parse_chars (c : Canon) (rest : List Char) (h : c.namesOk = true) :
    Canon.parse (c.chars ++ rest) = some (c, rest) := by
  apply parseF_chars c _ rest h
  have := Canon.size_le c
  simp only [List.length_append]
  omega

/-- … on `String`s. -/
theorem Canon.parse_text (c : Canon) (h : c.namesOk = true) :
    Canon.parse c.text.toList = some (c, []) := by
  rw [Canon.toList_text]
  simpa using Canon.parse_chars c [] h

end Avro.Spec.Pcf
