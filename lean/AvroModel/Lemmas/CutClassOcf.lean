import AvroModel.Lemmas.CutClassDe
import AvroModel.Lemmas.OcfWriter
/-
Helper lemmas for `Theorems/C17class.lean`, part 2: the container reader on a cut file, EXACTLY:
which values it yields and how the run ends (end of stream / which error class), as a function of
the cut point — null codec, either back-end (`sl : Bool`), any chunk schedule.
-/
namespace Avro.Theorems.Cut
open Avro Avro.Impl Avro.Impl.Ocf Avro.Impl.OcfS Avro.Theorems Avro.Theorems.Stream

/-! ### The datum deserializer on a cut encoding: class `io` -/

/-- **Cut inside the canonical encoding of a good value, reader back-end, any chunk schedule: `de`
    fails with an I/O error** (allocation cap at least the uncut input; no `big-decimal`). -/
theorem de_cut_reader_io (cfg : DeConfig) (S : Schema) (n : Node) (v : Spec.Value) (enc : Bytes)
    (o : Out) (depth fuel : Nat)
    (henc : Spec.encode S n v = some enc) (hobs : Spec.observe S n v = some o)
    (hfix : Spec.fixedDecOk S n v = true)
    (hdepth : Spec.depthOf v ≤ depth) (hseq : Spec.maxLen v ≤ cfg.maxSeqSize)
    (hfuel : Spec.size v * 4 + 8 ≤ fuel)
    (hS : ∀ k : Nat, S[k]? ≠ some Node.bigDecimal) (hn : n ≠ .bigDecimal)
    (M : Nat) (s : RState) (hb : BOk M s)
    (y : Bytes) (j : Nat) (hr : s.rest = (enc ++ y).take j) (hM : (enc ++ y).length ≤ M)
    (hj : j < enc.length) :
    ∃ s', de deExtModel cfg S fuel n depth false .any s = (.error .io, s') := by
  let sl : RState := { isSlice := true, rest := enc ++ y, limit := none, avail := 0 }
  have hok := C01_de_accepts cfg S n v enc y o depth henc hobs hfix hdepth hseq fuel hfuel
    sl rfl rfl rfl rfl
  have hts : TSim ((enc ++ y).drop j) s sl :=
    ⟨hb.reader, rfl, by show enc ++ y = _; rw [hr, List.take_append_drop], hb.avail, hb.limit, rfl,
      by rw [hb.alloc]; exact hM⟩
  rcases de_trunc _ deExtModel cfg S hS fuel n hn depth false s sl hts o _ hok with
    ⟨a, r', _, ht⟩ | h
  · exfalso
    have h1 := congrArg List.length ht.rest
    simp only [List.length_append, List.length_drop] at h1
    have : ({ sl with rest := y } : RState).rest.length = y.length := rfl
    omega
  · exact h

/-! ### Cut varints, cut markers -/

theorem decodeVar_cut_none (i : Int) (hi : Spec.InI64 i) (j : Nat)
    (hj : j < (encodeVarI64 i).length) : decodeVar .i64 ((encodeVarI64 i).take j) = none := by
  cases hd : decodeVar .i64 ((encodeVarI64 i).take j) with
  | none => rfl
  | some p =>
    exfalso
    obtain ⟨v, k⟩ := p
    have h1 := decodeVar_append ((encodeVarI64 i).drop j) hd
    rw [List.take_append_drop] at h1
    have h2 : decodeVar .i64 (encodeVarI64 i ++ []) = some (i, (encodeVarI64 i).length) :=
      decodeVarI64_encode i hi []
    rw [List.append_nil, h1] at h2
    simp only [Option.some.injEq, Prod.mk.injEq] at h2
    have h3 := decodeVar_le hd
    rw [List.length_take] at h3
    omega

/-- the class of the error met on a cut varint: the slice says "custom" (`decode_var` returned
    `None`), the reader reports the failed read -/
def hdrCls (sl : Bool) : DeErr := if sl then .custom else .io

theorem readVarint_cut_err {sl : Bool} {M : Nat} {o : RState} {i : Int} {Y : Bytes} {j : Nat}
    (hb : KOk sl M o) (hi : Spec.InI64 i) (hr : o.rest = (encodeVarI64 i ++ Y).take j)
    (hj : j < (encodeVarI64 i).length) :
    ∃ o', readVarint .i64 o = (.error (hdrCls sl), o') := by
  have hrest : o.rest = (encodeVarI64 i).take j := by
    rw [hr, List.take_append_of_le_length (Nat.le_of_lt hj)]
  have hnone : decodeVar .i64 o.rest = none := by rw [hrest]; exact decodeVar_cut_none i hi j hj
  cases sl with
  | true =>
    rw [OcfS.readVarint_slice hb.back, hnone]
    exact ⟨o, rfl⟩
  | false =>
    obtain ⟨e, o', he⟩ := hb.varint.2 hnone
    have : e = .io := by
      refine readVarint_err_io ((encodeVarI64 i).drop j) hb.wf hb.back hb.limit ?_ he
      rw [hrest, List.take_append_drop]
      have h2 : decodeVar .i64 (encodeVarI64 i ++ []) = some (i, (encodeVarI64 i).length) :=
        decodeVarI64_encode i hi []
      rw [List.append_nil] at h2
      rw [h2]; rfl
    subst this
    exact ⟨o', he⟩

theorem readExact_cut_err {sl : Bool} {M : Nat} {s : RState} (hb : KOk sl M s) (k : Nat)
    (hk : s.rest.length < k) : ∃ s', readExact k s = (.error .io, s') := by
  obtain ⟨e, s', he⟩ := (hb.exact k).2 hk
  have := readExact_err_io he
  subst this
  exact ⟨s', he⟩

theorem take_min_len {α : Type} (l : List α) (n : Nat) : l.take (min l.length n) = l.take n := by
  by_cases h : n ≤ l.length
  · rw [Nat.min_eq_right h]
  · rw [Nat.min_eq_left (by omega), List.take_of_length_le (Nat.le_refl _),
      List.take_of_length_le (by omega)]

theorem take_append_ge {α : Type} (a b : List α) (j : Nat) (h : a.length ≤ j) :
    (a ++ b).take j = a ++ b.take (j - a.length) := by
  rw [List.take_append, List.take_of_length_le h]

/-! ### The reader at a known position of a cut file -/

section Pos
variable {V α β : Type} (enc : V → Bytes) (sl : Bool)

/-- count and size of a block, as written -/
def hdr (b : List V) : Bytes :=
  encodeVarI64 b.length ++ encodeVarI64 (blockData enc b).length

theorem fileBody_cons' (sync : Bytes) (b : List V) (bs : List (List V)) :
    fileBody enc sync (b :: bs) = hdr enc b ++ (blockData enc b ++ (sync ++ fileBody enc sync bs)) := by
  rw [fileBody_cons, hdr, List.append_assoc]

/-- between blocks: the source holds the blocks `bs` cut after `j` bytes -/
structure XStart (M : Nat) (sync : Bytes) (r : Reader) (bs : List (List V)) (j : Nat) : Prop where
  st : r.st = .notInBlock
  peof : r.pretendEof = false
  hsync : r.sync = sync
  outer : KOk sl M r.outer
  orest : r.outer.rest = (fileBody enc sync bs).take j
  fits : sl = false → (fileBody enc sync bs).length ≤ M

/-- in a block: `vals` still to be read; the data of the block and what follows it, cut after `j`
    bytes (counted from the first byte of `vals`) -/
structure XPos (M : Nat) (sync : Bytes) (r : Reader) (vals : List V) (bs : List (List V))
    (j : Nat) : Prop where
  st : r.st = .inBlock vals.length
  peof : r.pretendEof = false
  hsync : r.sync = sync
  oback : r.outer.isSlice = sl
  olimit : r.outer.limit = none
  oalloc : sl = false → r.outer.maxAlloc = M
  blk : KOk sl M r.blk
  brest : r.blk.rest = (blockData enc vals).take j
  lim : r.blkLimit = (blockData enc vals).length
  after : r.after = (sync ++ fileBody enc sync bs).take (j - (blockData enc vals).length)
  alen : sl = false → r.after.length ≤ M
  inv : r.after.length ≤ r.outer.rest.length
  full : sl = true → (blockData enc vals).length ≤ j
  fits : sl = false → (blockData enc vals).length + (sync ++ fileBody enc sync bs).length ≤ M

variable {enc sl}

theorem mu_xpos {M : Nat} {sync : Bytes} {r : Reader} {vals : List V} {bs : List (List V)} {j : Nat}
    (hp : XPos enc sl M sync r vals bs j) : mu r = r.after.length := by
  simp [mu, hp.st]

/-- `enterBlock` when count and size are present (slice: and the whole data) -/
theorem enterBlock_x {d : Decomp} {M : Nat} {sync : Bytes} {r : Reader} {b : List V}
    {bs : List (List V)} {j : Nat} (hn : d.isNull = true) (hb : BlockOk enc b)
    (hp : XStart enc sl M sync r (b :: bs) j) (hj : (hdr enc b).length ≤ j)
    (hfull : sl = true → (blockData enc b).length ≤ j - (hdr enc b).length) :
    ∃ r2, enterBlock d r = (.ok (), r2) ∧ XPos enc sl M sync r2 b bs (j - (hdr enc b).length) ∧
      r2.after.length ≤ r.outer.rest.length := by
  obtain ⟨hst, hpe, hsy, hbo, hor, hfit⟩ := hp
  have hfit' := hfit
  rw [fileBody_cons] at hor hfit'
  simp only [hdr, List.length_append] at hj hfull ⊢
  rw [take_append_ge _ _ _ (by omega)] at hor
  obtain ⟨o1, e1, hb1, hr1⟩ := readVarint_encode_k hbo hb.1 hor
  rw [take_append_ge _ _ _ (by omega)] at hr1
  obtain ⟨o2, e2, hb2, hr2⟩ := readVarint_encode_k hb1 hb.2 hr1
  rw [Nat.sub_sub] at hr2
  generalize hj2 : j - ((encodeVarI64 (b.length : Int)).length
    + (encodeVarI64 ((blockData enc b).length : Int)).length) = j2 at hr2 hfull ⊢
  rw [enterBlock_eq, e1]
  simp only [show ¬ ((b.length : Int) < 0) by omega, if_false]
  rw [e2]
  simp only [show ¬ (((blockData enc b).length : Int) < 0) by omega, if_false, Int.toNat_natCast]
  unfold enterTail
  have hlen2 : o2.rest.length = min j2 ((blockData enc b).length + (sync ++ fileBody enc sync bs).length) := by
    rw [hr2, List.length_take, List.length_append]
  have hsz : ¬ (o2.isSlice = true ∧ (blockData enc b).length > o2.rest.length) := by
    intro ⟨h1, h2⟩
    have := hfull (hb2.back.symm.trans h1)
    omega
  simp only [hn, if_true, hsz, if_false]
  have hav := hb2.avail
  have horl : r.outer.rest.length = min j ((encodeVarI64 (b.length : Int)).length
      + ((encodeVarI64 ((blockData enc b).length : Int)).length
        + ((blockData enc b).length + (sync ++ fileBody enc sync bs).length))) := by
    rw [hor, List.length_append, List.length_take, List.length_append, List.length_append]
    omega
  refine ⟨_, rfl, ⟨rfl, hpe, hsy, hb2.back, hb2.limit, hb2.alloc,
      ⟨by exact hb2.back, by exact hb2.limit, ?_, ?_, by exact hb2.alloc, ?_⟩, ?_, rfl, ?_, ?_, ?_,
      hfull, ?_⟩, ?_⟩
  · simp only [List.length_take]; omega
  · intro hs; simp only [hb2.avail0 hs]; omega
  · intro hs; have := hb2.len hs; simp only [List.length_take]; omega
  · show o2.rest.take _ = _
    rw [hr2, List.take_take, List.take_append_of_le_length (Nat.min_le_left _ _), take_min_len]
  · show o2.rest.drop _ = _
    rw [hr2, List.drop_take, List.drop_left']
    rfl
  · intro hs; have := hb2.len hs
    show (o2.rest.drop _).length ≤ M
    simp only [List.length_drop]; omega
  · show (o2.rest.drop _).length ≤ o2.rest.length
    simp only [List.length_drop]; omega
  · intro hs
    have := hfit' hs
    simp only [List.length_append] at this ⊢
    omega
  · show (o2.rest.drop _).length ≤ _
    simp only [List.length_drop]; omega


theorem ofDe_hdrCls (sl : Bool) : ofDe (hdrCls sl) = if sl then RdErr.custom else RdErr.io := by
  cases sl <;> rfl

/-- `enterBlock` when the cut falls inside the count or the size -/
theorem enterBlock_x_hdr {d : Decomp} {M : Nat} {sync : Bytes} {r : Reader} {b : List V}
    {bs : List (List V)} {j : Nat} (hb : BlockOk enc b)
    (hp : XStart enc sl M sync r (b :: bs) j) (hj : j < (hdr enc b).length) :
    ∃ r1, enterBlock d r = (.error (ofDe (hdrCls sl)), r1) ∧ r1.st = .broken := by
  obtain ⟨hst, hpe, hsy, hbo, hor, hfit⟩ := hp
  rw [fileBody_cons] at hor
  simp only [hdr, List.length_append] at hj
  rw [enterBlock_eq]
  by_cases hj1 : j < (encodeVarI64 (b.length : Int)).length
  · obtain ⟨o', he⟩ := readVarint_cut_err hbo hb.1 hor hj1
    rw [he]
    exact ⟨_, rfl, rfl⟩
  · rw [take_append_ge _ _ _ (by omega)] at hor
    obtain ⟨o1, e1, hb1, hr1⟩ := readVarint_encode_k hbo hb.1 hor
    rw [e1]
    simp only [show ¬ ((b.length : Int) < 0) by omega, if_false]
    obtain ⟨o', he⟩ := readVarint_cut_err hb1 hb.2 hr1 (by omega)
    rw [he]
    exact ⟨_, rfl, rfl⟩

/-- `enterBlock` on the slice back-end when count and size are present but not all the data:
    `SliceRead::take` refuses -/
theorem enterBlock_x_take {d : Decomp} {M : Nat} {sync : Bytes} {r : Reader} {b : List V}
    {bs : List (List V)} {j : Nat} (hn : d.isNull = true) (hb : BlockOk enc b)
    (hp : XStart enc true M sync r (b :: bs) j) (hj : (hdr enc b).length ≤ j)
    (hcut : j - (hdr enc b).length < (blockData enc b).length) :
    ∃ r1, enterBlock d r = (.error .custom, r1) ∧ r1.st = .broken := by
  obtain ⟨hst, hpe, hsy, hbo, hor, hfit⟩ := hp
  rw [fileBody_cons] at hor
  simp only [hdr, List.length_append] at hj hcut
  rw [take_append_ge _ _ _ (by omega)] at hor
  obtain ⟨o1, e1, hb1, hr1⟩ := readVarint_encode_k hbo hb.1 hor
  rw [take_append_ge _ _ _ (by omega)] at hr1
  obtain ⟨o2, e2, hb2, hr2⟩ := readVarint_encode_k hb1 hb.2 hr1
  rw [Nat.sub_sub] at hr2
  rw [enterBlock_eq, e1]
  simp only [show ¬ ((b.length : Int) < 0) by omega, if_false]
  rw [e2]
  simp only [show ¬ (((blockData enc b).length : Int) < 0) by omega, if_false, Int.toNat_natCast]
  unfold enterTail
  have hlen2 : o2.rest.length < (blockData enc b).length := by
    rw [hr2, List.length_take]; omega
  have hsz : (o2.isSlice = true ∧ (blockData enc b).length > o2.rest.length) := ⟨hb2.back, hlen2⟩
  simp only [hn, if_true, hsz, and_self]
  exact ⟨_, rfl, rfl⟩

theorem blockData_nil : blockData enc ([] : List V) = [] := rfl

/-- `leaveBlock` when the sync marker is entirely present -/
theorem leaveBlock_x_ok {d : Decomp} {M : Nat} {sync : Bytes} {r : Reader}
    {bs : List (List V)} {j : Nat} (hn : d.isNull = true) (hsy : sync.length = 16)
    (hp : XPos enc sl M sync r [] bs j) (hj : 16 ≤ j) :
    ∃ rn, leaveBlock d r = (.ok (), rn) ∧ XStart enc sl M sync rn bs (j - 16) ∧
      rn.outer.rest.length ≤ r.after.length := by
  have haf := hp.after
  simp only [blockData_nil, List.length_nil, Nat.sub_zero] at haf
  rw [take_append_ge _ _ _ (by omega), hsy] at haf
  have hlo : leftover d r = false := by
    cases sl <;> simp [leftover, hn, hp.oback, hp.lim, hp.brest, Stream.blockData]
  have hbo := leaveOuter_ok sl hn hp.oback hp.olimit hp.oalloc hp.blk hp.alen
  have h16 : 16 ≤ (leaveOuter d r).rest.length := by
    rw [leaveOuter_rest, haf]; simp; omega
  obtain ⟨s', hs', hk', hrest⟩ := (hbo.exact 16).1 h16
  have ht : (leaveOuter d r).rest.take 16 = r.sync := by
    rw [leaveOuter_rest, haf, hp.hsync, ← hsy, List.take_left' rfl]
  have hdrop : s'.rest = (fileBody enc sync bs).take (j - 16) := by
    rw [hrest, leaveOuter_rest, haf, ← hsy, List.drop_left' rfl]
  rw [leaveBlock_eq, hlo, hs']
  simp only [ht, ne_eq, not_true_eq_false, if_false, Bool.false_eq_true]
  refine ⟨_, rfl, ⟨rfl, hp.peof, hp.hsync, hk', hdrop, ?_⟩, ?_⟩
  · intro hs
    have := hp.fits hs
    simp only [List.length_append] at this
    omega
  · show s'.rest.length ≤ _
    rw [hrest, leaveOuter_rest, List.length_drop]; omega

/-- `leaveBlock` when the cut falls inside the sync marker (or just before it): `read_exact`
    fails, on either back-end -/
theorem leaveBlock_x_err {d : Decomp} {M : Nat} {sync : Bytes} {r : Reader}
    {bs : List (List V)} {j : Nat} (hn : d.isNull = true)
    (hp : XPos enc sl M sync r [] bs j) (hj : j < 16) :
    ∃ r1, leaveBlock d r = (.error .io, r1) ∧ r1.st = .broken := by
  have haf := hp.after
  simp only [blockData_nil, List.length_nil, Nat.sub_zero] at haf
  have hlo : leftover d r = false := by
    cases sl <;> simp [leftover, hn, hp.oback, hp.lim, hp.brest, Stream.blockData]
  have hbo := leaveOuter_ok sl hn hp.oback hp.olimit hp.oalloc hp.blk hp.alen
  have h16 : (leaveOuter d r).rest.length < 16 := by
    rw [leaveOuter_rest, haf, List.length_take]; omega
  obtain ⟨s', hs'⟩ := readExact_cut_err hbo 16 h16
  rw [leaveBlock_eq, hlo, hs']
  exact ⟨_, rfl, rfl⟩


/-! ### One call of `next` from a known position -/

/-- the class of the error a datum deserializer must produce on a cut encoding (reader back-end) -/
def DatumCutIo (enc : V → Bytes) (M : Nat) (Q : V → Prop)
    (datum : RState → Except DeErr α × RState) : Prop :=
  ∀ (s : RState) (v : V) (y : Bytes) (j : Nat), Q v → KOk false M s →
    s.rest = (enc v ++ y).take j → (enc v ++ y).length ≤ M → j < (enc v).length →
    ∃ s', datum s = (.error .io, s')

theorem next_of_inner_err {d : Decomp} {datum : RState → Except DeErr α × RState} {r r1 : Reader}
    {e : RdErr} (hpe : r.pretendEof = false)
    (h : nextInner d datum (r.outer.rest.length + 4) r = (.error e, r1))
    (hc : e = .io ∨ r1.st = .broken) :
    next d datum r = (.error e, { r1 with pretendEof := true }) := by
  rw [next_eq_post d datum r hpe, h]
  simp only [post, hc, if_true]

theorem next_of_inner_ok {d : Decomp} {datum : RState → Except DeErr α × RState} {r r1 : Reader}
    {a : Option α} (hpe : r.pretendEof = false)
    (h : nextInner d datum (r.outer.rest.length + 4) r = (.ok a, r1)) :
    next d datum r = (.ok a, r1) := by
  rw [next_eq_post d datum r hpe, h]; rfl

theorem xs_inner_eos {d : Decomp} {M : Nat} (datum : RState → Except DeErr α × RState)
    {sync : Bytes} {r : Reader} {bs : List (List V)} {j : Nat}
    (hp : XStart enc sl M sync r bs j) (hnil : (fileBody enc sync bs).take j = []) (F : Nat) :
    ∃ r1, nextInner d datum (F + 1) r = (.ok none, r1) := by
  rw [nextInner_succ]
  simp only [hp.st]
  generalize hf : fillBuf r.outer = x
  obtain ⟨res, o⟩ := x
  cases res with
  | error e => exact absurd hf (fillBuf_never_err _ _ _)
  | ok buf =>
    obtain ⟨_, _, hn, _⟩ := hp.outer.fill hf
    rw [hn (by rw [hp.orest, hnil])]
    exact ⟨_, rfl⟩

theorem xs_inner {d : Decomp} {M : Nat} (datum : RState → Except DeErr α × RState)
    {sync : Bytes} {r : Reader} {bs : List (List V)} {j : Nat}
    (hp : XStart enc sl M sync r bs j) (hne : (fileBody enc sync bs).take j ≠ []) :
    ∃ r0, XStart enc sl M sync r0 bs j ∧ r0.outer.rest.length = r.outer.rest.length ∧
      ∀ F, nextInner d datum (F + 1) r =
        match enterBlock d r0 with
        | (.error e, r') => (.error e, r')
        | (.ok _, r') => nextInner d datum F r' := by
  obtain ⟨st, pe, sy, outer, blk, after, lim⟩ := r
  have hst := hp.st
  simp only at hst
  subst hst
  generalize hf : fillBuf outer = x
  obtain ⟨res, o⟩ := x
  cases res with
  | error e => exact absurd hf (fillBuf_never_err _ _ _)
  | ok buf =>
    obtain ⟨hbo, hro, _, hne'⟩ := hp.outer.fill hf
    have hbne : buf.isEmpty = false := by
      have : buf ≠ [] := hne' (by rw [hp.orest]; exact hne)
      cases buf with
      | nil => exact absurd rfl this
      | cons => rfl
    have hp1 : XStart enc sl M sync (Reader.mk .notInBlock pe sy o blk after lim) bs j :=
      ⟨rfl, hp.peof, hp.hsync, hbo, by rw [← hp.orest]; exact hro, hp.fits⟩
    refine ⟨_, hp1, by show o.rest.length = outer.rest.length; rw [hro], fun F => ?_⟩
    rw [nextInner_succ]
    simp only [hf, hbne, Bool.false_eq_true, if_false]
    rfl

theorem next_xs_eos {d : Decomp} {M : Nat} (datum : RState → Except DeErr α × RState)
    {sync : Bytes} {r : Reader} {bs : List (List V)} {j : Nat}
    (hp : XStart enc sl M sync r bs j) (hnil : (fileBody enc sync bs).take j = []) :
    ∃ r1, next d datum r = (.ok none, r1) := by
  obtain ⟨r1, h1⟩ := xs_inner_eos (d := d) datum hp hnil (r.outer.rest.length + 3)
  exact ⟨r1, next_of_inner_ok hp.peof h1⟩

theorem next_xs_err {d : Decomp} {M : Nat} (datum : RState → Except DeErr α × RState)
    {sync : Bytes} {r : Reader} {bs : List (List V)} {j : Nat} {e : RdErr}
    (hp : XStart enc sl M sync r bs j) (hne : (fileBody enc sync bs).take j ≠ [])
    (he : ∀ r0, XStart enc sl M sync r0 bs j →
      ∃ r1, enterBlock d r0 = (.error e, r1) ∧ r1.st = .broken) :
    ∃ r1, next d datum r = (.error e, r1) ∧ r1.pretendEof = true := by
  obtain ⟨r0, hp0, _, hstep⟩ := xs_inner (d := d) datum hp hne
  obtain ⟨r1, h1, hb⟩ := he r0 hp0
  have := hstep (r.outer.rest.length + 3)
  rw [h1] at this
  exact ⟨_, next_of_inner_err hp.peof this (Or.inr hb), rfl⟩

theorem hdr_pos (b : List V) : 0 < (hdr enc b).length := by
  have := encodeVarI64_ne_nil (b.length : Int)
  simp only [hdr, List.length_append]
  cases hx : encodeVarI64 (b.length : Int) with
  | nil => exact absurd hx this
  | cons x xs => simp only [List.length_cons]; omega

theorem fileBody_take_ne {sync : Bytes} {b : List V} {bs : List (List V)} {j : Nat} (hj : 0 < j) :
    (fileBody enc sync (b :: bs)).take j ≠ [] := by
  intro h
  have := congrArg List.length h
  rw [fileBody_cons', List.length_take, List.length_append] at this
  have := hdr_pos (enc := enc) b
  simp only [List.length_nil] at *
  omega

theorem next_xs_enter {d : Decomp} {M : Nat} (datum : RState → Except DeErr α × RState)
    {sync : Bytes} {r : Reader} {b : List V} {bs : List (List V)} {j : Nat}
    (hn : d.isNull = true) (hb : BlockOk enc b)
    (hp : XStart enc sl M sync r (b :: bs) j) (hj : (hdr enc b).length ≤ j)
    (hfull : sl = true → (blockData enc b).length ≤ j - (hdr enc b).length) :
    ∃ r2, XPos enc sl M sync r2 b bs (j - (hdr enc b).length) ∧
      next d datum r = next d datum r2 := by
  have hpos := hdr_pos (enc := enc) b
  obtain ⟨r0, hp0, hlen0, hstep⟩ := xs_inner (d := d) datum hp (fileBody_take_ne (by omega))
  obtain ⟨r2, he, hp2, hlen⟩ := enterBlock_x hn hb hp0 hj hfull
  refine ⟨r2, hp2, ?_⟩
  rw [next_eq_post d datum r hp.peof, next_eq_post d datum r2 hp2.peof,
    hstep (r.outer.rest.length + 3), he]
  have hm := mu_xpos hp2
  have h2 := hp2.inv
  simp only
  rw [nextInner_fuel d datum (r.outer.rest.length + 3) (r2.outer.rest.length + 4) r2
    (by omega) (by omega)]

theorem next_xp_val {d : Decomp} {Q : V → Prop} {M : Nat} {sync : Bytes} {proj : α → β}
    {tgt : V → β} {datum : RState → Except DeErr α × RState} {r : Reader} {v : V} {vs : List V}
    {bs : List (List V)} {j : Nat} (hd : DatumCutOk enc Q (KOk sl M) proj tgt datum)
    (hq : Q v) (hp : XPos enc sl M sync r (v :: vs) bs j) (hj : (enc v).length ≤ j) :
    ∃ a r1, next d datum r = (.ok (some a), r1) ∧ proj a = tgt v ∧
      XPos enc sl M sync r1 vs bs (j - (enc v).length) := by
  obtain ⟨h1, h2, h3, h4, h4a, h4b, h5, h6, h7, h8, h9, h10, h11, h12⟩ := hp
  rw [blockData_cons] at h6 h7 h8 h11 h12
  simp only [List.length_append] at h7 h8 h11 h12
  obtain ⟨a, s', hs', hav, hr', hb'⟩ := (hd r.blk v (blockData enc vs) j hq h5 h6).1 hj
  have hin : nextInner d datum (r.outer.rest.length + 3 + 1) r = (.ok (some a),
      { r with st := .inBlock vs.length, blk := s',
               blkLimit := r.blkLimit - (r.blk.rest.length - s'.rest.length) }) := by
    rw [nextInner_succ]
    simp only [h1, List.length_cons, hs']
  refine ⟨a, _, next_of_inner_ok h2 hin, hav, rfl, h2, h3, h4, h4a, h4b, hb', hr', ?_, ?_, h9, h10,
    ?_, ?_⟩
  · show r.blkLimit - (r.blk.rest.length - s'.rest.length) = _
    rw [h7, h6, hr']
    simp only [List.length_take, List.length_append]
    omega
  · show r.after = _
    rw [h8, Nat.sub_add_eq]
  · intro hs; have := h11 hs; omega
  · intro hs; have := h12 hs; simp only [List.length_append]; omega

theorem next_xp_cut {d : Decomp} {Q : V → Prop} {M : Nat} {sync : Bytes}
    {datum : RState → Except DeErr α × RState} {r : Reader} {v : V} {vs : List V}
    {bs : List (List V)} {j : Nat} (hio : sl = false → DatumCutIo enc M Q datum)
    (hq : Q v) (hp : XPos enc sl M sync r (v :: vs) bs j) (hj : j < (enc v).length) :
    ∃ r1, next d datum r = (.error .io, r1) ∧ r1.pretendEof = true := by
  cases sl with
  | true =>
    have := hp.full rfl
    rw [blockData_cons, List.length_append] at this
    omega
  | false =>
    have h6 := hp.brest
    rw [blockData_cons] at h6
    have hfit := hp.fits rfl
    rw [blockData_cons] at hfit
    simp only [List.length_append] at hfit
    obtain ⟨s', hs'⟩ := hio rfl r.blk v (blockData enc vs) j hq hp.blk h6
      (by simp only [List.length_append]; omega) hj
    have hin : nextInner d datum (r.outer.rest.length + 3 + 1) r = (.error .io,
        { r with st := .inBlock vs.length, blk := s',
                 blkLimit := r.blkLimit - (r.blk.rest.length - s'.rest.length) }) := by
      rw [nextInner_succ]
      simp only [hp.st, List.length_cons, hs']
      rfl
    exact ⟨_, next_of_inner_err hp.peof hin (Or.inl rfl), rfl⟩

theorem next_xp_sync_err {d : Decomp} {M : Nat} (datum : RState → Except DeErr α × RState)
    {sync : Bytes} {r : Reader} {bs : List (List V)} {j : Nat} (hn : d.isNull = true)
    (hp : XPos enc sl M sync r [] bs j) (hj : j < 16) :
    ∃ r1, next d datum r = (.error .io, r1) ∧ r1.pretendEof = true := by
  obtain ⟨r1, h1, _⟩ := leaveBlock_x_err hn hp hj
  have hin : nextInner d datum (r.outer.rest.length + 3 + 1) r = (.error .io, r1) := by
    rw [nextInner_succ]
    simp only [hp.st, List.length_nil, h1]
  exact ⟨_, next_of_inner_err hp.peof hin (Or.inl rfl), rfl⟩

theorem next_xp_leave {d : Decomp} {M : Nat} (datum : RState → Except DeErr α × RState)
    {sync : Bytes} {r : Reader} {bs : List (List V)} {j : Nat} (hn : d.isNull = true)
    (hsy : sync.length = 16) (hp : XPos enc sl M sync r [] bs j) (hj : 16 ≤ j) :
    ∃ rn, XStart enc sl M sync rn bs (j - 16) ∧ next d datum r = next d datum rn := by
  obtain ⟨rn, hl, hs, hlen⟩ := leaveBlock_x_ok hn hsy hp hj
  refine ⟨rn, hs, ?_⟩
  have hstep : nextInner d datum (r.outer.rest.length + 3 + 1) r
      = nextInner d datum (r.outer.rest.length + 3) rn := by
    rw [nextInner_succ]
    simp only [hp.st, List.length_nil, hl]
  rw [next_eq_post d datum r hp.peof, next_eq_post d datum rn hs.peof, hstep]
  have h1 := hp.inv
  have hm : mu rn = rn.outer.rest.length := by simp [mu, hs.st]
  rw [nextInner_fuel d datum (r.outer.rest.length + 3) (rn.outer.rest.length + 4) rn
    (by omega) (by omega)]

end Pos

/-! ### The whole run, exactly -/

section Run
variable {V α β : Type}

/-- `readAll`, also returning the reader as the last call left it -/
def readAllR (d : Decomp) (datum : RState → Except DeErr α × RState) :
    Nat → Reader → List α × End × Reader
  | 0, r => ([], .more, r)
  | k + 1, r =>
    match next d datum r with
    | (.ok (some a), r') => (a :: (readAllR d datum k r').1, (readAllR d datum k r').2)
    | (.ok none, r') => ([], .eos, r')
    | (.error e, r') => ([], .err e, r')

theorem readAllR_eq (d : Decomp) (datum : RState → Except DeErr α × RState) :
    ∀ (k : Nat) (r : Reader),
      readAll d datum k r = ((readAllR d datum k r).1, (readAllR d datum k r).2.1) := by
  intro k
  induction k with
  | zero => intro r; rfl
  | succ k ih =>
    intro r
    simp only [readAll, readAllR]
    generalize next d datum r = x
    obtain ⟨(e | (_ | a)), r'⟩ := x
    · rfl
    · rfl
    · simp only [ih r']

theorem readAllR_congr {d : Decomp} {datum : RState → Except DeErr α × RState} {r r2 : Reader}
    (h : next d datum r = next d datum r2) (k : Nat) :
    readAllR d datum (k + 1) r = readAllR d datum (k + 1) r2 := by
  simp only [readAllR, h]

theorem readAllR_some {d : Decomp} {datum : RState → Except DeErr α × RState} {r r' : Reader}
    {a : α} (h : next d datum r = (.ok (some a), r')) (k : Nat) :
    readAllR d datum (k + 1) r = (a :: (readAllR d datum k r').1, (readAllR d datum k r').2) := by
  simp only [readAllR, h]

theorem readAllR_none {d : Decomp} {datum : RState → Except DeErr α × RState} {r r' : Reader}
    (h : next d datum r = (.ok none, r')) (k : Nat) :
    readAllR d datum (k + 1) r = ([], .eos, r') := by
  simp only [readAllR, h]

theorem readAllR_err {d : Decomp} {datum : RState → Except DeErr α × RState} {r r' : Reader}
    {e : RdErr} (h : next d datum r = (.error e, r')) (k : Nat) :
    readAllR d datum (k + 1) r = ([], .err e, r') := by
  simp only [readAllR, h]

/-- once `pretendEof` is set every further call reports end of stream and changes nothing -/
theorem next_pretendEof (d : Decomp) (datum : RState → Except DeErr α × RState) (r : Reader)
    (h : r.pretendEof = true) : next d datum r = (.ok none, r) := by
  simp [next, h]

variable (enc : V → Bytes) (sl : Bool)

/-- what the run yields from inside a block (`vals` to come, `j` bytes left from there), given
    what it yields from the following block boundary (`k`) -/
def expPos (k : Nat → List V × End) : List V → Nat → List V × End
  | [], j => if j < 16 then ([], .err .io) else k (j - 16)
  | v :: vs, j =>
    if j < (enc v).length then ([], .err .io)
    else (v :: (expPos k vs (j - (enc v).length)).1, (expPos k vs (j - (enc v).length)).2)

/-- what the run yields from a block boundary with `j` bytes left: the values and how it ends -/
def expStart : List (List V) → Nat → List V × End
  | [], _ => ([], .eos)
  | b :: bs, j =>
    if j = 0 then ([], .eos)
    else if j < (hdr enc b).length then ([], .err (if sl then .custom else .io))
    else if sl = true ∧ j - (hdr enc b).length < (blockData enc b).length then ([], .err .custom)
    else expPos enc (expStart bs) b (j - (hdr enc b).length)

/-- the run against its prediction: the values (through `proj`/`tgt`), the end, and after an
    error the reader pretends end of stream -/
def Res (proj : α → β) (tgt : V → β) (x : List α × End × Reader) (y : List V × End) : Prop :=
  x.1.map proj = y.1.map tgt ∧ x.2.1 = y.2 ∧ (∀ e, y.2 = .err e → x.2.2.pretendEof = true)

variable {enc sl}
variable {d : Decomp} {Q : V → Prop} {M : Nat} {sync : Bytes} {proj : α → β} {tgt : V → β}
  {datum : RState → Except DeErr α × RState}

theorem run_pos (hn : d.isNull = true) (hsy : sync.length = 16)
    (hd : DatumCutOk enc Q (KOk sl M) proj tgt datum)
    (hio : sl = false → DatumCutIo enc M Q datum)
    (bs : List (List V))
    (hstart : ∀ r j k, XStart enc sl M sync r bs j → bs.flatten.length < k →
      Res proj tgt (readAllR d datum k r) (expStart enc sl bs j)) :
    ∀ (vals : List V) (r : Reader) (j k : Nat), (∀ v ∈ vals, Q v) →
      XPos enc sl M sync r vals bs j → vals.length + bs.flatten.length < k →
      Res proj tgt (readAllR d datum k r) (expPos enc (expStart enc sl bs) vals j) := by
  intro vals
  induction vals with
  | nil =>
    intro r j k _ hp hk
    obtain ⟨k, rfl⟩ : ∃ k', k = k' + 1 := ⟨k - 1, by omega⟩
    unfold expPos
    by_cases hj : j < 16
    · obtain ⟨r1, h1, hpe⟩ := next_xp_sync_err (d := d) datum hn hp hj
      rw [if_pos hj, readAllR_err h1]
      exact ⟨rfl, rfl, fun _ _ => hpe⟩
    · obtain ⟨rn, hs, heq⟩ := next_xp_leave (d := d) datum hn hsy hp (by omega)
      rw [if_neg hj, readAllR_congr heq]
      exact hstart rn _ _ hs (by simp only [List.length_nil] at hk; omega)
  | cons v vs ih =>
    intro r j k hq hp hk
    obtain ⟨k, rfl⟩ : ∃ k', k = k' + 1 := ⟨k - 1, by omega⟩
    unfold expPos
    by_cases hj : j < (enc v).length
    · obtain ⟨r1, h1, hpe⟩ := next_xp_cut (d := d) hio (hq v (by simp)) hp hj
      rw [if_pos hj, readAllR_err h1]
      exact ⟨rfl, rfl, fun _ _ => hpe⟩
    · obtain ⟨a, r1, h1, hav, hp1⟩ := next_xp_val (d := d) hd (hq v (by simp)) hp (by omega)
      rw [if_neg hj, readAllR_some h1]
      obtain ⟨i1, i2, i3⟩ := ih r1 _ k (fun w hw => hq w (by simp [hw])) hp1
        (by simp only [List.length_cons] at hk; omega)
      exact ⟨by simp only [List.map_cons, hav, i1], i2, i3⟩

theorem run_start_nil (r : Reader) (j k : Nat) (hp : XStart enc sl M sync r [] j) (hk : 0 < k) :
    Res proj tgt (readAllR d datum k r) (expStart enc sl [] j) := by
  obtain ⟨k, rfl⟩ : ∃ k', k = k' + 1 := ⟨k - 1, by omega⟩
  obtain ⟨r1, h1⟩ := next_xs_eos (d := d) datum hp (by simp [fileBody])
  rw [readAllR_none h1]
  exact ⟨rfl, rfl, fun _ h => by cases h⟩

theorem run_start_cons (hn : d.isNull = true) (b : List V) (bs : List (List V))
    (hb : BlockOk enc b)
    (hpos : ∀ (r : Reader) (j k : Nat), XPos enc sl M sync r b bs j →
      b.length + bs.flatten.length < k →
      Res proj tgt (readAllR d datum k r) (expPos enc (expStart enc sl bs) b j)) :
    ∀ r j k, XStart enc sl M sync r (b :: bs) j → (b :: bs).flatten.length < k →
      Res proj tgt (readAllR d datum k r) (expStart enc sl (b :: bs) j) := by
  intro r j k hp hk
  obtain ⟨k, rfl⟩ : ∃ k', k = k' + 1 := ⟨k - 1, by omega⟩
  unfold expStart
  by_cases hj0 : j = 0
  · obtain ⟨r1, h1⟩ := next_xs_eos (d := d) datum hp (by rw [hj0]; rfl)
    rw [if_pos hj0, readAllR_none h1]
    exact ⟨rfl, rfl, fun _ h => by cases h⟩
  · rw [if_neg hj0]
    have hne : (fileBody enc sync (b :: bs)).take j ≠ [] := fileBody_take_ne (by omega)
    by_cases hj1 : j < (hdr enc b).length
    · obtain ⟨r1, h1, hpe⟩ := next_xs_err (d := d) datum hp hne
        (fun r0 h0 => enterBlock_x_hdr hb h0 hj1)
      rw [if_pos hj1, readAllR_err h1, ofDe_hdrCls]
      exact ⟨rfl, rfl, fun _ _ => hpe⟩
    · rw [if_neg hj1]
      by_cases hj2 : sl = true ∧ j - (hdr enc b).length < (blockData enc b).length
      · obtain ⟨hsl, hcut⟩ := hj2
        subst hsl
        obtain ⟨r1, h1, hpe⟩ := next_xs_err (d := d) datum hp hne
          (fun r0 h0 => enterBlock_x_take hn hb h0 (by omega) hcut)
        rw [if_pos ⟨rfl, hcut⟩, readAllR_err h1]
        exact ⟨rfl, rfl, fun _ _ => hpe⟩
      · obtain ⟨r2, hp2, heq⟩ := next_xs_enter (d := d) datum hn hb hp (by omega)
          (fun hs => by
            have : ¬ (j - (hdr enc b).length < (blockData enc b).length) := fun h => hj2 ⟨hs, h⟩
            omega)
        rw [if_neg hj2, readAllR_congr heq]
        exact hpos r2 _ _ hp2 (by simp only [List.flatten_cons, List.length_append] at hk; omega)

/-- **The run from a block boundary of a cut valid file is exactly the predicted one.** -/
theorem run_start (hn : d.isNull = true) (hsy : sync.length = 16)
    (hd : DatumCutOk enc Q (KOk sl M) proj tgt datum)
    (hio : sl = false → DatumCutIo enc M Q datum) :
    ∀ (bs : List (List V)), (∀ b ∈ bs, BlockOk enc b) → (∀ v ∈ bs.flatten, Q v) →
      ∀ r j k, XStart enc sl M sync r bs j → bs.flatten.length < k →
        Res proj tgt (readAllR d datum k r) (expStart enc sl bs j) := by
  intro bs
  induction bs with
  | nil => intro _ _ r j k hp hk; exact run_start_nil r j k hp (by omega)
  | cons b bs ih =>
    intro hbs hq
    have hq' : ∀ v ∈ bs.flatten, Q v := fun v hv => hq v (by simp [hv])
    have hqb : ∀ v ∈ b, Q v := fun v hv => hq v (by simp [hv])
    have hst := ih (fun b' hb' => hbs b' (by simp [hb'])) hq'
    exact run_start_cons hn b bs (hbs b (by simp))
      (fun r j k hp hk => run_pos hn hsy hd hio bs hst b r j k hqb hp hk)

theorem xstart_open (sync : Bytes) (blocks : List (List V)) (m : Nat) (sched : List Nat)
    (lastChunk M : Nat) (hM : sl = false → (fileBody enc sync blocks).length ≤ M) :
    XStart enc sl M sync
      (openSrc sl sync ((fileBody enc sync blocks).take m) sched lastChunk M) blocks m :=
  ⟨rfl, rfl, rfl, kOk_open sl _ _ _ _ _ (fun h => by
    have := hM h; rw [List.length_take]; omega), rfl, hM⟩

end Run

/-! ### The prediction in closed form: where the cut falls -/

section Where
variable {V : Type} (enc : V → Bytes)

/-- where a cut after `m` bytes of `fileBody enc sync bs` (16-byte markers) falls -/
inductive Where
  | clean    -- at a block boundary (also `m = 0`) or at/after the end of the file
  | header   -- inside the count or the size of a block, or between the two
  | data     -- count and size complete, the block's data incomplete
  | marker   -- data complete, the sync marker incomplete (possibly entirely missing)
  deriving DecidableEq, Repr

def cutWhere : List (List V) → Nat → Where
  | [], _ => .clean
  | b :: bs, m =>
    if m = 0 then .clean
    else if m < (hdr enc b).length then .header
    else if m - (hdr enc b).length < (blockData enc b).length then .data
    else if m - (hdr enc b).length - (blockData enc b).length < 16 then .marker
    else cutWhere bs (m - (hdr enc b).length - (blockData enc b).length - 16)

/-- the values delivered before the run ends (`sl`: slice back-end) -/
def cutVals (sl : Bool) : List (List V) → Nat → List V
  | [], _ => []
  | b :: bs, m =>
    if m < (hdr enc b).length then []
    else if m - (hdr enc b).length < (blockData enc b).length then
      (if sl then [] else fitting enc b (m - (hdr enc b).length))
    else if m - (hdr enc b).length - (blockData enc b).length < 16 then b
    else b ++ cutVals sl bs (m - (hdr enc b).length - (blockData enc b).length - 16)

/-- how the run ends -/
def cutEnd (sl : Bool) : Where → End
  | .clean => .eos
  | .header => .err (if sl then .custom else .io)
  | .data => .err (if sl then .custom else .io)
  | .marker => .err .io

theorem expPos_eq (k : Nat → List V × End) : ∀ (vals : List V) (j : Nat),
    expPos enc k vals j =
      if j < (blockData enc vals).length then (fitting enc vals j, .err .io)
      else if j - (blockData enc vals).length < 16 then (vals, .err .io)
      else (vals ++ (k (j - (blockData enc vals).length - 16)).1,
            (k (j - (blockData enc vals).length - 16)).2) := by
  intro vals
  induction vals with
  | nil =>
    intro j
    by_cases h : j < 16
    · simp [expPos, Stream.blockData, h]
    · simp [expPos, Stream.blockData, h]
  | cons v vs ih =>
    intro j
    rw [expPos, blockData_cons, List.length_append, ih, Nat.sub_add_eq]
    simp only [fitting]
    repeat' split
    all_goals first | rfl | (exfalso; omega)

theorem expStart_eq (sl : Bool) : ∀ (bs : List (List V)) (m : Nat),
    expStart enc sl bs m = (cutVals enc sl bs m, cutEnd sl (cutWhere enc bs m)) := by
  intro bs
  induction bs with
  | nil => intro m; rfl
  | cons b bs ih =>
    intro m
    have hpos := hdr_pos (enc := enc) b
    rw [expStart, cutVals, cutWhere, expPos_eq]
    simp only [ih]
    cases sl
    all_goals repeat' split
    all_goals first | rfl | (exfalso; omega) | (exfalso; simp_all; done) | (simp_all; done)

theorem blockBytes_length (sync : Bytes) (hsy : sync.length = 16) (b : List V) :
    (blockBytes enc sync b).length = (hdr enc b).length + (blockData enc b).length + 16 := by
  simp only [Stream.blockBytes, hdr, List.length_append, hsy]

theorem fileBody_length_cons (sync : Bytes) (hsy : sync.length = 16) (b : List V)
    (bs : List (List V)) : (fileBody enc sync (b :: bs)).length =
      (hdr enc b).length + (blockData enc b).length + 16 + (fileBody enc sync bs).length := by
  rw [fileBody_cons']; simp only [List.length_append, hsy]; omega

/-- **A cut is clean exactly at a block boundary or at/after the end of the file.** -/
theorem cutWhere_clean_iff (sync : Bytes) (hsy : sync.length = 16) :
    ∀ (bs : List (List V)) (m : Nat),
      cutWhere enc bs m = .clean ↔
        ((fileBody enc sync bs).length ≤ m ∨
          ∃ i, i ≤ bs.length ∧ m = (fileBody enc sync (bs.take i)).length) := by
  intro bs
  induction bs with
  | nil => intro m; simp [cutWhere, fileBody]
  | cons b bs ih =>
    intro m
    have hpos := hdr_pos (enc := enc) b
    have hlen := fileBody_length_cons enc sync hsy b
    rw [cutWhere]
    by_cases h0 : m = 0
    · rw [if_pos h0]
      simp only [true_iff]
      exact .inr ⟨0, by omega, by rw [h0]; rfl⟩
    · rw [if_neg h0]
      have hi0 : ∀ i, i ≤ (b :: bs).length → m = (fileBody enc sync ((b :: bs).take i)).length →
          ∃ i', i = i' + 1 := by
        intro i _ hm
        cases i with
        | zero => exfalso; apply h0; rw [hm]; rfl
        | succ i' => exact ⟨i', rfl⟩
      by_cases h1 : m < (hdr enc b).length
      · rw [if_pos h1]
        constructor
        · intro h; cases h
        · rintro (h | ⟨i, hi, hm⟩)
          · rw [hlen] at h; omega
          · obtain ⟨i', rfl⟩ := hi0 i hi hm
            rw [List.take_succ_cons, hlen] at hm; omega
      · rw [if_neg h1]
        by_cases h2 : m - (hdr enc b).length < (blockData enc b).length
        · rw [if_pos h2]
          constructor
          · intro h; cases h
          · rintro (h | ⟨i, hi, hm⟩)
            · rw [hlen] at h; omega
            · obtain ⟨i', rfl⟩ := hi0 i hi hm
              rw [List.take_succ_cons, hlen] at hm; omega
        · rw [if_neg h2]
          by_cases h3 : m - (hdr enc b).length - (blockData enc b).length < 16
          · rw [if_pos h3]
            constructor
            · intro h; cases h
            · rintro (h | ⟨i, hi, hm⟩)
              · rw [hlen] at h; omega
              · obtain ⟨i', rfl⟩ := hi0 i hi hm
                rw [List.take_succ_cons, hlen] at hm; omega
          · rw [if_neg h3, ih]
            constructor
            · rintro (h | ⟨i, hi, hm⟩)
              · exact .inl (by rw [hlen]; omega)
              · refine .inr ⟨i + 1, by simp only [List.length_cons]; omega, ?_⟩
                rw [List.take_succ_cons, hlen]; omega
            · rintro (h | ⟨i, hi, hm⟩)
              · exact .inl (by rw [hlen] at h; omega)
              · obtain ⟨i', rfl⟩ := hi0 i hi hm
                rw [List.take_succ_cons, hlen] at hm
                exact .inr ⟨i', by simp only [List.length_cons] at hi; omega, by omega⟩

/-- at a boundary the values delivered are those of the complete blocks -/
theorem cutVals_boundary (sl : Bool) (sync : Bytes) (hsy : sync.length = 16) :
    ∀ (bs : List (List V)) (i : Nat),
      cutVals enc sl bs (fileBody enc sync (bs.take i)).length = (bs.take i).flatten := by
  intro bs
  induction bs with
  | nil => intro i; simp [cutVals]
  | cons b bs ih =>
    intro i
    have hpos := hdr_pos (enc := enc) b
    cases i with
    | zero => simp only [List.take_zero, List.flatten_nil, cutVals, fileBody, List.map_nil,
        List.length_nil]; rw [if_pos hpos]
    | succ i =>
      have hlen := fileBody_length_cons enc sync hsy b (bs.take i)
      rw [List.take_succ_cons, cutVals, hlen, if_neg (by omega), if_neg (by omega),
        if_neg (by omega), List.flatten_cons]
      have e : (hdr enc b).length + (blockData enc b).length + 16
          + (fileBody enc sync (bs.take i)).length - (hdr enc b).length
          - (blockData enc b).length - 16 = (fileBody enc sync (bs.take i)).length := by omega
      rw [e, ih]

theorem cutVals_all (sl : Bool) (sync : Bytes) (hsy : sync.length = 16) (bs : List (List V))
    (m : Nat) (h : (fileBody enc sync bs).length ≤ m) : cutVals enc sl bs m = bs.flatten := by
  induction bs generalizing m with
  | nil => rfl
  | cons b bs ih =>
    have hlen := fileBody_length_cons enc sync hsy b bs
    rw [hlen] at h
    rw [cutVals, if_neg (by omega), if_neg (by omega), if_neg (by omega), List.flatten_cons,
      ih _ (by omega)]

end Where

end Avro.Theorems.Cut
