import AvroModel.Lemmas.DeriveWider
/-
C20, wider, with enums that map to unions — part 1: the builder invariant.

`KeyNodeU` extends `DeriveG.KeyNode` (generic records, `Lemmas/DeriveGeneric.lean`):

* a non-generic enum that maps to a union owns a `union` node whose branches are, per variant, the
  node registered for `()` (unit variant), the node registered for the payload type (newtype
  variant that goes through `find_or_build`), or a `fixed` node *owned by the variant* (payload
  written `[u8; N]`, behind pointers), named `ownedName d (.newtypeVariant v.ident) ""`;
* an instantiation of a *generic* enum that maps to a union (key `.generic id n :: keys of the payload
  types`) owns a `union` node whose branches are registered for `()` resp. for the key listed at the
  variant's position among the variants with a payload (`fieldIdx`);
* the names of the named nodes that do not depend on the hash are recorded (`u8_array_N`, the type
  name of a non-generic record / unit-only enum / `[u8; N]` newtype), so that the by-name table of a
  union can be read off the invariant.

Nodes that no lookup type owns (logical-type fields, variant-owned fixeds) are never `null`
placeholders; `KeyNodeU.mono` keeps every non-placeholder node, and `InvU.set` fills a node that
holds the placeholder.
-/
namespace Avro.Theorems.DeriveWU
open Avro Avro.Impl Avro.Impl.Derive Avro.Theorems.DeriveG Avro.Theorems.DeriveW
open Avro.Theorems.DeriveFits hiding Inv KeyNode Done app_leaf app_fill app_step_leaf plainAt_of_done leaf_realizes leaf_keyNode

/-- The branch of one variant of an enum instantiated with `args`: `c` is the node index listed in
    the union. -/
def VarNode (P : Prog) (reg : Key → Nat → Prop) (nodes : Array RawNode) (d : Decl) (args : List Ty)
    (v : Variant) (c : Nat) : Prop :=
  match v.field with
  | none => reg [.unit] c
  | some fd =>
    if isDirect fd (.newtypeVariant v.ident) = true then ∃ k, KeyOf P (subst args fd.ty) k ∧ reg k c
    else ∃ n, Derive.peel fd.ty = .byteArray n ∧
      nodes[c]? = some (plain (.fixed (Name.ofFq (ownedName d (.newtypeVariant v.ident) "")) n))

/-- Position of variant `j`'s field among the fields of the variants that have one
    (`Body.lookupFields`). -/
def fieldIdx (vs : List Variant) (j : Nat) : Nat := ((vs.take j).filterMap (·.field)).length

theorem filterMap_fieldIdx : ∀ (vs : List Variant) (j : Nat) (v : Variant) (fd : Field), vs[j]? = some v →
    v.field = some fd → (vs.filterMap (·.field))[fieldIdx vs j]? = some fd
  | [], j, v, fd, hj, _ => by simp at hj
  | x :: rest, 0, v, fd, hj, hf => by
    simp only [List.getElem?_cons_zero, Option.some.injEq] at hj
    subst hj
    simp [fieldIdx, hf]
  | x :: rest, j + 1, v, fd, hj, hf => by
    have ih := filterMap_fieldIdx rest j v fd (by simpa using hj) hf
    unfold fieldIdx at ih ⊢
    cases hx : x.field with
    | none => simpa [List.filterMap_cons, hx] using ih
    | some y => simpa [List.filterMap_cons, hx] using ih

/-- The node a finished lookup type owns, by the head token of its key. -/
def KeyNodeU (P : Prog) (reg : Key → Nat → Prop) (nodes : Array RawNode) : Key → Nat → Prop
  | [], _ => False
  | tok :: rest, i =>
    match tok with
    | .unit => nodes[i]? = some (plain .null)
    | .bool => nodes[i]? = some (plain .boolean)
    | .int => nodes[i]? = some (plain .int)
    | .long => nodes[i]? = some (plain .long)
    | .float => nodes[i]? = some (plain .float)
    | .double => nodes[i]? = some (plain .double)
    | .string => nodes[i]? = some (plain .string)
    | .bytes => nodes[i]? = some (plain .bytes)
    | .byteArray n => nodes[i]? = some (plain (.fixed (Name.ofFq ("u8_array_" ++ toString n)) n))
    | .vec => ∃ c, nodes[i]? = some (plain (.array c)) ∧ reg rest c
    | .map => ∃ c, nodes[i]? = some (plain (.map c)) ∧ reg rest c
    | .option => ∃ a b, nodes[i]? = some (plain (.union [a, b])) ∧ reg [.unit] a ∧ reg rest b
    | .self id =>
      match P[id]? with
      | none => False
      | some d =>
        match d.body with
        | .record fields =>
          ∃ fs, nodes[i]? = some (plain (.record (Name.ofFq (typeName d)) fs)) ∧ fs.length = fields.length ∧
            ∀ (j : Nat) (fd : Field) (p : String × Nat), fields[j]? = some fd → fs[j]? = some p →
              p.1 = fd.name ∧
                ((fd.attr.logical.isNone = true ∧ ∃ k, KeyOf P fd.ty k ∧ reg k p.2) ∨
                 (fd.attr.logical.isNone = false ∧
                    ∃ raw, logicalRaw d fd = some raw ∧ nodes[p.2]? = some raw))
        | .unitEnum vs => nodes[i]? = some (plain (.enum (Name.ofFq (typeName d)) vs))
        | .newtype fd =>
          isDirect fd .newtypeStruct = false ∧
            ∃ n, nodes[i]? = some (plain (.fixed (Name.ofFq (ownedName d .newtypeStruct "")) n)) ∧
              Derive.peel fd.ty = .byteArray n
        | .union vs =>
          ∃ ks, nodes[i]? = some (plain (.union ks)) ∧ ks.length = vs.length ∧
            ∀ (j : Nat) (v : Variant) (c : Nat), vs[j]? = some v → ks[j]? = some c →
              VarNode P reg nodes d [] v c
    | .generic id _ =>
      match P[id]? with
      | none => False
      | some d =>
        match d.body with
        | .record fields =>
          ∃ (nm : Name) (fs : List (String × Nat)) (cks : List Key),
            nodes[i]? = some (plain (.record nm fs)) ∧ fs.length = fields.length ∧
            cks.length = fields.length ∧ rest = cks.flatten ∧ (∀ ck ∈ cks, Coded 1 ck) ∧
            ∀ (j : Nat) (fd : Field) (p : String × Nat) (ck : Key), fields[j]? = some fd →
              fs[j]? = some p → cks[j]? = some ck →
              p.1 = fd.name ∧
                ((fd.attr.logical.isNone = true ∧ reg ck p.2) ∨
                 (fd.attr.logical.isNone = false ∧
                    ∃ tn raw, logicalRawAt d fd fd.name tn = some raw ∧ nodes[p.2]? = some raw))
        | .union vs =>
          -- a generic enum that maps to a union: the key lists the keys of the payload types
          ∃ (ks : List Nat) (cks : List Key),
            nodes[i]? = some (plain (.union ks)) ∧ ks.length = vs.length ∧
            cks.length = (vs.filterMap (·.field)).length ∧ rest = cks.flatten ∧ (∀ ck ∈ cks, Coded 1 ck) ∧
            ∀ (j : Nat) (v : Variant) (c : Nat), vs[j]? = some v → ks[j]? = some c →
              match v.field with
              | none => reg [.unit] c
              | some _ => ∃ ck, cks[fieldIdx vs j]? = some ck ∧ reg ck c
        | _ => False

theorem raw_ne_null {d : Decl} {fd : Field} {name tn : String} {raw : RawNode}
    (h : logicalRawAt d fd name tn = some raw) (hl : fd.attr.logical.isNone = false) :
    raw ≠ plain .null := by
  intro he
  have := logicalRawAt_logical h hl
  rw [he] at this
  exact this rfl

theorem VarNode.mono {P : Prog} {reg reg' : Key → Nat → Prop} {nodes nodes' : Array RawNode}
    {d : Decl} {args : List Ty} {v : Variant} {c : Nat} (hreg : ∀ k c, reg k c → reg' k c)
    (hown : ∀ (j : Nat) (x : RawNode), nodes[j]? = some x → x ≠ plain .null → nodes'[j]? = some x)
    (h : VarNode P reg nodes d args v c) : VarNode P reg' nodes' d args v c := by
  unfold VarNode at h ⊢
  cases hf : v.field with
  | none => rw [hf] at h; exact hreg _ _ h
  | some fd =>
    rw [hf] at h
    dsimp only at h ⊢
    split
    · rename_i hdir
      rw [if_pos hdir] at h
      obtain ⟨k, h1, h2⟩ := h
      exact ⟨k, h1, hreg _ _ h2⟩
    · rename_i hdir
      rw [if_neg hdir] at h
      obtain ⟨n, h1, h2⟩ := h
      exact ⟨n, h1, hown _ _ h2 (by simp [plain])⟩

theorem KeyNodeU.mono {P : Prog} {reg reg' : Key → Nat → Prop} {nodes nodes' : Array RawNode}
    {k : Key} {i : Nat} (hreg : ∀ k c, reg k c → reg' k c) (hn : nodes'[i]? = nodes[i]?)
    (hown : ∀ (j : Nat) (x : RawNode), nodes[j]? = some x → x ≠ plain .null → nodes'[j]? = some x)
    (h : KeyNodeU P reg nodes k i) : KeyNodeU P reg' nodes' k i := by
  cases k with
  | nil => exact h
  | cons tok rest =>
    cases tok with
    | vec => obtain ⟨c, h1, h2⟩ := h; exact ⟨c, by rw [hn]; exact h1, hreg _ _ h2⟩
    | map => obtain ⟨c, h1, h2⟩ := h; exact ⟨c, by rw [hn]; exact h1, hreg _ _ h2⟩
    | option =>
      obtain ⟨a, b, h1, h2, h3⟩ := h
      exact ⟨a, b, by rw [hn]; exact h1, hreg _ _ h2, hreg _ _ h3⟩
    | generic id m =>
      simp only [KeyNodeU] at h ⊢
      cases hd : P[id]? with
      | none => rw [hd] at h; exact h
      | some d =>
        rw [hd] at h
        dsimp only at h ⊢
        cases hb : d.body with
        | record fields =>
          rw [hb] at h
          obtain ⟨nm, fs, cks, h1, h2, h3, h4, h5, h6⟩ := h
          refine ⟨nm, fs, cks, by rw [hn]; exact h1, h2, h3, h4, h5, fun j fd p ck hj hp hc => ?_⟩
          obtain ⟨h7, h8⟩ := h6 j fd p ck hj hp hc
          refine ⟨h7, ?_⟩
          rcases h8 with ⟨hl, h8⟩ | ⟨hl, tn, raw, h8, h9⟩
          · exact .inl ⟨hl, hreg _ _ h8⟩
          · exact .inr ⟨hl, tn, raw, h8, hown _ _ h9 (raw_ne_null h8 hl)⟩
        | unitEnum vs => rw [hb] at h; exact h
        | newtype fd => rw [hb] at h; exact h
        | union vs =>
          rw [hb] at h
          obtain ⟨ks, cks, h1, h2, h3, h4, h5, h6⟩ := h
          refine ⟨ks, cks, by rw [hn]; exact h1, h2, h3, h4, h5, fun j v c hj hc => ?_⟩
          have := h6 j v c hj hc
          cases hf : v.field with
          | none => rw [hf] at this; exact hreg _ _ this
          | some fd =>
            rw [hf] at this
            obtain ⟨ck, h7, h8⟩ := this
            exact ⟨ck, h7, hreg _ _ h8⟩
    | self id =>
      simp only [KeyNodeU] at h ⊢
      cases hd : P[id]? with
      | none => rw [hd] at h; exact h
      | some d =>
        rw [hd] at h
        dsimp only at h ⊢
        cases hb : d.body with
        | record fields =>
          rw [hb] at h
          obtain ⟨fs, h1, h2, h3⟩ := h
          refine ⟨fs, by rw [hn]; exact h1, h2, fun j fd p hj hp => ?_⟩
          obtain ⟨h4, h5⟩ := h3 j fd p hj hp
          refine ⟨h4, ?_⟩
          rcases h5 with ⟨hl, k, h5, h6⟩ | ⟨hl, raw, h5, h6⟩
          · exact .inl ⟨hl, k, h5, hreg _ _ h6⟩
          · exact .inr ⟨hl, raw, h5, hown _ _ h6 (raw_ne_null h5 hl)⟩
        | unitEnum vs =>
          rw [hb] at h
          dsimp only at h ⊢
          rw [hn]; exact h
        | newtype fd =>
          rw [hb] at h
          obtain ⟨h0, n, h1, h2⟩ := h
          exact ⟨h0, n, by rw [hn]; exact h1, h2⟩
        | union vs =>
          rw [hb] at h
          obtain ⟨ks, h1, h2, h3⟩ := h
          exact ⟨ks, by rw [hn]; exact h1, h2, fun j v c hj hc => (h3 j v c hj hc).mono hreg hown⟩
    | _ => simp only [KeyNodeU] at h ⊢; rw [hn]; exact h

def DoneU (P : Prog) (s : BState) (k : Key) (i : Nat) : Prop := KeyNodeU P (Reg s) s.nodes k i

/-- Builder invariant (as `DeriveG.Inv`, over `KeyNodeU`). -/
structure InvU (P : Prog) (pend : List Key) (s : BState) : Prop where
  bnd : ∀ k i, Reg s k i → i < s.nodes.size
  inj : ∀ k k' i, Reg s k i → Reg s k' i → k = k'
  done : ∀ k i, Reg s k i → k ∈ pend ∨ DoneU P s k i
  isPlain : ∀ k i, Reg s k i → ∃ X, s.nodes[i]? = some (plain X)

theorem DoneU.ext {P : Prog} {s s' : BState} {k : Key} {i : Nat} (he : BExt s s') (hi : i < s.nodes.size)
    (h : DoneU P s k i) : DoneU P s' k i :=
  KeyNodeU.mono he.built (he.nodes i hi) (fun j x hj _ => by
    have hlt : j < s.nodes.size := by
      rcases Nat.lt_or_ge j s.nodes.size with h | h
      · exact h
      · rw [Array.getElem?_eq_none h] at hj; cases hj
    rw [he.nodes j hlt, hj]) h

theorem InvU.empty (P : Prog) : InvU P [] {} :=
  ⟨fun k i h => by simp [Reg, List.lookup] at h, fun k k' i h => by simp [Reg, List.lookup] at h,
   fun k i h => by simp [Reg, List.lookup] at h, fun k i h => by simp [Reg, List.lookup] at h⟩

theorem InvU.register_push {P : Prog} {pend : List Key} {s : BState} (hinv : InvU P pend s)
    {key : Key} (hnew : s.built.lookup key = none) (x : RawNode) (hx : ∃ X, x = plain X) :
    InvU P (key :: pend) { nodes := s.nodes.push x, built := (key, s.nodes.size) :: s.built } ∧
      BExt s { nodes := s.nodes.push x, built := (key, s.nodes.size) :: s.built } := by
  have hext : BExt s { nodes := s.nodes.push x, built := (key, s.nodes.size) :: s.built } := by
    refine ⟨by simp, fun j hj => by simp [Array.getElem?_push, Nat.ne_of_lt hj], fun k i h => ?_⟩
    refine Reg.cons_iff.mpr (.inr ⟨?_, h⟩)
    intro hk
    subst hk
    rw [Reg, hnew] at h
    cases h
  refine ⟨⟨fun k i h => ?_, fun k k' i h h' => ?_, fun k i h => ?_, fun k i h => ?_⟩, hext⟩
  · rcases Reg.cons_iff.mp h with ⟨_, rfl⟩ | ⟨_, h⟩
    · simp
    · have := hinv.bnd k i h; simp; omega
  · rcases Reg.cons_iff.mp h with ⟨h1, h2⟩ | ⟨hk, h3⟩
    · rcases Reg.cons_iff.mp h' with ⟨h4, _⟩ | ⟨hk', h6⟩
      · rw [h1, h4]
      · rw [h2] at h6; exact absurd (hinv.bnd _ _ h6) (Nat.lt_irrefl _)
    · rcases Reg.cons_iff.mp h' with ⟨_, h5⟩ | ⟨hk', h6⟩
      · rw [h5] at h3; exact absurd (hinv.bnd _ _ h3) (Nat.lt_irrefl _)
      · exact hinv.inj _ _ _ h3 h6
  · rcases Reg.cons_iff.mp h with ⟨rfl, _⟩ | ⟨hk, h⟩
    · exact .inl (by simp)
    · rcases hinv.done k i h with hp | hd
      · exact .inl (by simp [hp])
      · exact .inr (hd.ext hext (hinv.bnd k i h))
  · rcases Reg.cons_iff.mp h with ⟨_, rfl⟩ | ⟨_, h⟩
    · obtain ⟨X, rfl⟩ := hx
      exact ⟨X, by simp⟩
    · obtain ⟨X, hX⟩ := hinv.isPlain k i h
      exact ⟨X, by rw [hext.nodes i (hinv.bnd k i h)]; exact hX⟩

/-- Pushing a node that no lookup type owns (a logical-type field, a variant-owned fixed). -/
theorem InvU.push_owned {P : Prog} {pend : List Key} {s s' : BState} (hinv : InvU P pend s)
    (hb : s'.built = s.built) (hsz : s.nodes.size ≤ s'.nodes.size)
    (hn : ∀ j, j < s.nodes.size → s'.nodes[j]? = s.nodes[j]?) : InvU P pend s' ∧ BExt s s' := by
  have hreg : ∀ k i, Reg s' k i ↔ Reg s k i := fun k i => by unfold Reg; rw [hb]
  have hext : BExt s s' := ⟨hsz, hn, fun k i h => (hreg k i).mpr h⟩
  refine ⟨⟨fun k i h => ?_, fun k k' i h h' => ?_, fun k i h => ?_, fun k i h => ?_⟩, hext⟩
  · exact Nat.lt_of_lt_of_le (hinv.bnd k i ((hreg k i).mp h)) hsz
  · exact hinv.inj k k' i ((hreg k i).mp h) ((hreg k' i).mp h')
  · rcases hinv.done k i ((hreg k i).mp h) with hp | hd
    · exact .inl hp
    · exact .inr (hd.ext hext (hinv.bnd k i ((hreg k i).mp h)))
  · obtain ⟨X, hX⟩ := hinv.isPlain k i ((hreg k i).mp h)
    exact ⟨X, by rw [hn i (hinv.bnd k i ((hreg k i).mp h))]; exact hX⟩

/-- Filling a node owned by a pending lookup type, which holds the placeholder. -/
theorem InvU.set {P : Prog} {pend : List Key} {s : BState} {key : Key} {n : Nat}
    (hinv : InvU P (key :: pend) s) (hreg : Reg s key n) (hcur : s.nodes[n]? = some (plain .null))
    (x : RawNode) (hx : ∃ X, x = plain X) :
    InvU P (key :: pend) { s with nodes := s.nodes.set! n x } := by
  refine ⟨fun k i h => by simpa using hinv.bnd k i h, fun k k' i h h' => hinv.inj k k' i h h',
    fun k i h => ?_, fun k i h => ?_⟩
  · by_cases hk : k = key
    · exact .inl (by simp [hk])
    · rcases hinv.done k i h with hp | hd
      · exact .inl hp
      · refine .inr (KeyNodeU.mono (fun _ _ h => h) ?_ ?_ hd)
        · have hne : n ≠ i := fun hni => hk (hinv.inj k key i h (hni ▸ hreg))
          simp [Array.set!_eq_setIfInBounds, hne]
        · intro j y hj hy
          have hne : n ≠ j := by
            intro hnj
            subst hnj
            rw [hcur] at hj
            cases hj
            exact hy rfl
          simp only [Array.set!_eq_setIfInBounds]
          rw [Array.getElem?_setIfInBounds_ne hne]
          exact hj
  · by_cases hni : n = i
    · subst hni
      obtain ⟨X, rfl⟩ := hx
      exact ⟨X, by simp [Array.set!_eq_setIfInBounds, hinv.bnd k n h]⟩
    · obtain ⟨X, hX⟩ := hinv.isPlain k i h
      exact ⟨X, by simp only [Array.set!_eq_setIfInBounds]; rw [Array.getElem?_setIfInBounds_ne hni]; exact hX⟩

theorem InvU.finish {P : Prog} {pend : List Key} {s : BState} {key : Key}
    (hinv : InvU P (key :: pend) s) (hdone : ∀ i, Reg s key i → DoneU P s key i) : InvU P pend s := by
  refine ⟨hinv.bnd, hinv.inj, fun k i h => ?_, hinv.isPlain⟩
  rcases hinv.done k i h with hp | hd
  · rcases List.mem_cons.mp hp with rfl | hp
    · exact .inr (hdone i h)
    · exact .inl hp
  · exact .inr hd

theorem app_leafU {P : Prog} {pend : List Key} {s : BState} {key : Key} (hinv : InvU P pend s)
    (hnew : s.built.lookup key = none) (x : RawNode) (hx : ∃ X, x = plain X)
    (hdone : ∀ (reg : Key → Nat → Prop) (nodes : Array RawNode), nodes[s.nodes.size]? = some x →
      KeyNodeU P reg nodes key s.nodes.size) :
    InvU P pend { nodes := s.nodes.push x, built := (key, s.nodes.size) :: s.built } ∧
      BExt s { nodes := s.nodes.push x, built := (key, s.nodes.size) :: s.built } ∧
      s.nodes.size < (s.nodes.push x).size ∧
      Reg { nodes := s.nodes.push x, built := (key, s.nodes.size) :: s.built } key s.nodes.size := by
  obtain ⟨h1, h2⟩ := hinv.register_push hnew x hx
  refine ⟨h1.finish (fun i hi => ?_), h2, by simp, Reg.cons_self _ _ _ _⟩
  have : i = s.nodes.size := Reg.functional hi (Reg.cons_self _ _ _ _)
  subst this
  exact hdone _ _ (by simp)

/-- A type whose node is reserved (placeholder `null`), then filled once its children are
    registered. -/
theorem app_fillU {P : Prog} {pend : List Key} {s s3 : BState} {key : Key}
    (hinv3 : InvU P (key :: pend) s3) (hext : BExt s s3) (hreg : Reg s3 key s.nodes.size)
    (hnull : s3.nodes[s.nodes.size]? = some (plain .null)) (x : RawNode)
    (hx : ∃ X, x = plain X)
    (hdone : ∀ nodes : Array RawNode, nodes[s.nodes.size]? = some x →
      (∀ j, j ≠ s.nodes.size → nodes[j]? = s3.nodes[j]?) →
      KeyNodeU P (Reg s3) nodes key s.nodes.size) :
    InvU P pend { s3 with nodes := s3.nodes.set! s.nodes.size x } ∧
      BExt s { s3 with nodes := s3.nodes.set! s.nodes.size x } ∧
      s.nodes.size < (s3.nodes.set! s.nodes.size x).size ∧
      Reg { s3 with nodes := s3.nodes.set! s.nodes.size x } key s.nodes.size := by
  have hlt : s.nodes.size < s3.nodes.size := hinv3.bnd _ _ hreg
  refine ⟨(hinv3.set hreg hnull x hx).finish (fun i hi => ?_), hext.set_after (Nat.le_refl _) x,
    by simpa using hlt, hreg⟩
  have : i = s.nodes.size := Reg.functional hi hreg
  subst this
  refine hdone _ (by simp [Array.set!_eq_setIfInBounds, hlt]) (fun j hj => ?_)
  simp only [Array.set!_eq_setIfInBounds]
  exact Array.getElem?_setIfInBounds_ne (fun h => hj h.symm)

/-- The placeholder pushed at registration is still there when the node is filled. -/
theorem placeholder_kept {s s3 : BState} {key : Key}
    (hext3 : BExt { nodes := s.nodes.push (plain .null), built := (key, s.nodes.size) :: s.built } s3) :
    s3.nodes[s.nodes.size]? = some (plain .null) := by
  rw [hext3.nodes s.nodes.size (by simp)]
  simp

end Avro.Theorems.DeriveWU
