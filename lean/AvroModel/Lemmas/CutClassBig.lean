import AvroModel.Lemmas.CutClassOcf
/-
Helper lemmas for `Theorems/C17classBig.lean`: the truncation simulation of `Lemmas/CutClassDe.lean`
extended to states under an `io::Take` (`RState.limit = some l`), i.e. to the inside of a
`big-decimal`, and from there to `de … .any` on EVERY node kind.

Part 1: `TSimL`: as `TSim`, the two states under the SAME `Take` limit (any). `TRelL`: as `TRel`.
        `read_exact` under a limit; `VarIntReader::read_varint` (`varintProcessor`) under a limit:
        at the end of the cut input its buffer holds continuation bytes only, so `decode` answers
        `None` and the error is `UnexpectedEof` (class `io`).
Part 2: `readDecimal … .big` is in `TRel`.
Part 3: `TRel` for `de … .any`, every node kind, by induction on the fuel (the mutual block of
        `CutClassDe.lean` without its side conditions).
Part 4: `de` on a cut canonical encoding, reader back-end: class `io`, no condition on the schema.
-/
namespace Avro.Theorems.Cut
open Avro Avro.Impl Avro.Theorems

/-! ### Part 1: the simulation under a `Take` -/

/-- As `TSim`, under a common `Take` limit (`none`: no `Take`). -/
structure TSimL (z : Bytes) (r sl : RState) : Prop where
  reader : r.isSlice = false
  slice : sl.isSlice = true
  rest : sl.rest = r.rest ++ z
  avail : r.avail ≤ r.rest.length
  lim : r.limit = sl.limit
  alloc : sl.rest.length ≤ r.maxAlloc

theorem TSim.toL {z : Bytes} {r sl : RState} (h : TSim z r sl) : TSimL z r sl :=
  ⟨h.reader, h.slice, h.rest, h.avail, by rw [h.rlim, h.slim], h.alloc⟩

theorem TSimL.toSim {z : Bytes} {r sl : RState} (h : TSimL z r sl) (hl : r.limit = none) :
    TSim z r sl :=
  ⟨h.reader, h.slice, h.rest, h.avail, hl, by rw [← h.lim, hl], h.alloc⟩

theorem TSimL.wf_reader {z : Bytes} {r sl : RState} (h : TSimL z r sl) : r.WF := fun _ => h.avail
theorem TSimL.wf_slice {z : Bytes} {r sl : RState} (h : TSimL z r sl) : sl.WF := by
  intro hs; rw [h.slice] at hs; cases hs

theorem TSimL.adv {z : Bytes} {r sl r' sl' : RState} {k : Nat} (h : TSimL z r sl)
    (hk : k ≤ r.rest.length) (hr : Adv k r r') (hs : Adv k sl sl') : TSimL z r' sl' where
  reader := hr.isSlice.trans h.reader
  slice := hs.isSlice.trans h.slice
  rest := by rw [hr.rest, hs.rest, h.rest, List.drop_append_of_le_length hk]
  avail := hr.wf (hr.isSlice.trans h.reader)
  lim := by rw [hr.limit, hs.limit, h.lim]
  alloc := by rw [hs.length, hr.maxAlloc]; have := h.alloc; omega

/-- `OutT` with `TSimL` for the final states. -/
def OutL (z : Bytes) {α β : Type} (R : α → β → Prop)
    (x : Except DeErr α × RState) (y : Except DeErr β × RState) : Prop :=
  match y with
  | (.error _, _) => True
  | (.ok b, sl') =>
    match x with
    | (.ok a, r') => R a b ∧ TSimL z r' sl'
    | (.error e, _) => e = .io

def TRelL (z : Bytes) {α β : Type} (R : α → β → Prop) (m : DeM α) (m' : DeM β) : Prop :=
  ∀ r sl, TSimL z r sl → OutL z R (m r) (m' sl)

variable {z : Bytes}

theorem OutL.of_io {α β : Type} {R : α → β → Prop} {r' : RState}
    (y : Except DeErr β × RState) : OutL z R ((.error .io : Except DeErr α), r') y := by
  obtain ⟨(e | b), sl'⟩ := y
  · trivial
  · rfl

theorem TRelL.pure {α β : Type} {R : α → β → Prop} {a : α} {b : β} (h : R a b) :
    TRelL z R (pure a) (pure b) := fun _ _ hs => ⟨h, hs⟩

theorem TRelL.fail {α β : Type} {R : α → β → Prop} {m : DeM α} {e' : DeErr} :
    TRelL z R m (DeM.fail e' : DeM β) := fun _ _ _ => trivial

theorem TRelL.bind {α β γ δ : Type} {R : α → β → Prop} {R' : γ → δ → Prop}
    {m : DeM α} {m' : DeM β} {f : α → DeM γ} {f' : β → DeM δ}
    (h1 : TRelL z R m m') (h2 : ∀ a b, R a b → TRelL z R' (f a) (f' b)) :
    TRelL z R' (m >>= f) (m' >>= f') := by
  intro r sl hs
  have h := h1 r sl hs
  rw [bind_eq, bind_eq]
  rcases hm : m r with ⟨(e | a), r'⟩ <;> rcases hm' : m' sl with ⟨(e' | b), sl'⟩ <;>
    rw [hm, hm'] at h
  · trivial
  · have : e = .io := h
    subst this
    exact OutL.of_io _
  · trivial
  · exact h2 a b h.1 r' sl' h.2

/-- the number of bytes readable through the common limit: the slice has at least as many -/
theorem TSimL.eff_le {r sl : RState} (hs : TSimL z r sl) : r.eff ≤ sl.eff := by
  have hlen : sl.rest.length = r.rest.length + z.length := by rw [hs.rest, List.length_append]
  unfold RState.eff
  rw [hs.lim]
  cases sl.limit <;> simp only <;> omega

theorem TSimL.eff_le_rest {r sl : RState} (_ : TSimL z r sl) : r.eff ≤ r.rest.length := by
  unfold RState.eff
  cases r.limit <;> simp only <;> omega

/-- `read_exact` under a `Take`: as without. -/
theorem readExact_trelL (k : Nat) : TRelL z (· = ·) (readExact k) (readExact k) := by
  intro r sl hs
  have hr := readExact_spec k r hs.wf_reader
  have hsl := readExact_spec k sl hs.wf_slice
  by_cases hk : k ≤ sl.eff
  · obtain ⟨sl', e2, a2⟩ := hsl.1 hk
    rw [e2]
    by_cases hk' : k ≤ r.eff
    · obtain ⟨r', e1, a1⟩ := hr.1 hk'
      have hkr : k ≤ r.rest.length := Nat.le_trans hk' hs.eff_le_rest
      rw [e1]
      refine ⟨?_, hs.adv hkr a1 a2⟩
      rw [hs.rest, List.take_append_of_le_length hkr]
    · obtain ⟨e, r', e1⟩ := hr.2 (by omega)
      rw [e1]
      exact readExact_err_io e1
  · obtain ⟨e, sl', e2⟩ := hsl.2 (by omega)
    rw [e2]; trivial

theorem getLimit_trelL : TRelL z (· = ·) getLimit getLimit :=
  fun _ _ hs => ⟨hs.lim, hs⟩

/-! #### `decode_var` on continuation bytes only -/

theorem not_lt_two_of_cont (b : UInt8) (h : b.toNat &&& 0x80 ≠ 0) : ¬ b.toNat < 2 := by
  intro hlt
  have : b.toNat = 0 ∨ b.toNat = 1 := by omega
  rcases this with e | e <;> rw [e] at h <;> exact h (by decide)

/-- continuation bytes only, however many: no result -/
theorem aux_allcont_none (l : Bytes) : ∀ (r sh : Nat),
    (∀ x ∈ l, x.toNat &&& 0x80 ≠ 0) → decodeVarU64Aux l r sh = none := by
  induction l with
  | nil => intro r sh _; simp [decodeVarU64Aux]
  | cons b tl ih =>
    intro r sh hc
    have hb := hc b (by simp)
    rw [aux_cons]
    by_cases h1 : sh + 7 > 63
    · rw [if_pos h1, if_neg (not_lt_two_of_cont b hb)]
    · rw [if_neg h1, if_neg hb]
      exact ih _ _ (fun x hx => hc x (by simp [hx]))

theorem decodeVar_allcont_none (t : VarTy) (buf : Bytes)
    (hc : ∀ x ∈ buf, x.toNat &&& 0x80 ≠ 0) : decodeVar t buf = none := by
  have : decodeVarU64 buf = none := aux_allcont_none buf 0 0 hc
  cases t <;> simp [decodeVar, decodeVarI32, decodeVarI64, decodeVarU32, this]

/-! #### `VarIntReader::read_varint` under a `Take` -/

/-- the processor's buffer is `finished()`: no read happens, whatever the fuel -/
theorem varintProcessor_finished (t : VarTy) (fuel : Nat) (buf : Bytes)
    (hf : buf ≠ [] ∧ (buf.getLast?.getD 0).toNat &&& 0x80 = 0) :
    varintProcessor t fuel buf =
      (match decodeVar t buf with
       | some (v, _) => pure v
       | none => DeM.fail .io) := by
  cases fuel with
  | zero => rw [varintProcessor]; rfl
  | succ fuel => rw [varintProcessor, if_pos hf]; rfl

theorem decode_trelL (t : VarTy) (buf : Bytes) :
    TRelL z (· = ·)
      (match decodeVar t buf with
       | some (v, _) => (pure v : DeM Int)
       | none => DeM.fail .io)
      (match decodeVar t buf with
       | some (v, _) => (pure v : DeM Int)
       | none => DeM.fail .io) := by
  split
  · exact TRelL.pure rfl
  · exact TRelL.fail

/-- One `read` of one byte, reader on the cut input against slice on the whole input, under a
    common limit: the same byte (or both nothing: limit exhausted), or the reader is at the end of
    its input and reads nothing. -/
theorem readSome_one_L {r sl : RState} (hs : TSimL z r sl) :
    ∃ g r', readSome 1 r = (.ok g, r') ∧
      ((∃ sl', readSome 1 sl = (.ok g, sl') ∧ TSimL z r' sl') ∨ g = []) := by
  obtain ⟨m, r', hrs, hm1, hm2, hmpos, hadv⟩ := readSome_spec 1 r hs.wf_reader
  obtain ⟨m', sl', hrs', hm1', hm2', hmpos', hadv'⟩ := readSome_spec 1 sl hs.wf_slice
  have hlim : sl.lim 1 = r.lim 1 := by unfold RState.lim; rw [hs.lim]
  have hle : r.lim 1 ≤ 1 := by unfold RState.lim; cases r.limit <;> simp only <;> omega
  refine ⟨_, r', hrs, ?_⟩
  by_cases hl0 : r.lim 1 = 0
  · -- limit exhausted on both sides
    left
    have e1 : m = 0 := by omega
    have e2 : m' = 0 := by omega
    subst e1; subst e2
    exact ⟨sl', by rw [hrs']; simp, hs.adv (Nat.zero_le _) hadv hadv'⟩
  · cases hr : r.rest with
    | nil =>
      right
      simp
    | cons b tl =>
      left
      have e1 : m = 1 := by
        have := hmpos hl0 (by simp [hr]); omega
      have hslr : sl.rest = b :: (tl ++ z) := by rw [hs.rest, hr]; rfl
      have e2 : m' = 1 := by
        have := hmpos' (by omega) (by simp [hslr]); omega
      subst e1; subst e2
      refine ⟨sl', ?_, hs.adv (by simp [hr]) hadv hadv'⟩
      rw [hrs', hslr]; rfl

/-- **`VarIntReader::read_varint` inside the `Take` of a big-decimal**, the buffer holding
    continuation bytes only (as it does whenever the loop is entered unfinished). -/
theorem varintProcessor_trelL (t : VarTy) (fuel : Nat) : ∀ buf : Bytes,
    (∀ x ∈ buf, x.toNat &&& 0x80 ≠ 0) →
    TRelL z (· = ·) (varintProcessor t fuel buf) (varintProcessor t fuel buf) := by
  induction fuel with
  | zero =>
    intro buf _
    unfold varintProcessor
    exact decode_trelL t buf
  | succ fuel ih =>
    intro buf hc
    unfold varintProcessor
    split
    · exact decode_trelL t buf
    · intro r sl hs
      obtain ⟨g, r', hrs, hcase⟩ := readSome_one_L hs
      have hnone : decodeVar t buf = none := decodeVar_allcont_none t buf hc
      rcases hcase with ⟨sl', hrs', hs'⟩ | hg
      · -- lockstep
        rw [bind_eq, bind_eq, hrs, hrs']
        dsimp only
        cases g with
        | nil =>
          dsimp only
          split
          · exact TRelL.fail r' sl' hs'
          · exact decode_trelL t buf r' sl' hs'
        | cons b tl =>
          dsimp only
          split
          · exact TRelL.fail r' sl' hs'
          · by_cases hb : b.toNat &&& 0x80 = 0
            · have hf : buf ++ [b] ≠ [] ∧ ((buf ++ [b]).getLast?.getD 0).toNat &&& 0x80 = 0 := by
                refine ⟨by simp, ?_⟩
                simp [hb]
              rw [varintProcessor_finished t fuel _ hf]
              exact decode_trelL t _ r' sl' hs'
            · refine ih (buf ++ [b]) ?_ r' sl' hs'
              intro x hx
              rcases List.mem_append.1 hx with hx | hx
              · exact hc x hx
              · have : x = b := by simpa using hx
                rw [this]; exact hb
      · -- the reader is at the end of the cut input
        subst hg
        rw [bind_eq, hrs]
        dsimp only
        split
        · exact OutL.of_io _
        · rw [hnone]
          exact OutL.of_io _

/-- The condition on the buffer is needed: with `00 80` in the buffer (never the case in a run
    started on an empty buffer) the reader at the end of its input would `decode` the value `0`
    out of the buffer while the slice goes on reading. -/
theorem varintProcessor_trelL_needs_cont :
    ¬ TRelL [1] (· = ·) (varintProcessor .i64 12 [0x00, 0x80])
      (varintProcessor .i64 12 [0x00, 0x80]) := by
  intro h
  have h := h { isSlice := false, rest := [], limit := some 1 }
    { isSlice := true, rest := [1], limit := some 1 } ⟨rfl, rfl, rfl, by decide, rfl, by decide⟩
  have hx : varintProcessor .i64 12 [0x00, 0x80] { isSlice := false, rest := [], limit := some 1 }
      = (.ok 0, { isSlice := false, rest := [], limit := some 1 }) := by rfl
  have hy : varintProcessor .i64 12 [0x00, 0x80] { isSlice := true, rest := [1], limit := some 1 }
      = (.ok 0, { isSlice := true, rest := [], limit := some 0 }) := by rfl
  rw [hx, hy] at h
  have := h.2.rest
  cases this

/-! ### Part 2: `read_decimal` on a `big-decimal` node -/

/-- entering and leaving the `Take` -/
theorem take_trel {α β : Type} {R : α → β → Prop} {m : DeM α} {m' : DeM β} (l : Nat)
    (h : TRelL z R m m') :
    TRel z R (setLimit (some l) >>= fun _ => withLimitCleared m)
      (setLimit (some l) >>= fun _ => withLimitCleared m') := by
  intro r sl hs
  rw [bind_eq, bind_eq]
  simp only [setLimit, withLimitCleared]
  have hL : TSimL z { r with limit := some l } { sl with limit := some l } :=
    ⟨hs.reader, hs.slice, hs.rest, hs.avail, rfl, hs.alloc⟩
  have h := h _ _ hL
  rcases hm : m { r with limit := some l } with ⟨(e | a), r'⟩ <;>
    rcases hm' : m' { sl with limit := some l } with ⟨(e' | b), sl'⟩ <;>
    rw [hm, hm'] at h
  · trivial
  · exact h
  · trivial
  · exact ⟨h.1, h.2.reader, h.2.slice, h.2.rest, h.2.avail, rfl, rfl, h.2.alloc⟩

/-- the inside of the `Take` -/
theorem bigBody_trelL :
    TRelL z (· = ·)
      (do
        let l ← varintProcessor .i64 12 []
        if l < 0 then DeM.fail .custom else
        let size := l.toNat
        if size > 16 then DeM.fail .custom else
        let b ← readExact size
        let sc ← varintProcessor .i64 12 []
        if sc < 0 ∨ sc ≥ 4294967296 then DeM.fail .custom else
        let left ← getLimit
        if left ≠ some 0 then DeM.fail .custom else
        pure (i128OfBE b, sc.toNat) : DeM (Int × Nat))
      (do
        let l ← varintProcessor .i64 12 []
        if l < 0 then DeM.fail .custom else
        let size := l.toNat
        if size > 16 then DeM.fail .custom else
        let b ← readExact size
        let sc ← varintProcessor .i64 12 []
        if sc < 0 ∨ sc ≥ 4294967296 then DeM.fail .custom else
        let left ← getLimit
        if left ≠ some 0 then DeM.fail .custom else
        pure (i128OfBE b, sc.toNat) : DeM (Int × Nat)) := by
  apply TRelL.bind (varintProcessor_trelL _ _ _ (by simp))
  intro a b hab; subst hab
  split
  · exact TRelL.fail
  · dsimp only
    split
    · exact TRelL.fail
    · apply TRelL.bind (readExact_trelL _)
      intro a b hab; subst hab
      apply TRelL.bind (varintProcessor_trelL _ _ _ (by simp))
      intro a b hab; subst hab
      split
      · exact TRelL.fail
      · apply TRelL.bind getLimit_trelL
        intro a b hab; subst hab
        split
        · exact TRelL.fail
        · exact TRelL.pure rfl

/-- **`read_decimal` on a `big-decimal` node**: whenever it succeeds on the whole input, on the
    cut input it succeeds too (it did not need the missing bytes) or fails with class `io`. -/
theorem readDecimal_big_trel (ext : DeExt) (hint : DecHint) :
    TRel z RT (readDecimal ext .big hint) (readDecimal ext .big hint) := by
  unfold readDecimal
  apply TRel.bind (R := (· = ·))
  · dsimp only
    apply TRel.bind readLen_trel
    intro a b hab; subst hab
    exact take_trel _ bigBody_trelL
  · rintro ⟨u, sc⟩ _ rfl
    dsimp only
    repeat (first | exact TRel.fail | exact TRel.pure trivial | split)

/-! ### Part 3: the datum deserializer with a dynamically typed target, every node kind -/

/-- `DeTRel` of `CutClassDe.lean` without the conditions `… ≠ .bigDecimal` -/
structure DeTRelA (z : Bytes) (ext : DeExt) (cfg : DeConfig) (S : Schema) (fuel : Nat) : Prop where
  de : ∀ node depth favor, TRel z RT
    (de ext cfg S fuel node depth favor .any) (de ext cfg S fuel node depth favor .any)
  any : ∀ node depth, TRel z RT
    (deAny ext cfg S fuel node depth .any) (deAny ext cfg S fuel node depth .any)
  seq : ∀ item depth bs acc acc', TRel z RT
    (deSeqLoop ext cfg S fuel item depth false .any none bs acc)
    (deSeqLoop ext cfg S fuel item depth false .any none bs acc')
  map : ∀ item depth bs acc acc', TRel z RT
    (deMapLoop ext cfg S fuel item depth false .any bs acc)
    (deMapLoop ext cfg S fuel item depth false .any bs acc')
  recd : ∀ fields depth acc acc', TRel z RT
    (deRecordFields ext cfg S fuel fields depth .any acc)
    (deRecordFields ext cfg S fuel fields depth .any acc')

variable {ext : DeExt} {cfg : DeConfig} {S : Schema} {fuel : Nat}

theorem de_tstepA (ih : DeTRelA z ext cfg S fuel) (node : Node) (depth : Nat) (favor : Bool) :
    TRel z RT (de ext cfg S (fuel + 1) node depth favor .any)
      (de ext cfg S (fuel + 1) node depth favor .any) := by
  unfold de
  dsimp only
  exact ih.any _ _

macro "trel_autoA" ih:term : tactic => `(tactic| repeat (first
  | exact TRel.fail
  | exact TRel.pure trivial
  | exact readString_trel
  | exact readBytes_trel
  | exact readBool_trel
  | exact readDecimal_trel _ _ _ _
  | exact readDecimal_big_trel _ _
  | exact DeTRelA.any $ih _ _
  | (apply TRel.bind (readVarint_trel _); intro a b hab; subst hab)
  | (apply TRel.bind (readExact_trel _); intro a b hab; subst hab)
  | (apply TRel.bind readLen_trel; intro a b hab; subst hab)
  | (apply TRel.bind (decDepth_trel _); intro a b hab; subst hab)
  | (apply TRel.bind (readSlice_trel _); rintro ⟨b1, f1⟩ ⟨b2, f2⟩ hab; simp only at hab; subst hab;
      try dsimp only)
  | (apply TRel.bind (DeTRelA.seq $ih _ _ _ _ _); intro a b hab)
  | (apply TRel.bind (DeTRelA.map $ih _ _ _ _ _); intro a b hab)
  | (apply TRel.bind (DeTRelA.recd $ih _ _ _ _); intro a b hab)
  | split))

theorem any_tstepA (ih : DeTRelA z ext cfg S fuel) (node : Node) (depth : Nat) :
    TRel z RT (deAny ext cfg S (fuel + 1) node depth .any)
      (deAny ext cfg S (fuel + 1) node depth .any) := by
  unfold deAny
  trel_autoA ih

theorem seq_tstepA (ih : DeTRelA z ext cfg S fuel) (item : Node) (depth : Nat)
    (bs : BlockState) (acc acc' : List Out) :
    TRel z RT (deSeqLoop ext cfg S (fuel + 1) item depth false .any none bs acc)
      (deSeqLoop ext cfg S (fuel + 1) item depth false .any none bs acc') := by
  unfold deSeqLoop
  split
  · rename_i h; cases h
  · apply TRel.bind (hasMore_trel _ _)
    rintro ⟨m1, bs1⟩ _ rfl
    dsimp only
    split
    · exact TRel.pure trivial
    · apply TRel.bind (ih.de _ _ _)
      intro a b _
      exact ih.seq _ _ _ _ _

theorem map_tstepA (ih : DeTRelA z ext cfg S fuel) (item : Node) (depth : Nat)
    (bs : BlockState) (acc acc' : List (Out × Out)) :
    TRel z RT (deMapLoop ext cfg S (fuel + 1) item depth false .any bs acc)
      (deMapLoop ext cfg S (fuel + 1) item depth false .any bs acc') := by
  unfold deMapLoop
  apply TRel.bind (hasMore_trel _ _)
  rintro ⟨m1, bs1⟩ _ rfl
  dsimp only
  split
  · exact TRel.pure trivial
  · apply TRel.bind readLen_trel
    intro n _ hn'; subst hn'
    apply TRel.bind (readSlice_trel _)
    rintro ⟨b1, f1⟩ ⟨b2, f2⟩ hb
    simp only at hb; subst hb
    simp only [Hint.key, Hint.valFor]
    apply TRel.bind (R := RT)
    · split
      · exact TRel.pure trivial
      · exact TRel.fail
    · rintro ⟨k1, n1⟩ ⟨k2, n2⟩ _
      dsimp only
      apply TRel.bind (ih.de _ _ _)
      intro a b _
      exact ih.map _ _ _ _ _

theorem recd_tstepA (ih : DeTRelA z ext cfg S fuel)
    (fields : List (String × Nat)) (depth : Nat) (acc acc' : List (Out × Out)) :
    TRel z RT (deRecordFields ext cfg S (fuel + 1) fields depth .any acc)
      (deRecordFields ext cfg S (fuel + 1) fields depth .any acc') := by
  cases fields with
  | nil => unfold deRecordFields; exact TRel.pure trivial
  | cons f rest =>
    obtain ⟨name, k⟩ := f
    unfold deRecordFields
    split
    · exact TRel.fail
    · simp only [Hint.valFor]
      apply TRel.bind (ih.de _ _ _)
      intro a b _
      exact ih.recd _ _ _ _

theorem deTRelA_all (z : Bytes) (ext : DeExt) (cfg : DeConfig) (S : Schema) :
    ∀ fuel, DeTRelA z ext cfg S fuel := by
  intro fuel
  induction fuel with
  | zero =>
    refine ⟨?_, ?_, ?_, ?_, ?_⟩
    · intros; unfold de; exact TRel.fail
    · intros; unfold deAny; exact TRel.fail
    · intros; unfold deSeqLoop; exact TRel.fail
    · intros; unfold deMapLoop; exact TRel.fail
    · intro fields depth acc acc'
      cases fields with
      | nil => unfold deRecordFields; exact TRel.pure trivial
      | cons f rest => unfold deRecordFields; exact TRel.fail
  | succ fuel ih =>
    exact ⟨de_tstepA ih, any_tstepA ih, seq_tstepA ih, map_tstepA ih, recd_tstepA ih⟩

/-- **The datum deserializer on an input that ends early (reader back-end, any chunk schedule,
    dynamically typed target), every node kind, `big-decimal` included.** `sl` holds the bytes of
    `r` followed by `z`. If `de` succeeds on the slice, then on the reader it either succeeds in a
    corresponding state (it never needed `z`) or fails with an I/O error. -/
theorem de_trunc_all (z : Bytes) (ext : DeExt) (cfg : DeConfig) (S : Schema) (fuel : Nat)
    (node : Node) (depth : Nat) (favor : Bool) (r sl : RState) (hs : TSim z r sl)
    (o : Out) (sl' : RState) (hok : de ext cfg S fuel node depth favor .any sl = (.ok o, sl')) :
    (∃ a r', de ext cfg S fuel node depth favor .any r = (.ok a, r') ∧ TSim z r' sl') ∨
    (∃ r', de ext cfg S fuel node depth favor .any r = (.error .io, r')) := by
  have h := (deTRelA_all z ext cfg S fuel).de node depth favor r sl hs
  rw [hok] at h
  rcases hm : de ext cfg S fuel node depth favor .any r with ⟨(e | a), r'⟩ <;> rw [hm] at h
  · have : e = .io := h
    subst this
    exact .inr ⟨r', rfl⟩
  · exact .inl ⟨a, r', rfl, h.2⟩

/-! ### Part 4: a cut canonical encoding -/

open Avro.Impl.Ocf Avro.Impl.OcfS Avro.Theorems.Stream in
/-- **Cut inside the canonical encoding of a good value, reader back-end, any chunk schedule: `de`
    fails with an I/O error** (allocation cap at least the uncut input). No condition on the
    schema. -/
theorem de_cut_reader_io_all (cfg : DeConfig) (S : Schema) (n : Node) (v : Spec.Value) (enc : Bytes)
    (o : Out) (depth fuel : Nat)
    (henc : Spec.encode S n v = some enc) (hobs : Spec.observe S n v = some o)
    (hfix : Spec.fixedDecOk S n v = true)
    (hdepth : Spec.depthOf v ≤ depth) (hseq : Spec.maxLen v ≤ cfg.maxSeqSize)
    (hfuel : Spec.size v * 4 + 8 ≤ fuel)
    (M : Nat) (s : RState) (hb : BOk M s)
    (y : Bytes) (j : Nat) (hr : s.rest = (enc ++ y).take j) (hM : (enc ++ y).length ≤ M)
    (hj : j < enc.length) :
    ∃ s', de deExtModel cfg S fuel n depth false .any s = (.error .io, s') := by
  let sl : RState := { isSlice := true, rest := enc ++ y, limit := none, avail := 0 }
  have hok := C01_de_accepts cfg S n v enc y o depth henc hobs hfix hdepth hseq fuel hfuel
    sl rfl rfl rfl rfl
  have hts : TSim ((enc ++ y).drop j) s sl :=
    ⟨hb.reader, rfl, by show enc ++ y = _; rw [hr, List.take_append_drop], hb.avail, hb.limit, rfl,
      by rw [hb.alloc]; exact hM⟩
  rcases de_trunc_all _ deExtModel cfg S fuel n depth false s sl hts o _ hok with
    ⟨a, r', _, ht⟩ | h
  · exfalso
    have h1 := congrArg List.length ht.rest
    simp only [List.length_append, List.length_drop] at h1
    have : ({ sl with rest := y } : RState).rest.length = y.length := rfl
    omega
  · exact h

end Avro.Theorems.Cut
