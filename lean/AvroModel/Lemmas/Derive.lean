import AvroModel.Impl.Derive
/-
Helper lemmas for `Theorems/C20inv.lean`: how the builder state of `Impl/Derive.lean` evolves.

* `Ext s s'` — `s'` extends `s`: no fewer nodes, the nodes of `s` unchanged, the registrations
  of `s` still there.
* `Good p s` — every key in a node of `s` and every registered index is either a node of `s`
  or one of the *pending* indices `p` (registered by a `find_or_build` that has not returned).
* `Post s s' res` — what every successful builder call establishes: `Ext s s'`, and for every
  pending list `p`, `Good p s → Good p s'` with the returned keys `res` in bounds or pending.
-/
namespace Avro.Impl.Derive

open Avro Avro.Impl

/-! ### `Ext` -/

structure Ext (s s' : BState) : Prop where
  size_le : s.nodes.size ≤ s'.nodes.size
  old : ∀ i, i < s.nodes.size → s'.nodes[i]? = s.nodes[i]?
  built : ∀ k i, s.built.lookup k = some i → s'.built.lookup k = some i

theorem Ext.refl (s : BState) : Ext s s := ⟨Nat.le_refl _, fun _ _ => rfl, fun _ _ h => h⟩

theorem Ext.trans {a b c : BState} (h1 : Ext a b) (h2 : Ext b c) : Ext a c :=
  ⟨Nat.le_trans h1.size_le h2.size_le,
   fun i hi => by rw [h2.old i (Nat.lt_of_lt_of_le hi h1.size_le), h1.old i hi],
   fun k i h => h2.built k i (h1.built k i h)⟩

theorem Ext.push (s : BState) (x : RawNode) : Ext s { s with nodes := s.nodes.push x } := by
  refine ⟨by simp, fun i hi => ?_, fun _ _ h => h⟩
  simp only [Array.getElem?_push]
  rw [if_neg (by omega)]

theorem Ext.set {s s2 : BState} (h : Ext s s2) (r : Nat) (x : RawNode) (hr : s.nodes.size ≤ r) :
    Ext s { s2 with nodes := s2.nodes.set! r x } := by
  refine ⟨by simpa [Array.set!_eq_setIfInBounds] using h.size_le, fun i hi => ?_, h.built⟩
  simp only [Array.set!_eq_setIfInBounds, Array.getElem?_setIfInBounds]
  rw [if_neg (by omega)]
  exact h.old i hi

theorem Ext.register (s : BState) (key : Key) (i : Nat) (hk : s.built.lookup key = none) :
    Ext s { s with built := (key, i) :: s.built } := by
  refine ⟨Nat.le_refl _, fun _ _ => rfl, fun k j h => ?_⟩
  simp only [List.lookup_cons]
  cases hb : k == key with
  | false => exact h
  | true =>
    have : k = key := by simpa using hb
    subst this
    rw [hk] at h
    cases h

/-! ### `Good` -/

/-- A key is a node of the state or pending. -/
def KeyOk (p : List Nat) (s : BState) (k : Nat) : Prop := k < s.nodes.size ∨ k ∈ p

structure Good (p : List Nat) (s : BState) : Prop where
  nodes : ∀ (i : Nat) (x : RawNode), s.nodes[i]? = some x → ∀ k, k ∈ x.type.children → KeyOk p s k
  built : ∀ key i, s.built.lookup key = some i → KeyOk p s i

theorem KeyOk.mono {p : List Nat} {s s' : BState} {k : Nat} (h : KeyOk p s k)
    (hs : s.nodes.size ≤ s'.nodes.size) : KeyOk p s' k := by
  cases h with
  | inl h => exact Or.inl (Nat.lt_of_lt_of_le h hs)
  | inr h => exact Or.inr h

theorem Good.push {p : List Nat} {s : BState} (h : Good p s) (x : RawNode)
    (hx : x.type.children = []) : Good p { s with nodes := s.nodes.push x } := by
  constructor
  · intro i y hy k hk
    simp only [Array.getElem?_push] at hy
    split at hy
    · cases hy
      rw [hx] at hk
      cases hk
    · exact (h.nodes i y hy k hk).mono (by simp)
  · intro key i hi
    exact (h.built key i hi).mono (by simp)

theorem Good.set {p : List Nat} {s : BState} (h : Good p s) (r : Nat) (x : RawNode)
    (hx : ∀ k, k ∈ x.type.children → KeyOk p s k) :
    Good p { s with nodes := s.nodes.set! r x } := by
  have hsz : s.nodes.size ≤ (s.nodes.set! r x).size := by simp [Array.set!_eq_setIfInBounds]
  constructor
  · intro i y hy k hk
    simp only [Array.set!_eq_setIfInBounds, Array.getElem?_setIfInBounds] at hy
    split at hy
    · split at hy
      · cases hy
        exact (hx k hk).mono hsz
      · cases hy
    · exact (h.nodes i y hy k hk).mono hsz
  · intro key i hi
    exact (h.built key i hi).mono hsz

theorem Good.register {p : List Nat} {s : BState} (h : Good p s) (key : Key) :
    Good (s.nodes.size :: p) { s with built := (key, s.nodes.size) :: s.built } := by
  have weaken : ∀ k, KeyOk p s k →
      KeyOk (s.nodes.size :: p) { s with built := (key, s.nodes.size) :: s.built } k := by
    intro k hk
    cases hk with
    | inl hk => exact Or.inl hk
    | inr hk => exact Or.inr (List.mem_cons_of_mem _ hk)
  constructor
  · intro i y hy k hk
    exact weaken k (h.nodes i y hy k hk)
  · intro k i hi
    simp only [List.lookup_cons] at hi
    split at hi
    · cases hi
      exact Or.inr List.mem_cons_self
    · exact weaken i (h.built k i hi)

theorem Good.unpend {p : List Nat} {s : BState} {n : Nat} (h : Good (n :: p) s)
    (hn : n < s.nodes.size) : Good p s := by
  have strengthen : ∀ k, KeyOk (n :: p) s k → KeyOk p s k := by
    intro k hk
    cases hk with
    | inl hk => exact Or.inl hk
    | inr hk =>
      cases List.mem_cons.1 hk with
      | inl e => exact Or.inl (e ▸ hn)
      | inr hk => exact Or.inr hk
  exact ⟨fun i y hy k hk => strengthen k (h.nodes i y hy k hk),
         fun key i hi => strengthen i (h.built key i hi)⟩

theorem Good.empty : Good [] ({} : BState) := by
  constructor
  · intro i x hx
    simp at hx
  · intro key i hi
    simp [List.lookup] at hi

theorem Good.keysInBounds {s : BState} (h : Good [] s) : SchemaMut.keysInBounds s.nodes = true := by
  unfold SchemaMut.keysInBounds
  rw [Array.all_eq_true]
  intro i hi
  rw [List.all_eq_true]
  intro k hk
  have := h.nodes i s.nodes[i] (by simp [hi]) k hk
  cases this with
  | inl h => simpa using h
  | inr h => cases h

/-! ### `Post` -/

structure Post (s s' : BState) (res : List Nat) : Prop where
  ext : Ext s s'
  good : ∀ p, Good p s → Good p s' ∧ ∀ k, k ∈ res → KeyOk p s' k

theorem Post.refl (s : BState) : Post s s [] :=
  ⟨Ext.refl s, fun _ h => ⟨h, fun _ hk => by cases hk⟩⟩

theorem Post.trans {a b c : BState} {r1 r2 : List Nat} (h1 : Post a b r1) (h2 : Post b c r2) :
    Post a c (r1 ++ r2) := by
  refine ⟨h1.ext.trans h2.ext, fun p hp => ?_⟩
  obtain ⟨g1, k1⟩ := h1.good p hp
  obtain ⟨g2, k2⟩ := h2.good p g1
  refine ⟨g2, fun k hk => ?_⟩
  cases List.mem_append.1 hk with
  | inl hk => exact (k1 k hk).mono h2.ext.size_le
  | inr hk => exact k2 k hk

theorem Post.weaken {a b : BState} {r r' : List Nat} (h : Post a b r) (hr : ∀ k, k ∈ r' → k ∈ r) :
    Post a b r' :=
  ⟨h.ext, fun p hp => ⟨(h.good p hp).1, fun k hk => (h.good p hp).2 k (hr k hk)⟩⟩

theorem Post.push (s : BState) (x : RawNode) (hx : x.type.children = []) :
    Post s { s with nodes := s.nodes.push x } [] :=
  ⟨Ext.push s x, fun _ hp => ⟨hp.push x hx, fun _ hk => by cases hk⟩⟩

/-- A node pushed without children, returned as key. -/
theorem Post.pushKey (s : BState) (x : RawNode) (hx : x.type.children = []) :
    Post s { s with nodes := s.nodes.push x } [s.nodes.size] :=
  ⟨Ext.push s x, fun _ hp => ⟨hp.push x hx, fun k hk => by
    cases List.mem_singleton.1 hk
    exact Or.inl (by simp)⟩⟩

/-- Filling a slot at or above the nodes of the start state with a node whose children were
    returned by the calls in between. -/
theorem Post.set {s s2 : BState} {res : List Nat} (h : Post s s2 res) (r : Nat) (x : RawNode)
    (hr : s.nodes.size ≤ r) (hx : ∀ k, k ∈ x.type.children → k ∈ res) :
    Post s { s2 with nodes := s2.nodes.set! r x } [] := by
  refine ⟨h.ext.set r x hr, fun p hp => ?_⟩
  obtain ⟨g, k⟩ := h.good p hp
  exact ⟨g.set r x (fun c hc => k c (hx c hc)), fun _ hk => by cases hk⟩

/-- `find_or_build` of an unregistered type: register, build, check that a node was added. -/
theorem Post.register {s s2 : BState} (key : Key) (hk : s.built.lookup key = none)
    (h : Post { s with built := (key, s.nodes.size) :: s.built } s2 [])
    (hlt : s.nodes.size < s2.nodes.size) : Post s s2 [s.nodes.size] := by
  refine ⟨(Ext.register s key _ hk).trans h.ext, fun p hp => ?_⟩
  obtain ⟨g, _⟩ := h.good _ (hp.register key)
  refine ⟨g.unpend hlt, fun k hk => ?_⟩
  cases List.mem_singleton.1 hk
  exact Or.inl hlt

/-- `find_or_build` of a registered type. -/
theorem Post.found (s : BState) (key : Key) (idx : Nat) (hk : s.built.lookup key = some idx) :
    Post s s [idx] :=
  ⟨Ext.refl s, fun _ hp => ⟨hp, fun k hm => by
    cases List.mem_singleton.1 hm
    exact hp.built key idx hk⟩⟩

/-- `build_logical_type`: the node the call created is relabelled, keeping its children. -/
theorem Post.relabel {s s2 : BState} (h : Post s s2 []) (node node' : RawNode)
    (hlt : s.nodes.size < s2.nodes.size) (hn : s2.nodes[s.nodes.size]? = some node)
    (hc : node'.type.children = node.type.children) :
    Post s { s2 with nodes := s2.nodes.set! s.nodes.size node' } [s.nodes.size] := by
  refine ⟨h.ext.set _ _ (Nat.le_refl _), fun p hp => ?_⟩
  obtain ⟨g, _⟩ := h.good p hp
  refine ⟨g.set _ _ (fun c hcm => g.nodes _ node hn c (hc ▸ hcm)), fun k hk => ?_⟩
  cases List.mem_singleton.1 hk
  exact Or.inl (by simpa [Array.set!_eq_setIfInBounds] using hlt)

theorem renameNode_children (t : RegularType) (nm : Name) :
    (renameNode t nm).children = t.children := by
  cases t <;> rfl

/-! ### Every successful builder call establishes `Post` (induction on the fuel) -/

def PostAll (P : Prog) (hash : Key → String) (fuel : Nat) : Prop :=
  (∀ t s u s', appendSchema P hash fuel t s = some (u, s') → Post s s' []) ∧
  (∀ t s k s', findOrBuild P hash fuel t s = some (k, s') → Post s s' [k]) ∧
  (∀ d args f kind rn s k s', fieldInst P hash fuel d args f kind rn s = some (k, s') → Post s s' [k]) ∧
  (∀ d args tn fs s r s', recordFields P hash fuel d args tn fs s = some (r, s') →
      Post s s' (r.map (·.2))) ∧
  (∀ d args vs s r s', unionVariants P hash fuel d args vs s = some (r, s') → Post s s' r)

theorem setNode_some {r : Nat} {x : RawNode} {s s' : BState} {u : Unit}
    (h : setNode r x s = some (u, s')) : r < s.nodes.size ∧ s' = { s with nodes := s.nodes.set! r x } := by
  simp only [setNode] at h
  split at h
  · cases h; exact ⟨by assumption, rfl⟩
  · cases h

theorem post_append_step (P : Prog) (hash : Key → String) (fuel : Nat) (ih : PostAll P hash fuel) :
    ∀ t s u s', appendSchema P hash (fuel + 1) t s = some (u, s') → Post s s' [] := by
  obtain ⟨ihA, ihF, ihI, ihR, ihU⟩ := ih
  intro t s u s' h
  cases t <;> simp only [appendSchema] at h
  all_goals try (
    simp only [push, Option.map_some, Option.some.injEq, Prod.mk.injEq] at h
    obtain ⟨_, rfl⟩ := h
    exact Post.push _ _ rfl)
  case vec t =>
    simp only [reserve, push] at h
    split at h
    · cases h
    · rename_i k s2 h1
      obtain ⟨_, rfl⟩ := setNode_some h
      exact ((Post.push s _ rfl).trans (ihF _ _ _ _ h1)).set _ _ (Nat.le_refl _)
        (by intro c hc; simpa [plain, RegularType.children] using hc)
  case hashMap t =>
    simp only [reserve, push] at h
    split at h
    · cases h
    · rename_i k s2 h1
      obtain ⟨_, rfl⟩ := setNode_some h
      exact ((Post.push s _ rfl).trans (ihF _ _ _ _ h1)).set _ _ (Nat.le_refl _)
        (by intro c hc; simpa [plain, RegularType.children] using hc)
  case btreeMap t =>
    simp only [reserve, push] at h
    split at h
    · cases h
    · rename_i k s2 h1
      obtain ⟨_, rfl⟩ := setNode_some h
      exact ((Post.push s _ rfl).trans (ihF _ _ _ _ h1)).set _ _ (Nat.le_refl _)
        (by intro c hc; simpa [plain, RegularType.children] using hc)
  case option t =>
    simp only [reserve, push] at h
    split at h
    · cases h
    · rename_i a s2 h1
      split at h
      · cases h
      · rename_i b s3 h2
        obtain ⟨_, rfl⟩ := setNode_some h
        exact (((Post.push s _ rfl).trans (ihF _ _ _ _ h1)).trans (ihF _ _ _ _ h2)).set _ _
          (Nat.le_refl _) (by intro c hc; simpa [plain, RegularType.children] using hc)
  case ptr t => exact ihA _ _ _ _ h
  case param i => cases h
  case named id args =>
    cases hd : P[id]? with
    | none => simp only [hd] at h; cases h
    | some d =>
      simp only [hd] at h
      cases hb : d.body with
      | unitEnum variants =>
        simp only [hb, push, Option.map_some, Option.some.injEq, Prod.mk.injEq] at h
        obtain ⟨_, rfl⟩ := h
        exact Post.push _ _ rfl
      | newtype f =>
        simp only [hb] at h
        split at h
        · exact ihA _ _ _ _ h
        · dsimp only at h
          split at h
          · cases h
          · rename_i k s2 h1
            split at h
            · cases h
              exact (ihI _ _ _ _ _ _ _ _ h1).weaken (fun _ hk => by cases hk)
            · cases h
      | record fields =>
        simp only [hb, reserve, push] at h
        split at h
        · cases h
        · rename_i tn htn
          split at h
          · cases h
          · rename_i fs s2 h1
            obtain ⟨_, rfl⟩ := setNode_some h
            exact ((Post.push s _ rfl).trans (ihR _ _ _ _ _ _ _ h1)).set _ _ (Nat.le_refl _)
              (by intro c hc; simpa [plain, RegularType.children] using hc)
      | union variants =>
        simp only [hb, reserve, push] at h
        split at h
        · cases h
        · rename_i ks s2 h1
          obtain ⟨_, rfl⟩ := setNode_some h
          exact ((Post.push s _ rfl).trans (ihU _ _ _ _ _ _ h1)).set _ _ (Nat.le_refl _)
            (by intro c hc; simpa [plain, RegularType.children] using hc)

theorem post_find_step (P : Prog) (hash : Key → String) (fuel : Nat) (ih : PostAll P hash fuel) :
    ∀ t s k s', findOrBuild P hash (fuel + 1) t s = some (k, s') → Post s s' [k] := by
  obtain ⟨ihA, ihF, ihI, ihR, ihU⟩ := ih
  intro t s k s' h
  simp only [findOrBuild] at h
  split at h
  · cases h
  · rename_i key hkey
    split at h
    · rename_i idx hidx
      cases h
      exact Post.found _ key _ hidx
    · rename_i hnone
      split at h
      · cases h
      · rename_i u s2 h1
        split at h
        · cases h
          exact Post.register key hnone (ihA _ _ _ _ h1) (by assumption)
        · cases h

theorem post_field_step (P : Prog) (hash : Key → String) (fuel : Nat) (ih : PostAll P hash fuel) :
    ∀ d args f kind rn s k s', fieldInst P hash (fuel + 1) d args f kind rn s = some (k, s') →
      Post s s' [k] := by
  obtain ⟨ihA, ihF, ihI, ihR, ihU⟩ := ih
  intro d args f kind rn s k s' h
  simp only [fieldInst] at h
  cases hl : logicalOf f with
  | none =>
    simp only [hl] at h
    generalize subst args (chosenTy f) = ty at h
    generalize chosenTy f = cty at h
    cases hk : kind.overridesFixedName <;> cases cty <;> simp only [hk] at h
    all_goals first
      | exact ihF _ _ _ _ h
      | (simp only [push, Option.some.injEq, Prod.mk.injEq] at h
         obtain ⟨rfl, rfl⟩ := h
         exact Post.pushKey _ _ rfl)
  | some lt =>
    simp only [hl] at h
    split at h
    · cases h
    · rename_i u s2 h1
      split at h
      · rename_i hsz
        split at h
        · cases h
        · rename_i node hnode
          cases h
          exact (ihA _ _ _ _ h1).relabel node _ hsz hnode (renameNode_children _ _)
      · cases h

theorem post_record_step (P : Prog) (hash : Key → String) (fuel : Nat) (ih : PostAll P hash fuel) :
    ∀ d args tn fs s r s', recordFields P hash (fuel + 1) d args tn fs s = some (r, s') →
      Post s s' (r.map (·.2)) := by
  obtain ⟨ihA, ihF, ihI, ihR, ihU⟩ := ih
  intro d args tn fs s r s' h
  cases fs with
  | nil =>
    simp only [recordFields, Option.some.injEq, Prod.mk.injEq] at h
    obtain ⟨rfl, rfl⟩ := h
    exact Post.refl _
  | cons f rest =>
    simp only [recordFields] at h
    split at h
    · cases h
    · rename_i k s1 h1
      split at h
      · cases h
      · rename_i fs' s2 h2
        cases h
        exact (ihI _ _ _ _ _ _ _ _ h1).trans (ihR _ _ _ _ _ _ _ h2)

theorem post_union_step (P : Prog) (hash : Key → String) (fuel : Nat) (ih : PostAll P hash fuel) :
    ∀ d args vs s r s', unionVariants P hash (fuel + 1) d args vs s = some (r, s') → Post s s' r := by
  obtain ⟨ihA, ihF, ihI, ihR, ihU⟩ := ih
  intro d args vs s r s' h
  cases vs with
  | nil =>
    simp only [unionVariants, Option.some.injEq, Prod.mk.injEq] at h
    obtain ⟨rfl, rfl⟩ := h
    exact Post.refl _
  | cons v rest =>
    simp only [unionVariants] at h
    split at h
    · cases h
    · rename_i k s1 h1
      split at h
      · cases h
      · rename_i ks s2 h2
        cases h
        have hk : Post s s1 [k] := by
          split at h1
          · exact ihF _ _ _ _ h1
          · exact ihI _ _ _ _ _ _ _ _ h1
        exact hk.trans (ihU _ _ _ _ _ _ h2)

theorem postAll (P : Prog) (hash : Key → String) : ∀ fuel, PostAll P hash fuel := by
  intro fuel
  induction fuel with
  | zero =>
    refine ⟨?_, ?_, ?_, ?_, ?_⟩
    · intro t s u s' h; simp [appendSchema] at h
    · intro t s u s' h; simp [findOrBuild] at h
    · intro d args f kind rn s k s' h; simp [fieldInst] at h
    · intro d args tn fs s r s' h
      cases fs with
      | nil =>
        simp only [recordFields, Option.some.injEq, Prod.mk.injEq] at h
        obtain ⟨rfl, rfl⟩ := h
        exact Post.refl _
      | cons f rest => simp [recordFields] at h
    · intro d args vs s r s' h
      cases vs with
      | nil =>
        simp only [unionVariants, Option.some.injEq, Prod.mk.injEq] at h
        obtain ⟨rfl, rfl⟩ := h
        exact Post.refl _
      | cons f rest => simp [unionVariants] at h
  | succ n ih =>
    exact ⟨post_append_step P hash n ih, post_find_step P hash n ih, post_field_step P hash n ih,
      post_record_step P hash n ih, post_union_step P hash n ih⟩

/-! ### The fuel is only a bound: more fuel, same answer -/

theorem opt_mono {α : Type} {a b : Option α} (h : ∀ x, a = some x → b = some x) : a = none ∨ b = a := by
  cases a with
  | none => exact Or.inl rfl
  | some x => exact Or.inr (h x rfl)

theorem lookupKeys_nil (P : Prog) (f : Nat) : lookupKeys P f [] = some [] := by
  cases f <;> simp [lookupKeys]

set_option hygiene false in
/-- `h : … (call at fuel f) … = some r`, goal the same with the call at the larger fuel. -/
local macro "use_mono " t:term : tactic =>
  `(tactic| (obtain h0 | h1 := $t
             · simp [h0] at h
             · rw [h1]; exact h))

theorem lookupKey_mono_all (P : Prog) : ∀ f,
    (∀ f' t k, f ≤ f' → lookupKey P f t = some k → lookupKey P f' t = some k) ∧
    (∀ f' ts k, f ≤ f' → lookupKeys P f ts = some k → lookupKeys P f' ts = some k) := by
  intro f
  induction f with
  | zero =>
    refine ⟨fun f' t k _ h => by simp [lookupKey] at h, fun f' ts k _ h => ?_⟩
    cases ts with
    | nil => rw [lookupKeys_nil] at h ⊢; exact h
    | cons t ts => simp [lookupKeys] at h
  | succ f ih =>
    obtain ⟨ihK, ihL⟩ := ih
    refine ⟨fun f' t k hle h => ?_, fun f' ts k hle h => ?_⟩
    · obtain ⟨g, rfl⟩ : ∃ g, f' = g + 1 := ⟨f' - 1, by omega⟩
      have hg : f ≤ g := by omega
      have K : ∀ t, lookupKey P f t = none ∨ lookupKey P g t = lookupKey P f t :=
        fun t => opt_mono (fun x hx => ihK g t x hg hx)
      have L : ∀ ts, lookupKeys P f ts = none ∨ lookupKeys P g ts = lookupKeys P f ts :=
        fun ts => opt_mono (fun x hx => ihL g ts x hg hx)
      cases t <;> simp only [lookupKey] at h ⊢
      all_goals try exact h
      case vec t => use_mono K t
      case option t => use_mono K t
      case hashMap t => use_mono K t
      case btreeMap t => use_mono K t
      case ptr t => use_mono K t
      case named id args =>
        cases hd : P[id]? with
        | none => simp only [hd] at h; cases h
        | some d =>
          simp only [hd] at h ⊢
          cases hb : d.body with
          | unitEnum vs => simp only [hb] at h ⊢; exact h
          | newtype fl =>
            simp only [hb] at h ⊢
            split
            · rename_i hdir
              rw [if_pos hdir] at h
              use_mono K (subst args (chosenTy fl))
            · rename_i hdir
              rw [if_neg hdir] at h
              split
              · rename_i hnp
                rw [if_pos hnp] at h
                exact h
              · rename_i hnp
                rw [if_neg hnp] at h
                use_mono L [subst args (chosenTy fl)]
          | record fs =>
            simp only [hb] at h ⊢
            split
            · rename_i hnp
              rw [if_pos hnp] at h
              exact h
            · rename_i hnp
              rw [if_neg hnp] at h
              use_mono L (List.map (fun f => subst args (chosenTy f)) (Body.record fs).lookupFields)
          | union vs =>
            simp only [hb] at h ⊢
            split
            · rename_i hnp
              rw [if_pos hnp] at h
              exact h
            · rename_i hnp
              rw [if_neg hnp] at h
              use_mono L (List.map (fun f => subst args (chosenTy f)) (Body.union vs).lookupFields)
    · cases ts with
      | nil => rw [lookupKeys_nil] at h ⊢; exact h
      | cons t ts =>
        obtain ⟨g, rfl⟩ : ∃ g, f' = g + 1 := ⟨f' - 1, by omega⟩
        have hg : f ≤ g := by omega
        simp only [lookupKeys] at h ⊢
        cases h1 : lookupKey P f t with
        | none => simp [h1] at h
        | some a =>
          cases h2 : lookupKeys P f ts with
          | none => simp [h1, h2] at h
          | some b =>
            rw [ihK g t a hg h1, ihL g ts b hg h2]
            rw [h1, h2] at h
            exact h

theorem lookupKey_mono (P : Prog) {f f' : Nat} {t : Ty} {k : Key} (hle : f ≤ f')
    (h : lookupKey P f t = some k) : lookupKey P f' t = some k :=
  (lookupKey_mono_all P f).1 f' t k hle h

def MonoAll (P : Prog) (hash : Key → String) (f g : Nat) : Prop :=
  (∀ t s r, appendSchema P hash f t s = some r → appendSchema P hash g t s = some r) ∧
  (∀ t s r, findOrBuild P hash f t s = some r → findOrBuild P hash g t s = some r) ∧
  (∀ d args fl kind rn s r, fieldInst P hash f d args fl kind rn s = some r →
      fieldInst P hash g d args fl kind rn s = some r) ∧
  (∀ d args tn fs s r, recordFields P hash f d args tn fs s = some r →
      recordFields P hash g d args tn fs s = some r) ∧
  (∀ d args vs s r, unionVariants P hash f d args vs s = some r →
      unionVariants P hash g d args vs s = some r)

set_option hygiene false in
/-- `h : (match call_f with | none => none | some (a, s) => rest_f a s) = some r`, the goal the
    same at the larger fuel: consume the call, leaving `h : rest_f a s = some r`. -/
local macro "mstep " ih:term : tactic =>
  `(tactic| (split at h
             · cases h
             rename_i heq
             rw [$ih heq]
             dsimp only))

theorem mono_append_step (P : Prog) (hash : Key → String) (f g : Nat) (hg : f ≤ g)
    (ih : MonoAll P hash f g) :
    ∀ t s r, appendSchema P hash (f + 1) t s = some r → appendSchema P hash (g + 1) t s = some r := by
  obtain ⟨ihA, ihF, ihI, ihR, ihU⟩ := ih
  intro t s r h
  cases t <;> simp only [appendSchema, reserve, push] at h ⊢
  all_goals try exact h
  case vec t => mstep (ihF _ _ _); exact h
  case hashMap t => mstep (ihF _ _ _); exact h
  case btreeMap t => mstep (ihF _ _ _); exact h
  case ptr t => exact ihA _ _ _ h
  case option t => mstep (ihF _ _ _); mstep (ihF _ _ _); exact h
  case named id args =>
    cases hd : P[id]? with
    | none => simp only [hd] at h; cases h
    | some d =>
      simp only [hd] at h ⊢
      cases hb : d.body with
      | unitEnum vs => simp only [hb] at h ⊢; exact h
      | newtype fl =>
        simp only [hb] at h ⊢
        split
        · rename_i hdir
          rw [if_pos hdir] at h
          exact ihA _ _ _ h
        · rename_i hdir
          rw [if_neg hdir] at h
          dsimp only at h ⊢
          mstep (ihI _ _ _ _ _ _ _)
          exact h
      | record fs =>
        simp only [hb] at h ⊢
        split at h
        · cases h
        · rename_i tn htn
          have htn' : (if d.nparams = 0 then some (typeName d)
              else Option.map (fun k => typeName d ++ "_" ++ hash k) (lookupKey P g (Ty.named id args)))
              = some tn := by
            split at htn
            · rename_i hnp; rw [if_pos hnp]; exact htn
            · rename_i hnp
              rw [if_neg hnp]
              cases hk : lookupKey P f (Ty.named id args) with
              | none => simp [hk] at htn
              | some k => rw [lookupKey_mono P hg hk]; rw [hk] at htn; exact htn
          rw [htn']
          dsimp only
          mstep (ihR _ _ _ _ _ _)
          exact h
      | union vs =>
        simp only [hb] at h ⊢
        mstep (ihU _ _ _ _ _)
        exact h

theorem mono_find_step (P : Prog) (hash : Key → String) (f g : Nat) (hg : f ≤ g)
    (ih : MonoAll P hash f g) :
    ∀ t s r, findOrBuild P hash (f + 1) t s = some r → findOrBuild P hash (g + 1) t s = some r := by
  obtain ⟨ihA, ihF, ihI, ihR, ihU⟩ := ih
  intro t s r h
  simp only [findOrBuild] at h ⊢
  split at h
  · cases h
  rename_i key hkey
  rw [lookupKey_mono P (Nat.succ_le_succ hg) hkey]
  dsimp only
  split at h
  · exact h
  · mstep (ihA _ _ _)
    exact h

theorem mono_field_step (P : Prog) (hash : Key → String) (f g : Nat) (_hg : f ≤ g)
    (ih : MonoAll P hash f g) :
    ∀ d args fl kind rn s r, fieldInst P hash (f + 1) d args fl kind rn s = some r →
      fieldInst P hash (g + 1) d args fl kind rn s = some r := by
  obtain ⟨ihA, ihF, ihI, ihR, ihU⟩ := ih
  intro d args fl kind rn s r h
  simp only [fieldInst] at h ⊢
  cases hl : logicalOf fl with
  | none =>
    simp only [hl] at h ⊢
    generalize subst args (chosenTy fl) = ty at h ⊢
    generalize chosenTy fl = cty at h ⊢
    cases hk : kind.overridesFixedName <;> cases cty <;> simp only [hk] at h ⊢
    all_goals first
      | exact h
      | exact ihF _ _ _ h
  | some lt =>
    simp only [hl] at h ⊢
    mstep (ihA _ _ _)
    exact h

theorem mono_record_step (P : Prog) (hash : Key → String) (f g : Nat) (_hg : f ≤ g)
    (ih : MonoAll P hash f g) :
    ∀ d args tn fs s r, recordFields P hash (f + 1) d args tn fs s = some r →
      recordFields P hash (g + 1) d args tn fs s = some r := by
  obtain ⟨ihA, ihF, ihI, ihR, ihU⟩ := ih
  intro d args tn fs s r h
  cases fs with
  | nil => simp only [recordFields] at h ⊢; exact h
  | cons fl rest =>
    simp only [recordFields] at h ⊢
    mstep (ihI _ _ _ _ _ _ _)
    mstep (ihR _ _ _ _ _ _)
    exact h

theorem mono_union_step (P : Prog) (hash : Key → String) (f g : Nat) (_hg : f ≤ g)
    (ih : MonoAll P hash f g) :
    ∀ d args vs s r, unionVariants P hash (f + 1) d args vs s = some r →
      unionVariants P hash (g + 1) d args vs s = some r := by
  obtain ⟨ihA, ihF, ihI, ihR, ihU⟩ := ih
  intro d args vs s r h
  cases vs with
  | nil => simp only [unionVariants] at h ⊢; exact h
  | cons v rest =>
    simp only [unionVariants] at h ⊢
    cases hv : v.field with
    | none =>
      simp only [hv] at h ⊢
      mstep (ihF _ _ _)
      mstep (ihU _ _ _ _ _)
      exact h
    | some fl =>
      simp only [hv] at h ⊢
      mstep (ihI _ _ _ _ _ _ _)
      mstep (ihU _ _ _ _ _)
      exact h

theorem monoAll (P : Prog) (hash : Key → String) : ∀ f g, f ≤ g → MonoAll P hash f g := by
  intro f
  induction f with
  | zero =>
    intro g _
    refine ⟨?_, ?_, ?_, ?_, ?_⟩
    · intro t s r h; simp [appendSchema] at h
    · intro t s r h; simp [findOrBuild] at h
    · intro d args fl kind rn s r h; simp [fieldInst] at h
    · intro d args tn fs s r h
      cases fs with
      | nil => cases g <;> (simp only [recordFields] at h ⊢; exact h)
      | cons fl rest => simp [recordFields] at h
    · intro d args vs s r h
      cases vs with
      | nil => cases g <;> (simp only [unionVariants] at h ⊢; exact h)
      | cons v rest => simp [unionVariants] at h
  | succ f ih =>
    intro g' hle
    obtain ⟨g, rfl⟩ : ∃ g, g' = g + 1 := ⟨g' - 1, by omega⟩
    have hg : f ≤ g := by omega
    have := ih g hg
    exact ⟨mono_append_step P hash f g hg this, mono_find_step P hash f g hg this,
      mono_field_step P hash f g hg this, mono_record_step P hash f g hg this,
      mono_union_step P hash f g hg this⟩

end Avro.Impl.Derive
