import AvroModel.Lemmas.RenderPcf
import AvroModel.Spec.ValidDoc
/-
C09 (the rendered document is a valid document): basis for `Lemmas/RenderValid.lean`.

* the attribute-directed recursions of `Spec/ValidDoc.lean` (`defsAttr`, `wtOpt`, `rankedAttr`,
  ...) through `attr`;
* `definedNamesIn`, `ranked`, `directBelow` on an object of known type;
* `scalarsOk` of the member lists the renderer writes (`scalarsOk_written`): keys pairwise
  distinct, every member of the type the parser wants, `decimal` with its `precision`.

Imports only `Lemmas/RenderPcf` and `Spec/ValidDoc` (so: neither `Lemmas/SchemaParse` nor
`Lemmas/SchemaRender`).  Namespace `Avro.RenderValid`.
-/
namespace Avro.RenderValid
open Avro Avro.Impl Avro.Spec Avro.Spec.Pcf Avro.RenderPcf

/-! ### through `attr` -/

theorem defsAttr_eq (enc : Option String) (key : String) (ms : List (String × Json)) :
    defsAttr enc key ms =
      match attr key ms with
      | some v => definedNamesIn enc v
      | none => [] := by
  induction ms with
  | nil => simp [defsAttr, attr]
  | cons p rest ih =>
    obtain ⟨k, v⟩ := p
    by_cases hk : k = key <;> simp [defsAttr, attr, hk, ih]

theorem defsFieldsAttr_eq (enc : Option String) (ms : List (String × Json)) :
    defsFieldsAttr enc ms =
      match attr "fields" ms with
      | some (.arr fs) => defsFields enc fs
      | _ => [] := by
  induction ms with
  | nil => simp [defsFieldsAttr, attr]
  | cons p rest ih =>
    obtain ⟨k, v⟩ := p
    by_cases hk : k = "fields"
    · cases v <;> simp only [defsFieldsAttr, attr, hk, if_true]
    · cases v <;> simp only [defsFieldsAttr, attr, hk, if_false, ih]

theorem wtOpt_eq (key : String) (ms : List (String × Json)) :
    wtOpt key ms =
      match attr key ms with
      | some v => isNull v || wellTyped v
      | none => true := by
  induction ms with
  | nil => simp [wtOpt, attr]
  | cons p rest ih =>
    obtain ⟨k, v⟩ := p
    by_cases hk : k = key <;> simp [wtOpt, attr, hk, ih]

theorem wtFieldsAttr_eq (ms : List (String × Json)) :
    wtFieldsAttr ms =
      match attr "fields" ms with
      | none => true
      | some .null => true
      | some (.arr fs) => wtFields fs
      | some _ => false := by
  induction ms with
  | nil => simp [wtFieldsAttr, attr]
  | cons p rest ih =>
    obtain ⟨k, v⟩ := p
    by_cases hk : k = "fields"
    · cases v <;> simp only [wtFieldsAttr, attr, hk, if_true]
    · cases v <;> simp only [wtFieldsAttr, attr, hk, if_false, ih]

theorem rankedAttr_eq (rank : Fullname → Nat) (enc : Option String) (key : String)
    (ms : List (String × Json)) :
    rankedAttr rank enc key ms =
      match attr key ms with
      | some v => ranked rank enc v
      | none => true := by
  induction ms with
  | nil => simp [rankedAttr, attr]
  | cons p rest ih =>
    obtain ⟨k, v⟩ := p
    by_cases hk : k = key <;> simp [rankedAttr, attr, hk, ih]

theorem rankedFieldsAttr_eq (rank : Fullname → Nat) (owner : Fullname)
    (ms : List (String × Json)) :
    rankedFieldsAttr rank owner ms =
      match attr "fields" ms with
      | some (.arr fs) => rankedFields rank owner fs
      | _ => true := by
  induction ms with
  | nil => simp [rankedFieldsAttr, attr]
  | cons p rest ih =>
    obtain ⟨k, v⟩ := p
    by_cases hk : k = "fields"
    · cases v <;> simp only [rankedFieldsAttr, attr, hk, if_true]
    · cases v <;> simp only [rankedFieldsAttr, attr, hk, if_false, ih]

/-! ### one field object -/

theorem defsFields_cons (enc : Option String) (n : String) (j : Json) (rest : List Json) :
    defsFields enc (.obj [("name", .str n), ("type", j)] :: rest) =
      definedNamesIn enc j ++ defsFields enc rest := by
  have e : ¬ "name" = "type" := by decide
  simp only [defsFields, defsAttr, e, if_true, if_false]

theorem wtFields_cons (n : String) (j : Json) (rest : List Json) :
    wtFields (.obj [("name", .str n), ("type", j)] :: rest) = (wellTyped j && wtFields rest) := by
  have e : ¬ "name" = "type" := by decide
  have e' : ¬ "type" = "name" := by decide
  simp [wtFields, keyOnce, strAttr, attr, wtReq, e, e', List.filter]

theorem rankedFields_cons (rank : Fullname → Nat) (owner : Fullname) (n : String) (j : Json)
    (rest : List Json) :
    rankedFields rank owner (.obj [("name", .str n), ("type", j)] :: rest) =
      ((directBelow rank owner owner.1 j && ranked rank owner.1 j) &&
        rankedFields rank owner rest) := by
  have e : ¬ "name" = "type" := by decide
  simp only [rankedFields, rankedFieldType, e, if_true, if_false]

/-! ### `definedNamesIn` on an object of known type -/

theorem defs_obj_unnamed_leaf (enc : Option String) (ms : List (String × Json)) (t : String)
    (h : strAttr "type" ms = some t) (hn : strAttr "name" ms = none)
    (h1 : t ≠ "array") (h2 : t ≠ "map") : definedNamesIn enc (.obj ms) = [] := by
  simp only [definedNamesIn, h, hn, h1, h2, if_false]

theorem defs_obj_array (enc : Option String) (ms : List (String × Json))
    (h : strAttr "type" ms = some "array") (hn : strAttr "name" ms = none) :
    definedNamesIn enc (.obj ms) = defsAttr enc "items" ms := by
  simp only [definedNamesIn, h, hn, if_true]

theorem defs_obj_map (enc : Option String) (ms : List (String × Json))
    (h : strAttr "type" ms = some "map") (hn : strAttr "name" ms = none) :
    definedNamesIn enc (.obj ms) = defsAttr enc "values" ms := by
  have h2 : ¬ "map" = "array" := by decide
  simp only [definedNamesIn, h, hn, h2, if_true, if_false]

theorem defs_obj_named_leaf (enc : Option String) (ms : List (String × Json)) (t name : String)
    (h : strAttr "type" ms = some t) (hn : strAttr "name" ms = some name)
    (h1 : t ≠ "array") (h2 : t ≠ "map") (h3 : t ≠ "record") :
    definedNamesIn enc (.obj ms) = [fullnameOfDef name (strAttr "namespace" ms) enc] := by
  simp only [definedNamesIn, h, hn, h1, h2, h3, if_false]

theorem defs_obj_record (enc : Option String) (ms : List (String × Json)) (name : String)
    (h : strAttr "type" ms = some "record") (hn : strAttr "name" ms = some name) :
    definedNamesIn enc (.obj ms) =
      fullnameOfDef name (strAttr "namespace" ms) enc ::
        defsFieldsAttr (fullnameOfDef name (strAttr "namespace" ms) enc).1 ms := by
  have h2 : ¬ "record" = "array" := by decide
  have h3 : ¬ "record" = "map" := by decide
  simp only [definedNamesIn, h, hn, h2, h3, if_true, if_false]

/-! ### `ranked` on an object of known type -/

theorem ranked_obj_leaf (rank : Fullname → Nat) (enc : Option String) (ms : List (String × Json))
    (t : String) (h : strAttr "type" ms = some t)
    (h1 : t ≠ "array") (h2 : t ≠ "map") (h3 : t ≠ "record") :
    ranked rank enc (.obj ms) = true := by
  simp only [ranked, h, h1, h2, h3, if_false]

theorem ranked_obj_array (rank : Fullname → Nat) (enc : Option String)
    (ms : List (String × Json)) (h : strAttr "type" ms = some "array") :
    ranked rank enc (.obj ms) = rankedAttr rank enc "items" ms := by
  simp only [ranked, h, if_true]

theorem ranked_obj_map (rank : Fullname → Nat) (enc : Option String)
    (ms : List (String × Json)) (h : strAttr "type" ms = some "map") :
    ranked rank enc (.obj ms) = rankedAttr rank enc "values" ms := by
  have h2 : ¬ "map" = "array" := by decide
  simp only [ranked, h, h2, if_true, if_false]

theorem ranked_obj_record (rank : Fullname → Nat) (enc : Option String)
    (ms : List (String × Json)) (name : String)
    (h : strAttr "type" ms = some "record") (hn : strAttr "name" ms = some name) :
    ranked rank enc (.obj ms) =
      rankedFieldsAttr rank (fullnameOfDef name (strAttr "namespace" ms) enc) ms := by
  have h2 : ¬ "record" = "array" := by decide
  have h3 : ¬ "record" = "map" := by decide
  simp only [ranked, h, hn, h2, h3, if_true, if_false]

/-! ### `scalarsOk` -/

theorem filter_key_nil (key : String) (ms : List (String × Json))
    (h : key ∉ ms.map (·.1)) : ms.filter (fun p => p.1 = key) = [] := by
  induction ms with
  | nil => rfl
  | cons p rest ih =>
    obtain ⟨k, v⟩ := p
    have hk : ¬ k = key := fun e => h (by simp [e])
    have hr : key ∉ rest.map (·.1) := fun e => h (by simp only [List.map_cons]; exact List.mem_cons_of_mem _ e)
    simp only [List.filter, hk, decide_false, ih hr]

theorem keyOnce_of_nodup (key : String) (ms : List (String × Json))
    (h : (ms.map (·.1)).Nodup) : keyOnce key ms = true := by
  induction ms with
  | nil => simp [keyOnce]
  | cons p rest ih =>
    obtain ⟨k, v⟩ := p
    simp only [List.map_cons, List.nodup_cons] at h
    by_cases hk : k = key
    · subst hk
      have := filter_key_nil k rest h.1
      simp only [keyOnce, List.filter, decide_true, this, List.length_cons, List.length_nil,
        Nat.zero_add, Nat.le_refl]
    · have := ih h.2
      simp only [keyOnce, List.filter, hk, decide_false] at this ⊢
      exact this

/-- what the parser demands of the value of a scalar member -/
def memberOk (p : String × Json) : Bool :=
  if p.1 = "logicalType" ∨ p.1 = "name" ∨ p.1 = "namespace" then
    (match p.2 with | .str _ => true | _ => false)
  else if p.1 = "symbols" then
    (match p.2 with | .arr items => (strings items).isSome | _ => false)
  else if p.1 = "size" ∨ p.1 = "precision" then
    (match p.2 with | .nat n => decide (n ≤ 2 ^ 64 - 1) | _ => false)
  else if p.1 = "scale" then
    (match p.2 with | .nat n => decide (n ≤ 2 ^ 32 - 1) | _ => false)
  else true

theorem attr_mem {key : String} {ms : List (String × Json)} {v : Json}
    (h : attr key ms = some v) : (key, v) ∈ ms := by
  induction ms with
  | nil => simp [attr] at h
  | cons p rest ih =>
    obtain ⟨k, w⟩ := p
    by_cases hk : k = key
    · simp only [attr, hk, if_true, Option.some.injEq] at h
      subst h; subst hk
      exact List.mem_cons_self
    · simp only [attr, hk, if_false] at h
      exact List.mem_cons_of_mem _ (ih h)

theorem optStrAttr_of {key : String} {ms : List (String × Json)}
    (hk : key = "logicalType" ∨ key = "name" ∨ key = "namespace")
    (hm : ∀ p ∈ ms, memberOk p = true) : optStrAttr key ms = true := by
  unfold optStrAttr
  cases h : attr key ms with
  | none => rfl
  | some v =>
    have := hm _ (attr_mem h)
    simp only [memberOk, hk, if_true] at this
    cases v <;> simp_all

theorem optSymbolsAttr_of {ms : List (String × Json)}
    (hm : ∀ p ∈ ms, memberOk p = true) : optSymbolsAttr ms = true := by
  unfold optSymbolsAttr
  cases h : attr "symbols" ms with
  | none => rfl
  | some v =>
    have := hm _ (attr_mem h)
    have e : ¬ ("symbols" = "logicalType" ∨ "symbols" = "name" ∨ "symbols" = "namespace") := by
      decide
    simp only [memberOk, e, if_false, if_true] at this
    cases v <;> simp_all

theorem optNatAttr_size_of {ms : List (String × Json)}
    (hm : ∀ p ∈ ms, memberOk p = true) : optNatAttr "size" (2 ^ 64 - 1) ms = true := by
  unfold optNatAttr
  cases h : attr "size" ms with
  | none => rfl
  | some v =>
    have := hm _ (attr_mem h)
    have e : ¬ ("size" = "logicalType" ∨ "size" = "name" ∨ "size" = "namespace") := by decide
    have e2 : ¬ "size" = "symbols" := by decide
    simp only [memberOk, e, e2, if_false, true_or, if_true] at this
    cases v <;> simp_all

theorem optNatAttr_precision_of {ms : List (String × Json)}
    (hm : ∀ p ∈ ms, memberOk p = true) : optNatAttr "precision" (2 ^ 64 - 1) ms = true := by
  unfold optNatAttr
  cases h : attr "precision" ms with
  | none => rfl
  | some v =>
    have := hm _ (attr_mem h)
    have e : ¬ ("precision" = "logicalType" ∨ "precision" = "name" ∨ "precision" = "namespace") := by
      decide
    have e2 : ¬ "precision" = "symbols" := by decide
    simp only [memberOk, e, e2, if_false, or_true, if_true] at this
    cases v <;> simp_all

theorem optNatAttr_scale_of {ms : List (String × Json)}
    (hm : ∀ p ∈ ms, memberOk p = true) : optNatAttr "scale" (2 ^ 32 - 1) ms = true := by
  unfold optNatAttr
  cases h : attr "scale" ms with
  | none => rfl
  | some v =>
    have := hm _ (attr_mem h)
    have e : ¬ ("scale" = "logicalType" ∨ "scale" = "name" ∨ "scale" = "namespace") := by decide
    have e2 : ¬ "scale" = "symbols" := by decide
    have e3 : ¬ ("scale" = "size" ∨ "scale" = "precision") := by decide
    simp only [memberOk, e, e2, e3, if_false, if_true] at this
    cases v <;> simp_all

theorem scalarsOk_of (ms : List (String × Json)) (t : String)
    (hk : (ms.map (·.1)).Nodup) (hm : ∀ p ∈ ms, memberOk p = true)
    (ht : strAttr "type" ms = some t) (htn : isTypeName t = true)
    (hdec : (!(strAttr "logicalType" ms == some "decimal") ||
      (natAttr "precision" ms).isSome) = true) : scalarsOk ms = true := by
  have h1 : knownKeys.all (fun k => keyOnce k ms) = true :=
    List.all_eq_true.mpr fun k _ => keyOnce_of_nodup k ms hk
  simp only [scalarsOk, h1, ht, htn, optStrAttr_of (Or.inl rfl) hm,
    optStrAttr_of (Or.inr (Or.inl rfl)) hm, optStrAttr_of (Or.inr (Or.inr rfl)) hm,
    optSymbolsAttr_of hm, optNatAttr_size_of hm, optNatAttr_precision_of hm,
    optNatAttr_scale_of hm, hdec, Bool.and_self]

/-! ### the member lists the renderer writes -/

/-- what the parser demands of a logical type as the renderer writes it: `scale` fits 32 bits and
    `precision` 64 bits (they are `u32` / `usize` in the crate: automatic there), and the name of
    an *unknown* logical type is not `decimal` (that one is written without `precision`, and the
    parser refuses a `decimal` without `precision`). -/
def logicalOkB : Option LogicalType → Bool
  | some (.decimal s p) => decide (s ≤ 2 ^ 32 - 1) && decide (p ≤ 2 ^ 64 - 1)
  | some (.unknown n) => n != "decimal"
  | _ => true

theorem keys_typeMembers (t : String) (lg : Option LogicalType) :
    (typeMembers t lg).map (·.1) = ["type"] ∨
    (typeMembers t lg).map (·.1) = ["logicalType", "type"] ∨
    (typeMembers t lg).map (·.1) = ["logicalType", "type", "scale", "precision"] := by
  cases lg with
  | none => exact Or.inl rfl
  | some lt => cases lt <;> first | exact Or.inr (Or.inl rfl) | exact Or.inr (Or.inr rfl)

theorem keys_nameMembers (ns : Option String) (nm : Name) :
    (nameMembers ns nm).map (·.1) = ["name"] ∨
    (nameMembers ns nm).map (·.1) = ["namespace", "name"] := by
  unfold nameMembers
  split
  · exact Or.inl rfl
  · split
    · exact Or.inr rfl
    · exact Or.inl rfl

theorem memberOk_typeMembers (t : String) (lg : Option LogicalType) (h : logicalOkB lg = true) :
    ∀ p ∈ typeMembers t lg, memberOk p = true := by
  intro p hp
  cases lg with
  | none =>
    simp only [typeMembers, List.mem_singleton] at hp
    subst hp; rfl
  | some lt =>
    cases lt <;>
      simp only [typeMembers, List.cons_append, List.nil_append, List.append_nil, List.mem_cons,
        List.not_mem_nil, or_false] at hp
    case decimal s p' =>
      simp only [logicalOkB, Bool.and_eq_true, decide_eq_true_eq] at h
      rcases hp with rfl | rfl | rfl | rfl
      · rfl
      · rfl
      · simp [memberOk, h.1]
      · simp [memberOk, h.2]
    all_goals
      rcases hp with rfl | rfl
      · rfl
      · rfl

theorem memberOk_nameMembers (ns : Option String) (nm : Name) :
    ∀ p ∈ nameMembers ns nm, memberOk p = true := by
  intro p hp
  unfold nameMembers at hp
  split at hp
  · simp only [List.mem_singleton] at hp; subst hp; rfl
  · split at hp
    · simp only [List.mem_cons, List.not_mem_nil, or_false] at hp
      rcases hp with rfl | rfl <;> rfl
    · simp only [List.mem_singleton] at hp; subst hp; rfl

theorem decimal_written (t : String) (lg : Option LogicalType) (r : List (String × Json))
    (hr : attr "logicalType" r = none) (hlg : logicalOkB lg = true) :
    (!(strAttr "logicalType" (typeMembers t lg ++ r) == some "decimal") ||
      (natAttr "precision" (typeMembers t lg ++ r)).isSome) = true := by
  have e : ¬ "type" = "logicalType" := by decide
  cases lg with
  | none => simp [typeMembers, strAttr, attr, e, hr]
  | some lt =>
    cases lt
    case decimal s p => simp [typeMembers, natAttr, attr]
    case unknown n =>
      have : n ≠ "decimal" := by simpa [logicalOkB] using hlg
      simp [typeMembers, strAttr, attr, this]
    all_goals simp [typeMembers, strAttr, attr]

/-- keys of the last member of a written object -/
def restKeys : List String := ["fields", "symbols", "items", "values", "size"]

theorem keys_written_nodup (t : String) (lg : Option LogicalType) (mid : List (String × Json))
    (hmid : mid = [] ∨ ∃ ns nm, mid = nameMembers ns nm) (rest : List (String × Json))
    (hrest : rest = [] ∨ ∃ k v, rest = [(k, v)] ∧ k ∈ restKeys) :
    ((typeMembers t lg ++ mid ++ rest).map (·.1)).Nodup := by
  have hM : mid.map (·.1) = [] ∨ mid.map (·.1) = ["name"] ∨ mid.map (·.1) = ["namespace", "name"] := by
    rcases hmid with rfl | ⟨ns, nm, rfl⟩
    · exact Or.inl rfl
    · exact Or.inr (keys_nameMembers ns nm)
  have hR : rest.map (·.1) = [] ∨ rest.map (·.1) = ["fields"] ∨ rest.map (·.1) = ["symbols"] ∨
      rest.map (·.1) = ["items"] ∨ rest.map (·.1) = ["values"] ∨ rest.map (·.1) = ["size"] := by
    rcases hrest with rfl | ⟨k, v, rfl, hk⟩
    · exact Or.inl rfl
    · simp only [restKeys, List.mem_cons, List.not_mem_nil, or_false] at hk
      rcases hk with rfl | rfl | rfl | rfl | rfl <;> simp
  simp only [List.map_append]
  rcases keys_typeMembers t lg with hT | hT | hT <;> rcases hM with hM | hM | hM <;>
    rcases hR with hR | hR | hR | hR | hR | hR <;> rw [hT, hM, hR] <;> decide

theorem attr_logicalType_rest (mid rest : List (String × Json))
    (hmid : mid = [] ∨ ∃ ns nm, mid = nameMembers ns nm)
    (hrest : rest = [] ∨ ∃ k v, rest = [(k, v)] ∧ k ∈ restKeys) :
    attr "logicalType" (mid ++ rest) = none := by
  have h1 : attr "logicalType" mid = none := by
    rcases hmid with rfl | ⟨ns, nm, rfl⟩
    · rfl
    · exact attr_nameMembers_other ns nm _ (by decide) (by decide)
  have h2 : attr "logicalType" rest = none := by
    rcases hrest with rfl | ⟨k, v, rfl, hk⟩
    · rfl
    · simp only [restKeys, List.mem_cons, List.not_mem_nil, or_false] at hk
      rcases hk with rfl | rfl | rfl | rfl | rfl <;> simp [attr]
  rw [attr_append, h1, h2]

/-- **`scalarsOk` of a written object.** -/
theorem scalarsOk_written (t : String) (lg : Option LogicalType) (mid rest : List (String × Json))
    (htn : isTypeName t = true) (hlg : logicalOkB lg = true)
    (hmid : mid = [] ∨ ∃ ns nm, mid = nameMembers ns nm)
    (hrest : rest = [] ∨ ∃ k v, rest = [(k, v)] ∧ k ∈ restKeys ∧ memberOk (k, v) = true) :
    scalarsOk (typeMembers t lg ++ mid ++ rest) = true := by
  have hrest' : rest = [] ∨ ∃ k v, rest = [(k, v)] ∧ k ∈ restKeys := by
    rcases hrest with h | ⟨k, v, h1, h2, -⟩
    · exact Or.inl h
    · exact Or.inr ⟨k, v, h1, h2⟩
  apply scalarsOk_of _ t (keys_written_nodup t lg mid hmid rest hrest')
  · intro p hp
    rcases List.mem_append.mp hp with hp | hp
    · rcases List.mem_append.mp hp with hp | hp
      · exact memberOk_typeMembers t lg hlg p hp
      · rcases hmid with rfl | ⟨ns, nm, rfl⟩
        · cases hp
        · exact memberOk_nameMembers ns nm p hp
    · rcases hrest with rfl | ⟨k, v, rfl, -, hok⟩
      · cases hp
      · simp only [List.mem_singleton] at hp
        subst hp; exact hok
  · rw [List.append_assoc]; exact strAttr_type_typeMembers _ _ _
  · exact htn
  · rw [List.append_assoc]
    exact decimal_written t lg _ (attr_logicalType_rest mid rest hmid hrest') hlg

/-! ### `wellTyped` of what the renderer writes -/

theorem wellTyped_prim (t : String) (h : isPrimitive t = true) : wellTyped (.str t) = true := by
  obtain ⟨h1, h2, h3, h4, h5⟩ := isPrimitive_not_complex t h
  simp [wellTyped, complexNames, h1, h2, h3, h4, h5]

theorem complex_facts (s : String) (h : complexNames.contains s = true) :
    '.' ∉ s.toList ∧ (RawType.ofString s).isSome = true := by
  simp only [complexNames, List.contains_eq_mem, List.mem_cons, List.not_mem_nil,
    or_false, decide_eq_true_eq] at h
  rcases h with rfl | rfl | rfl | rfl | rfl <;> exact ⟨by decide, by decide⟩

/-- The string written for a reference is never the name of a complex type. -/
theorem wellTyped_ref (name : Name) (h : NameWF name) (parentNs : Option String) :
    wellTyped (.str (refString parentNs name)) = true := by
  cases hp : complexNames.contains (refString parentNs name) with
  | false => simp only [wellTyped, hp, Bool.not_false]
  | true =>
    exfalso
    obtain ⟨hd, ho⟩ := complex_facts _ hp
    unfold refString at hd ho
    split at hd
    · rename_i hc
      rw [if_pos hc] at ho
      have := hc.2
      rw [Option.isNone_iff_eq_none] at this
      rw [this] at ho
      cases ho
    · cases hn : name.ns with
      | none =>
        simp only [hn, Option.isNone_none, if_true] at hd
        apply hd
        rw [toList_dot_prefix]
        simp
      | some x =>
        simp only [hn, Option.isNone_some, Bool.false_eq_true, if_false] at hd
        apply hd
        rw [(h.ns_some x hn).2, toList_join]
        simp

theorem isTypeName_prim (t : String) (h : isPrimitive t = true) : isTypeName t = true := by
  simp [isTypeName, h]

theorem attr_written_rest (t : String) (lg : Option LogicalType) (mid rest : List (String × Json))
    (hmid : mid = [] ∨ ∃ ns nm, mid = nameMembers ns nm) (key : String)
    (h1 : key ≠ "logicalType") (h2 : key ≠ "type") (h3 : key ≠ "scale") (h4 : key ≠ "precision")
    (h5 : key ≠ "namespace") (h6 : key ≠ "name") :
    attr key (typeMembers t lg ++ mid ++ rest) = attr key rest := by
  rcases hmid with rfl | ⟨ns, nm, rfl⟩
  · rw [List.append_nil]; exact attr_unnamed_rest t lg rest key h1 h2 h3 h4
  · exact attr_object_rest t lg ns nm rest key h1 h2 h3 h4 h5 h6

/-- **`wellTyped` of a written object**, from its last member. -/
theorem wellTyped_written (t : String) (lg : Option LogicalType) (mid rest : List (String × Json))
    (htn : isTypeName t = true) (hlg : logicalOkB lg = true)
    (hmid : mid = [] ∨ ∃ ns nm, mid = nameMembers ns nm)
    (hrest : rest = [] ∨ ∃ k v, rest = [(k, v)] ∧ k ∈ restKeys ∧ memberOk (k, v) = true)
    (hi : wtOpt "items" rest = true) (hv : wtOpt "values" rest = true)
    (hf : wtFieldsAttr rest = true) :
    wellTyped (.obj (typeMembers t lg ++ mid ++ rest)) = true := by
  rw [wtOpt_eq] at hi hv
  rw [wtFieldsAttr_eq] at hf
  simp only [wellTyped, scalarsOk_written t lg mid rest htn hlg hmid hrest, wtOpt_eq,
    wtFieldsAttr_eq,
    attr_written_rest t lg mid rest hmid "items" (by decide) (by decide) (by decide) (by decide)
      (by decide) (by decide),
    attr_written_rest t lg mid rest hmid "values" (by decide) (by decide) (by decide) (by decide)
      (by decide) (by decide),
    attr_written_rest t lg mid rest hmid "fields" (by decide) (by decide) (by decide) (by decide)
      (by decide) (by decide), hi, hv, hf, Bool.and_self]

/-- a primitive type carrying a logical type -/
theorem wellTyped_leaf (t : String) (lg : Option LogicalType) (htn : isTypeName t = true)
    (hlg : logicalOkB lg = true) : wellTyped (.obj (typeMembers t lg)) = true := by
  have := wellTyped_written t lg [] [] htn hlg (Or.inl rfl) (Or.inl rfl) rfl rfl rfl
  simpa using this

theorem wellTyped_array (lg : Option LogicalType) (j : Json) (hlg : logicalOkB lg = true)
    (hj : wellTyped j = true) :
    wellTyped (.obj (typeMembers "array" lg ++ [("items", j)])) = true := by
  have := wellTyped_written "array" lg [] [("items", j)] (by decide) hlg (Or.inl rfl)
    (Or.inr ⟨_, _, rfl, by decide, rfl⟩) (by simp [wtOpt, hj]) (by simp [wtOpt])
    (by simp [wtFieldsAttr])
  simpa using this

theorem wellTyped_map (lg : Option LogicalType) (j : Json) (hlg : logicalOkB lg = true)
    (hj : wellTyped j = true) :
    wellTyped (.obj (typeMembers "map" lg ++ [("values", j)])) = true := by
  have := wellTyped_written "map" lg [] [("values", j)] (by decide) hlg (Or.inl rfl)
    (Or.inr ⟨_, _, rfl, by decide, rfl⟩) (by simp [wtOpt]) (by simp [wtOpt, hj])
    (by simp [wtFieldsAttr])
  simpa using this

theorem wellTyped_record (lg : Option LogicalType) (ns : Option String) (nm : Name)
    (js : List Json) (hlg : logicalOkB lg = true) (hj : wtFields js = true) :
    wellTyped (.obj (typeMembers "record" lg ++ nameMembers ns nm ++ [("fields", .arr js)])) =
      true :=
  wellTyped_written "record" lg _ [("fields", .arr js)] (by decide) hlg (Or.inr ⟨ns, nm, rfl⟩)
    (Or.inr ⟨_, _, rfl, by decide, rfl⟩) (by simp [wtOpt]) (by simp [wtOpt])
    (by simp [wtFieldsAttr, hj])

theorem wellTyped_enum (lg : Option LogicalType) (ns : Option String) (nm : Name)
    (syms : List String) (hlg : logicalOkB lg = true) :
    wellTyped (.obj (typeMembers "enum" lg ++ nameMembers ns nm ++
      [("symbols", .arr (syms.map .str))])) = true :=
  wellTyped_written "enum" lg _ [("symbols", .arr (syms.map .str))] (by decide) hlg
    (Or.inr ⟨ns, nm, rfl⟩)
    (Or.inr ⟨_, _, rfl, by decide, by simp [memberOk, strings_map_str]⟩)
    (by simp [wtOpt]) (by simp [wtOpt]) (by simp [wtFieldsAttr])

theorem wellTyped_fixed (lg : Option LogicalType) (ns : Option String) (nm : Name)
    (size : Nat) (hlg : logicalOkB lg = true) (hsz : size ≤ 2 ^ 64 - 1) :
    wellTyped (.obj (typeMembers "fixed" lg ++ nameMembers ns nm ++ [("size", .nat size)])) =
      true :=
  wellTyped_written "fixed" lg _ [("size", .nat size)] (by decide) hlg
    (Or.inr ⟨ns, nm, rfl⟩)
    (Or.inr ⟨_, _, rfl, by decide, by simp [memberOk, hsz]⟩)
    (by simp [wtOpt]) (by simp [wtOpt]) (by simp [wtFieldsAttr])

/-! ### `directBelow` on an object -/

theorem directBelow_obj_noname (rank : Fullname → Nat) (owner : Fullname) (ns : Option String)
    (ms : List (String × Json)) (h : strAttr "name" ms = none) :
    directBelow rank owner ns (.obj ms) = true := by
  simp only [directBelow, h]
  split
  · rename_i h1; cases h1
  · rfl

theorem directBelow_obj_named (rank : Fullname → Nat) (owner : Fullname) (ns : Option String)
    (ms : List (String × Json)) (t name : String) (ht : strAttr "type" ms = some t)
    (hn : strAttr "name" ms = some name) :
    directBelow rank owner ns (.obj ms) =
      (!(t == "record") ||
        decide (rank (fullnameOfDef name (strAttr "namespace" ms) ns) < rank owner)) := by
  simp only [directBelow, ht, hn]

theorem strAttr_name_unnamed (t : String) (lg : Option LogicalType) (rest : List (String × Json))
    (h : attr "name" rest = none) : strAttr "name" (typeMembers t lg ++ rest) = none := by
  simp only [strAttr,
    attr_unnamed_rest t lg rest "name" (by decide) (by decide) (by decide) (by decide), h]

/-! ### converses: what `wellTyped` of a written object says about the node -/

theorem scalarsOk_parts {ms : List (String × Json)} (h : scalarsOk ms = true) :
    optNatAttr "size" (2 ^ 64 - 1) ms = true ∧ optNatAttr "precision" (2 ^ 64 - 1) ms = true ∧
    optNatAttr "scale" (2 ^ 32 - 1) ms = true ∧
    (!(strAttr "logicalType" ms == some "decimal") || (natAttr "precision" ms).isSome) = true := by
  simp only [scalarsOk, Bool.and_eq_true] at h
  exact ⟨h.1.1.1.2, h.1.1.2, h.1.2, h.2⟩

theorem attr_other_rest (key : String) (mid rest : List (String × Json))
    (hmid : mid = [] ∨ ∃ ns nm, mid = nameMembers ns nm)
    (hrest : rest = [] ∨ ∃ k v, rest = [(k, v)] ∧ k ∈ restKeys)
    (h1 : key ≠ "namespace") (h2 : key ≠ "name") (h3 : key ∉ restKeys) :
    attr key (mid ++ rest) = none := by
  have e1 : attr key mid = none := by
    rcases hmid with rfl | ⟨ns, nm, rfl⟩
    · rfl
    · exact attr_nameMembers_other ns nm _ h1 h2
  have e2 : attr key rest = none := by
    rcases hrest with rfl | ⟨k, v, rfl, hk⟩
    · rfl
    · have : ¬ k = key := fun e => h3 (e ▸ hk)
      simp [attr, this]
  rw [attr_append, e1, e2]

/-- `scalarsOk` of a written object gives back `logicalOkB` of the logical type. -/
theorem logicalOk_of_scalarsOk (t : String) (lg : Option LogicalType)
    (mid rest : List (String × Json))
    (hmid : mid = [] ∨ ∃ ns nm, mid = nameMembers ns nm)
    (hrest : rest = [] ∨ ∃ k v, rest = [(k, v)] ∧ k ∈ restKeys)
    (h : scalarsOk (typeMembers t lg ++ mid ++ rest) = true) : logicalOkB lg = true := by
  obtain ⟨-, hp, hs, hd⟩ := scalarsOk_parts h
  rw [List.append_assoc] at hp hs hd
  cases lg with
  | none => rfl
  | some lt =>
    cases lt
    case decimal s p =>
      simp only [optNatAttr, attr_append, typeMembers, List.cons_append, List.nil_append,
        attr] at hp hs
      simp (decide := true) only [if_true, if_false] at hp hs
      simp only [logicalOkB, Bool.and_eq_true]
      exact ⟨hs, hp⟩
    case unknown n =>
      have hm : attr "precision" mid = none := by
        rcases hmid with rfl | ⟨ns, nm, rfl⟩
        · rfl
        · exact attr_nameMembers_other ns nm _ (by decide) (by decide)
      have hr : attr "precision" rest = none := by
        rcases hrest with rfl | ⟨k, v, rfl, hk⟩
        · rfl
        · simp only [restKeys, List.mem_cons, List.not_mem_nil, or_false] at hk
          rcases hk with rfl | rfl | rfl | rfl | rfl <;> simp [attr]
      simp only [strAttr, natAttr, attr_append, typeMembers, List.cons_append, List.nil_append,
        List.append_nil, attr] at hd
      simp (decide := true) only [if_true, if_false, hm, hr] at hd
      simpa [logicalOkB] using hd
    all_goals rfl

theorem wellTyped_obj_parts {ms : List (String × Json)} (h : wellTyped (.obj ms) = true) :
    scalarsOk ms = true ∧ wtOpt "items" ms = true ∧ wtOpt "values" ms = true ∧
      wtFieldsAttr ms = true := by
  simp only [wellTyped, Bool.and_eq_true] at h
  exact ⟨h.1.1.1, h.1.1.2, h.1.2, h.2⟩

theorem logicalOk_of_leaf (t : String) (lg : Option LogicalType)
    (h : wellTyped (.obj (typeMembers t lg)) = true) : logicalOkB lg = true := by
  have h' : wellTyped (.obj (typeMembers t lg ++ [] ++ [])) = true := by simpa using h
  exact logicalOk_of_scalarsOk t lg [] [] (Or.inl rfl) (Or.inl rfl) (wellTyped_obj_parts h').1

theorem array_inv (lg : Option LogicalType) (j : Json) (hj : isNull j = false)
    (h : wellTyped (.obj (typeMembers "array" lg ++ [("items", j)])) = true) :
    logicalOkB lg = true ∧ wellTyped j = true := by
  have h' : wellTyped (.obj (typeMembers "array" lg ++ [] ++ [("items", j)])) = true := by
    simpa using h
  obtain ⟨h1, h2, -, -⟩ := wellTyped_obj_parts h'
  refine ⟨logicalOk_of_scalarsOk _ lg [] _ (Or.inl rfl) (Or.inr ⟨_, _, rfl, by decide⟩) h1, ?_⟩
  rw [wtOpt_eq, attr_written_rest _ _ _ _ (Or.inl rfl) "items" (by decide) (by decide)
    (by decide) (by decide) (by decide) (by decide)] at h2
  simpa [attr, hj] using h2

theorem map_inv (lg : Option LogicalType) (j : Json) (hj : isNull j = false)
    (h : wellTyped (.obj (typeMembers "map" lg ++ [("values", j)])) = true) :
    logicalOkB lg = true ∧ wellTyped j = true := by
  have h' : wellTyped (.obj (typeMembers "map" lg ++ [] ++ [("values", j)])) = true := by
    simpa using h
  obtain ⟨h1, -, h2, -⟩ := wellTyped_obj_parts h'
  refine ⟨logicalOk_of_scalarsOk _ lg [] _ (Or.inl rfl) (Or.inr ⟨_, _, rfl, by decide⟩) h1, ?_⟩
  rw [wtOpt_eq, attr_written_rest _ _ _ _ (Or.inl rfl) "values" (by decide) (by decide)
    (by decide) (by decide) (by decide) (by decide)] at h2
  simpa [attr, hj] using h2

theorem record_inv (lg : Option LogicalType) (ns : Option String) (nm : Name) (js : List Json)
    (h : wellTyped (.obj (typeMembers "record" lg ++ nameMembers ns nm ++
      [("fields", .arr js)])) = true) : logicalOkB lg = true ∧ wtFields js = true := by
  obtain ⟨h1, -, -, h2⟩ := wellTyped_obj_parts h
  refine ⟨logicalOk_of_scalarsOk _ lg _ _ (Or.inr ⟨ns, nm, rfl⟩)
    (Or.inr ⟨_, _, rfl, by decide⟩) h1, ?_⟩
  rw [wtFieldsAttr_eq, attr_written_rest _ _ _ _ (Or.inr ⟨ns, nm, rfl⟩) "fields" (by decide)
    (by decide) (by decide) (by decide) (by decide) (by decide)] at h2
  simpa [attr] using h2

theorem enum_inv (lg : Option LogicalType) (ns : Option String) (nm : Name) (syms : List String)
    (h : wellTyped (.obj (typeMembers "enum" lg ++ nameMembers ns nm ++
      [("symbols", .arr (syms.map .str))])) = true) : logicalOkB lg = true :=
  logicalOk_of_scalarsOk _ lg _ _ (Or.inr ⟨ns, nm, rfl⟩) (Or.inr ⟨_, _, rfl, by decide⟩)
    (wellTyped_obj_parts h).1

theorem fixed_inv (lg : Option LogicalType) (ns : Option String) (nm : Name) (size : Nat)
    (h : wellTyped (.obj (typeMembers "fixed" lg ++ nameMembers ns nm ++
      [("size", .nat size)])) = true) : logicalOkB lg = true ∧ size ≤ 2 ^ 64 - 1 := by
  obtain ⟨h1, -, -, -⟩ := wellTyped_obj_parts h
  refine ⟨logicalOk_of_scalarsOk _ lg _ _ (Or.inr ⟨ns, nm, rfl⟩)
    (Or.inr ⟨_, _, rfl, by decide⟩) h1, ?_⟩
  obtain ⟨hs, -, -, -⟩ := scalarsOk_parts h1
  rw [optNatAttr, attr_written_rest _ _ _ _ (Or.inr ⟨ns, nm, rfl⟩) "size" (by decide)
    (by decide) (by decide) (by decide) (by decide) (by decide)] at hs
  simpa [attr] using hs

end Avro.RenderValid
