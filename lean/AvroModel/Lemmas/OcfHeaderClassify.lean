import AvroModel.Impl.OcfHeader
/-
`readHeader` (`Reader::new_and_metadata`), factored: once the metadata map is decoded, what
happens is a pure function `classify` of the list of entries — pick the schema, the codec
(`"null"` when absent: repaired defect D15), the user entries — followed by reading the marker.
`classify` does not depend on the order of the entries (`classify_perm`).  Used by C06.
-/
namespace Avro.C06
open Avro Avro.Impl Avro.Impl.Ocf

/-- a key as bytes -/
abbrev keyBytes (n : String) : Bytes := n.toUTF8.data.toList

/-- the entries of the decoded map, as byte strings -/
abbrev kvOf (entries : List (Out × Out)) : List (Bytes × Bytes) :=
  entries.filterMap fun (k, v) =>
    match outBytes k, outBytes v with
    | some kb, some vb => some (kb, vb)
    | _, _ => none

abbrev schemasOf (kv : List (Bytes × Bytes)) : List (Bytes × Bytes) :=
  kv.filter (·.1 = keyBytes "avro.schema")
abbrev codecsOf (kv : List (Bytes × Bytes)) : List (Bytes × Bytes) :=
  kv.filter (·.1 = keyBytes "avro.codec")
abbrev userOf (kv : List (Bytes × Bytes)) : List (Bytes × Bytes) :=
  kv.filter fun e => e.1 ≠ keyBytes "avro.schema" ∧ e.1 ≠ keyBytes "avro.codec"

/-- the codec named by the `avro.codec` entries (at most one): `"null"` when there is none -/
def codecOf (codecs : List (Bytes × Bytes)) : Option String :=
  match codecs with
  | [] => some "null"
  | (_, v) :: _ => (bytesToStr? v).bind fun n => if knownCodecs.contains n then some n else none

/-- What the header says: the schema, the codec, the user metadata. `none`: rejected. -/
def classify (kv : List (Bytes × Bytes)) : Option (Bytes × String × List (Bytes × Bytes)) :=
  if (schemasOf kv).length ≠ 1 ∨ (codecsOf kv).length > 1 then none else
  match bytesToStr? ((schemasOf kv).headD ([], [])).2 with
  | none => none
  | some _ =>
    match codecOf (codecsOf kv) with
    | none => none
    | some cn => some (((schemasOf kv).headD ([], [])).2, cn, userOf kv)

/-- the end of `readHeader`: classify, then read the marker -/
def headerTail (kv : List (Bytes × Bytes)) (s' : RState) : Except InitErr Header × RState :=
  match classify kv with
  | none => (.error .header, s')
  | some (sj, cn, user) =>
    match readExact 16 s' with
    | (.error _, s'') => (.error .header, s'')
    | (.ok sync, s'') => (.ok { schemaJson := sj, codec := cn, userMeta := user, sync := sync }, s'')

/-- the configuration and fuel `readHeader` decodes the metadata map with -/
def metaDe (s : RState) : Except DeErr Out × RState :=
  deAny deExtModel { maxSeqSize := 1000, allowedDepth := 64 } metaSchema (s.rest.length * 4 + 4096)
    (.map 1) 64 (.map .any .bytes) s

/-- **`readHeader`, factored**: magic, the metadata map, then `headerTail` on its entries. -/
theorem readHeader_eq (src s s' : RState) (entries : List (Out × Out))
    (h4 : readExact 4 src = (.ok [0x4F, 0x62, 0x6A, 0x01], s))
    (hm : metaDe s = (.ok (.map entries), s')) :
    readHeader src = headerTail (kvOf entries) s' := by
  unfold metaDe at hm
  unfold readHeader
  simp only [h4, ne_eq, not_true_eq_false, if_false, hm]
  unfold headerTail classify
  split
  next h =>
    have hc : (schemasOf (kvOf entries)).length ≠ 1 ∨ (codecsOf (kvOf entries)).length > 1 := h
    rw [if_pos hc]
  next h =>
    have hc : ¬ ((schemasOf (kvOf entries)).length ≠ 1 ∨ (codecsOf (kvOf entries)).length > 1) := h
    rw [if_neg hc]
    split
    · rename_i hn
      have hn' : bytesToStr? ((schemasOf (kvOf entries)).headD ([], [])).2 = none := hn
      rw [hn']
    · rename_i v hv
      have hv' : bytesToStr? ((schemasOf (kvOf entries)).headD ([], [])).2 = some v := hv
      rw [hv']
      simp only
      split
      · rename_i hcn
        have hcn' : codecOf (codecsOf (kvOf entries)) = none := hcn
        rw [hcn']
      · rename_i cn hcn
        have hcn' : codecOf (codecsOf (kvOf entries)) = some cn := hcn
        rw [hcn']
        rfl

/-! ### `classify` does not depend on the order of the entries -/

theorem eq_of_perm_length_le_one {β : Type} {l₁ l₂ : List β} (h : l₁.Perm l₂) (h1 : l₁.length ≤ 1) :
    l₁ = l₂ := by
  match l₁, h1 with
  | [], _ => exact (List.nil_perm.1 h).symm
  | [a], _ => exact List.singleton_perm.1 h

/-- Two lists of entries that are permutations of each other are classified alike: both rejected,
    or both accepted with the same schema and codec, and user entries that are permutations of
    each other. -/
theorem classify_perm {kv₁ kv₂ : List (Bytes × Bytes)} (h : kv₁.Perm kv₂) :
    (classify kv₁ = none ∧ classify kv₂ = none) ∨
    ∃ sj cn u₁ u₂, classify kv₁ = some (sj, cn, u₁) ∧ classify kv₂ = some (sj, cn, u₂) ∧
      u₁.Perm u₂ := by
  have hs : (schemasOf kv₁).Perm (schemasOf kv₂) := h.filter _
  have hc : (codecsOf kv₁).Perm (codecsOf kv₂) := h.filter _
  have hu : (userOf kv₁).Perm (userOf kv₂) := h.filter _
  by_cases hcond : (schemasOf kv₁).length ≠ 1 ∨ (codecsOf kv₁).length > 1
  · left
    have hcond2 : (schemasOf kv₂).length ≠ 1 ∨ (codecsOf kv₂).length > 1 := by
      rw [← hs.length_eq, ← hc.length_eq]; exact hcond
    exact ⟨by simp only [classify, hcond, if_true], by simp only [classify, hcond2, if_true]⟩
  · have hs1 : (schemasOf kv₁).length ≤ 1 := by omega
    have hc1 : (codecsOf kv₁).length ≤ 1 := by omega
    have es := eq_of_perm_length_le_one hs hs1
    have ec := eq_of_perm_length_le_one hc hc1
    have hcond2 : ¬ ((schemasOf kv₂).length ≠ 1 ∨ (codecsOf kv₂).length > 1) := by
      rw [← es, ← ec]; exact hcond
    simp only [classify, hcond, if_false, ← es, ← ec]
    cases bytesToStr? ((schemasOf kv₁).headD ([], [])).2 with
    | none => left; exact ⟨rfl, rfl⟩
    | some _ =>
      cases codecOf (codecsOf kv₁) with
      | none => left; exact ⟨rfl, rfl⟩
      | some cn => right; exact ⟨_, cn, _, _, rfl, rfl, hu⟩

/-- `kvOf` maps permutations to permutations -/
theorem kvOf_perm {e₁ e₂ : List (Out × Out)} (h : e₁.Perm e₂) : (kvOf e₁).Perm (kvOf e₂) :=
  h.filterMap _

/-! ### What `classify` accepts -/

/-- Entries holding exactly one `avro.schema` (valid UTF-8) and no `avro.codec`: accepted, the
    codec is `"null"` (D15 repaired: the key may be absent), everything else is user metadata. -/
theorem classify_no_codec (kv : List (Bytes × Bytes)) (sj : Bytes) (str : String)
    (hs : schemasOf kv = [(keyBytes "avro.schema", sj)]) (hutf : bytesToStr? sj = some str)
    (hc : codecsOf kv = []) :
    classify kv = some (sj, "null", userOf kv) := by
  simp [classify, hs, hc, hutf, codecOf]

/-- … and exactly one `avro.codec` naming a known codec. -/
theorem classify_codec (kv : List (Bytes × Bytes)) (sj cv : Bytes) (str cn : String)
    (hs : schemasOf kv = [(keyBytes "avro.schema", sj)]) (hutf : bytesToStr? sj = some str)
    (hc : codecsOf kv = [(keyBytes "avro.codec", cv)]) (hcn : bytesToStr? cv = some cn)
    (hk : knownCodecs.contains cn = true) :
    classify kv = some (sj, cn, userOf kv) := by
  have hk' : cn ∈ knownCodecs := by simpa using hk
  simp [classify, hs, hc, hutf, codecOf, hcn, hk']

/-- Conversely, whatever is accepted has exactly one schema entry, valid UTF-8, at most one codec
    entry naming a known codec, and the user metadata is everything else. -/
theorem classify_some {kv : List (Bytes × Bytes)} {sj : Bytes} {cn : String}
    {u : List (Bytes × Bytes)} (h : classify kv = some (sj, cn, u)) :
    (∃ k, schemasOf kv = [(k, sj)]) ∧ (bytesToStr? sj).isSome ∧ (codecsOf kv).length ≤ 1 ∧
      codecOf (codecsOf kv) = some cn ∧ knownCodecs.contains cn = true ∧ u = userOf kv := by
  unfold classify at h
  split at h
  · cases h
  · rename_i hcond
    split at h
    · cases h
    · rename_i str hstr
      split at h
      · cases h
      · rename_i cn' hcn
        simp only [Option.some.injEq, Prod.mk.injEq] at h
        obtain ⟨rfl, rfl, rfl⟩ := h
        have hl : (schemasOf kv).length = 1 := by omega
        refine ⟨?_, by rw [hstr]; rfl, by omega, hcn, ?_, rfl⟩
        · match hsch : schemasOf kv, hl with
          | [(k, v)], _ => exact ⟨k, rfl⟩
        · unfold codecOf at hcn
          split at hcn
          · cases hcn; decide
          · rename_i k v tl heq
            cases hb : bytesToStr? v with
            | none => simp [hb] at hcn
            | some n =>
              simp only [hb, Option.bind] at hcn
              split at hcn
              · cases hcn; assumption
              · cases hcn

end Avro.C06
