import AvroModel.Impl.De
import AvroModel.Lemmas.Varint
/-
Back-end independent characterisation of the read primitives of `Impl/De.lean`.

Every primitive is characterised, for *any* well-formed state (slice, or reader with any chunk
schedule), by a function of `rest` / `limit` only, and leaves the state "advanced by `k` bytes"
(`Adv k s s'`).  The slice/reader agreement (C11) follows because both sides satisfy the same
characterisation.
-/
namespace Avro.Impl
open Avro

/-! ### States -/

/-- The reader's buffer never holds more than what is left (vacuous for the slice). -/
def RState.WF (s : RState) : Prop := s.isSlice = false → s.avail ≤ s.rest.length

/-- `s'` is `s` advanced by `k` bytes (same back-end, `Take` limit decreased accordingly). -/
structure Adv (k : Nat) (s s' : RState) : Prop where
  isSlice : s'.isSlice = s.isSlice
  rest : s'.rest = s.rest.drop k
  limit : s'.limit = s.limit.map (· - k)
  maxAlloc : s'.maxAlloc = s.maxAlloc
  wf : s'.WF

theorem Adv.zero {s : RState} (h : s.WF) : Adv 0 s s := by
  refine ⟨rfl, by simp, ?_, rfl, h⟩
  cases s.limit <;> simp

theorem Adv.trans {j k : Nat} {s s' s'' : RState} (h1 : Adv j s s') (h2 : Adv k s' s'') :
    Adv (j + k) s s'' := by
  refine ⟨h2.isSlice.trans h1.isSlice, ?_, ?_, h2.maxAlloc.trans h1.maxAlloc, h2.wf⟩
  · rw [h2.rest, h1.rest, List.drop_drop]
  · rw [h2.limit, h1.limit]
    cases s.limit <;> simp
    omega

theorem Adv.length {k : Nat} {s s' : RState} (h : Adv k s s') :
    s'.rest.length = s.rest.length - k := by
  rw [h.rest, List.length_drop]

/-- what a `read` of `k` bytes may return at most, given the `Take` limit -/
def RState.lim (s : RState) (k : Nat) : Nat :=
  match s.limit with
  | none => k
  | some l => min k l

/-- number of bytes still readable (through the `Take` limit, if any) -/
def RState.eff (s : RState) : Nat :=
  match s.limit with
  | none => s.rest.length
  | some l => min l s.rest.length

theorem Adv.eff {k : Nat} {s s' : RState} (h : Adv k s s') : s'.eff = s.eff - k := by
  unfold RState.eff
  rw [h.limit, h.length]
  cases s.limit <;> simp
  omega

/-! ### `fillBuf`, `readSome` -/

theorem fillBuf_spec (s : RState) (h : s.WF) :
    ∃ a s', fillBuf s = (.ok (s.rest.take a), s') ∧ a ≤ s.rest.length ∧
      (s.rest ≠ [] → 0 < a) ∧
      s'.isSlice = s.isSlice ∧ s'.rest = s.rest ∧ s'.limit = s.limit ∧
      s'.maxAlloc = s.maxAlloc ∧ (s.isSlice = false → s'.avail = a) := by
  unfold fillBuf
  by_cases hs : s.isSlice = true
  · refine ⟨s.rest.length, s, by simp [hs], Nat.le_refl _, ?_, rfl, rfl, rfl, rfl, by simp [hs]⟩
    intro hne
    cases hr : s.rest with
    | nil => exact absurd hr hne
    | cons => simp
  · have hs' : s.isSlice = false := by simpa using hs
    have hw := h hs'
    by_cases ha : s.avail > 0
    · exact ⟨s.avail, s, by simp [hs', ha], hw, fun _ => ha, rfl, rfl, rfl, rfl, fun _ => rfl⟩
    · cases hsc : s.sched with
      | nil =>
        refine ⟨min (max s.lastChunk 1) s.rest.length,
          { s with avail := min (max s.lastChunk 1) s.rest.length, sched := [] },
          by simp [hs', ha], ?_, ?_,
          rfl, rfl, rfl, rfl, fun _ => rfl⟩
        · omega
        · intro hne
          have : 0 < s.rest.length := List.length_pos_iff.2 hne
          omega
      | cons c r =>
        refine ⟨min (max c 1) s.rest.length,
          { s with avail := min (max c 1) s.rest.length, sched := r },
          by simp [hs', ha], ?_, ?_,
          rfl, rfl, rfl, rfl, fun _ => rfl⟩
        · omega
        · intro hne
          have : 0 < s.rest.length := List.length_pos_iff.2 hne
          omega

theorem readSome_eq (k : Nat) (s : RState) :
    readSome k s =
      if s.lim k = 0 then (.ok [], s) else
      match fillBuf s with
      | (.error e, s') => (.error e, s')
      | (.ok buf, s') =>
        (.ok (buf.take (min (s.lim k) buf.length)),
          { s' with rest := s'.rest.drop (min (s.lim k) buf.length),
                    avail := s'.avail - min (s.lim k) buf.length,
                    limit := s'.limit.map (· - min (s.lim k) buf.length) }) := rfl

theorem readSome_spec (k : Nat) (s : RState) (h : s.WF) :
    ∃ m s', readSome k s = (.ok (s.rest.take m), s') ∧ m ≤ s.lim k ∧ m ≤ s.rest.length ∧
      (s.lim k ≠ 0 → s.rest ≠ [] → 0 < m) ∧ Adv m s s' := by
  rw [readSome_eq]
  by_cases hk : s.lim k = 0
  · exact ⟨0, s, by simp [hk], by omega, by omega, fun h => absurd hk h, Adv.zero h⟩
  · obtain ⟨a, s1, hf, hal, hapos, h1, h2, h3, h4, h5⟩ := fillBuf_spec s h
    refine ⟨min (s.lim k) a,
      { s1 with rest := s1.rest.drop (min (s.lim k) a), avail := s1.avail - min (s.lim k) a,
                limit := s1.limit.map (· - min (s.lim k) a) }, ?_, by omega, by omega, ?_, ?_⟩
    · simp only [hk, if_false, hf, List.length_take, List.take_take]
      have e1 : min a s.rest.length = a := by omega
      have e2 : min (min (s.lim k) a) a = min (s.lim k) a := by omega
      rw [e1, e2]
    · intro _ hne
      have := hapos hne
      omega
    · refine ⟨h1, by simp [h2], by simp [h3], h4, ?_⟩
      intro hsl
      have hsl' : s.isSlice = false := by simpa [h1] using hsl
      have := h5 hsl'
      simp only [List.length_drop, h2, this]
      omega

theorem lim_pos_of_eff {s : RState} {k : Nat} (h : k + 1 ≤ s.eff) : s.lim (k + 1) ≠ 0 := by
  unfold RState.lim; unfold RState.eff at h
  cases hl : s.limit <;> simp only [hl] at h ⊢ <;> omega

theorem lim_le_eff {s : RState} {k : Nat} : min (s.lim k) s.rest.length ≤ s.eff := by
  unfold RState.lim RState.eff
  cases hl : s.limit <;> simp only <;> omega

/-! ### `readExact` -/

/-- `read_exact` on any back-end: `k` bytes are delivered iff `k` bytes are readable. -/
theorem readExactR_spec (fuel : Nat) : ∀ (k : Nat) (acc : Bytes) (s : RState), s.WF → k ≤ fuel →
    (k ≤ s.eff → ∃ s', readExactR fuel k acc s = (.ok (acc ++ s.rest.take k), s') ∧ Adv k s s') ∧
    (s.eff < k → ∃ e s', readExactR fuel k acc s = (.error e, s')) := by
  induction fuel with
  | zero =>
    intro k acc s h hk
    have : k = 0 := by omega
    subst this
    exact ⟨fun _ => ⟨s, by simp [readExactR, pure], Adv.zero h⟩, fun h => by omega⟩
  | succ fuel ih =>
    intro k acc s h hk
    cases k with
    | zero => exact ⟨fun _ => ⟨s, by simp [readExactR, pure], Adv.zero h⟩, fun h => by omega⟩
    | succ k =>
      obtain ⟨m, s1, hrs, hm1, hm2, hmpos, hadv⟩ := readSome_spec (k + 1) s h
      have hlen : (s.rest.take m).length = m := by rw [List.length_take]; omega
      have hstep : readExactR (fuel + 1) (k + 1) acc s =
          if m = 0 then (.error .io, s1)
          else readExactR fuel (k + 1 - m) (acc ++ s.rest.take m) s1 := by
        simp only [readExactR, bind, hrs]
        by_cases hm0 : m = 0
        · simp [hm0, DeM.fail]
        · have : (List.take m s.rest).isEmpty = false := by
            rw [List.isEmpty_eq_false_iff]
            intro hnil
            rw [hnil] at hlen
            simp at hlen; omega
          simp [this, hm0, hlen]
      have hmle : m ≤ s.eff := by
        have := @lim_le_eff s (k + 1)
        omega
      have hmk : m ≤ k + 1 := by
        have : s.lim (k + 1) ≤ k + 1 := by
          unfold RState.lim; cases s.limit <;> simp only <;> omega
        omega
      constructor
      · intro hke
        have hne : s.rest ≠ [] := by
          intro hnil
          unfold RState.eff at hke
          rw [hnil] at hke
          cases hl : s.limit <;> simp only [hl, List.length_nil] at hke <;> omega
        have hmp := hmpos (lim_pos_of_eff hke) hne
        obtain ⟨s', hs', hadv'⟩ := (ih (k + 1 - m) (acc ++ s.rest.take m) s1 hadv.wf (by omega)).1
          (by rw [hadv.eff]; omega)
        refine ⟨s', ?_, ?_⟩
        · rw [hstep, if_neg (Nat.ne_of_gt hmp), hs', hadv.rest, List.append_assoc, ← List.take_add,
            show m + (k + 1 - m) = k + 1 by omega]
        · have := hadv.trans hadv'
          rwa [show m + (k + 1 - m) = k + 1 by omega] at this
      · intro hke
        rw [hstep]
        by_cases hm0 : m = 0
        · exact ⟨_, _, by rw [if_pos hm0]⟩
        · rw [if_neg hm0]
          exact (ih (k + 1 - m) (acc ++ s.rest.take m) s1 hadv.wf (by omega)).2
            (by rw [hadv.eff]; omega)

theorem readExact_spec (k : Nat) (s : RState) (h : s.WF) :
    (k ≤ s.eff → ∃ s', readExact k s = (.ok (s.rest.take k), s') ∧ Adv k s s') ∧
    (s.eff < k → ∃ e s', readExact k s = (.error e, s')) := by
  have := readExactR_spec k k [] s h (Nat.le_refl _)
  simpa [readExact] using this

/-! ### `decode_var` only looks at the varint prefix -/

theorem aux_cons (b : UInt8) (tl : Bytes) (r sh : Nat) :
    decodeVarU64Aux (b :: tl) r sh =
      if sh + 7 > 63 then
        (if b.toNat < 2 then some (r ||| (((b.toNat &&& 0x7F) <<< sh) % 2 ^ 64), (sh + 7) / 7)
         else none)
      else if b.toNat &&& 0x80 = 0 then
        some (r ||| (((b.toNat &&& 0x7F) <<< sh) % 2 ^ 64), (sh + 7) / 7)
      else decodeVarU64Aux tl (r ||| (((b.toNat &&& 0x7F) <<< sh) % 2 ^ 64)) (sh + 7) := by
  rw [decodeVarU64Aux]

/-- Extension: a successful decode is not affected by what follows. -/
theorem aux_append (l more : Bytes) : ∀ (r sh v k : Nat),
    decodeVarU64Aux l r sh = some (v, k) → decodeVarU64Aux (l ++ more) r sh = some (v, k) := by
  induction l with
  | nil => intro r sh v k h; simp [decodeVarU64Aux] at h
  | cons b tl ih =>
    intro r sh v k h
    rw [List.cons_append, aux_cons]
    rw [aux_cons] at h
    by_cases h1 : sh + 7 > 63 <;> by_cases h2 : b.toNat &&& 0x80 = 0 <;>
      simp only [h1, h2, if_true, if_false] at h ⊢ <;>
      first | exact h | exact ih _ _ _ _ h

/-- Continuation bytes only, fewer than ten in all: no result. -/
theorem aux_cont_none (l : Bytes) : ∀ (r sh : Nat),
    (∀ x ∈ l, x.toNat &&& 0x80 ≠ 0) → sh + 7 * l.length ≤ 63 → decodeVarU64Aux l r sh = none := by
  induction l with
  | nil => intro r sh _ _; simp [decodeVarU64Aux]
  | cons b tl ih =>
    intro r sh hc hl
    simp only [List.length_cons] at hl
    rw [aux_cons, if_neg (by omega), if_neg (hc b (by simp))]
    exact ih _ _ (fun x hx => hc x (by simp [hx])) (by omega)

/-- After continuation bytes, a terminator (or the tenth byte) decides: the tail is irrelevant and
    the count is the position of that byte. -/
theorem aux_cont_term (buf : Bytes) (b : UInt8) (tl : Bytes) : ∀ (r sh : Nat),
    (∀ x ∈ buf, x.toNat &&& 0x80 ≠ 0) → sh + 7 * (buf.length + 1) ≤ 70 →
    (b.toNat &&& 0x80 = 0 ∨ sh + 7 * (buf.length + 1) > 63) →
    decodeVarU64Aux (buf ++ b :: tl) r sh = decodeVarU64Aux (buf ++ [b]) r sh ∧
    ∀ v k, decodeVarU64Aux (buf ++ [b]) r sh = some (v, k) → k = (sh + 7 * (buf.length + 1)) / 7 := by
  induction buf with
  | nil =>
    intro r sh _ hl hb
    simp only [List.nil_append, List.length_nil, Nat.zero_add, Nat.mul_one] at hl hb ⊢
    rw [aux_cons, aux_cons]
    by_cases h1 : sh + 7 > 63
    · simp only [h1, if_true, true_and]
      intro v k h
      split at h
      · simp only [Option.some.injEq, Prod.mk.injEq] at h; exact h.2.symm
      · simp at h
    · have h2 : b.toNat &&& 0x80 = 0 := by
        rcases hb with hb | hb
        · exact hb
        · omega
      simp only [h1, h2, if_true, if_false, true_and]
      intro v k h
      simp only [Option.some.injEq, Prod.mk.injEq] at h; exact h.2.symm
  | cons c buf ih =>
    intro r sh hc hl hb
    simp only [List.length_cons] at hl hb ⊢
    have hn1 : ¬ (sh + 7 > 63) := by omega
    have hn2 : ¬ (c.toNat &&& 0x80 = 0) := hc c (by simp)
    rw [List.cons_append, List.cons_append, aux_cons, aux_cons]
    simp only [hn1, hn2, if_false]
    have := ih (r ||| (((c.toNat &&& 0x7F) <<< sh) % 2 ^ 64)) (sh + 7)
      (fun x hx => hc x (by simp [hx])) (by omega) (by omega)
    rw [show sh + 7 + 7 * (buf.length + 1) = sh + 7 * (buf.length + 1 + 1) by omega] at this
    exact this

theorem decodeVar_some {t : VarTy} {src : Bytes} {v : Int} {k : Nat}
    (h : decodeVar t src = some (v, k)) : ∃ n, decodeVarU64 src = some (n, k) := by
  cases hu : decodeVarU64 src with
  | none => cases t <;> simp [decodeVar, decodeVarI32, decodeVarI64, decodeVarU32, hu] at h
  | some p =>
    obtain ⟨n, k'⟩ := p
    refine ⟨n, ?_⟩
    cases t <;> simp [decodeVar, decodeVarI32, decodeVarI64, decodeVarU32, hu] at h
    · rw [h.2.2]
    · rw [h.2]
    · rw [h.2.2]
    · rw [h.2]

theorem decodeVar_congr (t : VarTy) {a b : Bytes} (h : decodeVarU64 a = decodeVarU64 b) :
    decodeVar t a = decodeVar t b := by
  cases t <;> simp [decodeVar, decodeVarI32, decodeVarI64, decodeVarU32, h]

theorem decodeVar_le {t : VarTy} {src : Bytes} {v : Int} {k : Nat}
    (h : decodeVar t src = some (v, k)) : k ≤ src.length := by
  obtain ⟨n, hn⟩ := decodeVar_some h
  exact (decodeVarU64_to_spec src n k hn).2.2.2.2

/-- (a) prefix/extension lemma for `decode_var`. -/
theorem decodeVar_append {t : VarTy} {l : Bytes} {v : Int} {k : Nat} (more : Bytes)
    (h : decodeVar t l = some (v, k)) : decodeVar t (l ++ more) = some (v, k) := by
  obtain ⟨n, hn⟩ := decodeVar_some h
  rw [← h]
  apply decodeVar_congr
  rw [hn]
  exact aux_append l more 0 0 n k hn

theorem decodeVar_cont_none (t : VarTy) (buf : Bytes) (hc : ∀ x ∈ buf, x.toNat &&& 0x80 ≠ 0)
    (hl : buf.length ≤ 9) : decodeVar t buf = none := by
  have : decodeVarU64 buf = none := aux_cont_none buf 0 0 hc (by omega)
  cases t <;> simp [decodeVar, decodeVarI32, decodeVarI64, decodeVarU32, this]

theorem decodeVar_cont_term (t : VarTy) (buf : Bytes) (b : UInt8) (tl : Bytes)
    (hc : ∀ x ∈ buf, x.toNat &&& 0x80 ≠ 0) (hl : buf.length + 1 ≤ 10)
    (hb : b.toNat &&& 0x80 = 0 ∨ buf.length + 1 = 10) :
    decodeVar t (buf ++ b :: tl) = decodeVar t (buf ++ [b]) ∧
    ∀ v k, decodeVar t (buf ++ [b]) = some (v, k) → k = buf.length + 1 := by
  obtain ⟨h1, h2⟩ := aux_cont_term buf b tl 0 0 hc (by omega) (by omega)
  refine ⟨decodeVar_congr t h1, ?_⟩
  intro v k h
  obtain ⟨n, hn⟩ := decodeVar_some h
  have := h2 n k hn
  omega

/-! ### `readVarint` -/

/-- (b) the byte-wise loop decodes exactly what `decode_var` sees on the whole remaining input,
    whatever the refills. -/
theorem varintBytewise_spec (t : VarTy) (fuel : Nat) : ∀ (buf : Bytes) (s : RState),
    s.WF → s.limit = none → buf.length + fuel = 10 → 0 < fuel →
    (∀ x ∈ buf, x.toNat &&& 0x80 ≠ 0) →
    (∀ v k, decodeVar t (buf ++ s.rest) = some (v, k) →
      ∃ j s', varintBytewise t fuel buf s = (.ok v, s') ∧ Adv j s s' ∧ buf.length + j = k) ∧
    (decodeVar t (buf ++ s.rest) = none →
      ∃ e s', varintBytewise t fuel buf s = (.error e, s')) := by
  induction fuel with
  | zero => intros; omega
  | succ fuel ih =>
    intro buf s h hlim hlen _ hc
    obtain ⟨m, s1, hrs, hm1, hm2, hmpos, hadv⟩ := readSome_spec 1 s h
    have hl1 : s.lim 1 = 1 := by simp [RState.lim, hlim]
    cases hr : s.rest with
    | nil =>
      have hstep : varintBytewise t (fuel + 1) buf s = (.error .io, s1) := by
        simp [varintBytewise, bind, hrs, hr, DeM.fail]
      have hnone : decodeVar t (buf ++ []) = none := by
        rw [List.append_nil]; exact decodeVar_cont_none t buf hc (by omega)
      constructor
      · intro v k hd; rw [hnone] at hd; cases hd
      · intro _; exact ⟨_, _, hstep⟩
    | cons b tl =>
      have hm : m = 1 := by
        have := hmpos (by omega) (by simp [hr])
        omega
      subst hm
      have hgot : s.rest.take 1 = [b] := by simp [hr]
      have hs1 : s1.rest = tl := by rw [hadv.rest, hr]; rfl
      have hs1lim : s1.limit = none := by rw [hadv.limit, hlim]; rfl
      by_cases hstop : b.toNat &&& 0x80 = 0 ∨ (buf ++ [b]).length = 10
      · have hstep : varintBytewise t (fuel + 1) buf s =
            match decodeVar t (buf ++ [b]) with
            | some (v, _) => (.ok v, s1)
            | none => (.error .custom, s1) := by
          simp only [varintBytewise, bind, hrs, hgot, hstop, if_true]
          split <;> simp [pure, DeM.fail, *]
        obtain ⟨e1, e2⟩ := decodeVar_cont_term t buf b tl hc (by omega) (by simpa using hstop)
        rw [e1]
        constructor
        · intro v k hd
          exact ⟨1, s1, by rw [hstep, hd], hadv, (e2 v k hd).symm⟩
        · intro hd; exact ⟨_, _, by rw [hstep, hd]⟩
      · have hstep : varintBytewise t (fuel + 1) buf s =
            varintBytewise t fuel (buf ++ [b]) s1 := by
          simp only [varintBytewise, bind, hrs, hgot, hstop, if_false]
        have hstop' : ¬ (b.toNat &&& 0x80 = 0) ∧ buf.length + 1 ≠ 10 := by
          simpa [not_or] using hstop
        have hc' : ∀ x ∈ buf ++ [b], x.toNat &&& 0x80 ≠ 0 := by
          intro x hx
          rcases List.mem_append.1 hx with hx | hx
          · exact hc x hx
          · have : x = b := by simpa using hx
            rw [this]; exact hstop'.1
        have := ih (buf ++ [b]) s1 hadv.wf hs1lim (by simp; omega) (by omega) hc'
        rw [hs1, List.append_assoc, List.singleton_append] at this
        rw [hstep]
        constructor
        · intro v k hd
          obtain ⟨j, s', h1, h2, h3⟩ := this.1 v k hd
          refine ⟨1 + j, s', h1, hadv.trans h2, ?_⟩
          simp at h3; omega
        · exact this.2

/-- `read_varint` on any back-end is `decode_var` on the remaining input. -/
theorem readVarint_spec (t : VarTy) (s : RState) (h : s.WF) (hlim : s.limit = none) :
    (∀ v k, decodeVar t s.rest = some (v, k) →
      ∃ s', readVarint t s = (.ok v, s') ∧ Adv k s s') ∧
    (decodeVar t s.rest = none → ∃ e s', readVarint t s = (.error e, s')) := by
  by_cases hs : s.isSlice = true
  · constructor
    · intro v k hd
      refine ⟨{ s with rest := s.rest.drop k }, by simp [readVarint, hs, hd], rfl, rfl, ?_, rfl, ?_⟩
      · simp [hlim]
      · intro hsl; simp [hs] at hsl
    · intro hd; exact ⟨.custom, s, by simp [readVarint, hs, hd]⟩
  · have hs' : s.isSlice = false := by simpa using hs
    obtain ⟨a, s1, hf, hal, hapos, h1, h2, h3, h4, h5⟩ := fillBuf_spec s h
    have ha := h5 hs'
    have hwf1 : s1.WF := by intro _; rw [ha, h2]; exact hal
    cases hb : decodeVar t (s.rest.take a) with
    | some p =>
      obtain ⟨v, k⟩ := p
      have hstep : readVarint t s =
          (.ok v, { s1 with rest := s1.rest.drop k, avail := s1.avail - k }) := by
        simp [readVarint, hs', hf, hb, consume, Prod.map]
      have hfull := decodeVar_append (s.rest.drop a) hb
      rw [List.take_append_drop] at hfull
      have hk := decodeVar_le hb
      rw [List.length_take] at hk
      constructor
      · intro v' k' hd
        rw [hfull] at hd
        simp only [Option.some.injEq, Prod.mk.injEq] at hd
        obtain ⟨rfl, rfl⟩ := hd
        refine ⟨_, hstep, h1, by simp [h2], ?_, h4, ?_⟩
        · simp [h3, hlim]
        · intro _
          simp only [List.length_drop, h2, ha]
          omega
      · intro hd; rw [hfull] at hd; cases hd
    | none =>
      have hstep : readVarint t s = varintBytewise t 10 [] s1 := by
        simp [readVarint, hs', hf, hb]
      have := varintBytewise_spec t 10 [] s1 hwf1 (by rw [h3, hlim]) (by simp) (by omega)
        (by simp)
      rw [List.nil_append, h2] at this
      rw [hstep]
      constructor
      · intro v k hd
        obtain ⟨j, s', e1, e2, e3⟩ := this.1 v k hd
        simp at e3; subst e3
        exact ⟨s', e1, h1 ▸ e2.isSlice, by rw [e2.rest, h2], by rw [e2.limit, h3], by
          rw [e2.maxAlloc, h4], e2.wf⟩
      · exact this.2

/-! ### `readSlice`, `skipBytes` -/

theorem eff_of_limit_none {s : RState} (h : s.limit = none) : s.eff = s.rest.length := by
  simp [RState.eff, h]

/-- `read_slice` on any back-end: `n` bytes iff `n` bytes are left (the reader additionally
    refuses more than `maxAlloc`, hence `hma`). The flag tells the back-end. -/
theorem readSlice_spec (n : Nat) (s : RState) (h : s.WF) (hlim : s.limit = none)
    (hma : s.isSlice = false → n ≤ s.rest.length → n ≤ s.maxAlloc) :
    (n ≤ s.rest.length →
      ∃ s', readSlice n s = (.ok (s.rest.take n, s.isSlice), s') ∧ Adv n s s') ∧
    (s.rest.length < n → ∃ e s', readSlice n s = (.error e, s')) := by
  by_cases hs : s.isSlice = true
  · constructor
    · intro hn
      refine ⟨{ s with rest := s.rest.drop n }, ?_, rfl, rfl, ?_, rfl, ?_⟩
      · simp [readSlice, hs, Nat.not_lt.2 hn]
      · simp [hlim]
      · intro hsl; simp [hs] at hsl
    · intro hn; exact ⟨.custom, s, by simp [readSlice, hs, hn]⟩
  · have hs' : s.isSlice = false := by simpa using hs
    obtain ⟨a, s1, hf, hal, hapos, h1, h2, h3, h4, h5⟩ := fillBuf_spec s h
    have ha := h5 hs'
    by_cases hna : n ≤ a
    · have hstep : readSlice n s =
          (.ok (s.rest.take n, false), { s1 with rest := s1.rest.drop n, avail := s1.avail - n }) := by
        simp only [readSlice, hs', hf, consume, List.length_take, List.take_take]
        have e1 : n ≤ min a s.rest.length := by omega
        have e2 : min n a = n := by omega
        simp [e1, e2]
      constructor
      · intro _
        refine ⟨{ s1 with rest := s1.rest.drop n, avail := s1.avail - n },
          by rw [hstep, hs'], h1, by simp [h2], by simp [h3, hlim], h4, ?_⟩
        intro _
        simp only [List.length_drop, h2, ha]
        omega
      · intro hn; omega
    · by_cases hmx : n > s1.maxAlloc
      · have hstep : readSlice n s = (.error .custom, s1) := by
          simp only [readSlice, hs', hf, List.length_take]
          have e1 : ¬ n ≤ min a s.rest.length := by omega
          simp [e1, hmx]
        constructor
        · intro hn; have := hma hs' hn; omega
        · intro _; exact ⟨_, _, hstep⟩
      · let s2 : RState := { s1 with scratch := max s1.scratch n }
        have hstep : readSlice n s =
            match readExactR n n [] s2 with
            | (.ok b, s'') => (.ok (b, false), s'')
            | (.error e, s'') => (.error e, s'') := by
          simp only [readSlice, hs', hf, List.length_take]
          have e1 : ¬ n ≤ min a s.rest.length := by omega
          simp [e1, hmx, s2]
          rfl
        have hwf2 : s2.WF := by intro _; show s1.avail ≤ s1.rest.length; rw [ha, h2]; exact hal
        have heff : s2.eff = s.rest.length := by
          rw [eff_of_limit_none (show s2.limit = none by show s1.limit = none; rw [h3, hlim])]
          show s1.rest.length = _; rw [h2]
        have hsp := readExactR_spec n n [] s2 hwf2 (Nat.le_refl _)
        rw [heff] at hsp
        constructor
        · intro hn
          obtain ⟨s', e1, e2⟩ := hsp.1 hn
          refine ⟨s', ?_, e2.isSlice.trans h1, ?_, ?_, e2.maxAlloc.trans h4, e2.wf⟩
          · rw [hstep, e1, hs']; show _ = (Except.ok (List.take n s.rest, false), s')
            have : s2.rest = s.rest := h2
            simp [this]
          · rw [e2.rest]; show s1.rest.drop n = _; rw [h2]
          · rw [e2.limit]; show s1.limit.map _ = _; rw [h3]
        · intro hn
          obtain ⟨e, s', e1⟩ := hsp.2 hn
          exact ⟨e, s', by rw [hstep, e1]⟩

theorem skipBytes_go_spec (fuel : Nat) : ∀ (left : Nat) (s : RState), s.WF → s.limit = none →
    left ≤ fuel → left ≤ s.rest.length → Adv left s (skipBytes.go fuel left s) := by
  induction fuel with
  | zero =>
    intro left s h _ hl _
    have : left = 0 := by omega
    subst this
    simp only [skipBytes.go]; exact Adv.zero h
  | succ fuel ih =>
    intro left s h hlim hl hlen
    cases left with
    | zero => simp only [skipBytes.go]; exact Adv.zero h
    | succ left =>
      obtain ⟨m, s1, hrs, hm1, hm2, hmpos, hadv⟩ := readSome_spec (left + 1) s h
      have hl1 : s.lim (left + 1) = left + 1 := by simp [RState.lim, hlim]
      have hne : s.rest ≠ [] := by
        intro hnil; rw [hnil] at hlen; simp at hlen
      have hmp := hmpos (by omega) hne
      have hlen' : (s.rest.take m).length = m := by rw [List.length_take]; omega
      have hemp : (s.rest.take m).isEmpty = false := by
        rw [List.isEmpty_eq_false_iff]
        intro hnil; rw [hnil] at hlen'; simp at hlen'; omega
      have hstep : skipBytes.go (fuel + 1) (left + 1) s =
          skipBytes.go fuel (left + 1 - m) s1 := by
        simp [skipBytes.go, hrs, hemp, hlen']
      rw [hstep]
      have := ih (left + 1 - m) s1 hadv.wf (by rw [hadv.limit, hlim]; rfl) (by omega)
        (by rw [hadv.length]; omega)
      have := hadv.trans this
      rwa [show m + (left + 1 - m) = left + 1 by omega] at this

theorem skipBytes_spec (n : Nat) (s : RState) (h : s.WF) (hlim : s.limit = none) :
    (n ≤ s.rest.length → ∃ s', skipBytes n s = (.ok (), s') ∧ Adv n s s') ∧
    (s.rest.length < n → ∃ e s', skipBytes n s = (.error e, s')) := by
  by_cases hs : s.isSlice = true
  · constructor
    · intro hn
      refine ⟨{ s with rest := s.rest.drop n }, ?_, rfl, rfl, ?_, rfl, ?_⟩
      · simp [skipBytes, hs, hn]
      · simp [hlim]
      · intro hsl; simp [hs] at hsl
    · intro hn; exact ⟨.custom, s, by simp [skipBytes, hs, Nat.not_le.2 hn]⟩
  · have hs' : s.isSlice = false := by simpa using hs
    constructor
    · intro hn
      have e : min n s.rest.length = n := by omega
      refine ⟨skipBytes.go n n s, ?_, skipBytes_go_spec n n s h hlim (Nat.le_refl _) hn⟩
      simp [skipBytes, hs', e]
    · intro hn
      have e : min n s.rest.length ≠ n := by omega
      exact ⟨_, _, by simp only [skipBytes, hs', e]; rfl⟩
