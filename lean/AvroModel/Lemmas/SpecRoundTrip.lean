import AvroModel.Spec.Decode
/-
Round trip of the specification codec: decoding the canonical encoding of a value, with enough
fuel, returns the value and exactly the trailing bytes (`decode_encode`).
-/
namespace Avro.Spec
open Avro Avro.Impl

/-! ### a. `takeN` -/

theorem takeN_append (a rest : Bytes) : takeN a.length (a ++ rest) = some (a, rest) := by
  simp [takeN]

theorem takeN_append_of_length {n : Nat} (a rest : Bytes) (h : a.length = n) :
    takeN n (a ++ rest) = some (a, rest) := by
  subst h; exact takeN_append a rest

/-! ### b. lengths and length-prefixed byte strings -/

theorem inI64_of_lt {n : Nat} (h : n < 2 ^ 63) : InI64 (n : Int) := by
  unfold InI64; omega

/-- Why `encode` guards every length/count/index with `< 2 ^ 63`: a number outside the `long`
    range is written by `encodeLong` but rejected by `decodeLong`, so an unguarded `encode` would
    produce bytes that do not decode (e.g. for `Value.bytes (List.replicate (2 ^ 63) 0)` or
    `Value.bigDecimal 0 (2 ^ 63)`). -/
theorem decodeLong_encodeLong_of_not_inI64 (i : Int) (h : ¬ InI64 i) (rest : Bytes) :
    decodeLong (encodeLong i ++ rest) = none := by
  unfold decodeLong encodeLong
  rw [decodeNat_encodeNat]
  have : ¬ zigzag i < 2 ^ 64 := by
    unfold InI64 at h; unfold zigzag; split <;> omega
  simp [this]

theorem decodeLen_encodeLong (n : Nat) (h : n < 2 ^ 63) (rest : Bytes) :
    decodeLen (encodeLong n ++ rest) = some (n, rest) := by
  unfold decodeLen
  rw [decodeLong_encodeLong _ (inI64_of_lt h)]
  simp

theorem decodeBytes_lenPrefixed (b : Bytes) (h : b.length < 2 ^ 63) (rest : Bytes) :
    decodeBytes (lenPrefixed b ++ rest) = some (b, rest) := by
  unfold decodeBytes lenPrefixed
  rw [List.append_assoc, decodeLen_encodeLong _ h]
  exact takeN_append b rest

/-! ### c. UTF-8 -/

theorem fromUTF8?_utf8 (s : String) :
    String.fromUTF8? (ByteArray.mk (utf8 s).toArray) = some s := by
  have h : ByteArray.mk (utf8 s).toArray = s.toByteArray := by
    simp [utf8]
  rw [h, String.fromUTF8?]
  simp [s.isValidUTF8, String.fromUTF8]

theorem decodeString_lenPrefixed (s : String) (h : (utf8 s).length < 2 ^ 63) (rest : Bytes) :
    decodeString (lenPrefixed (utf8 s) ++ rest) = some (s, rest) := by
  unfold decodeString
  rw [decodeBytes_lenPrefixed _ h]
  simp only [fromUTF8?_utf8]

/-! ### d. floats -/

theorem float_bits_roundtrip (bits : BitVec 32) :
    BitVec.ofNat 32 (leToNat (leBytes 4 bits.toNat)) = bits := by
  rw [leToNat_leBytes]
  have := bits.isLt
  have h : bits.toNat % 256 ^ 4 = bits.toNat := Nat.mod_eq_of_lt (by omega)
  rw [h]; simp

theorem double_bits_roundtrip (bits : BitVec 64) :
    BitVec.ofNat 64 (leToNat (leBytes 8 bits.toNat)) = bits := by
  rw [leToNat_leBytes]
  have := bits.isLt
  have h : bits.toNat % 256 ^ 8 = bits.toNat := Nat.mod_eq_of_lt (by omega)
  rw [h]; simp

/-! ### e. two's complement -/

theorem leBytes_succ_snoc (n x : Nat) :
    leBytes (n + 1) x = leBytes n x ++ [UInt8.ofNat (x / 256 ^ n % 256)] := by
  induction n generalizing x with
  | zero => simp [leBytes]
  | succ n ih =>
    rw [leBytes, ih (x / 256)]
    conv => rhs; rw [leBytes]
    simp only [List.cons_append, Nat.div_div_eq_div_mul, Nat.pow_succ]
    rw [Nat.mul_comm 256 (256 ^ n)]

theorem beBytes_succ (n x : Nat) :
    beBytes (n + 1) x = UInt8.ofNat (x / 256 ^ n % 256) :: beBytes n x := by
  simp [beBytes, leBytes_succ_snoc]

theorem beBytes_length (n x : Nat) : (beBytes n x).length = n := by simp [beBytes]

theorem beToNat_beBytes (n x : Nat) : beToNat (beBytes n x) = x % 256 ^ n := by
  simp [beToNat, beBytes, leToNat_leBytes]

theorem twosComplementBE_length {n : Nat} {u : Int} {b : Bytes}
    (h : twosComplementBE n u = some b) : b.length = n := by
  unfold twosComplementBE at h
  split at h
  · split at h <;> simp_all
  · split at h
    · simp at h; subst h; exact beBytes_length _ _
    · simp at h

theorem pow2_8succ (m : Nat) : (2 : Int) ^ (8 * (m + 1)) = ((256 * 256 ^ m : Nat) : Int) := by
  have : (2 : Nat) ^ (8 * (m + 1)) = 256 * 256 ^ m := by
    rw [Nat.mul_succ, Nat.pow_add, Nat.pow_mul, (by decide : (2:Nat)^8 = 256)]; omega
  rw [← this]; simp

theorem pow2_8succ_pred (m : Nat) : (2 : Int) ^ (8 * (m + 1) - 1) = ((128 * 256 ^ m : Nat) : Int) := by
  have : (2 : Nat) ^ (8 * (m + 1) - 1) = 128 * 256 ^ m := by
    have : 8 * (m + 1) - 1 = 8 * m + 7 := by omega
    rw [this, Nat.pow_add, Nat.pow_mul, (by decide : (2:Nat)^8 = 256)]; omega
  rw [← this]; simp

theorem fromTwosComplementBE_of_twos {n : Nat} {u : Int} {b : Bytes}
    (h : twosComplementBE n u = some b) : fromTwosComplementBE b = u := by
  unfold twosComplementBE at h
  split at h
  · split at h
    · simp at h; subst h; simp [fromTwosComplementBE, *]
    · simp at h
  · rename_i hn
    split at h
    · rename_i hr
      simp at h
      obtain ⟨m, rfl⟩ : ∃ m, n = m + 1 := ⟨n - 1, by omega⟩
      rw [pow2_8succ_pred] at hr
      rw [pow2_8succ] at h
      have hQ : 0 < 256 ^ m := Nat.pow_pos (by omega)
      subst h
      have hbe := beToNat_beBytes (m + 1) (u % ((256 * 256 ^ m : Nat) : Int)).toNat
      have hlen := beBytes_length (m + 1) (u % ((256 * 256 ^ m : Nat) : Int)).toNat
      rw [beBytes_succ] at hbe hlen ⊢
      simp only [fromTwosComplementBE, hbe, hlen, pow2_8succ]
      rw [Nat.pow_succ, Nat.mul_comm (256 ^ m) 256]
      generalize 256 ^ m = Q at *
      generalize hx : (u % ((256 * Q : Nat) : Int)).toNat = x
      have hM : (0 : Int) < ((256 * Q : Nat) : Int) := by omega
      have hx0 : 0 ≤ u % ((256 * Q : Nat) : Int) := Int.emod_nonneg _ (by omega)
      have hx1 : u % ((256 * Q : Nat) : Int) < ((256 * Q : Nat) : Int) := Int.emod_lt_of_pos _ hM
      have hxlt : x < 256 * Q := by omega
      have hxu : (x : Int) = if 0 ≤ u then u else u + ((256 * Q : Nat) : Int) := by
        rw [← hx, Int.toNat_of_nonneg hx0]
        split
        · exact Int.emod_eq_of_lt (by omega) (by omega)
        · rw [← Int.add_emod_right]; exact Int.emod_eq_of_lt (by omega) (by omega)
      have hdiv : x / Q < 256 := (Nat.div_lt_iff_lt_mul hQ).2 hxlt
      have htop : (UInt8.ofNat (x / Q % 256)).toNat = x / Q := by
        simp [UInt8.toNat_ofNat']; omega
      have hge : 128 ≤ x / Q ↔ 128 * Q ≤ x := Nat.le_div_iff_mul_le hQ
      rw [htop, Nat.mod_eq_of_lt hxlt]
      split
      · rename_i hc; have := hge.1 hc; split at hxu <;> omega
      · rename_i hc; have : ¬ 128 * Q ≤ x := fun h => hc (hge.2 h); split at hxu <;> omega
    · simp at h

theorem minimalLen_go_le (v : Int) (fuel n : Nat) : minimalLen.go v fuel n ≤ fuel + n := by
  induction fuel generalizing n with
  | zero => simp [minimalLen.go]
  | succ f ih =>
    rw [minimalLen.go]
    split
    · omega
    · have := ih (n + 1); omega

theorem minimalLen_le (v : Int) : minimalLen v ≤ 65 := by
  unfold minimalLen; exact minimalLen_go_le v 64 1

/-! ### f. duration -/

theorem duration_roundtrip (mo d ms : Nat) (h1 : mo < 2 ^ 32) (h2 : d < 2 ^ 32) (h3 : ms < 2 ^ 32)
    (rest : Bytes) :
    (takeN 12 (leBytes 4 mo ++ leBytes 4 d ++ leBytes 4 ms ++ rest)).map
      (fun (b, rest) =>
        (Value.duration (leToNat (b.take 4)) (leToNat ((b.drop 4).take 4)) (leToNat (b.drop 8)), rest))
      = some (.duration mo d ms, rest) := by
  rw [takeN_append_of_length _ _ (by simp)]
  have e1 : leToNat (leBytes 4 mo) = mo := by rw [leToNat_leBytes]; exact Nat.mod_eq_of_lt (by omega)
  have e2 : leToNat (leBytes 4 d) = d := by rw [leToNat_leBytes]; exact Nat.mod_eq_of_lt (by omega)
  have e3 : leToNat (leBytes 4 ms) = ms := by rw [leToNat_leBytes]; exact Nat.mod_eq_of_lt (by omega)
  have t1 : (leBytes 4 mo ++ leBytes 4 d ++ leBytes 4 ms).take 4 = leBytes 4 mo := by
    rw [List.append_assoc, List.take_append_of_le_length (by simp), List.take_of_length_le (by simp)]
  have t2 : (leBytes 4 mo ++ leBytes 4 d ++ leBytes 4 ms).drop 4 = leBytes 4 d ++ leBytes 4 ms := by
    rw [List.append_assoc, List.drop_append_of_le_length (by simp), List.drop_of_length_le (by simp)]
    simp
  have t3 : (leBytes 4 d ++ leBytes 4 ms).take 4 = leBytes 4 d := by
    rw [List.take_append_of_le_length (by simp), List.take_of_length_le (by simp)]
  have t4 : (leBytes 4 mo ++ leBytes 4 d ++ leBytes 4 ms).drop 8 = leBytes 4 ms := by
    have : (8 : Nat) = 4 + 4 := rfl
    rw [this, ← List.drop_drop, t2, List.drop_append_of_le_length (by simp), List.drop_of_length_le (by simp)]
    simp
  simp only [Option.map_some, t1, t2, t3, t4, e1, e2, e3]

/-! ### g. block headers -/

theorem decodeBlockHeader_encodeLong (n : Nat) (h : n < 2 ^ 63) (rest : Bytes) :
    decodeBlockHeader (encodeLong n ++ rest) = some (n, rest) := by
  unfold decodeBlockHeader
  rw [decodeLong_encodeLong _ (inI64_of_lt h)]
  simp

theorem decodeBlockHeader_zero (rest : Bytes) :
    decodeBlockHeader ((0 : UInt8) :: rest) = some (0, rest) := by
  have := decodeBlockHeader_encodeLong 0 (by omega) rest
  have e : encodeLong ((0 : Nat) : Int) = [0] := by
    unfold encodeLong zigzag; simp; unfold encodeNat; simp
  rw [e] at this
  exact this

/-! ### the fuel measure -/

mutual
def size : Value → Nat
  | .null => 1
  | .bool _ => 1
  | .int _ => 1
  | .long _ => 1
  | .float _ => 1
  | .double _ => 1
  | .bytes _ => 1
  | .string _ => 1
  | .array items => 3 + sizeItems items
  | .map entries => 3 + sizeEntries entries
  | .union _ v => 1 + size v
  | .record fields => 1 + sizeItems fields
  | .enum _ => 1
  | .fixed _ => 1
  | .decimal _ => 1
  | .bigDecimal _ _ => 1
  | .duration _ _ _ => 1
def sizeItems : List Value → Nat
  | [] => 0
  | v :: vs => 1 + size v + sizeItems vs
def sizeEntries : List (String × Value) → Nat
  | [] => 0
  | (_, v) :: es => 1 + size v + sizeEntries es
end

theorem size_pos (v : Value) : 0 < size v := by
  cases v <;> simp [size] <;> omega

theorem size_lt_sizeItems {v : Value} {l : List Value} (h : v ∈ l) : size v < sizeItems l := by
  induction l with
  | nil => cases h
  | cons a l ih =>
    rw [sizeItems]
    rcases List.mem_cons.1 h with rfl | h
    · omega
    · have := ih h; omega

theorem size_lt_sizeEntries {k : String} {v : Value} {l : List (String × Value)} (h : (k, v) ∈ l) :
    size v < sizeEntries l := by
  induction l with
  | nil => cases h
  | cons a l ih =>
    obtain ⟨k', v'⟩ := a
    rw [sizeEntries]
    rcases List.mem_cons.1 h with h | h
    · cases h; omega
    · have := ih h; omega

/-! ### h. the induction -/

/-- Round-trip property of one value (at every node, for every trailing input and enough fuel). -/
def RoundTrips (S : Schema) (v : Value) : Prop :=
  ∀ (n : Node) (enc rest : Bytes) (fuel : Nat),
    encode S n v = some enc → size v ≤ fuel → decode S fuel n (enc ++ rest) = some (v, rest)

theorem decodeItems_encodeItems (S : Schema) (item : Node) :
    ∀ (l : List Value), (∀ v ∈ l, RoundTrips S v) → ∀ (enc rest : Bytes) (fuel : Nat),
      encodeItems S item l = some enc → sizeItems l ≤ fuel →
      decodeItems S fuel item l.length (enc ++ rest) = some (l, rest) := by
  intro l
  induction l with
  | nil =>
    intro _ enc rest fuel henc _
    simp only [encodeItems, Option.some.injEq] at henc
    subst henc
    simp [decodeItems]
  | cons v vs ih =>
    intro hall enc rest fuel henc hfuel
    rw [sizeItems] at hfuel
    obtain ⟨f, rfl⟩ : ∃ f, fuel = f + 1 := ⟨fuel - 1, by omega⟩
    rw [encodeItems] at henc
    split at henc
    · simp at henc
    · rename_i a ha
      split at henc
      · simp at henc
      · rename_i b hb
        simp only [Option.some.injEq] at henc
        subst henc
        have h1 := hall v (List.mem_cons_self ..) item a (b ++ rest) f ha (by omega)
        have h2 := ih (fun w hw => hall w (List.mem_cons_of_mem _ hw)) b rest f hb (by omega)
        simp only [List.length_cons, decodeItems, List.append_assoc, h1, h2]

theorem decodeMapItems_encodeEntries (S : Schema) (item : Node) :
    ∀ (l : List (String × Value)), (∀ e ∈ l, RoundTrips S e.2) → ∀ (enc rest : Bytes) (fuel : Nat),
      encodeEntries S item l = some enc → sizeEntries l ≤ fuel →
      decodeMapItems S fuel item l.length (enc ++ rest) = some (l, rest) := by
  intro l
  induction l with
  | nil =>
    intro _ enc rest fuel henc _
    simp only [encodeEntries, Option.some.injEq] at henc
    subst henc
    simp [decodeMapItems]
  | cons e es ih =>
    obtain ⟨k, v⟩ := e
    intro hall enc rest fuel henc hfuel
    rw [sizeEntries] at hfuel
    obtain ⟨f, rfl⟩ : ∃ f, fuel = f + 1 := ⟨fuel - 1, by omega⟩
    rw [encodeEntries] at henc
    split at henc
    · simp at henc
    · rename_i a ha
      split at henc
      · simp at henc
      · rename_i b hb
        split at henc
        · rename_i hk
          simp only [Option.some.injEq] at henc
          subst henc
          have h1 := hall (k, v) (List.mem_cons_self ..) item a (b ++ rest) f ha (by show size v ≤ f; omega)
          have h2 := ih (fun w hw => hall w (List.mem_cons_of_mem _ hw)) b rest f hb (by omega)
          simp only [List.length_cons, decodeMapItems, List.append_assoc,
            decodeString_lenPrefixed k hk, h1, h2]
        · simp at henc

theorem decodeFields_encodeFields (S : Schema) :
    ∀ (l : List Value), (∀ v ∈ l, RoundTrips S v) → ∀ (ks : List Nat) (enc rest : Bytes) (fuel : Nat),
      encodeFields S ks l = some enc → sizeItems l ≤ fuel →
      decodeFields S fuel ks (enc ++ rest) = some (l, rest) := by
  intro l
  induction l with
  | nil =>
    intro _ ks enc rest fuel henc _
    cases ks with
    | nil =>
      simp only [encodeFields, Option.some.injEq] at henc
      subst henc
      simp [decodeFields]
    | cons k ks => simp [encodeFields] at henc
  | cons v vs ih =>
    intro hall ks enc rest fuel henc hfuel
    rw [sizeItems] at hfuel
    obtain ⟨f, rfl⟩ : ∃ f, fuel = f + 1 := ⟨fuel - 1, by omega⟩
    cases ks with
    | nil => simp [encodeFields] at henc
    | cons k ks =>
      rw [encodeFields] at henc
      split at henc
      · simp at henc
      · rename_i n hn
        split at henc
        · simp at henc
        · rename_i a ha
          split at henc
          · simp at henc
          · rename_i b hb
            simp only [Option.some.injEq] at henc
            subst henc
            have h1 := hall v (List.mem_cons_self ..) n a (b ++ rest) f ha (by omega)
            have h2 := ih (fun w hw => hall w (List.mem_cons_of_mem _ hw)) ks b rest f hb (by omega)
            simp only [decodeFields, hn, List.append_assoc, h1, h2]

theorem decodeBlocks_single (S : Schema) (f : Nat) (item : Node) (c : Nat) (body : Bytes)
    (vs : List Value) (rest : Bytes) (hc : 0 < c) (hc' : c < 2 ^ 63)
    (h : decodeItems S (f + 1) item c (body ++ (0 : UInt8) :: rest) = some (vs, (0 : UInt8) :: rest)) :
    decodeBlocks S (f + 1 + 1) item (encodeLong c ++ (body ++ (0 : UInt8) :: rest)) = some (vs, rest) := by
  obtain ⟨c', rfl⟩ : ∃ c', c = c' + 1 := ⟨c - 1, by omega⟩
  rw [decodeBlocks, decodeBlockHeader_encodeLong _ hc']
  simp only [h]
  rw [decodeBlocks, decodeBlockHeader_zero]
  simp

theorem decodeMapBlocks_single (S : Schema) (f : Nat) (item : Node) (c : Nat) (body : Bytes)
    (vs : List (String × Value)) (rest : Bytes) (hc : 0 < c) (hc' : c < 2 ^ 63)
    (h : decodeMapItems S (f + 1) item c (body ++ (0 : UInt8) :: rest) = some (vs, (0 : UInt8) :: rest)) :
    decodeMapBlocks S (f + 1 + 1) item (encodeLong c ++ (body ++ (0 : UInt8) :: rest)) = some (vs, rest) := by
  obtain ⟨c', rfl⟩ : ∃ c', c = c' + 1 := ⟨c - 1, by omega⟩
  rw [decodeMapBlocks, decodeBlockHeader_encodeLong _ hc']
  simp only [h]
  rw [decodeMapBlocks, decodeBlockHeader_zero]
  simp

theorem roundTrips_of_size_le (S : Schema) : ∀ (N : Nat) (v : Value), size v ≤ N → RoundTrips S v := by
  intro N
  induction N with
  | zero => intro v hv; have := size_pos v; omega
  | succ N ih =>
    intro v hv n enc rest fuel henc hfuel
    have hpos := size_pos v
    obtain ⟨f, rfl⟩ : ∃ f, fuel = f + 1 := ⟨fuel - 1, by omega⟩
    cases v with
    | null =>
      simp only [encode] at henc
      split at henc <;> simp at henc
      subst henc
      simp [decode]
    | bool b =>
      simp only [encode] at henc
      split at henc <;> simp at henc
      subst henc
      cases b <;> simp [decode]
    | int i =>
      simp only [encode] at henc
      split at henc <;> simp at henc
      all_goals
        obtain ⟨h32, rfl⟩ := henc
        have h64 : InI64 i := by unfold InI32 at h32; unfold InI64; omega
        simp [decode, decodeLong_encodeLong i h64, h32]
    | long i =>
      simp only [encode] at henc
      split at henc <;> simp at henc
      all_goals
        obtain ⟨h64, rfl⟩ := henc
        simp [decode, decodeLong_encodeLong i h64]
    | float bits =>
      simp only [encode] at henc
      split at henc <;> simp at henc
      subst henc
      simp [decode, takeN_append_of_length, float_bits_roundtrip]
    | double bits =>
      simp only [encode] at henc
      split at henc <;> simp at henc
      subst henc
      simp [decode, takeN_append_of_length, double_bits_roundtrip]
    | bytes b =>
      simp only [encode] at henc
      split at henc <;> simp at henc
      obtain ⟨hl, rfl⟩ := henc
      simp [decode, decodeBytes_lenPrefixed b hl]
    | string s =>
      simp only [encode] at henc
      split at henc <;> simp at henc
      all_goals
        obtain ⟨hl, rfl⟩ := henc
        simp [decode, decodeString_lenPrefixed s hl]
    | enum idx =>
      simp only [encode] at henc
      split at henc <;> simp at henc
      obtain ⟨⟨hi, hl⟩, rfl⟩ := henc
      simp [decode, decodeLen_encodeLong idx hl, hi]
    | fixed b =>
      simp only [encode] at henc
      split at henc <;> simp at henc
      obtain ⟨hl, rfl⟩ := henc
      simp [decode, takeN_append_of_length _ _ hl]
    | decimal u =>
      simp only [encode] at henc
      split at henc
      · simp only [Option.map_eq_some_iff] at henc
        obtain ⟨m, hm, rfl⟩ := henc
        have hlen := twosComplementBE_length hm
        have := minimalLen_le u
        simp [decode, decodeBytes_lenPrefixed m (by omega), fromTwosComplementBE_of_twos hm]
      · have hlen := twosComplementBE_length henc
        simp [decode, takeN_append_of_length _ _ hlen, fromTwosComplementBE_of_twos henc]
      · simp at henc
    | bigDecimal u scale =>
      simp only [encode] at henc
      split at henc
      · split at henc
        · rename_i hs
          simp only [Option.map_eq_some_iff] at henc
          obtain ⟨m, hm, rfl⟩ := henc
          have hlen := twosComplementBE_length hm
          have := minimalLen_le u
          have hml : m.length < 2 ^ 63 := by omega
          have hz : zigzag (scale : Int) < 128 ^ 10 := by
            have := zigzag_lt_of_inI64 (inI64_of_lt hs); omega
          have hz2 : zigzag ((m.length : Nat) : Int) < 128 ^ 10 := by
            have := zigzag_lt_of_inI64 (inI64_of_lt hml); omega
          have hsl : (encodeLong scale).length ≤ 10 := encodeNat_length_le _ 10 (by omega) hz
          have hsl2 : (encodeLong m.length).length ≤ 10 := encodeNat_length_le _ 10 (by omega) hz2
          have hin : (lenPrefixed m ++ encodeLong scale).length < 2 ^ 63 := by
            simp only [lenPrefixed, List.length_append]; omega
          have h3 := decodeLen_encodeLong scale hs []
          rw [List.append_nil] at h3
          simp [decode, decodeBytes_lenPrefixed _ hin, decodeBytes_lenPrefixed m hml, h3,
            fromTwosComplementBE_of_twos hm]
        · simp at henc
      · simp at henc
    | duration mo d ms =>
      simp only [encode] at henc
      split at henc <;> simp at henc
      obtain ⟨⟨h1, h2, h3⟩, rfl⟩ := henc
      have := duration_roundtrip mo d ms h1 h2 h3 rest
      simp only [decode]
      simpa using this
    | array items =>
      simp only [encode] at henc
      split at henc
      · rename_i k
        split at henc
        · simp at henc
        · rename_i item hitem
          split at henc
          · simp at henc
          · rename_i body hbody
            split at henc
            · rename_i hlen
              simp only [Option.some.injEq] at henc
              subst henc
              rw [size] at hv hfuel
              obtain ⟨f1, rfl⟩ : ∃ f1, f = f1 + 1 := ⟨f - 1, by omega⟩
              obtain ⟨f2, rfl⟩ : ∃ f2, f1 = f2 + 1 := ⟨f1 - 1, by omega⟩
              simp only [decode, hitem]
              cases items with
              | nil =>
                simp only [encodeItems, Option.some.injEq] at hbody
                subst hbody
                simp [decodeBlocks, decodeBlockHeader_zero]
              | cons a l =>
                have hall : ∀ w ∈ a :: l, RoundTrips S w := fun w hw =>
                  ih w (by have := size_lt_sizeItems hw; omega)
                have h1 := decodeItems_encodeItems S item (a :: l) hall body ((0 : UInt8) :: rest)
                  (f2 + 1) hbody (by omega)
                have h2 := decodeBlocks_single S f2 item (a :: l).length body (a :: l) rest
                  (by simp) hlen h1
                simp only [List.isEmpty_cons, Bool.false_eq_true, if_false, List.append_assoc,
                  List.cons_append, List.nil_append, h2, Option.map_some]
            · simp at henc
      · simp at henc
    | map entries =>
      simp only [encode] at henc
      split at henc
      · rename_i k
        split at henc
        · simp at henc
        · rename_i item hitem
          split at henc
          · simp at henc
          · rename_i body hbody
            split at henc
            · rename_i hlen
              simp only [Option.some.injEq] at henc
              subst henc
              rw [size] at hv hfuel
              obtain ⟨f1, rfl⟩ : ∃ f1, f = f1 + 1 := ⟨f - 1, by omega⟩
              obtain ⟨f2, rfl⟩ : ∃ f2, f1 = f2 + 1 := ⟨f1 - 1, by omega⟩
              simp only [decode, hitem]
              cases entries with
              | nil =>
                simp only [encodeEntries, Option.some.injEq] at hbody
                subst hbody
                simp [decodeMapBlocks, decodeBlockHeader_zero]
              | cons a l =>
                have hall : ∀ e ∈ a :: l, RoundTrips S e.2 := fun e he =>
                  ih e.2 (by have := size_lt_sizeEntries (k := e.1) (v := e.2) he; omega)
                have h1 := decodeMapItems_encodeEntries S item (a :: l) hall body
                  ((0 : UInt8) :: rest) (f2 + 1) hbody (by omega)
                have h2 := decodeMapBlocks_single S f2 item (a :: l).length body (a :: l) rest
                  (by simp) hlen h1
                simp only [List.isEmpty_cons, Bool.false_eq_true, if_false, List.append_assoc,
                  List.cons_append, List.nil_append, h2, Option.map_some]
            · simp at henc
      · simp at henc
    | union idx v =>
      simp only [encode] at henc
      split at henc
      · rename_i vs
        split at henc
        · simp at henc
        · rename_i k hk
          split at henc
          · simp at henc
          · rename_i branch hbranch
            split at henc
            · simp at henc
            · rename_i body hbody
              split at henc
              · rename_i hidx
                simp only [Option.some.injEq] at henc
                subst henc
                rw [size] at hv hfuel
                have h1 := ih v (by omega) branch body rest f hbody (by omega)
                simp [decode, decodeLen_encodeLong idx hidx, hk, hbranch, h1]
              · simp at henc
      · simp at henc
    | record fields =>
      simp only [encode] at henc
      split at henc
      · rename_i nm fs
        rw [size] at hv hfuel
        have hall : ∀ w ∈ fields, RoundTrips S w := fun w hw =>
          ih w (by have := size_lt_sizeItems hw; omega)
        have h1 := decodeFields_encodeFields S fields hall _ enc rest f henc (by omega)
        simp [decode, h1]
      · simp at henc

/-- MAIN THEOREM: decoding the canonical encoding, followed by any trailing bytes, with fuel at
    least `size v`, returns the value and exactly the trailing bytes. -/
theorem decode_encode (S : Schema) (n : Node) (v : Value) (enc rest : Bytes)
    (h : encode S n v = some enc) (fuel : Nat) (hf : size v ≤ fuel) :
    decode S fuel n (enc ++ rest) = some (v, rest) :=
  roundTrips_of_size_le S (size v) v (Nat.le_refl _) n enc rest fuel h hf

theorem decode_encode_nil (S : Schema) (n : Node) (v : Value) (enc : Bytes)
    (h : encode S n v = some enc) (fuel : Nat) (hf : size v ≤ fuel) :
    decode S fuel n enc = some (v, []) := by
  have := decode_encode S n v enc [] h fuel hf
  rwa [List.append_nil] at this

/-! ### Locality of the decoder: a successful parse depends only on the bytes it consumed -/

/-- `p` is a prefix parser: on success the input is `consumed ++ remainder`, and replacing the
    remainder by anything gives the same result with the new remainder. -/
def Local {α : Type} (p : Bytes → Option (α × Bytes)) : Prop :=
  ∀ bs a r, p bs = some (a, r) → ∃ c, bs = c ++ r ∧ ∀ r', p (c ++ r') = some (a, r')

theorem takeN_local (n : Nat) : Local (takeN n) := by
  intro bs a r h
  unfold takeN at h
  split at h
  · rename_i hn
    simp only [Option.some.injEq, Prod.mk.injEq] at h
    obtain ⟨rfl, rfl⟩ := h
    refine ⟨bs.take n, (List.take_append_drop n bs).symm, fun r' => ?_⟩
    exact takeN_append_of_length _ _ (by simp; omega)
  · simp at h

theorem decodeNat_local : Local decodeNat := by
  intro bs
  induction bs with
  | nil => intro a r h; simp [decodeNat] at h
  | cons b bs ih =>
    intro a r h
    rw [decodeNat] at h
    split at h
    · rename_i hb
      simp only [Option.some.injEq, Prod.mk.injEq] at h
      obtain ⟨rfl, rfl⟩ := h
      exact ⟨[b], rfl, fun r' => by simp [decodeNat, hb]⟩
    · rename_i hb
      split at h
      · simp at h
      · rename_i v rest' hd
        simp only [Option.some.injEq, Prod.mk.injEq] at h
        obtain ⟨rfl, rfl⟩ := h
        obtain ⟨c, rfl, hc⟩ := ih _ _ hd
        exact ⟨b :: c, rfl, fun r' => by simp [decodeNat, hb, hc r']⟩

theorem decodeLong_local : Local decodeLong := by
  intro bs a r h
  unfold decodeLong at h
  split at h
  · simp at h
  · rename_i n rest hd
    split at h
    · rename_i hn
      simp only [Option.some.injEq, Prod.mk.injEq] at h
      obtain ⟨rfl, rfl⟩ := h
      obtain ⟨c, rfl, hc⟩ := decodeNat_local _ _ _ hd
      exact ⟨c, rfl, fun r' => by simp [decodeLong, hc r', hn]⟩
    · simp at h

theorem decodeLen_local : Local decodeLen := by
  intro bs a r h
  unfold decodeLen at h
  split at h
  · rename_i i rest hd
    split at h
    · rename_i hi
      simp only [Option.some.injEq, Prod.mk.injEq] at h
      obtain ⟨rfl, rfl⟩ := h
      obtain ⟨c, rfl, hc⟩ := decodeLong_local _ _ _ hd
      exact ⟨c, rfl, fun r' => by simp [decodeLen, hc r', hi]⟩
    · simp at h
  · simp at h

theorem decodeBlockHeader_local : Local decodeBlockHeader := by
  intro bs a r h
  unfold decodeBlockHeader at h
  split at h
  · simp at h
  · rename_i cnt rest hd
    obtain ⟨c, rfl, hc⟩ := decodeLong_local _ _ _ hd
    split at h
    · rename_i hi
      simp only [Option.some.injEq, Prod.mk.injEq] at h
      obtain ⟨rfl, rfl⟩ := h
      exact ⟨c, rfl, fun r' => by simp [decodeBlockHeader, hc r', hi]⟩
    · rename_i hi
      split at h
      · simp at h
      · rename_i sz rest' hd2
        obtain ⟨c2, rfl, hc2⟩ := decodeLong_local _ _ _ hd2
        split at h
        · rename_i hs
          simp only [Option.some.injEq, Prod.mk.injEq] at h
          obtain ⟨rfl, rfl⟩ := h
          refine ⟨c ++ c2, by simp, fun r' => ?_⟩
          simp [decodeBlockHeader, hc (c2 ++ r'), hi, hc2 r', hs]
        · simp at h

theorem decodeBytes_local : Local decodeBytes := by
  intro bs a r h
  unfold decodeBytes at h
  split at h
  · rename_i n rest hd
    obtain ⟨c, rfl, hc⟩ := decodeLen_local _ _ _ hd
    obtain ⟨c2, rfl, hc2⟩ := takeN_local n _ _ _ h
    exact ⟨c ++ c2, by simp, fun r' => by simp [decodeBytes, hc (c2 ++ r'), hc2 r']⟩
  · simp at h

theorem decodeString_local : Local decodeString := by
  intro bs a r h
  unfold decodeString at h
  split at h
  · rename_i b rest hd
    obtain ⟨c, rfl, hc⟩ := decodeBytes_local _ _ _ hd
    split at h
    · rename_i s hs
      simp only [Option.some.injEq, Prod.mk.injEq] at h
      obtain ⟨rfl, rfl⟩ := h
      exact ⟨c, rfl, fun r' => by simp [decodeString, hc r', hs]⟩
    · simp at h
  · simp at h

/-- Locality and fuel monotonicity of a fuel-indexed parser at a given fuel. -/
def LocalF {α : Type} (p : Nat → Bytes → Option (α × Bytes)) (fuel : Nat) : Prop :=
  ∀ bs a r, p fuel bs = some (a, r) →
    ∃ c, bs = c ++ r ∧ ∀ r' fuel', fuel ≤ fuel' → p fuel' (c ++ r') = some (a, r')

structure LocAll (S : Schema) (fuel : Nat) : Prop where
  dec : ∀ n, LocalF (fun f => decode S f n) fuel
  blocks : ∀ item, LocalF (fun f => decodeBlocks S f item) fuel
  items : ∀ item k, LocalF (fun f => decodeItems S f item k) fuel
  mblocks : ∀ item, LocalF (fun f => decodeMapBlocks S f item) fuel
  mitems : ∀ item k, LocalF (fun f => decodeMapItems S f item k) fuel
  fields : ∀ ks, LocalF (fun f => decodeFields S f ks) fuel

theorem exists_succ_of_le {a b : Nat} (h : a + 1 ≤ b) : ∃ g, b = g + 1 ∧ a ≤ g :=
  ⟨b - 1, by omega, by omega⟩

theorem locAll_zero (S : Schema) : LocAll S 0 where
  dec := by intro n bs a r h; simp [decode] at h
  blocks := by intro item bs a r h; simp [decodeBlocks] at h
  mblocks := by intro item bs a r h; simp [decodeMapBlocks] at h
  items := by
    intro item k bs a r h
    cases k with
    | zero =>
      simp only [decodeItems, Option.some.injEq, Prod.mk.injEq] at h
      obtain ⟨rfl, rfl⟩ := h
      exact ⟨[], rfl, fun r' fuel' _ => by simp [decodeItems]⟩
    | succ k => simp [decodeItems] at h
  mitems := by
    intro item k bs a r h
    cases k with
    | zero =>
      simp only [decodeMapItems, Option.some.injEq, Prod.mk.injEq] at h
      obtain ⟨rfl, rfl⟩ := h
      exact ⟨[], rfl, fun r' fuel' _ => by simp [decodeMapItems]⟩
    | succ k => simp [decodeMapItems] at h
  fields := by
    intro ks bs a r h
    cases ks with
    | nil =>
      simp only [decodeFields, Option.some.injEq, Prod.mk.injEq] at h
      obtain ⟨rfl, rfl⟩ := h
      exact ⟨[], rfl, fun r' fuel' _ => by simp [decodeFields]⟩
    | cons k ks => simp [decodeFields] at h

theorem locAll_succ_items (S : Schema) (fuel : Nat) (ih : LocAll S fuel) :
    ∀ item k, LocalF (fun f => decodeItems S f item k) (fuel + 1) := by
  intro item k bs a r h
  cases k with
  | zero =>
    simp only [decodeItems, Option.some.injEq, Prod.mk.injEq] at h
    obtain ⟨rfl, rfl⟩ := h
    exact ⟨[], rfl, fun r' fuel' _ => by simp [decodeItems]⟩
  | succ k =>
    simp only [decodeItems] at h
    split at h
    · simp at h
    · rename_i v rest hd
      split at h
      · simp at h
      · rename_i vs rest' hd2
        simp only [Option.some.injEq, Prod.mk.injEq] at h
        obtain ⟨rfl, rfl⟩ := h
        obtain ⟨c1, rfl, h1⟩ := ih.dec item _ _ _ hd
        obtain ⟨c2, rfl, h2⟩ := ih.items item k _ _ _ hd2
        refine ⟨c1 ++ c2, by simp, fun r' fuel' hf => ?_⟩
        obtain ⟨g, rfl, hg⟩ := exists_succ_of_le hf
        have e1 := h1 (c2 ++ r') g hg
        have e2 := h2 r' g hg
        simp only at e1 e2
        simp only [decodeItems, List.append_assoc, e1, e2]

theorem locAll_succ_mitems (S : Schema) (fuel : Nat) (ih : LocAll S fuel) :
    ∀ item k, LocalF (fun f => decodeMapItems S f item k) (fuel + 1) := by
  intro item k bs a r h
  cases k with
  | zero =>
    simp only [decodeMapItems, Option.some.injEq, Prod.mk.injEq] at h
    obtain ⟨rfl, rfl⟩ := h
    exact ⟨[], rfl, fun r' fuel' _ => by simp [decodeMapItems]⟩
  | succ k =>
    simp only [decodeMapItems] at h
    split at h
    · simp at h
    · rename_i key rest0 hd0
      split at h
      · simp at h
      · rename_i v rest hd
        split at h
        · simp at h
        · rename_i vs rest' hd2
          simp only [Option.some.injEq, Prod.mk.injEq] at h
          obtain ⟨rfl, rfl⟩ := h
          obtain ⟨c0, rfl, h0⟩ := decodeString_local _ _ _ hd0
          obtain ⟨c1, rfl, h1⟩ := ih.dec item _ _ _ hd
          obtain ⟨c2, rfl, h2⟩ := ih.mitems item k _ _ _ hd2
          refine ⟨c0 ++ c1 ++ c2, by simp, fun r' fuel' hf => ?_⟩
          obtain ⟨g, rfl, hg⟩ := exists_succ_of_le hf
          have e1 := h1 (c2 ++ r') g hg
          have e2 := h2 r' g hg
          simp only at e1 e2
          simp only [decodeMapItems, List.append_assoc, h0, e1, e2]

theorem locAll_succ_fields (S : Schema) (fuel : Nat) (ih : LocAll S fuel) :
    ∀ ks, LocalF (fun f => decodeFields S f ks) (fuel + 1) := by
  intro ks bs a r h
  cases ks with
  | nil =>
    simp only [decodeFields, Option.some.injEq, Prod.mk.injEq] at h
    obtain ⟨rfl, rfl⟩ := h
    exact ⟨[], rfl, fun r' fuel' _ => by simp [decodeFields]⟩
  | cons k ks =>
    simp only [decodeFields] at h
    split at h
    · simp at h
    · rename_i n hn
      split at h
      · simp at h
      · rename_i v rest hd
        split at h
        · simp at h
        · rename_i vs rest' hd2
          simp only [Option.some.injEq, Prod.mk.injEq] at h
          obtain ⟨rfl, rfl⟩ := h
          obtain ⟨c1, rfl, h1⟩ := ih.dec n _ _ _ hd
          obtain ⟨c2, rfl, h2⟩ := ih.fields ks _ _ _ hd2
          refine ⟨c1 ++ c2, by simp, fun r' fuel' hf => ?_⟩
          obtain ⟨g, rfl, hg⟩ := exists_succ_of_le hf
          have e1 := h1 (c2 ++ r') g hg
          have e2 := h2 r' g hg
          simp only at e1 e2
          simp only [decodeFields, hn, List.append_assoc, e1, e2]

theorem locAll_succ_blocks (S : Schema) (fuel : Nat) (ih : LocAll S fuel) :
    ∀ item, LocalF (fun f => decodeBlocks S f item) (fuel + 1) := by
  intro item bs a r h
  simp only [decodeBlocks] at h
  split at h
  · simp at h
  · rename_i rest hd
    simp only [Option.some.injEq, Prod.mk.injEq] at h
    obtain ⟨rfl, rfl⟩ := h
    obtain ⟨c0, rfl, h0⟩ := decodeBlockHeader_local _ _ _ hd
    refine ⟨c0, rfl, fun r' fuel' hf => ?_⟩
    obtain ⟨g, rfl, hg⟩ := exists_succ_of_le hf
    simp only [decodeBlocks, h0]
  · rename_i cnt rest hne hd
    split at h
    · simp at h
    · rename_i vs rest' hd1
      split at h
      · simp at h
      · rename_i more rest'' hd2
        simp only [Option.some.injEq, Prod.mk.injEq] at h
        obtain ⟨rfl, rfl⟩ := h
        obtain ⟨c0, rfl, h0⟩ := decodeBlockHeader_local _ _ _ hd
        obtain ⟨c1, rfl, h1⟩ := ih.items item cnt _ _ _ hd1
        obtain ⟨c2, rfl, h2⟩ := ih.blocks item _ _ _ hd2
        refine ⟨c0 ++ c1 ++ c2, by simp, fun r' fuel' hf => ?_⟩
        obtain ⟨g, rfl, hg⟩ := exists_succ_of_le hf
        have e1 := h1 (c2 ++ r') g hg
        have e2 := h2 r' g hg
        simp only at e1 e2
        cases cnt with
        | zero => exact (hne rfl).elim
        | succ cnt => simp only [decodeBlocks, List.append_assoc, h0, e1, e2]

theorem locAll_succ_mblocks (S : Schema) (fuel : Nat) (ih : LocAll S fuel) :
    ∀ item, LocalF (fun f => decodeMapBlocks S f item) (fuel + 1) := by
  intro item bs a r h
  simp only [decodeMapBlocks] at h
  split at h
  · simp at h
  · rename_i rest hd
    simp only [Option.some.injEq, Prod.mk.injEq] at h
    obtain ⟨rfl, rfl⟩ := h
    obtain ⟨c0, rfl, h0⟩ := decodeBlockHeader_local _ _ _ hd
    refine ⟨c0, rfl, fun r' fuel' hf => ?_⟩
    obtain ⟨g, rfl, hg⟩ := exists_succ_of_le hf
    simp only [decodeMapBlocks, h0]
  · rename_i cnt rest hne hd
    split at h
    · simp at h
    · rename_i vs rest' hd1
      split at h
      · simp at h
      · rename_i more rest'' hd2
        simp only [Option.some.injEq, Prod.mk.injEq] at h
        obtain ⟨rfl, rfl⟩ := h
        obtain ⟨c0, rfl, h0⟩ := decodeBlockHeader_local _ _ _ hd
        obtain ⟨c1, rfl, h1⟩ := ih.mitems item cnt _ _ _ hd1
        obtain ⟨c2, rfl, h2⟩ := ih.mblocks item _ _ _ hd2
        refine ⟨c0 ++ c1 ++ c2, by simp, fun r' fuel' hf => ?_⟩
        obtain ⟨g, rfl, hg⟩ := exists_succ_of_le hf
        have e1 := h1 (c2 ++ r') g hg
        have e2 := h2 r' g hg
        simp only at e1 e2
        cases cnt with
        | zero => exact (hne rfl).elim
        | succ cnt => simp only [decodeMapBlocks, List.append_assoc, h0, e1, e2]

theorem locAll_succ_dec (S : Schema) (fuel : Nat) (ih : LocAll S fuel) :
    ∀ n, LocalF (fun f => decode S f n) (fuel + 1) := by
  intro n bs a r h
  simp only at h
  cases n with
  | null =>
      simp only [decode, Option.some.injEq, Prod.mk.injEq] at h
      obtain ⟨rfl, rfl⟩ := h
      refine ⟨[], rfl, fun r' fuel' hf => ?_⟩
      obtain ⟨g, rfl, hg⟩ := exists_succ_of_le hf
      simp [decode]
  | boolean =>
      simp only [decode] at h
      split at h
      · rename_i b rest
        split at h
        · rename_i hb
          simp only [Option.some.injEq, Prod.mk.injEq] at h
          obtain ⟨rfl, rfl⟩ := h
          refine ⟨[b], rfl, fun r' fuel' hf => ?_⟩
          obtain ⟨g, rfl, hg⟩ := exists_succ_of_le hf
          simp [decode, hb]
        · rename_i hb
          split at h
          · rename_i hb1
            simp only [Option.some.injEq, Prod.mk.injEq] at h
            obtain ⟨rfl, rfl⟩ := h
            refine ⟨[b], rfl, fun r' fuel' hf => ?_⟩
            obtain ⟨g, rfl, hg⟩ := exists_succ_of_le hf
            simp [decode, hb1]
          · simp at h
      · simp at h
  | int =>
      simp only [decode] at h
      split at h
      · rename_i i rest hd
        split at h
        · rename_i hi
          simp only [Option.some.injEq, Prod.mk.injEq] at h
          obtain ⟨rfl, rfl⟩ := h
          obtain ⟨c, rfl, hc⟩ := decodeLong_local _ _ _ hd
          refine ⟨c, rfl, fun r' fuel' hf => ?_⟩
          obtain ⟨g, rfl, hg⟩ := exists_succ_of_le hf
          simp only [decode, hc, hi, if_true]
        · simp at h
      · simp at h
  | date =>
      simp only [decode] at h
      split at h
      · rename_i i rest hd
        split at h
        · rename_i hi
          simp only [Option.some.injEq, Prod.mk.injEq] at h
          obtain ⟨rfl, rfl⟩ := h
          obtain ⟨c, rfl, hc⟩ := decodeLong_local _ _ _ hd
          refine ⟨c, rfl, fun r' fuel' hf => ?_⟩
          obtain ⟨g, rfl, hg⟩ := exists_succ_of_le hf
          simp only [decode, hc, hi, if_true]
        · simp at h
      · simp at h
  | timeMillis =>
      simp only [decode] at h
      split at h
      · rename_i i rest hd
        split at h
        · rename_i hi
          simp only [Option.some.injEq, Prod.mk.injEq] at h
          obtain ⟨rfl, rfl⟩ := h
          obtain ⟨c, rfl, hc⟩ := decodeLong_local _ _ _ hd
          refine ⟨c, rfl, fun r' fuel' hf => ?_⟩
          obtain ⟨g, rfl, hg⟩ := exists_succ_of_le hf
          simp only [decode, hc, hi, if_true]
        · simp at h
      · simp at h
  | long =>
      simp only [decode] at h
      split at h
      · rename_i i rest hd
        simp only [Option.some.injEq, Prod.mk.injEq] at h
        obtain ⟨rfl, rfl⟩ := h
        obtain ⟨c, rfl, hc⟩ := decodeLong_local _ _ _ hd
        refine ⟨c, rfl, fun r' fuel' hf => ?_⟩
        obtain ⟨g, rfl, hg⟩ := exists_succ_of_le hf
        simp only [decode, hc]
      · simp at h
  | timeMicros =>
      simp only [decode] at h
      split at h
      · rename_i i rest hd
        simp only [Option.some.injEq, Prod.mk.injEq] at h
        obtain ⟨rfl, rfl⟩ := h
        obtain ⟨c, rfl, hc⟩ := decodeLong_local _ _ _ hd
        refine ⟨c, rfl, fun r' fuel' hf => ?_⟩
        obtain ⟨g, rfl, hg⟩ := exists_succ_of_le hf
        simp only [decode, hc]
      · simp at h
  | timestampMillis =>
      simp only [decode] at h
      split at h
      · rename_i i rest hd
        simp only [Option.some.injEq, Prod.mk.injEq] at h
        obtain ⟨rfl, rfl⟩ := h
        obtain ⟨c, rfl, hc⟩ := decodeLong_local _ _ _ hd
        refine ⟨c, rfl, fun r' fuel' hf => ?_⟩
        obtain ⟨g, rfl, hg⟩ := exists_succ_of_le hf
        simp only [decode, hc]
      · simp at h
  | timestampMicros =>
      simp only [decode] at h
      split at h
      · rename_i i rest hd
        simp only [Option.some.injEq, Prod.mk.injEq] at h
        obtain ⟨rfl, rfl⟩ := h
        obtain ⟨c, rfl, hc⟩ := decodeLong_local _ _ _ hd
        refine ⟨c, rfl, fun r' fuel' hf => ?_⟩
        obtain ⟨g, rfl, hg⟩ := exists_succ_of_le hf
        simp only [decode, hc]
      · simp at h
  | float =>
      simp only [decode, Option.map_eq_some_iff, Prod.exists, Prod.mk.injEq] at h
      obtain ⟨b, rest, hd, rfl, rfl⟩ := h
      obtain ⟨c, rfl, hc⟩ := takeN_local 4 _ _ _ hd
      refine ⟨c, rfl, fun r' fuel' hf => ?_⟩
      obtain ⟨g, rfl, hg⟩ := exists_succ_of_le hf
      simp only [decode, hc, Option.map_some]
  | double =>
      simp only [decode, Option.map_eq_some_iff, Prod.exists, Prod.mk.injEq] at h
      obtain ⟨b, rest, hd, rfl, rfl⟩ := h
      obtain ⟨c, rfl, hc⟩ := takeN_local 8 _ _ _ hd
      refine ⟨c, rfl, fun r' fuel' hf => ?_⟩
      obtain ⟨g, rfl, hg⟩ := exists_succ_of_le hf
      simp only [decode, hc, Option.map_some]
  | bytes =>
      simp only [decode, Option.map_eq_some_iff, Prod.exists, Prod.mk.injEq] at h
      obtain ⟨b, rest, hd, rfl, rfl⟩ := h
      obtain ⟨c, rfl, hc⟩ := decodeBytes_local _ _ _ hd
      refine ⟨c, rfl, fun r' fuel' hf => ?_⟩
      obtain ⟨g, rfl, hg⟩ := exists_succ_of_le hf
      simp only [decode, hc, Option.map_some]
  | string =>
      simp only [decode, Option.map_eq_some_iff, Prod.exists, Prod.mk.injEq] at h
      obtain ⟨b, rest, hd, rfl, rfl⟩ := h
      obtain ⟨c, rfl, hc⟩ := decodeString_local _ _ _ hd
      refine ⟨c, rfl, fun r' fuel' hf => ?_⟩
      obtain ⟨g, rfl, hg⟩ := exists_succ_of_le hf
      simp only [decode, hc, Option.map_some]
  | uuid =>
      simp only [decode, Option.map_eq_some_iff, Prod.exists, Prod.mk.injEq] at h
      obtain ⟨b, rest, hd, rfl, rfl⟩ := h
      obtain ⟨c, rfl, hc⟩ := decodeString_local _ _ _ hd
      refine ⟨c, rfl, fun r' fuel' hf => ?_⟩
      obtain ⟨g, rfl, hg⟩ := exists_succ_of_le hf
      simp only [decode, hc, Option.map_some]
  | fixed nm size =>
      simp only [decode, Option.map_eq_some_iff, Prod.exists, Prod.mk.injEq] at h
      obtain ⟨b, rest, hd, rfl, rfl⟩ := h
      obtain ⟨c, rfl, hc⟩ := takeN_local size _ _ _ hd
      refine ⟨c, rfl, fun r' fuel' hf => ?_⟩
      obtain ⟨g, rfl, hg⟩ := exists_succ_of_le hf
      simp only [decode, hc, Option.map_some]
  | duration =>
      simp only [decode, Option.map_eq_some_iff, Prod.exists, Prod.mk.injEq] at h
      obtain ⟨b, rest, hd, rfl, rfl⟩ := h
      obtain ⟨c, rfl, hc⟩ := takeN_local 12 _ _ _ hd
      refine ⟨c, rfl, fun r' fuel' hf => ?_⟩
      obtain ⟨g, rfl, hg⟩ := exists_succ_of_le hf
      simp only [decode, hc, Option.map_some]
  | decimal sc pr repr =>
      cases repr with
      | bytes =>
        simp only [decode, Option.map_eq_some_iff, Prod.exists, Prod.mk.injEq] at h
        obtain ⟨b, rest, hd, rfl, rfl⟩ := h
        obtain ⟨c, rfl, hc⟩ := decodeBytes_local _ _ _ hd
        refine ⟨c, rfl, fun r' fuel' hf => ?_⟩
        obtain ⟨g, rfl, hg⟩ := exists_succ_of_le hf
        simp only [decode, hc, Option.map_some]
      | fixed nm size =>
        simp only [decode, Option.map_eq_some_iff, Prod.exists, Prod.mk.injEq] at h
        obtain ⟨b, rest, hd, rfl, rfl⟩ := h
        obtain ⟨c, rfl, hc⟩ := takeN_local size _ _ _ hd
        refine ⟨c, rfl, fun r' fuel' hf => ?_⟩
        obtain ⟨g, rfl, hg⟩ := exists_succ_of_le hf
        simp only [decode, hc, Option.map_some]
  | enum nm syms =>
      simp only [decode] at h
      split at h
      · rename_i idx rest hd
        split at h
        · rename_i hi
          simp only [Option.some.injEq, Prod.mk.injEq] at h
          obtain ⟨rfl, rfl⟩ := h
          obtain ⟨c, rfl, hc⟩ := decodeLen_local _ _ _ hd
          refine ⟨c, rfl, fun r' fuel' hf => ?_⟩
          obtain ⟨g, rfl, hg⟩ := exists_succ_of_le hf
          simp only [decode, hc, hi, if_true]
        · simp at h
      · simp at h
  | bigDecimal =>
      simp only [decode] at h
      split at h
      · simp at h
      · rename_i inner rest hd
        split at h
        · simp at h
        · rename_i m inner' hd1
          split at h
          · rename_i scale hd2
            simp only [Option.some.injEq, Prod.mk.injEq] at h
            obtain ⟨rfl, rfl⟩ := h
            obtain ⟨c, rfl, hc⟩ := decodeBytes_local _ _ _ hd
            refine ⟨c, rfl, fun r' fuel' hf => ?_⟩
            obtain ⟨g, rfl, hg⟩ := exists_succ_of_le hf
            simp only [decode, hc, hd1, hd2]
          · simp at h
  | array k =>
      simp only [decode] at h
      split at h
      · simp at h
      · rename_i item hitem
        simp only [Option.map_eq_some_iff, Prod.exists, Prod.mk.injEq] at h
        obtain ⟨vs, rest, hd, rfl, rfl⟩ := h
        obtain ⟨c, rfl, hc⟩ := ih.blocks item _ _ _ hd
        refine ⟨c, rfl, fun r' fuel' hf => ?_⟩
        obtain ⟨g, rfl, hg⟩ := exists_succ_of_le hf
        have e := hc r' g hg
        simp only at e
        simp only [decode, hitem, e, Option.map_some]
  | map k =>
      simp only [decode] at h
      split at h
      · simp at h
      · rename_i item hitem
        simp only [Option.map_eq_some_iff, Prod.exists, Prod.mk.injEq] at h
        obtain ⟨vs, rest, hd, rfl, rfl⟩ := h
        obtain ⟨c, rfl, hc⟩ := ih.mblocks item _ _ _ hd
        refine ⟨c, rfl, fun r' fuel' hf => ?_⟩
        obtain ⟨g, rfl, hg⟩ := exists_succ_of_le hf
        have e := hc r' g hg
        simp only at e
        simp only [decode, hitem, e, Option.map_some]
  | record nm fs =>
      simp only [decode, Option.map_eq_some_iff, Prod.exists, Prod.mk.injEq] at h
      obtain ⟨vs, rest, hd, rfl, rfl⟩ := h
      obtain ⟨c, rfl, hc⟩ := ih.fields _ _ _ _ hd
      refine ⟨c, rfl, fun r' fuel' hf => ?_⟩
      obtain ⟨g, rfl, hg⟩ := exists_succ_of_le hf
      have e := hc r' g hg
      simp only at e
      simp only [decode, e, Option.map_some]
  | union vs =>
      simp only [decode] at h
      split at h
      · simp at h
      · rename_i idx rest hd
        split at h
        · simp at h
        · rename_i k hk
          split at h
          · simp at h
          · rename_i branch hbranch
            simp only [Option.map_eq_some_iff, Prod.exists, Prod.mk.injEq] at h
            obtain ⟨v, rest', hd1, rfl, rfl⟩ := h
            obtain ⟨c0, rfl, h0⟩ := decodeLen_local _ _ _ hd
            obtain ⟨c1, rfl, h1⟩ := ih.dec branch _ _ _ hd1
            refine ⟨c0 ++ c1, by simp, fun r' fuel' hf => ?_⟩
            obtain ⟨g, rfl, hg⟩ := exists_succ_of_le hf
            have e := h1 r' g hg
            simp only at e
            simp only [decode, List.append_assoc, h0, hk, hbranch, e, Option.map_some]

theorem locAll (S : Schema) : ∀ fuel, LocAll S fuel := by
  intro fuel
  induction fuel with
  | zero => exact locAll_zero S
  | succ fuel ih =>
    exact ⟨locAll_succ_dec S fuel ih, locAll_succ_blocks S fuel ih, locAll_succ_items S fuel ih,
      locAll_succ_mblocks S fuel ih, locAll_succ_mitems S fuel ih, locAll_succ_fields S fuel ih⟩

/-- Decoder locality and fuel monotonicity: a successful `decode` consumed a prefix `c` of its
    input, and on `c` followed by anything else, with at least as much fuel, it returns the same
    value and the new remainder. -/
theorem decode_local (S : Schema) (fuel : Nat) (n : Node) (bs : Bytes) (v : Value) (r : Bytes)
    (h : decode S fuel n bs = some (v, r)) :
    ∃ c, bs = c ++ r ∧ ∀ r' fuel', fuel ≤ fuel' → decode S fuel' n (c ++ r') = some (v, r') :=
  (locAll S fuel).dec n bs v r h

theorem decode_fuel_mono (S : Schema) (fuel fuel' : Nat) (n : Node) (bs : Bytes)
    (res : Value × Bytes) (h : decode S fuel n bs = some res) (hf : fuel ≤ fuel') :
    decode S fuel' n bs = some res := by
  obtain ⟨v, r⟩ := res
  obtain ⟨c, rfl, hc⟩ := decode_local S fuel n bs v r h
  exact hc r fuel' hf

/-- SECOND THEOREM (prefix-freeness): no proper prefix of the canonical encoding of `v` decodes,
    completely, to `v` — with any amount of fuel. -/
theorem decode_deterministic_prefix (S : Schema) (n : Node) (v : Value) (enc : Bytes)
    (h : encode S n v = some enc) (m : Nat) (hm : m < enc.length) (fuel : Nat) :
    decode S fuel n (enc.take m) ≠ some (v, []) := by
  intro hd
  obtain ⟨c, hc, hloc⟩ := decode_local S fuel n _ v [] hd
  rw [List.append_nil] at hc
  have h1 := hloc (enc.drop m) (fuel + size v) (by omega)
  rw [← hc, List.take_append_drop] at h1
  have h2 := decode_encode_nil S n v enc h (fuel + size v) (by omega)
  rw [h2] at h1
  simp only [Option.some.injEq, Prod.mk.injEq, true_and] at h1
  have : (enc.drop m).length = enc.length - m := List.length_drop
  rw [← h1] at this
  simp at this
  omega


end Avro.Spec
