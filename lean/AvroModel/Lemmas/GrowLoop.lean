import AvroModel.Impl.GrowLoop
/-
Lemmas on the grow loops of `writer/compression.rs` (model: `Impl/GrowLoop.lean`), used by C05.

* `emitLen`, `call_eq`: one compressor call, in closed form;
* `LInv`: the loop invariant — the output holds exactly the first `done` bytes of the stream and
  there is room left (`done < cap`: the buffer is never full when the compressor is called, so the
  compressor never reports "no progress");
* `encodeLoop_complete`: with fuel for one call per byte left plus one, the loop ends with the
  whole stream; the capacity reached is bounded (bzip2/xz), or is `cap * 2 ^ p` for `p` pending
  calls (deflate).
-/
namespace Avro.C05
open Avro Avro.Impl.GrowLoop

/-- how many bytes one call emits -/
def emitLen (c : Comp) (space : Nat) : Nat :=
  min (min (match c.sched with | [] => space | k :: _ => max k 1) space) (c.total.length - c.done)

/-- the status one call reports -/
def statusOf (c : Comp) (k : Nat) : Status :=
  if c.done + k = c.total.length then .streamEnd else if k = 0 then .noProgress else .pending

theorem call_eq (c : Comp) (space : Nat) :
    c.call space =
      (statusOf c (emitLen c space), (c.total.drop c.done).take (emitLen c space),
        { c with done := c.done + emitLen c space, sched := c.sched.tail }) := by
  unfold Comp.call emitLen statusOf
  cases hs : c.sched with
  | nil => simp only [List.tail_nil]; split <;> first | rfl | (split <;> rfl)
  | cons k r => simp only [List.tail_cons]; split <;> first | rfl | (split <;> rfl)

theorem emitLen_le_space (c : Comp) (space : Nat) : emitLen c space ≤ space := by
  unfold emitLen; omega

theorem emitLen_le_left (c : Comp) (space : Nat) : emitLen c space ≤ c.total.length - c.done := by
  unfold emitLen; omega

/-- room and something left: at least one byte is emitted -/
theorem emitLen_pos (c : Comp) (space : Nat) (hs : 1 ≤ space) (hl : 1 ≤ c.total.length - c.done) :
    1 ≤ emitLen c space := by
  unfold emitLen
  cases c.sched with
  | nil => simp only; omega
  | cons k r => simp only; omega

theorem take_append_take_drop (l : Bytes) (d k : Nat) :
    l.take d ++ (l.drop d).take k = l.take (d + k) := by
  rw [List.take_add]

/-- The loop invariant. -/
structure LInv (total : Bytes) (st : LoopState) : Prop where
  tot : st.comp.total = total
  out : st.out = total.take st.comp.done
  le : st.comp.done ≤ total.length
  lt : st.comp.done < st.cap

theorem LInv.out_length {total : Bytes} {st : LoopState} (h : LInv total st) :
    st.out.length = st.comp.done := by
  rw [h.out, List.length_take]; have := h.le; omega

/-- **The grow loops are complete.** From a state satisfying the invariant, with fuel for one
    call per byte left plus one, each of the three loops ends `Ok` with the complete stream in
    the output; the capacity reached is at most `max cap (2 * total.length)` for bzip2 and xz
    (they double only a full buffer), and is `cap * 2 ^ p` for deflate, `p` being the number of
    calls that returned "pending" (at most one per byte left). -/
theorem encodeLoop_complete (kind : Kind) (total : Bytes) (fuel : Nat) :
    ∀ (st : LoopState), LInv total st → total.length - st.comp.done + 1 ≤ fuel →
      ∃ st', encodeLoop kind fuel st = .ok st' ∧ st'.out = total ∧ st'.comp.done = total.length ∧
        st.cap ≤ st'.cap ∧
        (kind ≠ .deflate → st'.cap ≤ max st.cap (2 * total.length)) ∧
        (kind = .deflate → ∃ p, p ≤ total.length - st.comp.done ∧ st'.cap = st.cap * 2 ^ p) := by
  induction fuel with
  | zero => intro st _ hf; omega
  | succ fuel ih =>
    intro st hinv hf
    obtain ⟨cap, out, comp⟩ := st
    have hlen := hinv.out_length
    obtain ⟨htot, hout, hle, hlt⟩ := hinv
    simp only at htot hout hle hlt hlen hf
    subst htot
    have hspace : 1 ≤ cap - out.length := by omega
    simp only [encodeLoop, call_eq]
    generalize hk : emitLen comp (cap - out.length) = k
    have hk1 : k ≤ cap - out.length := hk ▸ emitLen_le_space _ _
    have hk2 : k ≤ comp.total.length - comp.done := hk ▸ emitLen_le_left _ _
    have hout' : out ++ (comp.total.drop comp.done).take k = comp.total.take (comp.done + k) := by
      rw [hout, take_append_take_drop]
    by_cases hend : comp.done + k = comp.total.length
    · -- stream end
      have hs : statusOf comp k = .streamEnd := by simp [statusOf, hend]
      rw [hs]
      refine ⟨_, rfl, ?_, hend, Nat.le_refl _, fun _ => Nat.le_max_left _ _,
        fun _ => ⟨0, Nat.zero_le _, by simp⟩⟩
      simp only [hout', hend, List.take_length]
    · have hleft : 1 ≤ comp.total.length - comp.done := by omega
      have hkpos : 1 ≤ k := hk ▸ emitLen_pos _ _ hspace hleft
      have hs : statusOf comp k = .pending := by
        simp only [statusOf, hend, if_false]
        rw [if_neg (by omega)]
      rw [hs]
      have hlen' : (out ++ (comp.total.drop comp.done).take k).length = comp.done + k := by
        rw [hout', List.length_take]; omega
      cases kind with
      | deflate =>
        simp only
        obtain ⟨st', h1, h2, h3, h4, _, h6⟩ := ih
          { cap := cap * 2, out := out ++ (comp.total.drop comp.done).take k,
            comp := { comp with done := comp.done + k, sched := comp.sched.tail } }
          ⟨rfl, hout', by first | omega | (simp only; omega), by first | omega | (simp only; omega)⟩ (by first | omega | (simp only; omega))
        obtain ⟨p, hp, hcap⟩ := h6 rfl
        simp only at hp hcap h4
        refine ⟨st', h1, h2, h3, by first | omega | (simp only; omega), fun h => absurd rfl h,
          fun _ => ⟨p + 1, by first | omega | (simp only; omega), ?_⟩⟩
        rw [hcap, Nat.pow_succ]
        simp only [Nat.mul_assoc, Nat.mul_comm]
      | bzip2 =>
        simp only [hlen']
        by_cases hfull : comp.done + k = cap
        · rw [if_pos hfull]
          obtain ⟨st', h1, h2, h3, h4, h5, _⟩ := ih
            { cap := cap * 2, out := out ++ (comp.total.drop comp.done).take k,
              comp := { comp with done := comp.done + k, sched := comp.sched.tail } }
            ⟨rfl, hout', by first | omega | (simp only; omega), by first | omega | (simp only; omega)⟩ (by first | omega | (simp only; omega))
          have h5' := h5 (by simp)
          simp only at h4 h5'
          refine ⟨st', h1, h2, h3, by first | omega | (simp only; omega), fun _ => ?_, fun h => by cases h⟩
          first | omega | (simp only; omega)
        · rw [if_neg hfull]
          obtain ⟨st', h1, h2, h3, h4, h5, _⟩ := ih
            { cap := cap, out := out ++ (comp.total.drop comp.done).take k,
              comp := { comp with done := comp.done + k, sched := comp.sched.tail } }
            ⟨rfl, hout', by first | omega | (simp only; omega), by first | omega | (simp only; omega)⟩ (by first | omega | (simp only; omega))
          exact ⟨st', h1, h2, h3, h4, fun _ => h5 (by simp), fun h => by cases h⟩
      | xz =>
        simp only [hlen']
        by_cases hfull : comp.done + k = cap
        · rw [if_pos hfull]
          obtain ⟨st', h1, h2, h3, h4, h5, _⟩ := ih
            { cap := cap * 2, out := out ++ (comp.total.drop comp.done).take k,
              comp := { comp with done := comp.done + k, sched := comp.sched.tail } }
            ⟨rfl, hout', by first | omega | (simp only; omega), by first | omega | (simp only; omega)⟩ (by first | omega | (simp only; omega))
          have h5' := h5 (by simp)
          simp only at h4 h5'
          refine ⟨st', h1, h2, h3, by first | omega | (simp only; omega), fun _ => ?_, fun h => by cases h⟩
          first | omega | (simp only; omega)
        · rw [if_neg hfull]
          obtain ⟨st', h1, h2, h3, h4, h5, _⟩ := ih
            { cap := cap, out := out ++ (comp.total.drop comp.done).take k,
              comp := { comp with done := comp.done + k, sched := comp.sched.tail } }
            ⟨rfl, hout', by first | omega | (simp only; omega), by first | omega | (simp only; omega)⟩ (by first | omega | (simp only; omega))
          exact ⟨st', h1, h2, h3, h4, fun _ => h5 (by simp), fun h => by cases h⟩

/-- the state `encode` starts the loop in satisfies the invariant -/
theorem LInv_init (c : Comp) (cap0 : Nat) (h0 : c.done = 0) (hc : 1 ≤ cap0) :
    LInv c.total { cap := cap0, comp := c } :=
  ⟨rfl, by simp [h0], by simp [h0], by simp only [h0]; omega⟩

end Avro.C05
