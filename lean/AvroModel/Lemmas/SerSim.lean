import AvroModel.Lemmas.Record
/-
A relational Hoare logic for the serializer model: two runs from states that agree on the budget,
whose writers differ by a fixed prefix `o`, and whose pools are both clean (but otherwise
unrelated) produce the same result, and end in states related the same way.  Compound states
may differ in `cap` flags only.  Used by C14 (pool irrelevance) and C13 (a value serialized into
a side buffer yields the bytes it would have appended to the main writer).
-/
namespace Avro.Theorems
open Avro Avro.Impl

/-- `s1` is `s2` with `o` prepended to the writer, and any other clean pool.  With `U` both
    writers are moreover unlimited. -/
def SerSim (U : Prop) (o : Bytes) (s1 s2 : SerState) : Prop :=
  s1.out = o ++ s2.out ∧ s1.budget = s2.budget ∧ (U → s2.budget = none) ∧
    PoolClean s1.pool ∧ PoolClean s2.pool

/-- Related outcomes of two `SerM` runs. -/
def Out2 {α} (U : Prop) (R : α → α → Prop) (o : Bytes) (x1 x2 : Except SerErr α × SerState) : Prop :=
  (∃ a b t1 t2, x1 = (.ok a, t1) ∧ x2 = (.ok b, t2) ∧ R a b ∧ SerSim U o t1 t2) ∨
  (∃ e t1 t2, x1 = (.error e, t1) ∧ x2 = (.error e, t2) ∧ SerSim U o t1 t2)

/-- Related outcomes of two `TrM` runs (the compound states carried by errors are unrelated:
    they are only dropped). -/
def OutT {σ α} (U : Prop) (R : α → α → Prop) (o : Bytes) (x1 x2 : Except (SerErr × σ) α × SerState) : Prop :=
  (∃ a b t1 t2, x1 = (.ok a, t1) ∧ x2 = (.ok b, t2) ∧ R a b ∧ SerSim U o t1 t2) ∨
  (∃ e k1 k2 t1 t2, x1 = (.error (e, k1), t1) ∧ x2 = (.error (e, k2), t2) ∧ SerSim U o t1 t2)

structure RTr {α} (U : Prop) (m1 m2 : SerM α) (R : α → α → Prop) : Prop where
  out : ∀ o s1 s2, SerSim U o s1 s2 → Out2 U R o (m1 s1) (m2 s2)

structure RTrT {σ α} (U : Prop) (m1 m2 : TrM σ α) (R : α → α → Prop) : Prop where
  out : ∀ o s1 s2, SerSim U o s1 s2 → OutT U R o (m1 s1) (m2 s2)

/-- A computation related to itself. -/
abbrev Par {α} (U : Prop) (m : SerM α) : Prop := RTr U m m Eq

variable {U : Prop}

theorem Out2.ok {α} {R : α → α → Prop} {o a b t1 t2} (h : R a b) (hs : SerSim U o t1 t2) :
    Out2 U R o (.ok a, t1) (.ok b, t2) := .inl ⟨a, b, t1, t2, rfl, rfl, h, hs⟩

theorem Out2.err {α} {R : α → α → Prop} {o t1 t2} (e : SerErr) (hs : SerSim U o t1 t2) :
    Out2 U R o (.error e, t1) (.error e, t2) := .inr ⟨e, t1, t2, rfl, rfl, hs⟩

theorem OutT.ok {σ α} {R : α → α → Prop} {o a b t1 t2} (h : R a b) (hs : SerSim U o t1 t2) :
    OutT (σ := σ) U R o (.ok a, t1) (.ok b, t2) := .inl ⟨a, b, t1, t2, rfl, rfl, h, hs⟩

theorem OutT.err {σ α} {R : α → α → Prop} {o t1 t2} (e : SerErr) (k1 k2 : σ) (hs : SerSim U o t1 t2) :
    OutT (α := α) U R o (.error (e, k1), t1) (.error (e, k2), t2) :=
  .inr ⟨e, k1, k2, t1, t2, rfl, rfl, hs⟩

section rules
variable {α β : Type}

theorem RTr.pure {R : α → α → Prop} {a b : α} (h : R a b) :
    RTr U (pure a : SerM α) (pure b) R := ⟨fun _ _ _ hs => Out2.ok h hs⟩

theorem RTr.fail {R : α → α → Prop} (e : SerErr) :
    RTr U (SerM.fail e : SerM α) (SerM.fail e) R := ⟨fun _ _ _ hs => Out2.err e hs⟩

theorem RTr.bind {m1 m2 : SerM α} {f1 f2 : α → SerM β} {R : α → α → Prop} {R' : β → β → Prop}
    (hm : RTr U m1 m2 R) (hf : ∀ a b, R a b → RTr U (f1 a) (f2 b) R') :
    RTr U (m1 >>= f1) (m2 >>= f2) R' := by
  refine ⟨fun o s1 s2 hs => ?_⟩
  simp only [Bind.bind]
  rcases hm.out o s1 s2 hs with ⟨a, b, t1, t2, e1, e2, hab, ht⟩ | ⟨e, t1, t2, e1, e2, ht⟩
  · rw [e1, e2]; exact (hf a b hab).out o t1 t2 ht
  · rw [e1, e2]; exact Out2.err e ht

theorem Par.bind {m : SerM α} {f1 f2 : α → SerM β} {R' : β → β → Prop}
    (hm : Par U m) (hf : ∀ a, RTr U (f1 a) (f2 a) R') : RTr U (m >>= f1) (m >>= f2) R' :=
  RTr.bind hm (fun a _ h => h ▸ hf a)

theorem RTr.weaken {m1 m2 : SerM α} {R R' : α → α → Prop} (hm : RTr U m1 m2 R)
    (h : ∀ a b, R a b → R' a b) : RTr U m1 m2 R' := by
  refine ⟨fun o s1 s2 hs => ?_⟩
  rcases hm.out o s1 s2 hs with ⟨a, b, t1, t2, e1, e2, hab, ht⟩ | ⟨e, t1, t2, e1, e2, ht⟩
  · exact .inl ⟨a, b, t1, t2, e1, e2, h a b hab, ht⟩
  · exact .inr ⟨e, t1, t2, e1, e2, ht⟩

end rules

/-! ### Writer primitives -/

theorem writeAll_par (bs : Bytes) : Par U (writeAll bs) := by
  refine ⟨fun o s1 s2 hs => ?_⟩
  obtain ⟨h1, h2, hu, h3, h4⟩ := hs
  unfold writeAll
  rw [h2]
  split
  · exact Out2.ok rfl ⟨by simp [h1], by simp, fun _ => by assumption, h3, h4⟩
  · rename_i r hr
    have hu' : U → False := fun u => by rw [hu u] at hr; cases hr
    split
    · exact Out2.ok rfl ⟨by simp [h1], rfl, fun u => (hu' u).elim, h3, h4⟩
    · exact Out2.err _ ⟨by simp [h1], rfl, fun u => (hu' u).elim, h3, h4⟩

theorem writeVarI64_par (i : Int) : Par U (writeVarI64 i) := writeAll_par _

theorem forM_par {α} (l : List α) (f : α → SerM PUnit) (hf : ∀ a, Par U (f a)) : Par U (l.forM f) := by
  induction l with
  | nil => show Par U (pure PUnit.unit); exact RTr.pure rfl
  | cons a l ih => show Par U (f a >>= fun _ => l.forM f); exact Par.bind (hf a) (fun _ => ih)

syntax "par_lemma" : tactic
macro_rules | `(tactic| par_lemma) => `(tactic| with_reducible exact RTr.pure rfl)
macro_rules | `(tactic| par_lemma) => `(tactic| with_reducible exact RTr.fail _)
macro_rules | `(tactic| par_lemma) => `(tactic| with_reducible exact writeAll_par _)
macro_rules | `(tactic| par_lemma) => `(tactic| with_reducible exact writeVarI64_par _)
macro_rules
  | `(tactic| par_lemma) => `(tactic| with_reducible exact forM_par _ _ (fun _ => writeAll_par _))

/-- Proof search for self-related leaves. -/
macro "par_auto" : tactic => `(tactic| repeat' (first
  | par_lemma
  | with_reducible refine Par.bind ?_ ?_
  | intro _
  | assumption
  | dsimp only
  | split))

theorem writeLengthDelimited_par (bs : Bytes) : Par U (writeLengthDelimited bs) := by
  unfold writeLengthDelimited; par_auto
macro_rules | `(tactic| par_lemma) => `(tactic| with_reducible exact writeLengthDelimited_par _)

theorem serDecimal_par (ext : Ext) (mode : DecimalMode) (d : Int × Nat) :
    Par U (serDecimal ext mode d) := by
  unfold serDecimal; par_auto
macro_rules | `(tactic| par_lemma) => `(tactic| with_reducible exact serDecimal_par _ _ _)

theorem serIntegerAsDecimal_par (scale : Nat) (repr : DecimalRepr) (v : Int) :
    Par U (serIntegerAsDecimal scale repr v) := by
  unfold serIntegerAsDecimal; par_auto
macro_rules | `(tactic| par_lemma) => `(tactic| with_reducible exact serIntegerAsDecimal_par _ _ _)

theorem serStrAt_par (ext : Ext) (node : Node) (s : String) : Par U (serStrAt ext node s) := by
  unfold serStrAt; par_auto
macro_rules | `(tactic| par_lemma) => `(tactic| with_reducible exact serStrAt_par _ _ _)

section via
variable {α : Type} {S : Schema} {node : Node}

theorem viaBranch_rel {vs : List Nat} {d : Nat} {f1 f2 : Node → SerM α} {R : α → α → Prop}
    (hf : ∀ n, RTr U (f1 n) (f2 n) R) :
    RTr U (do
      writeVarI64 d
      match vs[d]? with
      | none => SerM.fail .panic
      | some k => match S[k]? with
        | none => SerM.fail .panic
        | some n => f1 n)
      (do
      writeVarI64 d
      match vs[d]? with
      | none => SerM.fail .panic
      | some k => match S[k]? with
        | none => SerM.fail .panic
        | some n => f2 n) R := by
  refine Par.bind (writeVarI64_par _) (fun _ => ?_)
  split
  · exact RTr.fail _
  · split
    · exact RTr.fail _
    · exact hf _

theorem viaUnion_rel {key : LookupKey} {f1 f2 : Node → SerM α} {R : α → α → Prop}
    (hf : ∀ n, RTr U (f1 n) (f2 n) R) : RTr U (viaUnion S node key f1) (viaUnion S node key f2) R := by
  unfold viaUnion
  split
  · split
    · exact RTr.fail _
    · exact viaBranch_rel hf
  · exact hf _

theorem viaName_rel {name : String} {f1 f2 : Node → SerM α} {R : α → α → Prop}
    (hf : ∀ n, RTr U (f1 n) (f2 n) R) : RTr U (viaName S node name f1) (viaName S node name f2) R := by
  unfold viaName
  split
  · split
    · exact hf _
    · exact viaBranch_rel hf
  · exact hf _

end via

section leaves
variable {S : Schema} {node : Node}

theorem serBool_par (b : Bool) : Par U (serBool S node b) := by
  unfold serBool; exact viaUnion_rel (fun n => by par_auto)

theorem serInteger_par (t : IntTy) (v : Int) : Par U (serInteger S node t v) := by
  unfold serInteger; exact viaUnion_rel (fun n => by par_auto)

theorem serF32_par (bits : BitVec 32) : Par U (serF32 S node bits) := by
  unfold serF32; exact viaUnion_rel (fun n => by par_auto)

theorem serF64_par (ext : Ext) (bits : BitVec 64) : Par U (serF64 ext S node bits) := by
  unfold serF64; exact viaUnion_rel (fun n => by par_auto)

theorem serStr_par (ext : Ext) (s : String) : Par U (serStr ext S node s) := by
  unfold serStr; exact viaUnion_rel (fun n => by par_auto)

theorem serBytes_par (b : Bytes) : Par U (serBytes S node b) := by
  unfold serBytes; exact viaUnion_rel (fun n => by par_auto)

theorem serUnit_par : Par U (serUnit S node) := by
  unfold serUnit; par_auto

theorem serUnitStruct_par (ext : Ext) (name : String) : Par U (serUnitStruct ext S node name) := by
  unfold serUnitStruct; exact viaUnion_rel (fun n => by par_auto)

theorem serUnitVariant_par (ext : Ext) (v : String) : Par U (serUnitVariant ext S node v) := by
  have hAt : ∀ n, Par U (serUnitVariantAt ext v n) := by
    intro n; unfold serUnitVariantAt; par_auto
  unfold serUnitVariant
  split
  · split
    · exact writeVarI64_par _
    · exact viaUnion_rel hAt
  · exact viaUnion_rel hAt

theorem blockNew_par (n : Nat) : Par U (blockNew n) := by
  unfold blockNew; par_auto

theorem blockSignal_par (n : Nat) : Par U (blockSignal n) := by
  unfold blockSignal; par_auto

theorem blockEnd_par (n : Nat) : Par U (blockEnd n) := by
  unfold blockEnd; par_auto

theorem nodeAt_par (k : Nat) : Par U (nodeAt S k) := by
  unfold nodeAt; par_auto

end leaves
/-- Operations that only touch the pool: on a clean pool they succeed, leave the writer alone and
    the pool clean. -/
def PoolOp {α} (m : SerM α) (Q : α → Prop) : Prop :=
  ∀ s, PoolClean s.pool → ∃ a s', m s = (.ok a, s') ∧ Q a ∧ s'.out = s.out ∧
    s'.budget = s.budget ∧ PoolClean s'.pool

theorem PoolOp.rel {α} {m1 m2 : SerM α} {Q1 Q2 : α → Prop} (h1 : PoolOp m1 Q1) (h2 : PoolOp m2 Q2) :
    RTr U m1 m2 (fun a b => Q1 a ∧ Q2 b) := by
  refine ⟨fun o s1 s2 hs => ?_⟩
  obtain ⟨g1, g2, gu, g3, g4⟩ := hs
  obtain ⟨a, t1, e1, qa, o1, b1, c1⟩ := h1 s1 g3
  obtain ⟨b, t2, e2, qb, o2, b2, c2⟩ := h2 s2 g4
  rw [e1, e2]
  exact Out2.ok ⟨qa, qb⟩ ⟨by rw [o1, o2, g1], by rw [b1, b2, g2], fun u => by rw [b2, gu u], c1, c2⟩

theorem PoolOp.pure {α} (a : α) : PoolOp (pure a : SerM α) (fun _ => True) :=
  fun s hs => ⟨a, s, rfl, trivial, rfl, rfl, hs⟩

theorem popBuffer_op : PoolOp popBuffer (fun b => b.data = []) := by
  intro s hs
  have h := (popBuffer_tr (P := True)).out s hs
  cases hp : popBuffer s with
  | mk r s' =>
    rw [hp] at h
    cases r with
    | error e =>
      exfalso
      unfold popBuffer at hp
      split at hp
      · simp at hp
      · split at hp
        · simp at hp; exact (h.2 trivial).1 (by rw [← hp.1])
        · simp at hp
    | ok b =>
      obtain ⟨p1, p2, p3⟩ := popBuffer_ok hp
      exact ⟨b, s', rfl, p1, p2, p3, h.1⟩

theorem pushBuffer_op {b : Buffer} (hb : b.data = []) : PoolOp (pushBuffer b) (fun _ => True) := by
  intro s hs
  have h := (pushBuffer_tr (P := True) hb).out s hs
  exact ⟨(), _, rfl, trivial, rfl, rfl, h.1⟩

theorem popSuperBuffer_op : PoolOp popSuperBuffer (fun b => b.slots = []) := by
  intro s hs
  have h := (popSuperBuffer_tr (P := True)).out s hs
  unfold popSuperBuffer at h ⊢
  split
  · exact ⟨_, s, rfl, rfl, rfl, rfl, hs⟩
  · rename_i b rest heq
    rw [heq] at h
    dsimp only at h
    split
    · rename_i hne
      rw [if_pos hne] at h
      exact ((h.2 trivial).1 rfl).elim
    · rename_i hne
      rw [if_neg hne] at h
      exact ⟨b, _, rfl, by simpa using hne, rfl, rfl, h.1⟩

theorem seqDrop_op (k : SeqKind) : PoolOp (seqDrop k) (fun _ => True) := by
  unfold seqDrop
  split
  · split
    · exact pushBuffer_op rfl
    · exact PoolOp.pure _
  · exact PoolOp.pure _

theorem recordDrop_op (rs : RecordState) : PoolOp (recordDrop rs) (fun _ => True) := by
  intro s hs
  have h := (recordDrop_tr (P := True) rs).out s hs
  unfold recordDrop at h ⊢
  split
  · rename_i hc
    rw [if_pos hc] at h
    exact ⟨(), _, rfl, trivial, rfl, rfl, h.1⟩
  · exact ⟨(), s, rfl, trivial, rfl, rfl, hs⟩

theorem structDrop_op (k : StructKind) : PoolOp (structDrop k) (fun _ => True) := by
  unfold structDrop
  split
  · exact recordDrop_op _
  · exact PoolOp.pure _

theorem intoBuffer_rel {b1 b2 : Buffer} {m1 m2 : SerM Unit} {R : Unit → Unit → Prop}
    (hb1 : b1.data = []) (hb2 : b2.data = []) (hm : RTr U m1 m2 R) :
    RTr U (intoBuffer b1 m1) (intoBuffer b2 m2) (fun x y => x.data = y.data) := by
  refine ⟨fun o s1 s2 hs => ?_⟩
  obtain ⟨g1, g2, gu, g3, g4⟩ := hs
  unfold intoBuffer
  have hs' : SerSim U [] { s1 with out := b1.data, budget := none }
      { s2 with out := b2.data, budget := none } :=
    ⟨by simp [hb1, hb2], rfl, fun _ => rfl, g3, g4⟩
  rcases hm.out _ _ _ hs' with ⟨a, b, t1, t2, e1, e2, _, ht⟩ | ⟨e, t1, t2, e1, e2, ht⟩
  · rw [e1, e2]
    exact Out2.ok (by simpa using ht.1) ⟨g1, g2, gu, ht.2.2.2.1, ht.2.2.2.2⟩
  · rw [e1, e2]
    exact Out2.err e ⟨g1, g2, gu, ht.2.2.2.1, ht.2.2.2.2⟩

theorem finally_rel {α} {m1 m2 : SerM α} {fin1 fin2 : SerM Unit} {R : α → α → Prop}
    {Q1 Q2 : Unit → Prop} (hm : RTr U m1 m2 R) (h1 : PoolOp fin1 Q1) (h2 : PoolOp fin2 Q2) :
    RTr U (SerM.finally m1 fin1) (SerM.finally m2 fin2) R := by
  refine ⟨fun o s1 s2 hs => ?_⟩
  unfold SerM.finally
  have hfin := (PoolOp.rel (U := U) h1 h2)
  rcases hm.out o s1 s2 hs with ⟨a, b, t1, t2, e1, e2, hab, ht⟩ | ⟨e, t1, t2, e1, e2, ht⟩
  · rw [e1, e2]
    rcases hfin.out o t1 t2 ht with ⟨_, _, u1, u2, f1, f2, _, hu⟩ | ⟨e', u1, u2, f1, f2, hu⟩
    · dsimp only; rw [f1, f2]; exact Out2.ok hab hu
    · dsimp only; rw [f1, f2]; exact Out2.err e' hu
  · rw [e1, e2]
    rcases hfin.out o t1 t2 ht with ⟨_, _, u1, u2, f1, f2, _, hu⟩ | ⟨e', u1, u2, f1, f2, hu⟩
    · dsimp only; rw [f1, f2]; exact Out2.err e hu
    · dsimp only; rw [f1, f2]; exact Out2.err e' hu

/-- Slot vectors with the same contents (capacities ignored). -/
def SlotsRel (l1 l2 : List (Option Buffer)) : Prop :=
  l1.map (Option.map Buffer.data) = l2.map (Option.map Buffer.data)

def RsRel (rs1 rs2 : RecordState) : Prop :=
  rs1.current = rs2.current ∧ SlotsRel rs1.buffers.slots rs2.buffers.slots

def SeqRel : SeqKind → SeqKind → Prop
  | .array i1 c1, .array i2 c2 => i1 = i2 ∧ c1 = c2
  | .duration n1, .duration n2 => n1 = n2
  | .buffered b1, .buffered b2 => b1.data = b2.data
  | .fixed n1, .fixed n2 => n1 = n2
  | _, _ => False

def StructRel : StructKind → StructKind → Prop
  | .record f1 rs1, .record f2 rs2 => f1 = f2 ∧ RsRel rs1 rs2
  | .map v1 c1, .map v2 c2 => v1 = v2 ∧ c1 = c2
  | .duration l1, .duration l2 => l1 = l2
  | _, _ => False

theorem SlotsRel.length {l1 l2} (h : SlotsRel l1 l2) : l1.length = l2.length := by
  have := congrArg List.length h; simpa using this

theorem SlotsRel.get {l1 l2} (h : SlotsRel l1 l2) (i : Nat) :
    (l1[i]?).map (Option.map Buffer.data) = (l2[i]?).map (Option.map Buffer.data) := by
  have := congrArg (·[i]?) h; simpa [List.getElem?_map] using this

theorem SlotsRel.some {l1 l2} (h : SlotsRel l1 l2) {i : Nat} {b1 : Buffer}
    (h1 : l1[i]? = some (some b1)) : ∃ b2, l2[i]? = some (some b2) ∧ b1.data = b2.data := by
  have := h.get i
  rw [h1] at this
  cases h2 : l2[i]? with
  | none => simp [h2] at this
  | some ob =>
    cases ob with
    | none => simp [h2] at this
    | some b2 => simp [h2] at this; exact ⟨b2, rfl, this⟩

theorem SlotsRel.symm {l1 l2} (h : SlotsRel l1 l2) : SlotsRel l2 l1 := Eq.symm h

theorem SlotsRel.set {l1 l2} (h : SlotsRel l1 l2) (i : Nat) {o1 o2 : Option Buffer}
    (ho : o1.map Buffer.data = o2.map Buffer.data) : SlotsRel (l1.set i o1) (l2.set i o2) := by
  unfold SlotsRel at *
  rw [List.map_set, List.map_set, h, ho]

theorem listResize_map {α β} (g : α → β) (l : List α) (n : Nat) (a : α) :
    (listResize l n a).map g = listResize (l.map g) n (g a) := by
  unfold listResize
  simp only [List.length_map]
  split
  · rw [List.map_take]
  · simp

theorem SlotsRel.resize {l1 l2} (h : SlotsRel l1 l2) (idx : Nat) :
    SlotsRel (if l1.length ≤ idx then listResize l1 (idx + 1) none else l1)
      (if l2.length ≤ idx then listResize l2 (idx + 1) none else l2) := by
  rw [h.length]
  split
  · unfold SlotsRel at *
    rw [listResize_map, listResize_map, h]
  · exact h

section startend
variable {S : Schema}

theorem seqStartAt_rel (allowSlow : Bool) (node : Node) (len : Option Nat) :
    RTr U (seqStartAt allowSlow S node len) (seqStartAt allowSlow S node len) SeqRel := by
  unfold seqStartAt
  split
  · refine Par.bind (nodeAt_par _) (fun n => Par.bind (blockNew_par _) (fun c => RTr.pure ⟨rfl, rfl⟩))
  · repeat' split
    all_goals first | exact RTr.fail _ | exact RTr.pure rfl
  · split
    · exact RTr.fail _
    · split
      · exact RTr.bind (PoolOp.rel popBuffer_op popBuffer_op)
          (fun b1 b2 h => RTr.pure (by show b1.data = b2.data; rw [h.1, h.2]))
      · exact Par.bind (writeVarI64_par _) (fun _ => RTr.pure rfl)
  · repeat' split
    all_goals first | exact RTr.fail _ | exact RTr.pure rfl
  · exact RTr.fail _

theorem seqStart_rel (allowSlow : Bool) (node : Node) (len : Option Nat) :
    RTr U (seqStart allowSlow S node len) (seqStart allowSlow S node len) SeqRel := by
  unfold seqStart
  exact viaUnion_rel (fun n => seqStartAt_rel allowSlow n len)

theorem structStartAt_rel (node : Node) (len : Nat) (durLen : Option Nat) :
    RTr U (structStartAt S node len durLen) (structStartAt S node len durLen) StructRel := by
  unfold structStartAt
  split
  · exact RTr.bind (PoolOp.rel popSuperBuffer_op popSuperBuffer_op)
      (fun b1 b2 h => RTr.pure ⟨rfl, rfl, by show SlotsRel b1.slots b2.slots; rw [h.1, h.2]; rfl⟩)
  · refine Par.bind (nodeAt_par _) (fun n => Par.bind (blockNew_par _) (fun c => RTr.pure ⟨rfl, rfl⟩))
  · repeat' split
    all_goals first | exact RTr.fail _ | exact RTr.pure rfl
  · exact RTr.fail _

theorem seqEnd_rel {k1 k2 : SeqKind} (h : SeqRel k1 k2) : RTr U (seqEnd k1) (seqEnd k2) Eq := by
  cases k1 <;> cases k2 <;> simp only [SeqRel] at h
  · obtain ⟨rfl, rfl⟩ := h; exact blockEnd_par _
  · subst h; unfold seqEnd; par_auto
  · unfold seqEnd; dsimp only; rw [h]; exact writeLengthDelimited_par _
  · subst h; unfold seqEnd; par_auto

end startend
section trm
variable {S : Schema}

theorem RTr.elimT {α} {m1 m2 : SerM α} {R : α → α → Prop} (h : RTr U m1 m2 R) {o s1 s2}
    (hs : SerSim U o s1 s2) : Out2 U R o (m1 s1) (m2 s2) := h.out o s1 s2 hs

theorem flushBuffered_rel : ∀ (fuel : Nat) (rs1 rs2 : RecordState), RsRel rs1 rs2 →
    RTrT U (flushBuffered fuel rs1) (flushBuffered fuel rs2) RsRel := by
  intro fuel
  induction fuel with
  | zero => intro rs1 rs2 h; exact ⟨fun o s1 s2 hs => OutT.ok h hs⟩
  | succ fuel ih =>
    intro rs1 rs2 h
    refine ⟨fun o s1 s2 hs => ?_⟩
    obtain ⟨hc, hsl⟩ := h
    unfold flushBuffered
    split
    · rename_i b1 hb1
      obtain ⟨b2, hb2, hd⟩ := hsl.some hb1
      rw [← hc, hb2]
      dsimp only
      rw [hd]
      rcases (writeAll_par b2.data).out o s1 s2 hs with
        ⟨_, _, t1, t2, e1, e2, _, ht⟩ | ⟨e, t1, t2, e1, e2, ht⟩
      · rw [e1, e2]
        dsimp only
        rcases (PoolOp.rel (pushBuffer_op (b := { b1 with data := [] }) rfl)
            (pushBuffer_op (b := { b2 with data := [] }) rfl)).out o t1 t2 ht with
          ⟨_, _, u1, u2, f1, f2, _, hu⟩ | ⟨e, u1, u2, f1, f2, hu⟩
        · rw [f1, f2]
          exact (ih _ _ ⟨by simp only [hc], hsl.set _ rfl⟩).out o u1 u2 hu
        · simp [pushBuffer] at f1
      · rw [e1, e2]
        exact OutT.err e _ _ ht
    · rename_i hn1
      have hn2 : ∀ b, rs2.buffers.slots[rs2.current]? = some (some b) → False := by
        intro b2 hb2
        obtain ⟨b1, hb1, _⟩ := hsl.symm.some hb2
        exact hn1 b1 (by rw [hc]; exact hb1)
      split
      · rename_i b2 hb2; exact (hn2 b2 hb2).elim
      · exact OutT.ok ⟨hc, hsl⟩ hs

theorem recordFill_par (f : String × Nat) : Par U (recordFill S f) := by
  unfold recordFill
  refine Par.bind (nodeAt_par _) (fun n => ?_)
  par_auto

theorem recordEnd_rel (fields : List (String × Nat)) : ∀ (fuel : Nat) (rs1 rs2 : RecordState),
    RsRel rs1 rs2 → RTrT U (recordEnd S fields fuel rs1) (recordEnd S fields fuel rs2) RsRel := by
  intro fuel
  induction fuel with
  | zero => intro rs1 rs2 h; exact ⟨fun o s1 s2 hs => OutT.ok h hs⟩
  | succ fuel ih =>
    intro rs1 rs2 h
    refine ⟨fun o s1 s2 hs => ?_⟩
    rw [recordEnd_succ, recordEnd_succ, ← h.1]
    split
    · exact OutT.ok h hs
    · rename_i f hf
      rcases (recordFill_par (S := S) f).out o s1 s2 hs with
        ⟨_, _, t1, t2, e1, e2, _, ht⟩ | ⟨e, t1, t2, e1, e2, ht⟩
      · rw [e1, e2]
        dsimp only
        rw [← h.2.length]
        rcases (flushBuffered_rel rs1.buffers.slots.length { rs1 with current := rs1.current + 1 }
            { rs2 with current := rs1.current + 1 } ⟨rfl, h.2⟩).out o t1 t2 ht with
          ⟨a, b, u1, u2, f1, f2, hab, hu⟩ | ⟨e, k1, k2, u1, u2, f1, f2, hu⟩
        · rw [f1, f2]
          exact (ih a b hab).out o u1 u2 hu
        · rw [f1, f2]
          exact OutT.err e _ _ hu
      · rw [e1, e2]
        exact OutT.err e _ _ ht

end trm
section trm2
variable {S : Schema}

theorem RTrT.lift {σ α} {R : α → α → Prop} (k1 k2 : σ) {m1 m2 : SerM α} (hm : RTr U m1 m2 R) :
    RTrT U (TrM.lift k1 m1) (TrM.lift k2 m2) R := by
  refine ⟨fun o s1 s2 hs => ?_⟩
  unfold TrM.lift
  rcases hm.out o s1 s2 hs with ⟨a, b, t1, t2, e1, e2, hab, ht⟩ | ⟨e, t1, t2, e1, e2, ht⟩
  · rw [e1, e2]; exact OutT.ok hab ht
  · rw [e1, e2]; exact OutT.err e _ _ ht

theorem structEnd_rel {k1 k2 : StructKind} (h : StructRel k1 k2) :
    RTrT U (structEnd S k1) (structEnd S k2) StructRel := by
  refine ⟨fun o s1 s2 hs => ?_⟩
  cases k1 <;> cases k2 <;> simp only [StructRel] at h
  · rename_i fields rs1 _ rs2
    obtain ⟨rfl, hrs⟩ := h
    unfold structEnd
    dsimp only
    rcases (recordEnd_rel (S := S) fields (fields.length + 1) rs1 rs2 hrs).out o s1 s2 hs with
      ⟨a, b, u1, u2, f1, f2, hab, hu⟩ | ⟨e, k1, k2, u1, u2, f1, f2, hu⟩
    · rw [f1, f2]
      dsimp only
      rw [← hab.1]
      split
      · exact OutT.err _ _ _ hu
      · exact OutT.ok ⟨rfl, rfl, rfl⟩ hu
    · rw [f1, f2]
      exact OutT.err e _ _ hu
  · obtain ⟨rfl, rfl⟩ := h
    unfold structEnd
    refine (RTrT.lift _ _ (Par.bind (blockEnd_par _) (fun _ => RTr.pure ?_))).out o s1 s2 hs
    exact ⟨rfl, rfl⟩
  · subst h
    unfold structEnd
    dsimp only
    split
    · refine (RTrT.lift _ _ (Par.bind (writeAll_par _) (fun _ => RTr.pure ?_))).out o s1 s2 hs
      exact (rfl : _ = _)
    · exact OutT.err _ _ _ hs

theorem failDrop_rel {e : SerErr} {fin1 fin2 : SerM Unit} {Q1 Q2 : Unit → Prop}
    (h1 : PoolOp fin1 Q1) (h2 : PoolOp fin2 Q2) :
    RTr U (SerM.finally (SerM.fail e : SerM Unit) fin1) (SerM.finally (SerM.fail e) fin2) Eq :=
  finally_rel (RTr.fail e) h1 h2

theorem structFinish_rel {k1 k2 : StructKind} (h : StructRel k1 k2) :
    RTr U (structFinish S k1) (structFinish S k2) Eq := by
  refine ⟨fun o s1 s2 hs => ?_⟩
  unfold structFinish
  rcases (structEnd_rel (S := S) h).out o s1 s2 hs with
    ⟨a, b, u1, u2, f1, f2, hab, hu⟩ | ⟨e, k1', k2', u1, u2, f1, f2, hu⟩
  · rw [f1, f2]
    exact (finally_rel (RTr.pure (R := Eq) rfl) (structDrop_op a) (structDrop_op b)).out o u1 u2 hu
  · rw [f1, f2]
    exact (failDrop_rel (structDrop_op k1') (structDrop_op k2')).out o u1 u2 hu

theorem seqFinish_rel {m1 m2 : TrM SeqKind SeqKind} (hm : RTrT U m1 m2 SeqRel) :
    RTr U (fun s => seqFinish (m1 s)) (fun s => seqFinish (m2 s)) Eq := by
  refine ⟨fun o s1 s2 hs => ?_⟩
  rcases hm.out o s1 s2 hs with
    ⟨a, b, u1, u2, f1, f2, hab, hu⟩ | ⟨e, k1', k2', u1, u2, f1, f2, hu⟩
  · rw [f1, f2]
    exact (finally_rel (seqEnd_rel hab) (seqDrop_op a) (seqDrop_op b)).out o u1 u2 hu
  · rw [f1, f2]
    exact (failDrop_rel (seqDrop_op k1') (seqDrop_op k2')).out o u1 u2 hu

theorem structBodyFinish_rel {m1 m2 : TrM StructKind StructKind} (hm : RTrT U m1 m2 StructRel) :
    RTr U (fun s => structBodyFinish S (m1 s)) (fun s => structBodyFinish S (m2 s)) Eq := by
  refine ⟨fun o s1 s2 hs => ?_⟩
  rcases hm.out o s1 s2 hs with
    ⟨a, b, u1, u2, f1, f2, hab, hu⟩ | ⟨e, k1', k2', u1, u2, f1, f2, hu⟩
  · rw [f1, f2]
    exact (structFinish_rel hab).out o u1 u2 hu
  · rw [f1, f2]
    exact (failDrop_rel (structDrop_op k1') (structDrop_op k2')).out o u1 u2 hu

theorem recordValue_rel (fields : List (String × Nat)) {rs1 rs2 : RecordState} (idx : Nat)
    {serv1 serv2 : Node → SerM Unit} (h : RsRel rs1 rs2)
    (hserv : ∀ node, RTr U (serv1 node) (serv2 node) Eq) :
    RTrT U (recordValue S fields rs1 idx serv1) (recordValue S fields rs2 idx serv2) RsRel := by
  refine ⟨fun o s1 s2 hs => ?_⟩
  obtain ⟨hc, hsl⟩ := h
  unfold recordValue
  split
  · exact OutT.err _ _ _ hs
  · rename_i f hf
    split
    · exact OutT.err _ _ _ hs
    · rename_i node hnode
      rw [← hc]
      split
      · rcases (hserv node).out o s1 s2 hs with
          ⟨_, _, t1, t2, e1, e2, _, ht⟩ | ⟨e, t1, t2, e1, e2, ht⟩
        · rw [e1, e2]
          dsimp only
          rw [← hsl.length]
          exact (flushBuffered_rel _ { rs1 with current := rs1.current + 1 }
            { rs2 with current := rs1.current + 1 } ⟨rfl, hsl⟩).out o t1 t2 ht
        · rw [e1, e2]
          exact OutT.err e _ _ ht
      · dsimp only
        have hres := hsl.resize idx
        generalize (if rs1.buffers.slots.length ≤ idx then listResize rs1.buffers.slots (idx + 1) none
          else rs1.buffers.slots) = l1 at hres ⊢
        generalize (if rs2.buffers.slots.length ≤ idx then listResize rs2.buffers.slots (idx + 1) none
          else rs2.buffers.slots) = l2 at hres ⊢
        split
        · rename_i b1 hb1
          obtain ⟨b2, hb2, _⟩ := hres.some hb1
          rw [hb2]
          exact OutT.err _ _ _ hs
        · rename_i hn1
          have hn2 : ∀ b, l2[idx]? = some (some b) → False := by
            intro b2 hb2
            obtain ⟨b1, hb1, _⟩ := hres.symm.some hb2
            exact hn1 b1 hb1
          rcases (PoolOp.rel popBuffer_op popBuffer_op).out o s1 s2 hs with
            ⟨b1, b2, t1, t2, e1, e2, hb, ht⟩ | ⟨e, t1, t2, e1, e2, ht⟩
          · rw [e1]
            dsimp only
            rcases (intoBuffer_rel hb.1 hb.2 (hserv node)).out o t1 t2 ht with
              ⟨c1, c2, u1, u2, f1, f2, hcd, hu⟩ | ⟨e, u1, u2, f1, f2, hu⟩
            · rw [f1]
              dsimp only
              split
              · rename_i b2 hb2; exact (hn2 b2 hb2).elim
              · rw [e2]; dsimp only; rw [f2]
                exact OutT.ok ⟨rfl, hres.set idx (by simp [hcd])⟩ hu
            · rw [f1]
              dsimp only
              split
              · rename_i b2 hb2; exact (hn2 b2 hb2).elim
              · rw [e2]; dsimp only; rw [f2]
                exact OutT.err e _ _ hu
          · rw [e1]
            dsimp only
            split
            · rename_i b2 hb2; exact (hn2 b2 hb2).elim
            · rw [e2]
              exact OutT.err e _ _ ht

end trm2
section steps
variable {S : Schema} (ext : Ext) (allowSlow : Bool)

theorem serElems_cons_rel (e : SV) (rest : List SV)
    (hser : ∀ node, Par U (ser ext allowSlow S node e))
    (hrest : ∀ k1 k2, SeqRel k1 k2 →
      RTrT U (serElems ext allowSlow S k1 rest) (serElems ext allowSlow S k2 rest) SeqRel)
    (k1 k2 : SeqKind) (h : SeqRel k1 k2) :
    RTrT U (serElems ext allowSlow S k1 (e :: rest)) (serElems ext allowSlow S k2 (e :: rest))
      SeqRel := by
  refine ⟨fun o s1 s2 hs => ?_⟩
  cases k1 <;> cases k2 <;> simp only [SeqRel] at h
  · rename_i items current _ _
    obtain ⟨rfl, rfl⟩ := h
    rw [serElems, serElems]
    rcases (blockSignal_par current).out o s1 s2 hs with
      ⟨c, _, t1, t2, e1, e2, rfl, ht⟩ | ⟨e, t1, t2, e1, e2, ht⟩
    · rw [e1, e2]
      dsimp only
      rcases (hser items).out o t1 t2 ht with
        ⟨_, _, u1, u2, f1, f2, _, hu⟩ | ⟨e, u1, u2, f1, f2, hu⟩
      · rw [f1, f2]
        exact (hrest (.array items c) (.array items c) ⟨rfl, rfl⟩).out o u1 u2 hu
      · rw [f1, f2]
        exact OutT.err e _ _ hu
    · rw [e1, e2]
      exact OutT.err e _ _ ht
  · rename_i n _
    subst h
    rw [serElems, serElems]
    split
    · exact OutT.err _ _ _ hs
    · split
      · exact OutT.err _ _ _ hs
      · rename_i v hv
        rcases (writeAll_par (leBytes 4 v)).out o s1 s2 hs with
          ⟨_, _, t1, t2, e1, e2, _, ht⟩ | ⟨e, t1, t2, e1, e2, ht⟩
        · rw [e1, e2]
          exact (hrest _ _ (by simp [SeqRel])).out o t1 t2 ht
        · rw [e1, e2]
          exact OutT.err e _ _ ht
  · rename_i b1 b2
    rw [serElems, serElems]
    split
    · exact OutT.err _ _ _ hs
    · exact (hrest _ _ (by simp [SeqRel, h])).out o s1 s2 hs
  · rename_i n _
    subst h
    cases n with
    | zero => rw [serElems, serElems]; exact OutT.err _ _ _ hs
    | succ n =>
      rw [serElems, serElems]
      split
      · exact OutT.err _ _ _ hs
      · rename_i b hb
        rcases (writeAll_par [b]).out o s1 s2 hs with
          ⟨_, _, t1, t2, e1, e2, _, ht⟩ | ⟨e, t1, t2, e1, e2, ht⟩
        · rw [e1, e2]
          exact (hrest _ _ (by simp [SeqRel])).out o t1 t2 ht
        · rw [e1, e2]
          exact OutT.err e _ _ ht

end steps
section steps2
variable {S : Schema} (ext : Ext) (allowSlow : Bool)

theorem mapKey_par (current : Nat) (name : String) :
    Par U (do let c ← blockSignal current; writeLengthDelimited (strBytes name); pure c : SerM Nat) :=
  Par.bind (blockSignal_par _) (fun _ => Par.bind (writeLengthDelimited_par _)
    (fun _ => RTr.pure rfl))

theorem serFields_cons_rel (name : String) (v : SV) (rest : List (String × SV))
    (hser : ∀ node, Par U (ser ext allowSlow S node v))
    (hrest : ∀ k1 k2, StructRel k1 k2 →
      RTrT U (serFields ext allowSlow S k1 rest) (serFields ext allowSlow S k2 rest) StructRel)
    (k1 k2 : StructKind) (h : StructRel k1 k2) :
    RTrT U (serFields ext allowSlow S k1 ((name, v) :: rest))
      (serFields ext allowSlow S k2 ((name, v) :: rest)) StructRel := by
  refine ⟨fun o s1 s2 hs => ?_⟩
  cases k1 <;> cases k2 <;> simp only [StructRel] at h
  · rename_i fields rs1 _ rs2
    obtain ⟨rfl, hrs⟩ := h
    rw [serFields, serFields]
    have hfi : fieldIdx fields rs2 name = fieldIdx fields rs1 name := by
      unfold fieldIdx; rw [hrs.1]
    rw [hfi]
    split
    · exact OutT.err _ _ _ hs
    · rename_i idx hidx
      rcases (recordValue_rel (S := S) fields idx hrs hser).out o s1 s2 hs with
        ⟨a, b, u1, u2, f1, f2, hab, hu⟩ | ⟨e, k1', k2', u1, u2, f1, f2, hu⟩
      · rw [f1, f2]
        exact (hrest (.record fields a) (.record fields b) ⟨rfl, hab⟩).out o u1 u2 hu
      · rw [f1, f2]
        exact OutT.err e _ _ hu
  · rename_i values current _ _
    obtain ⟨rfl, rfl⟩ := h
    rw [serFields, serFields]
    rcases (mapKey_par current name).out o s1 s2 hs with
      ⟨c, _, t1, t2, e1, e2, rfl, ht⟩ | ⟨e, t1, t2, e1, e2, ht⟩
    · rw [e1, e2]
      dsimp only
      rcases (hser values).out o t1 t2 ht with
        ⟨_, _, u1, u2, f1, f2, _, hu⟩ | ⟨e, u1, u2, f1, f2, hu⟩
      · rw [f1, f2]
        exact (hrest (.map values c) (.map values c) ⟨rfl, rfl⟩).out o u1 u2 hu
      · rw [f1, f2]
        exact OutT.err e _ _ hu
    · rw [e1, e2]
      exact OutT.err e _ _ ht
  · subst h
    rw [serFields, serFields]
    repeat' split
    all_goals first
      | exact OutT.err _ _ _ hs
      | exact (hrest (.duration _) (.duration _) rfl).out o s1 s2 hs

theorem serEntries_cons_rel (key v : SV) (rest : List (SV × SV))
    (hkey : ∀ node, Par U (ser ext allowSlow S node key))
    (hser : ∀ node, Par U (ser ext allowSlow S node v))
    (hrest : ∀ k1 k2, StructRel k1 k2 →
      RTrT U (serEntries ext allowSlow S k1 rest) (serEntries ext allowSlow S k2 rest) StructRel)
    (k1 k2 : StructKind) (h : StructRel k1 k2) :
    RTrT U (serEntries ext allowSlow S k1 ((key, v) :: rest))
      (serEntries ext allowSlow S k2 ((key, v) :: rest)) StructRel := by
  refine ⟨fun o s1 s2 hs => ?_⟩
  cases k1 <;> cases k2 <;> simp only [StructRel] at h
  · rename_i fields rs1 _ rs2
    obtain ⟨rfl, hrs⟩ := h
    rw [serEntries, serEntries]
    split
    · exact OutT.err _ _ _ hs
    · rename_i name hname
      have hfi : fieldIdx fields rs2 name = fieldIdx fields rs1 name := by
        unfold fieldIdx; rw [hrs.1]
      rw [hfi]
      split
      · exact OutT.err _ _ _ hs
      · rename_i idx hidx
        rcases (recordValue_rel (S := S) fields idx hrs hser).out o s1 s2 hs with
          ⟨a, b, u1, u2, f1, f2, hab, hu⟩ | ⟨e, k1', k2', u1, u2, f1, f2, hu⟩
        · rw [f1, f2]
          exact (hrest (.record fields a) (.record fields b) ⟨rfl, hab⟩).out o u1 u2 hu
        · rw [f1, f2]
          exact OutT.err e _ _ hu
  · rename_i values current _ _
    obtain ⟨rfl, rfl⟩ := h
    rw [serEntries, serEntries]
    rcases (blockSignal_par current).out o s1 s2 hs with
      ⟨c, _, t1, t2, e1, e2, rfl, ht⟩ | ⟨e, t1, t2, e1, e2, ht⟩
    · rw [e1, e2]
      dsimp only
      rcases (hkey .string).out o t1 t2 ht with
        ⟨_, _, u1, u2, f1, f2, _, hu⟩ | ⟨e, u1, u2, f1, f2, hu⟩
      · rw [f1, f2]
        dsimp only
        rcases (hser values).out o u1 u2 hu with
          ⟨_, _, w1, w2, g1, g2, _, hw⟩ | ⟨e, w1, w2, g1, g2, hw⟩
        · rw [g1, g2]
          exact (hrest (.map values c) (.map values c) ⟨rfl, rfl⟩).out o w1 w2 hw
        · rw [g1, g2]
          exact OutT.err e _ _ hw
      · rw [f1, f2]
        exact OutT.err e _ _ hu
    · rw [e1, e2]
      exact OutT.err e _ _ ht
  · subst h
    rw [serEntries, serEntries]
    repeat' split
    all_goals first
      | exact OutT.err _ _ _ hs
      | exact (hrest (.duration _) (.duration _) rfl).out o s1 s2 hs

end steps2

section main
variable {S : Schema} (ext : Ext) (allowSlow : Bool)

mutual

theorem ser_par : ∀ (sv : SV) (node : Node), Par U (ser ext allowSlow S node sv)
  | .bool b, node => by rw [ser]; exact serBool_par b
  | .int t v, node => by rw [ser]; exact serInteger_par t v
  | .f32 bits, node => by rw [ser]; exact serF32_par bits
  | .f64 bits, node => by rw [ser]; exact serF64_par ext bits
  | .char c, node => by rw [ser]; exact serStr_par ext _
  | .str s, node => by rw [ser]; exact serStr_par ext s
  | .bytes b, node => by rw [ser]; exact serBytes_par b
  | .none, node => by rw [ser]; exact serUnit_par
  | .some v, node => by rw [ser]; exact ser_par v node
  | .unit, node => by rw [ser]; exact serUnit_par
  | .unitStruct name, node => by rw [ser]; exact serUnitStruct_par ext name
  | .unitVariant _ _ variant, node => by rw [ser]; exact serUnitVariant_par ext variant
  | .newtypeStruct name v, node => by
    rw [ser]; exact viaName_rel (fun n => ser_par v n)
  | .newtypeVariant _ _ variant v, node => by
    rw [ser]; exact viaName_rel (fun n => ser_par v n)
  | .seq len elems, node => by
    rw [ser]
    exact RTr.bind (seqStart_rel allowSlow node len)
      (fun k1 k2 hk => seqFinish_rel (serElems_rel elems k1 k2 hk))
  | .tuple elems, node => by
    rw [ser]
    exact RTr.bind (seqStart_rel allowSlow node _)
      (fun k1 k2 hk => seqFinish_rel (serElems_rel elems k1 k2 hk))
  | .tupleStruct _ elems, node => by
    rw [ser]
    exact RTr.bind (seqStart_rel allowSlow node _)
      (fun k1 k2 hk => seqFinish_rel (serElems_rel elems k1 k2 hk))
  | .tupleVariant _ _ variant elems, node => by
    rw [ser]
    exact viaName_rel (fun n => RTr.bind (seqStart_rel allowSlow n _)
      (fun k1 k2 hk => seqFinish_rel (serElems_rel elems k1 k2 hk)))
  | .map len entries, node => by
    rw [ser]
    exact viaUnion_rel (fun n => RTr.bind (structStartAt_rel n _ _)
      (fun k1 k2 hk => structBodyFinish_rel (serEntries_rel entries k1 k2 hk)))
  | .struct name fields, node => by
    rw [ser]
    exact viaName_rel (fun n => viaUnion_rel (fun n =>
      RTr.bind (structStartAt_rel n _ _)
        (fun k1 k2 hk => structBodyFinish_rel (serFields_rel fields k1 k2 hk))))
  | .structVariant _ _ variant fields, node => by
    rw [ser]
    exact viaName_rel (fun n => viaUnion_rel (fun n =>
      RTr.bind (structStartAt_rel n _ _)
        (fun k1 k2 hk => structBodyFinish_rel (serFields_rel fields k1 k2 hk))))

theorem serElems_rel : ∀ (elems : List SV) (k1 k2 : SeqKind), SeqRel k1 k2 →
    RTrT U (serElems ext allowSlow S k1 elems) (serElems ext allowSlow S k2 elems) SeqRel
  | [], k1, k2, h => ⟨fun o s1 s2 hs => by rw [serElems, serElems]; exact OutT.ok h hs⟩
  | e :: rest, k1, k2, h =>
    serElems_cons_rel ext allowSlow e rest (fun node => ser_par e node)
      (fun k1 k2 h => serElems_rel rest k1 k2 h) k1 k2 h

theorem serFields_rel : ∀ (fs : List (String × SV)) (k1 k2 : StructKind), StructRel k1 k2 →
    RTrT U (serFields ext allowSlow S k1 fs) (serFields ext allowSlow S k2 fs) StructRel
  | [], k1, k2, h => ⟨fun o s1 s2 hs => by rw [serFields, serFields]; exact OutT.ok h hs⟩
  | (name, v) :: rest, k1, k2, h =>
    serFields_cons_rel ext allowSlow name v rest (fun node => ser_par v node)
      (fun k1 k2 h => serFields_rel rest k1 k2 h) k1 k2 h

theorem serEntries_rel : ∀ (es : List (SV × SV)) (k1 k2 : StructKind), StructRel k1 k2 →
    RTrT U (serEntries ext allowSlow S k1 es) (serEntries ext allowSlow S k2 es) StructRel
  | [], k1, k2, h => ⟨fun o s1 s2 hs => by rw [serEntries, serEntries]; exact OutT.ok h hs⟩
  | (key, v) :: rest, k1, k2, h =>
    serEntries_cons_rel ext allowSlow key v rest (fun node => ser_par key node)
      (fun node => ser_par v node)
      (fun k1 k2 h => serEntries_rel rest k1 k2 h) k1 k2 h

end

end main
end Avro.Theorems
