import AvroModel.Lemmas.RenderPcf
import AvroModel.Theorems.C08spec
/-
C09 (global) composed with C08 (`C08_pcf_is_spec`): **the re-parsed schema has the canonical form
of the schema in use.**

If the JSON rendered for a node graph `S` is accepted by the parser, the graph `S'` the parser
builds has the same Parsing Canonical Form text (hence the same fingerprints) as `S`.

This module is separate from `Theorems/C09global.lean` because `Theorems/C08spec.lean` rests on
`Lemmas/SchemaParse.lean` and `Theorems/C09global.lean` on `Lemmas/SchemaRender.lean`, which
cannot be imported together; the hypothesis on names is therefore stated with
`RenderPcf.NameWF` / `RenderPcf.namesWFb` (clause for clause `Avro.Impl.Name.WF`, see
`Theorems.nameWF_iff` in `Theorems/C09global.lean`).
-/
namespace Avro.Theorems
open Avro Avro.Impl Avro.Spec.Pcf

/-- **C09 ∘ C08.**  `fuel`: the renderer's; `n`: the parser's node-count parameter. -/
theorem C09_reparsed_has_same_pcf (S : SchemaMut) (fuel : Nat) (j : Json) (n : Nat)
    (S' : SchemaMut)
    (hwf : ∀ (i : Nat) (node : RawNode) (nm : Name),
      S[i]? = some node → RenderPcf.nameOf node.type = some nm → RenderPcf.NameWF nm)
    (hrender : renderJson S fuel = .ok j) (hparse : parseJson j n = .ok S') :
    ∃ text, parsingCanonicalForm j = some text ∧
      (∀ fuel', fuel ≤ fuel' → canonicalForm S fuel' = .ok text) ∧
      (∀ fuel'', n + 2 ≤ fuel'' → canonicalForm S' fuel'' = .ok text) := by
  obtain ⟨hnf, text, h1, h2⟩ := RenderPcf.render_has_graph_pcf S fuel j hwf hrender
  obtain ⟨text', h1', h3⟩ := C08_pcf_is_spec_text j n S' hparse hnf
  rw [h1] at h1'
  cases h1'
  exact ⟨text, h1, h2, h3⟩

/-- In one equation. -/
theorem C09_reparsed_canonicalForm_eq (S : SchemaMut) (fuel : Nat) (j : Json) (n : Nat)
    (S' : SchemaMut) (hwf : RenderPcf.namesWFb S = true)
    (hrender : renderJson S fuel = .ok j) (hparse : parseJson j n = .ok S')
    (fuel' fuel'' : Nat) (h' : fuel ≤ fuel') (h'' : n + 2 ≤ fuel'') :
    canonicalForm S' fuel'' = canonicalForm S fuel' := by
  obtain ⟨text, -, h2, h3⟩ :=
    C09_reparsed_has_same_pcf S fuel j n S' (RenderPcf.namesWF_of_b S hwf) hrender hparse
  rw [h2 fuel' h', h3 fuel'' h'']

/-! ### concrete graphs -/

/-- render, parse again, canonical form of the result -/
def reparsedPcf (S : SchemaMut) (fuel n fuel'' : Nat) : Option String :=
  match renderJson S fuel with
  | .error _ => none
  | .ok j =>
    match parseJson j n with
    | .error _ => none
    | .ok S' =>
      match canonicalForm S' fuel'' with
      | .ok t => some t
      | .error _ => none

def graphPcf' (S : SchemaMut) (fuel : Nat) : Option String :=
  match canonicalForm S fuel with
  | .ok t => some t
  | .error _ => none

/-- recursive record in a namespace, enum of another namespace referenced from both, shared
    union and array nodes (`graphRecursive` of `Theorems/C09global.lean`) -/
def graphRecursive' : SchemaMut := #[
  ⟨.record ⟨"ns.Node", "Node", some "ns"⟩
      [("value", 1), ("next", 2), ("color", 3), ("more", 4), ("box", 6)], none⟩,
  ⟨.long, none⟩,
  ⟨.union [5, 0], none⟩,
  ⟨.enum ⟨"other.Color", "Color", some "other"⟩ ["R", "G"], none⟩,
  ⟨.array 3, none⟩,
  ⟨.null, none⟩,
  ⟨.record ⟨"other.Box", "Box", some "other"⟩ [("c", 3), ("n", 2), ("again", 4)], none⟩]

/-- logical types, `"namespace": ""`, keyword short names (`graphLogical` of
    `Theorems/C09global.lean`) -/
def graphLogical' : SchemaMut := #[
  ⟨.record ⟨"a.R", "R", some "a"⟩
      [("d", 1), ("f", 2), ("g", 2), ("dec", 3), ("kw", 4), ("kw2", 4), ("kw3", 5), ("kw4", 5)],
    none⟩,
  ⟨.int, some .date⟩,
  ⟨.fixed ⟨"a.F", "F", some "a"⟩ 12, some .duration⟩,
  ⟨.bytes, some (.decimal 2 10)⟩,
  ⟨.enum ⟨"int", "int", none⟩ ["x"], none⟩,
  ⟨.fixed ⟨"a.string", "string", some "a"⟩ 1, some (.unknown "my-type")⟩]

example :
    (reparsedPcf graphRecursive' 30 30 40).isSome = true ∧
    reparsedPcf graphRecursive' 30 30 40 = graphPcf' graphRecursive' 30 ∧
    (reparsedPcf graphLogical' 30 30 40).isSome = true ∧
    reparsedPcf graphLogical' 30 30 40 = graphPcf' graphLogical' 30 := by
  refine ⟨by decide +kernel, by decide +kernel, by decide +kernel, by decide +kernel⟩

/-- Two different enums with the same fullname: the rendered document has the canonical form of
    the graph (`C09_distinct_not_needed`), but the parser rejects it (name defined twice) — the
    hypothesis `hparse` is where distinctness of names comes in. -/
example :
    reparsedPcf #[
      ⟨.record ⟨"R", "R", none⟩ [("a", 1), ("b", 2), ("c", 1), ("d", 2)], none⟩,
      ⟨.enum ⟨"E", "E", none⟩ ["A"], none⟩,
      ⟨.enum ⟨"E", "E", none⟩ ["B"], none⟩] 12 30 40 = none := by
  decide +kernel

end Avro.Theorems
