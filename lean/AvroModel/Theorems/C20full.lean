import AvroModel.Theorems.C20
import AvroModel.Theorems.C20inv
/-
C20 — derived schemas fit their types, all parts together:
* `Theorems/C20.lean`: the reuse discipline of `find_or_build` (a registered type is never built
  again; an unregistered one is registered before it is built), the type → Avro-type mapping;
* `Theorems/C20inv.lean`: for EVERY program, type, hash function and fuel — the builder is
  append-only, every successful build has all its keys in bounds and its root at node 0, the
  result does not depend on the fuel (the build is a deterministic function of the program), and a
  type built once is found again unchanged.
-/
