import AvroModel.Theorems.C20
import AvroModel.Theorems.C20inv
import AvroModel.Theorems.C20names
import AvroModel.Theorems.C20fits
import AvroModel.Theorems.C20more
import AvroModel.Theorems.C20wider
import AvroModel.Theorems.C20widerU
/-
C20 — derived schemas fit their types, all parts together:
* `Theorems/C20.lean`: the reuse discipline of `find_or_build` (a registered type is never built
  again; an unregistered one is registered before it is built), the type → Avro-type mapping;
* `Theorems/C20inv.lean`: for EVERY program, type, hash function and fuel — the builder is
  append-only, every successful build has all its keys in bounds and its root at node 0, the
  result does not depend on the fuel (the build is a deterministic function of the program), and a
  type built once is found again unchanged;
* `Theorems/C20names.lean`: one definition per fullname (`C20_names_distinct`) for every program
  satisfying the explicit, decidable predicate `NamesWfOn` (distinct declared names, distinct
  field / variant identifiers, an instantiation hash that is injective and dot-free on the
  finitely many generic-record keys the build registers — `genericRecordKeys` —, and the three
  structural exclusions that the negation witnesses show to be necessary); the form with a
  globally injective hash (`NamesWf`) is the corollary `C20_names_distinct_global`; distinct generic instantiations
  get distinct names; witnesses for D22, D23 (old behaviour) and for the open D24 / D26 shapes;
* `Theorems/C20fits.lean`: every value of a type in the fragment `FitWf` (resp. `FitWfU` with the
  hypothesis that variant names select their own branch) serializes under the derived schema
  (`C20_fits`, `C20_fits_unions`), through `Realizes` (the derived graph realises the type);
  the round-trip half then follows from C01/C02 on that schema and is checked per generated
  value by the `derive` stream;
* `Theorems/C20more.lean`: `UnionNames` derived from the program text (`UnionNamesText`, decidable:
  every variant's serde name is a name of its own branch and of no other) and the fits theorem
  for generic records (`FitWfG`, `C20_fits_generic`; lookup keys are prefix codes).
-/
